/-
  Helper lemmas of C04 part c04_allocsafe7 (Mpir/Model/AllocSafeMpf7.lean): block reads / writes inside the block.
-/
import MpirProofs.Lemmas.Mpf
import MpirProofs.Props.C13
import Mpir.Model.AllocSafeMpf7
namespace Mpir.AllocSafe7
open Mpir

/-- a block really has `alloc` limbs -/
def BlkWF (b : Blk) : Prop := b.limbs.length = b.alloc

/-- what every mpf function may rely on for its destination: a block of at least PREC + 1 limbs (mpf_init2: exactly PREC + 1;
    more only after mpf_set_prec_raw) -/
def DestWF (o : FObj) : Prop := BlkWF o.blk ∧ o.prec + 1 ≤ o.blk.alloc

/-- what every mpf function may rely on for an operand: its |SIZ| limbs lie inside its block -/
def OpndWF (o : FObj) : Prop := BlkWF o.blk ∧ o.size.natAbs ≤ o.blk.alloc

theorem Blk.read_ok (b : Blk) (off n : Nat) (hb : BlkWF b) (h : off + n ≤ b.alloc) :
    (b.read off n).2 = true ∧ (b.read off n).1.length = n := by
  unfold BlkWF at hb
  simp only [Blk.read, decide_eq_true_eq, List.length_take, List.length_drop]
  omega

theorem Blk.write_ok (b : Blk) (off : Nat) (l : List Nat) (hb : BlkWF b) (h : off + l.length ≤ b.alloc) :
    (b.write off l).2 = true ∧ (b.write off l).1.alloc = b.alloc ∧ BlkWF (b.write off l).1 ∧
    (b.write off l).1.limbs = b.limbs.take off ++ l ++ b.limbs.drop (off + l.length) := by
  unfold BlkWF at hb ⊢
  simp only [Blk.write, if_pos h, List.length_append, List.length_take, List.length_drop, true_and, and_true]
  omega

theorem Blk.write_bad (b : Blk) (off : Nat) (l : List Nat) (h : b.alloc < off + l.length) :
    (b.write off l).2 = false := by
  simp only [Blk.write, if_neg (Nat.not_le.mpr h)]

theorem take_write0 (L l : List Nat) : ((L.take 0 ++ l ++ L.drop (0 + l.length)).take l.length) = l := by
  simp

/-- the limb selection of set.c / set_z.c (`up += asize - prec; asize = prec`) is `Mpf.top` -/
theorem sel_top (L : List Nat) (asize p1 : Nat) (h : asize ≤ L.length) :
    (L.drop (if asize > p1 then asize - p1 else 0)).take (if asize > p1 then p1 else asize) = Mpf.top p1 (L.take asize) := by
  unfold Mpf.top
  rw [List.length_take, Nat.min_eq_left h]
  split
  · rename_i hgt
    rw [List.drop_take]
    congr 1; omega
  · rename_i hle
    have : asize - p1 = 0 := by omega
    rw [this]; simp

theorem obj_setSE_blk (s : St) (a b : Int) (x : Src) : ((s.setSE a b).obj x).blk = (s.obj x).blk := by
  cases x <;> rfl


/-- MPN_COPY (rp, xp + off, n) with the source range inside its block and n limbs of room at rp -/
theorem copyToR_spec (s : St) (x : Src) (off n : Nat) (hs : s.ok = true) (hrb : BlkWF s.r.blk) (hxb : BlkWF (s.obj x).blk)
    (h1 : off + n ≤ (s.obj x).blk.alloc) (h2 : n ≤ s.r.blk.alloc) :
    (s.copyToR 0 x off n).ok = true ∧ (s.copyToR 0 x off n).u = s.u ∧ (s.copyToR 0 x off n).v = s.v ∧
    (s.copyToR 0 x off n).r.prec = s.r.prec ∧ (s.copyToR 0 x off n).r.size = s.r.size ∧ (s.copyToR 0 x off n).r.exp = s.r.exp ∧
    (s.copyToR 0 x off n).r.blk.alloc = s.r.blk.alloc ∧ BlkWF (s.copyToR 0 x off n).r.blk ∧
    (s.copyToR 0 x off n).r.blk.limbs.take n = ((s.obj x).blk.limbs.drop off).take n := by
  have hR := Blk.read_ok (s.obj x).blk off n hxb h1
  have hW := Blk.write_ok s.r.blk 0 ((s.obj x).blk.read off n).1 hrb (by rw [hR.2]; omega)
  simp only [St.copyToR, St.rd, St.wrR, hs, hR.1, hW.1, hW.2.1, hW.2.2.1, hW.2.2.2, Bool.and_self, true_and]
  have := take_write0 s.r.blk.limbs ((s.obj x).blk.read off n).1
  rw [hR.2] at this
  rw [hR.2, this]; rfl

/-- a store through rp inside the block -/
theorem wrR_spec (s : St) (off : Nat) (l : List Nat) (hs : s.ok = true) (hrb : BlkWF s.r.blk) (h : off + l.length ≤ s.r.blk.alloc) :
    (s.wrR off l).ok = true ∧ (s.wrR off l).u = s.u ∧ (s.wrR off l).v = s.v ∧ (s.wrR off l).t = s.t ∧
    (s.wrR off l).r.prec = s.r.prec ∧ (s.wrR off l).r.size = s.r.size ∧ (s.wrR off l).r.exp = s.r.exp ∧
    (s.wrR off l).r.blk.alloc = s.r.blk.alloc ∧ BlkWF (s.wrR off l).r.blk ∧
    (s.wrR off l).r.blk.limbs = s.r.blk.limbs.take off ++ l ++ s.r.blk.limbs.drop (off + l.length) := by
  have hW := Blk.write_ok s.r.blk off l hrb h
  simp only [St.wrR, hs, hW.1, hW.2.1, hW.2.2.1, hW.2.2.2, Bool.and_self, true_and, and_self]

/-- a store through rp that leaves the block -/
theorem wrR_bad (s : St) (off : Nat) (l : List Nat) (h : s.r.blk.alloc < off + l.length) : (s.wrR off l).ok = false := by
  simp only [St.wrR, Blk.write_bad _ _ _ h, Bool.and_false]

/-- a load inside the block of an operand: the state is unchanged, the limbs are those of the range -/
theorem rd_spec (s : St) (x : Src) (off n : Nat) (hs : s.ok = true) (h : off + n ≤ (s.obj x).blk.alloc) :
    (s.rd x off n).2 = s ∧ (s.rd x off n).1 = ((s.obj x).blk.limbs.drop off).take n := by
  cases s
  simp only at hs
  subst hs
  simp only [St.rd, Blk.read, Bool.true_and, decide_eq_true_eq.mpr h, and_self]

theorem take_two_writes (L a : List Nat) (c : Nat) (k : Nat) (hk : k ≤ 1) :
    ((((L.take 0 ++ a ++ L.drop (0 + a.length)).take a.length) ++ [c] ++
      (L.take 0 ++ a ++ L.drop (0 + a.length)).drop (a.length + [c].length)).take (a.length + k)) =
    (if k = 1 then a ++ [c] else a) := by
  have h0 : (L.take 0 ++ a ++ L.drop (0 + a.length)).take a.length = a := take_write0 L a
  rw [h0]
  rcases Nat.le_one_iff_eq_zero_or_eq_one.mp hk with h | h <;> subst h
  · simp
  · simp
    rw [show a ++ c :: List.drop (a.length + 1) L = (a ++ [c]) ++ List.drop (a.length + 1) L by simp]
    rw [List.take_append_of_le_length (by simp)]
    simp


/-- between the entry of mpf_add and the copy to rp: only the TMP area (T limbs) has been written -/
structure TInv (s0 s : St) (T : Nat) : Prop where
  ok : s.ok = true
  r : s.r = s0.r
  u : s.u = s0.u
  v : s.v = s0.v
  ta : s.t.alloc = T
  tw : BlkWF s.t

theorem TInv.obj {s0 s : St} {T : Nat} (I : TInv s0 s T) (x : Src) : s.obj x = s0.obj x := by
  cases x
  · exact I.r
  · exact I.u
  · exact I.v

theorem TInv.wrT {s0 s : St} {T : Nat} (I : TInv s0 s T) (off : Nat) (l : List Nat) (h : off + l.length ≤ T) :
    TInv s0 (s.wrT off l) T := by
  have hW := Blk.write_ok s.t off l I.tw (by rw [I.ta]; exact h)
  exact ⟨by simp only [St.wrT, I.ok, hW.1, Bool.and_self], I.r, I.u, I.v, by simp only [St.wrT, hW.2.1, I.ta], by
    simp only [St.wrT]; exact hW.2.2.1⟩

theorem TInv.rd {s0 s : St} {T : Nat} (I : TInv s0 s T) (x : Src) (off n : Nat) (hb : BlkWF (s0.obj x).blk)
    (h : off + n ≤ (s0.obj x).blk.alloc) : (s.rd x off n).2 = s ∧ (s.rd x off n).1.length = n := by
  have := rd_spec s x off n I.ok (by rw [I.obj]; exact h)
  refine ⟨this.1, ?_⟩
  rw [this.2, I.obj, List.length_take, List.length_drop, hb]; omega

theorem TInv.rdT {s0 s : St} {T : Nat} (I : TInv s0 s T) (off n : Nat) (h : off + n ≤ T) :
    (s.rdT off n).2 = s ∧ (s.rdT off n).1.length = n := by
  have hR := Blk.read_ok s.t off n I.tw (by rw [I.ta]; exact h)
  have hk := I.ok
  cases s
  simp only at hk
  subst hk
  simp only [St.rdT, hR.1, hR.2, Bool.and_self, and_self]

theorem addv_len (x y : List Nat) : (Mpf.addv x y).1.length = x.length := by
  simp only [Mpf.addv, Mpf.toLimbs_length]


/-- the three alignments stay inside the operands' limbs and inside the TMP area of `T` limbs, and give rsize ≤ T -/
theorem addAlign_safe {s0 s : St} {T : Nat} (I : TInv s0 s T) (us vs : Src) (uoff usize voff vsize ed : Nat)
    (hub : BlkWF (s0.obj us).blk) (hvb : BlkWF (s0.obj vs).blk)
    (hu : uoff + usize ≤ (s0.obj us).blk.alloc) (hv : voff + vsize ≤ (s0.obj vs).blk.alloc)
    (h1 : vsize + ed ≤ T) (h2 : usize ≤ T) :
    TInv s0 (addAlign s us uoff usize vs voff vsize ed).1 T ∧ (addAlign s us uoff usize vs voff vsize ed).2.1 ≤ T := by
  unfold addAlign
  by_cases c1 : usize > ed
  · rw [if_pos c1]
    by_cases c2 : vsize + ed ≤ usize
    · rw [if_pos c2]
      have A := I.rd us uoff (usize - ed - vsize) hub (by omega)
      simp only [A.1]
      have I1 := I.wrT 0 (s.rd us uoff (usize - ed - vsize)).1 (by rw [A.2]; omega)
      have X := I1.rd us (uoff + (usize - ed - vsize)) (usize - (usize - ed - vsize)) hub (by omega)
      simp only [X.1]
      have Y := I1.rd vs voff vsize hvb hv
      simp only [Y.1]
      exact ⟨I1.wrT _ _ (by rw [addv_len, X.2]; omega), h2⟩
    · rw [if_neg c2]
      have A := I.rd vs voff (vsize + ed - usize) hvb (by omega)
      simp only [A.1]
      have I1 := I.wrT 0 (s.rd vs voff (vsize + ed - usize)).1 (by rw [A.2]; omega)
      have X := I1.rd us uoff usize hub hu
      simp only [X.1]
      have Y := I1.rd vs (voff + (vsize + ed - usize)) (usize - ed) hvb (by omega)
      simp only [Y.1]
      exact ⟨I1.wrT _ _ (by rw [addv_len, X.2]; omega), h1⟩
  · rw [if_neg c1]
    have A := I.rd vs voff vsize hvb hv
    simp only [A.1]
    have I1 := I.wrT 0 (s.rd vs voff vsize).1 (by rw [A.2]; omega)
    have I2 := I1.wrT vsize (List.replicate (ed - usize) 0) (by rw [List.length_replicate]; omega)
    have X := I2.rd us uoff usize hub hu
    simp only [X.1]
    exact ⟨I2.wrT _ _ (by rw [X.2]; omega), by omega⟩


/-- what a call may have done to the state: no access left a block, only the destination's header and limbs changed,
    its precision and its block length did not -/
structure Fr (s0 s : St) : Prop where
  ok : s.ok = true
  u : s.u = s0.u
  v : s.v = s0.v
  prec : s.r.prec = s0.r.prec
  alloc : s.r.blk.alloc = s0.r.blk.alloc
  wf : BlkWF s.r.blk

theorem Fr.setSE {s0 s : St} (F : Fr s0 s) (a b : Int) : Fr s0 (s.setSE a b) := ⟨F.ok, F.u, F.v, F.prec, F.alloc, F.wf⟩

theorem addStore_safe {s0 s : St} {T : Nat} (I : TInv s0 s T) (rsize cy : Nat) (hr : rsize ≤ T)
    (hrb : BlkWF s0.r.blk) (hra : T + 1 ≤ s0.r.blk.alloc) :
    Fr s0 (addStore (s, rsize, cy)).1 ∧ (addStore (s, rsize, cy)).2 = (rsize, cy) := by
  unfold addStore
  have R := I.rdT 0 rsize (by omega)
  simp only [R.1]
  have hb : BlkWF s.r.blk := by rw [I.r]; exact hrb
  have ha : s.r.blk.alloc = s0.r.blk.alloc := by rw [I.r]
  obtain ⟨a1, a2, a3, _, a4, _, _, a7, a8, _⟩ := wrR_spec s 0 (s.rdT 0 rsize).1 I.ok hb (by rw [R.2, ha]; omega)
  obtain ⟨b1, b2, b3, _, b4, _, _, b7, b8, _⟩ := wrR_spec (s.wrR 0 (s.rdT 0 rsize).1) rsize [cy] a1 a8
    (by rw [a7, ha]; simp only [List.length_singleton]; omega)
  refine ⟨⟨b1, (b2.trans a2).trans I.u, (b3.trans a3).trans I.v, (b4.trans a4).trans (by rw [I.r]),
    (b7.trans a7).trans ha, b8⟩, by first | rfl | trivial⟩

theorem addSameSign_safe (s : St) (negate : Bool) (us vs : Src) (hs : s.ok = true) (hr : DestWF s.r)
    (hu : OpndWF (s.obj us)) (hv : OpndWF (s.obj vs)) (he : (s.obj vs).exp ≤ (s.obj us).exp) :
    Fr s (addSameSign 0 s negate us vs) := by
  obtain ⟨hrb, hra⟩ := hr
  obtain ⟨hub, hua⟩ := hu
  obtain ⟨hvb, hva⟩ := hv
  unfold addSameSign
  simp only [Nat.add_zero]
  generalize hP : s.r.prec = P at hra
  generalize (s.obj us).size.natAbs = usize at hua
  generalize (s.obj vs).size.natAbs = vsize at hva
  generalize hed : (s.obj us).exp - (s.obj vs).exp = ediff
  have hed0 : 0 ≤ ediff := by omega
  have I : TInv s (s.tmpAlloc P) P := ⟨hs, rfl, rfl, rfl, rfl, by simp [BlkWF, St.tmpAlloc, Blk.new]⟩
  generalize huo : (if usize > P then usize - P else 0) = uoff
  generalize hus : (if usize > P then P else usize) = usz
  have hu1 : uoff + usz ≤ (s.obj us).blk.alloc := by subst huo hus; split <;> omega
  have hu2 : usz ≤ P := by subst hus; split <;> omega
  by_cases c : ediff ≥ (P : Int)
  · rw [if_pos c]
    apply Fr.setSE
    by_cases c2 : us = .r ∧ uoff = 0
    · rw [if_pos c2]; exact ⟨hs, rfl, rfl, rfl, rfl, hrb⟩
    · rw [if_neg c2]
      have C := copyToR_spec (s.tmpAlloc P) us uoff usz hs hrb
        (by rw [I.obj]; exact hub) (by rw [I.obj]; exact hu1) (by show _ ≤ s.r.blk.alloc; omega)
      exact ⟨C.1, C.2.1, C.2.2.1, C.2.2.2.1, C.2.2.2.2.2.2.1, C.2.2.2.2.2.2.2.1⟩
  · rw [if_neg c]
    apply Fr.setSE
    unfold addOverlap
    have c' : ediff < (P : Int) := by omega
    generalize hvo : (if decide ((vsize : Int) + ediff > (P : Int)) = true then ((vsize : Int) + ediff - (P : Int)).toNat else 0) = voff
    generalize hvs : (if decide ((vsize : Int) + ediff > (P : Int)) = true then (P : Int) - ediff else (vsize : Int)) = vsz
    have hv1 : voff + vsz.toNat ≤ (s.obj vs).blk.alloc := by
      subst hvo hvs; by_cases c3 : (vsize : Int) + ediff > (P : Int) <;> simp only [c3, decide_true, decide_false, Bool.false_eq_true, ↓reduceIte] <;> omega
    have hv2 : vsz.toNat + ediff.toNat ≤ P := by
      subst hvs; by_cases c3 : (vsize : Int) + ediff > (P : Int) <;> simp only [c3, decide_true, decide_false, Bool.false_eq_true, ↓reduceIte] <;> omega
    have A := addAlign_safe I us vs uoff usz voff vsz.toNat ediff.toNat hub hvb hu1 hv1 hv2 hu2
    have S := addStore_safe A.1 (addAlign (s.tmpAlloc P) us uoff usz vs voff vsz.toNat ediff.toNat).2.1
      (addAlign (s.tmpAlloc P) us uoff usz vs voff vsz.toNat ediff.toNat).2.2 A.2 hrb (by omega)
    exact S.1


theorem mpf_set_frame (s : St) (x : Src) (hs : s.ok = true) (hr : DestWF s.r) (hx : OpndWF (s.obj x)) :
    (mpf_set 0 s x).ok = true ∧ (mpf_set 0 s x).u = s.u ∧ (mpf_set 0 s x).v = s.v ∧
    (mpf_set 0 s x).r.prec = s.r.prec ∧ (mpf_set 0 s x).r.blk.alloc = s.r.blk.alloc ∧ BlkWF (mpf_set 0 s x).r.blk := by
  obtain ⟨hrb, hra⟩ := hr
  obtain ⟨hxb, hxa⟩ := hx
  unfold mpf_set
  simp only [Nat.add_zero]
  generalize (s.obj x).size.natAbs = asize at hxa
  generalize hp1 : s.r.prec + 1 = p1 at hra
  generalize hoff : (if asize > p1 then asize - p1 else 0) = off
  generalize hn : (if asize > p1 then p1 else asize) = n
  have hb1 : off + n ≤ (s.obj x).blk.alloc := by subst hoff hn; split <;> omega
  have hb2 : n ≤ s.r.blk.alloc := by subst hn; split <;> omega
  have C := copyToR_spec (s.setSE (if (s.obj x).size ≥ 0 then (n : Int) else -(n : Int)) (s.obj x).exp) x off n hs hrb
    (by rw [obj_setSE_blk]; exact hxb) (by rw [obj_setSE_blk]; exact hb1) hb2
  exact ⟨C.1, C.2.1, C.2.2.1, C.2.2.2.1, C.2.2.2.2.2.2.1, C.2.2.2.2.2.2.2.1⟩

theorem Fr.of_set (s : St) (x : Src) (hs : s.ok = true) (hr : DestWF s.r) (hx : OpndWF (s.obj x)) : Fr s (mpf_set 0 s x) := by
  have h := mpf_set_frame s x hs hr hx
  exact ⟨h.1, h.2.1, h.2.2.1, h.2.2.2.1, h.2.2.2.2.1, h.2.2.2.2.2⟩

theorem subMag_prec (prec : Nat) (n : Bool) (u v : Mpf.F) : (Mpf.subMag prec n u v).prec = prec := by
  unfold Mpf.subMag; rfl

/-- the store-level mirror of the equal-sign path of sub.c: the operands are read inside their limbs, `F.d` is stored at
    rp[0, |F.d|) — inside the PREC + 1 limbs when `F` is well formed for PREC (r) — and the header is F's -/
theorem subStore_spec (s : St) (us vs : Src) (F : Mpf.F) (hs : s.ok = true) (hr : DestWF s.r)
    (hu : OpndWF (s.obj us)) (hv : OpndWF (s.obj vs)) (hF : Mpf.WF F) (hFp : F.prec = s.r.prec) :
    Fr s (subStore s us vs F) ∧ (subStore s us vs F).r.view = F := by
  obtain ⟨hrb, hra⟩ := hr
  unfold subStore
  have A := rd_spec s us 0 (s.obj us).size.natAbs hs (by have := hu.2; omega)
  simp only [A.1]
  have Bv := rd_spec s vs 0 (s.obj vs).size.natAbs hs (by have := hv.2; omega)
  simp only [Bv.1]
  have hlen : F.d.length ≤ s.r.prec + 1 := by rw [hF.2.1, ← hFp]; exact hF.2.2.1
  obtain ⟨a1, a2, a3, _, a4, _, _, a7, a8, a9⟩ := wrR_spec (s.tmpAlloc (s.r.prec + 1)) 0 F.d hs hrb
    (by show 0 + F.d.length ≤ s.r.blk.alloc; omega)
  refine ⟨Fr.setSE (s0 := s) ⟨a1, a2, a3, a4, a7, a8⟩ _ _, ?_⟩
  have t := take_write0 (s.tmpAlloc (s.r.prec + 1)).r.blk.limbs F.d
  simp only [FObj.view, St.setSE, a4, a9, ← hF.2.1, t]
  cases F
  simp only at hFp
  simp [St.tmpAlloc, hFp]

theorem sign_flip {a b : Int} (ha : a ≠ 0) (hb : b ≠ 0) (h : (decide (a < 0) != decide (b < 0)) = true) :
    (a < 0) ↔ (-b < 0) := by
  by_cases h1 : a < 0 <;> by_cases h2 : b < 0 <;> simp [h1, h2] at h ⊢ <;> omega

theorem sign_same {a b : Int} (h : ¬ (decide (a < 0) != decide (b < 0)) = true) : (a < 0) ↔ (b < 0) := by
  by_cases h1 : a < 0 <;> by_cases h2 : b < 0 <;> simp [h1, h2] at h ⊢

theorem mpf_add_frame (s : St) (us vs : Src) (hs : s.ok = true) (hr : DestWF s.r) (hp : 2 ≤ s.r.prec)
    (hu : OpndWF (s.obj us)) (hv : OpndWF (s.obj vs)) (hou : Mpf.OpWF (s.obj us).view) (hov : Mpf.OpWF (s.obj vs).view)
    (s' : St) (h : mpf_add 0 s us vs = some s') : Fr s s' := by
  unfold mpf_add at h
  simp only at h
  by_cases hu0 : (s.obj us).size = 0
  · rw [if_pos hu0] at h
    cases h
    split
    · exact Fr.of_set s vs hs hr hv
    · exact ⟨hs, rfl, rfl, rfl, rfl, hr.1⟩
  · rw [if_neg hu0] at h
    by_cases hv0 : (s.obj vs).size = 0
    · rw [if_pos hv0] at h
      cases h
      split
      · exact Fr.of_set s us hs hr hu
      · exact ⟨hs, rfl, rfl, rfl, rfl, hr.1⟩
    · rw [if_neg hv0] at h
      by_cases hsg : (decide ((s.obj us).size < 0) != decide ((s.obj vs).size < 0)) = true
      · rw [if_pos hsg] at h
        cases h
        exact (subStore_spec s us vs _ hs hr hu hv
          (Mpf.subMag_spec s.r.prec hp (s.obj us).view _ hou (Mpf.OpWF_neg_size _ hov) hu0 (by simpa [FObj.view] using hv0)
            (sign_flip hu0 hv0 hsg)).1 (subMag_prec _ _ _ _)).1
      · rw [if_neg hsg] at h
        cases h
        by_cases sw : (s.obj us).exp < (s.obj vs).exp
        · simp only [sw, if_true]
          exact addSameSign_safe s _ vs us hs hr hv hu (by omega)
        · simp only [sw, if_false]
          exact addSameSign_safe s _ us vs hs hr hu hv (by omega)

/-- rshift path: the high n limbs stored at rp[1, n], then the low limb at rp[0] -/
theorem two_writes_hi_lo (L full : List Nat) (n : Nat) (hf : full.length = n + 1) (hL : n + 1 ≤ L.length) :
    ((L.take 1 ++ full.drop 1 ++ L.drop (1 + (full.drop 1).length)).take 0 ++ full.take 1 ++
      (L.take 1 ++ full.drop 1 ++ L.drop (1 + (full.drop 1).length)).drop (0 + (full.take 1).length)) =
    full ++ L.drop (n + 1) := by
  match full, L, hf, hL with
  | h :: d, l0 :: L', hf, hL =>
    simp only [List.length_cons, Nat.add_right_cancel_iff] at hf
    simp [hf, Nat.add_comm]

/-- lshift path: the low n limbs stored at rp[0, n), then the carry limb at rp[n] -/
theorem two_writes_lo_hi (L full : List Nat) (n : Nat) (hf : full.length = n + 1) :
    ((L.take 0 ++ full.take n ++ L.drop (0 + (full.take n).length)).take n ++ full.drop n ++
      (L.take 0 ++ full.take n ++ L.drop (0 + (full.take n).length)).drop (n + (full.drop n).length)) =
    full ++ L.drop (n + 1) := by
  have h1 : (full.take n).length = n := by rw [List.length_take]; omega
  have h2 : (full.drop n).length = 1 := by rw [List.length_drop]; omega
  rw [h1, h2]
  simp only [List.take_zero, List.nil_append, Nat.zero_add]
  have e1 : (full.take n ++ L.drop n).take n = full.take n := by
    rw [List.take_append_of_le_length (by omega), List.take_of_length_le (by omega)]
  have e2 : (full.take n ++ L.drop n).drop (n + 1) = L.drop (n + 1) := by
    rw [List.drop_append, h1]
    have : (full.take n).drop (n + 1) = [] := List.drop_eq_nil_of_le (by omega)
    rw [this]; simp
  rw [e1, e2, List.take_append_drop]


/-- the shift arm: both paths stay inside the PREC + 1 limbs and leave `Mpf.shiftUp` of the selected limbs in rp[0, n + adj) -/
theorem shiftArm_spec (s : St) (x : Src) (k : Nat) (hs : s.ok = true) (hr : DestWF s.r) (hx : OpndWF (s.obj x)) :
    Fr s (shiftArm 0 s x k).1 ∧
    (shiftArm 0 s x k).2.2 = (Mpf.shiftUp (Mpf.top s.r.prec (s.obj x).view.d) k).2 ∧
    (shiftArm 0 s x k).1.r.blk.limbs.take ((shiftArm 0 s x k).2.1 + (shiftArm 0 s x k).2.2) =
      (Mpf.shiftUp (Mpf.top s.r.prec (s.obj x).view.d) k).1 ∧
    ((shiftArm 0 s x k).1.r.blk.limbs.take ((shiftArm 0 s x k).2.1 + (shiftArm 0 s x k).2.2)).length =
      (shiftArm 0 s x k).2.1 + (shiftArm 0 s x k).2.2 := by
  obtain ⟨hrb, hra⟩ := hr
  obtain ⟨hxb, hxa⟩ := hx
  have hxl : (s.obj x).size.natAbs ≤ (s.obj x).blk.limbs.length := by rw [hxb]; exact hxa
  have hsel := sel_top (s.obj x).blk.limbs (s.obj x).size.natAbs s.r.prec hxl
  unfold shiftArm
  simp only [Nat.add_zero, FObj.view]
  generalize hasz : (s.obj x).size.natAbs = asize at hxl hxa hsel
  generalize hP : s.r.prec = P at hra hsel
  rw [← hsel]
  have hrl : P + 1 ≤ s.r.blk.limbs.length := by rw [hrb]; exact hra
  by_cases c : asize > P
  · simp only [if_pos c]
    have A := rd_spec s x (asize - P) P hs (by omega)
    simp only [A.1, A.2]
    generalize hup : List.take P (List.drop (asize - P) (s.obj x).blk.limbs) = up
    have hupl : up.length = P := by rw [← hup, List.length_take, List.length_drop]; omega
    generalize hfull : toLimbs (P + 1) (val up * 2 ^ k) = full
    have hfl : full.length = P + 1 := by rw [← hfull, Mpf.toLimbs_length]
    obtain ⟨a1, a2, a3, _, a4, _, _, a7, a8, a9⟩ := wrR_spec s 1 (full.drop 1) hs hrb (by rw [List.length_drop]; omega)
    obtain ⟨b1, b2, b3, _, b4, _, _, b7, b8, b9⟩ := wrR_spec (s.wrR 1 (full.drop 1)) 0 (full.take 1) a1 a8
      (by rw [a7, List.length_take]; omega)
    have T := rd_spec ((s.wrR 1 (full.drop 1)).wrR 0 (full.take 1)) .r P 1 b1 (by show P + 1 ≤ ((s.wrR 1 (full.drop 1)).wrR 0 (full.take 1)).r.blk.alloc; rw [b7, a7]; exact hra)
    simp only [T.1]
    have hlim : ((s.wrR 1 (full.drop 1)).wrR 0 (full.take 1)).r.blk.limbs = full ++ s.r.blk.limbs.drop (P + 1) := by
      rw [b9, a9]; exact two_writes_hi_lo s.r.blk.limbs full P hfl hrl
    refine ⟨⟨b1, b2.trans a2, b3.trans a3, b4.trans a4, b7.trans a7, b8⟩, ?_, ?_, ?_⟩
    · simp only [Mpf.shiftUp, hupl, hfull]
    · simp only [Mpf.shiftUp, hupl, hfull, hlim]
      rw [List.take_append_of_le_length (by rw [hfl]; split <;> omega)]
    · rw [List.length_take, hlim, List.length_append, hfl]; split <;> omega
  · simp only [if_neg c]
    have A := rd_spec s x 0 asize hs (by omega)
    simp only [A.1, A.2]
    generalize hup : List.take asize (List.drop 0 (s.obj x).blk.limbs) = up
    have hupl : up.length = asize := by rw [← hup, List.length_take, List.length_drop]; omega
    generalize hfull : toLimbs (asize + 1) (val up * 2 ^ k) = full
    have hfl : full.length = asize + 1 := by rw [← hfull, Mpf.toLimbs_length]
    obtain ⟨a1, a2, a3, _, a4, _, _, a7, a8, a9⟩ := wrR_spec s 0 (full.take asize) hs hrb (by rw [List.length_take]; omega)
    obtain ⟨b1, b2, b3, _, b4, _, _, b7, b8, b9⟩ := wrR_spec (s.wrR 0 (full.take asize)) asize (full.drop asize) a1 a8
      (by rw [a7, List.length_drop]; omega)
    have hlim : ((s.wrR 0 (full.take asize)).wrR asize (full.drop asize)).r.blk.limbs = full ++ s.r.blk.limbs.drop (asize + 1) := by
      rw [b9, a9]; exact two_writes_lo_hi s.r.blk.limbs full asize hfl
    refine ⟨⟨b1, b2.trans a2, b3.trans a3, b4.trans a4, b7.trans a7, b8⟩, ?_, ?_, ?_⟩
    · simp only [Mpf.shiftUp, hupl, hfull]
    · simp only [Mpf.shiftUp, hupl, hfull, hlim]
      rw [List.take_append_of_le_length (by rw [hfl]; split <;> omega)]
    · rw [List.length_take, hlim, List.length_append, hfl]; split <;> omega


/-- the whole-limb arm: at most PREC + 1 limbs copied (none when rp == up), leaving `Mpf.top (PREC + 1)` of the operand -/
theorem copyArm_spec (s : St) (x : Src) (hs : s.ok = true) (hr : DestWF s.r) (hx : OpndWF (s.obj x)) :
    Fr s (copyArm 0 s x).1 ∧ (copyArm 0 s x).1.r.size = s.r.size ∧ (copyArm 0 s x).1.r.exp = s.r.exp ∧
    (copyArm 0 s x).1.r.blk.limbs.take (copyArm 0 s x).2 = Mpf.top (s.r.prec + 1) (s.obj x).view.d ∧
    (Mpf.top (s.r.prec + 1) (s.obj x).view.d).length = (copyArm 0 s x).2 := by
  obtain ⟨hrb, hra⟩ := hr
  obtain ⟨hxb, hxa⟩ := hx
  have hxl : (s.obj x).size.natAbs ≤ (s.obj x).blk.limbs.length := by rw [hxb]; exact hxa
  have hsel := sel_top (s.obj x).blk.limbs (s.obj x).size.natAbs (s.r.prec + 1) hxl
  unfold copyArm
  simp only [Nat.add_zero, FObj.view]
  generalize hasz : (s.obj x).size.natAbs = asize at hxl hxa hsel
  generalize hp1 : s.r.prec + 1 = p1 at hra hsel
  rw [← hsel]
  generalize hoff : (if asize > p1 then asize - p1 else 0) = off
  generalize hn : (if asize > p1 then p1 else asize) = n
  have hb1 : off + n ≤ (s.obj x).blk.alloc := by subst hoff hn; split <;> omega
  have hb2 : n ≤ s.r.blk.alloc := by subst hn; split <;> omega
  have hlen : (List.take n (List.drop off (s.obj x).blk.limbs)).length = n := by
    have := hxb; unfold BlkWF at this
    rw [List.length_take, List.length_drop]; omega
  by_cases c : x = .r ∧ off = 0
  · rw [if_pos c]
    obtain ⟨cx, co⟩ := c
    subst cx co
    exact ⟨⟨hs, rfl, rfl, rfl, rfl, hrb⟩, rfl, rfl, by simp [St.obj], hlen⟩
  · rw [if_neg c]
    have C := copyToR_spec s x off n hs hrb hxb hb1 hb2
    exact ⟨⟨C.1, C.2.1, C.2.2.1, C.2.2.2.1, C.2.2.2.2.2.2.1, C.2.2.2.2.2.2.2.1⟩, C.2.2.2.2.1, C.2.2.2.2.2.1,
      C.2.2.2.2.2.2.2.2, hlen⟩

theorem natAbs_sg (c : Prop) [Decidable c] (n : Nat) : (if c then (n : Int) else -(n : Int)).natAbs = n := by
  split <;> omega

theorem slice (L : List Nat) (off n a b : Nat) (h : a + b ≤ n) :
    (L.drop (off + a)).take b = (((L.drop off).take n).drop a).take b := by
  rw [List.drop_take, List.drop_drop, List.take_take, Nat.min_eq_left (by omega)]

theorem take_after_write (L1 p b : List Nat) (n : Nat) (hp : L1.take n = p) (hn : p.length = n) :
    ((L1.take n ++ b ++ L1.drop (n + b.length)).take (n + b.length)) = p ++ b := by
  rw [hp, ← hn, ← List.length_append, List.take_append_of_le_length (Nat.le_refl _), List.take_length]

theorem TInv.wrT_limbs {s0 s : St} {T : Nat} (I : TInv s0 s T) (off : Nat) (l : List Nat) (h : off + l.length ≤ T) :
    (s.wrT off l).t.limbs = s.t.limbs.take off ++ l ++ s.t.limbs.drop (off + l.length) := by
  have hW := Blk.write_ok s.t off l I.tw (by rw [I.ta]; exact h)
  simp only [St.wrT]; exact hW.2.2.2

theorem TInv.rd_val {s0 s : St} {T : Nat} (I : TInv s0 s T) (x : Src) (off n : Nat) (h : off + n ≤ (s0.obj x).blk.alloc) :
    (s.rd x off n).1 = ((s0.obj x).blk.limbs.drop off).take n := by
  have := rd_spec s x off n I.ok (by rw [I.obj]; exact h)
  rw [this.2, I.obj]


theorem addAlign_val {s0 s : St} {T : Nat} (I : TInv s0 s T) (us vs : Src) (uoff usz voff vsz ed : Nat)
    (hub : BlkWF (s0.obj us).blk) (hvb : BlkWF (s0.obj vs).blk)
    (hu : uoff + usz ≤ (s0.obj us).blk.alloc) (hv : voff + vsz ≤ (s0.obj vs).blk.alloc)
    (h1 : vsz + ed ≤ T) (h2 : usz ≤ T) (up vp : List Nat)
    (hup : up = ((s0.obj us).blk.limbs.drop uoff).take usz) (hvp : vp = ((s0.obj vs).blk.limbs.drop voff).take vsz) :
    (addAlign s us uoff usz vs voff vsz ed).1.t.limbs.take (addAlign s us uoff usz vs voff vsz ed).2.1 = (Mpf.addLimbs up vp ed).1 ∧
    (addAlign s us uoff usz vs voff vsz ed).2.2 = (Mpf.addLimbs up vp ed).2 := by
  have hul : up.length = usz := by rw [hup, List.length_take, List.length_drop, hub]; omega
  have hvl : vp.length = vsz := by rw [hvp, List.length_take, List.length_drop, hvb]; omega
  have rdu : ∀ (s1 : St), TInv s0 s1 T → ∀ a b, a + b ≤ usz → (s1.rd us (uoff + a) b).2 = s1 ∧ (s1.rd us (uoff + a) b).1 = (up.drop a).take b := by
    intro s1 I1 a b hab
    refine ⟨(I1.rd us (uoff + a) b hub (by omega)).1, ?_⟩
    rw [I1.rd_val us (uoff + a) b (by omega), hup]; exact slice _ uoff usz a b hab
  have rdv : ∀ (s1 : St), TInv s0 s1 T → ∀ a b, a + b ≤ vsz → (s1.rd vs (voff + a) b).2 = s1 ∧ (s1.rd vs (voff + a) b).1 = (vp.drop a).take b := by
    intro s1 I1 a b hab
    refine ⟨(I1.rd vs (voff + a) b hvb (by omega)).1, ?_⟩
    rw [I1.rd_val vs (voff + a) b (by omega), hvp]; exact slice _ voff vsz a b hab
  have full : ∀ (l : List Nat) (a : Nat), (l.drop a).take (l.length - a) = l.drop a := by
    intro l a; exact List.take_of_length_le (by rw [List.length_drop])
  unfold addAlign Mpf.addLimbs
  simp only [hul, hvl]
  by_cases c1 : usz > ed
  · rw [if_pos c1, if_pos c1]
    by_cases c2 : vsz + ed ≤ usz
    · rw [if_pos c2, if_pos c2]
      have A := rdu s I 0 (usz - ed - vsz) (by omega)
      simp only [Nat.add_zero, List.drop_zero] at A
      simp only [A.1, A.2]
      have hal : (up.take (usz - ed - vsz)).length = usz - ed - vsz := by rw [List.length_take]; omega
      have I1 := I.wrT 0 (up.take (usz - ed - vsz)) (by rw [hal]; omega)
      have X := rdu _ I1 (usz - ed - vsz) (usz - (usz - ed - vsz)) (by omega)
      have Y := rdv _ I1 0 vsz (by omega)
      simp only [Nat.add_zero, List.drop_zero] at Y
      rw [← hul, full, hul] at X
      rw [← hvl, List.take_length, hvl] at Y
      simp only [X.1, X.2, Y.1, Y.2]
      refine ⟨?_, by first | rfl | trivial⟩
      have hwl : (Mpf.addv (up.drop (usz - ed - vsz)) vp).1.length = usz - (usz - ed - vsz) := by
        rw [addv_len, List.length_drop, hul]
      rw [I1.wrT_limbs _ _ (by rw [hwl]; omega), I.wrT_limbs _ _ (by rw [hal]; omega)]
      have t1 := take_write0 s.t.limbs (up.take (usz - ed - vsz))
      rw [hal] at t1
      generalize (Mpf.addv (up.drop (usz - ed - vsz)) vp).1 = w at hwl ⊢
      generalize hsz : usz - ed - vsz = size at *
      have e : usz = size + w.length := by rw [hwl]; omega
      rw [hal]
      conv_lhs => rw [e]
      exact take_after_write _ _ w size t1 hal
    · rw [if_neg c2, if_neg c2]
      have A := rdv s I 0 (vsz + ed - usz) (by omega)
      simp only [Nat.add_zero, List.drop_zero] at A
      simp only [A.1, A.2]
      have hal : (vp.take (vsz + ed - usz)).length = vsz + ed - usz := by rw [List.length_take]; omega
      have I1 := I.wrT 0 (vp.take (vsz + ed - usz)) (by rw [hal]; omega)
      have X := rdu _ I1 0 usz (by omega)
      simp only [Nat.add_zero, List.drop_zero] at X
      rw [← hul, List.take_length, hul] at X
      have Y := rdv _ I1 (vsz + ed - usz) (usz - ed) (by omega)
      rw [show usz - ed = vp.length - (vsz + ed - usz) by omega, full] at Y
      rw [show vp.length - (vsz + ed - usz) = usz - ed by omega] at Y
      simp only [X.1, X.2, Y.1, Y.2]
      refine ⟨?_, by first | rfl | trivial⟩
      have hwl : (Mpf.addv up (vp.drop (vsz + ed - usz))).1.length = usz := by rw [addv_len, hul]
      rw [I1.wrT_limbs _ _ (by rw [hwl]; omega), I.wrT_limbs _ _ (by rw [hal]; omega)]
      have t1 := take_write0 s.t.limbs (vp.take (vsz + ed - usz))
      rw [hal] at t1
      generalize (Mpf.addv up (vp.drop (vsz + ed - usz))).1 = w at hwl ⊢
      generalize hsz : vsz + ed - usz = size at *
      have e : vsz + ed = size + w.length := by rw [hwl]; omega
      rw [hal]
      conv_lhs => rw [e]
      exact take_after_write _ _ w size t1 hal
  · rw [if_neg c1, if_neg c1]
    have A := rdv s I 0 vsz (by omega)
    simp only [Nat.add_zero, List.drop_zero] at A
    rw [← hvl, List.take_length, hvl] at A
    simp only [A.1, A.2]
    have I1 := I.wrT 0 vp (by rw [hvl]; omega)
    have hzl : (List.replicate (ed - usz) 0).length = ed - usz := List.length_replicate
    have I2 := I1.wrT vsz (List.replicate (ed - usz) 0) (by rw [hzl]; omega)
    have X := rdu _ I2 0 usz (by omega)
    simp only [Nat.add_zero, List.drop_zero] at X
    rw [← hul, List.take_length, hul] at X
    simp only [X.1, X.2]
    refine ⟨?_, by first | rfl | trivial⟩
    rw [I2.wrT_limbs _ _ (by rw [hul]; omega), I1.wrT_limbs _ _ (by rw [hzl]; omega), I.wrT_limbs _ _ (by rw [hvl]; omega)]
    have t1 := take_write0 s.t.limbs vp
    rw [hvl] at t1
    rw [hvl]
    have t2 := take_after_write _ _ (List.replicate (ed - usz) 0) vsz t1 hvl
    rw [hzl] at t2 ⊢
    have hl2 : (vp ++ List.replicate (ed - usz) 0).length = vsz + ed - usz := by
      rw [List.length_append, hvl, hzl]; omega
    rw [show vsz + (ed - usz) = vsz + ed - usz by omega] at t2 ⊢
    have t3 := take_after_write _ _ up (vsz + ed - usz) t2 hl2
    rw [hul] at t3 ⊢
    exact t3


theorem addStore_val {s0 s : St} {T : Nat} (I : TInv s0 s T) (rsize cy : Nat) (hr : rsize ≤ T)
    (hrb : BlkWF s0.r.blk) (hra : T + 1 ≤ s0.r.blk.alloc) (hcy : cy ≤ 1) :
    (addStore (s, rsize, cy)).1.r.blk.limbs.take (rsize + cy) =
      (if cy = 1 then s.t.limbs.take rsize ++ [cy] else s.t.limbs.take rsize) := by
  unfold addStore
  have R := I.rdT 0 rsize (by omega)
  have Rv : (s.rdT 0 rsize).1 = s.t.limbs.take rsize := by simp [St.rdT, Blk.read]
  simp only [R.1]
  have hb : BlkWF s.r.blk := by rw [I.r]; exact hrb
  have ha : s.r.blk.alloc = s0.r.blk.alloc := by rw [I.r]
  obtain ⟨a1, _, _, _, _, _, _, a7, a8, a9⟩ := wrR_spec s 0 (s.rdT 0 rsize).1 I.ok hb (by rw [R.2, ha]; omega)
  obtain ⟨_, _, _, _, _, _, _, _, _, b9⟩ := wrR_spec (s.wrR 0 (s.rdT 0 rsize).1) rsize [cy] a1 a8
    (by rw [a7, ha]; simp only [List.length_singleton]; omega)
  rw [b9, a9]
  have := take_two_writes s.r.blk.limbs (s.rdT 0 rsize).1 cy cy hcy
  rw [R.2] at this
  rw [R.2, this, Rv]


theorem natAbs_sgb (c : Bool) (n : Nat) : (if c = true then -(n : Int) else (n : Int)).natAbs = n := by
  split <;> omega

theorem addSameSign_view (s : St) (negate : Bool) (us vs : Src) (hs : s.ok = true) (hr : DestWF s.r)
    (hu : OpndWF (s.obj us)) (hv : OpndWF (s.obj vs)) (he : (s.obj vs).exp ≤ (s.obj us).exp)
    (hlu : Limbs (s.obj us).view.d) (hlv : Limbs (s.obj vs).view.d) :
    (addSameSign 0 s negate us vs).r.view =
      ⟨s.r.prec,
       if negate = true then -((Mpf.addMag s.r.prec (s.obj us).view.d (s.obj us).exp (s.obj vs).view.d (s.obj vs).exp).1.length : Int)
       else ((Mpf.addMag s.r.prec (s.obj us).view.d (s.obj us).exp (s.obj vs).view.d (s.obj vs).exp).1.length : Int),
       (Mpf.addMag s.r.prec (s.obj us).view.d (s.obj us).exp (s.obj vs).view.d (s.obj vs).exp).2,
       (Mpf.addMag s.r.prec (s.obj us).view.d (s.obj us).exp (s.obj vs).view.d (s.obj vs).exp).1⟩ := by
  obtain ⟨hrb, hra⟩ := hr
  obtain ⟨hub, hua⟩ := hu
  obtain ⟨hvb, hva⟩ := hv
  have hul : (s.obj us).size.natAbs ≤ (s.obj us).blk.limbs.length := by rw [hub]; exact hua
  have hvl : (s.obj vs).size.natAbs ≤ (s.obj vs).blk.limbs.length := by rw [hvb]; exact hva
  have hsel := sel_top (s.obj us).blk.limbs (s.obj us).size.natAbs s.r.prec hul
  unfold addSameSign Mpf.addMag
  simp only [Nat.add_zero, FObj.view] at hlu hlv ⊢
  simp only [Mpf.selV_eq, ← hsel]
  generalize hP : s.r.prec = P at hra hsel
  generalize (s.obj us).size.natAbs = usize at hua hul hlu hsel
  generalize (s.obj vs).size.natAbs = vsize at hva hvl hlv
  have hvdl : (List.take vsize (s.obj vs).blk.limbs).length = vsize := by rw [List.length_take]; omega
  simp only [hvdl]
  generalize hed : (s.obj us).exp - (s.obj vs).exp = ediff
  have hed0 : 0 ≤ ediff := by omega
  have I : TInv s (s.tmpAlloc P) P := ⟨hs, rfl, rfl, rfl, rfl, by simp [BlkWF, St.tmpAlloc, Blk.new]⟩
  generalize huo : (if usize > P then usize - P else 0) = uoff at hsel
  generalize hus : (if usize > P then P else usize) = usz at hsel
  have hu1 : uoff + usz ≤ (s.obj us).blk.alloc := by subst huo hus; split <;> omega
  have hu2 : usz ≤ P := by subst hus; split <;> omega
  have hupl : (List.take usz (List.drop uoff (s.obj us).blk.limbs)).length = usz := by
    have := hub; unfold BlkWF at this
    rw [List.length_take, List.length_drop]; omega
  by_cases c : ediff ≥ (P : Int)
  · rw [if_pos c, if_pos c]
    simp only [St.setSE, natAbs_sgb, hupl]
    by_cases c2 : us = .r ∧ uoff = 0
    · rw [if_pos c2]
      obtain ⟨cx, co⟩ := c2
      subst cx co
      simp [St.tmpAlloc, St.obj, hP]
    · rw [if_neg c2]
      have C := copyToR_spec (s.tmpAlloc P) us uoff usz hs hrb
        (by rw [I.obj]; exact hub) (by rw [I.obj]; exact hu1) (by show _ ≤ s.r.blk.alloc; omega)
      rw [C.2.2.2.2.2.2.2.2, C.2.2.2.1, I.obj]
      simp [St.tmpAlloc, hP]
  · rw [if_neg c, if_neg c]
    unfold addOverlap
    have c' : ediff < (P : Int) := by omega
    have hvo : (if decide ((vsize : Int) + ediff > (P : Int)) = true then ((vsize : Int) + ediff - (P : Int)).toNat else 0) =
        ((vsize : Int) + ediff - (P : Int)).toNat := by
      by_cases c3 : (vsize : Int) + ediff > (P : Int) <;> simp only [c3, decide_true, decide_false, Bool.false_eq_true, ↓reduceIte] <;> omega
    rw [hvo]
    generalize hvoff : ((vsize : Int) + ediff - (P : Int)).toNat = voff
    generalize hvs : (if decide ((vsize : Int) + ediff > (P : Int)) = true then (P : Int) - ediff else (vsize : Int)) = vsz
    have hvz : vsz.toNat = vsize - voff := by
      subst hvs hvoff; by_cases c3 : (vsize : Int) + ediff > (P : Int) <;> simp only [c3, decide_true, decide_false, Bool.false_eq_true, ↓reduceIte] <;> omega
    have hvo2 : voff ≤ vsize := by omega
    have hv2 : vsz.toNat + ediff.toNat ≤ P := by omega
    rw [hvz] at hv2 ⊢
    have hv1 : voff + (vsize - voff) ≤ (s.obj vs).blk.alloc := by omega
    have evp : List.drop voff (List.take vsize (s.obj vs).blk.limbs) = List.take (vsize - voff) (List.drop voff (s.obj vs).blk.limbs) := by
      rw [List.drop_take]
    rw [evp]
    generalize hup : List.take usz (List.drop uoff (s.obj us).blk.limbs) = up at hupl hsel
    generalize hvp : List.take (vsize - voff) (List.drop voff (s.obj vs).blk.limbs) = vp
    have hLu : Limbs up := by rw [hsel]; exact Limbs_drop hlu _
    have hLv : Limbs vp := by rw [← hvp, ← evp]; exact Limbs_drop hlv _
    have A := addAlign_safe I us vs uoff usz voff (vsize - voff) ediff.toNat hub hvb hu1 hv1 hv2 hu2
    have V := addAlign_val I us vs uoff usz voff (vsize - voff) ediff.toNat hub hvb hu1 hv1 hv2 hu2 up vp hup.symm hvp.symm
    have L := Mpf.addLimbs_spec up vp ediff.toNat hLu hLv
    generalize addAlign (s.tmpAlloc P) us uoff usz vs voff (vsize - voff) ediff.toNat = q at A V
    obtain ⟨sq, rsize, cy⟩ := q
    simp only at A V
    have S := addStore_safe A.1 rsize cy A.2 hrb (by omega)
    have hcy : cy ≤ 1 := by rw [V.2]; exact L.2.2.1
    have SV := addStore_val A.1 rsize cy A.2 hrb (by omega) hcy
    rw [V.1] at SV
    generalize Mpf.addLimbs up vp ediff.toNat = al at V SV L
    obtain ⟨tp, cy'⟩ := al
    simp only at V SV L ⊢
    have hcc : cy' = cy := V.2.symm
    subst hcc
    have htl : tp.length = rsize := by
      rw [← V.1, List.length_take, A.1.tw, A.1.ta]; omega
    have s21 : (addStore (sq, rsize, cy')).2.1 = rsize := by rw [S.2]
    have s22 : (addStore (sq, rsize, cy')).2.2 = cy' := by rw [S.2]
    have hpr : (addStore (sq, rsize, cy')).1.r.prec = P := by rw [S.1.prec, hP]
    simp only [St.setSE, s21, s22, natAbs_sgb, SV, hpr]
    rcases Nat.le_one_iff_eq_zero_or_eq_one.mp hcy with h | h <;> subst h
    · simp [htl]
    · simp [htl]


/-- mpf_neg (r, u) and mpf_neg (r, r) (mpf/neg.c) -/
theorem mpf_neg_spec (s : St) (x : Src) (hs : s.ok = true) (hr : DestWF s.r) (hx : OpndWF (s.obj x)) :
    Fr s (mpf_neg s x) ∧ (mpf_neg s x).r.view = Mpf.neg s.r.prec (decide (x = .r)) (s.obj x).view := by
  obtain ⟨hrb, hra⟩ := hr
  obtain ⟨hxb, hxa⟩ := hx
  unfold mpf_neg Mpf.neg
  by_cases hx : x = .r
  · subst hx
    simp only [if_true, decide_true]
    exact ⟨⟨hs, rfl, rfl, rfl, rfl, hrb⟩, by simp [FObj.view, St.setSE, St.obj]⟩
  · simp only [hx, if_false, decide_false, Bool.false_eq_true]
    have hxl : (s.obj x).size.natAbs ≤ (s.obj x).blk.limbs.length := by rw [hxb]; exact hxa
    rw [Int.natAbs_neg]
    generalize hasz : (s.obj x).size.natAbs = asize at hxl hxa
    generalize hp1 : s.r.prec + 1 = p1 at hra
    have hsel := sel_top (s.obj x).blk.limbs asize p1 hxl
    generalize hoff : (if asize > p1 then asize - p1 else 0) = off at hsel
    generalize hn : (if asize > p1 then p1 else asize) = n at hsel
    have hb1 : off + n ≤ (s.obj x).blk.alloc := by subst hoff hn; split <;> omega
    have hb2 : n ≤ s.r.blk.alloc := by subst hn; split <;> omega
    generalize hsz : (if -(s.obj x).size ≥ 0 then (n : Int) else -(n : Int)) = sz
    have hszn : sz.natAbs = n := by subst hsz; split <;> omega
    have C := copyToR_spec (s.setSE sz (s.obj x).exp) x off n hs hrb (by rw [obj_setSE_blk]; exact hxb)
      (by rw [obj_setSE_blk]; exact hb1) hb2
    rw [obj_setSE_blk] at C
    obtain ⟨c1, c2, c3, c4, c5, c6, c7, c8, c9⟩ := C
    refine ⟨⟨c1, c2, c3, c4, c7, c8⟩, ?_⟩
    have hlen : (Mpf.top p1 (List.take asize (s.obj x).blk.limbs)).length = n := by
      have := hxb; unfold BlkWF at this
      rw [← hsel, List.length_take, List.length_drop]; omega
    have g1 : (s.setSE sz (s.obj x).exp).r.size = sz := rfl
    have g2 : (s.setSE sz (s.obj x).exp).r.exp = (s.obj x).exp := rfl
    have g3 : (s.setSE sz (s.obj x).exp).r.prec = s.r.prec := rfl
    simp only [FObj.view, c4, c5, c6, g1, g2, g3, hszn, c9, hsel, hasz, hlen]
    rw [← hsz]

end Mpir.AllocSafe7
