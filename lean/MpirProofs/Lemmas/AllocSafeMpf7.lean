/-
  Helper lemmas of C04 part c04_allocsafe7 (Mpir/Model/AllocSafeMpf7.lean): block reads / writes inside the block.
-/
import MpirProofs.Lemmas.Mpf
import MpirProofs.Props.C13
import Mpir.Model.AllocSafeMpf7
namespace Mpir.AllocSafe7
open Mpir

/-- a block really has `alloc` limbs -/
def BlkWF (b : Blk) : Prop := b.limbs.length = b.alloc

/-- what every mpf function may rely on for its destination: a block of at least PREC + 1 limbs (mpf_init2: exactly PREC + 1;
    more only after mpf_set_prec_raw) -/
def DestWF (o : FObj) : Prop := BlkWF o.blk ∧ o.prec + 1 ≤ o.blk.alloc

/-- what every mpf function may rely on for an operand: its |SIZ| limbs lie inside its block -/
def OpndWF (o : FObj) : Prop := BlkWF o.blk ∧ o.size.natAbs ≤ o.blk.alloc

theorem Blk.read_ok (b : Blk) (off n : Nat) (hb : BlkWF b) (h : off + n ≤ b.alloc) :
    (b.read off n).2 = true ∧ (b.read off n).1.length = n := by
  unfold BlkWF at hb
  simp only [Blk.read, decide_eq_true_eq, List.length_take, List.length_drop]
  omega

theorem Blk.write_ok (b : Blk) (off : Nat) (l : List Nat) (hb : BlkWF b) (h : off + l.length ≤ b.alloc) :
    (b.write off l).2 = true ∧ (b.write off l).1.alloc = b.alloc ∧ BlkWF (b.write off l).1 ∧
    (b.write off l).1.limbs = b.limbs.take off ++ l ++ b.limbs.drop (off + l.length) := by
  unfold BlkWF at hb ⊢
  simp only [Blk.write, if_pos h, List.length_append, List.length_take, List.length_drop, true_and, and_true]
  omega

theorem Blk.write_bad (b : Blk) (off : Nat) (l : List Nat) (h : b.alloc < off + l.length) :
    (b.write off l).2 = false := by
  simp only [Blk.write, if_neg (Nat.not_le.mpr h)]

theorem take_write0 (L l : List Nat) : ((L.take 0 ++ l ++ L.drop (0 + l.length)).take l.length) = l := by
  simp

/-- the limb selection of set.c / set_z.c (`up += asize - prec; asize = prec`) is `Mpf.top` -/
theorem sel_top (L : List Nat) (asize p1 : Nat) (h : asize ≤ L.length) :
    (L.drop (if asize > p1 then asize - p1 else 0)).take (if asize > p1 then p1 else asize) = Mpf.top p1 (L.take asize) := by
  unfold Mpf.top
  rw [List.length_take, Nat.min_eq_left h]
  split
  · rename_i hgt
    rw [List.drop_take]
    congr 1; omega
  · rename_i hle
    have : asize - p1 = 0 := by omega
    rw [this]; simp

theorem obj_setSE_blk (s : St) (a b : Int) (x : Src) : ((s.setSE a b).obj x).blk = (s.obj x).blk := by
  cases x <;> rfl


/-- MPN_COPY (rp, xp + off, n) with the source range inside its block and n limbs of room at rp -/
theorem copyToR_spec (s : St) (x : Src) (off n : Nat) (hs : s.ok = true) (hrb : BlkWF s.r.blk) (hxb : BlkWF (s.obj x).blk)
    (h1 : off + n ≤ (s.obj x).blk.alloc) (h2 : n ≤ s.r.blk.alloc) :
    (s.copyToR 0 x off n).ok = true ∧ (s.copyToR 0 x off n).u = s.u ∧ (s.copyToR 0 x off n).v = s.v ∧
    (s.copyToR 0 x off n).r.prec = s.r.prec ∧ (s.copyToR 0 x off n).r.size = s.r.size ∧ (s.copyToR 0 x off n).r.exp = s.r.exp ∧
    (s.copyToR 0 x off n).r.blk.alloc = s.r.blk.alloc ∧ BlkWF (s.copyToR 0 x off n).r.blk ∧
    (s.copyToR 0 x off n).r.blk.limbs.take n = ((s.obj x).blk.limbs.drop off).take n := by
  have hR := Blk.read_ok (s.obj x).blk off n hxb h1
  have hW := Blk.write_ok s.r.blk 0 ((s.obj x).blk.read off n).1 hrb (by rw [hR.2]; omega)
  simp only [St.copyToR, St.rd, St.wrR, hs, hR.1, hW.1, hW.2.1, hW.2.2.1, hW.2.2.2, Bool.and_self, true_and]
  have := take_write0 s.r.blk.limbs ((s.obj x).blk.read off n).1
  rw [hR.2] at this
  rw [hR.2, this]; rfl

/-- a store through rp inside the block -/
theorem wrR_spec (s : St) (off : Nat) (l : List Nat) (hs : s.ok = true) (hrb : BlkWF s.r.blk) (h : off + l.length ≤ s.r.blk.alloc) :
    (s.wrR off l).ok = true ∧ (s.wrR off l).u = s.u ∧ (s.wrR off l).v = s.v ∧ (s.wrR off l).t = s.t ∧
    (s.wrR off l).r.prec = s.r.prec ∧ (s.wrR off l).r.size = s.r.size ∧ (s.wrR off l).r.exp = s.r.exp ∧
    (s.wrR off l).r.blk.alloc = s.r.blk.alloc ∧ BlkWF (s.wrR off l).r.blk ∧
    (s.wrR off l).r.blk.limbs = s.r.blk.limbs.take off ++ l ++ s.r.blk.limbs.drop (off + l.length) := by
  have hW := Blk.write_ok s.r.blk off l hrb h
  simp only [St.wrR, hs, hW.1, hW.2.1, hW.2.2.1, hW.2.2.2, Bool.and_self, true_and, and_self]

/-- a store through rp that leaves the block -/
theorem wrR_bad (s : St) (off : Nat) (l : List Nat) (h : s.r.blk.alloc < off + l.length) : (s.wrR off l).ok = false := by
  simp only [St.wrR, Blk.write_bad _ _ _ h, Bool.and_false]

/-- a load inside the block of an operand: the state is unchanged, the limbs are those of the range -/
theorem rd_spec (s : St) (x : Src) (off n : Nat) (hs : s.ok = true) (h : off + n ≤ (s.obj x).blk.alloc) :
    (s.rd x off n).2 = s ∧ (s.rd x off n).1 = ((s.obj x).blk.limbs.drop off).take n := by
  cases s
  simp only at hs
  subst hs
  simp only [St.rd, Blk.read, Bool.true_and, decide_eq_true_eq.mpr h, and_self]

theorem take_two_writes (L a : List Nat) (c : Nat) (k : Nat) (hk : k ≤ 1) :
    ((((L.take 0 ++ a ++ L.drop (0 + a.length)).take a.length) ++ [c] ++
      (L.take 0 ++ a ++ L.drop (0 + a.length)).drop (a.length + [c].length)).take (a.length + k)) =
    (if k = 1 then a ++ [c] else a) := by
  have h0 : (L.take 0 ++ a ++ L.drop (0 + a.length)).take a.length = a := take_write0 L a
  rw [h0]
  rcases Nat.le_one_iff_eq_zero_or_eq_one.mp hk with h | h <;> subst h
  · simp
  · simp
    rw [show a ++ c :: List.drop (a.length + 1) L = (a ++ [c]) ++ List.drop (a.length + 1) L by simp]
    rw [List.take_append_of_le_length (by simp)]
    simp


end Mpir.AllocSafe7
