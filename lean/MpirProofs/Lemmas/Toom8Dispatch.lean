/- Composition of the Toom-8.5 / Toom-8 squaring exactness theorems with the generated dispatch skeletons. -/
import MpirProofs.Lemmas.Toom8Main
import MpirProofs.Lemmas.MulLoops
namespace Mpir.Toom8
open Mpir.Skel Mpir.Gen Mpir.MulDispatch Mpir.MulLoops Mpir.MulAlgo

/-- Value computed by one recorded call of the dispatch skeletons on operand values u, v: `callValue` (Karatsuba,
    Toom-3/3.2/4.2/4/5.3) extended by Toom-8.5 and by the squarings — mpn_toom8_sqr_n by its own model, and
    mpn_kara_sqr_n / mpn_toom3_sqr_n / mpn_toom4_sqr_n by the model of the corresponding multiplication with b = a
    (what the ops of the same names are compared with on every check).  Recursive calls = exact product. -/
def callValue8 (P : Params) (e : Ev) (u v : Nat) : Option Nat :=
  match sizeArgs e with
  | [n] =>
    if e.name = "mpn_kara_sqr_n" then kara_mul_n P.SQR_KARATSUBA_THRESHOLD.toNat u u n.toNat
    else if e.name = "mpn_toom3_sqr_n" then some (toom3_mul_n (· * ·) u u n.toNat)
    else if e.name = "mpn_toom4_sqr_n" then some (toom4_mul_n (· * ·) u u n.toNat)
    else if e.name = "mpn_toom8_sqr_n" then toom8_sqr_n (fun x => x * x) u n.toNat
    else callValue P e u v
  | [an, bn] =>
    if e.name = "mpn_toom8h_mul" then toom8h_mul (· * ·) u an.toNat v bn.toNat else callValue P e u v
  | _ => none

/-- the product calls that are neither a basecase (leaf kernels, C01_leaves) nor the FFT -/
def modelled8 (e : Ev) : Bool :=
  e.name ∈ ["mpn_kara_mul_n", "mpn_toom3_mul_n", "mpn_toom4_mul_n", "mpn_toom8h_mul",
            "mpn_kara_sqr_n", "mpn_toom3_sqr_n", "mpn_toom4_sqr_n", "mpn_toom8_sqr_n"]

theorem runSqr_domain (P : Params) (hP : Valid P) (n : Nat) (hn : 1 ≤ n) (e : Ev)
    (he : e ∈ products (runSqr P n)) : domainOk P e = true := by
  have g := sqr_ok P hP 0 (n : Int) 2 0 (by exact_mod_cast hn)
  have hm := mem_of_products he
  unfold runSqr at hm
  generalize Mpir.Gen.MulDispatch.mpn_sqr P 0 [] 1 0 2 0 (n : Int) = res at g hm
  cases res with
  | void tr => exact g e (by simpa [Res.trace] using hm)
  | ret tr v => exact absurd g (by simp [GoodVoid])
  | nofuel tr => exact absurd g (by simp [GoodVoid])

/-- the single product call of the skeleton of mpn_mul_n, by name and sizes -/
theorem runMulN_names (P : Params) (n : Nat) (e : Ev) (he : e ∈ products (runMulN P n)) :
    e.name = "mpn_mul_basecase" ∨ e.name = "mpn_mul_fft_main" ∨
    ((e.name = "mpn_kara_mul_n" ∨ e.name = "mpn_toom3_mul_n" ∨ e.name = "mpn_toom4_mul_n") ∧ sizeArgs e = [(n : Int)]) ∨
    (e.name = "mpn_toom8h_mul" ∧ sizeArgs e = [(n : Int), (n : Int)]) := by
  unfold runMulN Mpir.Gen.MulDispatch.mpn_mul_n at he
  simp only [] at he
  split_ifs at he <;> simp [products, Res.trace, isProduct] at he <;> subst he <;> simp [sizeArgs]

theorem runSqr_names (P : Params) (n : Nat) (e : Ev) (he : e ∈ products (runSqr P n)) :
    e.name = "mpn_mul_basecase" ∨ e.name = "mpn_sqr_basecase" ∨ e.name = "mpn_mul_fft_main" ∨
    ((e.name = "mpn_kara_sqr_n" ∨ e.name = "mpn_toom3_sqr_n" ∨ e.name = "mpn_toom4_sqr_n" ∨ e.name = "mpn_toom8_sqr_n")
      ∧ sizeArgs e = [(n : Int)]) := by
  unfold runSqr Mpir.Gen.MulDispatch.mpn_sqr at he
  simp only [] at he
  split_ifs at he <;> simp [products, Res.trace, isProduct] at he <;> subst he <;> simp [sizeArgs]

theorem domain_toom8h (P : Params) (e : Ev) (n : Nat) (h : e.name = "mpn_toom8h_mul") (hs : sizeArgs e = [(n : Int), (n : Int)])
    (hd : domainOk P e = true) : n ≥ 86 := by
  have : e = ⟨"mpn_toom8h_mul", e.args⟩ := by cases e; simp_all
  rw [this] at hd hs
  unfold domainOk at hd
  simp only [hs] at hd
  simp at hd; omega

theorem domain_toom8sqr (P : Params) (e : Ev) (n : Nat) (h : e.name = "mpn_toom8_sqr_n") (hs : sizeArgs e = [(n : Int)])
    (hd : domainOk P e = true) : (n : Int) ≥ P.MPN_TOOM8_SQR_N_MINSIZE := by
  have : e = ⟨"mpn_toom8_sqr_n", e.args⟩ := by cases e; simp_all
  rw [this] at hd hs
  unfold domainOk at hd
  simp only [hs] at hd
  simpa using hd

theorem domain_karasqr (P : Params) (e : Ev) (n : Nat) (h : e.name = "mpn_kara_sqr_n") (hs : sizeArgs e = [(n : Int)])
    (hd : domainOk P e = true) : n ≥ 2 := by
  have : e = ⟨"mpn_kara_sqr_n", e.args⟩ := by cases e; simp_all
  rw [this] at hd hs
  unfold domainOk at hd
  simp only [hs] at hd
  simp at hd; omega

/-- mpn_mul_n below the FFT: the selected callee returns the exact product -/
theorem mulN_call_exact (P : Params) (hP : Valid P) (n : Nat) (hn : 1 ≤ n) (e : Ev) (he : e ∈ products (runMulN P n)) :
    e.name = "mpn_mul_basecase" ∨ e.name = "mpn_mul_fft_main" ∨ ∀ x y, callValue8 P e x y = some (x * y) := by
  have hd := runMulN_domain P hP n hn e he
  rcases runMulN_names P n e he with h | h | ⟨h, hs⟩ | ⟨h, hs⟩
  · exact Or.inl h
  · exact Or.inr (Or.inl h)
  · refine Or.inr (Or.inr fun x y => ?_)
    have hm : modelled1 e = true := by
      unfold modelled1; rw [hs]; rcases h with h | h | h <;> simp [h]
    unfold callValue8
    rw [hs]
    rcases h with h | h | h <;> simp only [h] <;> (simp only [String.reduceEq, if_false]; exact callValue_exact P hP e hm hd x y)
  · refine Or.inr (Or.inr fun x y => ?_)
    have h86 := domain_toom8h P e n h hs hd
    unfold callValue8
    rw [hs]
    simp only [h, if_true, Int.toNat_natCast]
    exact toom8h_mul_eq _ (fun _ _ => rfl) x n y n (le_refl _) h86 (by omega)

/-- mpn_sqr below the FFT: the selected callee returns the exact square -/
theorem sqr_call_exact (P : Params) (hP : Valid P) (h58 : 58 ≤ P.MPN_TOOM8_SQR_N_MINSIZE) (n : Nat) (hn : 1 ≤ n) (e : Ev)
    (he : e ∈ products (runSqr P n)) :
    e.name = "mpn_mul_basecase" ∨ e.name = "mpn_sqr_basecase" ∨ e.name = "mpn_mul_fft_main" ∨
    ∀ x, callValue8 P e x x = some (x * x) := by
  have hd := runSqr_domain P hP n hn e he
  rcases runSqr_names P n e he with h | h | h | ⟨h, hs⟩
  · exact Or.inl h
  · exact Or.inr (Or.inl h)
  · exact Or.inr (Or.inr (Or.inl h))
  · refine Or.inr (Or.inr (Or.inr fun x => ?_))
    unfold callValue8
    rw [hs]
    rcases h with h | h | h | h
    · have h2 := domain_karasqr P e n h hs hd
      obtain ⟨_, _, _, _, _, _, _, _, _, _, _, hs2, _⟩ := hP
      simp only [h, if_true, Int.toNat_natCast]
      exact kara_mul_n_eq _ (by omega) n h2 x x
    · simp only [h, String.reduceEq, if_false, if_true]
      rw [show toom3_mul_n (fun x1 x2 => x1 * x2) x x (n : Int).toNat = x * x from toom3_mul_eq _ (fun _ _ => rfl) _ _ _ _]
    · simp only [h, String.reduceEq, if_false, if_true]
      rw [show toom4_mul_n (fun x1 x2 => x1 * x2) x x (n : Int).toNat = x * x from toom4_mul_eq _ (fun _ _ => rfl) _ _ _ _]
    · have hmin := domain_toom8sqr P e n h hs hd
      simp only [h, String.reduceEq, if_false, if_true, Int.toNat_natCast]
      exact toom8_sqr_n_eq _ (fun _ => rfl) x n (by omega)

end Mpir.Toom8
