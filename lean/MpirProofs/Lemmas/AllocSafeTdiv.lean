/- Refinement proofs for the size-aware models of mpz/tdiv_q.c and mpz/tdiv_r.c (Mpir/Model/AllocSafeMpz4.lean): `MPZ_REALLOC (quot,
   ql)` resp. `MPZ_REALLOC (rem, dl)` is exactly what mpn_tdiv_q / mpn_tdiv_qr write (sufficient), and with one limb less the
   kernel's store leaves the block whenever the block had to grow (necessary); the list-level results `Spec.tdiv_q`,
   `Spec.tdiv_r` are well formed and are the truncating quotient / remainder. -/
import MpirProofs.Lemmas.AllocSafeMulC
namespace Mpir.AllocSafe
open Mpir
open Mpir.Mpz (sgn natAbs_sgn Norm WF toInt mk_spec grow_alloc WF_iff)

/-- value-level result of mpz_tdiv_q with the allocation the C leaves -/
def Spec.tdiv_q (w n d : Mpz.Mpz) : Mpz.Mpz :=
  let nl := n.size.natAbs
  let dl := d.size.natAbs
  if nl + 1 ≤ dl then { w with size := 0, d := [] }
  else
    let ql := nl - dl + 1
    let q := toLimbs ql (val n.d / val d.d)
    let ql' := ql - (if q.getD (ql - 1) 0 == 0 then 1 else 0)
    ⟨(Mpz.grow w ql).alloc, sgn (Mpz.diffSign n.size d.size) ql', q.take ql'⟩

/-- value-level result of mpz_tdiv_r (`same` = rem and num are the same variable) -/
def Spec.tdiv_r (same : Bool) (w n d : Mpz.Mpz) : Mpz.Mpz :=
  let nl := n.size.natAbs
  let dl := d.size.natAbs
  let a := (Mpz.grow w dl).alloc
  if nl + 1 ≤ dl then (if same then ⟨a, w.size, w.d⟩ else ⟨a, n.size, n.d⟩)
  else
    let r := toLimbs dl (val n.d % val d.d)
    ⟨a, sgn (n.size < 0) (Mpir.normalize r).length, Mpir.normalize r⟩

theorem copyIfSame_spec (same : Bool) (s : St) (p : Ptr) (L : List Nat) (D : Den s (.ptr p) L) :
    (copyIfSame same s p L.length).2 = s ∧ ∀ s' : St, (same = true ∨ s' = s) → Den s' (copyIfSame same s p L.length).1 L := by
  unfold copyIfSame
  cases same
  · simp only [Bool.false_eq_true, if_false]
    refine ⟨by trivial, ?_⟩
    intro s' h
    rcases h with h | h
    · cases h
    · rw [h]; exact D
  · simp only [if_true]
    obtain ⟨c1, c2⟩ := tmp_copy_spec s p L D
    exact ⟨c1, fun s' _ => c2 s'⟩

theorem toLimbs_len (n v : Nat) : (toLimbs n v).length = n := (DivZ.val_toLimbs n v).2.1
theorem toLimbs_limbs (n v : Nat) : Limbs (toLimbs n v) := (DivZ.val_toLimbs n v).2.2

/-! ## mpz_tdiv_q -/

theorem tdiv_q_refines (s : St) (q n d : Nat) (hs : s.ok = true)
    (hq : OWF (s.h q)) (hn : OWF (s.h n)) (hd : OWF (s.h d)) (hd0 : (s.h d).size ≠ 0) :
    ∃ s', tdiv_q 0 s q n d = some s' ∧
      Refines s s' q (Spec.tdiv_q (view (s.h q)) (view (s.h n)) (view (s.h d))) := by
  unfold tdiv_q Spec.tdiv_q
  rw [show s.SIZ n = (s.h n).size from rfl, show s.SIZ d = (s.h d).size from rfl]
  have e1 : (view (s.h n)).size = (s.h n).size := rfl
  have e2 : (view (s.h d)).size = (s.h d).size := rfl
  rw [e1, e2]
  have hNl := view_d_length hn
  have hDl := view_d_length hd
  have hdl0 : ((s.h d).size.natAbs == 0) = false := by simpa using hd0
  simp only [hdl0, Bool.false_eq_true, if_false]
  by_cases hle : (s.h n).size.natAbs + 1 ≤ (s.h d).size.natAbs
  · simp only [hle, if_true]
    exact ⟨_, rfl, by simpa using hs, by simp [view], by simpa using hq.1, fun x hx => setSize_other _ _ _ hx⟩
  · simp only [hle, if_false]
    refine ⟨_, rfl, ?_⟩
    rw [← hNl, ← hDl]
    have G := MPZ_REALLOC_grown s q ((view (s.h n)).d.length - (view (s.h d)).d.length + 1 - 0) hq
    have Dn := Den.of_grown G hn
    have Dd := Den.of_grown G hd
    have halloc : (Mpz.grow (view (s.h q)) ((view (s.h n)).d.length - (view (s.h d)).d.length + 1)).alloc =
        ((MPZ_REALLOC s q ((view (s.h n)).d.length - (view (s.h d)).d.length + 1 - 0)).h q).buf.alloc := by
      rw [G.alloc, Nat.sub_zero]
    rw [halloc]
    refine Refines.of_grown G ?_
    have hok1 : (MPZ_REALLOC s q ((view (s.h n)).d.length - (view (s.h d)).d.length + 1 - 0)).ok = true := by rw [G.ok]; exact hs
    have hbq := G.bwf q hq.1
    have hroom : (view (s.h n)).d.length - (view (s.h d)).d.length + 1 ≤
        ((MPZ_REALLOC s q ((view (s.h n)).d.length - (view (s.h d)).d.length + 1 - 0)).h q).buf.alloc := by
      have := G.room; omega
    have hle' : ¬ (view (s.h n)).d.length + 1 ≤ (view (s.h d)).d.length := by rw [hNl, hDl]; exact hle
    generalize MPZ_REALLOC s q ((view (s.h n)).d.length - (view (s.h d)).d.length + 1 - 0) = s1 at *
    obtain ⟨cd1, cd2⟩ := copyIfSame_spec (d == q) s1 (s1.PTR d) (view (s.h d)).d Dd
    rw [cd1]
    obtain ⟨cn1, cn2⟩ := copyIfSame_spec (n == q) s1 (s1.PTR n) (view (s.h n)).d Dn
    rw [cn1]
    have DD := cd2 s1 (Or.inr rfl)
    have DN := cn2 s1 (Or.inr rfl)
    generalize (copyIfSame (d == q) s1 (s1.PTR d) (view (s.h d)).d.length).1 = dS at *
    generalize (copyIfSame (n == q) s1 (s1.PTR n) (view (s.h n)).d.length).1 = nS at *
    obtain ⟨en, okn⟩ := DN.rd (view (s.h n)).d.length (Nat.le_refl _)
    obtain ⟨ed, okd⟩ := DD.rd (view (s.h d)).d.length (Nat.le_refl _)
    rw [List.take_length] at en ed
    simp only [mpn_tdiv_q_S, en, ed, okn, okd, Bool.and_self]
    have W := Wrote.fresh s1 q (toLimbs ((view (s.h n)).d.length - (view (s.h d)).d.length + 1)
      (val (view (s.h n)).d / val (view (s.h d)).d)) true hok1 rfl hbq (toLimbs_limbs _ _) (by rw [toLimbs_len]; exact hroom)
    rw [chk_true] at W ⊢
    have hld := W.load ((view (s.h n)).d.length - (view (s.h d)).d.length + 1 - 1) (by rw [toLimbs_len]; omega)
    simp only [hld, chk_true]
    exact W.fin_take _ _ (by rw [toLimbs_len]; split <;> omega)

/-- necessity: with `MPZ_REALLOC (quot, ql - 1)` the store of the quotient leaves the block whenever the block has to grow
    (all variables distinct, numerator at least as long as the denominator) -/
theorem tdiv_q_request_necessary (s : St) (q n d : Nat) (hs : s.ok = true)
    (hq : OWF (s.h q)) (hd0 : (s.h d).size ≠ 0)
    (hnq : n ≠ q) (hdq : d ≠ q) (hge : (s.h d).size.natAbs ≤ (s.h n).size.natAbs)
    (hsmall : (s.h q).buf.alloc < (s.h n).size.natAbs - (s.h d).size.natAbs + 1) :
    ∃ s', tdiv_q 1 s q n d = some s' ∧ s'.ok = false := by
  unfold tdiv_q
  rw [show s.SIZ n = (s.h n).size from rfl, show s.SIZ d = (s.h d).size from rfl]
  have hdl0 : ((s.h d).size.natAbs == 0) = false := by simpa using hd0
  have hle : ¬ (s.h n).size.natAbs + 1 ≤ (s.h d).size.natAbs := by omega
  have e1 : (d == q) = false := by simpa using hdq
  have e2 : (n == q) = false := by simpa using hnq
  simp only [hdl0, Bool.false_eq_true, if_false, hle, e1, e2, copyIfSame]
  refine ⟨_, rfl, ?_⟩
  have h1 : 1 ≤ (s.h q).buf.alloc := hq.2.1
  have ha := MPZ_REALLOC_alloc s q ((s.h n).size.natAbs - (s.h d).size.natAbs + 1 - 1) h1
  have hbad : ((mpn_tdiv_q_S (MPZ_REALLOC s q ((s.h n).size.natAbs - (s.h d).size.natAbs + 1 - 1))
      ((MPZ_REALLOC s q ((s.h n).size.natAbs - (s.h d).size.natAbs + 1 - 1)).PTR q)
      (Src.ptr ((MPZ_REALLOC s q ((s.h n).size.natAbs - (s.h d).size.natAbs + 1 - 1)).PTR n)) (s.h n).size.natAbs
      (Src.ptr ((MPZ_REALLOC s q ((s.h n).size.natAbs - (s.h d).size.natAbs + 1 - 1)).PTR d)) (s.h d).size.natAbs)).ok = false := by
    simp only [mpn_tdiv_q_S, wr_ok, chk_h, PTR_id, PTR_off, toLimbs_len, ha, Bool.and_eq_false_iff, decide_eq_false_iff_not]
    right; omega
  simp only [St.load, setSize_ok, chk_ok, hbad, Bool.false_and]

/-! ## mpz_tdiv_r -/

theorem tdiv_r_refines (s : St) (r n d : Nat) (hs : s.ok = true)
    (hr : OWF (s.h r)) (hn : OWF (s.h n)) (hd : OWF (s.h d)) (hd0 : (s.h d).size ≠ 0) :
    ∃ s', tdiv_r 0 s r n d = some s' ∧
      Refines s s' r (Spec.tdiv_r (n == r) (view (s.h r)) (view (s.h n)) (view (s.h d))) := by
  unfold tdiv_r Spec.tdiv_r
  rw [show s.SIZ n = (s.h n).size from rfl, show s.SIZ d = (s.h d).size from rfl]
  have e1 : (view (s.h n)).size = (s.h n).size := rfl
  have e2 : (view (s.h d)).size = (s.h d).size := rfl
  rw [e1, e2]
  have hNl := view_d_length hn
  have hDl := view_d_length hd
  have hdl0 : ((s.h d).size.natAbs == 0) = false := by simpa using hd0
  simp only [hdl0, Bool.false_eq_true, if_false, Nat.sub_zero]
  have G := MPZ_REALLOC_grown s r (s.h d).size.natAbs hr
  have Dn := Den.of_grown G hn
  have Dd := Den.of_grown G hd
  have halloc : (Mpz.grow (view (s.h r)) (s.h d).size.natAbs).alloc =
    ((MPZ_REALLOC s r (s.h d).size.natAbs).h r).buf.alloc := G.alloc.symm
  rw [halloc]
  have hok1 : (MPZ_REALLOC s r (s.h d).size.natAbs).ok = true := by rw [G.ok]; exact hs
  have hbr := G.bwf r hr.1
  have hroom := G.room
  by_cases hle : (s.h n).size.natAbs + 1 ≤ (s.h d).size.natAbs
  · simp only [hle, if_true]
    by_cases hnr : n = r
    · have e : (n != r) = false := by simp [hnr]
      have e' : (n == r) = true := by simp [hnr]
      simp only [e, e', Bool.false_eq_true, if_false, if_true]
      refine ⟨_, rfl, hok1, ?_, hbr, G.other⟩
      have hfit := view_fit hr
      simp only [view, G.size r]
      rw [G.take r _ hr.1 hfit]
    · have e : (n != r) = true := by simp [hnr]
      have e' : (n == r) = false := by simp [hnr]
      simp only [e, e', Bool.false_eq_true, if_false, if_true]
      refine ⟨_, rfl, Refines.of_grown G ?_⟩
      obtain ⟨en, okn⟩ := Dn.rd (view (s.h n)).d.length (Nat.le_refl _)
      simp only [St.rdS, St.rdOkS] at en okn
      rw [List.take_length, hNl] at en
      rw [hNl] at okn
      simp only [MPN_COPY, en, okn]
      have T := tail_take (MPZ_REALLOC s r (s.h d).size.natAbs) r (view (s.h n)).d (s.h n).size true hok1 rfl hbr
        (view_limbs hn) (by rw [hNl]; omega) (by rw [hNl])
      rw [List.take_of_length_le (by rw [hNl])] at T
      exact T
  · simp only [hle, if_false]
    refine ⟨_, rfl, Refines.of_grown G ?_⟩
    have hle' : ¬ (view (s.h n)).d.length + 1 ≤ (view (s.h d)).d.length := by rw [hNl, hDl]; exact hle
    rw [← hNl]
    rw [← hDl] at hroom Dn Dd hbr hok1 G ⊢
    generalize MPZ_REALLOC s r (view (s.h d)).d.length = s1 at *
    obtain ⟨cd1, cd2⟩ := copyIfSame_spec (d == r) s1 (s1.PTR d) (view (s.h d)).d Dd
    rw [cd1]
    obtain ⟨cn1, cn2⟩ := copyIfSame_spec (n == r) s1 (s1.PTR n) (view (s.h n)).d Dn
    rw [cn1]
    have DD := cd2 s1 (Or.inr rfl)
    have DN := cn2 s1 (Or.inr rfl)
    generalize (copyIfSame (d == r) s1 (s1.PTR d) (view (s.h d)).d.length).1 = dS at *
    generalize (copyIfSame (n == r) s1 (s1.PTR n) (view (s.h n)).d.length).1 = nS at *
    obtain ⟨en, okn⟩ := DN.rd (view (s.h n)).d.length (Nat.le_refl _)
    obtain ⟨ed, okd⟩ := DD.rd (view (s.h d)).d.length (Nat.le_refl _)
    rw [List.take_length] at en ed
    simp only [mpn_tdiv_qr_tmpq, en, ed, okn, okd, Bool.and_self, Buf.write, Buf.new, toLimbs_len, Nat.zero_add,
      Nat.le_refl, if_true, List.length_replicate]
    have T := tail_norm s1 r (toLimbs (view (s.h d)).d.length (val (view (s.h n)).d % val (view (s.h d)).d))
      (decide ((s.h n).size < 0)) true hok1 rfl hbr (toLimbs_limbs _ _) (by rw [toLimbs_len]; exact hroom)
    simp only [toLimbs_len] at T
    exact T

/-- necessity for mpz_tdiv_r: with `MPZ_REALLOC (rem, dl - 1)` the store of the `dl` remainder limbs leaves the block whenever
    the block has to grow (rem neither operand, numerator at least as long as the denominator) -/
theorem tdiv_r_request_necessary (s : St) (r n d : Nat) (hr : OWF (s.h r)) (hd0 : (s.h d).size ≠ 0)
    (hnr : n ≠ r) (hdr : d ≠ r) (hge : (s.h d).size.natAbs ≤ (s.h n).size.natAbs)
    (hsmall : (s.h r).buf.alloc < (s.h d).size.natAbs) :
    ∃ s', tdiv_r 1 s r n d = some s' ∧ s'.ok = false := by
  unfold tdiv_r
  rw [show s.SIZ n = (s.h n).size from rfl, show s.SIZ d = (s.h d).size from rfl]
  have hdl0 : ((s.h d).size.natAbs == 0) = false := by simpa using hd0
  have hle : ¬ (s.h n).size.natAbs + 1 ≤ (s.h d).size.natAbs := by omega
  have e1 : (d == r) = false := by simpa using hdr
  have e2 : (n == r) = false := by simpa using hnr
  simp only [hdl0, Bool.false_eq_true, if_false, hle, e1, e2, copyIfSame]
  refine ⟨_, rfl, ?_⟩
  have h1 : 1 ≤ (s.h r).buf.alloc := hr.2.1
  have ha := MPZ_REALLOC_alloc s r ((s.h d).size.natAbs - 1) h1
  have hbad : (mpn_tdiv_qr_tmpq (MPZ_REALLOC s r ((s.h d).size.natAbs - 1))
      ((s.h n).size.natAbs - (s.h d).size.natAbs + 1) ((MPZ_REALLOC s r ((s.h d).size.natAbs - 1)).PTR r)
      (Src.ptr ((MPZ_REALLOC s r ((s.h d).size.natAbs - 1)).PTR n)) (s.h n).size.natAbs
      (Src.ptr ((MPZ_REALLOC s r ((s.h d).size.natAbs - 1)).PTR d)) (s.h d).size.natAbs).ok = false := by
    simp only [mpn_tdiv_qr_tmpq, wr_ok, chk_h, PTR_id, PTR_off, toLimbs_len, ha, Bool.and_eq_false_iff, decide_eq_false_iff_not]
    right; omega
  simp only [MPN_NORMALIZE, setSize_ok, chk_ok, hbad, Bool.false_and]

/-! ## the values -/

theorem sval_tdiv2 (ns ds : Int) (a b : Nat) :
    (if (Mpz.diffSign ns ds) = true then -((a / b : Nat) : Int) else ((a / b : Nat) : Int)) =
      Int.tdiv (if ns < 0 then -(a : Int) else (a : Int)) (if ds < 0 then -(b : Int) else (b : Int)) := by
  unfold Mpz.diffSign
  by_cases h1 : ns < 0 <;> by_cases h2 : ds < 0 <;> simp [h1, h2, Int.neg_tdiv, Int.tdiv_neg] <;> rfl

theorem sval_tmod2 (ns ds : Int) (a b : Nat) :
    (if ns < 0 then -((a % b : Nat) : Int) else ((a % b : Nat) : Int)) =
      Int.tmod (if ns < 0 then -(a : Int) else (a : Int)) (if ds < 0 then -(b : Int) else (b : Int)) := by
  by_cases h1 : ns < 0 <;> by_cases h2 : ds < 0 <;> simp [h1, h2, Int.neg_tmod, Int.tmod_neg] <;> rfl

theorem Spec.tdiv_q_spec (w n d : Mpz.Mpz) (hw : 1 ≤ w.alloc) (hn : WF n) (hd : WF d) (hd0 : d.size ≠ 0) :
    WF (Spec.tdiv_q w n d) ∧ toInt (Spec.tdiv_q w n d) = Int.tdiv (toInt n) (toInt d) := by
  obtain ⟨_, _, hnl, hnn⟩ := (WF_iff n).mp hn
  obtain ⟨_, _, hdl, hdn⟩ := (WF_iff d).mp hd
  have hdne : d.d ≠ [] := by intro h; rw [h] at hdl; simp at hdl; omega
  have hdlow := hdn.lower hdne
  have hdpos := hdn.pos hdne
  have hnup := hnn.upper
  rw [Mpz.toInt_eq n, Mpz.toInt_eq d]
  unfold Mpz.sval
  rw [← sval_tdiv2]
  unfold Spec.tdiv_q
  dsimp only
  by_cases hle : n.size.natAbs + 1 ≤ d.size.natAbs
  · rw [if_pos hle]
    refine ⟨(Mpz.WF_zero w hw).1, ?_⟩
    have hlt : val n.d < val d.d := by
      have h2 : B ^ n.d.length ≤ B ^ (d.d.length - 1) := Nat.pow_le_pow_right B_pos (by omega)
      omega
    rw [Nat.div_eq_of_lt hlt]; simp [toInt]
  · rw [if_neg hle]
    obtain ⟨ga1, ga2⟩ := grow_alloc w (n.size.natAbs - d.size.natAbs + 1)
    have hnne : n.d ≠ [] := by intro h; rw [h] at hnl; simp at hnl; omega
    have hnlow := hnn.lower hnne
    have hdup := hdn.upper
    -- the quotient has ql or ql - 1 limbs
    have hQlt : val n.d / val d.d < B ^ (n.size.natAbs - d.size.natAbs + 1) := by
      rw [Nat.div_lt_iff_lt_mul hdpos]
      have e : B ^ (n.size.natAbs - d.size.natAbs + 1) * B ^ (d.d.length - 1) = B ^ n.d.length := by
        rw [← pow_add]; congr 1; omega
      calc val n.d < B ^ n.d.length := hnup
        _ = B ^ (n.size.natAbs - d.size.natAbs + 1) * B ^ (d.d.length - 1) := e.symm
        _ ≤ B ^ (n.size.natAbs - d.size.natAbs + 1) * val d.d := Nat.mul_le_mul_left _ hdlow
    obtain ⟨qv, ql, qL⟩ := DivZ.val_toLimbs (n.size.natAbs - d.size.natAbs + 1) (val n.d / val d.d)
    rw [Nat.mod_eq_of_lt hQlt] at qv
    obtain ⟨tv, tl, tn⟩ := Mpz.strip_top _ (n.size.natAbs - d.size.natAbs + 1) ql qL (by
      by_cases h2 : n.size.natAbs - d.size.natAbs + 1 ≤ 1
      · left; exact h2
      · right
        rw [qv, Nat.le_div_iff_mul_le hdpos]
        have e : B ^ (n.size.natAbs - d.size.natAbs + 1 - 2) * B ^ d.d.length = B ^ (n.d.length - 1) := by
          rw [← pow_add]; congr 1; omega
        calc B ^ (n.size.natAbs - d.size.natAbs + 1 - 2) * val d.d
            ≤ B ^ (n.size.natAbs - d.size.natAbs + 1 - 2) * B ^ d.d.length := Nat.mul_le_mul_left _ (Nat.le_of_lt hdup)
          _ = B ^ (n.d.length - 1) := e
          _ ≤ _ := hnlow)
    rw [topLimb_eq_getD _ _ ql (by omega)] at tv tl tn
    obtain ⟨wf, ti⟩ := mk_spec (Mpz.grow w (n.size.natAbs - d.size.natAbs + 1)).alloc _ (Mpz.diffSign n.size d.size) _ tl tn
      (by split_ifs <;> omega) (by omega)
    refine ⟨wf, ?_⟩
    rw [ti, tv, qv]

theorem Spec.tdiv_r_spec (same : Bool) (w n d : Mpz.Mpz) (hw : WF w) (hn : WF n) (hd : WF d) (hd0 : d.size ≠ 0)
    (hsame : same = true → w = n) :
    WF (Spec.tdiv_r same w n d) ∧ toInt (Spec.tdiv_r same w n d) = Int.tmod (toInt n) (toInt d) := by
  obtain ⟨hw1, hwfit, hwl, hwn⟩ := (WF_iff w).mp hw
  obtain ⟨_, hnfit, hnl, hnn⟩ := (WF_iff n).mp hn
  obtain ⟨_, _, hdl, hdn⟩ := (WF_iff d).mp hd
  have hdne : d.d ≠ [] := by intro h; rw [h] at hdl; simp at hdl; omega
  have hdlow := hdn.lower hdne
  have hdpos := hdn.pos hdne
  have hnup := hnn.upper
  obtain ⟨ga1, ga2⟩ := grow_alloc w d.size.natAbs
  have key : toInt n = Int.tmod (toInt n) (toInt d) → True := fun _ => trivial
  unfold Spec.tdiv_r
  dsimp only
  by_cases hle : n.size.natAbs + 1 ≤ d.size.natAbs
  · rw [if_pos hle]
    have hlt : val n.d < val d.d := by
      have h2 : B ^ n.d.length ≤ B ^ (d.d.length - 1) := Nat.pow_le_pow_right B_pos (by omega)
      omega
    have hval : toInt n = Int.tmod (toInt n) (toInt d) := by
      rw [Mpz.toInt_eq n, Mpz.toInt_eq d]; unfold Mpz.sval
      rw [← sval_tmod2, Nat.mod_eq_of_lt hlt]
    cases same
    · simp only [Bool.false_eq_true, if_false]
      refine ⟨(WF_iff _).mpr ⟨by show 1 ≤ (Mpz.grow w d.size.natAbs).alloc; omega,
        by show n.size.natAbs ≤ (Mpz.grow w d.size.natAbs).alloc; omega, hnl, hnn⟩, ?_⟩
      rw [← hval]; rfl
    · simp only [if_true]
      have hwn' := hsame rfl
      subst hwn'
      refine ⟨(WF_iff _).mpr ⟨by show 1 ≤ (Mpz.grow w d.size.natAbs).alloc; omega,
        by show w.size.natAbs ≤ (Mpz.grow w d.size.natAbs).alloc; omega, hwl, hwn⟩, ?_⟩
      rw [← hval]; rfl
  · rw [if_neg hle]
    have hRlt : val n.d % val d.d < B ^ d.size.natAbs := by
      have := Nat.mod_lt (val n.d) hdpos
      have := hdn.upper
      rw [hdl] at this
      omega
    obtain ⟨rv, rl, rL⟩ := DivZ.val_toLimbs d.size.natAbs (val n.d % val d.d)
    rw [Nat.mod_eq_of_lt hRlt] at rv
    have hNorm := Mpz.Norm_normalize rL
    have hlen := Mpz.normalize_length_le (toLimbs d.size.natAbs (val n.d % val d.d))
    obtain ⟨wf, ti⟩ := mk_spec (Mpz.grow w d.size.natAbs).alloc _ (decide (n.size < 0)) _ rfl hNorm (by omega) (by omega)
    refine ⟨wf, ?_⟩
    rw [ti, Mpz.val_normalize, rv, Mpz.toInt_eq n, Mpz.toInt_eq d]
    unfold Mpz.sval
    rw [← sval_tmod2]
    simp

end Mpir.AllocSafe
