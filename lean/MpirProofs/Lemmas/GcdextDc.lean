/- The divide-and-conquer part of mpn_gcdext (gcdext.c:272-386): the first mpn_hgcd round, the loop of
   mpn_hgcd rounds with hgcd_mul_matrix_vector on the cofactors, the mpn_gcd_subdiv_step fallback.

   The invariant (`DInv`): the current pair (a, b) of n limbs (one of them using limb n-1), gcd unchanged, and the
   cofactor buffers hold (u0, u1) in exactly un limbs with  a = u1·A − v1·V,  b = −u0·A + v0·V,  det = 1
   (`CofOk`), hence V = u0·a + u1·b: "|u0|, |u1| ≤ V / min(a, b)" (gcdext.c:393).

   What is assumed of `hg` (= mpn_hgcd) is its contract `HPost` on the sizes it is called with (`HgOk`), proved for
   n < HGCD_REDUCE_THRESHOLD in HgcdRec2 (`hgcd_spec`), and — only for the flag "no store outside a buffer" — the
   size bound M->n ≤ (n-1)/2 on success, which the C asserts at gcdext.c:296/347 (`HgMn`). -/
import MpirProofs.Lemmas.GcdextLehmer2
import MpirProofs.Lemmas.HgcdRec2
namespace Mpir.Gcdext
open Mpir Mpir.Gcd Mpir.Hgcd

/-- the contract of mpn_hgcd on every call with a freshly initialised matrix on fewer than R limbs -/
def HgOk (hg : Nat → Nat → Nat → HM → StepRes) (R : Nat) : Prop :=
  ∀ n a b, n < R → HPre n a b (matInit n) → HPost n a b (matInit n) (hg n a b (matInit n))

/-- the size field of the matrix on success: `ASSERT (M.n <= (n - p - 1)/2)` (gcdext.c:296, :347) -/
def HgMn (hg : Nat → Nat → Nat → HM → StepRes) (R : Nat) : Prop :=
  ∀ n a b, n < R → HPre n a b (matInit n) → (hg n a b (matInit n)).ret ≠ 0 → (hg n a b (matInit n)).M.n ≤ (n - 1) / 2

/-- invariant of the dc loop w.r.t. the inputs A (first operand after the initial division), V, G = gcd; the flag
    "no store outside a buffer" is tracked under the condition P (= `HgMn hg R`) only: values and sizes do not depend on it -/
def DInv (A V G : Nat) (P : Prop) (s : DcState) : Prop :=
  LInv s.a s.b s.n ∧ CofOk A V s.a s.b s.c.u0 s.c.u1 ∧ Nat.gcd s.a s.b = G ∧
  SzInv ⟨s.c.u0, s.c.u1, s.c.un, true⟩ ∧ (P → s.c.ok = true)

theorem dinv_mk {A V G : Nat} {P : Prop} (a b n u0 u1 un : Nat) (ok : Bool) (h1 : LInv a b n) (h2 : CofOk A V a b u0 u1)
    (h3 : Nat.gcd a b = G) (h4 : SzInv ⟨u0, u1, un, true⟩) (h5 : P → ok = true) :
    DInv A V G P ⟨a, b, n, ⟨u0, u1, un, ok⟩⟩ := ⟨h1, h2, h3, h4, h5⟩

/-- what a finished call returns: (g, S) with the identity and the bound -/
def ResOk (A V G : Nat) (r : Fin) : Prop :=
  ∃ S : Int, r.g = G ∧ r.gn = nlimbs G ∧ r.up = S.natAbs ∧
    r.usize = (if S < 0 then -1 else 1) * (nlimbs S.natAbs : Int) ∧
    (∃ t : Int, (A : Int) * S + V * t = G) ∧ CofBound V G S

theorem resOk_of_finOk {A V G g : Nat} {S : Int} {r : Fin} (h : FinOk r g S) (hg : g = G)
    (hid : ∃ t : Int, (A : Int) * S + V * t = g) (hb : CofBound V g S) : ResOk A V G r ∧ r.ok = true := by
  obtain ⟨h1, h2, h3, h4, h5⟩ := h
  subst hg
  exact ⟨⟨S, h1, h2, h4, h5, hid, hb⟩, h3⟩

/-- two contexts that differ in the flag only -/
def OkRel (k : Bool) (c c' : Ctx) : Prop := c.u0 = c'.u0 ∧ c.u1 = c'.u1 ∧ c.un = c'.un ∧ c.ok = (k && c'.ok)

theorem updQ_okirr (ua t s un q : Nat) (ok ok' k : Bool) (h : ok = (k && ok')) :
    (updQ ua t s un ok q).1 = (updQ ua t s un ok' q).1 ∧ (updQ ua t s un ok q).2.1 = (updQ ua t s un ok' q).2.1 ∧
    (updQ ua t s un ok q).2.2 = (k && (updQ ua t s un ok' q).2.2) := by
  subst h
  unfold updQ
  split
  · simp [Bool.and_assoc]
  · dsimp only
    split
    · simp
    · simp [Bool.and_assoc]

theorem hookQS_okirr (ua : Nat) (k : Bool) (c c' : Ctx) (qd : Nat × Bool) (h : OkRel k c c') :
    OkRel k (hookQS ua c qd) (hookQS ua c' qd) := by
  obtain ⟨e0, e1, e2, e3⟩ := h
  unfold hookQS OkRel
  rw [e0, e1, e2]
  split
  · obtain ⟨a1, a2, a3⟩ := updQ_okirr ua c'.u1 c'.u0 c'.un qd.1 c.ok c'.ok k e3
    exact ⟨rfl, a1, a2, a3⟩
  · obtain ⟨a1, a2, a3⟩ := updQ_okirr ua c'.u0 c'.u1 c'.un qd.1 c.ok c'.ok k e3
    exact ⟨a1, rfl, a2, a3⟩

theorem fold_okirr (ua : Nat) (k : Bool) : ∀ (qs : List (Nat × Bool)) (c c' : Ctx), OkRel k c c' →
    OkRel k (qs.foldl (hookQS ua) c) (qs.foldl (hookQS ua) c')
  | [], _, _, h => h
  | qd :: rest, c, c', h => by
    simp only [List.foldl_cons]
    exact fold_okirr ua k rest _ _ (hookQS_okirr ua k c c' qd h)

theorem hookG_okirr (k : Bool) (c c' : Ctx) (g gn : Nat) (d : Int) (h : OkRel k c c') :
    (hookG c g gn d).g = (hookG c' g gn d).g ∧ (hookG c g gn d).gn = (hookG c' g gn d).gn ∧
    (hookG c g gn d).usize = (hookG c' g gn d).usize ∧ (hookG c g gn d).up = (hookG c' g gn d).up ∧
    (hookG c g gn d).ok = (k && (hookG c' g gn d).ok) := by
  obtain ⟨e0, e1, e2, e3⟩ := h
  unfold hookG
  simp only [e0, e1, e3]
  exact ⟨trivial, trivial, trivial, trivial, trivial⟩

/-- the current numbers never exceed the inputs' limb count -/
theorem cofOk_lt_pow {A V a b u0 u1 N : Nat} (h : CofOk A V a b u0 u1) (hA : A < B ^ N) (hV : V < B ^ N) :
    a < B ^ N ∧ b < B ^ N := by
  obtain ⟨hs, h1, hz, _⟩ := cofOk_sum h
  obtain ⟨v0, v1, hd, ca, cb⟩ := h
  simp only at hd ca cb
  have hb : b < B ^ N := by
    have : b ≤ u1 * b := Nat.le_mul_of_pos_left _ h1
    omega
  refine ⟨?_, hb⟩
  rcases Nat.eq_zero_or_pos u0 with h0 | h0
  · have e1 := hz h0
    rw [e1] at ca
    have : (a : Int) ≤ A := by
      have : (0 : Int) ≤ (v1 : Int) * V := by positivity
      push_cast at ca; linarith
    have : a ≤ A := by exact_mod_cast this
    omega
  · have : a ≤ u0 * a := Nat.le_mul_of_pos_left _ h0
    omega

theorem nlimbs_of_bounds {x n : Nat} (hn : 1 ≤ n) (h1 : B ^ (n - 1) ≤ x) (h2 : x < B ^ n) : nlimbs x = n := by
  have hx : 0 < x := lt_of_lt_of_le (pow_pos B_pos _) h1
  have hle : nlimbs x ≤ n := nlimbs_le_of_lt h2
  have := pow_lt_of h1 (lt_pow_nlimbs x)
  omega

/-- a matrix step (a; b) = m·(a'; b') transports the cofactor relation and keeps the gcd -/
theorem cofOk_mrel {A V a b a' b' u0 u1 : Nat} {m : M1} (h : CofOk A V a b u0 u1) (hr : MRel m a' b' a b) :
    CofOk A V a' b' (u0 * m.u00 + u1 * m.u10) (u0 * m.u01 + u1 * m.u11) ∧ Nat.gcd a' b' = Nat.gcd a b := by
  have hst : StepOk m ⟨a, b, u0, u1⟩ ⟨a', b', u0 * m.u00 + u1 * m.u10, u0 * m.u01 + u1 * m.u11⟩ :=
    ⟨hr.1, hr.2.1, hr.2.2, rfl, rfl⟩
  obtain ⟨v0, v1, hci⟩ := h
  exact ⟨⟨_, _, stepOk_cof hst hci⟩, (stepOk_gcd hst).symm⟩

/-! ### one mpn_hgcd round on the limbs from p on, followed by mpn_hgcd_matrix_adjust -/

/-- the state after a successful round -/
structure HgStep (A V G a b u0 u1 p n : Nat) (r : StepRes) (adj : Nat × Nat × Nat) : Prop where
  linv : LInv adj.2.1 adj.2.2 adj.1
  cof : CofOk A V adj.2.1 adj.2.2 (u0 * r.M.e00 + u1 * r.M.e10) (u0 * r.M.e01 + u1 * r.M.e11)
  gcd : Nat.gcd adj.2.1 adj.2.2 = G
  dec : adj.2.1 + adj.2.2 < a + b
  lowa : B ^ (p + (n - p) / 2) ≤ adj.2.1
  lowb : B ^ (p + (n - p) / 2) ≤ adj.2.2
  olda : B ^ (p + (n - p) / 2) ≤ a
  oldb : B ^ (p + (n - p) / 2) ≤ b
  fits : r.M.Fits
  mn : 1 ≤ r.M.n
  det : det1 r.M.toM1
  nle : adj.1 ≤ n

theorem hgRound_spec (hg : Nat → Nat → Nat → HM → StepRes) (R A V G a b n u0 u1 p : Nat) (hok : HgOk hg R)
    (hinv : LInv a b n) (hcof : CofOk A V a b u0 u1) (hgcd : Nat.gcd a b = G) (hp : p < n) (h5 : 5 ≤ n - p)
    (hR : n - p < R) :
    let r := hg (n - p) (a / B ^ p) (b / B ^ p) (matInit (n - p))
    (r.ret ≠ 0 → HgStep A V G a b u0 u1 p n r
        (matAdjust r.M (p + r.ret) (a % B ^ p + B ^ p * r.a) (b % B ^ p + B ^ p * r.b) p)) ∧
    (r.ret = 0 → a % B ^ p + B ^ p * r.a = a ∧ b % B ^ p + B ^ p * r.b = b) := by
  intro r
  obtain ⟨h0a, h0b, haB, hbB, ht, hn1⟩ := hinv
  have hpre : HPre (n - p) (a / B ^ p) (b / B ^ p) (matInit (n - p)) :=
    hpre_matInit _ _ _ (div_pow_lt (by omega) haB) (div_pow_lt (by omega) hbB) (tight_div hp ht)
  obtain ⟨hl, hz⟩ := hok (n - p) _ _ hR hpre
  refine ⟨fun hret => ?_, fun hret => ?_⟩
  · have hadj := adjust_after n a b p _ r hp haB hbB hl hret
    obtain ⟨hrel, hMok, _, _, hsucc⟩ := hl
    obtain ⟨hnid, _⟩ := hsucc hret
    generalize matAdjust r.M (p + r.ret) (a % B ^ p + B ^ p * r.a) (b % B ^ p + B ^ p * r.b) p = adj at hadj ⊢
    obtain ⟨q1, q2, q3, q4, q5, q6, q7⟩ := hadj
    have hK : 0 < B ^ (p + (n - p) / 2) := pow_pos B_pos _
    have hpa : 0 < adj.2.1 := lt_of_lt_of_le hK q5
    have hpb : 0 < adj.2.2 := lt_of_lt_of_le hK q6
    obtain ⟨la, lb⟩ := mrel_le q1
    obtain ⟨hc', hg'⟩ := cofOk_mrel hcof q1
    refine ⟨⟨hpa, hpb, q2, q3, q4, ?_⟩, hc', ?_, mrel_decreases q1 hnid hpa hpb, q5, q6,
      le_trans q5 la, le_trans q6 lb, hMok.1, hMok.2, q1.1, q7⟩
    · have := pow_lt_of q5 q2; omega
    · rw [← hgcd]; exact hg'
  · obtain ⟨_, _, hu⟩ := hz hret
    obtain ⟨u1', u2', _⟩ := hu h5
    rw [u1', u2']
    exact ⟨by rw [Nat.add_comm]; exact Nat.div_add_mod a (B ^ p), by rw [Nat.add_comm]; exact Nat.div_add_mod b (B ^ p)⟩

/-! ### hgcd_mul_matrix_vector on the cofactors -/

theorem mulMatrixVector_spec (M : HM) (u0 u1 un : Nat) (hf : M.Fits) (hd : det1 M.toM1) (h0 : u0 < B ^ un) (h1 : u1 < B ^ un)
    (hu1 : 1 ≤ u1) :
    (mulMatrixVector M u0 u1 un).1 = u0 * M.e00 + u1 * M.e10 ∧
    (mulMatrixVector M u0 u1 un).2.1 = u0 * M.e01 + u1 * M.e11 ∧
    u0 * M.e00 + u1 * M.e10 < B ^ (mulMatrixVector M u0 u1 un).2.2 ∧
    u0 * M.e01 + u1 * M.e11 < B ^ (mulMatrixVector M u0 u1 un).2.2 ∧
    (B ^ ((mulMatrixVector M u0 u1 un).2.2 - 1) ≤ u0 * M.e00 + u1 * M.e10 ∨
      B ^ ((mulMatrixVector M u0 u1 un).2.2 - 1) ≤ u0 * M.e01 + u1 * M.e11) ∧
    1 ≤ (mulMatrixVector M u0 u1 un).2.2 := by
  obtain ⟨f00, f01, f10, f11⟩ := hf
  obtain ⟨p00, p11⟩ := det1_pos hd
  simp only [HM.toM1] at p00 p11
  have e1 : M.e00 * u0 + M.e10 * u1 = u0 * M.e00 + u1 * M.e10 := by ring
  have e2 : M.e11 * u1 + M.e01 * u0 = u0 * M.e01 + u1 * M.e11 := by ring
  unfold mulMatrixVector
  simp only [e1, e2]
  have hP : B ^ (un + M.n + 1) = B ^ un * B ^ M.n * B := by rw [pow_succ, pow_add]
  have hB2 : 2 ≤ B := by rw [B_eq]; norm_num
  have hxb : u0 * M.e00 + u1 * M.e10 < B ^ (un + M.n + 1) := by
    have a1 : u0 * M.e00 < B ^ un * B ^ M.n := Nat.mul_lt_mul'' h0 f00
    have a2 : u1 * M.e10 < B ^ un * B ^ M.n := Nat.mul_lt_mul'' h1 f10
    have : 2 * (B ^ un * B ^ M.n) ≤ B ^ un * B ^ M.n * B := by rw [Nat.mul_comm 2]; exact Nat.mul_le_mul_left _ hB2
    omega
  have hyb : u0 * M.e01 + u1 * M.e11 < B ^ (un + M.n + 1) := by
    have a1 : u0 * M.e01 < B ^ un * B ^ M.n := Nat.mul_lt_mul'' h0 f01
    have a2 : u1 * M.e11 < B ^ un * B ^ M.n := Nat.mul_lt_mul'' h1 f11
    have : 2 * (B ^ un * B ^ M.n) ≤ B ^ un * B ^ M.n * B := by rw [Nat.mul_comm 2]; exact Nat.mul_le_mul_left _ hB2
    omega
  generalize u0 * M.e00 + u1 * M.e10 = x at hxb
  have hy : 1 ≤ u0 * M.e01 + u1 * M.e11 := by
    have : 1 ≤ u1 * M.e11 := Nat.mul_pos hu1 p11
    omega
  generalize u0 * M.e01 + u1 * M.e11 = y at hy hyb
  by_cases hc : x / B ^ (un + M.n) ≠ 0 ∨ y / B ^ (un + M.n) ≠ 0
  · rw [if_pos hc]
    simp only [Nat.add_sub_cancel]
    refine ⟨trivial, trivial, hxb, hyb, ?_, by omega⟩
    rcases hc with h | h
    · exact Or.inl (div_pow_ne_zero.mp h)
    · exact Or.inr (div_pow_ne_zero.mp h)
  · rw [if_neg hc]
    simp only
    refine ⟨trivial, trivial, lt_of_lt_of_le (lt_pow_nlimbs x) (Nat.pow_le_pow_right B_pos (le_max_left _ _)),
      lt_of_lt_of_le (lt_pow_nlimbs y) (Nat.pow_le_pow_right B_pos (le_max_right _ _)), ?_, ?_⟩
    · rcases le_total (nlimbs x) (nlimbs y) with h | h
      · right; rw [max_eq_right h]; exact pow_le_of_nlimbs (by omega)
      · left; rw [max_eq_left h]
        rcases Nat.eq_zero_or_pos x with hx | hx
        · rw [hx, nlimbs_zero] at h
          have := nlimbs_pos (show 0 < y by omega); omega
        · exact pow_le_of_nlimbs hx
    · have := nlimbs_pos (show 0 < y by omega)
      exact le_trans this (le_max_right _ _)

/-! ### mpn_gcd_subdiv_step with mpn_gcdext_hook (gcdext.c:313-330, :370-385) -/

theorem okRel_self (c : Ctx) : OkRel c.ok c ⟨c.u0, c.u1, c.un, true⟩ := ⟨rfl, rfl, rfl, by simp⟩

theorem dcSubdiv_spec (A V G N : Nat) (P : Prop) (hV : V < B ^ N) (s : DcState) (h : DInv A V G P s) :
    match dcSubdiv (N + 1) s with
    | .inr r => ResOk A V G r ∧ (P → r.ok = true)
    | .inl s' => DInv A V G P s' ∧ s'.a + s'.b < s.a + s.b := by
  obtain ⟨hinv, hcof, hgcd, hsz, hokP⟩ := h
  obtain ⟨h0a, h0b, _⟩ := hinv
  unfold dcSubdiv
  dsimp only
  obtain ⟨s1, s2⟩ := subdivStep_spec s.a s.b h0a h0b
  obtain ⟨_, k2⟩ := subdivStep_hook A V s.a s.b s.c.u0 s.c.u1 h0a h0b hcof
  have kx := subdivStep_exit A V s.a s.b s.c.u0 s.c.u1 h0a h0b hcof
  have hfold := hookQS_fold N (subdivStep s.a s.b).qs ⟨s.c.u0, s.c.u1, s.c.un, true⟩ hsz
  have hrel := fold_okirr (N + 1) s.c.ok (subdivStep s.a s.b).qs _ _ (okRel_self s.c)
  simp only at hfold
  generalize hw : (subdivStep s.a s.b).qs.foldl hookQ (s.c.u0, s.c.u1) = w at k2 kx hfold
  obtain ⟨w0, w1⟩ := w
  generalize (subdivStep s.a s.b).qs.foldl (hookQS (N + 1)) ⟨s.c.u0, s.c.u1, s.c.un, true⟩ = c1 at hfold hrel
  generalize (subdivStep s.a s.b).qs.foldl (hookQS (N + 1)) s.c = c' at hrel ⊢
  simp only at k2 kx hfold ⊢
  cases hfin : (subdivStep s.a s.b).fin with
  | some gd =>
    obtain ⟨g, d⟩ := gd
    simp only
    have hex := kx g d hfin
    have hlt := exitOk_lt hex hV
    obtain ⟨f0, f1, fs⟩ := hfold hlt.1 hlt.2
    obtain ⟨r1, r2⟩ := exitOk_result hex
    have hG := hookG_spec c1 g d fs
    rw [f0, f1] at hG
    obtain ⟨x1, x2, x3, x4, x5⟩ := hookG_okirr s.c.ok c' c1 g (nlimbs g) d hrel
    obtain ⟨y1, y2, y3, y4, y5⟩ := hG
    have hgG : g = G := by rw [← hgcd]; exact s1 g d hfin
    subst hgG
    refine ⟨⟨_, by rw [x1]; exact y1, by rw [x2]; exact y2, by rw [x4]; exact y4, by rw [x3]; exact y5, r1, r2⟩, fun hp => ?_⟩
    rw [x5, y3, hokP hp]; rfl
  | none =>
    simp only
    obtain ⟨x1, x2, x3, x4, x5⟩ := s2 hfin
    have hmax : 0 < max (subdivStep s.a s.b).a (subdivStep s.a s.b).b := lt_of_lt_of_le x1 (le_max_left _ _)
    obtain ⟨y1, y2⟩ := nlimbs_bounds _ hmax
    have hinv' : LInv (subdivStep s.a s.b).a (subdivStep s.a s.b).b (subdivStep s.a s.b).n := by
      rw [x5]
      refine ⟨x1, x2, lt_of_le_of_lt (le_max_left _ _) y1, lt_of_le_of_lt (le_max_right _ _) y1, ?_, nlimbs_pos hmax⟩
      rcases le_total (subdivStep s.a s.b).a (subdivStep s.a s.b).b with h | h
      · right; rw [max_eq_right h] at y2 ⊢; exact y2
      · left; rw [max_eq_left h] at y2 ⊢; exact y2
    have hcf := k2 hfin
    have hlt := cof_lt hcf x1 x2 hV
    obtain ⟨f0, f1, fs⟩ := hfold hlt.1 hlt.2
    obtain ⟨e0, e1, e2, e3⟩ := hrel
    refine ⟨⟨hinv', by rw [e0, e1, f0, f1]; exact hcf, by rw [x3]; exact hgcd, ?_, fun hp => ?_⟩, x4⟩
    · show SzInv ⟨c'.u0, c'.u1, c'.un, true⟩
      rw [e0, e1, e2]
      obtain ⟨z1, z2, z3, z4, _⟩ := fs
      exact ⟨z1, z2, z3, z4, rfl⟩
    · show c'.ok = true
      rw [e3, hokP hp, fs.2.2.2.2]; rfl

/-! ### the cofactor side of a successful round -/

theorem cof_lt_k {A V a b u0 u1 N k : Nat} (h : CofOk A V a b u0 u1) (ha : B ^ k ≤ a) (hb : B ^ k ≤ b) (hV : V < B ^ N)
    (hk : k ≤ N) : u0 < B ^ (N - k) ∧ u1 < B ^ (N - k) := by
  obtain ⟨hs, _, _, _⟩ := cofOk_sum h
  have hP : B ^ N = B ^ (N - k) * B ^ k := by rw [← pow_add]; congr 1; omega
  have hkp : 0 < B ^ k := pow_pos B_pos _
  constructor
  · by_contra hc
    have : B ^ (N - k) * B ^ k ≤ u0 * a := Nat.mul_le_mul (by omega) ha
    omega
  · by_contra hc
    have : B ^ (N - k) * B ^ k ≤ u1 * b := Nat.mul_le_mul (by omega) hb
    omega

/-- hgcd_mul_matrix_vector on (u0, u1) after a successful round: values, exact size, and the two ASSERTs
    `M.n + un <= ualloc`, `un < ualloc` (gcdext.c:353, :362) given the bound on M->n -/
theorem dcMul_spec (A V G N a b u0 u1 un p n : Nat) (r : StepRes) (adj : Nat × Nat × Nat)
    (hst : HgStep A V G a b u0 u1 p n r adj) (hcof : CofOk A V a b u0 u1) (hsz : SzInv ⟨u0, u1, un, true⟩)
    (hA : A < B ^ N) (hV : V < B ^ N) :
    (mulMatrixVector r.M u0 u1 un).1 = u0 * r.M.e00 + u1 * r.M.e10 ∧
    (mulMatrixVector r.M u0 u1 un).2.1 = u0 * r.M.e01 + u1 * r.M.e11 ∧
    SzInv ⟨(mulMatrixVector r.M u0 u1 un).1, (mulMatrixVector r.M u0 u1 un).2.1, (mulMatrixVector r.M u0 u1 un).2.2, true⟩ ∧
    (r.M.n ≤ (n - p - 1) / 2 → r.M.n + un ≤ N + 1 ∧ (mulMatrixVector r.M u0 u1 un).2.2 < N + 1) ∧
    (r.M.n ≤ (n - p - 1) / 2 → r.M.n ≤ N + 1) := by
  obtain ⟨b0, b1, ht, hn, _⟩ := hsz
  simp only at b0 b1 ht hn
  obtain ⟨_, hu1, _, _⟩ := cofOk_sum hcof
  obtain ⟨e1, e2, l1, l2, l3, l4⟩ := mulMatrixVector_spec r.M u0 u1 un hst.fits hst.det b0 b1 hu1
  have hpa : 0 < adj.2.1 := hst.linv.1
  have hpb : 0 < adj.2.2 := hst.linv.2.1
  have hlt := cofOk_lt_pow hst.cof hA hV
  have hkN : p + (n - p) / 2 < N := pow_lt_of hst.lowa hlt.1
  have hold := cof_lt_k hcof hst.olda hst.oldb hV (le_of_lt hkN)
  have hnew := cof_lt_k hst.cof hst.lowa hst.lowb hV (le_of_lt hkN)
  have hsz' : SzInv ⟨(mulMatrixVector r.M u0 u1 un).1, (mulMatrixVector r.M u0 u1 un).2.1, (mulMatrixVector r.M u0 u1 un).2.2, true⟩ := by
    unfold SzInv
    simp only [e1, e2]
    exact ⟨l1, l2, l3, l4, trivial⟩
  have hun : un ≤ N - (p + (n - p) / 2) := szInv_un_le (c := ⟨u0, u1, un, true⟩) ⟨b0, b1, ht, hn, rfl⟩ hold.1 hold.2
  have hun' : (mulMatrixVector r.M u0 u1 un).2.2 ≤ N - (p + (n - p) / 2) :=
    szInv_un_le hsz' (by simp only [e1]; exact hnew.1) (by simp only [e2]; exact hnew.2)
  exact ⟨e1, e2, hsz', fun hm => ⟨by omega, by omega⟩, fun hm => by omega⟩

/-! ### the loop (gcdext.c:333-386) -/

theorem dcLoop_spec (hg : Nat → Nat → Nat → HM → StepRes) (R dcThr A V G N : Nat) (hok : HgOk hg R) (hthr : 8 ≤ dcThr)
    (hR : N - N / 3 < R) (hA : A < B ^ N) (hV : V < B ^ N) :
    ∀ (f : Nat) (s : DcState), DInv A V G (HgMn hg R) s → s.a + s.b < f →
      match dcLoop hg dcThr (N + 1) f s with
      | .inr r => ResOk A V G r ∧ (HgMn hg R → r.ok = true)
      | .inl s' => DInv A V G (HgMn hg R) s'
  | 0, s, _, hf => by omega
  | f + 1, s, hinv, hf => by
    unfold dcLoop
    by_cases hn : s.n ≥ dcThr
    · rw [if_pos hn]
      obtain ⟨hl, hcof, hgcd, hsz, hokP⟩ := hinv
      have hlt := cofOk_lt_pow hcof hA hV
      have hnN : s.n ≤ N := by
        rcases hl.2.2.2.2.1 with h | h
        · have := pow_lt_of h hlt.1; omega
        · have := pow_lt_of h hlt.2; omega
      obtain ⟨g1, g2⟩ := hgRound_spec hg R A V G s.a s.b s.n s.c.u0 s.c.u1 (s.n / 3) hok hl hcof hgcd (by omega) (by omega) (by omega)
      simp only at g1 g2 ⊢
      have hmn : HgMn hg R → (hg (s.n - s.n / 3) (s.a / B ^ (s.n / 3)) (s.b / B ^ (s.n / 3)) (matInit (s.n - s.n / 3))).ret ≠ 0 →
          (hg (s.n - s.n / 3) (s.a / B ^ (s.n / 3)) (s.b / B ^ (s.n / 3)) (matInit (s.n - s.n / 3))).M.n ≤ (s.n - s.n / 3 - 1) / 2 :=
        fun h => h _ _ _ (by omega) (hpre_matInit _ _ _ (div_pow_lt (by omega) hl.2.2.1) (div_pow_lt (by omega) hl.2.2.2.1)
          (tight_div (by omega) hl.2.2.2.2.1))
      generalize hg (s.n - s.n / 3) (s.a / B ^ (s.n / 3)) (s.b / B ^ (s.n / 3)) (matInit (s.n - s.n / 3)) = r at g1 g2 hmn ⊢
      by_cases hret : r.ret > 0
      · rw [if_pos hret]
        have hst := g1 (by omega)
        generalize matAdjust r.M (s.n / 3 + r.ret) (s.a % B ^ (s.n / 3) + B ^ (s.n / 3) * r.a)
          (s.b % B ^ (s.n / 3) + B ^ (s.n / 3) * r.b) (s.n / 3) = adj at hst ⊢
        obtain ⟨nn, a', b'⟩ := adj
        obtain ⟨m1, m2, m3, m4, _⟩ := dcMul_spec A V G N s.a s.b s.c.u0 s.c.u1 s.c.un (s.n / 3) s.n r (nn, a', b') hst hcof hsz hA hV
        have hdec : a' + b' < f := by have := hst.dec; simp only at this; omega
        have hcof' : CofOk A V a' b' (mulMatrixVector r.M s.c.u0 s.c.u1 s.c.un).1 (mulMatrixVector r.M s.c.u0 s.c.u1 s.c.un).2.1 := by
          rw [m1, m2]; exact hst.cof
        exact dcLoop_spec hg R dcThr A V G N hok hthr hR hA hV f _
          (dinv_mk a' b' nn _ _ _ _ hst.linv hcof' hst.gcd m3
            (fun hp => by
              obtain ⟨z1, z2⟩ := m4 (hmn hp (by omega))
              rw [hokP hp]; simp only [Bool.true_and, Bool.and_eq_true, decide_eq_true_eq]; exact ⟨z1, z2⟩)) hdec
      · rw [if_neg hret]
        obtain ⟨ea, eb⟩ := g2 (by omega)
        rw [ea, eb]
        have hsub := dcSubdiv_spec A V G N (HgMn hg R) hV ⟨s.a, s.b, s.n, s.c⟩ ⟨hl, hcof, hgcd, hsz, hokP⟩
        cases hd : dcSubdiv (N + 1) ⟨s.a, s.b, s.n, s.c⟩ with
        | inr r' => rw [hd] at hsub; exact hsub
        | inl s' =>
          rw [hd] at hsub
          simp only at hsub ⊢
          exact dcLoop_spec hg R dcThr A V G N hok hthr hR hA hV f s' hsub.1 (by have := hsub.2; omega)
    · rw [if_neg hn]
      exact hinv

/-! ### the first round (gcdext.c:280-331) -/

theorem szInv_pair (x y : Nat) (hy : 1 ≤ y) : SzInv ⟨x, y, max (nlimbs x) (nlimbs y), true⟩ := by
  refine ⟨lt_of_lt_of_le (lt_pow_nlimbs x) (Nat.pow_le_pow_right B_pos (le_max_left _ _)),
    lt_of_lt_of_le (lt_pow_nlimbs y) (Nat.pow_le_pow_right B_pos (le_max_right _ _)), ?_, ?_, rfl⟩
  · show B ^ (max (nlimbs x) (nlimbs y) - 1) ≤ x ∨ B ^ (max (nlimbs x) (nlimbs y) - 1) ≤ y
    rcases le_total (nlimbs x) (nlimbs y) with h | h
    · right; rw [max_eq_right h]; exact pow_le_of_nlimbs (by omega)
    · left; rw [max_eq_left h]
      rcases Nat.eq_zero_or_pos x with hx | hx
      · rw [hx, nlimbs_zero] at h
        have := nlimbs_pos (show 0 < y by omega); omega
      · exact pow_le_of_nlimbs hx
  · have := nlimbs_pos (show 0 < y by omega)
    exact le_trans this (le_max_right _ _)

theorem dcFirst_spec (hg : Nat → Nat → Nat → HM → StepRes) (R A V N : Nat) (hok : HgOk hg R) (h10 : 10 ≤ N)
    (hR : N - N / 2 < R) (hl : LInv A V N) :
    match dcFirst hg (N + 1) A V N with
    | .inr r => ResOk A V (Nat.gcd A V) r ∧ (HgMn hg R → r.ok = true)
    | .inl s => DInv A V (Nat.gcd A V) (HgMn hg R) s := by
  have hV : V < B ^ N := hl.2.2.2.1
  have hcof : CofOk A V A V 0 1 := ⟨1, 0, cofInv_init A V⟩
  have hsz0 : SzInv ⟨0, 1, 1, true⟩ := by unfold SzInv; rw [B_eq]; decide
  unfold dcFirst
  obtain ⟨g1, g2⟩ := hgRound_spec hg R A V (Nat.gcd A V) A V N 0 1 (N / 2) hok hl hcof rfl (by omega) (by omega) hR
  simp only at g1 g2 ⊢
  have hmn : HgMn hg R → (hg (N - N / 2) (A / B ^ (N / 2)) (V / B ^ (N / 2)) (matInit (N - N / 2))).ret ≠ 0 →
      (hg (N - N / 2) (A / B ^ (N / 2)) (V / B ^ (N / 2)) (matInit (N - N / 2))).M.n ≤ (N - N / 2 - 1) / 2 :=
    fun h => h _ _ _ hR (hpre_matInit _ _ _ (div_pow_lt (by omega) hl.2.2.1) (div_pow_lt (by omega) hl.2.2.2.1)
      (tight_div (by omega) hl.2.2.2.2.1))
  generalize hg (N - N / 2) (A / B ^ (N / 2)) (V / B ^ (N / 2)) (matInit (N - N / 2)) = r at g1 g2 hmn ⊢
  by_cases hret : r.ret > 0
  · rw [if_pos hret]
    have hst := g1 (by omega)
    generalize matAdjust r.M (N / 2 + r.ret) (A % B ^ (N / 2) + B ^ (N / 2) * r.a)
      (V % B ^ (N / 2) + B ^ (N / 2) * r.b) (N / 2) = adj at hst ⊢
    obtain ⟨nn, a', b'⟩ := adj
    have hc' : CofOk A V a' b' r.M.e10 r.M.e11 := by
      have := hst.cof
      simpa using this
    obtain ⟨_, p11⟩ := det1_pos hst.det
    exact dinv_mk a' b' nn _ _ _ _ hst.linv hc' hst.gcd (szInv_pair _ _ p11)
      (fun hp => by have := hmn hp (by omega); simp only [decide_eq_true_eq]; omega)
  · rw [if_neg hret]
    obtain ⟨ea, eb⟩ := g2 (by omega)
    rw [ea, eb]
    have hsub := dcSubdiv_spec A V (Nat.gcd A V) N (HgMn hg R) hV ⟨A, V, N, ⟨0, 1, 1, true⟩⟩ ⟨hl, hcof, rfl, hsz0, fun _ => rfl⟩
    cases hd : dcSubdiv (N + 1) ⟨A, V, N, ⟨0, 1, 1, true⟩⟩ with
    | inr r' => rw [hd] at hsub; exact hsub
    | inl s' => rw [hd] at hsub; exact hsub.1

end Mpir.Gcdext
