/- The divide-and-conquer part of mpn_gcdext (gcdext.c:272-386): the first mpn_hgcd round, the loop of
   mpn_hgcd rounds with hgcd_mul_matrix_vector on the cofactors, the mpn_gcd_subdiv_step fallback.

   The invariant (`DInv`): the current pair (a, b) of n limbs (one of them using limb n-1), gcd unchanged, and the
   cofactor buffers hold (u0, u1) in exactly un limbs with  a = u1·A − v1·V,  b = −u0·A + v0·V,  det = 1
   (`CofOk`), hence V = u0·a + u1·b: "|u0|, |u1| ≤ V / min(a, b)" (gcdext.c:393).

   What is assumed of `hg` (= mpn_hgcd) is its contract `HPost` on the sizes it is called with (`HgOk`), proved for
   n < HGCD_REDUCE_THRESHOLD in HgcdRec2 (`hgcd_spec`), and — only for the flag "no store outside a buffer" — the
   size bound M->n ≤ (n-1)/2 on success, which the C asserts at gcdext.c:296/347 (`HgMn`). -/
import MpirProofs.Lemmas.GcdextLehmer2
import MpirProofs.Lemmas.HgcdRec2
namespace Mpir.Gcdext
open Mpir Mpir.Gcd Mpir.Hgcd

/-- the contract of mpn_hgcd on every call with a freshly initialised matrix on fewer than R limbs -/
def HgOk (hg : Nat → Nat → Nat → HM → StepRes) (R : Nat) : Prop :=
  ∀ n a b, n < R → HPre n a b (matInit n) → HPost n a b (matInit n) (hg n a b (matInit n))

/-- the size field of the matrix on success: `ASSERT (M.n <= (n - p - 1)/2)` (gcdext.c:296, :347) -/
def HgMn (hg : Nat → Nat → Nat → HM → StepRes) : Prop :=
  ∀ n a b, (hg n a b (matInit n)).ret ≠ 0 → (hg n a b (matInit n)).M.n ≤ (n - 1) / 2

/-- invariant of the dc loop w.r.t. the inputs A (first operand after the initial division), V, G = gcd -/
def DInv (A V G : Nat) (s : DcState) : Prop :=
  LInv s.a s.b s.n ∧ CofOk A V s.a s.b s.c.u0 s.c.u1 ∧ Nat.gcd s.a s.b = G ∧
  s.c.u0 < B ^ s.c.un ∧ s.c.u1 < B ^ s.c.un ∧ (B ^ (s.c.un - 1) ≤ s.c.u0 ∨ B ^ (s.c.un - 1) ≤ s.c.u1) ∧ 1 ≤ s.c.un

/-- what a finished call returns: (g, S) with the identity and the bound -/
def ResOk (A V G : Nat) (r : Fin) : Prop :=
  ∃ S : Int, r.g = G ∧ r.gn = nlimbs G ∧ r.up = S.natAbs ∧
    r.usize = (if S < 0 then -1 else 1) * (nlimbs S.natAbs : Int) ∧
    (∃ t : Int, (A : Int) * S + V * t = G) ∧ CofBound V G S

theorem resOk_of_finOk {A V G g : Nat} {S : Int} {r : Fin} (h : FinOk r g S) (hg : g = G)
    (hid : ∃ t : Int, (A : Int) * S + V * t = g) (hb : CofBound V g S) : ResOk A V G r ∧ r.ok = true := by
  obtain ⟨h1, h2, h3, h4, h5⟩ := h
  subst hg
  exact ⟨⟨S, h1, h2, h4, h5, hid, hb⟩, h3⟩

/-- the current numbers never exceed the inputs' limb count -/
theorem cofOk_lt_pow {A V a b u0 u1 N : Nat} (h : CofOk A V a b u0 u1) (hA : A < B ^ N) (hV : V < B ^ N) :
    a < B ^ N ∧ b < B ^ N := by
  obtain ⟨hs, h1, hz, _⟩ := cofOk_sum h
  obtain ⟨v0, v1, hd, ca, cb⟩ := h
  simp only at hd ca cb
  have hb : b < B ^ N := by
    have : b ≤ u1 * b := Nat.le_mul_of_pos_left _ h1
    omega
  refine ⟨?_, hb⟩
  rcases Nat.eq_zero_or_pos u0 with h0 | h0
  · have e1 := hz h0
    rw [e1] at ca
    have : (a : Int) ≤ A := by
      have : (0 : Int) ≤ (v1 : Int) * V := by positivity
      push_cast at ca; linarith
    have : a ≤ A := by exact_mod_cast this
    omega
  · have : a ≤ u0 * a := Nat.le_mul_of_pos_left _ h0
    omega

theorem nlimbs_of_bounds {x n : Nat} (hn : 1 ≤ n) (h1 : B ^ (n - 1) ≤ x) (h2 : x < B ^ n) : nlimbs x = n := by
  have hx : 0 < x := lt_of_lt_of_le (pow_pos B_pos _) h1
  have hle : nlimbs x ≤ n := nlimbs_le_of_lt h2
  have := pow_lt_of h1 (lt_pow_nlimbs x)
  omega

/-- a matrix step (a; b) = m·(a'; b') transports the cofactor relation and keeps the gcd -/
theorem cofOk_mrel {A V a b a' b' u0 u1 : Nat} {m : M1} (h : CofOk A V a b u0 u1) (hr : MRel m a' b' a b) :
    CofOk A V a' b' (u0 * m.u00 + u1 * m.u10) (u0 * m.u01 + u1 * m.u11) ∧ Nat.gcd a' b' = Nat.gcd a b := by
  have hst : StepOk m ⟨a, b, u0, u1⟩ ⟨a', b', u0 * m.u00 + u1 * m.u10, u0 * m.u01 + u1 * m.u11⟩ :=
    ⟨hr.1, hr.2.1, hr.2.2, rfl, rfl⟩
  obtain ⟨v0, v1, hci⟩ := h
  exact ⟨⟨_, _, stepOk_cof hst hci⟩, (stepOk_gcd hst).symm⟩

/-! ### one mpn_hgcd round on the limbs from p on, followed by mpn_hgcd_matrix_adjust -/

/-- the state after a successful round -/
structure HgStep (A V G a b u0 u1 p n : Nat) (r : StepRes) (adj : Nat × Nat × Nat) : Prop where
  linv : LInv adj.2.1 adj.2.2 adj.1
  cof : CofOk A V adj.2.1 adj.2.2 (u0 * r.M.e00 + u1 * r.M.e10) (u0 * r.M.e01 + u1 * r.M.e11)
  gcd : Nat.gcd adj.2.1 adj.2.2 = G
  dec : adj.2.1 + adj.2.2 < a + b
  lowa : B ^ (p + (n - p) / 2) ≤ adj.2.1
  lowb : B ^ (p + (n - p) / 2) ≤ adj.2.2
  olda : B ^ (p + (n - p) / 2) ≤ a
  oldb : B ^ (p + (n - p) / 2) ≤ b
  fits : r.M.Fits
  mn : 1 ≤ r.M.n
  det : det1 r.M.toM1
  nle : adj.1 ≤ n

theorem hgRound_spec (hg : Nat → Nat → Nat → HM → StepRes) (R A V G a b n u0 u1 p : Nat) (hok : HgOk hg R)
    (hinv : LInv a b n) (hcof : CofOk A V a b u0 u1) (hgcd : Nat.gcd a b = G) (hp : p < n) (h5 : 5 ≤ n - p)
    (hR : n - p < R) :
    let r := hg (n - p) (a / B ^ p) (b / B ^ p) (matInit (n - p))
    (r.ret ≠ 0 → HgStep A V G a b u0 u1 p n r
        (matAdjust r.M (p + r.ret) (a % B ^ p + B ^ p * r.a) (b % B ^ p + B ^ p * r.b) p)) ∧
    (r.ret = 0 → a % B ^ p + B ^ p * r.a = a ∧ b % B ^ p + B ^ p * r.b = b) := by
  intro r
  obtain ⟨h0a, h0b, haB, hbB, ht, hn1⟩ := hinv
  have hpre : HPre (n - p) (a / B ^ p) (b / B ^ p) (matInit (n - p)) :=
    hpre_matInit _ _ _ (div_pow_lt (by omega) haB) (div_pow_lt (by omega) hbB) (tight_div hp ht)
  obtain ⟨hl, hz⟩ := hok (n - p) _ _ hR hpre
  refine ⟨fun hret => ?_, fun hret => ?_⟩
  · have hadj := adjust_after n a b p _ r hp haB hbB hl hret
    obtain ⟨hrel, hMok, _, _, hsucc⟩ := hl
    obtain ⟨hnid, _⟩ := hsucc hret
    generalize matAdjust r.M (p + r.ret) (a % B ^ p + B ^ p * r.a) (b % B ^ p + B ^ p * r.b) p = adj at hadj ⊢
    obtain ⟨q1, q2, q3, q4, q5, q6, q7⟩ := hadj
    have hK : 0 < B ^ (p + (n - p) / 2) := pow_pos B_pos _
    have hpa : 0 < adj.2.1 := lt_of_lt_of_le hK q5
    have hpb : 0 < adj.2.2 := lt_of_lt_of_le hK q6
    obtain ⟨la, lb⟩ := mrel_le q1
    obtain ⟨hc', hg'⟩ := cofOk_mrel hcof q1
    refine ⟨⟨hpa, hpb, q2, q3, q4, ?_⟩, hc', ?_, mrel_decreases q1 hnid hpa hpb, q5, q6,
      le_trans q5 la, le_trans q6 lb, hMok.1, hMok.2, q1.1, q7⟩
    · have := pow_lt_of q5 q2; omega
    · rw [← hgcd]; exact hg'
  · obtain ⟨_, _, hu⟩ := hz hret
    obtain ⟨u1', u2', _⟩ := hu h5
    rw [u1', u2']
    exact ⟨by rw [Nat.add_comm]; exact Nat.div_add_mod a (B ^ p), by rw [Nat.add_comm]; exact Nat.div_add_mod b (B ^ p)⟩

/-! ### hgcd_mul_matrix_vector on the cofactors -/

theorem mulMatrixVector_spec (M : HM) (u0 u1 un : Nat) (hf : M.Fits) (hd : det1 M.toM1) (h0 : u0 < B ^ un) (h1 : u1 < B ^ un)
    (hu1 : 1 ≤ u1) :
    (mulMatrixVector M u0 u1 un).1 = u0 * M.e00 + u1 * M.e10 ∧
    (mulMatrixVector M u0 u1 un).2.1 = u0 * M.e01 + u1 * M.e11 ∧
    u0 * M.e00 + u1 * M.e10 < B ^ (mulMatrixVector M u0 u1 un).2.2 ∧
    u0 * M.e01 + u1 * M.e11 < B ^ (mulMatrixVector M u0 u1 un).2.2 ∧
    (B ^ ((mulMatrixVector M u0 u1 un).2.2 - 1) ≤ u0 * M.e00 + u1 * M.e10 ∨
      B ^ ((mulMatrixVector M u0 u1 un).2.2 - 1) ≤ u0 * M.e01 + u1 * M.e11) ∧
    1 ≤ (mulMatrixVector M u0 u1 un).2.2 := by
  obtain ⟨f00, f01, f10, f11⟩ := hf
  obtain ⟨p00, p11⟩ := det1_pos hd
  simp only [HM.toM1] at p00 p11
  have e1 : M.e00 * u0 + M.e10 * u1 = u0 * M.e00 + u1 * M.e10 := by ring
  have e2 : M.e11 * u1 + M.e01 * u0 = u0 * M.e01 + u1 * M.e11 := by ring
  unfold mulMatrixVector
  simp only [e1, e2]
  have hP : B ^ (un + M.n + 1) = B ^ un * B ^ M.n * B := by rw [pow_succ, pow_add]
  have hB2 : 2 ≤ B := by rw [B_eq]; norm_num
  have hxb : u0 * M.e00 + u1 * M.e10 < B ^ (un + M.n + 1) := by
    have a1 : u0 * M.e00 < B ^ un * B ^ M.n := Nat.mul_lt_mul'' h0 f00
    have a2 : u1 * M.e10 < B ^ un * B ^ M.n := Nat.mul_lt_mul'' h1 f10
    have : 2 * (B ^ un * B ^ M.n) ≤ B ^ un * B ^ M.n * B := by rw [Nat.mul_comm 2]; exact Nat.mul_le_mul_left _ hB2
    omega
  have hyb : u0 * M.e01 + u1 * M.e11 < B ^ (un + M.n + 1) := by
    have a1 : u0 * M.e01 < B ^ un * B ^ M.n := Nat.mul_lt_mul'' h0 f01
    have a2 : u1 * M.e11 < B ^ un * B ^ M.n := Nat.mul_lt_mul'' h1 f11
    have : 2 * (B ^ un * B ^ M.n) ≤ B ^ un * B ^ M.n * B := by rw [Nat.mul_comm 2]; exact Nat.mul_le_mul_left _ hB2
    omega
  generalize u0 * M.e00 + u1 * M.e10 = x at hxb
  have hy : 1 ≤ u0 * M.e01 + u1 * M.e11 := by
    have : 1 ≤ u1 * M.e11 := Nat.mul_pos hu1 p11
    omega
  generalize u0 * M.e01 + u1 * M.e11 = y at hy hyb
  by_cases hc : x / B ^ (un + M.n) ≠ 0 ∨ y / B ^ (un + M.n) ≠ 0
  · rw [if_pos hc]
    simp only [Nat.add_sub_cancel]
    refine ⟨trivial, trivial, hxb, hyb, ?_, by omega⟩
    rcases hc with h | h
    · exact Or.inl (div_pow_ne_zero.mp h)
    · exact Or.inr (div_pow_ne_zero.mp h)
  · rw [if_neg hc]
    simp only
    refine ⟨trivial, trivial, lt_of_lt_of_le (lt_pow_nlimbs x) (Nat.pow_le_pow_right B_pos (le_max_left _ _)),
      lt_of_lt_of_le (lt_pow_nlimbs y) (Nat.pow_le_pow_right B_pos (le_max_right _ _)), ?_, ?_⟩
    · rcases le_total (nlimbs x) (nlimbs y) with h | h
      · right; rw [max_eq_right h]; exact pow_le_of_nlimbs (by omega)
      · left; rw [max_eq_left h]
        rcases Nat.eq_zero_or_pos x with hx | hx
        · rw [hx, nlimbs_zero] at h
          have := nlimbs_pos (show 0 < y by omega); omega
        · exact pow_le_of_nlimbs hx
    · have := nlimbs_pos (show 0 < y by omega)
      exact le_trans this (le_max_right _ _)

end Mpir.Gcdext
