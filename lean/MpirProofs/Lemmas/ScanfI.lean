/-
  Helper lemmas for the scanf side of C18, second part: the field reader `number` of scanf/doscan.c on a field of
  known shape for EVERY scan base including base detection (`%Zi` / `%Qi`), `mpz_set_str` with base 0 on what the
  scanner stores, and `gmpscan` for the types Z and Q in terms of `number`.
-/
import MpirProofs.Lemmas.Scanf
namespace Mpir.Scanf
open Mpir.Printf

/-! ### base detection, the octal case -/

/-- base detection on "0" not followed by x / X (doscan.c:249-265): octal, the 0 is stored and counts as a digit -/
theorem baseStep_oct (W : Nat) (g : GS) (t : List Char) (hx : t.head? ≠ some 'x' ∧ t.head? ≠ some 'X')
    (hrep : Rep W g ('0' :: t)) (ho : g.over = false) (hW : g.chars + 1 ≤ W) :
    Rep W (baseStep W g) t ∧ (baseStep W g).s = g.s ++ ['0'] ∧ (baseStep W g).chars = g.chars + 1 ∧
    (baseStep W g).base = 8 ∧ (baseStep W g).seenDigit = true ∧ (baseStep W g).over = false := by
  obtain ⟨-, hcc, -⟩ := hrep.1 ho
  simp only [List.head?_cons] at hcc
  have hrep0 : Rep W { ({ g with base := 10 }.store '0') with seenDigit := true, base := 8 } ('0' :: t) := hrep
  obtain ⟨a1, a2, a3, a4, a5, a6⟩ := rep_get' W _ '0' t hrep0 ho (by show g.chars + 1 ≤ W; omega)
  obtain ⟨-, acc, -⟩ := a1.1 a6
  have e := baseStep_unfold W g _ rfl
  generalize ({ ({ g with base := 10 }.store '0') with seenDigit := true, base := 8 } : GS).get W = g1 at *
  have hnx : ¬ (g1.c = some 'x' ∨ g1.c = some 'X') := by rw [acc]; exact fun h => h.elim hx.1 hx.2
  have hbs : baseStep W g = g1 := by
    rw [e]; simp only [hcc, if_true, a6, Bool.false_eq_true, if_false, hnx]
  rw [hbs]
  exact ⟨a1, by rw [a3]; simp [GS.store], by rw [a2]; rfl, a4, a5, a6⟩

/-! ### the digit loop on a field of known shape -/

theorem digitsLoop_field (W fuel : Nat) (g : GS) (body tail : List Char) (hrep : Rep W g (body ++ tail)) (ho : g.over = false)
    (hf : (body ++ tail).length + 1 ≤ fuel) (hW : g.chars + (body ++ tail).length ≤ W + 1)
    (hall : ∀ c ∈ body, isDigitIn g.base c = true) (htail : ∀ c, tail.head? = some c → isDigitIn g.base c = false) :
    Rep W (digitsLoop W fuel g) tail ∧ (digitsLoop W fuel g).s = g.s ++ body ∧
    (digitsLoop W fuel g).chars = g.chars + body.length ∧ (digitsLoop W fuel g).base = g.base ∧
    (digitsLoop W fuel g).seenDigit = (g.seenDigit || !body.isEmpty) := by
  obtain ⟨d1, d2, d3, d4, d5⟩ := digitsLoop_spec W fuel g _ hrep ho hf
  have htk : (body ++ tail).take (W + 1 - g.chars) = body ++ tail := List.take_of_length_le (by omega)
  rw [htk, takeWhile_stop _ body tail hall htail] at d1 d2 d3 d5
  exact ⟨by simpa using d1, d2, d3, d4, d5⟩

/-! ### `number` on a field of known shape, every scan base -/

/-- `Shape b0 b pre body rest`: under the scan base `b0` (0 = detect, doscan.c:246-266) the characters `pre ++ body`
    followed by `rest` are a base indicator `pre` and the longest run of digits `body` of the base `b` -/
def Shape (b0 b : Nat) (pre body rest : List Char) : Prop :=
  (∀ c ∈ body, isDigitIn b c = true) ∧ (∀ c, rest.head? = some c → isDigitIn b c = false) ∧
  ((b0 = b ∧ (b = 8 ∨ b = 10 ∨ b = 16) ∧ pre = []) ∨
   (b0 = 0 ∧ b = 10 ∧ pre = [] ∧ (body ++ rest).head? ≠ some '0') ∨
   (b0 = 0 ∧ b = 8 ∧ pre = ['0'] ∧ (body ++ rest).head? ≠ some 'x' ∧ (body ++ rest).head? ≠ some 'X') ∨
   (b0 = 0 ∧ b = 16 ∧ (pre = ['0', 'x'] ∨ pre = ['0', 'X'])))

/-- a sign as the scanner sees it: nothing (then the field does not start with a sign), `-` or `+` -/
def SignOK (sg r : List Char) : Prop :=
  (sg = [] ∧ r.head? ≠ some '-' ∧ r.head? ≠ some '+') ∨ sg = ['-'] ∨ sg = ['+']

theorem signOK_len (sg r : List Char) (h : SignOK sg r) : signLen (sg ++ r) = sg.length ∧
    signStore (sg ++ r) = (if sg = ['-'] then ['-'] else []) := by
  rcases h with ⟨h, h1, h2⟩ | h | h <;> subst h
  · cases r with
    | nil => simp [signLen, signStore]
    | cons c t =>
      simp only [List.head?_cons, ne_eq, Option.some.injEq] at h1 h2
      simp [signLen, signStore, h1, h2]
  · simp [signLen, signStore]
  · simp [signLen, signStore]

theorem shape_base (b0 b : Nat) (pre body rest : List Char) (h : Shape b0 b pre body rest) : b = 8 ∨ b = 10 ∨ b = 16 := by
  rcases h.2.2 with ⟨_, h, _⟩ | ⟨_, h, _⟩ | ⟨_, h, _⟩ | ⟨_, h, _⟩ <;> simp [h]

/-- `number` (doscan.c:233-286) on `sg ++ pre ++ body ++ rest` when the width does not interfere. -/
theorem number_shape (W pb : Nat) (g : GS) (sg pre body rest : List Char) (b : Nat)
    (hrep : Rep W g (sg ++ (pre ++ (body ++ rest)))) (ho : g.over = false)
    (hW : g.chars + (sg ++ (pre ++ (body ++ rest))).length ≤ W)
    (hsg : SignOK sg (pre ++ (body ++ rest))) (hsh : Shape g.base b pre body rest) :
    Rep W (number W pb g) rest ∧
    (number W pb g).s = g.s ++ (if sg = ['-'] then ['-'] else []) ++ pre ++ body ∧
    (number W pb g).chars = g.chars + sg.length + pre.length + body.length ∧
    (number W pb g).seenDigit = (decide (pre = ['0']) || !body.isEmpty) := by
  obtain ⟨hsl, hss⟩ := signOK_len sg _ hsg
  have hrep0 : Rep W { g with seenDigit := false } (sg ++ (pre ++ (body ++ rest))) := hrep
  obtain ⟨s1, s2, s3, s4, s5, s6⟩ := signStep_spec W { g with seenDigit := false } _ hrep0 ho
  rw [hsl, List.drop_left'  rfl] at s1
  rw [hss] at s2
  rw [hsl] at s3
  simp only [List.length_append] at hW
  have hov : (signStep W { g with seenDigit := false }).over = false := by
    cases h : (signStep W { g with seenDigit := false }).over with
    | false => rfl
    | true =>
      obtain ⟨k1, kW⟩ := s6 h
      have kW' : g.chars = W := kW
      rw [hsl] at k1; omega
  rw [number_unfold, hov]
  simp only [Bool.false_eq_true, if_false]
  have e1 : ({ g with seenDigit := false } : GS).chars = g.chars := rfl
  have e2 : ({ g with seenDigit := false } : GS).base = g.base := rfl
  have e3 : ({ g with seenDigit := false } : GS).s = g.s := rfl
  have e4 : ({ g with seenDigit := false } : GS).seenDigit = false := rfl
  rw [e1] at s3; rw [e2] at s4; rw [e3] at s2; rw [e4] at s5
  generalize signStep W { g with seenDigit := false } = g1 at *
  obtain ⟨hall, hrest, hcase⟩ := hsh
  have fin : ∀ (g2 : GS), Rep W g2 (body ++ rest) → g2.over = false → g2.base = b → g2.chars = g1.chars + pre.length →
      g2.s = g1.s ++ pre → g2.seenDigit = decide (pre = ['0']) →
      Rep W (digitsLoop W (g2.rest.length + 2) g2) rest ∧
      (digitsLoop W (g2.rest.length + 2) g2).s = g.s ++ (if sg = ['-'] then ['-'] else []) ++ pre ++ body ∧
      (digitsLoop W (g2.rest.length + 2) g2).chars = g.chars + sg.length + pre.length + body.length ∧
      (digitsLoop W (g2.rest.length + 2) g2).seenDigit = (decide (pre = ['0']) || !body.isEmpty) := by
    intro g2 r2 o2 b2 c2 ss2 sd2
    have hfuel : (body ++ rest).length + 1 ≤ g2.rest.length + 2 := by
      obtain ⟨-, -, hr⟩ := r2.1 o2
      rw [hr]; simp; omega
    obtain ⟨d1, d2, d3, d4, d5⟩ := digitsLoop_field W _ g2 body rest r2 o2 hfuel
      (by rw [c2, s3]; simp only [List.length_append]; omega) (by rw [b2]; exact hall) (by rw [b2]; exact hrest)
    refine ⟨d1, by rw [d2, ss2, s2], by rw [d3, c2, s3], by rw [d5, sd2]⟩
  rcases hcase with ⟨hb0, hb, hpre⟩ | ⟨hb0, hb, hpre, hnz⟩ | ⟨hb0, hb, hpre, hnx, hnX⟩ | ⟨hb0, hb, hpre⟩
  · -- fixed base
    have hne : ¬ g1.base = 0 := by rw [s4, hb0]; omega
    simp only [hne, if_false]
    subst hpre
    exact fin g1 s1 hov (by rw [s4, hb0]) (by simp) (by simp) (by rw [s5]; simp)
  · -- detection: decimal
    have he : g1.base = 0 := by rw [s4, hb0]
    simp only [he, if_true]
    subst hpre
    rw [baseStep_dec W g1 _ hnz s1 hov]
    exact fin { g1 with base := 10 } s1 hov hb.symm (by simp) (by simp) (by show g1.seenDigit = _; rw [s5]; simp)
  · -- detection: octal
    have he : g1.base = 0 := by rw [s4, hb0]
    simp only [he, if_true]
    subst hpre
    obtain ⟨o1, o2, o3, o4, o5, o6⟩ := baseStep_oct W g1 (body ++ rest) ⟨hnx, hnX⟩ s1 hov
      (by rw [s3]; simp only [List.length_cons, List.length_nil] at hW; omega)
    exact fin _ o1 o6 (by rw [o4, hb]) (by rw [o3]; rfl) o2 (by rw [o5]; simp)
  · -- detection: hexadecimal
    have he : g1.base = 0 := by rw [s4, hb0]
    simp only [he, if_true]
    obtain ⟨x, hx, hpx⟩ : ∃ x, (x = 'x' ∨ x = 'X') ∧ pre = ['0', x] := by
      rcases hpre with h | h
      · exact ⟨'x', Or.inl rfl, h⟩
      · exact ⟨'X', Or.inr rfl, h⟩
    subst hpx
    obtain ⟨o1, o2, o3, o4, o5, o6⟩ := baseStep_hex W g1 x (body ++ rest) hx s1 hov
      (by rw [s3]; simp only [List.length_cons, List.length_nil] at hW; omega)
    exact fin _ o1 o6 (by rw [o4, hb]) (by rw [o3]; rfl) o2 (by rw [o5]; simp)

/-! ### `gmpscan` in terms of `number` -/

/-- doscan.c:314-327: a `/` after the numerator of a rational starts the denominator (`do_second`) -/
def slashStep (p : ScanParams) (width : Nat) (g : GS) : GS × Bool :=
  if ¬ g.over ∧ p.type = 'Q' ∧ g.c = some '/' then
    if ¬ g.seenDigit then (g, true)
    else
      let g := ({ (g.store '/') with seenDigit := false, base := p.base }).get width
      if g.over then (g, false) else (number width p.base g, false)
  else (g, false)

/-- doscan.c:330-386: convert, push the look-ahead back, return the count -/
def finishScan (p : ScanParams) (width : Nat) (gi : GS × Bool) : GResult :=
  let g := gi.1
  let invalid := gi.2 || !g.seenDigit
  let val : Scanned :=
    if invalid ∨ p.ignore then .none
    else if p.type = 'Q' then (match setStrQ g.s p.base with | some (n, d) => .q n d | none => .none)
    else (match setStr g.s p.base with | some v => .z v | none => .none)
  let rest := if g.chars ≠ width + 1 then (match g.c with | some c => c :: g.rest | none => g.rest) else g.rest
  { ret := if invalid then -1 else (g.chars - 1 : Nat), rest := rest, val := val }

theorem gmpscan_cons (p : ScanParams) (c0 : Char) (rest0 : List Char) :
    gmpscan p (c0 :: rest0) = finishScan p (scanWidth p) (slashStep p (scanWidth p)
      (number (scanWidth p) p.base { chars := 1, c := some c0, rest := rest0, base := p.base })) := by
  rfl

theorem rep_not_over (W : Nat) (g : GS) (rem : List Char) (h : Rep W g rem) (hc : g.chars ≤ W) : g.over = false := by
  cases ho : g.over with
  | false => rfl
  | true => have := (h.2 ho).1; omega

theorem finishScan_ok (p : ScanParams) (W : Nat) (g : GS) (tail : List Char) (hrep : Rep W g tail) (hs : g.seenDigit = true) :
    finishScan p W (g, false) =
      { ret := ((g.chars - 1 : Nat) : Int), rest := tail,
        val := if p.ignore then .none
               else if p.type = 'Q' then (match setStrQ g.s p.base with | some (n, d) => .q n d | none => .none)
               else (match setStr g.s p.base with | some v => .z v | none => .none) } := by
  obtain ⟨h1, h2⟩ := rep_rest W g tail hrep
  unfold finishScan
  simp only [hs, Bool.not_true, Bool.or_self, Bool.false_eq_true, false_or, if_false, GResult.mk.injEq, true_and]
  refine ⟨?_, by simp⟩
  by_cases hc : g.chars = W + 1
  · simp [hc, h2 hc]
  · obtain ⟨a, b⟩ := h1 hc
    simp only [ne_eq, hc, not_false_eq_true, if_true, a, b]
    cases tail <;> simp

theorem slashStep_none (p : ScanParams) (W : Nat) (g : GS) (tail : List Char) (hrep : Rep W g tail)
    (h : p.type ≠ 'Q' ∨ tail.head? ≠ some '/') : slashStep p W g = (g, false) := by
  unfold slashStep
  rw [if_neg]
  rintro ⟨h1, h2, h3⟩
  rcases h with h | h
  · exact h h2
  · have ho : g.over = false := by simpa using h1
    rw [(hrep.1 ho).2.1] at h3; exact h h3

/-! ### mpz_set_str with base detection on what the scanner stored -/

theorem isDigitIn_not (b : Nat) (c : Char) (h : isDigitIn b c = true) :
    c ≠ 'x' ∧ c ≠ 'X' ∧ c ≠ 'b' ∧ c ≠ 'B' ∨ b = 16 := by
  by_cases hb : b = 16
  · right; exact hb
  · left
    unfold isDigitIn at h
    rw [if_neg hb] at h
    obtain ⟨l0, l9, la, lf, lz, lA, lF, lZ, l8⟩ := lits
    simp only [cle, l0, l9, Bool.and_eq_true, decide_eq_true_eq] at h
    have e : ∀ d : Char, 57 < d.toNat → c ≠ d := by
      intro d hd hcd; rw [hcd] at h; omega
    exact ⟨e _ (by decide), e _ (by decide), e _ (by decide), e _ (by decide)⟩

/-- `mpz_set_str (s, b0)` on sign ++ base indicator ++ digits as `Shape` describes them -/
theorem setStr_shape (b0 b : Nat) (neg : Bool) (pre body rest : List Char) (hsh : Shape b0 b pre body rest)
    (hv : pre = ['0'] ∨ body ≠ []) :
    setStr ((if neg then ['-'] else []) ++ pre ++ body) b0 =
      some (if neg then -(strVal b body : Int) else (strVal b body : Int)) := by
  obtain ⟨hall, hrest, hcase⟩ := hsh
  rcases hcase with ⟨hb0, hb, hpre⟩ | ⟨hb0, hb, hpre, hnz⟩ | ⟨hb0, hb, hpre, hnx, hnX⟩ | ⟨hb0, hb, hpre⟩
  · subst hpre hb0
    have hne : body ≠ [] := hv.elim (fun h => by cases h) id
    simpa using setStr_digits b0 hb neg body hne hall
  · subst hpre hb0 hb
    have hne : body ≠ [] := hv.elim (fun h => by cases h) id
    obtain ⟨a, t, rfl⟩ : ∃ a t, body = a :: t := by
      cases body with
      | nil => exact absurd rfl hne
      | cons a t => exact ⟨a, t, rfl⟩
    have ha0 : a ≠ '0' := by simpa using hnz
    have ha : a ≠ '-' := (digit_not_special 10 a (hall a List.mem_cons_self)).1
    have hda : ¬ digitValue a ≥ 10 := by
      have := isDigitIn_lt 10 (by simp) a (hall a List.mem_cons_self); omega
    have hallb : (a :: t).all (fun c => decide (digitValue c < 10)) = true := by
      simp only [List.all_eq_true, decide_eq_true_eq]
      exact fun c hc => isDigitIn_lt 10 (by simp) c (hall c hc)
    have hm : (match a :: t with
        | '0' :: 'x' :: t => ((16 : Nat), t)
        | '0' :: 'X' :: t => (16, t)
        | '0' :: 'b' :: t => (2, t)
        | '0' :: 'B' :: t => (2, t)
        | '0' :: t => (8, t)
        | _ => (10, a :: t)) = (10, a :: t) := by
      split <;> simp_all
    cases neg with
    | true =>
      simp only [if_true, setStr, List.cons_append, List.nil_append, List.head?_cons, decide_true, List.tail_cons,
        if_true, hda, if_false, strVal, List.append_nil]
      split <;> first | (exfalso; simp_all; done) | simp only [hallb, if_true]
    | false =>
      simp only [Bool.false_eq_true, if_false, setStr, List.nil_append, List.head?_cons, Option.some.injEq, ha,
        decide_false, if_true, hda, strVal, List.append_nil]
      split <;> first | (exfalso; simp_all; done) | simp only [hallb, if_true]
  · subst hpre hb0 hb
    have hallb : body.all (fun c => decide (digitValue c < 8)) = true := by
      simp only [List.all_eq_true, decide_eq_true_eq]
      exact fun c hc => isDigitIn_lt 8 (by simp) c (hall c hc)
    have hd0 : ¬ digitValue '0' ≥ 10 := by decide
    cases body with
    | nil => cases neg <;> decide
    | cons a t =>
      have hn : a ≠ 'x' ∧ a ≠ 'X' ∧ a ≠ 'b' ∧ a ≠ 'B' := by
        rcases isDigitIn_not 8 a (hall a List.mem_cons_self) with h | h
        · exact h
        · omega
      obtain ⟨h1, h2, h3, h4⟩ := hn
      cases neg with
      | true =>
        simp only [if_true, setStr, List.cons_append, List.nil_append, List.head?_cons, decide_true, List.tail_cons,
          if_true, hd0, if_false, strVal]
        split <;> first | (exfalso; simp_all; done) | (rename_i heq; cases heq; simp only [hallb, if_true])
      | false =>
        simp only [Bool.false_eq_true, if_false, setStr, List.nil_append, List.cons_append, List.head?_cons, Option.some.injEq,
          show ¬ ('0' = '-') by decide, decide_false, if_true, hd0, strVal]
        split <;> first | (exfalso; simp_all; done) | (rename_i heq; cases heq; simp only [hallb, if_true])
  · subst hb0 hb
    have hallb : body.all (fun c => decide (digitValue c < 16)) = true := by
      simp only [List.all_eq_true, decide_eq_true_eq]
      exact fun c hc => isDigitIn_lt 16 (by simp) c (hall c hc)
    have hd0 : ¬ digitValue '0' ≥ 10 := by decide
    rcases hpre with h | h <;> subst h <;> cases neg <;>
      simp only [if_true, Bool.false_eq_true, if_false, setStr, List.cons_append, List.nil_append, List.head?_cons, decide_true,
        List.tail_cons, Option.some.injEq, show ¬ ('0' = '-') by decide, decide_false, hd0, hallb, strVal]

/-! ### whole fields -/

theorem shape_pre_mem (b0 b : Nat) (pre body rest : List Char) (h : Shape b0 b pre body rest) :
    ∀ c ∈ pre ++ body, c ≠ '/' ∧ c ≠ '-' := by
  intro c hc
  rcases List.mem_append.mp hc with hc | hc
  · have hp : c = '0' ∨ c = 'x' ∨ c = 'X' := by
      rcases h.2.2 with ⟨_, _, hp⟩ | ⟨_, _, hp, _⟩ | ⟨_, _, hp, _⟩ | ⟨_, _, hp | hp⟩ <;> rw [hp] at hc
      · cases hc
      · cases hc
      · simp at hc; exact Or.inl hc
      · simp at hc; rcases hc with hc | hc
        · exact Or.inl hc
        · exact Or.inr (Or.inl hc)
      · simp at hc; rcases hc with hc | hc
        · exact Or.inl hc
        · exact Or.inr (Or.inr hc)
    rcases hp with hp | hp | hp <;> rw [hp] <;> decide
  · have := digit_not_special b c (h.1 c hc); exact ⟨this.2.2.1, this.1⟩

/-- a valid field starts with a digit -/
theorem shape_head (b0 b : Nat) (pre body rest : List Char) (h : Shape b0 b pre body rest) (hv : pre = ['0'] ∨ body ≠ []) :
    ∃ c, (pre ++ (body ++ rest)).head? = some c ∧ c ≠ '-' ∧ c ≠ '+' ∧ isSpace c = false := by
  have h0 : ∀ t : List Char, ∃ c, ('0' :: t).head? = some c ∧ c ≠ '-' ∧ c ≠ '+' ∧ isSpace c = false :=
    fun t => ⟨'0', rfl, by decide, by decide, by decide⟩
  have hbody : pre = [] → ∃ c, (pre ++ (body ++ rest)).head? = some c ∧ c ≠ '-' ∧ c ≠ '+' ∧ isSpace c = false := by
    intro hp; subst hp
    have hne : body ≠ [] := hv.elim (fun h => by cases h) id
    cases body with
    | nil => exact absurd rfl hne
    | cons a t =>
      have := digit_not_special b a (h.1 a List.mem_cons_self)
      exact ⟨a, rfl, this.1, this.2.1, this.2.2.2.2.2⟩
  rcases h.2.2 with ⟨_, _, hp⟩ | ⟨_, _, hp, _⟩ | ⟨_, _, hp, _⟩ | ⟨_, _, hp | hp⟩
  · exact hbody hp
  · exact hbody hp
  · subst hp; exact h0 _
  · subst hp; exact h0 _
  · subst hp; exact h0 _

theorem signOK_of_head (sg r : List Char) (hsg : sg = [] ∨ sg = ['-'] ∨ sg = ['+'])
    (hr : ∃ c, r.head? = some c ∧ c ≠ '-' ∧ c ≠ '+' ∧ isSpace c = false) : SignOK sg r := by
  obtain ⟨c, h1, h2, h3, -⟩ := hr
  rcases hsg with h | h | h
  · left; refine ⟨h, ?_, ?_⟩ <;> rw [h1] <;> simp [h2, h3]
  · right; left; exact h
  · right; right; exact h

/-- a `%Z` field `sg ++ pre ++ body` followed by `tail`, any scan base: read whole, the look-ahead pushed back -/
theorem gmpscan_field_Z (b0 b : Nat) (ign : Bool) (sg pre body tail : List Char)
    (hsg : SignOK sg (pre ++ (body ++ tail))) (hsh : Shape b0 b pre body tail) (hv : pre = ['0'] ∨ body ≠ [])
    (hlen : (sg ++ (pre ++ (body ++ tail))).length < 2147483646) :
    gmpscan { base := b0, type := 'Z', ignore := ign } (sg ++ (pre ++ (body ++ tail))) =
      { ret := ((sg.length + pre.length + body.length : Nat) : Int), rest := tail,
        val := if ign then .none else .z (if sg = ['-'] then -(strVal b body : Int) else (strVal b body : Int)) } := by
  obtain ⟨c0, rest0, hin⟩ : ∃ c0 rest0, sg ++ (pre ++ (body ++ tail)) = c0 :: rest0 := by
    cases h : sg ++ (pre ++ (body ++ tail)) with
    | nil =>
      simp only [List.append_eq_nil_iff] at h
      rcases hv with hv | hv
      · rw [hv] at h; simp at h
      · exact absurd h.2.2.1 hv
    | cons c t => exact ⟨c, t, rfl⟩
  have hW : scanWidth { base := b0, type := 'Z', ignore := ign } = 2147483646 := rfl
  rw [hin, gmpscan_cons, hW]
  have hrep : Rep 2147483646 { chars := 1, c := some c0, rest := rest0, base := b0 } (sg ++ (pre ++ (body ++ tail))) := by
    rw [hin]; exact ⟨fun _ => ⟨(by decide : (1 : Nat) ≤ 2147483646), rfl, rfl⟩, fun h => by simp at h⟩
  obtain ⟨n1, n2, n3, n4⟩ := number_shape 2147483646 b0 _ sg pre body tail b hrep rfl (by dsimp only; omega) hsg hsh
  simp only at n1 n2 n3 n4 ⊢
  generalize number 2147483646 b0 { chars := 1, c := some c0, rest := rest0, base := b0 } = g at *
  rw [slashStep_none _ _ g tail n1 (Or.inl (by show 'Z' ≠ 'Q'; decide))]
  have hs : g.seenDigit = true := by
    rw [n4]; rcases hv with hv | hv
    · simp [hv]
    · cases body with
      | nil => exact absurd rfl hv
      | cons a t => simp
  rw [finishScan_ok _ _ g tail n1 hs, n2, n3]
  have hset := setStr_shape b0 b (decide (sg = ['-'])) pre body tail hsh hv
  simp only [decide_eq_true_eq] at hset
  simp only [List.nil_append, show ¬ ('Z' = 'Q') by decide, if_false, hset, GResult.mk.injEq, and_true]
  omega

theorem splitSlash_at (A B : List Char) (hA : ∀ c ∈ A, c ≠ '/') : splitSlash (A ++ '/' :: B) = some (A ++ ['/'], B) := by
  induction A with
  | nil => simp [splitSlash]
  | cons a t ih =>
    have h1 : a ≠ '/' := hA a List.mem_cons_self
    simp [splitSlash, h1, ih (fun c hc => hA c (List.mem_cons_of_mem _ hc))]

/-- a `%Q` field without `/` -/
theorem gmpscan_field_Q1 (b0 b : Nat) (ign : Bool) (sg pre body tail : List Char)
    (hsg : SignOK sg (pre ++ (body ++ tail))) (hsh : Shape b0 b pre body tail) (hv : pre = ['0'] ∨ body ≠ [])
    (hns : tail.head? ≠ some '/')
    (hlen : (sg ++ (pre ++ (body ++ tail))).length < 2147483646) :
    gmpscan { base := b0, type := 'Q', ignore := ign } (sg ++ (pre ++ (body ++ tail))) =
      { ret := ((sg.length + pre.length + body.length : Nat) : Int), rest := tail,
        val := if ign then .none else .q (if sg = ['-'] then -(strVal b body : Int) else (strVal b body : Int)) 1 } := by
  obtain ⟨c0, rest0, hin⟩ : ∃ c0 rest0, sg ++ (pre ++ (body ++ tail)) = c0 :: rest0 := by
    cases h : sg ++ (pre ++ (body ++ tail)) with
    | nil =>
      simp only [List.append_eq_nil_iff] at h
      rcases hv with hv | hv
      · rw [hv] at h; simp at h
      · exact absurd h.2.2.1 hv
    | cons c t => exact ⟨c, t, rfl⟩
  have hW : scanWidth { base := b0, type := 'Q', ignore := ign } = 2147483646 := rfl
  rw [hin, gmpscan_cons, hW]
  have hrep : Rep 2147483646 { chars := 1, c := some c0, rest := rest0, base := b0 } (sg ++ (pre ++ (body ++ tail))) := by
    rw [hin]; exact ⟨fun _ => ⟨(by decide : (1 : Nat) ≤ 2147483646), rfl, rfl⟩, fun h => by simp at h⟩
  obtain ⟨n1, n2, n3, n4⟩ := number_shape 2147483646 b0 _ sg pre body tail b hrep rfl (by dsimp only; omega) hsg hsh
  simp only at n1 n2 n3 n4 ⊢
  generalize number 2147483646 b0 { chars := 1, c := some c0, rest := rest0, base := b0 } = g at *
  rw [slashStep_none _ _ g tail n1 (Or.inr hns)]
  have hs : g.seenDigit = true := by
    rw [n4]; rcases hv with hv | hv
    · simp [hv]
    · cases body with
      | nil => exact absurd rfl hv
      | cons a t => simp
  rw [finishScan_ok _ _ g tail n1 hs, n2, n3]
  have hset := setStr_shape b0 b (decide (sg = ['-'])) pre body tail hsh hv
  simp only [decide_eq_true_eq] at hset
  have hnosl : splitSlash ((if sg = ['-'] then ['-'] else []) ++ pre ++ body) = none := by
    apply splitSlash_none
    intro c hc
    rw [List.append_assoc] at hc
    rcases List.mem_append.mp hc with hc | hc
    · split at hc
      · simp at hc; rw [hc]; decide
      · cases hc
    · exact (shape_pre_mem b0 b pre body tail hsh c hc).1
  simp only [List.nil_append, if_true, setStrQ, hnosl, hset, Option.map_some, GResult.mk.injEq, and_true]
  omega

/-- a `%Q` field with `/`: numerator and denominator each with their own base detection (doscan.c:314-327) -/
theorem gmpscan_field_Q2 (b0 b1 b2 : Nat) (ign : Bool) (sg pre1 body1 pre2 body2 tail : List Char)
    (hsg : SignOK sg (pre1 ++ (body1 ++ '/' :: (pre2 ++ (body2 ++ tail)))))
    (hsh1 : Shape b0 b1 pre1 body1 ('/' :: (pre2 ++ (body2 ++ tail)))) (hv1 : pre1 = ['0'] ∨ body1 ≠ [])
    (hsg2 : SignOK [] (pre2 ++ (body2 ++ tail)))
    (hsh2 : Shape b0 b2 pre2 body2 tail) (hv2 : pre2 = ['0'] ∨ body2 ≠ [])
    (hlen : (sg ++ (pre1 ++ (body1 ++ '/' :: (pre2 ++ (body2 ++ tail))))).length < 2147483646) :
    gmpscan { base := b0, type := 'Q', ignore := ign } (sg ++ (pre1 ++ (body1 ++ '/' :: (pre2 ++ (body2 ++ tail))))) =
      { ret := ((sg.length + pre1.length + body1.length + 1 + pre2.length + body2.length : Nat) : Int), rest := tail,
        val := if ign then .none
               else .q (if sg = ['-'] then -(strVal b1 body1 : Int) else (strVal b1 body1 : Int)) (strVal b2 body2 : Int) } := by
  obtain ⟨c0, rest0, hin⟩ : ∃ c0 rest0, sg ++ (pre1 ++ (body1 ++ '/' :: (pre2 ++ (body2 ++ tail)))) = c0 :: rest0 := by
    cases h : sg ++ (pre1 ++ (body1 ++ '/' :: (pre2 ++ (body2 ++ tail)))) with
    | nil => simp at h
    | cons c t => exact ⟨c, t, rfl⟩
  have hW : scanWidth { base := b0, type := 'Q', ignore := ign } = 2147483646 := rfl
  rw [hin, gmpscan_cons, hW]
  simp only [List.length_append, List.length_cons] at hlen
  have hrep : Rep 2147483646 { chars := 1, c := some c0, rest := rest0, base := b0 }
      (sg ++ (pre1 ++ (body1 ++ '/' :: (pre2 ++ (body2 ++ tail))))) := by
    rw [hin]; exact ⟨fun _ => ⟨(by decide : (1 : Nat) ≤ 2147483646), rfl, rfl⟩, fun h => by simp at h⟩
  obtain ⟨n1, n2, n3, n4⟩ := number_shape 2147483646 b0 _ sg pre1 body1 _ b1 hrep rfl
    (by dsimp only; simp only [List.length_append, List.length_cons]; omega) hsg hsh1
  simp only at n1 n2 n3 n4 ⊢
  generalize number 2147483646 b0 { chars := 1, c := some c0, rest := rest0, base := b0 } = g at *
  have hs : g.seenDigit = true := by
    rw [n4]; rcases hv1 with hv | hv
    · simp [hv]
    · cases body1 with
      | nil => exact absurd rfl hv
      | cons a t => simp
  have hgo : g.over = false := rep_not_over _ g _ n1 (by rw [n3]; omega)
  have hgc : g.c = some '/' := by rw [(n1.1 hgo).2.1]; rfl
  -- do_second
  have hrep2 : Rep 2147483646 { (g.store '/') with seenDigit := false, base := b0 } ('/' :: (pre2 ++ (body2 ++ tail))) := n1
  obtain ⟨r1, r2, r3, r4, r5, r6⟩ := rep_get' 2147483646 _ '/' _ hrep2 hgo (by show g.chars + 1 ≤ _; rw [n3]; omega)
  have hslash : slashStep { base := b0, type := 'Q', ignore := ign } 2147483646 g =
      (number 2147483646 b0 (({ (g.store '/') with seenDigit := false, base := b0 } : GS).get 2147483646), false) := by
    unfold slashStep
    simp only [hgo, hgc, hs, r6, Bool.false_eq_true, not_false_eq_true, true_and, if_true, not_true_eq_false, if_false]
  rw [hslash]
  generalize ({ (g.store '/') with seenDigit := false, base := b0 } : GS).get 2147483646 = g2 at *
  have r2' : g2.chars = g.chars + 1 := r2
  have r3' : g2.s = g.s ++ ['/'] := r3
  have r4' : g2.base = b0 := r4
  obtain ⟨m1, m2, m3, m4⟩ := number_shape 2147483646 b0 g2 [] pre2 body2 tail b2 r1 r6
    (by rw [r2', n3]; simp only [List.nil_append, List.length_append]; omega) hsg2 (by rw [r4']; exact hsh2)
  generalize number 2147483646 b0 g2 = g3 at *
  have hs3 : g3.seenDigit = true := by
    rw [m4]; rcases hv2 with hv | hv
    · simp [hv]
    · cases body2 with
      | nil => exact absurd rfl hv
      | cons a t => simp
  rw [finishScan_ok _ _ g3 tail m1 hs3, m2, m3, r3', r2', n2, n3]
  have hset1 := setStr_shape b0 b1 (decide (sg = ['-'])) pre1 body1 _ hsh1 hv1
  have hset2 := setStr_shape b0 b2 false pre2 body2 _ hsh2 hv2
  simp only [decide_eq_true_eq] at hset1
  simp only [Bool.false_eq_true, if_false, List.nil_append] at hset2
  have hsplit : splitSlash ((if sg = ['-'] then ['-'] else []) ++ pre1 ++ body1 ++ '/' :: (pre2 ++ body2)) =
      some ((if sg = ['-'] then ['-'] else []) ++ pre1 ++ body1 ++ ['/'], pre2 ++ body2) := by
    apply splitSlash_at
    intro c hc
    rw [List.append_assoc] at hc
    rcases List.mem_append.mp hc with hc | hc
    · split at hc
      · simp at hc; rw [hc]; decide
      · cases hc
    · exact (shape_pre_mem b0 b1 pre1 body1 _ hsh1 c hc).1
  have hs_eq : [] ++ (if sg = ['-'] then ['-'] else []) ++ pre1 ++ body1 ++ ['/'] ++ (if ([] : List Char) = ['-'] then ['-'] else []) ++ pre2 ++ body2 =
      (if sg = ['-'] then ['-'] else []) ++ pre1 ++ body1 ++ '/' :: (pre2 ++ body2) := by simp
  simp only [hs_eq, if_true, setStrQ, hsplit, List.dropLast_concat, hset1, hset2, GResult.mk.injEq, and_true]
  simp only [List.length_nil]; omega

end Mpir.Scanf
