/- Lemmas for the model of mpn_toom42_mulmid (Mpir/Model/MulMidToom.lean): the odd row and diagonal. -/
import Mpir.Model.MulMidToom
import MpirProofs.Lemmas.MulMid
namespace Mpir.MulMid
open Mpir

theorem val_take_last : ∀ (n : Nat) (R : List Nat), R.length = n + 1 →
    val R = val (R.take n) + B ^ n * lget R n ∧ (R.take n).length = n
  | 0, [x], _ => by simp [lget]
  | n + 1, z :: l, h => by
    obtain ⟨e, h2⟩ := val_take_last n l (by simpa using h)
    simp only [lget, List.take_succ_cons, val_cons, List.getD_cons_succ, pow_succ, List.length_cons, h2] at e ⊢
    refine ⟨?_, trivial⟩
    rw [e]; ring

theorem addc_spec (x y : Nat) (hx : x < B) (hy : y < B) :
    (addc x y).1 + B * (addc x y).2 = x + y ∧ (addc x y).1 < B ∧ (addc x y).2 < B := by
  obtain ⟨e, w⟩ := addc_limb x y hx hy
  have := boolToNat_le (decide ((x + y) % B < x))
  simp only [addc]
  refine ⟨e, w, ?_⟩
  have hB : 1 < B := by rw [B_eq]; omega
  omega

theorem take_append_last : ∀ (n : Nat) (l : List Nat), l.length = n + 1 → l = l.take n ++ [lget l n]
  | 0, [x], _ => by simp [lget]
  | n + 1, z :: l, h => by
    have := take_append_last n l (by simpa using h)
    simp only [lget, List.take_succ_cons, List.getD_cons_succ, List.cons_append] at this ⊢
    rw [← this]

theorem lget_lt (R : List Nat) (h : Limbs R) (i : Nat) : lget R i < B := by
  cases h' : R[i]? with
  | none => simp [lget, List.getD, h']; exact B_pos
  | some x => simp [lget, List.getD, h']; exact h x (List.mem_of_getElem? h')

/-- the odd row and diagonal (toom42_mulmid.c:208-232): from the cells E = MP({ap+1, 2n-3}, {bp, n-1}) to MP({ap, 2n-1}, {bp, n}),
    exactly — the addmul_1 row, the ADDC_LIMB into rp[n], rp[n+1], and the 3-limb diagonal added by mpn_add_n without carry out -/
theorem toomOdd_isMP (a0 b R : List Nat) (k : Nat) (ha : Limbs a0) (hb : Limbs b) (hbl : b.length = k + 1) (hk : 1 ≤ k)
    (hnB : k + 1 ≤ B) (hal : 2 * (k + 1) - 1 ≤ a0.length) (hR : IsMP R k (a0.drop 1) (b.take k)) :
    IsMP (toomOdd a0 b (k + 1) R) (k + 1) a0 b := by
  obtain ⟨Rv, Rl, Rn⟩ := hR
  have hbsplit := take_append_last k b hbl
  have hb' : Limbs (b.take k) := Limbs_take hb _
  have hb'l : (b.take k).length = k := by rw [List.length_take]; omega
  have hbl' : lget b k < B := lget_lt b hb k
  obtain ⟨eR, hRt⟩ := val_take_last (k + 1) R Rn
  have hRtop : lget R (k + 1) < B := lget_lt R Rl _
  have hat : (a0.take (k + 1)).length = k + 1 := by rw [List.length_take]; omega
  obtain ⟨av, ac, al, an⟩ := addmul1C_val (lget b k) hbl' (R.take (k + 1)) (a0.take (k + 1)) 0 (Limbs_take Rl _)
    (Limbs_take ha _) (by rw [hRt, hat]) B_pos
  rw [hat] at av an
  obtain ⟨xe, x1, x2⟩ := addc_spec (lget R (k + 1)) (addmul1C (R.take (k + 1)) (a0.take (k + 1)) (lget b k) 0).2 hRtop ac
  obtain ⟨ev, el, en⟩ := basecase_isMP ((a0.drop 1).drop k) (b.take k) k (Limbs_drop (Limbs_drop ha _) _) hb' (by omega)
    (by omega) (by simp only [List.length_drop]; omega) (by omega)
  have e1 : k - (b.take k).length + 1 = 1 := by omega
  rw [e1] at ev en
  -- the memory {rp, n+2} after the row
  obtain ⟨rp, hrp⟩ : ∃ rp, rp = (addmul1C (R.take (k + 1)) (a0.take (k + 1)) (lget b k) 0).1 ++
      [(addc (lget R (k + 1)) (addmul1C (R.take (k + 1)) (a0.take (k + 1)) (lget b k) 0).2).1,
       (addc (lget R (k + 1)) (addmul1C (R.take (k + 1)) (a0.take (k + 1)) (lget b k) 0).2).2] := ⟨_, rfl⟩
  have hrpl : rp.length = k + 3 := by rw [hrp]; simp [an]
  have hrpL : Limbs rp := by
    rw [hrp]; exact Limbs_append.mpr ⟨al, Limbs_cons.mpr ⟨x1, Limbs_cons.mpr ⟨x2, Limbs_nil⟩⟩⟩
  have hrpv : val rp = val R + val (a0.take (k + 1)) * lget b k := by
    rw [hrp, val_append, an, eR]; simp only [val_cons, val_nil]
    linear_combination av + B ^ (k + 1) * xe
  have hdl : (rp.drop k).length = 3 := by rw [List.length_drop]; omega
  obtain ⟨sv, _, sl, sn⟩ := addNC_val (rp.drop k) (mulmid_basecase ((a0.drop 1).drop k) k (b.take k)) 0
    (Limbs_drop hrpL _) el (by rw [hdl, en]) (by omega)
  rw [hdl] at sv sn
  have hstep : toomOdd a0 b (k + 1) R =
      rp.take k ++ (addNC (rp.drop k) (mulmid_basecase ((a0.drop 1).drop k) k (b.take k)) 0).1 := by
    simp only [toomOdd, addmul_1, onRange, add_n, Nat.add_sub_cancel, ← hrp]
    rw [List.take_of_length_le (by omega : (rp.drop k).length ≤ 3), List.drop_eq_nil_of_le (by omega : rp.length ≤ k + 3),
      List.append_nil]
  have hsplit := val_take_drop rp k (by omega)
  have htl : (rp.take k).length = k := by rw [List.length_take]; omega
  -- the specification side
  have hspec : mpW (k + 1) a0 b = val R + B ^ k * val (mulmid_basecase ((a0.drop 1).drop k) k (b.take k)) +
      val (a0.take (k + 1)) * lget b k := by
    conv_lhs => rw [hbsplit]
    rw [mpW_vsplit (k + 1) a0 [lget b k] (b.take k)]
    simp only [List.length_cons, List.length_nil, Nat.zero_add]
    rw [mpW_hsplit k 1 (a0.drop 1) (b.take k), Rv, ev]
    have : win a0 0 (k + 1) = a0.take (k + 1) := by simp [win]
    simp only [mpW, List.length_nil, this]
    ring
  have hlt := mpW_lt (k + 1) a0 b ha hb (by omega)
  have key : val (rp.take k) + B ^ k * (val (addNC (rp.drop k) (mulmid_basecase ((a0.drop 1).drop k) k (b.take k)) 0).1 +
      B ^ 3 * (addNC (rp.drop k) (mulmid_basecase ((a0.drop 1).drop k) k (b.take k)) 0).2) = mpW (k + 1) a0 b := by
    rw [hspec, sv, Nat.add_zero, Nat.mul_add]; rw [hsplit] at hrpv; omega
  have hc : (addNC (rp.drop k) (mulmid_basecase ((a0.drop 1).drop k) k (b.take k)) 0).2 = 0 := by
    apply eq_zero_of_mul_lt (B ^ (k + 1 + 2)) _ _ _ hlt
    rw [← key]
    have : B ^ (k + 1 + 2) = B ^ k * B ^ 3 := by rw [← pow_add]
    rw [this, Nat.mul_add, Nat.mul_assoc]
    omega
  rw [hc] at key
  rw [hstep]
  refine ⟨?_, Limbs_append.mpr ⟨Limbs_take hrpL _, sl⟩, by simp only [List.length_append, htl, sn]⟩
  rw [val_append, htl, ← key]; ring

/-- What is NOT proved about mpn_toom42_mulmid: its even core (toom42_mulmid.c:66-205, `toomEven`) — given a correct half-size
    middle product `recf`, the interpolation with the correction terms e0..e5, the neg flag, the in-place corrections and the
    evaluation yield {rp, 2m+2} = MP({ap, 4m-1}, {bp, 2m}). -/
def EvenCore : Prop :=
  ∀ (recf : List Nat → List Nat → List Nat) (a b : List Nat) (m : Nat), 2 ≤ m → 2 * m ≤ B →
    (∀ x y, Limbs x → Limbs y → y.length = m → 2 * m - 1 ≤ x.length → IsMP (recf x y) m x y) →
    Limbs a → Limbs b → 2 * m ≤ b.length → 4 * m - 1 ≤ a.length → IsMP (toomEven recf a b m) (2 * m) a (b.take (2 * m))

/-- the recursion and dispatch of mpn_toom42_mulmid (threshold test, `ap += n & 1`, odd row and diagonal) around the even core -/
theorem toom42_of_core (hcore : EvenCore) (T : Nat) (hT : 4 ≤ T) :
    ∀ (fuel : Nat) (a0 b : List Nat) (n : Nat), Limbs a0 → Limbs b → b.length = n → 4 ≤ n → n ≤ B → 2 * n - 1 ≤ a0.length →
      n ≤ fuel → IsMP (toom42 T fuel a0 b n) n a0 b
  | 0, _, _, n, _, _, _, h4, _, _, hf => by omega
  | fuel + 1, a0, b, n, ha, hb, hbl, h4, hnB, hal, hf => by
    have ih := toom42_of_core hcore T hT fuel
    rw [toom42]
    rw [if_neg (by omega)]
    have hrec : ∀ x y, Limbs x → Limbs y → y.length = n / 2 → 2 * (n / 2) - 1 ≤ x.length →
        IsMP (if n / 2 < T then mulmid_basecase x (2 * (n / 2) - 1) y else toom42 T fuel x y (n / 2)) (n / 2) x y := by
      intro x y hx hy hyl hxl
      split
      · have := basecase_isMP x y (2 * (n / 2) - 1) hx hy (by omega) (by omega) hxl (by omega)
        have e : 2 * (n / 2) - 1 - y.length + 1 = n / 2 := by omega
        rw [e] at this; exact this
      · exact ih x y (n / 2) hx hy hyl (by omega) (by omega) hxl (by omega)
    have hR := hcore _ (a0.drop (n % 2)) b (n / 2) (by omega) (by omega) hrec (Limbs_drop ha _) hb (by omega)
      (by rw [List.length_drop]; omega)
    dsimp only
    generalize toomEven _ (a0.drop (n % 2)) b (n / 2) = R at hR ⊢
    split
    · rename_i hodd
      obtain ⟨k, rfl⟩ : ∃ k, n = k + 1 := ⟨n - 1, by omega⟩
      have e : 2 * ((k + 1) / 2) = k := by omega
      rw [hodd, e] at hR
      exact toomOdd_isMP a0 b R k ha hb hbl (by omega) hnB hal hR
    · rename_i heven
      have h0 : n % 2 = 0 := by omega
      have e : 2 * (n / 2) = n := by omega
      rw [h0, e, List.drop_zero, List.take_of_length_le (by omega)] at hR
      exact hR

end Mpir.MulMid
