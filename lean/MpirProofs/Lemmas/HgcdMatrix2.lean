/- hgcd_matrix.c, second part: mpn_hgcd_mul_matrix1_vector / mpn_hgcd_matrix_mul_1, mpn_hgcd_matrix_mul,
   mpn_matrix22_mul1_inverse_vector, mpn_hgcd_matrix_adjust. -/
import MpirProofs.Lemmas.HgcdMatrix
namespace Mpir.Hgcd
open Mpir Mpir.Gcd
set_option linter.unusedSimpArgs false

/-- entries of an mpn_hgcd2 matrix: GMP_NUMB_BITS - 1 bits -/
def Msb0 (m : M1) : Prop := m.u00 < 2 ^ 63 ∧ m.u01 < 2 ^ 63 ∧ m.u10 < 2 ^ 63 ∧ m.u11 < 2 ^ 63

theorem lin2_lt (u v a b n : Nat) (hu : u < 2 ^ 63) (hv : v < 2 ^ 63) (ha : a < B ^ n) (hb : b < B ^ n) :
    u * a + v * b < B ^ (n + 1) := by
  have h1 : u * a ≤ 2 ^ 63 * B ^ n := Nat.mul_le_mul (le_of_lt hu) (le_of_lt ha)
  have h2 : v * b ≤ 2 ^ 63 * B ^ n := Nat.mul_le_mul (le_of_lt hv) (le_of_lt hb)
  have hp : 0 < B ^ n := pow_pos B_pos _
  have h3 : u * a < 2 ^ 63 * B ^ n := by
    rcases Nat.eq_zero_or_pos u with h | h
    · subst h; simp; exact hp
    · calc u * a < u * B ^ n := Nat.mul_lt_mul_of_pos_left ha h
        _ ≤ 2 ^ 63 * B ^ n := Nat.mul_le_mul_right _ (le_of_lt hu)
  rw [pow_succ, B_eq] at *
  omega

/-- mpn_hgcd_mul_matrix1_vector: exact, no limb is lost, the size grows by at most one limb. -/
theorem mulMatrix1Vector_spec (m : M1) (a b n : Nat) (hm : Msb0 m) (ha : a < B ^ n) (hb : b < B ^ n) :
    (mulMatrix1Vector m a b n).1 = m.u00 * a + m.u10 * b ∧
    (mulMatrix1Vector m a b n).2.1 = m.u11 * b + m.u01 * a ∧
    n ≤ (mulMatrix1Vector m a b n).2.2 ∧ (mulMatrix1Vector m a b n).2.2 ≤ n + 1 ∧
    m.u00 * a + m.u10 * b < B ^ (mulMatrix1Vector m a b n).2.2 ∧
    m.u11 * b + m.u01 * a < B ^ (mulMatrix1Vector m a b n).2.2 := by
  obtain ⟨m0, m1, m2, m3⟩ := hm
  have b1 := lin2_lt m.u00 m.u10 a b n m0 m2 ha hb
  have b2 := lin2_lt m.u11 m.u01 b a n m3 m1 hb ha
  have hp : 0 < B ^ n := pow_pos B_pos _
  unfold mulMatrix1Vector
  simp only [Nat.mod_eq_of_lt b1, Nat.mod_eq_of_lt b2, true_and]
  split
  · exact ⟨by omega, by omega, b1, b2⟩
  · rename_i hc
    rw [not_or, not_not, not_not, Nat.div_eq_zero_iff_lt hp, Nat.div_eq_zero_iff_lt hp] at hc
    exact ⟨le_refl _, by omega, hc.1, hc.2⟩

/-- mpn_hgcd_matrix_mul_1: M := M·M1, "M grows by at most one limb". -/
theorem matMul1_spec (M : HM) (m : M1) (hf : M.Fits) (hm : Msb0 m) :
    (matMul1 M m).toM1 = mmul M.toM1 m ∧ (matMul1 M m).Fits ∧ (matMul1 M m).alloc = M.alloc ∧
    M.n ≤ (matMul1 M m).n ∧ (matMul1 M m).n ≤ M.n + 1 := by
  obtain ⟨f00, f01, f10, f11⟩ := hf
  obtain ⟨a1, a2, a3, a4, a5, a6⟩ := mulMatrix1Vector_spec m M.e00 M.e01 M.n hm f00 f01
  obtain ⟨c1, c2, c3, c4, c5, c6⟩ := mulMatrix1Vector_spec m M.e10 M.e11 M.n hm f10 f11
  unfold matMul1
  simp only
  generalize mulMatrix1Vector m M.e00 M.e01 M.n = r0 at *
  generalize mulMatrix1Vector m M.e10 M.e11 M.n = r1 at *
  have hmax0 : B ^ r0.2.2 ≤ B ^ max r0.2.2 r1.2.2 := Nat.pow_le_pow_right B_pos (le_max_left _ _)
  have hmax1 : B ^ r1.2.2 ≤ B ^ max r0.2.2 r1.2.2 := Nat.pow_le_pow_right B_pos (le_max_right _ _)
  refine ⟨?_, ?_, ?_, by omega, by omega⟩
  · simp only [HM.toM1, mmul, a1, a2, c1, c2]
    congr 1 <;> ring
  · simp only [HM.Fits, a1, a2, c1, c2]
    exact ⟨by omega, by omega, by omega, by omega⟩
  · trivial

/-! ### mpn_hgcd_matrix_mul -/

theorem topOr_zero {e00 e01 e10 e11 n : Nat} (h : HM.topOr e00 e01 e10 e11 n = 0)
    (b0 : e00 < B ^ (n + 1)) (b1 : e01 < B ^ (n + 1)) (b2 : e10 < B ^ (n + 1)) (b3 : e11 < B ^ (n + 1)) :
    e00 < B ^ n ∧ e01 < B ^ n ∧ e10 < B ^ n ∧ e11 < B ^ n := by
  unfold HM.topOr at h
  rw [Nat.or_eq_zero_iff, Nat.or_eq_zero_iff, Nat.or_eq_zero_iff] at h
  obtain ⟨⟨⟨z0, z1⟩, z2⟩, z3⟩ := h
  exact ⟨(limbAt_top_zero e00 (n + 1) (by omega) b0).mp z0, (limbAt_top_zero e01 (n + 1) (by omega) b1).mp z1,
    (limbAt_top_zero e10 (n + 1) (by omega) b2).mp z2, (limbAt_top_zero e11 (n + 1) (by omega) b3).mp z3⟩

/-- one of the three `n -= (limb n of all four entries == 0)` steps keeps "entries < B^(n+1)" -/
theorem normStep {e00 e01 e10 e11 n : Nat}
    (b0 : e00 < B ^ (n + 1)) (b1 : e01 < B ^ (n + 1)) (b2 : e10 < B ^ (n + 1)) (b3 : e11 < B ^ (n + 1)) :
    e00 < B ^ ((if HM.topOr e00 e01 e10 e11 n = 0 then n - 1 else n) + 1) ∧
    e01 < B ^ ((if HM.topOr e00 e01 e10 e11 n = 0 then n - 1 else n) + 1) ∧
    e10 < B ^ ((if HM.topOr e00 e01 e10 e11 n = 0 then n - 1 else n) + 1) ∧
    e11 < B ^ ((if HM.topOr e00 e01 e10 e11 n = 0 then n - 1 else n) + 1) ∧
    (if HM.topOr e00 e01 e10 e11 n = 0 then n - 1 else n) ≤ n := by
  split
  · rename_i h
    obtain ⟨z0, z1, z2, z3⟩ := topOr_zero h b0 b1 b2 b3
    have hle : B ^ n ≤ B ^ (n - 1 + 1) := Nat.pow_le_pow_right B_pos (by omega)
    exact ⟨by omega, by omega, by omega, by omega, by omega⟩
  · exact ⟨b0, b1, b2, b3, le_refl _⟩

/-- mpn_hgcd_matrix_mul (through mpn_matrix22_mul, basecase or Strassen, any threshold): M := M·M1, the
    new size field bounds the entries, M->n ≤ M->n + M1->n + 1. -/
theorem matMul_spec (thr : Nat) (M M1 : HM) (hf : M.Fits) (hf1 : M1.Fits) :
    (matMul thr M M1).toM1 = mmul M.toM1 M1.toM1 ∧ (matMul thr M M1).Fits ∧ (matMul thr M M1).alloc = M.alloc ∧
    1 ≤ (matMul thr M M1).n ∧ (matMul thr M M1).n ≤ M.n + M1.n + 1 := by
  obtain ⟨f00, f01, f10, f11⟩ := hf
  obtain ⟨g00, g01, g10, g11⟩ := hf1
  have hp := matrix22Mul_eq thr M.e00 M.e01 M.e10 M.e11 M.n M1.e00 M1.e01 M1.e10 M1.e11 M1.n f00 f01 f10 f11 g00 g01 g10 g11
  unfold matMul
  simp only
  rw [hp]
  simp only
  have hP : B ^ (M.n + M1.n + 1) = B ^ M.n * B ^ M1.n * B := by rw [pow_succ, pow_add]
  have hB2 : 2 ≤ B := by rw [B_eq]; norm_num
  have hKL : 0 < B ^ M.n * B ^ M1.n := Nat.mul_pos (pow_pos B_pos _) (pow_pos B_pos _)
  have two : 2 * (B ^ M.n * B ^ M1.n) ≤ B ^ (M.n + M1.n + 1) := by
    rw [hP, Nat.mul_comm 2]; exact Nat.mul_le_mul_left _ hB2
  have q0 : M.e00 * M1.e00 + M.e01 * M1.e10 < B ^ (M.n + M1.n + 1) := by
    have := Nat.mul_lt_mul'' f00 g00; have := Nat.mul_lt_mul'' f01 g10; omega
  have q1 : M.e00 * M1.e01 + M.e01 * M1.e11 < B ^ (M.n + M1.n + 1) := by
    have := Nat.mul_lt_mul'' f00 g01; have := Nat.mul_lt_mul'' f01 g11; omega
  have q2 : M.e10 * M1.e00 + M.e11 * M1.e10 < B ^ (M.n + M1.n + 1) := by
    have := Nat.mul_lt_mul'' f10 g00; have := Nat.mul_lt_mul'' f11 g10; omega
  have q3 : M.e10 * M1.e01 + M.e11 * M1.e11 < B ^ (M.n + M1.n + 1) := by
    have := Nat.mul_lt_mul'' f10 g01; have := Nat.mul_lt_mul'' f11 g11; omega
  rw [show mmul M.toM1 M1.toM1 = ⟨M.e00 * M1.e00 + M.e01 * M1.e10, M.e00 * M1.e01 + M.e01 * M1.e11,
      M.e10 * M1.e00 + M.e11 * M1.e10, M.e10 * M1.e01 + M.e11 * M1.e11⟩ from rfl]
  generalize M.e00 * M1.e00 + M.e01 * M1.e10 = p0 at *
  generalize M.e00 * M1.e01 + M.e01 * M1.e11 = p1 at *
  generalize M.e10 * M1.e00 + M.e11 * M1.e10 = p2 at *
  generalize M.e10 * M1.e01 + M.e11 * M1.e11 = p3 at *
  obtain ⟨a0, a1, a2, a3, a4⟩ := normStep q0 q1 q2 q3
  generalize (if HM.topOr p0 p1 p2 p3 (M.n + M1.n) = 0 then M.n + M1.n - 1 else M.n + M1.n) = n1 at *
  obtain ⟨c0, c1, c2, c3, c4⟩ := normStep a0 a1 a2 a3
  generalize (if HM.topOr p0 p1 p2 p3 n1 = 0 then n1 - 1 else n1) = n2 at *
  obtain ⟨d0, d1, d2, d3, d4⟩ := normStep c0 c1 c2 c3
  generalize (if HM.topOr p0 p1 p2 p3 n2 = 0 then n2 - 1 else n2) = n3 at *
  exact ⟨rfl, ⟨d0, d1, d2, d3⟩, trivial, by omega, by omega⟩

/-! ### mpn_matrix22_mul1_inverse_vector -/

/-- If (a; b) = M1·(x; y) with det M1 = 1 (so that M1⁻¹(a; b) is non-negative), the function returns
    exactly (x; y): the high limbs h0, h1 of the C agree (its ASSERT), nothing is lost by keeping n limbs. -/
theorem mul1InvVec_spec (m : M1) (a b n x y : Nat) (h : MRel m x y a b) (ha : a < B ^ n) (hb : b < B ^ n) (hn : 1 ≤ n) :
    (mul1InvVec m a b n).1 = x ∧ (mul1InvVec m a b n).2.1 = y ∧
    x < B ^ (mul1InvVec m a b n).2.2 ∧ y < B ^ (mul1InvVec m a b n).2.2 ∧
    (mul1InvVec m a b n).2.2 ≤ n ∧ n - 1 ≤ (mul1InvVec m a b n).2.2 ∧
    ((mul1InvVec m a b n).2.2 = n → B ^ (n - 1) ≤ x ∨ B ^ (n - 1) ≤ y) := by
  obtain ⟨i1, i2⟩ := mrel_inverse h
  obtain ⟨lx, ly⟩ := mrel_le h
  have hx : x < B ^ n := by omega
  have hy : y < B ^ n := by omega
  have hP : B ^ (n + 1) = B * B ^ n := by rw [pow_succ, Nat.mul_comm]
  have e1 : (m.u11 * a + B ^ (n + 1) - m.u01 * b) % B ^ n = x := by
    have : m.u11 * a + B ^ (n + 1) - m.u01 * b = x + B * B ^ n := by rw [i1, hP]; omega
    rw [this, Nat.add_mul_mod_self_right]; exact Nat.mod_eq_of_lt hx
  have e2 : (m.u00 * b + B ^ (n + 1) - m.u10 * a) % B ^ n = y := by
    have : m.u00 * b + B ^ (n + 1) - m.u10 * a = y + B * B ^ n := by rw [i2, hP]; omega
    rw [this, Nat.add_mul_mod_self_right]; exact Nat.mod_eq_of_lt hy
  unfold mul1InvVec
  simp only [e1, e2, true_and]
  split
  · rename_i hz
    obtain ⟨z0, z1⟩ := top_or_zero hn hx hy hz
    exact ⟨z0, z1, by omega, le_refl _, fun hc => by omega⟩
  · rename_i hz
    exact ⟨hx, hy, le_refl _, by omega, fun _ => top_or_nonzero hn hx hy hz⟩

/-! ### mpn_hgcd_matrix_adjust -/

/-- mpn_hgcd_matrix_adjust (stated with a bound B^k of the diagonal entries, p + k ≤ n, instead of M->n).
    The limbs from p on of (a; b) hold (s; t) = M⁻¹(S; T) for the high parts
    (S; T) of the original numbers (`hr`), M's off-diagonal entries do not exceed s resp. t (what the hgcd
    size contract gives), and p + M->n ≤ n.  Then the result is EXACTLY M⁻¹ of the full original numbers
    (B^p·S + a mod B^p; B^p·T + b mod B^p): the C's `ASSERT (cy <= ah)` / `ASSERT (cy <= bh)` hold, the new
    size bounds both numbers and differs from n by at most one; explicit lower bounds for the results. -/
theorem matAdjust_spec (M : HM) (n a b p S T k : Nat) (hpn : p + k ≤ n) (f00 : M.e00 < B ^ k) (f11 : M.e11 < B ^ k)
    (ha : a < B ^ n) (hb : b < B ^ n) (hn : 1 ≤ n)
    (hr : MRel M.toM1 (a / B ^ p) (b / B ^ p) S T) (h01 : M.e01 ≤ a / B ^ p) (h10 : M.e10 ≤ b / B ^ p) :
    MRel M.toM1 (matAdjust M n a b p).2.1 (matAdjust M n a b p).2.2 (B ^ p * S + a % B ^ p) (B ^ p * T + b % B ^ p) ∧
    (matAdjust M n a b p).2.1 < B ^ (matAdjust M n a b p).1 ∧ (matAdjust M n a b p).2.2 < B ^ (matAdjust M n a b p).1 ∧
    n - 1 ≤ (matAdjust M n a b p).1 ∧ (matAdjust M n a b p).1 ≤ n + 1 ∧
    (n ≤ (matAdjust M n a b p).1 → B ^ ((matAdjust M n a b p).1 - 1) ≤ (matAdjust M n a b p).2.1 ∨
        B ^ ((matAdjust M n a b p).1 - 1) ≤ (matAdjust M n a b p).2.2) ∧
    B ^ p * (a / B ^ p - M.e01) ≤ (matAdjust M n a b p).2.1 ∧ B ^ p * (b / B ^ p - M.e10) ≤ (matAdjust M n a b p).2.2 := by
  have hpp : 0 < B ^ p := pow_pos B_pos _
  have hal : a % B ^ p < B ^ p := Nat.mod_lt _ hpp
  have hbl : b % B ^ p < B ^ p := Nat.mod_lt _ hpp
  obtain ⟨x, y, hxy, lx, ly, ex, ey⟩ := trunc_lift (B ^ p) (a % B ^ p) (b % B ^ p) hr (le_of_lt hal) (le_of_lt hbl) h01 h10
  simp only [HM.toM1] at ex ey lx ly
  have hsplit_a : B ^ p * (a / B ^ p) ≤ a := Nat.mul_div_le a (B ^ p)
  have hsplit_b : B ^ p * (b / B ^ p) ≤ b := Nat.mul_div_le b (B ^ p)
  have hPM : B ^ (p + k) ≤ B ^ n := Nat.pow_le_pow_right B_pos hpn
  have hPM' : B ^ (p + k) = B ^ k * B ^ p := by rw [pow_add, Nat.mul_comm]
  have hB2 : 2 ≤ B := by rw [B_eq]; norm_num
  have hS : 2 * B ^ n ≤ B ^ (n + 1) := by rw [pow_succ, Nat.mul_comm]; exact Nat.mul_le_mul_left _ hB2
  have t11 : M.e11 * (a % B ^ p) < B ^ (p + k) := by rw [hPM']; exact Nat.mul_lt_mul'' f11 hal
  have t00 : M.e00 * (b % B ^ p) < B ^ (p + k) := by rw [hPM']; exact Nat.mul_lt_mul'' f00 hbl
  have hx2 : x < B ^ (n + 1) := by omega
  have hy2 : y < B ^ (n + 1) := by omega
  have e1 : (M.e11 * (a % B ^ p) + B ^ p * (a / B ^ p) + B ^ (n + 1) - M.e01 * (b % B ^ p)) % B ^ (n + 1) = x := by
    have : M.e11 * (a % B ^ p) + B ^ p * (a / B ^ p) + B ^ (n + 1) - M.e01 * (b % B ^ p) = x + B ^ (n + 1) := by omega
    rw [this, Nat.add_mod_right]; exact Nat.mod_eq_of_lt hx2
  have e2 : (M.e00 * (b % B ^ p) + B ^ p * (b / B ^ p) + B ^ (n + 1) - M.e10 * (a % B ^ p)) % B ^ (n + 1) = y := by
    have : M.e00 * (b % B ^ p) + B ^ p * (b / B ^ p) + B ^ (n + 1) - M.e10 * (a % B ^ p) = y + B ^ (n + 1) := by omega
    rw [this, Nat.add_mod_right]; exact Nat.mod_eq_of_lt hy2
  have hBn : 0 < B ^ n := pow_pos B_pos _
  unfold matAdjust
  simp only [e1, e2]
  split
  · rename_i hc
    refine ⟨hxy, hx2, hy2, by omega, le_refl _, fun _ => ?_, lx, ly⟩
    simp only [Nat.add_sub_cancel]
    rcases hc with hc | hc
    · left; exact div_pow_ne_zero.mp hc
    · right; exact div_pow_ne_zero.mp hc
  · rename_i hc
    rw [not_or, not_not, not_not, Nat.div_eq_zero_iff_lt hBn, Nat.div_eq_zero_iff_lt hBn] at hc
    split
    · rename_i hz
      have hz' : limbAt x (n - 1) ||| limbAt y (n - 1) = 0 := by rw [Nat.or_eq_zero_iff]; exact hz
      obtain ⟨z0, z1⟩ := top_or_zero hn hc.1 hc.2 hz'
      exact ⟨hxy, z0, z1, le_refl _, by omega, fun hcn => by omega, lx, ly⟩
    · rename_i hz
      have hz' : ¬ limbAt x (n - 1) ||| limbAt y (n - 1) = 0 := by rw [Nat.or_eq_zero_iff]; exact hz
      exact ⟨hxy, hc.1, hc.2, by omega, by omega, fun _ => top_or_nonzero hn hc.1 hc.2 hz', lx, ly⟩

end Mpir.Hgcd
