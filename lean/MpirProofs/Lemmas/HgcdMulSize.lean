/- The claim in the comment of mpn_hgcd_matrix_mul ("the product has normalized size >= M->n + M1->n - 2 … we can't have
   M ending with a large power and M1 starting with a large power of the same matrix"), as an inequality between the largest
   entries: if the state (x, y) reached through M is BALANCED with respect to the last factor of M (M ends with a power of
   (1 0; 1 1), i.e. column 0 dominates ⇒ y ≤ K·x; column 1 dominates ⇒ x ≤ K·y) and M1 reduces the high parts
   (⌊x/P⌋, ⌊y/P⌋) to a pair (u, v) with |u − v| < min(u, v), then  max(M)·max(M1) ≤ 8K·max(M·M1).
   With 8K ≤ B and tight size fields this gives an entry of M·M1 using limb M->n + M1->n − 3. -/
import MpirProofs.Lemmas.HgcdNorm
import Mathlib.Tactic.Linarith
namespace Mpir.Hgcd
open Mpir Mpir.Gcd

/-- largest entry -/
def mxM (m : M1) : Nat := max (max m.u00 m.u01) (max m.u10 m.u11)

/-- a non-negative matrix of determinant 1 other than the identity has a dominating column -/
theorem col_dichotomy (m : M1) (hd : det1 m) :
    (m.u01 ≤ m.u00 ∧ m.u11 ≤ m.u10) ∨ (m.u00 ≤ m.u01 ∧ m.u10 ≤ m.u11) ∨ m = ⟨1, 0, 0, 1⟩ := by
  unfold det1 at hd
  obtain ⟨a, b, c, d⟩ := m
  simp only at hd ⊢
  by_cases h0 : b ≤ a ∧ d ≤ c
  · exact Or.inl h0
  by_cases h1 : a ≤ b ∧ c ≤ d
  · exact Or.inr (Or.inl h1)
  right; right
  have hcases : (a < b ∧ d < c) ∨ (b < a ∧ c < d) := by omega
  rcases hcases with ⟨h2, h3⟩ | ⟨h2, h3⟩
  · exfalso
    have : a * d ≤ b * c := Nat.mul_le_mul (le_of_lt h2) (le_of_lt h3)
    omega
  · have e1 : (b + 1) * (c + 1) ≤ a * d := Nat.mul_le_mul h2 h3
    have e2 : (b + 1) * (c + 1) = b * c + b + c + 1 := by ring
    have hb : b = 0 := by omega
    have hc : c = 0 := by omega
    subst hb; subst hc
    simp only [Nat.zero_mul, Nat.zero_add] at hd
    have ha : a = 1 := Nat.eq_one_of_mul_eq_one_right hd
    have hd' : d = 1 := Nat.eq_one_of_mul_eq_one_left hd
    rw [ha, hd']

theorem mul_size_col0 (m f : M1) (x y u v P T K : Nat) (hP : 0 < P) (hK : 1 ≤ K)
    (hf : MRel f u v (x / P) (y / P)) (hu : T ≤ u) (hv : T ≤ v) (hT : 0 < T) (hdiff : absDiff u v < T)
    (hx : P ≤ x) (hc : m.u01 ≤ m.u00 ∧ m.u11 ≤ m.u10) (hbal : y ≤ K * x) :
    (mxM m) * (mxM f) ≤ 8 * K * (mxM (mmul m f)) := by
  obtain ⟨_, ex, ey⟩ := hf
  -- the largest entry of m is in column 0
  set big := max m.u00 m.u10 with hbig
  have hmx : (mxM m) = big := by unfold mxM; omega
  -- row sums of f
  set r0 := f.u00 + f.u01 with hr0
  set r1 := f.u10 + f.u11 with hr1
  have hfmx : (mxM f) ≤ max r0 r1 := by unfold mxM; omega
  -- the product dominates big · row 0 of f
  have hp : big * r0 ≤ 2 * (mxM (mmul m f)) := by
    have p00 : m.u00 * f.u00 ≤ (mxM (mmul m f)) := by
      have : m.u00 * f.u00 ≤ m.u00 * f.u00 + m.u01 * f.u10 := Nat.le_add_right _ _
      unfold mxM mmul; simp only; omega
    have p01 : m.u00 * f.u01 ≤ (mxM (mmul m f)) := by
      have : m.u00 * f.u01 ≤ m.u00 * f.u01 + m.u01 * f.u11 := Nat.le_add_right _ _
      unfold mxM mmul; simp only; omega
    have p10 : m.u10 * f.u00 ≤ (mxM (mmul m f)) := by
      have : m.u10 * f.u00 ≤ m.u10 * f.u00 + m.u11 * f.u10 := Nat.le_add_right _ _
      unfold mxM mmul; simp only; omega
    have p11 : m.u10 * f.u01 ≤ (mxM (mmul m f)) := by
      have : m.u10 * f.u01 ≤ m.u10 * f.u01 + m.u11 * f.u11 := Nat.le_add_right _ _
      unfold mxM mmul; simp only; omega
    rcases le_total m.u00 m.u10 with h | h
    · have : big = m.u10 := by omega
      rw [this, hr0, Nat.mul_add]; omega
    · have : big = m.u00 := by omega
      rw [this, hr0, Nat.mul_add]; omega
  -- u, v within a factor two
  set lo := min u v with hlo
  set hi := max u v with hhi
  have hlo0 : 0 < lo := by omega
  have hhl : hi < 2 * lo := by unfold absDiff at hdiff; split at hdiff <;> omega
  -- x/P ≤ r0·hi,  r1·lo ≤ y/P
  have hxh : x / P ≤ r0 * hi := by
    rw [ex, hr0, Nat.add_mul]
    exact Nat.add_le_add (Nat.mul_le_mul_left _ (by omega)) (Nat.mul_le_mul_left _ (by omega))
  have hyh : r1 * lo ≤ y / P := by
    rw [ey, hr1, Nat.add_mul]
    exact Nat.add_le_add (Nat.mul_le_mul_left _ (by omega)) (Nat.mul_le_mul_left _ (by omega))
  -- y/P ≤ 2K·(x/P)
  have hxh1 : 1 ≤ x / P := (Nat.one_le_div_iff hP).mpr hx
  have hyx : y / P ≤ 2 * K * (x / P) := by
    have h1 : y / P ≤ K * x / P := Nat.div_le_div_right hbal
    have h2 : x < (x / P + 1) * P := by
      have := Nat.div_add_mod x P
      have := Nat.mod_lt x hP
      rw [Nat.add_mul, Nat.one_mul, Nat.mul_comm]; omega
    have h3 : K * x / P ≤ K * (x / P + 1) := by
      apply Nat.div_le_of_le_mul
      calc K * x ≤ K * ((x / P + 1) * P) := Nat.mul_le_mul_left _ (le_of_lt h2)
        _ = P * (K * (x / P + 1)) := by ring
    have h4 : K * (x / P + 1) ≤ 2 * K * (x / P) := by
      have : K * (x / P + 1) = K * (x / P) + K := by ring
      have h5 : K ≤ K * (x / P) := Nat.le_mul_of_pos_right _ hxh1
      have h6 : 2 * K * (x / P) = K * (x / P) + K * (x / P) := by ring
      omega
    omega
  -- r1 ≤ 4K·r0
  have hr : r1 ≤ 4 * K * r0 := by
    have h1 : r1 * lo ≤ 2 * K * (r0 * hi) := le_trans hyh (le_trans hyx (Nat.mul_le_mul_left _ hxh))
    have h2 : 2 * K * (r0 * hi) ≤ 2 * K * (r0 * (2 * lo)) := Nat.mul_le_mul_left _ (Nat.mul_le_mul_left _ (le_of_lt hhl))
    have h3 : 2 * K * (r0 * (2 * lo)) = (4 * K * r0) * lo := by ring
    exact Nat.le_of_mul_le_mul_right (by omega) hlo0
  have hfm : (mxM f) ≤ 4 * K * r0 := by
    have : r0 ≤ 4 * K * r0 := Nat.le_mul_of_pos_left _ (by omega)
    omega
  calc (mxM m) * (mxM f) ≤ big * (4 * K * r0) := by rw [hmx]; exact Nat.mul_le_mul_left _ hfm
    _ = 4 * K * (big * r0) := by ring
    _ ≤ 4 * K * (2 * (mxM (mmul m f))) := Nat.mul_le_mul_left _ hp
    _ = 8 * K * (mxM (mmul m f)) := by ring

/-- exchange of the two coordinates (conjugation by the permutation matrix) -/
def swp (m : M1) : M1 := ⟨m.u11, m.u10, m.u01, m.u00⟩

theorem mxM_swp (m : M1) : mxM (swp m) = mxM m := by unfold mxM swp; simp only; omega

theorem mmul_swp (m f : M1) : mmul (swp m) (swp f) = swp (mmul m f) := by
  unfold mmul swp; simp only [Nat.add_comm]

theorem mrel_swp {f : M1} {u v X Y : Nat} (h : MRel f u v X Y) : MRel (swp f) v u Y X := by
  obtain ⟨d, eX, eY⟩ := h
  refine ⟨?_, ?_, ?_⟩
  · show f.u11 * f.u00 = f.u10 * f.u01 + 1
    rw [Nat.mul_comm f.u11, Nat.mul_comm f.u10]; exact d
  · show Y = f.u11 * v + f.u10 * u
    omega
  · show X = f.u01 * v + f.u00 * u
    omega

/-- **the size claim of mpn_hgcd_matrix_mul**: M of determinant 1 with (x, y) balanced w.r.t. its dominating column,
    M1 reducing (⌊x/P⌋, ⌊y/P⌋) to (u, v) ≥ T with |u − v| < T: max(M)·max(M1) ≤ 8K·max(M·M1). -/
theorem mul_size_claim (m f : M1) (x y u v P T K : Nat) (hP : 0 < P) (hK : 1 ≤ K) (hd : det1 m)
    (hf : MRel f u v (x / P) (y / P)) (hu : T ≤ u) (hv : T ≤ v) (hT : 0 < T) (hdiff : absDiff u v < T)
    (hx : P ≤ x) (hy : P ≤ y)
    (hb0 : m.u01 ≤ m.u00 ∧ m.u11 ≤ m.u10 → y ≤ K * x) (hb1 : m.u00 ≤ m.u01 ∧ m.u10 ≤ m.u11 → x ≤ K * y) :
    mxM m * mxM f ≤ 8 * K * mxM (mmul m f) := by
  rcases col_dichotomy m hd with hc | hc | hc
  · exact mul_size_col0 m f x y u v P T K hP hK hf hu hv hT hdiff hx hc (hb0 hc)
  · have := mul_size_col0 (swp m) (swp f) y x v u P T K hP hK (mrel_swp hf) hv hu hT (by rw [absDiff_comm]; exact hdiff) hy
      ⟨hc.2, hc.1⟩ (hb1 hc)
    rw [mmul_swp, mxM_swp, mxM_swp, mxM_swp] at this
    exact this
  · subst hc
    have e : mmul ⟨1, 0, 0, 1⟩ f = f := by unfold mmul; simp
    have e1 : mxM ⟨1, 0, 0, 1⟩ = 1 := by unfold mxM; simp
    rw [e, e1, Nat.one_mul]
    exact Nat.le_mul_of_pos_left _ (by omega)

theorem topOr_ge {e00 e01 e10 e11 n : Nat} (h : HM.topOr e00 e01 e10 e11 n ≠ 0)
    (b0 : e00 < B ^ (n + 1)) (b1 : e01 < B ^ (n + 1)) (b2 : e10 < B ^ (n + 1)) (b3 : e11 < B ^ (n + 1)) :
    B ^ n ≤ e00 ∨ B ^ n ≤ e01 ∨ B ^ n ≤ e10 ∨ B ^ n ≤ e11 := by
  by_contra hc
  apply h
  unfold HM.topOr
  rw [Nat.or_eq_zero_iff, Nat.or_eq_zero_iff, Nat.or_eq_zero_iff]
  have hc' : e00 < B ^ n ∧ e01 < B ^ n ∧ e10 < B ^ n ∧ e11 < B ^ n := by omega
  obtain ⟨c0, c1, c2, c3⟩ := hc'
  exact ⟨⟨⟨(limbAt_top_zero e00 (n + 1) (by omega) b0).mpr c0, (limbAt_top_zero e01 (n + 1) (by omega) b1).mpr c1⟩,
    (limbAt_top_zero e10 (n + 1) (by omega) b2).mpr c2⟩, (limbAt_top_zero e11 (n + 1) (by omega) b3).mpr c3⟩

/-- one normalisation step: the new index n' is tight when the step stops, and n' = n − 1 otherwise -/
theorem normStep' {e00 e01 e10 e11 n : Nat}
    (b0 : e00 < B ^ (n + 1)) (b1 : e01 < B ^ (n + 1)) (b2 : e10 < B ^ (n + 1)) (b3 : e11 < B ^ (n + 1)) :
    ((if HM.topOr e00 e01 e10 e11 n = 0 then n - 1 else n) = n ∧
      (B ^ n ≤ e00 ∨ B ^ n ≤ e01 ∨ B ^ n ≤ e10 ∨ B ^ n ≤ e11)) ∨
    ((if HM.topOr e00 e01 e10 e11 n = 0 then n - 1 else n) = n - 1 ∧ HM.topOr e00 e01 e10 e11 n = 0) := by
  by_cases h : HM.topOr e00 e01 e10 e11 n = 0
  · right; rw [if_pos h]; exact ⟨rfl, h⟩
  · left; rw [if_neg h]; exact ⟨rfl, topOr_ge h b0 b1 b2 b3⟩

/-- mpn_hgcd_matrix_mul keeps the size field tight WHEN the size claim holds: after the three conditional decrements
    some entry of the product uses limb M->n − 1 (the C's `ASSERT` after the decrements). -/
theorem matMul_norm (thr : Nat) (M M1 : HM) (hf : M.Fits) (hf1 : M1.Fits) (hn : 1 ≤ M.n) (hn1 : 1 ≤ M1.n)
    (hd : det1 M.toM1) (hd1 : det1 M1.toM1)
    (hN : M.NormD) (hN1 : M1.NormD) (hclaim : mxM M.toM1 * mxM M1.toM1 ≤ B * mxM (mmul M.toM1 M1.toM1)) :
    (matMul thr M M1).NormD := by
  obtain ⟨f00, f01, f10, f11⟩ := hf
  obtain ⟨g00, g01, g10, g11⟩ := hf1
  have hp := matrix22Mul_eq thr M.e00 M.e01 M.e10 M.e11 M.n M1.e00 M1.e01 M1.e10 M1.e11 M1.n f00 f01 f10 f11 g00 g01 g10 g11
  -- the largest entry of the product
  have hlow : B ^ (M.n + M1.n - 3) ≤ mxM (mmul M.toM1 M1.toM1) := by
    have h1 : B ^ (M.n - 1) ≤ mxM M.toM1 := by
      unfold HM.NormD at hN; unfold mxM HM.toM1; simp only; omega
    have h2 : B ^ (M1.n - 1) ≤ mxM M1.toM1 := by
      unfold HM.NormD at hN1; unfold mxM HM.toM1; simp only; omega
    have h3 : B ^ (M.n - 1) * B ^ (M1.n - 1) ≤ B * mxM (mmul M.toM1 M1.toM1) := le_trans (Nat.mul_le_mul h1 h2) hclaim
    rw [← pow_add] at h3
    by_cases h3' : M.n + M1.n = 2
    · rw [h3', show 2 - 3 = 0 from rfl, pow_zero]
      obtain ⟨p0, _⟩ := det1_pos (det1_mmul hd hd1)
      have : (mmul M.toM1 M1.toM1).u00 ≤ mxM (mmul M.toM1 M1.toM1) := by unfold mxM; omega
      omega
    · have e : M.n - 1 + (M1.n - 1) = (M.n + M1.n - 3) + 1 := by omega
      rw [e, pow_succ, Nat.mul_comm] at h3
      exact Nat.le_of_mul_le_mul_left h3 B_pos
  unfold matMul
  simp only
  rw [hp]
  simp only
  have hP : B ^ (M.n + M1.n + 1) = B ^ M.n * B ^ M1.n * B := by rw [pow_succ, pow_add]
  have hB2 : 2 ≤ B := by rw [B_eq]; norm_num
  have hKL : 0 < B ^ M.n * B ^ M1.n := Nat.mul_pos (pow_pos B_pos _) (pow_pos B_pos _)
  have two : 2 * (B ^ M.n * B ^ M1.n) ≤ B ^ (M.n + M1.n + 1) := by
    rw [hP, Nat.mul_comm 2]; exact Nat.mul_le_mul_left _ hB2
  have q0 : M.e00 * M1.e00 + M.e01 * M1.e10 < B ^ (M.n + M1.n + 1) := by
    have := Nat.mul_lt_mul'' f00 g00; have := Nat.mul_lt_mul'' f01 g10; omega
  have q1 : M.e00 * M1.e01 + M.e01 * M1.e11 < B ^ (M.n + M1.n + 1) := by
    have := Nat.mul_lt_mul'' f00 g01; have := Nat.mul_lt_mul'' f01 g11; omega
  have q2 : M.e10 * M1.e00 + M.e11 * M1.e10 < B ^ (M.n + M1.n + 1) := by
    have := Nat.mul_lt_mul'' f10 g00; have := Nat.mul_lt_mul'' f11 g10; omega
  have q3 : M.e10 * M1.e01 + M.e11 * M1.e11 < B ^ (M.n + M1.n + 1) := by
    have := Nat.mul_lt_mul'' f10 g01; have := Nat.mul_lt_mul'' f11 g11; omega
  have hmx : mxM (mmul M.toM1 M1.toM1) = max (max (M.e00 * M1.e00 + M.e01 * M1.e10) (M.e00 * M1.e01 + M.e01 * M1.e11))
      (max (M.e10 * M1.e00 + M.e11 * M1.e10) (M.e10 * M1.e01 + M.e11 * M1.e11)) := rfl
  rw [hmx] at hlow
  unfold HM.NormD
  simp only [Nat.add_sub_cancel]
  generalize M.e00 * M1.e00 + M.e01 * M1.e10 = p0 at *
  generalize M.e00 * M1.e01 + M.e01 * M1.e11 = p1 at *
  generalize M.e10 * M1.e00 + M.e11 * M1.e10 = p2 at *
  generalize M.e10 * M1.e01 + M.e11 * M1.e11 = p3 at *
  generalize hn0 : M.n + M1.n = n0 at *
  obtain ⟨a0, a1, a2, a3, _⟩ := normStep q0 q1 q2 q3
  have s1 := normStep' q0 q1 q2 q3
  generalize (if HM.topOr p0 p1 p2 p3 n0 = 0 then n0 - 1 else n0) = n1 at *
  obtain ⟨c0, c1, c2, c3, _⟩ := normStep a0 a1 a2 a3
  have s2 := normStep' a0 a1 a2 a3
  generalize (if HM.topOr p0 p1 p2 p3 n1 = 0 then n1 - 1 else n1) = n2 at *
  have s3 := normStep' c0 c1 c2 c3
  generalize (if HM.topOr p0 p1 p2 p3 n2 = 0 then n2 - 1 else n2) = n3 at *
  -- a stopped step stays stopped
  rcases s1 with ⟨e1, w1⟩ | ⟨e1, z1⟩
  · subst e1
    rcases s2 with ⟨e2, _⟩ | ⟨e2, z2⟩
    · subst e2
      rcases s3 with ⟨e3, _⟩ | ⟨e3, z3⟩
      · subst e3; exact w1
      · exfalso; obtain ⟨t0, t1, t2, t3⟩ := topOr_zero z3 q0 q1 q2 q3; omega
    · exfalso; obtain ⟨t0, t1, t2, t3⟩ := topOr_zero z2 q0 q1 q2 q3; omega
  · rcases s2 with ⟨e2, w2⟩ | ⟨e2, z2⟩
    · subst e2
      rcases s3 with ⟨e3, _⟩ | ⟨e3, z3⟩
      · subst e3; exact w2
      · exfalso; obtain ⟨t0, t1, t2, t3⟩ := topOr_zero z3 a0 a1 a2 a3; omega
    · rcases s3 with ⟨e3, w3⟩ | ⟨e3, z3⟩
      · subst e3; exact w3
      · have : n3 = n0 - 3 := by omega
        rw [this]; omega

end Mpir.Hgcd
