/- Helper lemmas for the model of mpn_tdiv_qr, part 2: dn = 1, dn = 2 and the first branch of the default case
   (normalise, divide, shift the remainder back), tdiv_qr.c:54-153. -/
import MpirProofs.Lemmas.TdivQrBase
namespace Mpir.TdivQr
open Mpir Mpir.DivWord Mpir.SbDiv

/-- dividing the shifted operands when the quotient may need the returned high limb (0 or 1) -/
theorem divide_shifted_hi (n2 d2 : List Nat) (N D c : Nat) (hn2 : Limbs n2) (hd2 : Limbs d2) (hc : 0 < c) (hD : 0 < D)
    (hvn : val n2 = N * c) (hvd : val d2 = D * c) (hl : d2.length ≤ n2.length) (hnorm : B ^ d2.length ≤ 2 * val d2) :
    (divQrSpec n2 d2).2.2 ≤ 1 ∧
    (divQrSpec n2 d2).2.2 * B ^ (n2.length - d2.length) + val (divQrSpec n2 d2).1 = N / D ∧
    val (divQrSpec n2 d2).2.1 = (N % D) * c ∧
    Limbs (divQrSpec n2 d2).1 ∧ (divQrSpec n2 d2).1.length = n2.length - d2.length ∧
    Limbs (divQrSpec n2 d2).2.1 ∧ (divQrSpec n2 d2).2.1.length = d2.length := by
  have hd0 : 0 < val d2 := by rw [hvd]; exact Nat.mul_pos hD hc
  obtain ⟨_, hr, hq, hq3, hq4, hr3, hr4⟩ := divQrSpec_spec n2 d2 hd2 hd0
  obtain ⟨e1, e2⟩ := scaled_divmod N D c hc
  refine ⟨divQrSpec_qh_le n2 d2 hn2 hl hnorm, ?_, ?_, hq3, hq4, hr3, hr4⟩
  · rw [hq, hvn, hvd, e1]
  · rw [hr, hvn, hvd, e2]

theorem lt_B_of_le_one {x : Nat} (h : x ≤ 1) : x < B := by
  have : (1 : Nat) < B := by decide
  omega

theorem spec_intro (n d q r : List Nat) (h1 : val q = val n / val d) (h2 : val r = val n % val d) (h3 : Limbs q)
    (h4 : q.length = n.length - d.length + 1) (h5 : Limbs r) (h6 : r.length = d.length) : Spec n d (q, r, true) :=
  ⟨h1, h2, h3, h4, h5, h6, rfl⟩

/-! ### dn = 1 -/

theorem case1_spec (n d : List Nat) (hn : Limbs n) (hd : Limbs d) (hdn : d.length = 1) (hnn : 1 ≤ n.length)
    (htop : d.getD 0 0 ≠ 0) : Spec n d (case1 n d) := by
  have hd1 := list_len1 d hdn
  have hdB : d.getD 0 0 < B := limb_getD hd 0
  obtain ⟨e, hr, hq, hql⟩ := divrem_1_spec 0 n (d.getD 0 0) hn (Nat.pos_of_ne_zero htop) hdB
  have hvd : val d = d.getD 0 0 := by rw [hd1]; simp [val_cons]
  rw [pow_zero, Nat.mul_one] at e
  obtain ⟨hQ, hR⟩ := divmod_of_eq (val n) (d.getD 0 0) _ _ e.symm hr
  exact spec_intro n d _ _ (by rw [hvd, hQ]) (by rw [hvd, hR]; simp [val_cons]) hq (by rw [hql, hdn]; omega)
    (Limbs_cons.mpr ⟨by omega, Limbs_nil⟩) (by rw [hdn]; rfl)

/-! ### dn = 2 -/

/-- the explicit two-limb shift of tdiv_qr.c:73-74 is mpn_lshift -/
theorem case2_d2p (d0 d1 c : Nat) :
    [(d0 <<< c) % B, ((d1 <<< c) % B) ||| (d0 >>> (64 - c))] = (lshift [d0, d1] c).1 := by
  simp [lshift, lshiftGo]

/-- the explicit two-limb shift of tdiv_qr.c:81-83 is mpn_rshift -/
theorem case2_rp (r0 r1 c : Nat) :
    [(r0 >>> c) ||| ((r1 <<< (64 - c)) % B), r1 >>> c] = (rshift [r0, r1] c).1 := rfl

/-- tdiv_qr.c:85-94, divisor normalised -/
theorem case2_norm (n d : List Nat) (hn : Limbs n) (hd : Limbs d) (hdn : d.length = 2) (hnn : 2 ≤ n.length)
    (hnorm : B / 2 ≤ d.getD 1 0) :
    Spec n d ((divrem_2 0 n d).1 ++ [(divrem_2 0 n d).2.2],
      [(divrem_2 0 n d).2.1.getD 0 0, (divrem_2 0 n d).2.1.getD 1 0], true) := by
  rw [divrem_2_zero n d hdn]
  have hnv := norm_of_top d 1 hd hdn hnorm
  have hd0 : 0 < val d := by have := Bpow_pos (1 + 1); omega
  obtain ⟨_, hr, hq, hq3, hq4, hr3, hr4⟩ := divQrSpec_spec n d hd hd0
  have hqh := divQrSpec_qh_le n d hn (by omega) (by rw [hdn]; exact hnv)
  rw [hdn] at hr4
  have hrr := list_len2 _ hr4
  rw [← hrr]
  refine spec_intro n d _ _ ?_ hr (Limbs_snoc hq3 (lt_B_of_le_one hqh)) (by simp [hq4, hdn]) hr3 (by rw [hr4, hdn])
  rw [val_top1, hq4, ← hq, hdn]; ring

/-- tdiv_qr.c:66-84, divisor not normalised -/
theorem case2_unnorm (n d : List Nat) (hn : Limbs n) (hd : Limbs d) (hdn : d.length = 2) (hnn : 2 ≤ n.length)
    (htop : d.getD 1 0 ≠ 0) (hlt : d.getD 1 0 < B / 2) : Spec n d (case2 n d) := by
  have hd2 := list_len2 d hdn
  have hd1B : d.getD 1 0 < B := limb_getD hd 1
  have hz := (highbit_zero _ hd1B).mpr hlt
  obtain ⟨hc63, hvd2, hnd2, hld2, hlend2⟩ := lshift_norm d 1 hd hdn htop
  obtain ⟨_, hclo, _⟩ := clz_spec (d.getD 1 0) htop hd1B
  have hc1 : 1 ≤ count_leading_zeros (d.getD 1 0) := by
    rcases Nat.eq_zero_or_pos (count_leading_zeros (d.getD 1 0)) with h | h
    · rw [h, pow_zero, Nat.mul_one] at hclo; omega
    · exact h
  obtain ⟨hdge, _⟩ := top_bounds d 1 hd hdn
  have hD0 : 0 < val d := by
    have : 1 * B ^ 1 ≤ d.getD 1 0 * B ^ 1 := Nat.mul_le_mul_right _ (Nat.pos_of_ne_zero htop)
    have := Bpow_pos 1; omega
  have hDge : B ≤ val d := by
    have : 1 * B ^ 1 ≤ d.getD 1 0 * B ^ 1 := Nat.mul_le_mul_right _ (Nat.pos_of_ne_zero htop)
    rw [pow_one] at this hdge; omega
  -- the model, with the two explicit shifts rewritten as mpn_lshift / mpn_rshift
  have hmodel : case2 n d =
      (if (lshift n (count_leading_zeros (d.getD 1 0))).2 = 0 then
        (divQrSpec (((lshift n (count_leading_zeros (d.getD 1 0))).1 ++ [(lshift n (count_leading_zeros (d.getD 1 0))).2]).take
            (n.length + (if (lshift n (count_leading_zeros (d.getD 1 0))).2 ≠ 0 then 1 else 0)))
          (lshift d (count_leading_zeros (d.getD 1 0))).1).1 ++
        [(divQrSpec (((lshift n (count_leading_zeros (d.getD 1 0))).1 ++ [(lshift n (count_leading_zeros (d.getD 1 0))).2]).take
            (n.length + (if (lshift n (count_leading_zeros (d.getD 1 0))).2 ≠ 0 then 1 else 0)))
          (lshift d (count_leading_zeros (d.getD 1 0))).1).2.2]
       else
        (divQrSpec (((lshift n (count_leading_zeros (d.getD 1 0))).1 ++ [(lshift n (count_leading_zeros (d.getD 1 0))).2]).take
            (n.length + (if (lshift n (count_leading_zeros (d.getD 1 0))).2 ≠ 0 then 1 else 0)))
          (lshift d (count_leading_zeros (d.getD 1 0))).1).1,
       (rshift (divQrSpec (((lshift n (count_leading_zeros (d.getD 1 0))).1 ++ [(lshift n (count_leading_zeros (d.getD 1 0))).2]).take
            (n.length + (if (lshift n (count_leading_zeros (d.getD 1 0))).2 ≠ 0 then 1 else 0)))
          (lshift d (count_leading_zeros (d.getD 1 0))).1).2.1 (count_leading_zeros (d.getD 1 0))).1, true) := by
    have hd2' : (lshift d (count_leading_zeros (d.getD 1 0))).1 =
        [(d.getD 0 0 <<< count_leading_zeros (d.getD 1 0)) % B,
         ((d.getD 1 0 <<< count_leading_zeros (d.getD 1 0)) % B) ||| (d.getD 0 0 >>> (64 - count_leading_zeros (d.getD 1 0)))] := by
      rw [case2_d2p]; congr 2
    unfold case2
    rw [if_pos hz]
    simp only []
    rw [← hd2']
    have hlen2 : (lshift d (count_leading_zeros (d.getD 1 0))).1.length = 2 := hlend2
    rw [divrem_2_zero _ _ hlen2]
    generalize hres : divQrSpec _ (lshift d (count_leading_zeros (d.getD 1 0))).1 = res
    have hrl : res.2.1.length = 2 := by
      rw [← hres]; unfold divQrSpec; simp only []; rw [(val_toLimbs _ _).2.1]; exact hlen2
    have hr2 := list_len2 _ hrl
    rw [case2_rp, ← hr2]
  rw [hmodel]
  generalize count_leading_zeros (d.getD 1 0) = c at *
  obtain ⟨hvn2, hln2, hlenn2, hcy⟩ := shifted_dividend n c hn hc63
  obtain ⟨hvsh, _, hlsh, hlensh⟩ := lshift_val n c hn (by omega)
  have hp : 0 < 2 ^ c := by positivity
  have hnlt := val_lt n hn
  by_cases hcy0 : (lshift n c).2 = 0
  · -- nothing shifted out: nn limbs are divided, the returned limb is stored on top
    rw [if_pos hcy0, if_neg (by simp [hcy0]), Nat.add_zero]
    have htk : ((lshift n c).1 ++ [(lshift n c).2]).take n.length = (lshift n c).1 := by
      rw [← hlensh]; exact take_snoc _ _
    rw [htk]
    rw [hcy0, Nat.mul_zero, Nat.add_zero] at hvsh
    obtain ⟨hqh, hq, hr, hq3, hq4, hr3, hr4⟩ := divide_shifted_hi (lshift n c).1 (lshift d c).1 (val n) (val d) (2 ^ c)
      hlsh hld2 hp hD0 hvsh hvd2 (by rw [hlend2, hlensh]; exact hnn) (by rw [hlend2]; exact hnd2)
    generalize divQrSpec (lshift n c).1 (lshift d c).1 = res at *
    obtain ⟨hrv, hrl, hrlen⟩ := rshift_val_div res.2.1 c hr3 (by intro h; rw [h] at hr4; simp [hlend2] at hr4) hc1 hc63
    refine spec_intro n d _ _ ?_ ?_ (Limbs_snoc hq3 (lt_B_of_le_one hqh)) ?_ hrl (by rw [hrlen, hr4, hlend2, hdn])
    · rw [val_top1, hq4, ← hq]; ring
    · rw [hrv, hr, Nat.mul_div_cancel _ hp]
    · simp [hq4, hlensh, hlend2, hdn]
  · -- a non-zero limb shifted out: nn+1 limbs are divided, the quotient fits into nn-1 limbs
    rw [if_neg hcy0, if_pos hcy0]
    have htk : ((lshift n c).1 ++ [(lshift n c).2]).take (n.length + 1) = (lshift n c).1 ++ [(lshift n c).2] := by
      rw [← hlenn2]; exact List.take_length
    rw [htk]
    have hfit : val n < val d * B ^ (((lshift n c).1 ++ [(lshift n c).2]).length - (lshift d c).1.length) := by
      rw [hlenn2, hlend2]
      have e : n.length + 1 - (1 + 1) = n.length - 1 := by omega
      rw [e]
      calc val n < B ^ n.length := hnlt
        _ = B * B ^ (n.length - 1) := by rw [← pow_succ']; congr 1; omega
        _ ≤ val d * B ^ (n.length - 1) := Nat.mul_le_mul_right _ hDge
    obtain ⟨h0, hq, hr, hq3, hq4, hr3, hr4⟩ := divide_shifted ((lshift n c).1 ++ [(lshift n c).2]) (lshift d c).1
      (val n) (val d) (2 ^ c) hld2 hp hD0 hvn2 hvd2 hfit
    generalize divQrSpec ((lshift n c).1 ++ [(lshift n c).2]) (lshift d c).1 = res at *
    obtain ⟨hrv, hrl, hrlen⟩ := rshift_val_div res.2.1 c hr3 (by intro h; rw [h] at hr4; simp [hlend2] at hr4) hc1 hc63
    refine spec_intro n d _ _ hq ?_ hq3 ?_ hrl (by rw [hrlen, hr4, hlend2, hdn])
    · rw [hrv, hr, Nat.mul_div_cancel _ hp]
    · rw [hq4, hlenn2, hlend2, hdn]; omega

theorem case2_spec (n d : List Nat) (hn : Limbs n) (hd : Limbs d) (hdn : d.length = 2) (hnn : 2 ≤ n.length)
    (htop : d.getD 1 0 ≠ 0) : Spec n d (case2 n d) := by
  have hd1B : d.getD 1 0 < B := limb_getD hd 1
  by_cases hlt : d.getD 1 0 < B / 2
  · exact case2_unnorm n d hn hd hdn hnn htop hlt
  · have hz : ¬ (d.getD 1 0 &&& HIGHBIT = 0) := fun h => hlt ((highbit_zero _ hd1B).mp h)
    have : case2 n d = ((divrem_2 0 n d).1 ++ [(divrem_2 0 n d).2.2],
        [(divrem_2 0 n d).2.1.getD 0 0, (divrem_2 0 n d).2.1.getD 1 0], true) := by
      unfold case2; rw [if_neg hz]
    rw [this]
    exact case2_norm n d hn hd hdn hnn (by omega)

/-! ### default case, nn + adjust ≥ 2·dn -/

/-- tdiv_qr.c:113-132: both operands multiplied by 2^cnt, divisor normalised, dividend on nn+1 limbs -/
theorem firstNorm_spec (n d : List Nat) (hn : Limbs n) (hd : Limbs d) (k : Nat) (hk : d.length = k + 1)
    (htop : d.getD k 0 ≠ 0) :
    (firstNorm n d).1 ≤ 63 ∧
    val (firstNorm n d).2.1 = val d * 2 ^ (firstNorm n d).1 ∧
    B ^ (k + 1) ≤ 2 * val (firstNorm n d).2.1 ∧
    Limbs (firstNorm n d).2.1 ∧ (firstNorm n d).2.1.length = k + 1 ∧
    val (firstNorm n d).2.2 = val n * 2 ^ (firstNorm n d).1 ∧
    Limbs (firstNorm n d).2.2 ∧ (firstNorm n d).2.2.length = n.length + 1 ∧
    (val n * 2 ^ (firstNorm n d).1 < B ^ n.length →
      val ((firstNorm n d).2.2.take n.length) = val n * 2 ^ (firstNorm n d).1) := by
  have htB : d.getD k 0 < B := limb_getD hd k
  unfold firstNorm
  rw [hk, Nat.add_sub_cancel]
  by_cases hlt : d.getD k 0 < B / 2
  · rw [if_pos ((highbit_zero _ htB).mpr hlt)]
    simp only []
    obtain ⟨hc63, hvd2, hnd2, hld2, hlend2⟩ := lshift_norm d k hd hk htop
    generalize count_leading_zeros (d.getD k 0) = c at *
    obtain ⟨hvn2, hln2, hlenn2, _⟩ := shifted_dividend n c hn hc63
    obtain ⟨hvsh, _, _, hlensh⟩ := lshift_val n c hn (by omega)
    refine ⟨hc63, hvd2, hnd2, hld2, hlend2, hvn2, hln2, hlenn2, ?_⟩
    intro hfit
    have htk : ((lshift n c).1 ++ [(lshift n c).2]).take n.length = (lshift n c).1 := by
      rw [← hlensh]; exact take_snoc _ _
    rw [htk]
    have hcy : (lshift n c).2 = 0 := by
      by_contra hne
      have : B ^ n.length * 1 ≤ B ^ n.length * (lshift n c).2 := Nat.mul_le_mul_left _ (Nat.pos_of_ne_zero hne)
      omega
    rw [hcy, Nat.mul_zero, Nat.add_zero] at hvsh
    exact hvsh
  · rw [if_neg (fun h => hlt ((highbit_zero _ htB).mp h))]
    simp only [pow_zero, Nat.mul_one]
    refine ⟨by omega, trivial, norm_of_top d k hd hk (by omega), hd, hk, val_snoc_zero n,
      Limbs_snoc hn B_pos, by simp, ?_⟩
    intro _
    rw [take_snoc]

theorem first_spec (T : Thresholds) (n d : List Nat) (hn : Limbs n) (hd : Limbs d) (hdn : 3 ≤ d.length)
    (hnn : d.length ≤ n.length) (htop : d.getD (d.length - 1) 0 ≠ 0) (adjust : Nat)
    (hadj : adjust = if n.getD (n.length - 1) 0 ≥ d.getD (d.length - 1) 0 then 1 else 0) :
    Spec n d (first T n d adjust) := by
  obtain ⟨k, hk⟩ : ∃ k, d.length = k + 1 := ⟨d.length - 1, by omega⟩
  obtain ⟨hdge, hfit⟩ := fit_of_adjust n d hn hd (by omega) hnn htop adjust hadj
  rw [hk, Nat.add_sub_cancel] at htop
  obtain ⟨hc63, hvd2, hnd2, hld2, hlend2, hvn2, hln2, hlenn2, htake⟩ := firstNorm_spec n d hn hd k hk htop
  have hD0 : 0 < val d := Nat.lt_of_lt_of_le (Bpow_pos _) hdge
  have hadj01 : adjust = 0 ∨ adjust = 1 := by
    rw [hadj]; split <;> simp
  unfold first
  simp only []
  generalize (firstNorm n d).1 = c at *
  generalize (firstNorm n d).2.1 = d2 at *
  generalize (firstNorm n d).2.2 = n2 at *
  have hp : 0 < 2 ^ c := by positivity
  have hd2lt := val_lt d2 hld2
  -- the nn + adjust limbs that are divided
  have hn2' : val (n2.take (n.length + adjust)) = val n * 2 ^ c ∧ (n2.take (n.length + adjust)).length = n.length + adjust := by
    rcases hadj01 with h | h
    · subst h
      rw [Nat.add_zero] at hfit ⊢
      refine ⟨htake ?_, by rw [List.length_take, hlenn2]; omega⟩
      have e : B ^ n.length = B ^ d2.length * B ^ (n.length - d.length) := by
        rw [← pow_add]; congr 1; rw [hlend2, ← hk]; omega
      calc val n * 2 ^ c < val d * B ^ (n.length - d.length) * 2 ^ c := Nat.mul_lt_mul_of_pos_right hfit hp
        _ = val d2 * B ^ (n.length - d.length) := by rw [hvd2]; ring
        _ ≤ B ^ d2.length * B ^ (n.length - d.length) := Nat.mul_le_mul_right _ (Nat.le_of_lt hd2lt)
        _ = B ^ n.length := e.symm
    · subst h
      rw [← hlenn2, List.take_length]; exact ⟨hvn2, rfl⟩
  obtain ⟨hv2', hl2'⟩ := hn2'
  have hln2' : Limbs (n2.take (n.length + adjust)) := Limbs_take hln2 _
  rw [callDivQr_eq _ _ d2 hln2' hld2 (by rw [hlend2, ← hk]; exact hdn) (by rw [hl2', hlend2, ← hk]; omega)
    (by rw [hlend2, Nat.add_sub_cancel]; exact top_of_norm d2 k hld2 hlend2 hnd2)]
  obtain ⟨h0, hq, hr, hq3, hq4, hr3, hr4⟩ := divide_shifted (n2.take (n.length + adjust)) d2 (val n) (val d) (2 ^ c)
    hld2 hp hD0 hv2' hvd2 (by rw [hl2', hlend2, ← hk]; exact hfit)
  generalize divQrSpec (n2.take (n.length + adjust)) d2 = res at *
  rw [h0]
  have hrem : val (if c ≠ 0 then (rshift res.2.1 c).1 else res.2.1) = val n % val d ∧
      Limbs (if c ≠ 0 then (rshift res.2.1 c).1 else res.2.1) ∧
      (if c ≠ 0 then (rshift res.2.1 c).1 else res.2.1).length = d.length := by
    by_cases hc0 : c = 0
    · rw [if_neg (by simp [hc0])]
      rw [hc0, pow_zero, Nat.mul_one] at hr
      exact ⟨hr, hr3, by rw [hr4, hlend2, hk]⟩
    · rw [if_pos hc0]
      obtain ⟨hrv, hrl, hrlen⟩ := rshift_val_div res.2.1 c hr3 (by intro h; rw [h] at hr4; simp [hlend2] at hr4)
        (by omega) hc63
      exact ⟨by rw [hrv, hr, Nat.mul_div_cancel _ hp], hrl, by rw [hrlen, hr4, hlend2, hk]⟩
  obtain ⟨hr1, hr2, hr5⟩ := hrem
  rcases hadj01 with h | h
  · subst h
    rw [if_pos rfl]
    refine spec_intro n d _ _ (by rw [val_snoc_zero]; exact hq) hr1 (Limbs_snoc hq3 B_pos) ?_ hr2 hr5
    rw [List.length_append, hq4, hl2', hlend2, hk]; simp
  · subst h
    rw [if_neg (by decide)]
    refine spec_intro n d _ _ hq hr1 hq3 ?_ hr2 hr5
    rw [hq4, hl2', hlend2, hk]; omega

end Mpir.TdivQr
