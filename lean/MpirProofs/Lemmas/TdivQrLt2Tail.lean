/- Helper lemmas for the model of mpn_tdiv_qr, part 7: from the corrected estimate to the exact quotient and remainder
   (tdiv_qr.c:315-369): partially used limb, subtraction of q × low limbs, the final `quotient_too_large` correction. -/
import MpirProofs.Lemmas.TdivQrLt2Final
import MpirProofs.Lemmas.TdivQrLt2Arith
namespace Mpir.TdivQr
open Mpir Mpir.DivWord Mpir.SbDiv

/-- tdiv_qr.c:315-369 as a function of the state after the `n2p[qn - 1] < h` step (the tail of `lt2`) -/
def lt2Tail (n d : List Nat) (in_ cnt qn : Nat) (qp rem : List Nat) (ok0 : Bool) : List Nat × List Nat × Bool :=
  let pt := if cnt ≠ 0 then lt2Partial n d in_ cnt qn qp rem else (rem, 0, true)
  let in2 := if cnt ≠ 0 then in_ - 1 else in_
  let fin :=
    if in2 = 0 then (pt.1, pt.2.1, decide (pt.1.length = d.length))
    else lt2Final n d in2 qn qp pt.1 pt.2.1
  let ok := ok0 && pt.2.2 && fin.2.2
  if fin.2.1 ≠ 0 then ((decr qp).1, (add_n fin.1 d).1, ok) else (qp, fin.1, ok)

/-- the last step (tdiv_qr.c:363-368): rp holds N − q·D modulo B^dn, `tl` ≠ 0 iff a borrow occurred -/
theorem lt2_correct (n d qp rp : List Nat) (tl t : Nat) (ok : Bool) (hd : Limbs d) (hqp : Limbs qp) (hrp : Limbs rp)
    (hlq : qp.length = n.length - d.length + 1) (hlr : rp.length = d.length) (hok : ok = true)
    (hlo : val qp * val d ≤ val n + val d) (hhi : val n < val qp * val d + val d)
    (hrel : val rp + val qp * val d = val n + t * B ^ d.length) (htl : tl = 0 ↔ t = 0) :
    Spec n d (if tl ≠ 0 then ((decr qp).1, (add_n rp d).1, ok) else (qp, rp, ok)) := by
  have hdlt := val_lt d hd
  have hrlt := val_lt rp hrp
  rw [hlr] at hrlt
  subst hok
  rcases lt2_finish (val n) (val d) (B ^ d.length) (val rp) (val qp) t (Nat.le_of_lt hdlt) hrlt hlo hhi hrel with
    ⟨ht, hN, hS⟩ | ⟨ht, hq1, hN, hS, hP⟩
  · rw [if_neg (by rw [ne_eq, not_not]; exact htl.mpr ht)]
    obtain ⟨hQ, hR⟩ := divmod_of_eq (val n) (val d) _ _ hN hS
    exact spec_intro n d _ _ hQ.symm hR.symm hqp hlq hrp hlr
  · rw [if_pos (by intro h; have := htl.mp h; omega)]
    obtain ⟨dv, dc, dl, dlen⟩ := decr_val qp hqp
    have hdlt' := val_lt _ dl
    rw [dlen] at hdlt'
    have hdc0 : (decr qp).2 = 0 := by
      by_contra hne
      have : B ^ qp.length * 1 ≤ B ^ qp.length * (decr qp).2 := Nat.mul_le_mul_left _ (Nat.pos_of_ne_zero hne)
      omega
    rw [hdc0, Nat.mul_zero, Nat.add_zero] at dv
    obtain ⟨av, ac, al, an⟩ := addNC_val rp d 0 hrp hd hlr (by omega)
    rw [Nat.add_zero, hlr] at av
    have halt := val_lt _ al
    rw [an, hlr] at halt
    have hc1 : (addNC rp d 0).2 = 1 := by
      rcases Nat.lt_or_ge (addNC rp d 0).2 1 with h0 | h1
      · have : (addNC rp d 0).2 = 0 := by omega
        rw [this, Nat.mul_zero, Nat.add_zero] at av; omega
      · omega
    rw [hc1, Nat.mul_one] at av
    have hqv : val (decr qp).1 = val qp - 1 := by omega
    have hrv : val (add_n rp d).1 = val rp + val d - B ^ d.length := by
      show val (addNC rp d 0).1 = _; omega
    obtain ⟨hQ, hR⟩ := divmod_of_eq (val n) (val d) _ _ hN hS
    exact spec_intro n d _ _ (by rw [hqv]; exact hQ.symm) (by rw [hrv]; exact hR.symm) dl (by rw [dlen]; exact hlq)
      al (by show (addNC rp d 0).1.length = _; rw [an, hlr])

theorem val_take_succ (l : List Nat) (i : Nat) (hi : i < l.length) :
    val (l.take (i + 1)) = l.getD i 0 * B ^ i + val (l.take i) := by
  have h1 : (l.take (i + 1)).length = i + 1 := by rw [List.length_take]; omega
  have e := val_take_top (l.take (i + 1)) i h1
  have h2 : (l.take (i + 1)).take i = l.take i := by rw [List.take_take]; congr 1; omega
  have h3 : (l.take (i + 1)).getD i 0 = l.getD i 0 := by simp [List.getD_eq_getElem?_getD]
  rw [h2, h3] at e
  rw [← e]; ring

/-- tdiv_qr.c:315-369: from a quotient that is at most one too large (and not too small) with its partial remainder to
    the exact quotient and remainder.  `i = in - 1`; the hypothesis `hid` is the identity
    N + q·dl = q·D + r·W + nl with W = 2^(64-cnt)·B^i. -/
theorem lt2Tail_spec (n d : List Nat) (i c qn : Nat) (qp rem : List Nat)
    (hn : Limbs n) (hd : Limbs d) (hqp : Limbs qp) (hrem : Limbs rem)
    (hqn : 1 ≤ qn) (hc : c ≤ 63) (hdn : d.length = qn + (i + 1)) (hin : i < n.length)
    (hlq : qp.length = n.length - d.length + 1) (hqq : qn ≤ qp.length) (hq2 : val qp < B ^ qn)
    (hid : val n + val qp * (d.getD i 0 % 2 ^ (64 - c) * B ^ i + val (d.take i)) =
      val qp * val d + val rem * (2 ^ (64 - c) * B ^ i) + (n.getD i 0 % 2 ^ (64 - c) * B ^ i + val (n.take i)))
    (hlo : val qp * val d ≤ val n + val d) (hhi : val n < val qp * val d + val d)
    (hlr : rem.length = qn ∨ (rem.length = qn + 1 ∧ B ^ qn ≤ val rem ∧ val rem < 2 * B ^ qn ∧
      (c = 0 → val rem < val qp * val (d.take (i + 1)) / B ^ (i + 1) + B ^ qn))) :
    Spec n d (lt2Tail n d (i + 1) c qn qp rem true) := by
  have hq2e : val (qp.take qn) = val qp := val_take_of_lt qp qn hqq hq2
  have hid' : i < d.length := by omega
  unfold lt2Tail
  simp only [Nat.add_sub_cancel]
  by_cases hc0 : c = 0
  · -- divisor normalised: no partially used limb
    subst hc0
    have e1 : (if (0 : Nat) ≠ 0 then lt2Partial n d (i + 1) 0 qn qp rem else (rem, 0, true)) = (rem, 0, true) :=
      if_neg (by simp)
    have e2 : (if (0 : Nat) ≠ 0 then i else i + 1) = i + 1 := if_neg (by simp)
    rw [e1, e2, if_neg (show ¬ (i + 1 = 0) by omega)]
    simp only []
    have hlr' : rem.length = qn ∨ (rem.length = qn + 1 ∧
        val (qp.take qn) * val (d.take (i + 1)) / B ^ (i + 1) + 1 ≤ val rem ∧
        val rem < val (qp.take qn) * val (d.take (i + 1)) / B ^ (i + 1) + B ^ qn) := by
      rcases hlr with h | ⟨h1, h2, _, h4⟩
      · exact Or.inl h
      · refine Or.inr ⟨h1, ?_, by rw [hq2e]; exact h4 rfl⟩
        rw [hq2e]
        have hdl := val_lt _ (Limbs_take hd (i + 1))
        rw [List.length_take, Nat.min_eq_left (by omega)] at hdl
        have : val qp * val (d.take (i + 1)) / B ^ (i + 1) ≤ val qp :=
          Nat.div_le_of_le_mul (by rw [Nat.mul_comm]; exact Nat.mul_le_mul_right _ (Nat.le_of_lt hdl))
        omega
    obtain ⟨cyA, cyB, hA, hB', fe, ftl, fl, flen, fok⟩ := lt2Final_spec n d (i + 1) qn qn qp rem 0 hn hd hqp hrem hqq
      (by omega) hdn (Nat.le_refl _) hqn hlr'
    rw [hq2e] at fe
    have hdB : d.getD i 0 % 2 ^ (64 - 0) = d.getD i 0 := Nat.mod_eq_of_lt (limb_getD hd i)
    have hnB : n.getD i 0 % 2 ^ (64 - 0) = n.getD i 0 := Nat.mod_eq_of_lt (limb_getD hn i)
    rw [hdB, hnB, ← val_take_succ d i hid', ← val_take_succ n i hin] at hid
    have hW : (2 : Nat) ^ (64 - 0) * B ^ i = B ^ (i + 1) := by rw [pow_succ, Nat.mul_comm]; rfl
    rw [hW] at hid
    rw [fok]
    apply lt2_correct n d qp _ _ (cyA + cyB) _ hd hqp fl hlq (by rw [flen, hdn]) rfl hlo hhi
    · rw [hdn]; omega
    · rw [ftl]
      have h1 := lor_01 0 cyA (by omega) hA
      have h2 := lor_01 (0 ||| cyA) cyB h1.1 hB'
      rw [h2.2]; constructor <;> intro h <;> omega
  · -- divisor not normalised: the partially used limb first
    rw [if_pos hc0, if_pos hc0]
    have hlr' : rem.length = qn ∨ (rem.length = qn + 1 ∧ B ^ qn ≤ val rem ∧ val rem < 2 * B ^ qn) := by
      rcases hlr with h | ⟨h1, h2, h3, _⟩
      · exact Or.inl h
      · exact Or.inr ⟨h1, h2, h3⟩
    obtain ⟨pe, pf, pl, plen, pok⟩ := lt2Partial_spec n d i c qn qp rem hqn (by omega) hc hqp hqq hrem hlr'
    rw [hq2e] at pe
    generalize lt2Partial n d (i + 1) c qn qp rem = pt at *
    rw [pok]
    by_cases hi0 : i = 0
    · subst hi0
      rw [if_pos rfl]
      simp only [pow_zero, Nat.mul_one, List.take_zero, val_nil, Nat.add_zero] at hid
      have hdec : decide (pt.1.length = d.length) = true := decide_eq_true (by rw [plen, hdn])
      simp only [hdec, Bool.and_self]
      apply lt2_correct n d qp _ _ pt.2.1 _ hd hqp pl hlq (by rw [plen, hdn]) rfl hlo hhi
      · rw [hdn, Nat.add_zero]; omega
      · exact Iff.rfl
    · rw [if_neg hi0]
      obtain ⟨cyA, cyB, hA, hB', fe, ftl, fl, flen, fok⟩ := lt2Final_spec n d i qn (qn + 1) qp pt.1 pt.2.1 hn hd hqp pl hqq
        (by omega) (by omega) (by omega) (by omega) (Or.inl plen)
      rw [hq2e] at fe
      rw [fok]
      apply lt2_correct n d qp _ _ (pt.2.1 + cyA + cyB) _ hd hqp fl hlq (by rw [flen, hdn]; omega) rfl hlo hhi
      · have hpw : B ^ d.length = B ^ (qn + 1) * B ^ i := by rw [← pow_add, hdn]; congr 1; omega
        rw [hpw]
        rw [pow_add] at fe
        generalize val (lt2Final n d i qn qp pt.1 pt.2.1).1 = S at *
        generalize val pt.1 = Sp at *
        generalize d.getD i 0 % 2 ^ (64 - c) = md at *
        generalize n.getD i 0 % 2 ^ (64 - c) = mn at *
        generalize val (d.take i) = dlow at *
        generalize val (n.take i) = nlow at *
        generalize (2 : Nat) ^ (64 - c) = S2 at *
        generalize B ^ i = Bi at *
        generalize B ^ (qn + 1) = Bq at *
        generalize val qp = q2 at *
        generalize val rem = r2 at *
        generalize val n = N at *
        generalize val d = D at *
        generalize pt.2.1 = f at *
        zify at fe pe hid ⊢
        linear_combination fe + (Bi : Int) * pe - hid
      · rw [ftl]
        have h1 := lor_01 pt.2.1 cyA pf hA
        have h2 := lor_01 (pt.2.1 ||| cyA) cyB h1.1 hB'
        rw [h2.2]; constructor <;> intro h <;> omega

end Mpir.TdivQr
