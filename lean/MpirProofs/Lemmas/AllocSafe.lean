/- Helper lemmas for the size-aware memory model (Mpir/Model/AllocSafe.lean). -/
import Mpir.Model.AllocSafe
import MpirProofs.Lemmas.Mpz
namespace Mpir.AllocSafe
open Mpir
open Mpir.Mpz (sgn diffSign Norm natAbs_sgn)

theorem junk_lt : junk < B := by unfold junk B; norm_num

/-! ## blocks -/

/-- a block really has `alloc` limbs, each a limb -/
def BWF (b : Buf) : Prop := b.limbs.length = b.alloc ∧ Limbs b.limbs

/-- object invariant: the block is a block, and the value-level view is a well-formed mpz -/
def OWF (o : Obj) : Prop := BWF o.buf ∧ Mpz.WF (view o)

theorem Limbs_replicate (k v : Nat) (hv : v < B) : Limbs (List.replicate k v) := by
  intro x hx; rw [List.eq_of_mem_replicate hx]; exact hv

theorem BWF_new (n : Nat) : BWF (Buf.new n) := ⟨by simp [Buf.new], Limbs_replicate _ _ junk_lt⟩

/-- a range store is the sequence of single stores at off, off+1, … (each kernel "writes exactly
    [off, off+n)"): same block, same verdict -/
theorem write_eq_storeAll (l : List Nat) : ∀ (b : Buf) (off : Nat), b.limbs.length = b.alloc →
    off + l.length ≤ b.alloc → b.storeAll off l = b.write off l := by
  induction l with
  | nil =>
    intro b off hb h
    have h' : off ≤ b.alloc := by simpa using h
    simp [Buf.storeAll, Buf.write, h']
  | cons x xs ih =>
    intro b off hb h
    simp only [List.length_cons] at h
    have h1 : off < b.alloc := by omega
    have hb' : (b.store off x).1.limbs.length = (b.store off x).1.alloc := by
      simp [Buf.store, h1, hb]
    have h2 : off + 1 + xs.length ≤ (b.store off x).1.alloc := by
      simp [Buf.store, h1]; omega
    simp only [Buf.storeAll]
    rw [ih _ _ hb' h2]
    have h3 : off + (xs.length + 1) ≤ b.alloc := by omega
    have h4 : off + 1 + xs.length ≤ b.alloc := by omega
    simp only [Buf.write, Buf.store, h1, if_true, List.length_cons, h3, h4, Bool.and_self]
    have hL : off + (xs.length + 1) ≤ b.limbs.length := by omega
    have h1' : off < b.limbs.length := by omega
    have e1 : (b.limbs.set off x).take (off+1) = b.limbs.take off ++ [x] := by
      rw [List.take_add_one]
      simp [List.take_set_of_le, h1']
    have e2 : (b.limbs.set off x).drop (off+1+xs.length) = b.limbs.drop (off + (xs.length+1)) := by
      rw [List.drop_set_of_lt (by omega)]
      congr 1; omega
    simp only [e1, e2]; simp

/-- an out-of-range range store is reported by the single stores too -/
theorem storeAll_bad (l : List Nat) : ∀ (b : Buf) (off : Nat), off ≤ b.alloc →
    ¬ off + l.length ≤ b.alloc → (b.storeAll off l).2 = false := by
  induction l with
  | nil => intro b off h0 h; simp at h; omega
  | cons x xs ih =>
    intro b off h0 h
    simp only [List.length_cons] at h
    simp only [Buf.storeAll]
    by_cases h1 : off < b.alloc
    · have : ¬ off + 1 + xs.length ≤ (b.store off x).1.alloc := by simp [Buf.store, h1]; omega
      rw [ih _ _ (by simp [Buf.store, h1]; omega) this]; simp
    · simp [Buf.store, h1]

theorem write_BWF {b : Buf} (hb : BWF b) (off : Nat) {l : List Nat} (hl : Limbs l) :
    BWF (b.write off l).1 := by
  unfold Buf.write
  split
  · rename_i h
    refine ⟨?_, ?_⟩
    · simp only [List.length_append, List.length_take, List.length_drop, hb.1]; omega
    · exact Limbs_append.mpr ⟨Limbs_append.mpr ⟨Limbs_take hb.2 _, hl⟩, Limbs_drop hb.2 _⟩
  · exact hb

/-! ## state transformers: what they leave alone -/

@[simp] theorem upd_same (h : Heap) (i : Nat) (o : Obj) : upd h i o i = o := by simp [upd]
theorem upd_other (h : Heap) {i j : Nat} (o : Obj) (hij : j ≠ i) : upd h i o j = h j := by simp [upd, hij]

@[simp] theorem chk_h (s : St) (b : Bool) : (s.chk b).h = s.h := rfl
@[simp] theorem chk_ok (s : St) (b : Bool) : (s.chk b).ok = (s.ok && b) := rfl
@[simp] theorem chk_PTR (s : St) (b : Bool) (x : Nat) : (s.chk b).PTR x = s.PTR x := rfl
@[simp] theorem chk_live (s : St) (b : Bool) (p : Ptr) : (s.chk b).live p = s.live p := rfl
@[simp] theorem chk_rd (s : St) (b : Bool) (p : Ptr) (n : Nat) : (s.chk b).rd p n = s.rd p n := rfl
@[simp] theorem chk_rdOk (s : St) (b : Bool) (p : Ptr) (n : Nat) : (s.chk b).rdOk p n = s.rdOk p n := rfl

@[simp] theorem wr_gen (s : St) (p : Ptr) (l : List Nat) (x : Nat) : ((s.wr p l).h x).gen = (s.h x).gen := by
  by_cases h : x = p.id <;> simp [St.wr, upd, h]
@[simp] theorem wr_size (s : St) (p : Ptr) (l : List Nat) (x : Nat) : ((s.wr p l).h x).size = (s.h x).size := by
  by_cases h : x = p.id <;> simp [St.wr, upd, h]
@[simp] theorem wr_alloc (s : St) (p : Ptr) (l : List Nat) (x : Nat) :
    ((s.wr p l).h x).buf.alloc = (s.h x).buf.alloc := by
  by_cases h : x = p.id
  · subst h; simp only [St.wr, upd_same, Buf.write]; split <;> rfl
  · simp [St.wr, upd, h]
@[simp] theorem wr_live (s : St) (p q : Ptr) (l : List Nat) : (s.wr p l).live q = s.live q := by
  simp [St.live]
@[simp] theorem wr_PTR (s : St) (p : Ptr) (l : List Nat) (x : Nat) : (s.wr p l).PTR x = s.PTR x := by
  simp [St.PTR]
@[simp] theorem wr_SIZ (s : St) (p : Ptr) (l : List Nat) (x : Nat) : (s.wr p l).SIZ x = s.SIZ x := by
  simp [St.SIZ]
@[simp] theorem wr_ALLOC (s : St) (p : Ptr) (l : List Nat) (x : Nat) : (s.wr p l).ALLOC x = s.ALLOC x := by
  simp [St.ALLOC]
@[simp] theorem wr_rdOk (s : St) (p q : Ptr) (l : List Nat) (n : Nat) : (s.wr p l).rdOk q n = s.rdOk q n := by
  simp [St.rdOk, Buf.read]
theorem wr_other (s : St) (p : Ptr) (l : List Nat) {x : Nat} (h : x ≠ p.id) : (s.wr p l).h x = s.h x := by
  simp [St.wr, upd, h]
theorem wr_ok (s : St) (p : Ptr) (l : List Nat) :
    (s.wr p l).ok = (s.ok && s.live p && decide (p.off + l.length ≤ (s.h p.id).buf.alloc)) := by
  simp only [St.wr, Buf.write]; split <;> simp [*]
theorem wr_limbs (s : St) (p : Ptr) (l : List Nat) (h : p.off + l.length ≤ (s.h p.id).buf.alloc) :
    ((s.wr p l).h p.id).buf.limbs =
      (s.h p.id).buf.limbs.take p.off ++ l ++ (s.h p.id).buf.limbs.drop (p.off + l.length) := by
  simp [St.wr, Buf.write, h]
theorem wr_BWF (s : St) (p : Ptr) {l : List Nat} (hl : Limbs l) (x : Nat) (hx : BWF (s.h x).buf) :
    BWF ((s.wr p l).h x).buf := by
  by_cases h : x = p.id
  · subst h; simp only [St.wr, upd_same]; exact write_BWF hx _ hl
  · rw [wr_other _ _ _ h]; exact hx

@[simp] theorem setSize_ok (s : St) (x : Nat) (n : Int) : (s.setSize x n).ok = s.ok := rfl
@[simp] theorem setSize_gen (s : St) (x : Nat) (n : Int) (y : Nat) : ((s.setSize x n).h y).gen = (s.h y).gen := by
  by_cases h : y = x <;> simp [St.setSize, upd, h]
@[simp] theorem setSize_buf (s : St) (x : Nat) (n : Int) (y : Nat) : ((s.setSize x n).h y).buf = (s.h y).buf := by
  by_cases h : y = x <;> simp [St.setSize, upd, h]
@[simp] theorem setSize_size (s : St) (x : Nat) (n : Int) : ((s.setSize x n).h x).size = n := by
  simp [St.setSize]
theorem setSize_other (s : St) (x : Nat) (n : Int) {y : Nat} (h : y ≠ x) : (s.setSize x n).h y = s.h y := by
  simp [St.setSize, upd, h]

/-- storing nothing changes nothing -/
theorem wr_nil (s : St) (p : Ptr) (hlive : s.live p = true) (hfit : p.off ≤ (s.h p.id).buf.alloc) :
    s.wr p [] = s := by
  cases s with
  | mk h ok =>
    simp only [St.wr, Buf.write, List.length_nil, Nat.add_zero] at *
    simp only [hfit, if_true, hlive, Bool.and_true]
    congr 1
    funext j
    by_cases hj : j = p.id
    · subst hj; simp [upd]
    · simp [upd, hj]

/-! ## pointers taken now -/

@[simp] theorem live_PTR (s : St) (x : Nat) : s.live (s.PTR x) = true := by simp [St.live, St.PTR]
@[simp] theorem live_PTR_add (s : St) (x k : Nat) : s.live ((s.PTR x).add k) = true := by
  simp [St.live, St.PTR, Ptr.add]
@[simp] theorem PTR_id (s : St) (x : Nat) : (s.PTR x).id = x := rfl
@[simp] theorem PTR_off (s : St) (x : Nat) : (s.PTR x).off = 0 := rfl
@[simp] theorem add_id (p : Ptr) (k : Nat) : (p.add k).id = p.id := rfl
@[simp] theorem add_off (p : Ptr) (k : Nat) : (p.add k).off = p.off + k := rfl

theorem rd_PTR (s : St) (x n : Nat) : s.rd (s.PTR x) n = (s.h x).buf.limbs.take n := by
  simp [St.rd, St.PTR, Buf.read]
theorem rdOk_PTR (s : St) (x n : Nat) : s.rdOk (s.PTR x) n = decide (n ≤ (s.h x).buf.alloc) := by
  simp [St.rdOk, St.PTR, Buf.read, St.live]
theorem rd_PTR_add (s : St) (x k n : Nat) : s.rd ((s.PTR x).add k) n = ((s.h x).buf.limbs.drop k).take n := by
  simp [St.rd, St.PTR, Buf.read, Ptr.add]
theorem rdOk_PTR_add (s : St) (x k n : Nat) :
    s.rdOk ((s.PTR x).add k) n = decide (k + n ≤ (s.h x).buf.alloc) := by
  simp [St.rdOk, St.PTR, Buf.read, St.live, Ptr.add]

/-! ## MPZ_REALLOC -/

/-- what `MPZ_REALLOC (w, n)` guarantees, for every variable `x` (the same as `w` or not) -/
structure Grown (s s' : St) (w n : Nat) : Prop where
  ok : s'.ok = s.ok
  size : ∀ x, (s'.h x).size = (s.h x).size
  mono : ∀ x, (s.h x).buf.alloc ≤ (s'.h x).buf.alloc
  room : n ≤ (s'.h w).buf.alloc
  alloc : (s'.h w).buf.alloc = (Mpz.grow (view (s.h w)) n).alloc
  take : ∀ x k, BWF (s.h x).buf → k ≤ (s.h x).buf.alloc → (s'.h x).buf.limbs.take k = (s.h x).buf.limbs.take k
  bwf : ∀ x, BWF (s.h x).buf → BWF (s'.h x).buf
  other : ∀ x, x ≠ w → s'.h x = s.h x

theorem MPZ_REALLOC_grown (s : St) (w n : Nat) (hw : OWF (s.h w)) : Grown s (MPZ_REALLOC s w n) w n := by
  unfold MPZ_REALLOC St.ALLOC
  have hfit := hw.2.2.1
  simp only [view] at hfit
  by_cases hn : n > (s.h w).buf.alloc
  · rw [if_pos hn]
    have hsz : ¬ (s.h w).size.natAbs > max n 1 := by omega
    refine ⟨rfl, ?_, ?_, ?_, ?_, ?_, ?_, ?_⟩
    · intro x; by_cases h : x = w
      · subst h; simp [_mpz_realloc, hsz]
      · simp [_mpz_realloc, upd, h]
    · intro x; by_cases h : x = w
      · subst h; simp [_mpz_realloc]; omega
      · simp [_mpz_realloc, upd, h]
    · simp [_mpz_realloc]
    · simp [_mpz_realloc, Mpz.grow, Mpz.realloc, view, hn]
      split <;> rfl
    · intro x k hb hk; by_cases h : x = w
      · subst h
        simp only [_mpz_realloc, upd_same]
        rw [List.take_take, List.take_append_of_le_length (by rw [hb.1]; omega)]
        congr 1; omega
      · simp [_mpz_realloc, upd, h]
    · intro x hb; by_cases h : x = w
      · subst h
        simp only [_mpz_realloc, upd_same]
        refine ⟨?_, ?_⟩
        · simp only [List.length_take, List.length_append, List.length_replicate, hb.1]; omega
        · exact Limbs_take (Limbs_append.mpr ⟨hb.2, Limbs_replicate _ _ junk_lt⟩) _
      · simpa [_mpz_realloc, upd, h] using hb
    · intro x h; simp [_mpz_realloc, upd, h]
  · rw [if_neg hn]
    refine ⟨rfl, fun _ => rfl, fun _ => Nat.le_refl _, by omega, ?_, fun _ _ _ _ => rfl, fun _ h => h, fun _ _ => rfl⟩
    simp [Mpz.grow, view, hn]

/-! ## lists -/

/-- a list with room for a + b elements splits into a prefix of a, a middle of b, and the rest -/
theorem decomp3 (L : List Nat) (a b : Nat) (h : a + b ≤ L.length) :
    ∃ A X R, L = A ++ X ++ R ∧ A.length = a ∧ X.length = b :=
  ⟨L.take a, (L.drop a).take b, L.drop (a + b), by
    rw [List.append_assoc, ← List.drop_drop, List.take_append_drop, List.take_append_drop],
    by simp; omega, by simp; omega⟩

/-- a store over the middle part of a block seen as prefix ++ middle ++ rest -/
theorem wr_decomp (s : St) (p : Ptr) (l A X R : List Nat) (hL : (s.h p.id).buf.limbs = A ++ X ++ R)
    (hlen : (s.h p.id).buf.limbs.length = (s.h p.id).buf.alloc) (hA : A.length = p.off) (hX : X.length = l.length) :
    ((s.wr p l).h p.id).buf.limbs = A ++ l ++ R ∧
    (s.wr p l).ok = (s.ok && s.live p) := by
  have hfit : p.off + l.length ≤ (s.h p.id).buf.alloc := by
    rw [← hlen, hL]; simp; omega
  refine ⟨?_, by rw [wr_ok]; simp [hfit]⟩
  rw [wr_limbs _ _ _ hfit, hL]
  congr 1
  · congr 1
    rw [List.append_assoc]; exact List.take_left' hA
  · exact List.drop_left' (by simp; omega)


theorem take_normalize_length (l : List Nat) : l.take (normalize l).length = normalize l := by
  obtain ⟨k, hk⟩ := Mpz.normalize_spec l
  have h2 : (normalize l ++ List.replicate k 0).take (normalize l).length = normalize l := by simp
  rw [← hk] at h2; exact h2

end Mpir.AllocSafe
