/- mpn_dc_sqrtrem at limb-buffer level (Model/SqrtremLimb.lean) computes what the value-level recursion
   (Model/Root.lean `dcSqrtrem`, proved equal to ⌊√N⌋ and the remainder) computes: every reduction modulo a buffer
   size is the identity on the value in flight, every carry / borrow limb is accounted for by `c`, `b`, `q`. -/
import MpirProofs.Lemmas.Root
import Mpir.Model.SqrtremLimb
namespace Mpir.SqrtL
open Mpir Mpir.Root

/-- :268-270 — the pre-subtraction (when the recursive remainder has its carry limb set) and the division give the
    quotient `⌊(R1·W + a1)/s1⌋` split as `q·W + {sp, l}` and the remainder. -/
theorem divStep_spec (W H s1 R1 a1 : Nat) (hs : H ≤ 2 * s1) (hsH : s1 < H) (hr : R1 ≤ 2 * s1) :
    ∃ qn sp0, divStep W H s1 (R1 % H) (R1 / H) a1 = (qn, sp0, (R1 * W + a1) % s1) ∧
      qn * W + sp0 = (R1 * W + a1) / s1 ∧ (0 < W → sp0 < W) := by
  have hs1 : 0 < s1 := by omega
  have hHpos : 0 < H := by omega
  have hq : R1 / H < 2 := (Nat.div_lt_iff_lt_mul hHpos).mpr (by omega)
  have hdm := Nat.div_add_mod R1 H
  unfold divStep
  dsimp only
  have h01 : R1 / H = 0 ∨ R1 / H = 1 := by
    generalize R1 / H = x at hq; omega
  rcases h01 with h0 | h1
  · rw [h0] at hdm ⊢
    simp only [ne_eq, not_true_eq_false, if_false, Nat.zero_add]
    have e : R1 % H = R1 := by omega
    rw [e]
    refine ⟨_, _, rfl, ?_, fun hW => Nat.mod_lt _ hW⟩
    have := Nat.div_add_mod ((R1 * W + a1) / s1) W
    rw [Nat.mul_comm] at this; exact this
  · rw [h1] at hdm ⊢
    simp only [ne_eq, Nat.one_ne_zero, not_false_eq_true, if_true]
    have e : (R1 % H + H - s1) % H = R1 - s1 := by
      have e1 : R1 % H + H - s1 = R1 - s1 := by omega
      rw [e1]; exact Nat.mod_eq_of_lt (by omega)
    rw [e]
    have hnum : R1 * W + a1 = (R1 - s1) * W + a1 + s1 * W := by
      rw [Nat.sub_mul]
      have : s1 * W ≤ R1 * W := Nat.mul_le_mul_right _ (by omega)
      omega
    have e2 : (R1 * W + a1) / s1 = ((R1 - s1) * W + a1) / s1 + W := by
      rw [hnum, Nat.add_mul_div_left _ _ hs1]
    have e3 : (R1 * W + a1) % s1 = ((R1 - s1) * W + a1) % s1 := by
      rw [hnum, Nat.add_mul_mod_self_left]
    rw [e3]
    refine ⟨_, _, rfl, ?_, fun hW => Nat.mod_lt _ hW⟩
    rw [e2]
    have := Nat.div_add_mod (((R1 - s1) * W + a1) / s1) W
    rw [Nat.mul_comm] at this
    rw [Nat.add_mul]
    omega

theorem shl63_mod (q : Nat) (hq : q ≤ 2) : (q <<< 63) % B = q % 2 * 2 ^ 63 := by
  rcases (by omega : q = 0 ∨ q = 1 ∨ q = 2) with rfl | rfl | rfl <;> decide

/-- :271-274 — halving the quotient across the limb boundary `q : {sp, l}`. -/
theorem halfStep_spec (l qn sp0 qs : Nat) (hl : 1 ≤ l) (hq : qn * B ^ l + sp0 = qs) (hsp : sp0 < B ^ l)
    (hQ : qs / 2 ≤ B ^ l) :
    ∃ sp0h q1, halfStep l qn sp0 = (qs % 2, sp0h, q1) ∧ q1 * B ^ l + sp0h = qs / 2 ∧ sp0h < B ^ l ∧ q1 ≤ 1 ∧
      (q1 = 1 → sp0h = 0) := by
  obtain ⟨k, hk⟩ : ∃ k, B ^ (l - 1) = 2 ^ k := ⟨64 * (l - 1), by unfold B; rw [← pow_mul]⟩
  have hW : B ^ l = 2 * (2 ^ 63 * 2 ^ k) := by
    have : l = (l - 1) + 1 := by omega
    conv_lhs => rw [this, pow_succ]
    rw [hk]; unfold B; ring
  have hWh : 2 ^ 63 * 2 ^ k = 2 ^ (63 + k) := by rw [pow_add]
  generalize hWhe : 2 ^ 63 * 2 ^ k = Wh at *
  have hqn : qn ≤ 2 := by
    by_contra hc
    have : 3 * B ^ l ≤ qn * B ^ l := Nat.mul_le_mul_right _ (by omega)
    omega
  unfold halfStep
  rw [shl63_mod qn hqn, hk]
  have hlt : sp0 / 2 < 2 ^ (63 + k) := by rw [← hWh]; omega
  rcases (by omega : qn = 0 ∨ qn = 1 ∨ qn = 2) with rfl | rfl | rfl
  · simp only [Nat.zero_mod, Nat.zero_mul, Nat.or_zero, Nat.zero_shiftRight]
    exact ⟨sp0 / 2, 0, by rw [← hq]; simp, by omega, by omega, by omega, by omega⟩
  · have e : 1 % 2 * 2 ^ 63 * 2 ^ k = 2 ^ (63 + k) := by rw [← hWh, ← hWhe]; simp
    rw [e, Nat.or_two_pow_eq_add_of_lt hlt]
    refine ⟨sp0 / 2 + 2 ^ (63 + k), 0, ?_, by omega, by omega, by omega, by omega⟩
    have : (qs % 2) = sp0 % 2 := by omega
    rw [this]; rfl
  · simp only [Nat.mod_self, Nat.zero_mul, Nat.or_zero]
    have hsp1 : sp0 ≤ 1 := by omega
    refine ⟨sp0 / 2, 1, ?_, by omega, by omega, by omega, by omega⟩
    have : (qs % 2) = sp0 % 2 := by omega
    rw [this]; rfl

/-- :275-276 -/
theorem addBack_spec (H s1 c0 us : Nat) (hus : us < s1) (hsH : s1 < H) :
    ∃ c1 us', addBack H s1 c0 us = (c1, us') ∧ c1 * H + us' = (if c0 ≠ 0 then us + s1 else us) ∧ us' < H ∧ c1 ≤ 1 := by
  unfold addBack
  by_cases hc : c0 ≠ 0
  · rw [if_pos hc, if_pos hc]
    have hH : 0 < H := by omega
    refine ⟨_, _, rfl, ?_, Nat.mod_lt _ hH, ?_⟩
    · have := Nat.div_add_mod (us + s1) H; rw [Nat.mul_comm] at this; exact this
    · have : (us + s1) / H < 2 := (Nat.div_lt_iff_lt_mul hH).mpr (by omega)
      omega
  · rw [if_neg hc, if_neg hc]
    exact ⟨0, us, rfl, by omega, by omega, by omega⟩

/-- :280 -/
theorem addQ_spec (W H s1 q1 sp0h : Nat) (hH : 0 < H) (hsp : sp0h < W) :
    ∃ q' s, addQ W H s1 q1 sp0h = (q', s) ∧ q' * (H * W) + s = s1 * W + (q1 * W + sp0h) ∧ s < H * W := by
  unfold addQ
  refine ⟨_, _, rfl, ?_, ?_⟩
  · have := Nat.div_add_mod (s1 + q1) H
    have e : s1 * W + (q1 * W + sp0h) = (s1 + q1) * W + sp0h := by ring
    rw [e]
    conv_rhs => rw [← this]
    ring
  · have h1 : (s1 + q1) % H < H := Nat.mod_lt _ hH
    have h2 : ((s1 + q1) % H + 1) * W ≤ H * W := Nat.mul_le_mul_right _ h1
    rw [Nat.add_mul] at h2
    omega

/-- :277-279 — subtracting the square of the low quotient limbs and the quotient's top bit; the borrow travels through
    `np[2l]` (when `h = l + 1`) into `c`.  `W = B^l`, `H = B^h`. -/
theorem subSquare_core (l h W H c1 us a0 sp0h q1 : Nat) (hWpos : 0 < W)
    (hcase : (l = h ∧ H = W) ∨ (l ≠ h ∧ H = W * B)) (hus : us < H) (ha0 : a0 < W)
    (hsp : sp0h < W) (hc1 : c1 ≤ 1) (hq1 : q1 ≤ 1) (hq0 : q1 = 1 → sp0h = 0) :
    ∃ c rlo, subSquare l h W c1 us a0 sp0h q1 = (c, rlo) ∧ rlo < H * W ∧
      c * ((H * W : Nat) : Int) + (rlo : Int) =
        (((c1 * H + us) * W + a0 : Nat) : Int) - (((q1 * W + sp0h) ^ 2 : Nat) : Int) := by
  have hdm := Nat.div_add_mod us W
  have huslo : us % W < W := Nat.mod_lt _ hWpos
  -- {np, 2l} and the square fit in 2l limbs
  have hlo : us % W * W + a0 < W * W := by
    have : (us % W + 1) * W ≤ W * W := Nat.mul_le_mul_right _ huslo
    rw [Nat.add_mul] at this; omega
  have hsq : sp0h * sp0h < W * W := Nat.mul_lt_mul'' hsp hsp
  have hsquare : (q1 * W + sp0h) ^ 2 = q1 * (W * W) + sp0h * sp0h := by
    rcases (by omega : q1 = 0 ∨ q1 = 1) with rfl | rfl
    · simp [pow_two]
    · rw [hq0 rfl]; ring
  have hvalue : (c1 * H + us) * W + a0 = c1 * (H * W) + us / W * (W * W) + (us % W * W + a0) := by
    conv_lhs => rw [← hdm]
    ring
  rw [hsquare, hvalue]
  unfold subSquare
  dsimp only
  generalize hlo_def : us % W * W + a0 = lo at *
  generalize hsq_def : sp0h * sp0h = sq at *
  -- the 2l-limb subtraction
  have hsub : (lo + W * W - sq) % (W * W) = if lo < sq then lo + W * W - sq else lo - sq := by
    split
    · exact Nat.mod_eq_of_lt (by omega)
    · have : lo + W * W - sq = (lo - sq) + W * W := by omega
      rw [this, Nat.add_mod_right]; exact Nat.mod_eq_of_lt (by omega)
  rw [hsub]
  rcases hcase with ⟨hlh, rfl⟩ | ⟨hlh, rfl⟩
  · -- l = h: the borrow goes straight into c
    have htop : us / H = 0 := Nat.div_eq_of_lt hus
    rw [if_pos hlh, htop]
    generalize hWW : H * H = WW at *
    refine ⟨_, _, rfl, by simp only [Nat.zero_mul, Nat.zero_add]; split <;> omega, ?_⟩
    rcases (by omega : q1 = 0 ∨ q1 = 1) with rfl | rfl <;> rcases (by omega : c1 = 0 ∨ c1 = 1) with rfl | rfl <;>
      by_cases hb : lo < sq <;> simp only [hb, if_true, if_false] <;> push_cast <;> omega
  · -- h = l + 1: through np[2l]
    have htop : us / W < B := by
      rw [Nat.div_lt_iff_lt_mul hWpos, Nat.mul_comm]; exact hus
    rw [if_neg hlh]
    have hBW : W * B * W = W * W * B := by ring
    rw [hBW]
    generalize hWW : W * W = WW at *
    generalize us / W = top at *
    have hB := B_eq
    obtain ⟨b, hb⟩ : ∃ b, b = q1 + (if lo < sq then 1 else 0) := ⟨_, rfl⟩
    rw [← hb]
    have hb2 : b ≤ 2 := by rw [hb]; split <;> omega
    -- the one-limb subtraction at np[2l]
    have hkey : (top + B - b) % B + b = top + (if top < b then 1 else 0) * B := by
      rw [hB]; split <;> omega
    have hkey2 : ((top + B - b) % B) * WW + b * WW = top * WW + (if top < b then 1 else 0) * (WW * B) := by
      have := congrArg (· * WW) hkey
      simp only [Nat.add_mul] at this
      rw [this]; ring
    have hlt : (top + B - b) % B < B := Nat.mod_lt _ B_pos
    refine ⟨_, _, rfl, ?_, ?_⟩
    · have : ((top + B - b) % B + 1) * WW ≤ B * WW := Nat.mul_le_mul_right _ hlt
      rw [Nat.add_mul] at this
      have e : WW * B = B * WW := Nat.mul_comm _ _
      split <;> omega
    · generalize (top + B - b) % B = top' at *
      rcases (by omega : q1 = 0 ∨ q1 = 1) with rfl | rfl <;> rcases (by omega : c1 = 0 ∨ c1 = 1) with rfl | rfl <;>
        by_cases hbb : lo < sq <;> by_cases ht : top < b <;>
        simp only [hbb, ht, if_true, if_false] at hb hkey2 ⊢ <;> subst hb <;> push_cast <;> omega

/-- splitting a non-negative integer given as `c·Bn + r`, `0 ≤ r < Bn`, into remainder and quotient of its `toNat`. -/
theorem split_unique (Bn r : Nat) (c X : Int) (hBn : 0 < Bn) (hr : r < Bn) (hX : X = c * (Bn : Int) + r) (h0 : 0 ≤ X) :
    X.toNat % Bn = r ∧ ((X.toNat / Bn : Nat) : Int) = c := by
  have hcast : ((X.toNat : Nat) : Int) = X := Int.toNat_of_nonneg h0
  have hu := (Int.ediv_emod_unique (a := X) (b := (Bn : Int)) (r := (r : Int)) (q := c) (by exact_mod_cast hBn)).mpr
    ⟨by rw [hX]; ring, by omega, by exact_mod_cast hr⟩
  constructor
  · have : ((X.toNat % Bn : Nat) : Int) = (r : Int) := by rw [Int.natCast_mod, hcast]; exact hu.2
    exact_mod_cast this
  · rw [Int.natCast_div, hcast]; exact hu.1

/-- :282-287 — the final correction. -/
theorem fixup_spec (Bn rlo s q' sT Sf Rf : Nat) (c rT : Int) (hBn : 0 < Bn)
    (hrT : rT = c * (Bn : Int) + rlo) (hrlo : rlo < Bn) (hsT : sT = q' * Bn + s) (hs : s < Bn) (hsT1 : 1 ≤ sT)
    (hval : (Sf, Rf) = if rT < 0 then (sT - 1, (rT + 2 * (sT : Int) - 1).toNat) else (sT, rT.toNat))
    (hSf : Sf < Bn) (hnn : rT < 0 → 0 ≤ rT + 2 * (sT : Int) - 1) :
    fixup Bn c rlo s q' = (Sf, Rf % Bn, ((Rf / Bn : Nat) : Int)) := by
  have hBnI : (0 : Int) < (Bn : Int) := by exact_mod_cast hBn
  have hc : c < 0 ↔ rT < 0 := by
    constructor
    · intro h
      have : c * (Bn : Int) ≤ -1 * (Bn : Int) := mul_le_mul_of_nonneg_right (by omega) (le_of_lt hBnI)
      rw [hrT]; omega
    · intro h
      by_contra hcn
      have : 0 ≤ c * (Bn : Int) := mul_nonneg (by omega) (le_of_lt hBnI)
      rw [hrT] at h; omega
  unfold fixup
  by_cases hneg : rT < 0
  · rw [if_pos hneg] at hval
    rw [if_pos (hc.mpr hneg)]
    dsimp only
    have hS : Sf = sT - 1 := (Prod.mk.inj hval).1
    have hR : Rf = (rT + 2 * (sT : Int) - 1).toNat := (Prod.mk.inj hval).2
    have tdm := Nat.div_add_mod (rlo + 2 * s) Bn
    have hmodlt : (rlo + 2 * s) % Bn < Bn := Nat.mod_lt _ hBn
    generalize (rlo + 2 * s) % Bn = rlo2 at *
    generalize (rlo + 2 * s) / Bn = cq at *
    -- the root
    have hroot : (s + Bn - 1) % Bn = Sf := by
      rw [hS]
      rcases Nat.eq_zero_or_pos q' with h0 | hp
      · rw [h0, Nat.zero_mul, Nat.zero_add] at hsT
        rw [hsT]
        have : s + Bn - 1 = (s - 1) + Bn := by omega
        rw [this, Nat.add_mod_right]; exact Nat.mod_eq_of_lt (by omega)
      · have hq1 : q' = 1 := by
          by_contra hne
          have : 2 * Bn ≤ q' * Bn := Nat.mul_le_mul_right _ (by omega)
          omega
        rw [hq1, Nat.one_mul] at hsT
        have hs0 : s = 0 := by omega
        rw [hs0, hsT, Nat.zero_add]
        have : Bn + s - 1 = Bn - 1 := by omega
        rw [this]
        exact Nat.mod_eq_of_lt (by omega)
    -- the remainder
    have hrem : (rlo2 + Bn - 1) % Bn = if rlo2 = 0 then Bn - 1 else rlo2 - 1 := by
      split
      · next h => rw [h, Nat.zero_add]; exact Nat.mod_eq_of_lt (by omega)
      · have : rlo2 + Bn - 1 = (rlo2 - 1) + Bn := by omega
        rw [this, Nat.add_mod_right]; exact Nat.mod_eq_of_lt (by omega)
    have hX : rT + 2 * (sT : Int) - 1 =
        (c + (cq : Int) + ((2 * q' : Nat) : Int) - ((if rlo2 = 0 then 1 else 0 : Nat) : Int)) * (Bn : Int) +
          (((rlo2 + Bn - 1) % Bn : Nat) : Int) := by
      rw [hrem, hrT, hsT]
      have e1 : ((rlo + 2 * s : Nat) : Int) = (Bn : Int) * (cq : Int) + (rlo2 : Int) := by exact_mod_cast tdm.symm
      push_cast at e1 ⊢
      split
      · next h => subst h; push_cast; rw [Nat.cast_sub (by omega)]; push_cast; linarith
      · next h => rw [Nat.cast_sub (by omega)]; push_cast; linarith
    obtain ⟨u1, u2⟩ := split_unique Bn ((rlo2 + Bn - 1) % Bn) _ _ hBn (Nat.mod_lt _ hBn) hX (hnn hneg)
    rw [hroot, hR, u1, u2]
  · rw [if_neg hneg] at hval
    rw [if_neg (fun h => hneg (hc.mp h))]
    have hS : Sf = sT := (Prod.mk.inj hval).1
    have hR : Rf = rT.toNat := (Prod.mk.inj hval).2
    have hq0 : q' = 0 := by
      by_contra hne
      have : 1 * Bn ≤ q' * Bn := Nat.mul_le_mul_right _ (by omega)
      omega
    rw [hq0, Nat.zero_mul, Nat.zero_add] at hsT
    obtain ⟨u1, u2⟩ := split_unique Bn rlo c rT hBn hrlo hrT (by omega)
    rw [hR, u1, u2, hS, hsT]

/-- the limb-level view of a value-level result `(S, R)`: `{sp, n}`, `{np, n}` and the returned carry. -/
def pack (n : Nat) (r : Nat × Nat) : Nat × Nat × Int := (r.1, r.2 % B ^ n, ((r.2 / B ^ n : Nat) : Int))

/-- the value-level step on abstract buffer sizes (the body of `Root.dcCombine`). -/
def combineW (W s1 R1 a1 a0 : Nat) : Nat × Nat :=
  let qs := (R1 * W + a1) / s1
  let us := (R1 * W + a1) % s1
  let u := if qs % 2 ≠ 0 then us + s1 else us
  let r : Int := ((u * W + a0 : Nat) : Int) - ((qs / 2 * (qs / 2) : Nat) : Int)
  let s := s1 * W + qs / 2
  if r < 0 then (s - 1, (r + 2 * (s : Int) - 1).toNat) else (s, r.toNat)

theorem dcCombine_eq (l N s1 R1 : Nat) :
    dcCombine l N (s1, R1) = combineW (B ^ l) s1 R1 (N / B ^ l % B ^ l) (N % B ^ l) := rfl

/-- ONE LEVEL of mpn_dc_sqrtrem on abstract buffer sizes. -/
theorem dcStepW_eq (l h W H s1 R1 a1 a0 S2 R2 : Nat) (hl : 1 ≤ l) (hW : W = B ^ l) (hHpos : 0 < H)
    (hcase : (l = h ∧ H = W) ∨ (l ≠ h ∧ H = W * B)) (hs : H ≤ 2 * s1) (hsH : s1 < H)
    (hr : R1 ≤ 2 * s1) (ha1 : a1 < W) (ha0 : a0 < W) (hval : combineW W s1 R1 a1 a0 = (S2, R2)) (hS2 : S2 < H * W) :
    dcStepW l h W H (H * W) a1 a0 (s1, R1 % H, R1 / H) = (S2, R2 % (H * W), ((R2 / (H * W) : Nat) : Int)) := by
  have hWpos : 0 < W := by rw [hW]; exact pow_pos B_pos _
  have hWH : W ≤ H := by
    rcases hcase with ⟨-, rfl⟩ | ⟨-, rfl⟩
    · exact Nat.le_refl _
    · exact Nat.le_mul_of_pos_right _ B_pos
  have hs1pos : 0 < s1 := by omega
  unfold combineW at hval
  dsimp only at hval
  unfold dcStepW
  dsimp only
  -- :268-270
  obtain ⟨qn, sp0, hd, hqs, hsp0⟩ := divStep_spec W H s1 R1 a1 hs hsH hr
  rw [hd]
  dsimp only
  have hus : (R1 * W + a1) % s1 < s1 := Nat.mod_lt _ hs1pos
  have hnumdm := Nat.div_add_mod (R1 * W + a1) s1
  generalize (R1 * W + a1) % s1 = us at *
  generalize (R1 * W + a1) / s1 = qs at *
  have hqsdm := Nat.div_add_mod qs 2
  -- Zimmermann's step on the true quantities
  obtain ⟨uT, huT⟩ : ∃ uT, uT = if qs % 2 ≠ 0 then us + s1 else us := ⟨_, rfl⟩
  rw [← huT] at hval
  have hdmZ : 2 * s1 * (qs / 2) + uT = R1 * W + a1 := by
    have e : s1 * qs = s1 * (2 * (qs / 2)) + s1 * (qs % 2) := by rw [← Nat.mul_add, hqsdm]
    have e2 : s1 * (2 * (qs / 2)) = 2 * s1 * (qs / 2) := by ring
    rcases (by omega : qs % 2 = 0 ∨ qs % 2 = 1) with h0 | h0
    · rw [h0] at e huT
      simp only [ne_eq, not_true_eq_false, if_false] at huT
      omega
    · rw [h0] at e huT
      simp only [ne_eq, Nat.one_ne_zero, not_false_eq_true, if_true] at huT
      omega
  have huT2 : uT < 2 * s1 := by rw [huT]; split <;> omega
  obtain ⟨hQle, -, hZneg⟩ := zstep W s1 R1 a1 a0 (qs / 2) uT (s1 * W + qs / 2) (by omega) hr ha1 ha0 hdmZ huT2 rfl
  -- :271-274
  obtain ⟨sp0h, q1, hhalf, hQv, hsp0h, hq1, hq10⟩ := halfStep_spec l qn sp0 qs hl (by rw [← hW]; exact hqs)
    (by rw [← hW]; exact hsp0 hWpos) (by rw [← hW]; exact hQle)
  rw [hhalf]
  dsimp only
  rw [← hW] at hQv hsp0h
  -- :275-276
  obtain ⟨c1, us', hab, hus'v, hus'lt, hc1⟩ := addBack_spec H s1 (qs % 2) us hus hsH
  rw [hab]
  dsimp only
  rw [← huT] at hus'v
  -- :277-279
  obtain ⟨c, rlo, hss, hrlo, hrT⟩ := subSquare_core l h W H c1 us' a0 sp0h q1 hWpos hcase hus'lt ha0 hsp0h hc1 hq1 hq10
  rw [hss]
  dsimp only
  -- :280
  obtain ⟨q', s, haq, hsT, hslt⟩ := addQ_spec W H s1 q1 sp0h hHpos hsp0h
  rw [haq]
  dsimp only
  rw [hus'v, hQv, pow_two] at hrT
  rw [hQv] at hsT
  -- :282-287
  have hsT1 : 1 ≤ s1 * W + qs / 2 := by
    have : 1 * 1 ≤ s1 * W := Nat.mul_le_mul hs1pos hWpos
    omega
  exact fixup_spec (H * W) rlo s q' (s1 * W + qs / 2) S2 R2 c
    (((uT * W + a0 : Nat) : Int) - ((qs / 2 * (qs / 2) : Nat) : Int)) (Nat.mul_pos hHpos hWpos) hrT.symm hrlo
    hsT.symm hslt hsT1 hval.symm hS2 (fun hneg => by
      have hlt : uT * W + a0 < qs / 2 * (qs / 2) := by
        clear * - hneg
        generalize uT * W + a0 = A at *
        generalize qs / 2 * (qs / 2) = Q2 at *
        omega
      obtain ⟨z1, z2, -, -⟩ := hZneg hlt
      clear * - z1 z2
      generalize uT * W + a0 = A at *
      generalize qs / 2 * (qs / 2) = Q2 at *
      generalize s1 * W + qs / 2 = sT at *
      omega)

/-- mpn_dc_sqrtrem, all sizes: the limb-level model returns the limb view of the value-level result. -/
theorem dcL_eq : ∀ (fuel n N : Nat), 0 < n → n ≤ fuel → B ^ (2 * n) ≤ 4 * N → N < B ^ (2 * n) →
    dcL fuel n N = pack n (dcSqrtremF fuel n N)
  | 0, n, N, hn, hf, _, _ => by omega
  | fuel + 1, n, N, hn, hf, hN1, hN2 => by
    have hn0 : ¬ n = 0 := by omega
    rw [dcL, if_neg hn0, dcSqrtremF, if_neg hn0]
    by_cases h1 : n = 1
    · subst h1
      rw [if_pos rfl, if_pos rfl]
      have hB := B_eq
      simp only [Nat.mul_one, pow_two] at hN1 hN2
      have hb : N / B < B := Nat.div_lt_of_lt_mul hN2
      have hnp1 : N / B % B = N / B := Nat.mod_eq_of_lt hb
      have hlo : B / 4 ≤ N / B := by
        rw [Nat.le_div_iff_mul_le B_pos]
        have : B / 4 * 4 = B := by rw [hB]
        nlinarith
      obtain ⟨sp, rp, cc, e, -, -, hnn, hrp⟩ := sqrtrem2_exI (N % B) (N / B % B) (Nat.mod_lt _ B_pos)
        (by rw [hnp1]; exact hlo) (by rw [hnp1]; exact hb)
      unfold dcBase dcBaseOut pack
      rw [e]
      dsimp only
      obtain ⟨u1, u2⟩ := split_unique B rp cc _ B_pos hrp rfl hnn
      rw [pow_one, u1, u2]
    · rw [if_neg h1, if_neg h1]
      dsimp only
      have hl : 0 < n / 2 := by omega
      have hh : n / 2 ≤ n - n / 2 := by omega
      have hsum : 2 * n = 2 * (n / 2) + 2 * (n - n / 2) := by omega
      have hX : 0 < B ^ (2 * (n / 2)) := pow_pos B_pos _
      have hXl : B ^ (2 * (n / 2)) = B ^ (n / 2) * B ^ (n / 2) := by rw [← pow_add]; congr 1; omega
      have hnn : B ^ (2 * n) = B ^ (n / 2 + (n - n / 2)) * B ^ (n / 2 + (n - n / 2)) := by
        rw [← pow_add]; congr 1; omega
      have hN2' := hN2
      rw [hnn] at hN2'
      rw [hsum, pow_add] at hN1 hN2
      obtain ⟨H, hH⟩ : ∃ H, B ^ (n - n / 2) = 2 * H := by
        obtain ⟨m, hm⟩ : ∃ m, n - n / 2 = m + 1 := ⟨n - n / 2 - 1, by omega⟩
        exact ⟨B ^ m * 2 ^ 63, by rw [hm, pow_succ]; unfold B; ring⟩
      have hY : B ^ (2 * (n - n / 2)) = 4 * (H * H) := by
        rw [Nat.mul_comm 2, pow_mul, hH]; ring
      rw [hY] at hN1 hN2
      generalize hNh : N / B ^ (2 * (n / 2)) = Nh at *
      have hNh2 : Nh < 4 * (H * H) := by
        rw [← hNh]; exact Nat.div_lt_of_lt_mul hN2
      have hNh1 : H * H ≤ Nh := by
        rw [← hNh, Nat.le_div_iff_mul_le hX]; nlinarith
      have ih := dcL_eq fuel (n - n / 2) Nh (by omega) (by omega) (by rw [hY]; omega) (by rw [hY]; exact hNh2)
      obtain ⟨i1, i2⟩ := dcSqrtremF_spec sqrtrem2_spec fuel (n - n / 2) Nh (by omega) (by omega)
        (by rw [hY]; omega) (by rw [hY]; exact hNh2)
      rw [ih]
      generalize dcSqrtremF fuel (n - n / 2) Nh = hi at *
      obtain ⟨s1, r1⟩ := hi
      simp only at i1 i2
      have hs1 : H ≤ s1 := by
        by_contra hc
        have h3 : s1 + 1 ≤ H := by omega
        have h4 : (s1 + 1) * (s1 + 1) ≤ H * H := Nat.mul_le_mul h3 h3
        have h5 : (s1 + 1) * (s1 + 1) = s1 * s1 + 2 * s1 + 1 := by ring
        omega
      have hs1lt : s1 < 2 * H := by
        by_contra hc
        have : 2 * H * (2 * H) ≤ s1 * s1 := Nat.mul_le_mul (by omega) (by omega)
        have : 2 * H * (2 * H) = 4 * (H * H) := by ring
        omega
      unfold pack
      dsimp only
      rw [Int.toNat_natCast]
      -- one level
      have hi' : s1 * s1 + r1 = N / (B ^ (n / 2) * B ^ (n / 2)) := by rw [← hXl, hNh]; exact i1
      obtain ⟨c1, c2⟩ := dcCombine_spec (n / 2) N s1 r1 (by have := Nat.pow_le_pow_right B_pos hh; omega) i2 hi'
      have hval := dcCombine_eq (n / 2) N s1 r1
      generalize dcCombine (n / 2) N (s1, r1) = res at *
      obtain ⟨S2, R2⟩ := res
      simp only at c1 c2
      have hS2 : S2 < B ^ (n / 2 + (n - n / 2)) := by
        by_contra hc
        have : B ^ (n / 2 + (n - n / 2)) * B ^ (n / 2 + (n - n / 2)) ≤ S2 * S2 := Nat.mul_le_mul (by omega) (by omega)
        omega
      have hBn : B ^ (n / 2 + (n - n / 2)) = B ^ (n - n / 2) * B ^ (n / 2) := by rw [Nat.add_comm, pow_add]
      have hnn' : n / 2 + (n - n / 2) = n := by omega
      have hcase : (n / 2 = n - n / 2 ∧ B ^ (n - n / 2) = B ^ (n / 2)) ∨
          (n / 2 ≠ n - n / 2 ∧ B ^ (n - n / 2) = B ^ (n / 2) * B) := by
        by_cases he : n / 2 = n - n / 2
        · exact Or.inl ⟨he, by rw [← he]⟩
        · refine Or.inr ⟨he, ?_⟩
          have : n - n / 2 = n / 2 + 1 := by omega
          rw [this, pow_succ]
      unfold dcStepL
      rw [hBn] at hS2 ⊢
      have key := dcStepW_eq (n / 2) (n - n / 2) (B ^ (n / 2)) (B ^ (n - n / 2)) s1 r1 (N / B ^ (n / 2) % B ^ (n / 2))
        (N % B ^ (n / 2)) S2 R2 (by omega) rfl (pow_pos B_pos _) hcase (by rw [hH]; omega) (by rw [hH]; exact hs1lt) i2
        (Nat.mod_lt _ (pow_pos B_pos _)) (Nat.mod_lt _ (pow_pos B_pos _)) hval.symm hS2
      rw [key, ← hBn, hnn']

end Mpir.SqrtL
