/- Refinement proof for the ++ case of the size-aware model of mpz/ior.c (Mpir/Model/AllocSafeMpz2.lean). -/
import MpirProofs.Lemmas.AllocSafeXor
namespace Mpir.AllocSafe
open Mpir
open Mpir.Mpz (sgn Norm natAbs_sgn)

theorem ior_pp_refines (s : St) (res op1 op2 : Nat) (hs : s.ok = true)
    (hw : OWF (s.h res)) (hu : OWF (s.h op1)) (hv : OWF (s.h op2)) :
    Refines s (ior_pp true s res op1 op2 (s.h op1).size.natAbs (s.h op2).size.natAbs) res
      (ofZ (Mpz.grow (view (s.h res)) (max (s.h op1).size.natAbs (s.h op2).size.natAbs)).alloc
        (Bits.iorPP (view (s.h op1)).d (view (s.h op2)).d)) := by
  have hA := view_d_length hu
  have hB := view_d_length hv
  unfold ior_pp Bits.iorPP ofZ Bits.ior_n
  by_cases hge : (s.h op1).size.natAbs ≥ (s.h op2).size.natAbs
  · have hge' : (view (s.h op1)).d.length ≥ (view (s.h op2)).d.length := by omega
    simp only [hge, hge', if_true]
    obtain ⟨W, _⟩ := cat_pp_wrote (· ||| ·) (fun a b ha hb => or_lt ha hb) s res op1 op2 op1 (Or.inl rfl) hs hw hu hv
      (s.h op2).size.natAbs hge (Nat.le_refl _)
    have G := MPZ_REALLOC_grown s res (s.h op1).size.natAbs hw
    rw [zipWith_take_full _ _ _ _ (by omega)] at W
    have hl : (List.zipWith (fun x1 x2 => x1 ||| x2) (view (s.h op1)).d (view (s.h op2)).d ++
        List.drop (view (s.h op2)).d.length (view (s.h op1)).d).length = (s.h op1).size.natAbs := by simp; omega
    have hl' := hl
    rw [hB] at hl'
    have R := (W.setSize ((s.h op1).size.natAbs : Int)).refines ((s.h op1).size.natAbs : Int) (by simp)
      (by rw [Int.natAbs_natCast, hl'])
    rw [Int.natAbs_natCast, List.take_of_length_le (by rw [hl'])] at R
    rw [hl, Nat.max_eq_left hge, hB]
    have halloc : (Mpz.grow (view (s.h res)) (s.h op1).size.natAbs).alloc =
      ((MPZ_REALLOC s res (s.h op1).size.natAbs).h res).buf.alloc := G.alloc.symm
    rw [halloc]
    refine Refines.of_grown G ?_
    simpa [sgn] using R
  · have hge' : ¬ (view (s.h op1)).d.length ≥ (view (s.h op2)).d.length := by omega
    simp only [hge, hge', if_false]
    obtain ⟨W, _⟩ := cat_pp_wrote (· ||| ·) (fun a b ha hb => or_lt ha hb) s res op1 op2 op2 (Or.inr rfl) hs hw hu hv
      (s.h op1).size.natAbs (Nat.le_refl _) (by omega)
    have G := MPZ_REALLOC_grown s res (s.h op2).size.natAbs hw
    rw [zipWith_take_full _ _ _ _ (by omega)] at W
    have hl : (List.zipWith (fun x1 x2 => x1 ||| x2) (view (s.h op1)).d (view (s.h op2)).d ++
        List.drop (view (s.h op1)).d.length (view (s.h op2)).d).length = (s.h op2).size.natAbs := by simp; omega
    have hl' := hl
    rw [hA] at hl'
    have R := (W.setSize ((s.h op2).size.natAbs : Int)).refines ((s.h op2).size.natAbs : Int) (by simp)
      (by rw [Int.natAbs_natCast, hl'])
    rw [Int.natAbs_natCast, List.take_of_length_le (by rw [hl'])] at R
    rw [hl, Nat.max_eq_right (by omega), hA]
    have halloc : (Mpz.grow (view (s.h res)) (s.h op2).size.natAbs).alloc =
      ((MPZ_REALLOC s res (s.h op2).size.natAbs).h res).buf.alloc := G.alloc.symm
    rw [halloc]
    refine Refines.of_grown G ?_
    simpa [sgn] using R

end Mpir.AllocSafe
