/- Helper lemmas for the I/O models (Mpir/Model/Io.lean). -/
import MpirProofs.Lemmas.Base
import Mpir.Model.Io
import Mathlib.Tactic.Ring
import Mathlib.Tactic.Linarith
namespace Mpir.Io
open Mpir

/-! ### bytes -/

theorem Bytes_nil : Bytes [] := by intro b hb; cases hb
theorem Bytes_cons {b : Nat} {l : List Nat} : Bytes (b :: l) ↔ b < 256 ∧ Bytes l := by
  unfold Bytes; simp
theorem Bytes_append {a b : List Nat} : Bytes (a ++ b) ↔ Bytes a ∧ Bytes b := by
  unfold Bytes; simp only [List.mem_append]
  constructor
  · intro h; exact ⟨fun x hx => h x (Or.inl hx), fun x hx => h x (Or.inr hx)⟩
  · rintro ⟨h1, h2⟩ x (hx | hx); exact h1 x hx; exact h2 x hx
theorem Bytes_reverse {a : List Nat} : Bytes a.reverse ↔ Bytes a := by unfold Bytes; simp
theorem Bytes_take {l : List Nat} (h : Bytes l) (n : Nat) : Bytes (l.take n) :=
  fun x hx => h x (List.mem_of_mem_take hx)
theorem Bytes_drop {l : List Nat} (h : Bytes l) (n : Nat) : Bytes (l.drop n) :=
  fun x hx => h x (List.mem_of_mem_drop hx)
theorem Bytes_replicate_zero (n : Nat) : Bytes (List.replicate n 0) := by
  intro b hb; rw [List.mem_replicate] at hb; omega

@[simp] theorem leBytes_length (n v : Nat) : (leBytes n v).length = n := by
  induction n generalizing v with
  | zero => rfl
  | succ n ih => simp [leBytes, ih]

theorem leBytes_bytes (n v : Nat) : Bytes (leBytes n v) := by
  induction n generalizing v with
  | zero => exact Bytes_nil
  | succ n ih => exact Bytes_cons.mpr ⟨Nat.mod_lt _ (by decide), ih _⟩

@[simp] theorem beBytes_length (n v : Nat) : (beBytes n v).length = n := by simp [beBytes]
theorem beBytes_bytes (n v : Nat) : Bytes (beBytes n v) := Bytes_reverse.mpr (leBytes_bytes n v)

@[simp] theorem leVal_nil : leVal [] = 0 := rfl
@[simp] theorem leVal_cons (b : Nat) (l : List Nat) : leVal (b :: l) = b + 256 * leVal l := rfl

theorem leVal_append (a b : List Nat) : leVal (a ++ b) = leVal a + 256 ^ a.length * leVal b := by
  induction a with
  | nil => simp
  | cons x xs ih => simp only [List.cons_append, leVal_cons, ih, List.length_cons, pow_succ]; ring

theorem leVal_lt {l : List Nat} (h : Bytes l) : leVal l < 256 ^ l.length := by
  induction l with
  | nil => simp
  | cons x xs ih =>
    have ⟨hx, hxs⟩ := Bytes_cons.mp h
    have := ih hxs
    simp only [leVal_cons, List.length_cons, pow_succ]
    omega

theorem leVal_leBytes (n v : Nat) : leVal (leBytes n v) = v % 256 ^ n := by
  induction n generalizing v with
  | zero => simp [leBytes, Nat.mod_one]
  | succ n ih =>
    simp only [leBytes, leVal_cons, ih, pow_succ]
    rw [Nat.mul_comm (256 ^ n) 256, Nat.mod_mul]

theorem leBytes_leVal {l : List Nat} (h : Bytes l) : leBytes l.length (leVal l) = l := by
  induction l with
  | nil => rfl
  | cons x xs ih =>
    have ⟨hx, hxs⟩ := Bytes_cons.mp h
    simp only [List.length_cons, leBytes, leVal_cons]
    have h1 : (x + 256 * leVal xs) % 256 = x := by omega
    have h2 : (x + 256 * leVal xs) / 256 = leVal xs := by omega
    rw [h1, h2, ih hxs]

theorem leBytes_add (n m v : Nat) : leBytes (n + m) v = leBytes n v ++ leBytes m (v / 256 ^ n) := by
  induction n generalizing v with
  | zero => simp [leBytes]
  | succ n ih =>
    rw [Nat.succ_add]
    simp only [leBytes, List.cons_append, ih, pow_succ]
    rw [Nat.div_div_eq_div_mul, Nat.mul_comm 256]

theorem leBytes_zero (n : Nat) : leBytes n 0 = List.replicate n 0 := by
  induction n with
  | zero => rfl
  | succ n ih => simp [leBytes, ih, List.replicate_succ]

theorem leBytes_of_lt {n v : Nat} (m : Nat) (h : v < 256 ^ n) :
    leBytes (n + m) v = leBytes n v ++ List.replicate m 0 := by
  rw [leBytes_add, Nat.div_eq_of_lt h, leBytes_zero]

theorem leVal_replicate_zero (n : Nat) : leVal (List.replicate n 0) = 0 := by
  induction n with
  | zero => rfl
  | succ n ih => simp [List.replicate_succ, ih]

theorem beVal_append (a b : List Nat) : beVal (a ++ b) = beVal a * 256 ^ b.length + beVal b := by
  simp only [beVal, List.reverse_append, leVal_append, List.length_reverse]; ring

theorem beVal_replicate_zero (n : Nat) : beVal (List.replicate n 0) = 0 := by
  simp [beVal, leVal_replicate_zero]

theorem beVal_beBytes (n v : Nat) : beVal (beBytes n v) = v % 256 ^ n := by
  simp [beVal, beBytes, leVal_leBytes]

theorem beVal_lt {l : List Nat} (h : Bytes l) : beVal l < 256 ^ l.length := by
  have := leVal_lt (Bytes_reverse.mpr h); simpa [beVal] using this

theorem beBytes_of_lt {n v : Nat} (m : Nat) (h : v < 256 ^ n) :
    beBytes (n + m) v = List.replicate m 0 ++ beBytes n v := by
  simp [beBytes, leBytes_of_lt m h]

/-! ### bit length -/

theorem bitLen_zero : bitLen 0 = 0 := by simp [bitLen]

theorem lt_two_pow_bitLen (v : Nat) : v < 2 ^ bitLen v := by
  unfold bitLen; split
  · subst_vars; simp
  · exact Nat.lt_log2_self

theorem two_pow_le_of_bitLen {v : Nat} (h : v ≠ 0) : 2 ^ (bitLen v - 1) ≤ v := by
  unfold bitLen; simp only [h, if_false, Nat.add_sub_cancel]; exact Nat.log2_self_le h

theorem bitLen_pos {v : Nat} (h : v ≠ 0) : 0 < bitLen v := by unfold bitLen; simp [h]

/-- characterisation: `2^k ≤ v < 2^(k+1)` gives `bitLen v = k+1` -/
theorem bitLen_eq {v k : Nat} (h1 : 2 ^ k ≤ v) (h2 : v < 2 ^ (k + 1)) : bitLen v = k + 1 := by
  have hv : v ≠ 0 := by have := Nat.two_pow_pos k; omega
  unfold bitLen; simp only [hv, if_false]
  congr 1
  have a : v.log2 < k + 1 := (Nat.log2_lt hv).mpr h2
  have b : ¬ v.log2 < k := by
    intro hlt; have := (Nat.log2_lt hv).mp hlt; omega
  omega

theorem bitLen_le_iff {v k : Nat} : bitLen v ≤ k ↔ v < 2 ^ k := by
  by_cases hv : v = 0
  · subst hv; simp [bitLen_zero]
  · unfold bitLen; simp only [hv, if_false]
    rw [← Nat.log2_lt hv]; omega

theorem lt_pow_byteLen (v : Nat) : v < 256 ^ byteLen v := by
  have h := lt_two_pow_bitLen v
  have : (256 : Nat) ^ byteLen v = 2 ^ (8 * byteLen v) := by
    rw [show (256 : Nat) = 2 ^ 8 by norm_num, ← pow_mul]
  rw [this]
  refine lt_of_lt_of_le h (Nat.pow_le_pow_right (by decide) ?_)
  unfold byteLen; omega

theorem byteLen_zero : byteLen 0 = 0 := by simp [byteLen, bitLen_zero]

/-! ### limb memory images -/

theorem B_eq_256 : B = 256 ^ 8 := by unfold B; norm_num
theorem B_eq_2 : B = 2 ^ 64 := rfl

@[simp] theorem limbsToBytes_nil : limbsToBytes [] = [] := rfl
@[simp] theorem limbsToBytes_cons (x : Nat) (xs : List Nat) :
    limbsToBytes (x :: xs) = leBytes 8 x ++ limbsToBytes xs := by simp [limbsToBytes]
theorem limbsToBytes_append (a b : List Nat) : limbsToBytes (a ++ b) = limbsToBytes a ++ limbsToBytes b := by
  simp [limbsToBytes]
@[simp] theorem limbsToBytes_length (d : List Nat) : (limbsToBytes d).length = 8 * d.length := by
  induction d with
  | nil => rfl
  | cons x xs ih => simp [ih]; omega
theorem limbsToBytes_bytes (d : List Nat) : Bytes (limbsToBytes d) := by
  induction d with
  | nil => exact Bytes_nil
  | cons x xs ih => rw [limbsToBytes_cons]; exact Bytes_append.mpr ⟨leBytes_bytes _ _, ih⟩

theorem bytesToLimbs_append8 {a : List Nat} (ha : a.length = 8) (b : List Nat) :
    bytesToLimbs (a ++ b) = leVal a :: bytesToLimbs b := by
  match a, ha with
  | [b0, b1, b2, b3, b4, b5, b6, b7], _ => simp [bytesToLimbs]

theorem bytesToLimbs_nil : bytesToLimbs [] = [] := by simp [bytesToLimbs]

theorem bytesToLimbs_limbsToBytes {d : List Nat} (h : Limbs d) : bytesToLimbs (limbsToBytes d) = d := by
  induction d with
  | nil => simp [bytesToLimbs_nil]
  | cons x xs ih =>
    have ⟨hx, hxs⟩ := Limbs_cons.mp h
    rw [limbsToBytes_cons, bytesToLimbs_append8 (by simp), ih hxs, leVal_leBytes, ← B_eq_256, Nat.mod_eq_of_lt hx]

/-- a byte string of `8k` bytes splits as `k` groups of 8 -/
theorem bytesToLimbs_append (k : Nat) : ∀ (a b : List Nat), a.length = 8 * k →
    bytesToLimbs (a ++ b) = bytesToLimbs a ++ bytesToLimbs b := by
  induction k with
  | zero => intro a b ha; have : a = [] := List.eq_nil_of_length_eq_zero (by omega); subst this; simp [bytesToLimbs_nil]
  | succ k ih =>
    intro a b ha
    have h8 : (a.take 8).length = 8 := by simp; omega
    have hd : (a.drop 8).length = 8 * k := by simp; omega
    rw [← List.take_append_drop 8 a, List.append_assoc, bytesToLimbs_append8 h8, bytesToLimbs_append8 h8,
      ih _ _ hd, List.cons_append]

theorem bytesToLimbs_length (k : Nat) : ∀ (a : List Nat), a.length = 8 * k → (bytesToLimbs a).length = k := by
  induction k with
  | zero => intro a ha; have : a = [] := List.eq_nil_of_length_eq_zero (by omega); subst this; simp [bytesToLimbs_nil]
  | succ k ih =>
    intro a ha
    have h8 : (a.take 8).length = 8 := by simp; omega
    have hd : (a.drop 8).length = 8 * k := by simp; omega
    rw [← List.take_append_drop 8 a, bytesToLimbs_append8 h8, List.length_cons, ih _ hd]

theorem Limbs_bytesToLimbs (k : Nat) : ∀ (a : List Nat), a.length = 8 * k → Bytes a → Limbs (bytesToLimbs a) := by
  induction k with
  | zero => intro a ha _; have : a = [] := List.eq_nil_of_length_eq_zero (by omega); subst this; simp [bytesToLimbs_nil, Limbs_nil]
  | succ k ih =>
    intro a ha hb
    have h8 : (a.take 8).length = 8 := by simp; omega
    have hd : (a.drop 8).length = 8 * k := by simp; omega
    rw [← List.take_append_drop 8 a, bytesToLimbs_append8 h8]
    refine Limbs_cons.mpr ⟨?_, ih _ hd (Bytes_drop hb 8)⟩
    have := leVal_lt (Bytes_take hb 8); rw [h8] at this; rw [B_eq_256]; exact this

theorem bswap_leVal {a : List Nat} (ha : a.length = 8) (hb : Bytes a) : bswap (leVal a) = beVal a := by
  unfold bswap; rw [← ha, leBytes_leVal hb]

theorem val_snoc (l : List Nat) (t : Nat) : val (l ++ [t]) = val l + B ^ l.length * t := by
  rw [val_append]; simp

/-- reversing the limb order and byte-swapping every limb of a memory image reads it big-endian -/
theorem val_reverse_bswap (k : Nat) : ∀ (m : List Nat), m.length = 8 * k → Bytes m →
    val ((bytesToLimbs m).map bswap).reverse = beVal m := by
  induction k with
  | zero => intro m hm _; have : m = [] := List.eq_nil_of_length_eq_zero (by omega); subst this; simp [bytesToLimbs_nil, beVal]
  | succ k ih =>
    intro m hm hb
    have h8 : (m.take 8).length = 8 := by simp; omega
    have hd : (m.drop 8).length = 8 * k := by simp; omega
    have hl := bytesToLimbs_length k _ hd
    conv_lhs => rw [← List.take_append_drop 8 m, bytesToLimbs_append8 h8]
    rw [List.map_cons, List.reverse_cons, val_snoc, ih _ hd (Bytes_drop hb 8),
      bswap_leVal h8 (Bytes_take hb 8), List.length_reverse, List.length_map, hl]
    conv_rhs => rw [← List.take_append_drop 8 m, beVal_append, hd]
    rw [B_eq_256, ← pow_mul]; ring

theorem revSwap_eq : ∀ (n : Nat) (l : List Nat), l.length = n → revSwap l = (l.map bswap).reverse := by
  intro n
  induction n using Nat.strong_induction_on with
  | _ n ih =>
    intro l hl
    match l, hl with
    | [], _ => simp [revSwap]
    | [x], _ => simp [revSwap]
    | x :: y :: r, hl =>
      rw [revSwap]
      have hne : (y :: r) ≠ [] := by simp
      have hlen : ((y :: r).dropLast).length < n := by simp at hl ⊢; omega
      rw [ih _ hlen _ rfl]
      conv_rhs => rw [List.map_cons, List.reverse_cons, ← List.dropLast_concat_getLast hne, List.map_append,
        List.reverse_append]
      simp

theorem Limbs_map_bswap (l : List Nat) : Limbs (l.map bswap) := by
  intro x hx
  rw [List.mem_map] at hx
  obtain ⟨y, _, rfl⟩ := hx
  unfold bswap
  have := beVal_lt (Bytes_reverse.mpr (leBytes_bytes 8 y))
  have h2 := beVal_lt (leBytes_bytes 8 y)
  simp at h2; rw [B_eq_256]; exact h2

theorem Limbs_reverse {l : List Nat} : Limbs l.reverse ↔ Limbs l := by unfold Limbs; simp

/-! ### normalisation -/

/-- non-empty lists end in a non-zero limb -/
def TopNZ (l : List Nat) : Prop := l ≠ [] → l.getLastD 0 ≠ 0

theorem normalize_nil : normalize [] = [] := rfl

theorem dropWhile_zero_spec (r : List Nat) :
    ∃ k, r = List.replicate k 0 ++ r.dropWhile (· == 0) ∧ (r.dropWhile (· == 0)).headD 1 ≠ 0 := by
  induction r with
  | nil => exact ⟨0, by simp, by simp⟩
  | cons x xs ih =>
    by_cases hx : x = 0
    · subst hx
      obtain ⟨k, hk, hh⟩ := ih
      refine ⟨k + 1, ?_, ?_⟩
      · simp only [List.dropWhile_cons, beq_self_eq_true, if_true, List.replicate_succ, List.cons_append]
        rw [← hk]
      · simpa [List.dropWhile_cons] using hh
    · refine ⟨0, by simp [hx], by simp [hx]⟩

/-- `normalize l` is `l` without its high zero limbs -/
theorem normalize_spec (l : List Nat) :
    ∃ k, l = normalize l ++ List.replicate k 0 ∧ TopNZ (normalize l) := by
  obtain ⟨k, hk, hh⟩ := dropWhile_zero_spec l.reverse
  refine ⟨k, ?_, ?_⟩
  · have := congrArg List.reverse hk
    rw [List.reverse_reverse, List.reverse_append, List.reverse_replicate] at this
    exact this
  · intro hne
    unfold normalize at hne ⊢
    cases hd : l.reverse.dropWhile (· == 0) with
    | nil => rw [hd] at hne; simp at hne
    | cons a as =>
      rw [hd] at hh
      simp only [List.reverse_cons, List.getLastD_concat]
      simpa using hh

theorem val_replicate_zero (k : Nat) : val (List.replicate k 0) = 0 := by
  induction k with
  | zero => rfl
  | succ k ih => simp [List.replicate_succ, ih]

theorem val_normalize (l : List Nat) : val (normalize l) = val l := by
  obtain ⟨k, hk, _⟩ := normalize_spec l
  conv_rhs => rw [hk, val_append, val_replicate_zero]
  omega

theorem normalize_prefix (l : List Nat) : l.take (normSize l) = normalize l := by
  obtain ⟨k, hk, _⟩ := normalize_spec l
  unfold normSize
  generalize normalize l = n at hk ⊢
  subst hk; simp

theorem normSize_le (l : List Nat) : normSize l ≤ l.length := by
  obtain ⟨k, hk, _⟩ := normalize_spec l
  unfold normSize
  have := congrArg List.length hk
  simp at this; omega

theorem Limbs_normalize {l : List Nat} (h : Limbs l) : Limbs (normalize l) := by
  rw [← normalize_prefix]; exact Limbs_take h _

/-! ### natLimbs -/

theorem natLimbs_zero : natLimbs 0 = [] := by rw [natLimbs]; simp
theorem natLimbs_pos {v : Nat} (h : v ≠ 0) : natLimbs v = v % B :: natLimbs (v / B) := by
  rw [natLimbs]; simp [h]

theorem natLimbs_spec (v : Nat) : val (natLimbs v) = v ∧ Limbs (natLimbs v) ∧ TopNZ (natLimbs v) := by
  induction v using Nat.strong_induction_on with
  | _ v ih =>
    by_cases hv : v = 0
    · subst hv; rw [natLimbs_zero]; exact ⟨rfl, Limbs_nil, fun h => absurd rfl h⟩
    · have hlt : v / B < v := Nat.div_lt_self (Nat.pos_of_ne_zero hv) (by unfold B; norm_num)
      obtain ⟨h1, h2, h3⟩ := ih _ hlt
      rw [natLimbs_pos hv]
      refine ⟨?_, Limbs_cons.mpr ⟨Nat.mod_lt _ B_pos, h2⟩, ?_⟩
      · rw [val_cons, h1]; exact Nat.mod_add_div v B
      · intro _
        by_cases hq : v / B = 0
        · rw [hq, natLimbs_zero]; simp
          have : v < B := by
            rcases Nat.lt_or_ge v B with h | h
            · exact h
            · have := Nat.div_pos h B_pos; omega
          rw [Nat.mod_eq_of_lt this]; exact hv
        · have hne : natLimbs (v / B) ≠ [] := by rw [natLimbs_pos hq]; simp
          have := h3 hne
          rw [List.getLastD_cons]
          cases hnl : natLimbs (v / B) with
          | nil => exact absurd hnl hne
          | cons a as => rw [hnl, List.getLastD_cons] at this; rw [List.getLastD_cons]; exact this

theorem natLimbs_eq_nil {v : Nat} : natLimbs v = [] ↔ v = 0 := by
  constructor
  · intro h; have := (natLimbs_spec v).1; rw [h] at this; exact this.symm
  · intro h; subst h; exact natLimbs_zero

/-- bit length of a normalised limb vector -/
theorem bitLen_val_snoc {l : List Nat} {t : Nat} (hl : Limbs l) (ht : t ≠ 0) :
    bitLen (val (l ++ [t])) = 64 * l.length + bitLen t := by
  rw [val_snoc]
  have h1 := val_lt l hl
  have h2 := lt_two_pow_bitLen t
  have h3 := two_pow_le_of_bitLen ht
  have hp := bitLen_pos ht
  have hB : B ^ l.length = 2 ^ (64 * l.length) := by rw [B_eq_2, ← pow_mul]
  rw [hB] at h1 ⊢
  have e : 64 * l.length + bitLen t = (64 * l.length + (bitLen t - 1)) + 1 := by omega
  rw [e]
  apply bitLen_eq
  · rw [pow_add]
    calc 2 ^ (64 * l.length) * 2 ^ (bitLen t - 1) ≤ 2 ^ (64 * l.length) * t := Nat.mul_le_mul_left _ h3
      _ ≤ _ := Nat.le_add_left _ _
  · have : 64 * l.length + (bitLen t - 1) + 1 = 64 * l.length + bitLen t := by omega
    rw [this, pow_add]
    calc val l + 2 ^ (64 * l.length) * t < 2 ^ (64 * l.length) + 2 ^ (64 * l.length) * t := by omega
      _ = 2 ^ (64 * l.length) * (t + 1) := by ring
      _ ≤ _ := Nat.mul_le_mul_left _ h2

/-! ### raw output -/

theorem leBytes_add_mul (n x k : Nat) : leBytes n (x + 256 ^ n * k) = leBytes n x := by
  induction n generalizing x k with
  | zero => rfl
  | succ n ih =>
    simp only [leBytes, pow_succ]
    have h1 : (x + 256 ^ n * 256 * k) % 256 = x % 256 := by
      rw [Nat.mul_assoc, Nat.mul_comm 256 k, ← Nat.mul_assoc]; exact Nat.add_mul_mod_self_right _ _ _
    have h2 : (x + 256 ^ n * 256 * k) / 256 = x / 256 + 256 ^ n * k := by
      rw [Nat.mul_assoc, Nat.mul_comm 256 k, ← Nat.mul_assoc, Nat.add_mul_div_right _ _ (by decide)]
    rw [h1, h2, ih]

theorem beBytes_cons_limb {x : Nat} (xs : List Nat) (hx : x < B) :
    beBytes (8 * (xs.length + 1)) (x + B * val xs) = beBytes (8 * xs.length) (val xs) ++ beBytes 8 x := by
  unfold beBytes
  have : 8 * (xs.length + 1) = 8 + 8 * xs.length := by ring
  rw [this, leBytes_add, List.reverse_append]
  congr 2
  · rw [← B_eq_256, Nat.add_mul_div_left _ _ B_pos, Nat.div_eq_of_lt hx, Nat.zero_add]
  · rw [B_eq_256, leBytes_add_mul]

/-- the `HTON_LIMB_STORE` loop writes the big-endian image of the value -/
theorem foldl_hton : ∀ (l : List Nat) (acc : List Nat), Limbs l →
    l.foldl (fun buf x => beBytes 8 x ++ buf) acc = beBytes (8 * l.length) (val l) ++ acc := by
  intro l
  induction l with
  | nil => intro acc _; simp [beBytes, leBytes]
  | cons x xs ih =>
    intro acc h
    have ⟨hx, hxs⟩ := Limbs_cons.mp h
    rw [List.foldl_cons, ih _ hxs, List.length_cons, val_cons, beBytes_cons_limb xs hx, List.append_assoc]

theorem bitLen_le_64 {t : Nat} (h : t < B) : bitLen t ≤ 64 := bitLen_le_iff.mpr h

/-- a list ending in `t`: split off the last element -/
theorem exists_snoc_of_getLastD {l : List Nat} (h : l ≠ []) : ∃ init, l = init ++ [l.getLastD 0] := by
  refine ⟨l.dropLast, ?_⟩
  have := List.dropLast_concat_getLast h
  rw [List.getLastD_eq_getLast?, List.getLast?_eq_some_getLast h]
  simpa using this.symm

theorem getLastD_take_getD {d : List Nat} {n : Nat} (hn : 0 < n) (h : n ≤ d.length) :
    (d.take n).getLastD 0 = d.getD (n - 1) 0 := by
  rw [List.getLastD_eq_getLast?, List.getLast?_eq_getElem?, List.getD_eq_getElem?_getD]
  simp only [List.length_take, Nat.min_eq_left h, List.getElem?_take]
  rw [if_pos (by omega)]

/-- facts about the limbs covered by `SIZ` of a well-formed object with non-zero size -/
theorem wf_limbs {z : Mpz} (h : z.WF) (hs : z.size ≠ 0) :
    ∃ init top, z.limbs = init ++ [top] ∧ top ≠ 0 ∧ top < B ∧ Limbs init ∧ init.length + 1 = z.abssize := by
  obtain ⟨hlen, hle, hlimbs, htop⟩ := h
  have hn : 0 < z.abssize := by unfold Mpz.abssize; omega
  have hne : z.limbs ≠ [] := by
    intro he; have := congrArg List.length he
    rw [Mpz.limbs, List.length_take, List.length_nil] at this; omega
  obtain ⟨init, hi⟩ := exists_snoc_of_getLastD hne
  have htl : z.limbs.getLastD 0 = z.d.getD (z.abssize - 1) 0 := getLastD_take_getD hn (by omega)
  have hL : Limbs z.limbs := Limbs_take hlimbs _
  rw [hi] at hL
  have ⟨hLi, hLt⟩ := Limbs_append.mp hL
  refine ⟨init, z.limbs.getLastD 0, hi, by rw [htl]; exact htop hs, ?_, hLi, ?_⟩
  · exact hLt _ (by simp)
  · have := congrArg List.length hi
    simp [Mpz.limbs] at this; omega

theorem out_raw_m_eq (z : Mpz) (h : z.WF) : out_raw_m z = outRawBytes z.toInt := by
  by_cases hs : z.size = 0
  · have h0 : z.toInt = 0 := by simp [Mpz.toInt, Mpz.limbs, Mpz.abssize, hs]
    rw [h0]
    simp [out_raw_m, outRawBytes, hs, byteLen_zero, beBytes, leBytes]
  · obtain ⟨init, top, hlim, ht0, htB, hLi, hlen⟩ := wf_limbs h hs
    have hn : z.size.natAbs = init.length + 1 := by unfold Mpz.abssize at hlen; omega
    have hV : val z.limbs = val init + B ^ init.length * top := by rw [hlim, val_snoc]
    have hVpos : 0 < val z.limbs := by
      rw [hV]; have := Nat.pos_of_ne_zero ht0; have := pow_pos B_pos init.length; nlinarith
    have hbl : bitLen (val z.limbs) = 64 * init.length + bitLen top := by rw [hlim]; exact bitLen_val_snoc hLi ht0
    have hbt := bitLen_pos ht0
    have hbt2 := bitLen_le_64 htB
    have hL : Limbs z.limbs := by rw [hlim]; exact Limbs_append.mpr ⟨hLi, by intro x hx; simp at hx; omega⟩
    have hzl : z.limbs.length = init.length + 1 := by rw [hlim]; simp
    -- the value and its sign
    have hnat : z.toInt.natAbs = val z.limbs := by unfold Mpz.toInt; split <;> simp
    have hneg : z.toInt < 0 ↔ z.size < 0 := by
      unfold Mpz.toInt; split
      · constructor <;> intro _ <;> first | assumption | omega
      · constructor <;> intro _ <;> omega
    have hbyte : byteLen (val z.limbs) = 8 * (init.length + 1) - (64 - bitLen top) / 8 := by
      unfold byteLen; rw [hbl]; omega
    have hdrop : (beBytes (8 * (init.length + 1)) (val z.limbs)).drop ((64 - bitLen top) / 8)
        = beBytes (byteLen (val z.limbs)) (val z.limbs) := by
      have e : 8 * (init.length + 1) = byteLen (val z.limbs) + (64 - bitLen top) / 8 := by rw [hbyte]; omega
      rw [e, beBytes_of_lt _ (lt_pow_byteLen _)]
      simp
    unfold out_raw_m outRawBytes
    have hb : (z.size.natAbs * 64 + 7) / 8 = 8 * (init.length + 1) := by rw [hn]; omega
    have hxp : z.d.take z.size.natAbs = z.limbs := rfl
    simp only [hb, hxp, foldl_hton _ _ hL, hzl, List.append_nil, hnat]
    have hne : (8 * (init.length + 1) ≠ 0) := by omega
    simp only [hne, ne_eq, not_false_eq_true, if_true]
    have hlast : z.limbs.getLastD 0 = top := by rw [hlim]; simp
    rw [hlast]
    unfold clz
    rw [hdrop, ← hbyte]
    by_cases hsz : z.size < 0
    · have : ¬ z.size ≥ 0 := by omega
      simp [this, hneg.mpr hsz]
    · have h1 : z.size ≥ 0 := by omega
      have h2 : ¬ z.toInt < 0 := fun hh => hsz (hneg.mp hh)
      simp [h1, h2]

/-! ### raw input -/

theorem fread_ok {r : List Nat} {n : Nat} (h : n ≤ r.length) : fread r n = (true, r.take n, r.drop n) := by
  simp [fread, h]
theorem fread_short {r : List Nat} {n : Nat} (h : r.length < n) : fread r n = (false, r, []) := by
  have : ¬ n ≤ r.length := by omega
  simp [fread, this]

theorem limbsToBytes_drop (d : List Nat) (k : Nat) : (limbsToBytes d).drop (8 * k) = limbsToBytes (d.drop k) := by
  induction k generalizing d with
  | zero => simp
  | succ k ih =>
    cases d with
    | nil => simp
    | cons x xs =>
      rw [limbsToBytes_cons, List.drop_succ_cons, ← ih xs]
      have : 8 * (k + 1) = (leBytes 8 x).length + 8 * k := by simp; ring
      rw [this, List.drop_append]
      simp

theorem limbsToBytes_take (d : List Nat) (k : Nat) : (limbsToBytes d).take (8 * k) = limbsToBytes (d.take k) := by
  induction k generalizing d with
  | zero => simp
  | succ k ih =>
    cases d with
    | nil => simp
    | cons x xs =>
      rw [limbsToBytes_cons, List.take_succ_cons, limbsToBytes_cons, ← ih xs]
      have : 8 * (k + 1) = (leBytes 8 x).length + 8 * k := by simp; ring
      rw [this, List.take_append]
      simp
      exact List.take_of_length_le (by simp)

/-- what `mpz_realloc` guarantees -/
theorem realloc_spec {x : Mpz} (hx : x.WF) (n : Nat) {junk : Nat → Nat} (hj : ∀ i, junk i < B) :
    (mpz_realloc x n junk).d.length = (mpz_realloc x n junk).alloc ∧ n ≤ (mpz_realloc x n junk).alloc ∧
    Limbs (mpz_realloc x n junk).d := by
  obtain ⟨hlen, hle, hlimbs, _⟩ := hx
  unfold mpz_realloc
  split
  · refine ⟨by simp [hlen]; omega, by simp, ?_⟩
    simp only
    refine Limbs_append.mpr ⟨hlimbs, ?_⟩
    intro y hy; rw [List.mem_map] at hy; obtain ⟨i, _, rfl⟩ := hy; exact hj i
  · exact ⟨hlen, by omega, hlimbs⟩

theorem Limbs_set {d : List Nat} (h : Limbs d) (i v : Nat) (hv : v < B) : Limbs (d.set i v) := by
  intro y hy
  rcases List.mem_or_eq_of_mem_set hy with h1 | h1
  · exact h _ h1
  · rw [h1]; exact hv

theorem overwrite_length {m data : List Nat} {off : Nat} (h : off + data.length ≤ m.length) :
    (overwrite m off data).length = m.length := by
  simp [overwrite]; omega

theorem overwrite_bytes {m data : List Nat} {off : Nat} (hm : Bytes m) (hd : Bytes data) :
    Bytes (overwrite m off data) :=
  Bytes_append.mpr ⟨Bytes_append.mpr ⟨Bytes_take hm _, hd⟩, Bytes_drop hm _⟩

/-- memory after a complete read of `c` bytes into `N = ⌈c/8⌉` limbs whose first limb was zeroed:
    the `N` limbs hold `8N - c` zero bytes followed by the data, the limbs above are untouched -/
theorem mem_full {d1 : List Nat} (hL : Limbs d1) {N c : Nat} (hN : N = (c * 8 + 63) / 64) (hc : 0 < c)
    (hA : N ≤ d1.length) {data : List Nat} (hlen : data.length = c) :
    (bytesToLimbs (overwrite (limbsToBytes (d1.set 0 0)) (8 * N - c) data)).take N
        = bytesToLimbs (List.replicate (8 * N - c) 0 ++ data) ∧
    (bytesToLimbs (overwrite (limbsToBytes (d1.set 0 0)) (8 * N - c) data)).drop N = d1.drop N := by
  have hN1 : 1 ≤ N := by omega
  have hoff : 8 * N - c < 8 := by omega
  cases d1 with
  | nil => simp at hA; omega
  | cons a t =>
    have ht : Limbs t := (Limbs_cons.mp hL).2
    have hdropL : Limbs ((a :: t).drop N) := Limbs_drop hL N
    have hm : limbsToBytes ((a :: t).set 0 0) = List.replicate 8 0 ++ limbsToBytes t := by
      simp [leBytes_zero]
    have h1 : (limbsToBytes ((a :: t).set 0 0)).take (8 * N - c) = List.replicate (8 * N - c) 0 := by
      rw [hm, List.take_append_of_le_length (by simp; omega), List.take_replicate]
      congr 1; omega
    have h2 : (limbsToBytes ((a :: t).set 0 0)).drop (8 * N - c + data.length) = limbsToBytes ((a :: t).drop N) := by
      have e : 8 * N - c + data.length = 8 * N := by omega
      rw [e, limbsToBytes_drop]
      congr 1
      obtain ⟨N', rfl⟩ : ∃ N', N = N' + 1 := ⟨N - 1, by omega⟩
      simp
    have hF : (List.replicate (8 * N - c) 0 ++ data).length = 8 * N := by simp; omega
    have hov : overwrite (limbsToBytes ((a :: t).set 0 0)) (8 * N - c) data
        = (List.replicate (8 * N - c) 0 ++ data) ++ limbsToBytes ((a :: t).drop N) := by
      unfold overwrite; rw [h1, h2]
    rw [hov, bytesToLimbs_append N _ _ hF, bytesToLimbs_limbsToBytes hdropL]
    have hl := bytesToLimbs_length N _ hF
    constructor
    · rw [List.take_append_of_le_length (by omega), List.take_of_length_le (by omega)]
    · rw [List.drop_append_of_le_length (by omega), List.drop_of_length_le (by omega)]; simp

/-- memory after any (possibly short) read: same number of limbs, all limbs -/
theorem mem_any {d1 : List Nat} {off : Nat} {data : List Nat} (hd : Bytes data)
    (h : off + data.length ≤ 8 * d1.length) :
    (bytesToLimbs (overwrite (limbsToBytes d1) off data)).length = d1.length ∧
    Limbs (bytesToLimbs (overwrite (limbsToBytes d1) off data)) := by
  have hl : (overwrite (limbsToBytes d1) off data).length = 8 * d1.length := by
    rw [overwrite_length (by simpa using h)]; simp
  exact ⟨bytesToLimbs_length _ _ hl, Limbs_bytesToLimbs _ _ hl (overwrite_bytes (limbsToBytes_bytes _) hd)⟩

/-- `mpz_inp_raw_m` on a limb array whose first `N` limbs are the memory image `m` -/
theorem inp_raw_m_spec (x : Mpz) (N : Nat) (m : List Nat) (hm : m.length = 8 * N) (hb : Bytes m)
    (hd : x.d.take N = bytesToLimbs m) (hlen : x.d.length = x.alloc) (hN : N ≤ x.alloc) (hL : Limbs x.d)
    (w ws : Nat) :
    (inp_raw_m x ⟨w, ws, N⟩).WF ∧
    (inp_raw_m x ⟨w, ws, N⟩).toInt = (if x.size ≥ 0 then (beVal m : Int) else -(beVal m : Int)) := by
  have hbl := bytesToLimbs_length N m hm
  set xp := revSwap (x.d.take N) with hxp
  have hxp' : xp = ((bytesToLimbs m).map bswap).reverse := by rw [hxp, hd]; exact revSwap_eq _ _ rfl
  have hxl : xp.length = N := by rw [hxp']; simp [hbl]
  have hxL : Limbs xp := by rw [hxp']; exact Limbs_reverse.mpr (Limbs_map_bswap _)
  have hxv : val xp = beVal m := by rw [hxp']; exact val_reverse_bswap N m hm hb
  have hns := normSize_le xp
  have hpre := normalize_prefix xp
  obtain ⟨k, hk, htop⟩ := normalize_spec xp
  have hlimbs : ∀ (s : Int), s.natAbs = normSize xp →
      (xp ++ x.d.drop N).take s.natAbs = normalize xp := by
    intro s hs; rw [hs, List.take_append_of_le_length (by omega), hpre]
  have hdl : (xp ++ x.d.drop N).length = x.alloc := by simp [hxl]; omega
  have hLd : Limbs (xp ++ x.d.drop N) := Limbs_append.mpr ⟨hxL, Limbs_drop hL _⟩
  have htopnz : normSize xp ≠ 0 → (xp ++ x.d.drop N).getD (normSize xp - 1) 0 ≠ 0 := by
    intro hne
    have h1 : (xp ++ x.d.drop N).getD (normSize xp - 1) 0 = xp.getD (normSize xp - 1) 0 := by
      simp only [List.getD_eq_getElem?_getD]; rw [List.getElem?_append_left (by omega)]
    rw [h1, ← getLastD_take_getD (by omega) (by omega), hpre]
    apply htop
    intro he; unfold normSize at hne; rw [he] at hne; exact hne rfl
  unfold inp_raw_m
  simp only [← hxp]
  by_cases hs : x.size ≥ 0
  · simp only [hs, if_true]
    refine ⟨⟨hdl, ?_, hLd, ?_⟩, ?_⟩
    · simp [Mpz.abssize]; omega
    · intro hne; simp only [Mpz.abssize, Int.natAbs_natCast]; exact htopnz (by simpa using hne)
    · have : ¬ ((normSize xp : Int) < 0) := by omega
      simp only [Mpz.toInt, this, if_false, Mpz.limbs, Mpz.abssize]
      rw [hlimbs _ (by simp), val_normalize, hxv]
  · simp only [hs, if_false]
    refine ⟨⟨hdl, ?_, hLd, ?_⟩, ?_⟩
    · simp [Mpz.abssize]; omega
    · intro hne; simp only [Mpz.abssize, Int.natAbs_neg, Int.natAbs_natCast]; exact htopnz (by simpa using hne)
    · simp only [Mpz.toInt, Mpz.limbs, Mpz.abssize]
      rw [hlimbs _ (by simp), val_normalize, hxv]
      by_cases h0 : normSize xp = 0
      · have : val (normalize xp) = 0 := by
          unfold normSize at h0; rw [List.eq_nil_of_length_eq_zero h0]; rfl
        rw [val_normalize, hxv] at this
        simp [h0, this]
      · have : (-(normSize xp : Int) < 0) := by omega
        simp [h0]

/-- limbs announced by a header -/
def rawN (h : List Nat) : Nat := ((csizeOf h).natAbs * 8 + 63) / 64
/-- the size field set from the header before the data is read -/
def rawSgn (h : List Nat) : Int := if csizeOf h ≥ 0 then (rawN h : Int) else -(rawN h : Int)
/-- the limb array after `data` has been stored into the reallocated destination -/
def rawMem (x : Mpz) (h : List Nat) (junk : Nat → Nat) (data : List Nat) : List Nat :=
  bytesToLimbs (overwrite (limbsToBytes ((mpz_realloc x (rawN h) junk).d.set 0 0))
    (8 * rawN h - (csizeOf h).natAbs) data)

theorem inp_raw_p_zero (x : Mpz) (h : List Nat) (junk : Nat → Nat) (hc : (csizeOf h).natAbs = 0) :
    inp_raw_p x h junk = ({ x with size := 0 }, ⟨0, 0, 0⟩) := by
  have : csizeOf h = 0 := by omega
  simp [inp_raw_p, this]

theorem inp_raw_p_pos (x : Mpz) (h : List Nat) (junk : Nat → Nat) (hc : (csizeOf h).natAbs ≠ 0) :
    inp_raw_p x h junk =
      (⟨(mpz_realloc x (rawN h) junk).alloc, rawSgn h, (mpz_realloc x (rawN h) junk).d.set 0 0⟩,
       ⟨8 * rawN h - (csizeOf h).natAbs, (csizeOf h).natAbs, rawN h⟩) := by
  have hN : ((csizeOf h).natAbs * 8 + 63) / 64 ≠ 0 := by omega
  simp [inp_raw_p, hN, rawN, rawSgn]

theorem inp_raw_rd_short_hdr (fixed : Bool) (x : Mpz) (r : List Nat) (junk : Nat → Nat) (h : r.length < 4) :
    inp_raw_rd fixed x r junk = (0, x, []) := by
  simp [inp_raw_rd, fread_short h]

theorem inp_raw_rd_zero (fixed : Bool) (x : Mpz) (r : List Nat) (junk : Nat → Nat) (h4 : 4 ≤ r.length)
    (hc : (csizeOf (r.take 4)).natAbs = 0) :
    inp_raw_rd fixed x r junk = (4, { x with size := 0 }, r.drop 4) := by
  simp [inp_raw_rd, fread_ok h4, inp_raw_p_zero x _ junk hc]

theorem inp_raw_rd_full (fixed : Bool) (x : Mpz) (r : List Nat) (junk : Nat → Nat) (h4 : 4 ≤ r.length)
    (hc : (csizeOf (r.take 4)).natAbs ≠ 0) (hfull : 4 + (csizeOf (r.take 4)).natAbs ≤ r.length) :
    inp_raw_rd fixed x r junk =
      ((csizeOf (r.take 4)).natAbs + 4,
       inp_raw_m ⟨(mpz_realloc x (rawN (r.take 4)) junk).alloc, rawSgn (r.take 4),
                  rawMem x (r.take 4) junk ((r.drop 4).take (csizeOf (r.take 4)).natAbs)⟩
         ⟨8 * rawN (r.take 4) - (csizeOf (r.take 4)).natAbs, (csizeOf (r.take 4)).natAbs, rawN (r.take 4)⟩,
       (r.drop 4).drop (csizeOf (r.take 4)).natAbs) := by
  have hfr : fread (r.drop 4) (csizeOf (r.take 4)).natAbs =
      (true, (r.drop 4).take (csizeOf (r.take 4)).natAbs, (r.drop 4).drop (csizeOf (r.take 4)).natAbs) :=
    fread_ok (by simp; omega)
  simp [inp_raw_rd, fread_ok h4, inp_raw_p_pos x _ junk hc, hc, hfr, rawMem]

theorem inp_raw_rd_short_data (fixed : Bool) (x : Mpz) (r : List Nat) (junk : Nat → Nat) (h4 : 4 ≤ r.length)
    (hc : (csizeOf (r.take 4)).natAbs ≠ 0) (hshort : ¬ 4 + (csizeOf (r.take 4)).natAbs ≤ r.length) :
    inp_raw_rd fixed x r junk =
      (0, ⟨(mpz_realloc x (rawN (r.take 4)) junk).alloc, if fixed then 0 else rawSgn (r.take 4),
           rawMem x (r.take 4) junk (r.drop 4)⟩, []) := by
  have hfr : fread (r.drop 4) (csizeOf (r.take 4)).natAbs = (false, r.drop 4, []) :=
    fread_short (by simp; omega)
  cases fixed <;> simp [inp_raw_rd, fread_ok h4, inp_raw_p_pos x _ junk hc, hc, hfr, rawMem]

/-- full functional description of `mpz_inp_raw` (repaired code) on an arbitrary byte stream -/
theorem inp_raw_rd_spec (x : Mpz) (hx : x.WF) (r : List Nat) (hr : Bytes r) (junk : Nat → Nat)
    (hj : ∀ i, junk i < B) :
    (inp_raw_rd true x r junk).2.1.WF ∧
    (if 4 ≤ r.length ∧ 4 + (csizeOf (r.take 4)).natAbs ≤ r.length then
       (inp_raw_rd true x r junk).1 = (csizeOf (r.take 4)).natAbs + 4 ∧
       (inp_raw_rd true x r junk).2.2 = r.drop (4 + (csizeOf (r.take 4)).natAbs) ∧
       (inp_raw_rd true x r junk).2.1.toInt =
         (if csizeOf (r.take 4) ≥ 0 then (beVal ((r.drop 4).take (csizeOf (r.take 4)).natAbs) : Int)
          else -(beVal ((r.drop 4).take (csizeOf (r.take 4)).natAbs) : Int))
     else (inp_raw_rd true x r junk).1 = 0 ∧ (inp_raw_rd true x r junk).2.2 = []) := by
  by_cases h4 : 4 ≤ r.length
  · by_cases hc0 : (csizeOf (r.take 4)).natAbs = 0
    · -- zero size: nothing more is read
      rw [inp_raw_rd_zero true x r junk h4 hc0]
      obtain ⟨h1, h2, h3, _⟩ := hx
      refine ⟨⟨h1, by simp [Mpz.abssize], h3, by simp⟩, ?_⟩
      have : csizeOf (r.take 4) = 0 := by omega
      simp [h4, this, Mpz.toInt, Mpz.limbs, Mpz.abssize, beVal]
    · obtain ⟨ra, rn, rl⟩ := realloc_spec hx (rawN (r.take 4)) hj
      have hNdef : rawN (r.take 4) = ((csizeOf (r.take 4)).natAbs * 8 + 63) / 64 := rfl
      generalize hc : (csizeOf (r.take 4)).natAbs = c at *
      generalize hN : rawN (r.take 4) = N at *
      have hN1 : 1 ≤ N := by omega
      have hsetlen : ((mpz_realloc x N junk).d.set 0 0).length = (mpz_realloc x N junk).alloc := by simp [ra]
      by_cases hfull : 4 + c ≤ r.length
      · -- all data present
        have e := inp_raw_rd_full true x r junk h4 (by rw [hc]; exact hc0) (by rw [hc]; exact hfull)
        rw [hc, hN] at e
        rw [e]
        have hdl : ((r.drop 4).take c).length = c := by simp; omega
        have hdb : Bytes ((r.drop 4).take c) := Bytes_take (Bytes_drop hr 4) c
        obtain ⟨mt, md⟩ := mem_full rl hNdef (by omega) (by omega) hdl
        have hany := mem_any (d1 := (mpz_realloc x N junk).d.set 0 0) (off := 8 * N - c) hdb (by simp; omega)
        have hmem : rawMem x (r.take 4) junk ((r.drop 4).take c)
            = bytesToLimbs (overwrite (limbsToBytes ((mpz_realloc x N junk).d.set 0 0)) (8 * N - c) ((r.drop 4).take c)) := by
          unfold rawMem; rw [hN, hc]
        have hm : (List.replicate (8 * N - c) 0 ++ (r.drop 4).take c).length = 8 * N := by simp; omega
        have hmb : Bytes (List.replicate (8 * N - c) 0 ++ (r.drop 4).take c) :=
          Bytes_append.mpr ⟨Bytes_replicate_zero _, hdb⟩
        obtain ⟨wf, ti⟩ := inp_raw_m_spec
          ⟨(mpz_realloc x N junk).alloc, rawSgn (r.take 4), rawMem x (r.take 4) junk ((r.drop 4).take c)⟩ N _
          hm hmb (by rw [hmem]; exact mt) (by rw [hmem]; simp [hany.1, hsetlen]) (by simpa using rn)
          (by rw [hmem]; exact hany.2) (8 * N - c) c
        refine ⟨wf, ?_⟩
        rw [if_pos ⟨h4, hfull⟩]
        refine ⟨rfl, by simp [List.drop_drop], ?_⟩
        simp only at ti ⊢
        rw [ti, beVal_append, beVal_replicate_zero]
        have hsg : (rawSgn (r.take 4) ≥ 0) ↔ csizeOf (r.take 4) ≥ 0 := by
          unfold rawSgn; split <;> omega
        simp only [hsg]
        simp
      · -- short read of the limb data
        have e := inp_raw_rd_short_data true x r junk h4 (by rw [hc]; exact hc0) (by rw [hc]; exact hfull)
        rw [hN] at e
        rw [e]
        have hdb : Bytes (r.drop 4) := Bytes_drop hr 4
        have hany := mem_any (d1 := (mpz_realloc x N junk).d.set 0 0) (off := 8 * N - c) hdb (by simp; omega)
        have hmem : rawMem x (r.take 4) junk (r.drop 4)
            = bytesToLimbs (overwrite (limbsToBytes ((mpz_realloc x N junk).d.set 0 0)) (8 * N - c) (r.drop 4)) := by
          unfold rawMem; rw [hN, hc]
        refine ⟨⟨by rw [hmem]; simp [hany.1, hsetlen], by simp [Mpz.abssize], by rw [hmem]; exact hany.2, by simp⟩, ?_⟩
        rw [if_neg (by omega)]
        exact ⟨rfl, rfl⟩
  · -- short read of the header: destination untouched
    rw [inp_raw_rd_short_hdr true x r junk (by omega)]
    refine ⟨hx, ?_⟩
    rw [if_neg (by omega)]
    exact ⟨rfl, rfl⟩


/-! ### header and stream facts used by the property theorems -/

theorem outRawBytes_bytes (v : Int) : Bytes (outRawBytes v) :=
  Bytes_append.mpr ⟨beBytes_bytes _ _, beBytes_bytes _ _⟩

theorem csizeOf_hdrBytes (s : Int) (h1 : -2147483648 ≤ s) (h2 : s < 2147483648) : csizeOf (hdrBytes s) = s := by
  unfold hdrBytes csizeOf
  generalize hm : (s % 4294967296).toNat = m
  have hm4 : m < 4294967296 := by omega
  simp only [beBytes, leBytes, List.reverse_cons, List.reverse_nil, List.nil_append, List.cons_append,
    List.getD_cons_zero, List.getD_cons_succ]
  have hc : ((m / 256 / 256 / 256 % 256 * 256 + m / 256 / 256 % 256) * 256 + m / 256 % 256) * 256 + m % 256 = m := by
    omega
  rw [hc]
  split <;> omega

/-- the leading byte of the minimal big-endian image is not zero -/
theorem beBytes_head_ne_zero {v : Nat} (hv : v ≠ 0) : (beBytes (byteLen v) v).headD 0 ≠ 0 := by
  have hbl : 0 < byteLen v := by unfold byteLen; have := bitLen_pos hv; omega
  obtain ⟨n, hn⟩ : ∃ n, byteLen v = n + 1 := ⟨byteLen v - 1, by omega⟩
  rw [hn]
  have : beBytes (n + 1) v = (v / 256 ^ n % 256) :: beBytes n v := by
    unfold beBytes; rw [leBytes_add n 1 v]; simp [leBytes]
  rw [this]; simp only [List.headD_cons]
  -- 256^n ≤ v < 256^(n+1)
  have hlt := lt_pow_byteLen v
  rw [hn] at hlt
  have hge : 256 ^ n ≤ v := by
    have h2 := two_pow_le_of_bitLen hv
    have : 8 * n ≤ bitLen v - 1 := by unfold byteLen at hn; omega
    calc 256 ^ n = 2 ^ (8 * n) := by rw [show (256 : Nat) = 2 ^ 8 by norm_num, ← pow_mul]
      _ ≤ 2 ^ (bitLen v - 1) := Nat.pow_le_pow_right (by decide) this
      _ ≤ v := h2
  have hq : 0 < v / 256 ^ n := Nat.div_pos hge (pow_pos (by decide) n)
  have hq2 : v / 256 ^ n < 256 := by
    rw [Nat.div_lt_iff_lt_mul (pow_pos (by decide) n)]; rw [pow_succ] at hlt; linarith
  rw [Nat.mod_eq_of_lt hq2]; omega

/-- the stream `outRawBytes v ++ rest` seen through the header decoder -/
theorem outRaw_parts (v : Int) (hv : byteLen v.natAbs < 2 ^ 31) (rest : List Nat) :
    csizeOf ((outRawBytes v ++ rest).take 4) = (if v < 0 then -(byteLen v.natAbs : Int) else byteLen v.natAbs) ∧
    (if (if v < 0 then -(byteLen v.natAbs : Int) else (byteLen v.natAbs : Int)) ≥ 0 then
        (beVal (((outRawBytes v ++ rest).drop 4).take
          (if v < 0 then -(byteLen v.natAbs : Int) else (byteLen v.natAbs : Int)).natAbs) : Int)
      else -(beVal (((outRawBytes v ++ rest).drop 4).take
          (if v < 0 then -(byteLen v.natAbs : Int) else (byteLen v.natAbs : Int)).natAbs) : Int)) = v ∧
    (outRawBytes v ++ rest).drop (4 + (if v < 0 then -(byteLen v.natAbs : Int) else (byteLen v.natAbs : Int)).natAbs) = rest ∧
    (if v < 0 then -(byteLen v.natAbs : Int) else (byteLen v.natAbs : Int)).natAbs = byteLen v.natAbs := by
  set n := byteLen v.natAbs with hn
  have hna : (if v < 0 then -(n : Int) else (n : Int)).natAbs = n := by split <;> omega
  have hh : (hdrBytes (if v < 0 then -(n : Int) else (n : Int))).length = 4 := by simp [hdrBytes]
  have hd : (beBytes n v.natAbs).length = n := by simp
  have e : outRawBytes v ++ rest = hdrBytes (if v < 0 then -(n : Int) else (n : Int)) ++ (beBytes n v.natAbs ++ rest) := by
    simp [outRawBytes, ← hn]
  have ht : (outRawBytes v ++ rest).take 4 = hdrBytes (if v < 0 then -(n : Int) else (n : Int)) := by
    rw [e, List.take_append_of_le_length (by omega), List.take_of_length_le (by omega)]
  have hdrop : (outRawBytes v ++ rest).drop 4 = beBytes n v.natAbs ++ rest := by
    rw [e, List.drop_append_of_le_length (by omega), List.drop_of_length_le (by omega)]; simp
  have hdata : ((outRawBytes v ++ rest).drop 4).take n = beBytes n v.natAbs := by
    rw [hdrop, List.take_append_of_le_length (by omega), List.take_of_length_le (by omega)]
  have hval : beVal (beBytes n v.natAbs) = v.natAbs := by
    rw [beVal_beBytes]; exact Nat.mod_eq_of_lt (lt_pow_byteLen _)
  have hn31 : n < 2147483648 := by simpa using hv
  refine ⟨?_, ?_, ?_, hna⟩
  · rw [ht]; apply csizeOf_hdrBytes <;> split <;> omega
  · rw [hna, hdata, hval]
    by_cases hneg : v < 0
    · simp only [hneg, if_true]
      have hnz : n ≠ 0 := by
        intro h0
        have : v.natAbs = 0 := by
          have := lt_pow_byteLen v.natAbs; rw [← hn, h0] at this; simpa using this
        omega
      have : ¬ (-(n : Int) ≥ 0) := by omega
      simp only [this, if_false]; omega
    · simp only [hneg, if_false]
      have : ((n : Int) ≥ 0) := by omega
      simp only [this, if_true]; omega
  · rw [hna, e, ← List.append_assoc, List.drop_append_of_le_length (by simp [hh]), List.drop_of_length_le (by simp [hh])]
    simp

end Mpir.Io
