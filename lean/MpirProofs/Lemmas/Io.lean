/- Helper lemmas for the I/O models (Mpir/Model/Io.lean). -/
import MpirProofs.Lemmas.Base
import Mpir.Model.Io
import Mathlib.Tactic.Ring
import Mathlib.Tactic.Linarith
namespace Mpir.Io
open Mpir

/-! ### bytes -/

theorem Bytes_nil : Bytes [] := by intro b hb; cases hb
theorem Bytes_cons {b : Nat} {l : List Nat} : Bytes (b :: l) ↔ b < 256 ∧ Bytes l := by
  unfold Bytes; simp
theorem Bytes_append {a b : List Nat} : Bytes (a ++ b) ↔ Bytes a ∧ Bytes b := by
  unfold Bytes; simp only [List.mem_append]
  constructor
  · intro h; exact ⟨fun x hx => h x (Or.inl hx), fun x hx => h x (Or.inr hx)⟩
  · rintro ⟨h1, h2⟩ x (hx | hx); exact h1 x hx; exact h2 x hx
theorem Bytes_reverse {a : List Nat} : Bytes a.reverse ↔ Bytes a := by unfold Bytes; simp
theorem Bytes_take {l : List Nat} (h : Bytes l) (n : Nat) : Bytes (l.take n) :=
  fun x hx => h x (List.mem_of_mem_take hx)
theorem Bytes_drop {l : List Nat} (h : Bytes l) (n : Nat) : Bytes (l.drop n) :=
  fun x hx => h x (List.mem_of_mem_drop hx)
theorem Bytes_replicate_zero (n : Nat) : Bytes (List.replicate n 0) := by
  intro b hb; rw [List.mem_replicate] at hb; omega

@[simp] theorem leBytes_length (n v : Nat) : (leBytes n v).length = n := by
  induction n generalizing v with
  | zero => rfl
  | succ n ih => simp [leBytes, ih]

theorem leBytes_bytes (n v : Nat) : Bytes (leBytes n v) := by
  induction n generalizing v with
  | zero => exact Bytes_nil
  | succ n ih => exact Bytes_cons.mpr ⟨Nat.mod_lt _ (by decide), ih _⟩

@[simp] theorem beBytes_length (n v : Nat) : (beBytes n v).length = n := by simp [beBytes]
theorem beBytes_bytes (n v : Nat) : Bytes (beBytes n v) := Bytes_reverse.mpr (leBytes_bytes n v)

@[simp] theorem leVal_nil : leVal [] = 0 := rfl
@[simp] theorem leVal_cons (b : Nat) (l : List Nat) : leVal (b :: l) = b + 256 * leVal l := rfl

theorem leVal_append (a b : List Nat) : leVal (a ++ b) = leVal a + 256 ^ a.length * leVal b := by
  induction a with
  | nil => simp
  | cons x xs ih => simp only [List.cons_append, leVal_cons, ih, List.length_cons, pow_succ]; ring

theorem leVal_lt {l : List Nat} (h : Bytes l) : leVal l < 256 ^ l.length := by
  induction l with
  | nil => simp
  | cons x xs ih =>
    have ⟨hx, hxs⟩ := Bytes_cons.mp h
    have := ih hxs
    simp only [leVal_cons, List.length_cons, pow_succ]
    omega

theorem leVal_leBytes (n v : Nat) : leVal (leBytes n v) = v % 256 ^ n := by
  induction n generalizing v with
  | zero => simp [leBytes, Nat.mod_one]
  | succ n ih =>
    simp only [leBytes, leVal_cons, ih, pow_succ]
    rw [Nat.mul_comm (256 ^ n) 256, Nat.mod_mul]

theorem leBytes_leVal {l : List Nat} (h : Bytes l) : leBytes l.length (leVal l) = l := by
  induction l with
  | nil => rfl
  | cons x xs ih =>
    have ⟨hx, hxs⟩ := Bytes_cons.mp h
    simp only [List.length_cons, leBytes, leVal_cons]
    have h1 : (x + 256 * leVal xs) % 256 = x := by omega
    have h2 : (x + 256 * leVal xs) / 256 = leVal xs := by omega
    rw [h1, h2, ih hxs]

theorem leBytes_add (n m v : Nat) : leBytes (n + m) v = leBytes n v ++ leBytes m (v / 256 ^ n) := by
  induction n generalizing v with
  | zero => simp [leBytes]
  | succ n ih =>
    rw [Nat.succ_add]
    simp only [leBytes, List.cons_append, ih, pow_succ]
    rw [Nat.div_div_eq_div_mul, Nat.mul_comm 256]

theorem leBytes_zero (n : Nat) : leBytes n 0 = List.replicate n 0 := by
  induction n with
  | zero => rfl
  | succ n ih => simp [leBytes, ih, List.replicate_succ]

theorem leBytes_of_lt {n v : Nat} (m : Nat) (h : v < 256 ^ n) :
    leBytes (n + m) v = leBytes n v ++ List.replicate m 0 := by
  rw [leBytes_add, Nat.div_eq_of_lt h, leBytes_zero]

theorem leVal_replicate_zero (n : Nat) : leVal (List.replicate n 0) = 0 := by
  induction n with
  | zero => rfl
  | succ n ih => simp [List.replicate_succ, ih]

theorem beVal_append (a b : List Nat) : beVal (a ++ b) = beVal a * 256 ^ b.length + beVal b := by
  simp only [beVal, List.reverse_append, leVal_append, List.length_reverse]; ring

theorem beVal_replicate_zero (n : Nat) : beVal (List.replicate n 0) = 0 := by
  simp [beVal, leVal_replicate_zero]

theorem beVal_beBytes (n v : Nat) : beVal (beBytes n v) = v % 256 ^ n := by
  simp [beVal, beBytes, leVal_leBytes]

theorem beVal_lt {l : List Nat} (h : Bytes l) : beVal l < 256 ^ l.length := by
  have := leVal_lt (Bytes_reverse.mpr h); simpa [beVal] using this

theorem beBytes_of_lt {n v : Nat} (m : Nat) (h : v < 256 ^ n) :
    beBytes (n + m) v = List.replicate m 0 ++ beBytes n v := by
  simp [beBytes, leBytes_of_lt m h]

/-! ### bit length -/

theorem bitLen_zero : bitLen 0 = 0 := by simp [bitLen]

theorem lt_two_pow_bitLen (v : Nat) : v < 2 ^ bitLen v := by
  unfold bitLen; split
  · subst_vars; simp
  · exact Nat.lt_log2_self

theorem two_pow_le_of_bitLen {v : Nat} (h : v ≠ 0) : 2 ^ (bitLen v - 1) ≤ v := by
  unfold bitLen; simp only [h, if_false, Nat.add_sub_cancel]; exact Nat.log2_self_le h

theorem bitLen_pos {v : Nat} (h : v ≠ 0) : 0 < bitLen v := by unfold bitLen; simp [h]

/-- characterisation: `2^k ≤ v < 2^(k+1)` gives `bitLen v = k+1` -/
theorem bitLen_eq {v k : Nat} (h1 : 2 ^ k ≤ v) (h2 : v < 2 ^ (k + 1)) : bitLen v = k + 1 := by
  have hv : v ≠ 0 := by have := Nat.two_pow_pos k; omega
  unfold bitLen; simp only [hv, if_false]
  congr 1
  have a : v.log2 < k + 1 := (Nat.log2_lt hv).mpr h2
  have b : ¬ v.log2 < k := by
    intro hlt; have := (Nat.log2_lt hv).mp hlt; omega
  omega

theorem bitLen_le_iff {v k : Nat} : bitLen v ≤ k ↔ v < 2 ^ k := by
  by_cases hv : v = 0
  · subst hv; simp [bitLen_zero]
  · unfold bitLen; simp only [hv, if_false]
    rw [← Nat.log2_lt hv]; omega

theorem lt_pow_byteLen (v : Nat) : v < 256 ^ byteLen v := by
  have h := lt_two_pow_bitLen v
  have : (256 : Nat) ^ byteLen v = 2 ^ (8 * byteLen v) := by
    rw [show (256 : Nat) = 2 ^ 8 by norm_num, ← pow_mul]
  rw [this]
  refine lt_of_lt_of_le h (Nat.pow_le_pow_right (by decide) ?_)
  unfold byteLen; omega

theorem byteLen_zero : byteLen 0 = 0 := by simp [byteLen, bitLen_zero]

/-! ### limb memory images -/

theorem B_eq_256 : B = 256 ^ 8 := by unfold B; norm_num
theorem B_eq_2 : B = 2 ^ 64 := rfl

@[simp] theorem limbsToBytes_nil : limbsToBytes [] = [] := rfl
@[simp] theorem limbsToBytes_cons (x : Nat) (xs : List Nat) :
    limbsToBytes (x :: xs) = leBytes 8 x ++ limbsToBytes xs := by simp [limbsToBytes]
theorem limbsToBytes_append (a b : List Nat) : limbsToBytes (a ++ b) = limbsToBytes a ++ limbsToBytes b := by
  simp [limbsToBytes]
@[simp] theorem limbsToBytes_length (d : List Nat) : (limbsToBytes d).length = 8 * d.length := by
  induction d with
  | nil => rfl
  | cons x xs ih => simp [ih]; omega
theorem limbsToBytes_bytes (d : List Nat) : Bytes (limbsToBytes d) := by
  induction d with
  | nil => exact Bytes_nil
  | cons x xs ih => rw [limbsToBytes_cons]; exact Bytes_append.mpr ⟨leBytes_bytes _ _, ih⟩

theorem bytesToLimbs_append8 {a : List Nat} (ha : a.length = 8) (b : List Nat) :
    bytesToLimbs (a ++ b) = leVal a :: bytesToLimbs b := by
  match a, ha with
  | [b0, b1, b2, b3, b4, b5, b6, b7], _ => simp [bytesToLimbs]

theorem bytesToLimbs_nil : bytesToLimbs [] = [] := by simp [bytesToLimbs]

theorem bytesToLimbs_limbsToBytes {d : List Nat} (h : Limbs d) : bytesToLimbs (limbsToBytes d) = d := by
  induction d with
  | nil => simp [bytesToLimbs_nil]
  | cons x xs ih =>
    have ⟨hx, hxs⟩ := Limbs_cons.mp h
    rw [limbsToBytes_cons, bytesToLimbs_append8 (by simp), ih hxs, leVal_leBytes, ← B_eq_256, Nat.mod_eq_of_lt hx]

/-- a byte string of `8k` bytes splits as `k` groups of 8 -/
theorem bytesToLimbs_append (k : Nat) : ∀ (a b : List Nat), a.length = 8 * k →
    bytesToLimbs (a ++ b) = bytesToLimbs a ++ bytesToLimbs b := by
  induction k with
  | zero => intro a b ha; have : a = [] := List.eq_nil_of_length_eq_zero (by omega); subst this; simp [bytesToLimbs_nil]
  | succ k ih =>
    intro a b ha
    have h8 : (a.take 8).length = 8 := by simp; omega
    have hd : (a.drop 8).length = 8 * k := by simp; omega
    rw [← List.take_append_drop 8 a, List.append_assoc, bytesToLimbs_append8 h8, bytesToLimbs_append8 h8,
      ih _ _ hd, List.cons_append]

theorem bytesToLimbs_length (k : Nat) : ∀ (a : List Nat), a.length = 8 * k → (bytesToLimbs a).length = k := by
  induction k with
  | zero => intro a ha; have : a = [] := List.eq_nil_of_length_eq_zero (by omega); subst this; simp [bytesToLimbs_nil]
  | succ k ih =>
    intro a ha
    have h8 : (a.take 8).length = 8 := by simp; omega
    have hd : (a.drop 8).length = 8 * k := by simp; omega
    rw [← List.take_append_drop 8 a, bytesToLimbs_append8 h8, List.length_cons, ih _ hd]

theorem Limbs_bytesToLimbs (k : Nat) : ∀ (a : List Nat), a.length = 8 * k → Bytes a → Limbs (bytesToLimbs a) := by
  induction k with
  | zero => intro a ha _; have : a = [] := List.eq_nil_of_length_eq_zero (by omega); subst this; simp [bytesToLimbs_nil, Limbs_nil]
  | succ k ih =>
    intro a ha hb
    have h8 : (a.take 8).length = 8 := by simp; omega
    have hd : (a.drop 8).length = 8 * k := by simp; omega
    rw [← List.take_append_drop 8 a, bytesToLimbs_append8 h8]
    refine Limbs_cons.mpr ⟨?_, ih _ hd (Bytes_drop hb 8)⟩
    have := leVal_lt (Bytes_take hb 8); rw [h8] at this; rw [B_eq_256]; exact this

theorem bswap_leVal {a : List Nat} (ha : a.length = 8) (hb : Bytes a) : bswap (leVal a) = beVal a := by
  unfold bswap; rw [← ha, leBytes_leVal hb]

theorem val_snoc (l : List Nat) (t : Nat) : val (l ++ [t]) = val l + B ^ l.length * t := by
  rw [val_append]; simp

/-- reversing the limb order and byte-swapping every limb of a memory image reads it big-endian -/
theorem val_reverse_bswap (k : Nat) : ∀ (m : List Nat), m.length = 8 * k → Bytes m →
    val ((bytesToLimbs m).map bswap).reverse = beVal m := by
  induction k with
  | zero => intro m hm _; have : m = [] := List.eq_nil_of_length_eq_zero (by omega); subst this; simp [bytesToLimbs_nil, beVal]
  | succ k ih =>
    intro m hm hb
    have h8 : (m.take 8).length = 8 := by simp; omega
    have hd : (m.drop 8).length = 8 * k := by simp; omega
    have hl := bytesToLimbs_length k _ hd
    conv_lhs => rw [← List.take_append_drop 8 m, bytesToLimbs_append8 h8]
    rw [List.map_cons, List.reverse_cons, val_snoc, ih _ hd (Bytes_drop hb 8),
      bswap_leVal h8 (Bytes_take hb 8), List.length_reverse, List.length_map, hl]
    conv_rhs => rw [← List.take_append_drop 8 m, beVal_append, hd]
    rw [B_eq_256, ← pow_mul]; ring

theorem revSwap_eq : ∀ (n : Nat) (l : List Nat), l.length = n → revSwap l = (l.map bswap).reverse := by
  intro n
  induction n using Nat.strong_induction_on with
  | _ n ih =>
    intro l hl
    match l, hl with
    | [], _ => simp [revSwap]
    | [x], _ => simp [revSwap]
    | x :: y :: r, hl =>
      rw [revSwap]
      have hne : (y :: r) ≠ [] := by simp
      have hlen : ((y :: r).dropLast).length < n := by simp at hl ⊢; omega
      rw [ih _ hlen _ rfl]
      conv_rhs => rw [List.map_cons, List.reverse_cons, ← List.dropLast_concat_getLast hne, List.map_append,
        List.reverse_append]
      simp

theorem Limbs_map_bswap (l : List Nat) : Limbs (l.map bswap) := by
  intro x hx
  rw [List.mem_map] at hx
  obtain ⟨y, _, rfl⟩ := hx
  unfold bswap
  have := beVal_lt (Bytes_reverse.mpr (leBytes_bytes 8 y))
  have h2 := beVal_lt (leBytes_bytes 8 y)
  simp at h2; rw [B_eq_256]; exact h2

theorem Limbs_reverse {l : List Nat} : Limbs l.reverse ↔ Limbs l := by unfold Limbs; simp

/-! ### normalisation -/

/-- non-empty lists end in a non-zero limb -/
def TopNZ (l : List Nat) : Prop := l ≠ [] → l.getLastD 0 ≠ 0

theorem normalize_nil : normalize [] = [] := rfl

theorem dropWhile_zero_spec (r : List Nat) :
    ∃ k, r = List.replicate k 0 ++ r.dropWhile (· == 0) ∧ (r.dropWhile (· == 0)).headD 1 ≠ 0 := by
  induction r with
  | nil => exact ⟨0, by simp, by simp⟩
  | cons x xs ih =>
    by_cases hx : x = 0
    · subst hx
      obtain ⟨k, hk, hh⟩ := ih
      refine ⟨k + 1, ?_, ?_⟩
      · simp only [List.dropWhile_cons, beq_self_eq_true, if_true, List.replicate_succ, List.cons_append]
        rw [← hk]
      · simpa [List.dropWhile_cons] using hh
    · refine ⟨0, by simp [hx], by simp [hx]⟩

/-- `normalize l` is `l` without its high zero limbs -/
theorem normalize_spec (l : List Nat) :
    ∃ k, l = normalize l ++ List.replicate k 0 ∧ TopNZ (normalize l) := by
  obtain ⟨k, hk, hh⟩ := dropWhile_zero_spec l.reverse
  refine ⟨k, ?_, ?_⟩
  · have := congrArg List.reverse hk
    rw [List.reverse_reverse, List.reverse_append, List.reverse_replicate] at this
    exact this
  · intro hne
    unfold normalize at hne ⊢
    cases hd : l.reverse.dropWhile (· == 0) with
    | nil => rw [hd] at hne; simp at hne
    | cons a as =>
      rw [hd] at hh
      simp only [List.reverse_cons, List.getLastD_concat]
      simpa using hh

theorem val_replicate_zero (k : Nat) : val (List.replicate k 0) = 0 := by
  induction k with
  | zero => rfl
  | succ k ih => simp [List.replicate_succ, ih]

theorem val_normalize (l : List Nat) : val (normalize l) = val l := by
  obtain ⟨k, hk, _⟩ := normalize_spec l
  conv_rhs => rw [hk, val_append, val_replicate_zero]
  omega

theorem normalize_prefix (l : List Nat) : l.take (normSize l) = normalize l := by
  obtain ⟨k, hk, _⟩ := normalize_spec l
  unfold normSize
  generalize normalize l = n at hk ⊢
  subst hk; simp

theorem normSize_le (l : List Nat) : normSize l ≤ l.length := by
  obtain ⟨k, hk, _⟩ := normalize_spec l
  unfold normSize
  have := congrArg List.length hk
  simp at this; omega

theorem Limbs_normalize {l : List Nat} (h : Limbs l) : Limbs (normalize l) := by
  rw [← normalize_prefix]; exact Limbs_take h _

/-! ### natLimbs -/

theorem natLimbs_zero : natLimbs 0 = [] := by rw [natLimbs]; simp
theorem natLimbs_pos {v : Nat} (h : v ≠ 0) : natLimbs v = v % B :: natLimbs (v / B) := by
  rw [natLimbs]; simp [h]

theorem natLimbs_spec (v : Nat) : val (natLimbs v) = v ∧ Limbs (natLimbs v) ∧ TopNZ (natLimbs v) := by
  induction v using Nat.strong_induction_on with
  | _ v ih =>
    by_cases hv : v = 0
    · subst hv; rw [natLimbs_zero]; exact ⟨rfl, Limbs_nil, fun h => absurd rfl h⟩
    · have hlt : v / B < v := Nat.div_lt_self (Nat.pos_of_ne_zero hv) (by unfold B; norm_num)
      obtain ⟨h1, h2, h3⟩ := ih _ hlt
      rw [natLimbs_pos hv]
      refine ⟨?_, Limbs_cons.mpr ⟨Nat.mod_lt _ B_pos, h2⟩, ?_⟩
      · rw [val_cons, h1]; exact Nat.mod_add_div v B
      · intro _
        by_cases hq : v / B = 0
        · rw [hq, natLimbs_zero]; simp
          have : v < B := by
            rcases Nat.lt_or_ge v B with h | h
            · exact h
            · have := Nat.div_pos h B_pos; omega
          rw [Nat.mod_eq_of_lt this]; exact hv
        · have hne : natLimbs (v / B) ≠ [] := by rw [natLimbs_pos hq]; simp
          have := h3 hne
          rw [List.getLastD_cons]
          cases hnl : natLimbs (v / B) with
          | nil => exact absurd hnl hne
          | cons a as => rw [hnl, List.getLastD_cons] at this; rw [List.getLastD_cons]; exact this

theorem natLimbs_eq_nil {v : Nat} : natLimbs v = [] ↔ v = 0 := by
  constructor
  · intro h; have := (natLimbs_spec v).1; rw [h] at this; exact this.symm
  · intro h; subst h; exact natLimbs_zero

/-- bit length of a normalised limb vector -/
theorem bitLen_val_snoc {l : List Nat} {t : Nat} (hl : Limbs l) (ht : t ≠ 0) :
    bitLen (val (l ++ [t])) = 64 * l.length + bitLen t := by
  rw [val_snoc]
  have h1 := val_lt l hl
  have h2 := lt_two_pow_bitLen t
  have h3 := two_pow_le_of_bitLen ht
  have hp := bitLen_pos ht
  have hB : B ^ l.length = 2 ^ (64 * l.length) := by rw [B_eq_2, ← pow_mul]
  rw [hB] at h1 ⊢
  have e : 64 * l.length + bitLen t = (64 * l.length + (bitLen t - 1)) + 1 := by omega
  rw [e]
  apply bitLen_eq
  · rw [pow_add]
    calc 2 ^ (64 * l.length) * 2 ^ (bitLen t - 1) ≤ 2 ^ (64 * l.length) * t := Nat.mul_le_mul_left _ h3
      _ ≤ _ := Nat.le_add_left _ _
  · have : 64 * l.length + (bitLen t - 1) + 1 = 64 * l.length + bitLen t := by omega
    rw [this, pow_add]
    calc val l + 2 ^ (64 * l.length) * t < 2 ^ (64 * l.length) + 2 ^ (64 * l.length) * t := by omega
      _ = 2 ^ (64 * l.length) * (t + 1) := by ring
      _ ≤ _ := Nat.mul_le_mul_left _ h2

/-! ### raw output -/

theorem leBytes_add_mul (n x k : Nat) : leBytes n (x + 256 ^ n * k) = leBytes n x := by
  induction n generalizing x k with
  | zero => rfl
  | succ n ih =>
    simp only [leBytes, pow_succ]
    have h1 : (x + 256 ^ n * 256 * k) % 256 = x % 256 := by
      rw [Nat.mul_assoc, Nat.mul_comm 256 k, ← Nat.mul_assoc]; exact Nat.add_mul_mod_self_right _ _ _
    have h2 : (x + 256 ^ n * 256 * k) / 256 = x / 256 + 256 ^ n * k := by
      rw [Nat.mul_assoc, Nat.mul_comm 256 k, ← Nat.mul_assoc, Nat.add_mul_div_right _ _ (by decide)]
    rw [h1, h2, ih]

theorem beBytes_cons_limb {x : Nat} (xs : List Nat) (hx : x < B) :
    beBytes (8 * (xs.length + 1)) (x + B * val xs) = beBytes (8 * xs.length) (val xs) ++ beBytes 8 x := by
  unfold beBytes
  have : 8 * (xs.length + 1) = 8 + 8 * xs.length := by ring
  rw [this, leBytes_add, List.reverse_append]
  congr 2
  · rw [← B_eq_256, Nat.add_mul_div_left _ _ B_pos, Nat.div_eq_of_lt hx, Nat.zero_add]
  · rw [B_eq_256, leBytes_add_mul]

/-- the `HTON_LIMB_STORE` loop writes the big-endian image of the value -/
theorem foldl_hton : ∀ (l : List Nat) (acc : List Nat), Limbs l →
    l.foldl (fun buf x => beBytes 8 x ++ buf) acc = beBytes (8 * l.length) (val l) ++ acc := by
  intro l
  induction l with
  | nil => intro acc _; simp [beBytes, leBytes]
  | cons x xs ih =>
    intro acc h
    have ⟨hx, hxs⟩ := Limbs_cons.mp h
    rw [List.foldl_cons, ih _ hxs, List.length_cons, val_cons, beBytes_cons_limb xs hx, List.append_assoc]

theorem bitLen_le_64 {t : Nat} (h : t < B) : bitLen t ≤ 64 := bitLen_le_iff.mpr h

/-- a list ending in `t`: split off the last element -/
theorem exists_snoc_of_getLastD {l : List Nat} (h : l ≠ []) : ∃ init, l = init ++ [l.getLastD 0] := by
  refine ⟨l.dropLast, ?_⟩
  have := List.dropLast_concat_getLast h
  rw [List.getLastD_eq_getLast?, List.getLast?_eq_some_getLast h]
  simpa using this.symm

theorem getLastD_take_getD {d : List Nat} {n : Nat} (hn : 0 < n) (h : n ≤ d.length) :
    (d.take n).getLastD 0 = d.getD (n - 1) 0 := by
  rw [List.getLastD_eq_getLast?, List.getLast?_eq_getElem?, List.getD_eq_getElem?_getD]
  simp only [List.length_take, Nat.min_eq_left h, List.getElem?_take]
  rw [if_pos (by omega)]

/-- facts about the limbs covered by `SIZ` of a well-formed object with non-zero size -/
theorem wf_limbs {z : Mpz} (h : z.WF) (hs : z.size ≠ 0) :
    ∃ init top, z.limbs = init ++ [top] ∧ top ≠ 0 ∧ top < B ∧ Limbs init ∧ init.length + 1 = z.abssize := by
  obtain ⟨hlen, hle, hlimbs, htop⟩ := h
  have hn : 0 < z.abssize := by unfold Mpz.abssize; omega
  have hne : z.limbs ≠ [] := by
    intro he; have := congrArg List.length he
    rw [Mpz.limbs, List.length_take, List.length_nil] at this; omega
  obtain ⟨init, hi⟩ := exists_snoc_of_getLastD hne
  have htl : z.limbs.getLastD 0 = z.d.getD (z.abssize - 1) 0 := getLastD_take_getD hn (by omega)
  have hL : Limbs z.limbs := Limbs_take hlimbs _
  rw [hi] at hL
  have ⟨hLi, hLt⟩ := Limbs_append.mp hL
  refine ⟨init, z.limbs.getLastD 0, hi, by rw [htl]; exact htop hs, ?_, hLi, ?_⟩
  · exact hLt _ (by simp)
  · have := congrArg List.length hi
    simp [Mpz.limbs] at this; omega

theorem out_raw_m_eq (z : Mpz) (h : z.WF) : out_raw_m z = outRawBytes z.toInt := by
  by_cases hs : z.size = 0
  · have h0 : z.toInt = 0 := by simp [Mpz.toInt, Mpz.limbs, Mpz.abssize, hs]
    rw [h0]
    simp [out_raw_m, outRawBytes, hs, byteLen_zero, beBytes, leBytes]
  · obtain ⟨init, top, hlim, ht0, htB, hLi, hlen⟩ := wf_limbs h hs
    have hn : z.size.natAbs = init.length + 1 := by unfold Mpz.abssize at hlen; omega
    have hV : val z.limbs = val init + B ^ init.length * top := by rw [hlim, val_snoc]
    have hVpos : 0 < val z.limbs := by
      rw [hV]; have := Nat.pos_of_ne_zero ht0; have := pow_pos B_pos init.length; nlinarith
    have hbl : bitLen (val z.limbs) = 64 * init.length + bitLen top := by rw [hlim]; exact bitLen_val_snoc hLi ht0
    have hbt := bitLen_pos ht0
    have hbt2 := bitLen_le_64 htB
    have hL : Limbs z.limbs := by rw [hlim]; exact Limbs_append.mpr ⟨hLi, by intro x hx; simp at hx; omega⟩
    have hzl : z.limbs.length = init.length + 1 := by rw [hlim]; simp
    -- the value and its sign
    have hnat : z.toInt.natAbs = val z.limbs := by unfold Mpz.toInt; split <;> simp
    have hneg : z.toInt < 0 ↔ z.size < 0 := by
      unfold Mpz.toInt; split
      · constructor <;> intro _ <;> first | assumption | omega
      · constructor <;> intro _ <;> omega
    have hbyte : byteLen (val z.limbs) = 8 * (init.length + 1) - (64 - bitLen top) / 8 := by
      unfold byteLen; rw [hbl]; omega
    have hdrop : (beBytes (8 * (init.length + 1)) (val z.limbs)).drop ((64 - bitLen top) / 8)
        = beBytes (byteLen (val z.limbs)) (val z.limbs) := by
      have e : 8 * (init.length + 1) = byteLen (val z.limbs) + (64 - bitLen top) / 8 := by rw [hbyte]; omega
      rw [e, beBytes_of_lt _ (lt_pow_byteLen _)]
      simp
    unfold out_raw_m outRawBytes
    have hb : (z.size.natAbs * 64 + 7) / 8 = 8 * (init.length + 1) := by rw [hn]; omega
    have hxp : z.d.take z.size.natAbs = z.limbs := rfl
    simp only [hb, hxp, foldl_hton _ _ hL, hzl, List.append_nil, hnat]
    have hne : (8 * (init.length + 1) ≠ 0) := by omega
    simp only [hne, ne_eq, not_false_eq_true, if_true]
    have hlast : z.limbs.getLastD 0 = top := by rw [hlim]; simp
    rw [hlast]
    unfold clz
    rw [hdrop, ← hbyte]
    by_cases hsz : z.size < 0
    · have : ¬ z.size ≥ 0 := by omega
      simp [this, hneg.mpr hsz]
    · have h1 : z.size ≥ 0 := by omega
      have h2 : ¬ z.toInt < 0 := fun hh => hsz (hneg.mp hh)
      simp [h1, h2]

end Mpir.Io
