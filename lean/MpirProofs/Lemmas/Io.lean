/- Helper lemmas for the I/O models (Mpir/Model/Io.lean). -/
import MpirProofs.Lemmas.Base
import Mpir.Model.Io
import Mathlib.Tactic.Ring
import Mathlib.Tactic.Linarith
namespace Mpir.Io
open Mpir

/-! ### bytes -/

theorem Bytes_nil : Bytes [] := by intro b hb; cases hb
theorem Bytes_cons {b : Nat} {l : List Nat} : Bytes (b :: l) ↔ b < 256 ∧ Bytes l := by
  unfold Bytes; simp
theorem Bytes_append {a b : List Nat} : Bytes (a ++ b) ↔ Bytes a ∧ Bytes b := by
  unfold Bytes; simp only [List.mem_append]
  constructor
  · intro h; exact ⟨fun x hx => h x (Or.inl hx), fun x hx => h x (Or.inr hx)⟩
  · rintro ⟨h1, h2⟩ x (hx | hx); exact h1 x hx; exact h2 x hx
theorem Bytes_reverse {a : List Nat} : Bytes a.reverse ↔ Bytes a := by unfold Bytes; simp
theorem Bytes_take {l : List Nat} (h : Bytes l) (n : Nat) : Bytes (l.take n) :=
  fun x hx => h x (List.mem_of_mem_take hx)
theorem Bytes_drop {l : List Nat} (h : Bytes l) (n : Nat) : Bytes (l.drop n) :=
  fun x hx => h x (List.mem_of_mem_drop hx)
theorem Bytes_replicate_zero (n : Nat) : Bytes (List.replicate n 0) := by
  intro b hb; rw [List.mem_replicate] at hb; omega

@[simp] theorem leBytes_length (n v : Nat) : (leBytes n v).length = n := by
  induction n generalizing v with
  | zero => rfl
  | succ n ih => simp [leBytes, ih]

theorem leBytes_bytes (n v : Nat) : Bytes (leBytes n v) := by
  induction n generalizing v with
  | zero => exact Bytes_nil
  | succ n ih => exact Bytes_cons.mpr ⟨Nat.mod_lt _ (by decide), ih _⟩

@[simp] theorem beBytes_length (n v : Nat) : (beBytes n v).length = n := by simp [beBytes]
theorem beBytes_bytes (n v : Nat) : Bytes (beBytes n v) := Bytes_reverse.mpr (leBytes_bytes n v)

@[simp] theorem leVal_nil : leVal [] = 0 := rfl
@[simp] theorem leVal_cons (b : Nat) (l : List Nat) : leVal (b :: l) = b + 256 * leVal l := rfl

theorem leVal_append (a b : List Nat) : leVal (a ++ b) = leVal a + 256 ^ a.length * leVal b := by
  induction a with
  | nil => simp
  | cons x xs ih => simp only [List.cons_append, leVal_cons, ih, List.length_cons, pow_succ]; ring

theorem leVal_lt {l : List Nat} (h : Bytes l) : leVal l < 256 ^ l.length := by
  induction l with
  | nil => simp
  | cons x xs ih =>
    have ⟨hx, hxs⟩ := Bytes_cons.mp h
    have := ih hxs
    simp only [leVal_cons, List.length_cons, pow_succ]
    omega

theorem leVal_leBytes (n v : Nat) : leVal (leBytes n v) = v % 256 ^ n := by
  induction n generalizing v with
  | zero => simp [leBytes, Nat.mod_one]
  | succ n ih =>
    simp only [leBytes, leVal_cons, ih, pow_succ]
    rw [Nat.mul_comm (256 ^ n) 256, Nat.mod_mul]

theorem leBytes_leVal {l : List Nat} (h : Bytes l) : leBytes l.length (leVal l) = l := by
  induction l with
  | nil => rfl
  | cons x xs ih =>
    have ⟨hx, hxs⟩ := Bytes_cons.mp h
    simp only [List.length_cons, leBytes, leVal_cons]
    have h1 : (x + 256 * leVal xs) % 256 = x := by omega
    have h2 : (x + 256 * leVal xs) / 256 = leVal xs := by omega
    rw [h1, h2, ih hxs]

theorem leBytes_add (n m v : Nat) : leBytes (n + m) v = leBytes n v ++ leBytes m (v / 256 ^ n) := by
  induction n generalizing v with
  | zero => simp [leBytes]
  | succ n ih =>
    rw [Nat.succ_add]
    simp only [leBytes, List.cons_append, ih, pow_succ]
    rw [Nat.div_div_eq_div_mul, Nat.mul_comm 256]

theorem leBytes_zero (n : Nat) : leBytes n 0 = List.replicate n 0 := by
  induction n with
  | zero => rfl
  | succ n ih => simp [leBytes, ih, List.replicate_succ]

theorem leBytes_of_lt {n v : Nat} (m : Nat) (h : v < 256 ^ n) :
    leBytes (n + m) v = leBytes n v ++ List.replicate m 0 := by
  rw [leBytes_add, Nat.div_eq_of_lt h, leBytes_zero]

theorem leVal_replicate_zero (n : Nat) : leVal (List.replicate n 0) = 0 := by
  induction n with
  | zero => rfl
  | succ n ih => simp [List.replicate_succ, ih]

theorem beVal_append (a b : List Nat) : beVal (a ++ b) = beVal a * 256 ^ b.length + beVal b := by
  simp only [beVal, List.reverse_append, leVal_append, List.length_reverse]; ring

theorem beVal_replicate_zero (n : Nat) : beVal (List.replicate n 0) = 0 := by
  simp [beVal, leVal_replicate_zero]

theorem beVal_beBytes (n v : Nat) : beVal (beBytes n v) = v % 256 ^ n := by
  simp [beVal, beBytes, leVal_leBytes]

theorem beVal_lt {l : List Nat} (h : Bytes l) : beVal l < 256 ^ l.length := by
  have := leVal_lt (Bytes_reverse.mpr h); simpa [beVal] using this

theorem beBytes_of_lt {n v : Nat} (m : Nat) (h : v < 256 ^ n) :
    beBytes (n + m) v = List.replicate m 0 ++ beBytes n v := by
  simp [beBytes, leBytes_of_lt m h]

/-! ### bit length -/

theorem bitLen_zero : bitLen 0 = 0 := by simp [bitLen]

theorem lt_two_pow_bitLen (v : Nat) : v < 2 ^ bitLen v := by
  unfold bitLen; split
  · subst_vars; simp
  · exact Nat.lt_log2_self

theorem two_pow_le_of_bitLen {v : Nat} (h : v ≠ 0) : 2 ^ (bitLen v - 1) ≤ v := by
  unfold bitLen; simp only [h, if_false, Nat.add_sub_cancel]; exact Nat.log2_self_le h

theorem bitLen_pos {v : Nat} (h : v ≠ 0) : 0 < bitLen v := by unfold bitLen; simp [h]

/-- characterisation: `2^k ≤ v < 2^(k+1)` gives `bitLen v = k+1` -/
theorem bitLen_eq {v k : Nat} (h1 : 2 ^ k ≤ v) (h2 : v < 2 ^ (k + 1)) : bitLen v = k + 1 := by
  have hv : v ≠ 0 := by have := Nat.two_pow_pos k; omega
  unfold bitLen; simp only [hv, if_false]
  congr 1
  have a : v.log2 < k + 1 := (Nat.log2_lt hv).mpr h2
  have b : ¬ v.log2 < k := by
    intro hlt; have := (Nat.log2_lt hv).mp hlt; omega
  omega

theorem bitLen_le_iff {v k : Nat} : bitLen v ≤ k ↔ v < 2 ^ k := by
  by_cases hv : v = 0
  · subst hv; simp [bitLen_zero]
  · unfold bitLen; simp only [hv, if_false]
    rw [← Nat.log2_lt hv]; omega

theorem lt_pow_byteLen (v : Nat) : v < 256 ^ byteLen v := by
  have h := lt_two_pow_bitLen v
  have : (256 : Nat) ^ byteLen v = 2 ^ (8 * byteLen v) := by
    rw [show (256 : Nat) = 2 ^ 8 by norm_num, ← pow_mul]
  rw [this]
  refine lt_of_lt_of_le h (Nat.pow_le_pow_right (by decide) ?_)
  unfold byteLen; omega

theorem byteLen_zero : byteLen 0 = 0 := by simp [byteLen, bitLen_zero]

/-! ### limb memory images -/

theorem B_eq_256 : B = 256 ^ 8 := by unfold B; norm_num
theorem B_eq_2 : B = 2 ^ 64 := rfl

@[simp] theorem limbsToBytes_nil : limbsToBytes [] = [] := rfl
@[simp] theorem limbsToBytes_cons (x : Nat) (xs : List Nat) :
    limbsToBytes (x :: xs) = leBytes 8 x ++ limbsToBytes xs := by simp [limbsToBytes]
theorem limbsToBytes_append (a b : List Nat) : limbsToBytes (a ++ b) = limbsToBytes a ++ limbsToBytes b := by
  simp [limbsToBytes]
@[simp] theorem limbsToBytes_length (d : List Nat) : (limbsToBytes d).length = 8 * d.length := by
  induction d with
  | nil => rfl
  | cons x xs ih => simp [ih]; omega
theorem limbsToBytes_bytes (d : List Nat) : Bytes (limbsToBytes d) := by
  induction d with
  | nil => exact Bytes_nil
  | cons x xs ih => rw [limbsToBytes_cons]; exact Bytes_append.mpr ⟨leBytes_bytes _ _, ih⟩

theorem bytesToLimbs_append8 {a : List Nat} (ha : a.length = 8) (b : List Nat) :
    bytesToLimbs (a ++ b) = leVal a :: bytesToLimbs b := by
  match a, ha with
  | [b0, b1, b2, b3, b4, b5, b6, b7], _ => simp [bytesToLimbs]

theorem bytesToLimbs_nil : bytesToLimbs [] = [] := by simp [bytesToLimbs]

theorem bytesToLimbs_limbsToBytes {d : List Nat} (h : Limbs d) : bytesToLimbs (limbsToBytes d) = d := by
  induction d with
  | nil => simp [bytesToLimbs_nil]
  | cons x xs ih =>
    have ⟨hx, hxs⟩ := Limbs_cons.mp h
    rw [limbsToBytes_cons, bytesToLimbs_append8 (by simp), ih hxs, leVal_leBytes, ← B_eq_256, Nat.mod_eq_of_lt hx]

/-- a byte string of `8k` bytes splits as `k` groups of 8 -/
theorem bytesToLimbs_append (k : Nat) : ∀ (a b : List Nat), a.length = 8 * k →
    bytesToLimbs (a ++ b) = bytesToLimbs a ++ bytesToLimbs b := by
  induction k with
  | zero => intro a b ha; have : a = [] := List.eq_nil_of_length_eq_zero (by omega); subst this; simp [bytesToLimbs_nil]
  | succ k ih =>
    intro a b ha
    have h8 : (a.take 8).length = 8 := by simp; omega
    have hd : (a.drop 8).length = 8 * k := by simp; omega
    rw [← List.take_append_drop 8 a, List.append_assoc, bytesToLimbs_append8 h8, bytesToLimbs_append8 h8,
      ih _ _ hd, List.cons_append]

theorem bytesToLimbs_length (k : Nat) : ∀ (a : List Nat), a.length = 8 * k → (bytesToLimbs a).length = k := by
  induction k with
  | zero => intro a ha; have : a = [] := List.eq_nil_of_length_eq_zero (by omega); subst this; simp [bytesToLimbs_nil]
  | succ k ih =>
    intro a ha
    have h8 : (a.take 8).length = 8 := by simp; omega
    have hd : (a.drop 8).length = 8 * k := by simp; omega
    rw [← List.take_append_drop 8 a, bytesToLimbs_append8 h8, List.length_cons, ih _ hd]

theorem Limbs_bytesToLimbs (k : Nat) : ∀ (a : List Nat), a.length = 8 * k → Bytes a → Limbs (bytesToLimbs a) := by
  induction k with
  | zero => intro a ha _; have : a = [] := List.eq_nil_of_length_eq_zero (by omega); subst this; simp [bytesToLimbs_nil, Limbs_nil]
  | succ k ih =>
    intro a ha hb
    have h8 : (a.take 8).length = 8 := by simp; omega
    have hd : (a.drop 8).length = 8 * k := by simp; omega
    rw [← List.take_append_drop 8 a, bytesToLimbs_append8 h8]
    refine Limbs_cons.mpr ⟨?_, ih _ hd (Bytes_drop hb 8)⟩
    have := leVal_lt (Bytes_take hb 8); rw [h8] at this; rw [B_eq_256]; exact this

theorem bswap_leVal {a : List Nat} (ha : a.length = 8) (hb : Bytes a) : bswap (leVal a) = beVal a := by
  unfold bswap; rw [← ha, leBytes_leVal hb]

theorem val_snoc (l : List Nat) (t : Nat) : val (l ++ [t]) = val l + B ^ l.length * t := by
  rw [val_append]; simp

/-- reversing the limb order and byte-swapping every limb of a memory image reads it big-endian -/
theorem val_reverse_bswap (k : Nat) : ∀ (m : List Nat), m.length = 8 * k → Bytes m →
    val ((bytesToLimbs m).map bswap).reverse = beVal m := by
  induction k with
  | zero => intro m hm _; have : m = [] := List.eq_nil_of_length_eq_zero (by omega); subst this; simp [bytesToLimbs_nil, beVal]
  | succ k ih =>
    intro m hm hb
    have h8 : (m.take 8).length = 8 := by simp; omega
    have hd : (m.drop 8).length = 8 * k := by simp; omega
    have hl := bytesToLimbs_length k _ hd
    conv_lhs => rw [← List.take_append_drop 8 m, bytesToLimbs_append8 h8]
    rw [List.map_cons, List.reverse_cons, val_snoc, ih _ hd (Bytes_drop hb 8),
      bswap_leVal h8 (Bytes_take hb 8), List.length_reverse, List.length_map, hl]
    conv_rhs => rw [← List.take_append_drop 8 m, beVal_append, hd]
    rw [B_eq_256, ← pow_mul]; ring

theorem revSwap_eq : ∀ (n : Nat) (l : List Nat), l.length = n → revSwap l = (l.map bswap).reverse := by
  intro n
  induction n using Nat.strong_induction_on with
  | _ n ih =>
    intro l hl
    match l, hl with
    | [], _ => simp [revSwap]
    | [x], _ => simp [revSwap]
    | x :: y :: r, hl =>
      rw [revSwap]
      have hne : (y :: r) ≠ [] := by simp
      have hlen : ((y :: r).dropLast).length < n := by simp at hl ⊢; omega
      rw [ih _ hlen _ rfl]
      conv_rhs => rw [List.map_cons, List.reverse_cons, ← List.dropLast_concat_getLast hne, List.map_append,
        List.reverse_append]
      simp

theorem Limbs_map_bswap (l : List Nat) : Limbs (l.map bswap) := by
  intro x hx
  rw [List.mem_map] at hx
  obtain ⟨y, _, rfl⟩ := hx
  unfold bswap
  have := beVal_lt (Bytes_reverse.mpr (leBytes_bytes 8 y))
  have h2 := beVal_lt (leBytes_bytes 8 y)
  simp at h2; rw [B_eq_256]; exact h2

theorem Limbs_reverse {l : List Nat} : Limbs l.reverse ↔ Limbs l := by unfold Limbs; simp

/-! ### normalisation -/

/-- non-empty lists end in a non-zero limb -/
def TopNZ (l : List Nat) : Prop := l ≠ [] → l.getLastD 0 ≠ 0

theorem normalize_nil : normalize [] = [] := rfl

theorem dropWhile_zero_spec (r : List Nat) :
    ∃ k, r = List.replicate k 0 ++ r.dropWhile (· == 0) ∧ (r.dropWhile (· == 0)).headD 1 ≠ 0 := by
  induction r with
  | nil => exact ⟨0, by simp, by simp⟩
  | cons x xs ih =>
    by_cases hx : x = 0
    · subst hx
      obtain ⟨k, hk, hh⟩ := ih
      refine ⟨k + 1, ?_, ?_⟩
      · simp only [List.dropWhile_cons, beq_self_eq_true, if_true, List.replicate_succ, List.cons_append]
        rw [← hk]
      · simpa [List.dropWhile_cons] using hh
    · refine ⟨0, by simp [hx], by simp [hx]⟩

/-- `normalize l` is `l` without its high zero limbs -/
theorem normalize_spec (l : List Nat) :
    ∃ k, l = normalize l ++ List.replicate k 0 ∧ TopNZ (normalize l) := by
  obtain ⟨k, hk, hh⟩ := dropWhile_zero_spec l.reverse
  refine ⟨k, ?_, ?_⟩
  · have := congrArg List.reverse hk
    rw [List.reverse_reverse, List.reverse_append, List.reverse_replicate] at this
    exact this
  · intro hne
    unfold normalize at hne ⊢
    cases hd : l.reverse.dropWhile (· == 0) with
    | nil => rw [hd] at hne; simp at hne
    | cons a as =>
      rw [hd] at hh
      simp only [List.reverse_cons, List.getLastD_concat]
      simpa using hh

theorem val_replicate_zero (k : Nat) : val (List.replicate k 0) = 0 := by
  induction k with
  | zero => rfl
  | succ k ih => simp [List.replicate_succ, ih]

theorem val_normalize (l : List Nat) : val (normalize l) = val l := by
  obtain ⟨k, hk, _⟩ := normalize_spec l
  conv_rhs => rw [hk, val_append, val_replicate_zero]
  omega

theorem normalize_prefix (l : List Nat) : l.take (normSize l) = normalize l := by
  obtain ⟨k, hk, _⟩ := normalize_spec l
  unfold normSize
  generalize normalize l = n at hk ⊢
  subst hk; simp

theorem normSize_le (l : List Nat) : normSize l ≤ l.length := by
  obtain ⟨k, hk, _⟩ := normalize_spec l
  unfold normSize
  have := congrArg List.length hk
  simp at this; omega

theorem Limbs_normalize {l : List Nat} (h : Limbs l) : Limbs (normalize l) := by
  rw [← normalize_prefix]; exact Limbs_take h _

/-! ### natLimbs -/

theorem natLimbs_zero : natLimbs 0 = [] := by rw [natLimbs]; simp
theorem natLimbs_pos {v : Nat} (h : v ≠ 0) : natLimbs v = v % B :: natLimbs (v / B) := by
  rw [natLimbs]; simp [h]

theorem natLimbs_spec (v : Nat) : val (natLimbs v) = v ∧ Limbs (natLimbs v) ∧ TopNZ (natLimbs v) := by
  induction v using Nat.strong_induction_on with
  | _ v ih =>
    by_cases hv : v = 0
    · subst hv; rw [natLimbs_zero]; exact ⟨rfl, Limbs_nil, fun h => absurd rfl h⟩
    · have hlt : v / B < v := Nat.div_lt_self (Nat.pos_of_ne_zero hv) (by unfold B; norm_num)
      obtain ⟨h1, h2, h3⟩ := ih _ hlt
      rw [natLimbs_pos hv]
      refine ⟨?_, Limbs_cons.mpr ⟨Nat.mod_lt _ B_pos, h2⟩, ?_⟩
      · rw [val_cons, h1]; exact Nat.mod_add_div v B
      · intro _
        by_cases hq : v / B = 0
        · rw [hq, natLimbs_zero]; simp
          have : v < B := by
            rcases Nat.lt_or_ge v B with h | h
            · exact h
            · have := Nat.div_pos h B_pos; omega
          rw [Nat.mod_eq_of_lt this]; exact hv
        · have hne : natLimbs (v / B) ≠ [] := by rw [natLimbs_pos hq]; simp
          have := h3 hne
          rw [List.getLastD_cons]
          cases hnl : natLimbs (v / B) with
          | nil => exact absurd hnl hne
          | cons a as => rw [hnl, List.getLastD_cons] at this; rw [List.getLastD_cons]; exact this

theorem natLimbs_eq_nil {v : Nat} : natLimbs v = [] ↔ v = 0 := by
  constructor
  · intro h; have := (natLimbs_spec v).1; rw [h] at this; exact this.symm
  · intro h; subst h; exact natLimbs_zero

/-- bit length of a normalised limb vector -/
theorem bitLen_val_snoc {l : List Nat} {t : Nat} (hl : Limbs l) (ht : t ≠ 0) :
    bitLen (val (l ++ [t])) = 64 * l.length + bitLen t := by
  rw [val_snoc]
  have h1 := val_lt l hl
  have h2 := lt_two_pow_bitLen t
  have h3 := two_pow_le_of_bitLen ht
  have hp := bitLen_pos ht
  have hB : B ^ l.length = 2 ^ (64 * l.length) := by rw [B_eq_2, ← pow_mul]
  rw [hB] at h1 ⊢
  have e : 64 * l.length + bitLen t = (64 * l.length + (bitLen t - 1)) + 1 := by omega
  rw [e]
  apply bitLen_eq
  · rw [pow_add]
    calc 2 ^ (64 * l.length) * 2 ^ (bitLen t - 1) ≤ 2 ^ (64 * l.length) * t := Nat.mul_le_mul_left _ h3
      _ ≤ _ := Nat.le_add_left _ _
  · have : 64 * l.length + (bitLen t - 1) + 1 = 64 * l.length + bitLen t := by omega
    rw [this, pow_add]
    calc val l + 2 ^ (64 * l.length) * t < 2 ^ (64 * l.length) + 2 ^ (64 * l.length) * t := by omega
      _ = 2 ^ (64 * l.length) * (t + 1) := by ring
      _ ≤ _ := Nat.mul_le_mul_left _ h2

/-! ### raw output -/

theorem leBytes_add_mul (n x k : Nat) : leBytes n (x + 256 ^ n * k) = leBytes n x := by
  induction n generalizing x k with
  | zero => rfl
  | succ n ih =>
    simp only [leBytes, pow_succ]
    have h1 : (x + 256 ^ n * 256 * k) % 256 = x % 256 := by
      rw [Nat.mul_assoc, Nat.mul_comm 256 k, ← Nat.mul_assoc]; exact Nat.add_mul_mod_self_right _ _ _
    have h2 : (x + 256 ^ n * 256 * k) / 256 = x / 256 + 256 ^ n * k := by
      rw [Nat.mul_assoc, Nat.mul_comm 256 k, ← Nat.mul_assoc, Nat.add_mul_div_right _ _ (by decide)]
    rw [h1, h2, ih]

theorem beBytes_cons_limb {x : Nat} (xs : List Nat) (hx : x < B) :
    beBytes (8 * (xs.length + 1)) (x + B * val xs) = beBytes (8 * xs.length) (val xs) ++ beBytes 8 x := by
  unfold beBytes
  have : 8 * (xs.length + 1) = 8 + 8 * xs.length := by ring
  rw [this, leBytes_add, List.reverse_append]
  congr 2
  · rw [← B_eq_256, Nat.add_mul_div_left _ _ B_pos, Nat.div_eq_of_lt hx, Nat.zero_add]
  · rw [B_eq_256, leBytes_add_mul]

/-- the `HTON_LIMB_STORE` loop writes the big-endian image of the value -/
theorem foldl_hton : ∀ (l : List Nat) (acc : List Nat), Limbs l →
    l.foldl (fun buf x => beBytes 8 x ++ buf) acc = beBytes (8 * l.length) (val l) ++ acc := by
  intro l
  induction l with
  | nil => intro acc _; simp [beBytes, leBytes]
  | cons x xs ih =>
    intro acc h
    have ⟨hx, hxs⟩ := Limbs_cons.mp h
    rw [List.foldl_cons, ih _ hxs, List.length_cons, val_cons, beBytes_cons_limb xs hx, List.append_assoc]

theorem bitLen_le_64 {t : Nat} (h : t < B) : bitLen t ≤ 64 := bitLen_le_iff.mpr h

/-- a list ending in `t`: split off the last element -/
theorem exists_snoc_of_getLastD {l : List Nat} (h : l ≠ []) : ∃ init, l = init ++ [l.getLastD 0] := by
  refine ⟨l.dropLast, ?_⟩
  have := List.dropLast_concat_getLast h
  rw [List.getLastD_eq_getLast?, List.getLast?_eq_some_getLast h]
  simpa using this.symm

theorem getLastD_take_getD {d : List Nat} {n : Nat} (hn : 0 < n) (h : n ≤ d.length) :
    (d.take n).getLastD 0 = d.getD (n - 1) 0 := by
  rw [List.getLastD_eq_getLast?, List.getLast?_eq_getElem?, List.getD_eq_getElem?_getD]
  simp only [List.length_take, Nat.min_eq_left h, List.getElem?_take]
  rw [if_pos (by omega)]

/-- facts about the limbs covered by `SIZ` of a well-formed object with non-zero size -/
theorem wf_limbs {z : Mpz} (h : z.WF) (hs : z.size ≠ 0) :
    ∃ init top, z.limbs = init ++ [top] ∧ top ≠ 0 ∧ top < B ∧ Limbs init ∧ init.length + 1 = z.abssize := by
  obtain ⟨hlen, hle, hlimbs, htop⟩ := h
  have hn : 0 < z.abssize := by unfold Mpz.abssize; omega
  have hne : z.limbs ≠ [] := by
    intro he; have := congrArg List.length he
    rw [Mpz.limbs, List.length_take, List.length_nil] at this; omega
  obtain ⟨init, hi⟩ := exists_snoc_of_getLastD hne
  have htl : z.limbs.getLastD 0 = z.d.getD (z.abssize - 1) 0 := getLastD_take_getD hn (by omega)
  have hL : Limbs z.limbs := Limbs_take hlimbs _
  rw [hi] at hL
  have ⟨hLi, hLt⟩ := Limbs_append.mp hL
  refine ⟨init, z.limbs.getLastD 0, hi, by rw [htl]; exact htop hs, ?_, hLi, ?_⟩
  · exact hLt _ (by simp)
  · have := congrArg List.length hi
    simp [Mpz.limbs] at this; omega

theorem out_raw_m_eq (z : Mpz) (h : z.WF) : out_raw_m z = outRawBytes z.toInt := by
  by_cases hs : z.size = 0
  · have h0 : z.toInt = 0 := by simp [Mpz.toInt, Mpz.limbs, Mpz.abssize, hs]
    rw [h0]
    simp [out_raw_m, outRawBytes, hs, byteLen_zero, beBytes, leBytes]
  · obtain ⟨init, top, hlim, ht0, htB, hLi, hlen⟩ := wf_limbs h hs
    have hn : z.size.natAbs = init.length + 1 := by unfold Mpz.abssize at hlen; omega
    have hV : val z.limbs = val init + B ^ init.length * top := by rw [hlim, val_snoc]
    have hVpos : 0 < val z.limbs := by
      rw [hV]; have := Nat.pos_of_ne_zero ht0; have := pow_pos B_pos init.length; nlinarith
    have hbl : bitLen (val z.limbs) = 64 * init.length + bitLen top := by rw [hlim]; exact bitLen_val_snoc hLi ht0
    have hbt := bitLen_pos ht0
    have hbt2 := bitLen_le_64 htB
    have hL : Limbs z.limbs := by rw [hlim]; exact Limbs_append.mpr ⟨hLi, by intro x hx; simp at hx; omega⟩
    have hzl : z.limbs.length = init.length + 1 := by rw [hlim]; simp
    -- the value and its sign
    have hnat : z.toInt.natAbs = val z.limbs := by unfold Mpz.toInt; split <;> simp
    have hneg : z.toInt < 0 ↔ z.size < 0 := by
      unfold Mpz.toInt; split
      · constructor <;> intro _ <;> first | assumption | omega
      · constructor <;> intro _ <;> omega
    have hbyte : byteLen (val z.limbs) = 8 * (init.length + 1) - (64 - bitLen top) / 8 := by
      unfold byteLen; rw [hbl]; omega
    have hdrop : (beBytes (8 * (init.length + 1)) (val z.limbs)).drop ((64 - bitLen top) / 8)
        = beBytes (byteLen (val z.limbs)) (val z.limbs) := by
      have e : 8 * (init.length + 1) = byteLen (val z.limbs) + (64 - bitLen top) / 8 := by rw [hbyte]; omega
      rw [e, beBytes_of_lt _ (lt_pow_byteLen _)]
      simp
    unfold out_raw_m outRawBytes
    have hb : (z.size.natAbs * 64 + 7) / 8 = 8 * (init.length + 1) := by rw [hn]; omega
    have hxp : z.d.take z.size.natAbs = z.limbs := rfl
    simp only [hb, hxp, foldl_hton _ _ hL, hzl, List.append_nil, hnat]
    have hne : (8 * (init.length + 1) ≠ 0) := by omega
    simp only [hne, ne_eq, not_false_eq_true, if_true]
    have hlast : z.limbs.getLastD 0 = top := by rw [hlim]; simp
    rw [hlast]
    unfold clz
    rw [hdrop, ← hbyte]
    by_cases hsz : z.size < 0
    · have : ¬ z.size ≥ 0 := by omega
      simp [this, hneg.mpr hsz]
    · have h1 : z.size ≥ 0 := by omega
      have h2 : ¬ z.toInt < 0 := fun hh => hsz (hneg.mp hh)
      simp [h1, h2]

/-! ### raw input -/

theorem fread_ok {r : List Nat} {n : Nat} (h : n ≤ r.length) : fread r n = (true, r.take n, r.drop n) := by
  simp [fread, h]
theorem fread_short {r : List Nat} {n : Nat} (h : r.length < n) : fread r n = (false, r, []) := by
  have : ¬ n ≤ r.length := by omega
  simp [fread, this]

theorem limbsToBytes_drop (d : List Nat) (k : Nat) : (limbsToBytes d).drop (8 * k) = limbsToBytes (d.drop k) := by
  induction k generalizing d with
  | zero => simp
  | succ k ih =>
    cases d with
    | nil => simp
    | cons x xs =>
      rw [limbsToBytes_cons, List.drop_succ_cons, ← ih xs]
      have : 8 * (k + 1) = (leBytes 8 x).length + 8 * k := by simp; ring
      rw [this, List.drop_append]
      simp

theorem limbsToBytes_take (d : List Nat) (k : Nat) : (limbsToBytes d).take (8 * k) = limbsToBytes (d.take k) := by
  induction k generalizing d with
  | zero => simp
  | succ k ih =>
    cases d with
    | nil => simp
    | cons x xs =>
      rw [limbsToBytes_cons, List.take_succ_cons, limbsToBytes_cons, ← ih xs]
      have : 8 * (k + 1) = (leBytes 8 x).length + 8 * k := by simp; ring
      rw [this, List.take_append]
      simp
      exact List.take_of_length_le (by simp)

/-- what `mpz_realloc` guarantees -/
theorem realloc_spec {x : Mpz} (hx : x.WF) (n : Nat) {junk : Nat → Nat} (hj : ∀ i, junk i < B) :
    (mpz_realloc x n junk).d.length = (mpz_realloc x n junk).alloc ∧ n ≤ (mpz_realloc x n junk).alloc ∧
    Limbs (mpz_realloc x n junk).d := by
  obtain ⟨hlen, hle, hlimbs, _⟩ := hx
  unfold mpz_realloc
  split
  · refine ⟨by simp [hlen]; omega, by simp, ?_⟩
    simp only
    refine Limbs_append.mpr ⟨hlimbs, ?_⟩
    intro y hy; rw [List.mem_map] at hy; obtain ⟨i, _, rfl⟩ := hy; exact hj i
  · exact ⟨hlen, by omega, hlimbs⟩

theorem Limbs_set {d : List Nat} (h : Limbs d) (i v : Nat) (hv : v < B) : Limbs (d.set i v) := by
  intro y hy
  rcases List.mem_or_eq_of_mem_set hy with h1 | h1
  · exact h _ h1
  · rw [h1]; exact hv

theorem overwrite_length {m data : List Nat} {off : Nat} (h : off + data.length ≤ m.length) :
    (overwrite m off data).length = m.length := by
  simp [overwrite]; omega

theorem overwrite_bytes {m data : List Nat} {off : Nat} (hm : Bytes m) (hd : Bytes data) :
    Bytes (overwrite m off data) :=
  Bytes_append.mpr ⟨Bytes_append.mpr ⟨Bytes_take hm _, hd⟩, Bytes_drop hm _⟩

/-- memory after a complete read of `c` bytes into `N = ⌈c/8⌉` limbs whose first limb was zeroed:
    the `N` limbs hold `8N - c` zero bytes followed by the data, the limbs above are untouched -/
theorem mem_full {d1 : List Nat} (hL : Limbs d1) {N c : Nat} (hN : N = (c * 8 + 63) / 64) (hc : 0 < c)
    (hA : N ≤ d1.length) {data : List Nat} (hlen : data.length = c) :
    (bytesToLimbs (overwrite (limbsToBytes (d1.set 0 0)) (8 * N - c) data)).take N
        = bytesToLimbs (List.replicate (8 * N - c) 0 ++ data) ∧
    (bytesToLimbs (overwrite (limbsToBytes (d1.set 0 0)) (8 * N - c) data)).drop N = d1.drop N := by
  have hN1 : 1 ≤ N := by omega
  have hoff : 8 * N - c < 8 := by omega
  cases d1 with
  | nil => simp at hA; omega
  | cons a t =>
    have ht : Limbs t := (Limbs_cons.mp hL).2
    have hdropL : Limbs ((a :: t).drop N) := Limbs_drop hL N
    have hm : limbsToBytes ((a :: t).set 0 0) = List.replicate 8 0 ++ limbsToBytes t := by
      simp [leBytes_zero]
    have h1 : (limbsToBytes ((a :: t).set 0 0)).take (8 * N - c) = List.replicate (8 * N - c) 0 := by
      rw [hm, List.take_append_of_le_length (by simp; omega), List.take_replicate]
      congr 1; omega
    have h2 : (limbsToBytes ((a :: t).set 0 0)).drop (8 * N - c + data.length) = limbsToBytes ((a :: t).drop N) := by
      have e : 8 * N - c + data.length = 8 * N := by omega
      rw [e, limbsToBytes_drop]
      congr 1
      obtain ⟨N', rfl⟩ : ∃ N', N = N' + 1 := ⟨N - 1, by omega⟩
      simp
    have hF : (List.replicate (8 * N - c) 0 ++ data).length = 8 * N := by simp; omega
    have hov : overwrite (limbsToBytes ((a :: t).set 0 0)) (8 * N - c) data
        = (List.replicate (8 * N - c) 0 ++ data) ++ limbsToBytes ((a :: t).drop N) := by
      unfold overwrite; rw [h1, h2]
    rw [hov, bytesToLimbs_append N _ _ hF, bytesToLimbs_limbsToBytes hdropL]
    have hl := bytesToLimbs_length N _ hF
    constructor
    · rw [List.take_append_of_le_length (by omega), List.take_of_length_le (by omega)]
    · rw [List.drop_append_of_le_length (by omega), List.drop_of_length_le (by omega)]; simp

/-- memory after any (possibly short) read: same number of limbs, all limbs -/
theorem mem_any {d1 : List Nat} {off : Nat} {data : List Nat} (hd : Bytes data)
    (h : off + data.length ≤ 8 * d1.length) :
    (bytesToLimbs (overwrite (limbsToBytes d1) off data)).length = d1.length ∧
    Limbs (bytesToLimbs (overwrite (limbsToBytes d1) off data)) := by
  have hl : (overwrite (limbsToBytes d1) off data).length = 8 * d1.length := by
    rw [overwrite_length (by simpa using h)]; simp
  exact ⟨bytesToLimbs_length _ _ hl, Limbs_bytesToLimbs _ _ hl (overwrite_bytes (limbsToBytes_bytes _) hd)⟩

/-- `mpz_inp_raw_m` on a limb array whose first `N` limbs are the memory image `m` -/
theorem inp_raw_m_spec (x : Mpz) (N : Nat) (m : List Nat) (hm : m.length = 8 * N) (hb : Bytes m)
    (hd : x.d.take N = bytesToLimbs m) (hlen : x.d.length = x.alloc) (hN : N ≤ x.alloc) (hL : Limbs x.d)
    (w ws : Nat) :
    (inp_raw_m x ⟨w, ws, N⟩).WF ∧
    (inp_raw_m x ⟨w, ws, N⟩).toInt = (if x.size ≥ 0 then (beVal m : Int) else -(beVal m : Int)) := by
  have hbl := bytesToLimbs_length N m hm
  set xp := revSwap (x.d.take N) with hxp
  have hxp' : xp = ((bytesToLimbs m).map bswap).reverse := by rw [hxp, hd]; exact revSwap_eq _ _ rfl
  have hxl : xp.length = N := by rw [hxp']; simp [hbl]
  have hxL : Limbs xp := by rw [hxp']; exact Limbs_reverse.mpr (Limbs_map_bswap _)
  have hxv : val xp = beVal m := by rw [hxp']; exact val_reverse_bswap N m hm hb
  have hns := normSize_le xp
  have hpre := normalize_prefix xp
  obtain ⟨k, hk, htop⟩ := normalize_spec xp
  have hlimbs : ∀ (s : Int), s.natAbs = normSize xp →
      (xp ++ x.d.drop N).take s.natAbs = normalize xp := by
    intro s hs; rw [hs, List.take_append_of_le_length (by omega), hpre]
  have hdl : (xp ++ x.d.drop N).length = x.alloc := by simp [hxl]; omega
  have hLd : Limbs (xp ++ x.d.drop N) := Limbs_append.mpr ⟨hxL, Limbs_drop hL _⟩
  have htopnz : normSize xp ≠ 0 → (xp ++ x.d.drop N).getD (normSize xp - 1) 0 ≠ 0 := by
    intro hne
    have h1 : (xp ++ x.d.drop N).getD (normSize xp - 1) 0 = xp.getD (normSize xp - 1) 0 := by
      simp only [List.getD_eq_getElem?_getD]; rw [List.getElem?_append_left (by omega)]
    rw [h1, ← getLastD_take_getD (by omega) (by omega), hpre]
    apply htop
    intro he; unfold normSize at hne; rw [he] at hne; exact hne rfl
  unfold inp_raw_m
  simp only [← hxp]
  by_cases hs : x.size ≥ 0
  · simp only [hs, if_true]
    refine ⟨⟨hdl, ?_, hLd, ?_⟩, ?_⟩
    · simp [Mpz.abssize]; omega
    · intro hne; simp only [Mpz.abssize, Int.natAbs_natCast]; exact htopnz (by simpa using hne)
    · have : ¬ ((normSize xp : Int) < 0) := by omega
      simp only [Mpz.toInt, this, if_false, Mpz.limbs, Mpz.abssize]
      rw [hlimbs _ (by simp), val_normalize, hxv]
  · simp only [hs, if_false]
    refine ⟨⟨hdl, ?_, hLd, ?_⟩, ?_⟩
    · simp [Mpz.abssize]; omega
    · intro hne; simp only [Mpz.abssize, Int.natAbs_neg, Int.natAbs_natCast]; exact htopnz (by simpa using hne)
    · simp only [Mpz.toInt, Mpz.limbs, Mpz.abssize]
      rw [hlimbs _ (by simp), val_normalize, hxv]
      by_cases h0 : normSize xp = 0
      · have : val (normalize xp) = 0 := by
          unfold normSize at h0; rw [List.eq_nil_of_length_eq_zero h0]; rfl
        rw [val_normalize, hxv] at this
        simp [h0, this]
      · have : (-(normSize xp : Int) < 0) := by omega
        simp [h0]

/-- limbs announced by a header -/
def rawN (h : List Nat) : Nat := ((csizeOf h).natAbs * 8 + 63) / 64
/-- the size field set from the header before the data is read -/
def rawSgn (h : List Nat) : Int := if csizeOf h ≥ 0 then (rawN h : Int) else -(rawN h : Int)
/-- the limb array after `data` has been stored into the reallocated destination -/
def rawMem (x : Mpz) (h : List Nat) (junk : Nat → Nat) (data : List Nat) : List Nat :=
  bytesToLimbs (overwrite (limbsToBytes ((mpz_realloc x (rawN h) junk).d.set 0 0))
    (8 * rawN h - (csizeOf h).natAbs) data)

theorem inp_raw_p_zero (x : Mpz) (h : List Nat) (junk : Nat → Nat) (hc : (csizeOf h).natAbs = 0) :
    inp_raw_p x h junk = ({ x with size := 0 }, ⟨0, 0, 0⟩) := by
  have : csizeOf h = 0 := by omega
  simp [inp_raw_p, this]

theorem inp_raw_p_pos (x : Mpz) (h : List Nat) (junk : Nat → Nat) (hc : (csizeOf h).natAbs ≠ 0) :
    inp_raw_p x h junk =
      (⟨(mpz_realloc x (rawN h) junk).alloc, rawSgn h, (mpz_realloc x (rawN h) junk).d.set 0 0⟩,
       ⟨8 * rawN h - (csizeOf h).natAbs, (csizeOf h).natAbs, rawN h⟩) := by
  have hN : ((csizeOf h).natAbs * 8 + 63) / 64 ≠ 0 := by omega
  simp [inp_raw_p, hN, rawN, rawSgn]

theorem inp_raw_rd_short_hdr (fixed : Bool) (x : Mpz) (r : List Nat) (junk : Nat → Nat) (h : r.length < 4) :
    inp_raw_rd fixed x r junk = (0, x, []) := by
  simp [inp_raw_rd, fread_short h]

theorem inp_raw_rd_zero (fixed : Bool) (x : Mpz) (r : List Nat) (junk : Nat → Nat) (h4 : 4 ≤ r.length)
    (hc : (csizeOf (r.take 4)).natAbs = 0) :
    inp_raw_rd fixed x r junk = (4, { x with size := 0 }, r.drop 4) := by
  simp [inp_raw_rd, fread_ok h4, inp_raw_p_zero x _ junk hc]

theorem inp_raw_rd_full (fixed : Bool) (x : Mpz) (r : List Nat) (junk : Nat → Nat) (h4 : 4 ≤ r.length)
    (hc : (csizeOf (r.take 4)).natAbs ≠ 0) (hfull : 4 + (csizeOf (r.take 4)).natAbs ≤ r.length) :
    inp_raw_rd fixed x r junk =
      ((csizeOf (r.take 4)).natAbs + 4,
       inp_raw_m ⟨(mpz_realloc x (rawN (r.take 4)) junk).alloc, rawSgn (r.take 4),
                  rawMem x (r.take 4) junk ((r.drop 4).take (csizeOf (r.take 4)).natAbs)⟩
         ⟨8 * rawN (r.take 4) - (csizeOf (r.take 4)).natAbs, (csizeOf (r.take 4)).natAbs, rawN (r.take 4)⟩,
       (r.drop 4).drop (csizeOf (r.take 4)).natAbs) := by
  have hfr : fread (r.drop 4) (csizeOf (r.take 4)).natAbs =
      (true, (r.drop 4).take (csizeOf (r.take 4)).natAbs, (r.drop 4).drop (csizeOf (r.take 4)).natAbs) :=
    fread_ok (by simp; omega)
  simp [inp_raw_rd, fread_ok h4, inp_raw_p_pos x _ junk hc, hc, hfr, rawMem]

theorem inp_raw_rd_short_data (fixed : Bool) (x : Mpz) (r : List Nat) (junk : Nat → Nat) (h4 : 4 ≤ r.length)
    (hc : (csizeOf (r.take 4)).natAbs ≠ 0) (hshort : ¬ 4 + (csizeOf (r.take 4)).natAbs ≤ r.length) :
    inp_raw_rd fixed x r junk =
      (0, ⟨(mpz_realloc x (rawN (r.take 4)) junk).alloc, if fixed then 0 else rawSgn (r.take 4),
           rawMem x (r.take 4) junk (r.drop 4)⟩, []) := by
  have hfr : fread (r.drop 4) (csizeOf (r.take 4)).natAbs = (false, r.drop 4, []) :=
    fread_short (by simp; omega)
  cases fixed <;> simp [inp_raw_rd, fread_ok h4, inp_raw_p_pos x _ junk hc, hc, hfr, rawMem]

/-- full functional description of `mpz_inp_raw` (repaired code) on an arbitrary byte stream -/
theorem inp_raw_rd_spec (x : Mpz) (hx : x.WF) (r : List Nat) (hr : Bytes r) (junk : Nat → Nat)
    (hj : ∀ i, junk i < B) :
    (inp_raw_rd true x r junk).2.1.WF ∧
    (if 4 ≤ r.length ∧ 4 + (csizeOf (r.take 4)).natAbs ≤ r.length then
       (inp_raw_rd true x r junk).1 = (csizeOf (r.take 4)).natAbs + 4 ∧
       (inp_raw_rd true x r junk).2.2 = r.drop (4 + (csizeOf (r.take 4)).natAbs) ∧
       (inp_raw_rd true x r junk).2.1.toInt =
         (if csizeOf (r.take 4) ≥ 0 then (beVal ((r.drop 4).take (csizeOf (r.take 4)).natAbs) : Int)
          else -(beVal ((r.drop 4).take (csizeOf (r.take 4)).natAbs) : Int))
     else (inp_raw_rd true x r junk).1 = 0 ∧ (inp_raw_rd true x r junk).2.2 = []) := by
  by_cases h4 : 4 ≤ r.length
  · by_cases hc0 : (csizeOf (r.take 4)).natAbs = 0
    · -- zero size: nothing more is read
      rw [inp_raw_rd_zero true x r junk h4 hc0]
      obtain ⟨h1, h2, h3, _⟩ := hx
      refine ⟨⟨h1, by simp [Mpz.abssize], h3, by simp⟩, ?_⟩
      have : csizeOf (r.take 4) = 0 := by omega
      simp [h4, this, Mpz.toInt, Mpz.limbs, Mpz.abssize, beVal]
    · obtain ⟨ra, rn, rl⟩ := realloc_spec hx (rawN (r.take 4)) hj
      have hNdef : rawN (r.take 4) = ((csizeOf (r.take 4)).natAbs * 8 + 63) / 64 := rfl
      generalize hc : (csizeOf (r.take 4)).natAbs = c at *
      generalize hN : rawN (r.take 4) = N at *
      have hN1 : 1 ≤ N := by omega
      have hsetlen : ((mpz_realloc x N junk).d.set 0 0).length = (mpz_realloc x N junk).alloc := by simp [ra]
      by_cases hfull : 4 + c ≤ r.length
      · -- all data present
        have e := inp_raw_rd_full true x r junk h4 (by rw [hc]; exact hc0) (by rw [hc]; exact hfull)
        rw [hc, hN] at e
        rw [e]
        have hdl : ((r.drop 4).take c).length = c := by simp; omega
        have hdb : Bytes ((r.drop 4).take c) := Bytes_take (Bytes_drop hr 4) c
        obtain ⟨mt, md⟩ := mem_full rl hNdef (by omega) (by omega) hdl
        have hany := mem_any (d1 := (mpz_realloc x N junk).d.set 0 0) (off := 8 * N - c) hdb (by simp; omega)
        have hmem : rawMem x (r.take 4) junk ((r.drop 4).take c)
            = bytesToLimbs (overwrite (limbsToBytes ((mpz_realloc x N junk).d.set 0 0)) (8 * N - c) ((r.drop 4).take c)) := by
          unfold rawMem; rw [hN, hc]
        have hm : (List.replicate (8 * N - c) 0 ++ (r.drop 4).take c).length = 8 * N := by simp; omega
        have hmb : Bytes (List.replicate (8 * N - c) 0 ++ (r.drop 4).take c) :=
          Bytes_append.mpr ⟨Bytes_replicate_zero _, hdb⟩
        obtain ⟨wf, ti⟩ := inp_raw_m_spec
          ⟨(mpz_realloc x N junk).alloc, rawSgn (r.take 4), rawMem x (r.take 4) junk ((r.drop 4).take c)⟩ N _
          hm hmb (by rw [hmem]; exact mt) (by rw [hmem]; simp [hany.1, hsetlen]) (by simpa using rn)
          (by rw [hmem]; exact hany.2) (8 * N - c) c
        refine ⟨wf, ?_⟩
        rw [if_pos ⟨h4, hfull⟩]
        refine ⟨rfl, by simp [List.drop_drop], ?_⟩
        simp only at ti ⊢
        rw [ti, beVal_append, beVal_replicate_zero]
        have hsg : (rawSgn (r.take 4) ≥ 0) ↔ csizeOf (r.take 4) ≥ 0 := by
          unfold rawSgn; split <;> omega
        simp only [hsg]
        simp
      · -- short read of the limb data
        have e := inp_raw_rd_short_data true x r junk h4 (by rw [hc]; exact hc0) (by rw [hc]; exact hfull)
        rw [hN] at e
        rw [e]
        have hdb : Bytes (r.drop 4) := Bytes_drop hr 4
        have hany := mem_any (d1 := (mpz_realloc x N junk).d.set 0 0) (off := 8 * N - c) hdb (by simp; omega)
        have hmem : rawMem x (r.take 4) junk (r.drop 4)
            = bytesToLimbs (overwrite (limbsToBytes ((mpz_realloc x N junk).d.set 0 0)) (8 * N - c) (r.drop 4)) := by
          unfold rawMem; rw [hN, hc]
        refine ⟨⟨by rw [hmem]; simp [hany.1, hsetlen], by simp [Mpz.abssize], by rw [hmem]; exact hany.2, by simp⟩, ?_⟩
        rw [if_neg (by omega)]
        exact ⟨rfl, rfl⟩
  · -- short read of the header: destination untouched
    rw [inp_raw_rd_short_hdr true x r junk (by omega)]
    refine ⟨hx, ?_⟩
    rw [if_neg (by omega)]
    exact ⟨rfl, rfl⟩


/-! ### header and stream facts used by the property theorems -/

theorem outRawBytes_bytes (v : Int) : Bytes (outRawBytes v) :=
  Bytes_append.mpr ⟨beBytes_bytes _ _, beBytes_bytes _ _⟩

theorem csizeOf_hdrBytes (s : Int) (h1 : -2147483648 ≤ s) (h2 : s < 2147483648) : csizeOf (hdrBytes s) = s := by
  unfold hdrBytes csizeOf
  generalize hm : (s % 4294967296).toNat = m
  have hm4 : m < 4294967296 := by omega
  simp only [beBytes, leBytes, List.reverse_cons, List.reverse_nil, List.nil_append, List.cons_append,
    List.getD_cons_zero, List.getD_cons_succ]
  have hc : ((m / 256 / 256 / 256 % 256 * 256 + m / 256 / 256 % 256) * 256 + m / 256 % 256) * 256 + m % 256 = m := by
    omega
  rw [hc]
  split <;> omega

/-- the leading byte of the minimal big-endian image is not zero -/
theorem beBytes_head_ne_zero {v : Nat} (hv : v ≠ 0) : (beBytes (byteLen v) v).headD 0 ≠ 0 := by
  have hbl : 0 < byteLen v := by unfold byteLen; have := bitLen_pos hv; omega
  obtain ⟨n, hn⟩ : ∃ n, byteLen v = n + 1 := ⟨byteLen v - 1, by omega⟩
  rw [hn]
  have : beBytes (n + 1) v = (v / 256 ^ n % 256) :: beBytes n v := by
    unfold beBytes; rw [leBytes_add n 1 v]; simp [leBytes]
  rw [this]; simp only [List.headD_cons]
  -- 256^n ≤ v < 256^(n+1)
  have hlt := lt_pow_byteLen v
  rw [hn] at hlt
  have hge : 256 ^ n ≤ v := by
    have h2 := two_pow_le_of_bitLen hv
    have : 8 * n ≤ bitLen v - 1 := by unfold byteLen at hn; omega
    calc 256 ^ n = 2 ^ (8 * n) := by rw [show (256 : Nat) = 2 ^ 8 by norm_num, ← pow_mul]
      _ ≤ 2 ^ (bitLen v - 1) := Nat.pow_le_pow_right (by decide) this
      _ ≤ v := h2
  have hq : 0 < v / 256 ^ n := Nat.div_pos hge (pow_pos (by decide) n)
  have hq2 : v / 256 ^ n < 256 := by
    rw [Nat.div_lt_iff_lt_mul (pow_pos (by decide) n)]; rw [pow_succ] at hlt; linarith
  rw [Nat.mod_eq_of_lt hq2]; omega

/-- the stream `outRawBytes v ++ rest` seen through the header decoder -/
theorem outRaw_parts (v : Int) (hv : byteLen v.natAbs < 2 ^ 31) (rest : List Nat) :
    csizeOf ((outRawBytes v ++ rest).take 4) = (if v < 0 then -(byteLen v.natAbs : Int) else byteLen v.natAbs) ∧
    (if (if v < 0 then -(byteLen v.natAbs : Int) else (byteLen v.natAbs : Int)) ≥ 0 then
        (beVal (((outRawBytes v ++ rest).drop 4).take
          (if v < 0 then -(byteLen v.natAbs : Int) else (byteLen v.natAbs : Int)).natAbs) : Int)
      else -(beVal (((outRawBytes v ++ rest).drop 4).take
          (if v < 0 then -(byteLen v.natAbs : Int) else (byteLen v.natAbs : Int)).natAbs) : Int)) = v ∧
    (outRawBytes v ++ rest).drop (4 + (if v < 0 then -(byteLen v.natAbs : Int) else (byteLen v.natAbs : Int)).natAbs) = rest ∧
    (if v < 0 then -(byteLen v.natAbs : Int) else (byteLen v.natAbs : Int)).natAbs = byteLen v.natAbs := by
  set n := byteLen v.natAbs with hn
  have hna : (if v < 0 then -(n : Int) else (n : Int)).natAbs = n := by split <;> omega
  have hh : (hdrBytes (if v < 0 then -(n : Int) else (n : Int))).length = 4 := by simp [hdrBytes]
  have hd : (beBytes n v.natAbs).length = n := by simp
  have e : outRawBytes v ++ rest = hdrBytes (if v < 0 then -(n : Int) else (n : Int)) ++ (beBytes n v.natAbs ++ rest) := by
    simp [outRawBytes, ← hn]
  have ht : (outRawBytes v ++ rest).take 4 = hdrBytes (if v < 0 then -(n : Int) else (n : Int)) := by
    rw [e, List.take_append_of_le_length (by omega), List.take_of_length_le (by omega)]
  have hdrop : (outRawBytes v ++ rest).drop 4 = beBytes n v.natAbs ++ rest := by
    rw [e, List.drop_append_of_le_length (by omega), List.drop_of_length_le (by omega)]; simp
  have hdata : ((outRawBytes v ++ rest).drop 4).take n = beBytes n v.natAbs := by
    rw [hdrop, List.take_append_of_le_length (by omega), List.take_of_length_le (by omega)]
  have hval : beVal (beBytes n v.natAbs) = v.natAbs := by
    rw [beVal_beBytes]; exact Nat.mod_eq_of_lt (lt_pow_byteLen _)
  have hn31 : n < 2147483648 := by simpa using hv
  refine ⟨?_, ?_, ?_, hna⟩
  · rw [ht]; apply csizeOf_hdrBytes <;> split <;> omega
  · rw [hna, hdata, hval]
    by_cases hneg : v < 0
    · simp only [hneg, if_true]
      have hnz : n ≠ 0 := by
        intro h0
        have : v.natAbs = 0 := by
          have := lt_pow_byteLen v.natAbs; rw [← hn, h0] at this; simpa using this
        omega
      have : ¬ (-(n : Int) ≥ 0) := by omega
      simp only [this, if_false]; omega
    · simp only [hneg, if_false]
      have : ((n : Int) ≥ 0) := by omega
      simp only [this, if_true]; omega
  · rw [hna, e, ← List.append_assoc, List.drop_append_of_le_length (by simp [hh]), List.drop_of_length_le (by simp [hh])]
    simp

/-! ### export: the EXTRACT accumulator -/

/-- the part of the operand not yet emitted -/
def XSt.R (s : XSt) : Nat := s.limb + 2 ^ s.lbits * val s.zp
/-- `limb` holds exactly `lbits` bits -/
def XSt.Inv (s : XSt) : Prop := s.limb < 2 ^ s.lbits ∧ Limbs s.zp

theorem val_headD_tail (l : List Nat) : val l = l.headD 0 + B * val l.tail := by
  cases l <;> simp

theorem or_shift_eq_add {a q l : Nat} (h : a < 2 ^ l) : a ||| (q <<< l) = a + q * 2 ^ l := by
  rw [Nat.or_comm, ← Nat.shiftLeft_add_eq_or_of_lt h, Nat.shiftLeft_eq]; ring

/-- `(W << l) mod 2^64` is `(W mod 2^(64-l)) << l` -/
theorem shl_mod_B {W l : Nat} (hl : l ≤ 64) : (W <<< l) % B = (W % 2 ^ (64 - l)) <<< l := by
  rw [Nat.shiftLeft_eq, Nat.shiftLeft_eq, B_eq_2]
  have : (2 : Nat) ^ 64 = 2 ^ (64 - l) * 2 ^ l := by rw [← pow_add]; congr 1; omega
  rw [this, Nat.mul_mod_mul_right]

theorem extract_spec {N : Nat} (hN1 : 1 ≤ N) (hN8 : N ≤ 8) (s : XSt) (h : s.Inv) :
    (extract N s).1 = s.R % 2 ^ N ∧ (extract N s).2.R = s.R / 2 ^ N ∧ (extract N s).2.Inv := by
  obtain ⟨hl, hz⟩ := h
  unfold extract
  by_cases hc : s.lbits ≥ N
  · simp only [hc, if_true]
    obtain ⟨k, hk⟩ : ∃ k, s.lbits = N + k := ⟨s.lbits - N, by omega⟩
    have hp : 2 ^ s.lbits = 2 ^ N * 2 ^ k := by rw [hk, pow_add]
    have hR : s.R = s.limb + 2 ^ N * (2 ^ k * val s.zp) := by unfold XSt.R; rw [hp]; ring
    refine ⟨?_, ?_, ?_, hz⟩
    · rw [hR, Nat.add_mul_mod_self_left]
    · simp only [XSt.R]
      rw [show s.limb + 2 ^ s.lbits * val s.zp = s.limb + 2 ^ N * (2 ^ k * val s.zp) from by rw [hp]; ring,
        Nat.add_mul_div_left _ _ (pow_pos (by decide) N), Nat.shiftRight_eq_div_pow]
      congr 2; congr 1; omega
    · simp only
      rw [Nat.shiftRight_eq_div_pow, Nat.div_lt_iff_lt_mul (pow_pos (by decide) N)]
      have : s.lbits - N = k := by omega
      rw [this, Nat.mul_comm, ← hp]; exact hl
  · simp only [hc, if_false]
    have hlt : s.lbits < N := by omega
    obtain ⟨j, hj⟩ : ∃ j, N = s.lbits + j := ⟨N - s.lbits, by omega⟩
    have hj1 : 1 ≤ j := by omega
    set W := s.zp.headD 0 with hW
    set l := s.lbits with hll
    have hWB : W < B := by
      cases hzp : s.zp with
      | nil => simp [hW, hzp]; exact B_pos
      | cons a t => rw [hzp] at hz; simp [hW, hzp]; exact (Limbs_cons.mp hz).1
    have htailL : Limbs s.zp.tail := by
      cases hzp : s.zp with
      | nil => simp [Limbs_nil]
      | cons a t => rw [hzp] at hz; simpa using (Limbs_cons.mp hz).2
    have hv := val_headD_tail s.zp
    rw [← hW] at hv
    -- the emitted bits
    have hp : 2 ^ N = 2 ^ l * 2 ^ j := by rw [hj, pow_add]
    have hB : B = 2 ^ j * 2 ^ (64 - j) := by rw [B_eq_2, ← pow_add]; congr 1; omega
    have hsh : (W <<< l) % B = (W % 2 ^ (64 - l)) * 2 ^ l := by rw [shl_mod_B (by omega), Nat.shiftLeft_eq]
    have hor : s.limb ||| (W <<< l) % B = s.limb + (W % 2 ^ (64 - l)) * 2 ^ l := by
      rw [shl_mod_B (by omega)]; exact or_shift_eq_add hl
    have hmodj : W % 2 ^ (64 - l) % 2 ^ j = W % 2 ^ j :=
      Nat.mod_mod_of_dvd _ (pow_dvd_pow 2 (by omega))
    have key : ∀ X : Nat, (s.limb + X * 2 ^ l) % 2 ^ N = s.limb + 2 ^ l * (X % 2 ^ j) := by
      intro X
      rw [hp, Nat.mod_mul]
      have h1 : (s.limb + X * 2 ^ l) % 2 ^ l = s.limb := by
        rw [Nat.add_mul_mod_self_right]; exact Nat.mod_eq_of_lt hl
      have h2 : (s.limb + X * 2 ^ l) / 2 ^ l = X := by
        rw [Nat.add_mul_div_right _ _ (pow_pos (by decide) l), Nat.div_eq_of_lt hl, Nat.zero_add]
      rw [h1, h2]
    have hRX : s.R = s.limb + (W + B * val s.zp.tail) * 2 ^ l := by unfold XSt.R; rw [hv]; ring
    refine ⟨?_, ?_, ?_, htailL⟩
    · rw [hor, key, hRX, key, hmodj]
      congr 2
      rw [hB, Nat.mul_assoc, Nat.add_mul_mod_self_left]
    · simp only [XSt.R]
      rw [show s.limb + 2 ^ l * val s.zp = s.limb + (W + B * val s.zp.tail) * 2 ^ l from by rw [hv]; ring,
        hp, ← Nat.div_div_eq_div_mul,
        Nat.add_mul_div_right _ _ (pow_pos (by decide) l), Nat.div_eq_of_lt hl, Nat.zero_add,
        Nat.shiftRight_eq_div_pow]
      have e1 : N - l = j := by omega
      have e2 : l + 64 - N = 64 - j := by omega
      rw [e1, e2]
      conv_rhs => rw [hB]
      rw [Nat.mul_assoc, Nat.add_mul_div_left _ _ (pow_pos (by decide) j)]
    · simp only
      rw [Nat.shiftRight_eq_div_pow]
      have e1 : N - l = j := by omega
      have e2 : l + 64 - N = 64 - j := by omega
      rw [e1, e2, Nat.div_lt_iff_lt_mul (pow_pos (by decide) j), Nat.mul_comm, ← hB]; exact hWB

theorem extractN8_spec (k : Nat) : ∀ (s : XSt), s.Inv →
    (extractN 8 k s).1 = leBytes k s.R ∧ (extractN 8 k s).2.R = s.R / 256 ^ k ∧ (extractN 8 k s).2.Inv := by
  induction k with
  | zero => intro s h; simp [extractN, leBytes, h]
  | succ k ih =>
    intro s h
    obtain ⟨e1, e2, e3⟩ := extract_spec (N := 8) (by decide) (by decide) s h
    obtain ⟨f1, f2, f3⟩ := ih _ e3
    simp only [extractN, leBytes]
    refine ⟨?_, ?_, f3⟩
    · rw [e1, f1, e2]; norm_num
    · rw [f2, e2, Nat.div_div_eq_div_mul]; congr 1; norm_num; ring

/-- the bytes of one word: `w` whole bytes, a partial byte of `b < 8` bits, zero fill -/
theorem word_bytes (R w b m : Nat) (hb : b < 8) (hm : (if b ≠ 0 then 1 else 0) ≤ m) :
    leBytes (w + m) (R % 2 ^ (8 * w + b)) =
      leBytes w R ++ (if b ≠ 0 then [R / 256 ^ w % 2 ^ b] else []) ++
        List.replicate (m - (if b ≠ 0 then 1 else 0)) 0 := by
  have hp : 2 ^ (8 * w + b) = 256 ^ w * 2 ^ b := by
    rw [pow_add, pow_mul]; norm_num
  rw [leBytes_add]
  have h1 : leBytes w (R % 2 ^ (8 * w + b)) = leBytes w R := by
    conv_rhs => rw [← Nat.mod_add_div R (2 ^ (8 * w + b)), hp, Nat.mul_assoc, leBytes_add_mul]
    rw [hp]
  have h2 : R % 2 ^ (8 * w + b) / 256 ^ w = R / 256 ^ w % 2 ^ b := by
    rw [hp, Nat.mod_mul_right_div_self]
  rw [h1, h2, List.append_assoc]
  congr 1
  by_cases hb0 : b = 0
  · subst hb0; simp [Nat.mod_one, leBytes_zero]
  · simp only [hb0, ne_eq, not_false_eq_true, if_true] at hm ⊢
    obtain ⟨m', rfl⟩ : ∃ m', m = m' + 1 := ⟨m - 1, by omega⟩
    have hu : R / 256 ^ w % 2 ^ b < 128 := by
      have : 2 ^ b ≤ 2 ^ 7 := Nat.pow_le_pow_right (by decide) (by omega)
      have := Nat.mod_lt (R / 256 ^ w) (pow_pos (by decide : 0 < 2) b)
      omega
    simp only [leBytes, List.singleton_append, Nat.add_sub_cancel]
    rw [Nat.mod_eq_of_lt (a := R / 256 ^ w % 2 ^ b) (b := 256) (by omega),
      Nat.div_eq_of_lt (a := R / 256 ^ w % 2 ^ b) (b := 256) (by omega), leBytes_zero]

theorem exportWord_spec (size wbytes wbits : Nat) (hb : wbits < 8)
    (hs : wbytes + (if wbits ≠ 0 then 1 else 0) ≤ size) (s : XSt) (h : s.Inv) :
    (exportWord size wbytes wbits s).1 = leBytes size (s.R % 2 ^ (8 * wbytes + wbits)) ∧
    (exportWord size wbytes wbits s).2.R = s.R / 2 ^ (8 * wbytes + wbits) ∧
    (exportWord size wbytes wbits s).2.Inv := by
  obtain ⟨e1, e2, e3⟩ := extractN8_spec wbytes s h
  have hsz : size = wbytes + (size - wbytes) := by omega
  have hp : 2 ^ (8 * wbytes + wbits) = 256 ^ wbytes * 2 ^ wbits := by rw [pow_add, pow_mul]; norm_num
  by_cases hb0 : wbits = 0
  · subst hb0
    have hw := word_bytes s.R wbytes 0 (size - wbytes) (by decide) (by simp)
    rw [← hsz] at hw
    simp only [exportWord, ne_eq, not_true_eq_false, if_false, List.length_nil, Nat.add_zero, List.append_nil,
      Nat.sub_zero] at hw ⊢
    refine ⟨by rw [hw, e1], by rw [e2]; simp [pow_mul], e3⟩
  · obtain ⟨g1, g2, g3⟩ := extract_spec (N := wbits) (by omega) (by omega) _ e3
    have hw := word_bytes s.R wbytes wbits (size - wbytes) hb (by rw [if_pos hb0] at hs ⊢; omega)
    rw [← hsz] at hw
    simp only [exportWord, hb0, ne_eq, not_false_eq_true, if_true, List.length_singleton] at hw ⊢
    refine ⟨?_, ?_, g3⟩
    · rw [hw, e1, g1, e2, Nat.sub_sub]
    · rw [g2, e2, hp, Nat.div_div_eq_div_mul]

theorem wordOf_succ (numb x i : Nat) : wordOf numb x (i + 1) = wordOf numb (x / 2 ^ numb) i := by
  unfold wordOf; rw [Nat.mul_succ, pow_add, Nat.div_div_eq_div_mul, Nat.mul_comm]

theorem wordOf_zero (numb x : Nat) : wordOf numb x 0 = x % 2 ^ numb := by simp [wordOf]

theorem exportWords_spec (size wbytes wbits : Nat) (hb : wbits < 8)
    (hs : wbytes + (if wbits ≠ 0 then 1 else 0) ≤ size) (c : Nat) : ∀ (s : XSt), s.Inv →
    exportWords size wbytes wbits c s =
      (List.range c).map (fun i => leBytes size (wordOf (8 * wbytes + wbits) s.R i)) := by
  induction c with
  | zero => intro s _; simp [exportWords]
  | succ c ih =>
    intro s h
    obtain ⟨e1, e2, e3⟩ := exportWord_spec size wbytes wbits hb hs s h
    simp only [exportWords]
    rw [ih _ e3, e1, e2, List.range_succ_eq_map, List.map_cons, List.map_map, wordOf_zero]
    congr 1
    apply List.map_congr_left
    intro i _
    simp [wordOf_succ]

/-! ### export: count, fast paths, the whole function -/

theorem bitLen_val_normalized {zl : List Nat} (hL : Limbs zl) (hne : zl ≠ []) (htop : TopNZ zl) :
    zl.length * 64 - clz (zl.getLastD 0) = bitLen (val zl) ∧ 0 < bitLen (val zl) := by
  obtain ⟨init, hi⟩ := exists_snoc_of_getLastD hne
  have ht0 := htop hne
  have hLs := hL; rw [hi] at hLs
  obtain ⟨hLi, hLt⟩ := Limbs_append.mp hLs
  have htB : zl.getLastD 0 < B := hLt _ (by simp)
  have hb := bitLen_val_snoc hLi ht0
  rw [← hi] at hb
  have h1 := bitLen_pos ht0
  have h2 := bitLen_le_64 htB
  have hlen : zl.length = init.length + 1 := by rw [hi]; simp
  rw [hb]; unfold clz; omega

theorem sizeinbase2exp_eq {zl : List Nat} (hL : Limbs zl) (hne : zl ≠ []) (htop : TopNZ zl) (numb : Nat) :
    sizeinbase2exp zl numb = exportCount numb (val zl) := by
  unfold sizeinbase2exp exportCount
  rw [(bitLen_val_normalized hL hne htop).1]

theorem wordOf64_cons {x : Nat} (hx : x < B) (V i : Nat) :
    wordOf 64 (x + B * V) (i + 1) = wordOf 64 V i := by
  rw [wordOf_succ, ← B_eq_2, Nat.add_mul_div_left _ _ B_pos, Nat.div_eq_of_lt hx, Nat.zero_add]

theorem words64 : ∀ (zl : List Nat), Limbs zl →
    (List.range zl.length).map (fun i => leBytes 8 (wordOf 64 (val zl) i)) = zl.map (leBytes 8) := by
  intro zl
  induction zl with
  | nil => intro _; simp
  | cons x xs ih =>
    intro h
    obtain ⟨hx, hxs⟩ := Limbs_cons.mp h
    rw [List.length_cons, List.range_succ_eq_map, List.map_cons, List.map_map, List.map_cons, ← ih hxs]
    congr 1
    · rw [wordOf_zero, val_cons, ← B_eq_2, Nat.add_mul_mod_self_left, Nat.mod_eq_of_lt hx]
    · apply List.map_congr_left
      intro i _
      simp only [Function.comp, val_cons]
      rw [wordOf64_cons hx]

theorem exportCount64 {zl : List Nat} (hL : Limbs zl) (hne : zl ≠ []) (htop : TopNZ zl) :
    exportCount 64 (val zl) = zl.length := by
  obtain ⟨h1, h2⟩ := bitLen_val_normalized hL hne htop
  obtain ⟨init, hi⟩ := exists_snoc_of_getLastD hne
  have ht0 := htop hne
  have hLs := hL; rw [hi] at hLs
  obtain ⟨hLi, hLt⟩ := Limbs_append.mp hLs
  have htB : zl.getLastD 0 < B := hLt _ (by simp)
  have hb := bitLen_val_snoc hLi ht0
  rw [← hi] at hb
  have := bitLen_pos ht0
  have := bitLen_le_64 htB
  have hlen : zl.length = init.length + 1 := by rw [hi]; simp
  unfold exportCount; rw [hb, hlen]; omega

theorem flatMap_eq_flatten_map (f : Nat → List Nat) (l : List Nat) : l.flatMap f = (l.map f).flatten := by
  simp [List.flatMap]

/-- `mpz_export` writes exactly the documented words -/
theorem mpz_export_spec (order endian : Int) (size nail align : Nat) (zl : List Nat)
    (ho : order = 1 ∨ order = -1) (he : endian = -1 ∨ endian = 0 ∨ endian = 1) (hs : 1 ≤ size)
    (hn : nail < 8 * size) (hL : Limbs zl) (htop : TopNZ zl) :
    mpz_export order size endian nail align zl =
      (exportCount (8 * size - nail) (val zl), exportBytes order size endian nail (val zl)) := by
  by_cases hne : zl = []
  · subst hne
    have : exportCount (8 * size - nail) 0 = 0 := by
      unfold exportCount; rw [bitLen_zero]; exact Nat.div_eq_of_lt (by omega)
    simp [mpz_export, mpz_export_core, exportBytes, this, layout]
  · have hcnt := sizeinbase2exp_eq hL hne htop (8 * size - nail)
    have hemp : zl.isEmpty = false := by cases zl <;> simp_all
    unfold mpz_export mpz_export_core
    simp only [hemp, Bool.false_eq_true, if_false, hcnt]
    by_cases hfast : nail = 0 ∧ size = 8 ∧ align = 0
    · obtain ⟨rfl, rfl, rfl⟩ := hfast
      have h64 := exportCount64 hL hne htop
      simp only [Nat.sub_zero, show 8 * 8 = 64 from rfl, h64, List.take_length, and_self, if_true]
      unfold exportBytes
      simp only [Nat.sub_zero, show 8 * 8 = 64 from rfl, h64, words64 zl hL]
      have hbe : (beBytes 8) = fun x => (leBytes 8 x).reverse := rfl
      rcases ho with rfl | rfl <;> rcases he with rfl | rfl | rfl <;>
        simp [layout, limbsToBytes, flatMap_eq_flatten_map, List.map_reverse, hbe, List.map_map, Function.comp_def]
    · simp only [hfast, if_false]
      have hb : (8 * size - nail) % 8 < 8 := Nat.mod_lt _ (by decide)
      have hsz : (8 * size - nail) / 8 + (if (8 * size - nail) % 8 ≠ 0 then 1 else 0) ≤ size := by
        split <;> omega
      have hinv : XSt.Inv { limb := 0, lbits := 0, zp := zl } := ⟨by simp, hL⟩
      have hR : XSt.R { limb := 0, lbits := 0, zp := zl } = val zl := by simp [XSt.R]
      rw [exportWords_spec size _ _ hb hsz _ _ hinv, hR]
      have hnumb : 8 * ((8 * size - nail) / 8) + (8 * size - nail) % 8 = 8 * size - nail := Nat.div_add_mod _ 8
      rw [hnumb]
      rfl

/-! ### export followed by import, at the level of the specs -/

theorem chunks_flatten (size : Nat) : ∀ (L : List (List Nat)), (∀ w ∈ L, w.length = size) →
    chunks size L.length L.flatten = L := by
  intro L
  induction L with
  | nil => intro _; rfl
  | cons w L ih =>
    intro h
    have hw : w.length = size := h w (by simp)
    have hL : ∀ v ∈ L, v.length = size := fun v hv => h v (by simp [hv])
    simp only [List.length_cons, chunks, List.flatten_cons]
    rw [List.take_append_of_le_length (by omega), List.take_of_length_le (by omega),
      List.drop_append_of_le_length (by omega), List.drop_of_length_le (by omega), List.nil_append, ih hL]

theorem unlayout_layout (order endian : Int) (size : Nat) (ws : List (List Nat))
    (h : ∀ w ∈ ws, w.length = size) :
    unlayout order endian size ws.length (layout order endian ws) = ws := by
  unfold unlayout layout
  set f : List Nat → List Nat := fun w => if endian ≥ 0 then w.reverse else w with hf
  have hff : ∀ w, f (f w) = w := by intro w; simp only [hf]; split <;> simp
  have hfl : ∀ w, (f w).length = w.length := by intro w; simp only [hf]; split <;> simp
  have hmap : ∀ w ∈ ws.map f, w.length = size := by
    intro w hw; rw [List.mem_map] at hw; obtain ⟨v, hv, rfl⟩ := hw; rw [hfl]; exact h v hv
  by_cases ho : order ≥ 0
  · simp only [ho, if_true]
    have hl : (ws.map f).reverse.length = ws.length := by simp
    have := chunks_flatten size (ws.map f).reverse (by intro w hw; exact hmap w (by simpa using hw))
    rw [hl] at this
    rw [this, List.reverse_reverse, List.map_map]
    conv_rhs => rw [← List.map_id ws]
    apply List.map_congr_left; intro w _; exact hff w
  · simp only [ho, if_false]
    have hl : (ws.map f).length = ws.length := by simp
    have := chunks_flatten size (ws.map f) hmap
    rw [hl] at this
    rw [this, List.map_map]
    conv_rhs => rw [← List.map_id ws]
    apply List.map_congr_left; intro w _; exact hff w

theorem wordOf_lt (numb x i : Nat) : wordOf numb x i < 2 ^ numb := Nat.mod_lt _ (pow_pos (by decide) _)

theorem sum_words (numb size : Nat) (hns : 2 ^ numb ≤ 256 ^ size) (c : Nat) : ∀ x : Nat,
    ((List.range c).map (fun i => leBytes size (wordOf numb x i))).foldr
      (fun w acc => leVal w % 2 ^ numb + 2 ^ numb * acc) 0 = x % 2 ^ (numb * c) := by
  induction c with
  | zero => intro x; simp [Nat.mod_one]
  | succ c ih =>
    intro x
    rw [List.range_succ_eq_map, List.map_cons, List.map_map, List.foldr_cons]
    have hcong : (List.map ((fun i => leBytes size (wordOf numb x i)) ∘ Nat.succ) (List.range c))
        = (List.range c).map (fun i => leBytes size (wordOf numb (x / 2 ^ numb) i)) := by
      apply List.map_congr_left; intro i _; simp [wordOf_succ]
    rw [hcong, ih, leVal_leBytes, wordOf_zero]
    have h1 : x % 2 ^ numb % 256 ^ size = x % 2 ^ numb :=
      Nat.mod_eq_of_lt (lt_of_lt_of_le (Nat.mod_lt _ (pow_pos (by decide) _)) hns)
    rw [h1, Nat.mod_mod, Nat.mul_succ, pow_add, Nat.mul_comm (2 ^ (numb * c)), Nat.mod_mul]

theorem lt_pow_count (numb x : Nat) (hn : 0 < numb) : x < 2 ^ (numb * exportCount numb x) := by
  apply bitLen_le_iff.mp
  unfold exportCount
  have h1 := Nat.div_add_mod (bitLen x + numb - 1) numb
  have h2 := Nat.mod_lt (bitLen x + numb - 1) hn
  generalize numb * ((bitLen x + numb - 1) / numb) = P at *
  omega

theorem numb_le (size nail : Nat) : 2 ^ (8 * size - nail) ≤ 256 ^ size := by
  rw [show (256 : Nat) = 2 ^ 8 by norm_num, ← pow_mul]
  exact Nat.pow_le_pow_right (by decide) (by omega)

theorem exportBytes_words (order endian : Int) (size nail x : Nat) :
    unlayout order (if endian = 0 then -1 else endian) size (exportCount (8 * size - nail) x)
      (exportBytes order size endian nail x)
    = (List.range (exportCount (8 * size - nail) x)).map (fun i => leBytes size (wordOf (8 * size - nail) x i)) := by
  unfold exportBytes
  have := unlayout_layout order (if endian = 0 then -1 else endian) size
    ((List.range (exportCount (8 * size - nail) x)).map (fun i => leBytes size (wordOf (8 * size - nail) x i)))
    (by intro w hw; rw [List.mem_map] at hw; obtain ⟨i, _, rfl⟩ := hw; simp)
  simpa using this

theorem import_export_value (order endian : Int) (size nail x : Nat) (hn : nail < 8 * size) :
    importValue order size endian nail (exportCount (8 * size - nail) x) (exportBytes order size endian nail x) = x := by
  unfold importValue
  simp only
  rw [exportBytes_words, sum_words _ _ (numb_le size nail)]
  exact Nat.mod_eq_of_lt (lt_pow_count _ _ (by omega))

/-! ### import: the ACCUMULATE accumulator -/

/-- value assembled so far -/
def ASt.A (s : ASt) : Nat := val s.out.reverse + B ^ s.out.length * s.limb
/-- bits consumed so far -/
def ASt.T (s : ASt) : Nat := 64 * s.out.length + s.lbits
def ASt.Inv (s : ASt) : Prop := s.limb < 2 ^ s.lbits ∧ s.lbits < 64 ∧ Limbs s.out

theorem accumulate_spec {N : Nat} (hN8 : N ≤ 8) {byte : Nat} (hb : byte < 2 ^ N) (s : ASt) (h : s.Inv) :
    (accumulate N byte s).A = s.A + byte * 2 ^ s.T ∧ (accumulate N byte s).T = s.T + N ∧
    (accumulate N byte s).Inv := by
  obtain ⟨hl, hl64, hout⟩ := h
  set l := s.lbits with hll
  set k := s.out.length with hk
  have hsplit : (2 : Nat) ^ 64 = 2 ^ (64 - l) * 2 ^ l := by rw [← pow_add]; congr 1; omega
  have hor : s.limb ||| (byte <<< l) % B = s.limb + (byte % 2 ^ (64 - l)) * 2 ^ l := by
    rw [shl_mod_B (by omega)]; exact or_shift_eq_add hl
  have hBk : B ^ k * 2 ^ l = 2 ^ (64 * k + l) := by rw [B_eq_2, ← pow_mul, ← pow_add]
  unfold accumulate
  by_cases hc : l + N ≥ 64
  · simp only [← hll, hc, if_true, hor]
    obtain ⟨j, hj⟩ : ∃ j, l + N = 64 + j := ⟨l + N - 64, by omega⟩
    have hNj : N - (l + N - 64) = 64 - l := by omega
    have hpN : 2 ^ N = 2 ^ (64 - l) * 2 ^ j := by rw [← pow_add]; congr 1; omega
    have hq : byte / 2 ^ (64 - l) < 2 ^ j := by
      rw [Nat.div_lt_iff_lt_mul (pow_pos (by decide) _), Nat.mul_comm, ← hpN]; exact hb
    have hlow : s.limb + byte % 2 ^ (64 - l) * 2 ^ l < B := by
      have h1 := Nat.mod_lt byte (pow_pos (by decide : 0 < 2) (64 - l))
      have h2 : (byte % 2 ^ (64 - l) + 1) * 2 ^ l ≤ 2 ^ (64 - l) * 2 ^ l := Nat.mul_le_mul_right _ h1
      rw [B_eq_2, hsplit]; nlinarith
    refine ⟨?_, ?_, ?_, by simp only; omega, Limbs_cons.mpr ⟨hlow, hout⟩⟩
    · simp only [ASt.A, ASt.T, List.reverse_cons, val_snoc, List.length_reverse, List.length_cons, ← hk, ← hll,
        Nat.shiftRight_eq_div_pow, hNj]
      have hd := Nat.mod_add_div byte (2 ^ (64 - l))
      have hB : B = 2 ^ (64 - l) * 2 ^ l := by rw [B_eq_2, hsplit]
      rw [← hBk, pow_succ]
      calc val s.out.reverse + B ^ k * (s.limb + byte % 2 ^ (64 - l) * 2 ^ l) + B ^ k * B * (byte / 2 ^ (64 - l))
          = val s.out.reverse + B ^ k * s.limb
            + B ^ k * ((byte % 2 ^ (64 - l) + 2 ^ (64 - l) * (byte / 2 ^ (64 - l))) * 2 ^ l) := by rw [hB]; ring
        _ = _ := by rw [hd]; ring
    · simp only [ASt.T, List.length_cons, ← hk, ← hll]; omega
    · simp only [Nat.shiftRight_eq_div_pow, hNj]
      have : l + N - 64 = j := by omega
      rw [this]; exact hq
  · simp only [← hll, hc, if_false, hor]
    have hlt : l + N < 64 := by omega
    have hbm : byte % 2 ^ (64 - l) = byte :=
      Nat.mod_eq_of_lt (lt_of_lt_of_le hb (Nat.pow_le_pow_right (by decide) (by omega)))
    rw [hbm]
    refine ⟨?_, ?_, ?_, by simp only; omega, hout⟩
    · simp only [ASt.A, ASt.T, ← hk, ← hll]; rw [← hBk]; ring
    · simp only [ASt.T, ← hk]; omega
    · simp only
      rw [pow_add]
      have : (byte + 1) * 2 ^ l ≤ 2 ^ N * 2 ^ l := Nat.mul_le_mul_right _ hb
      nlinarith

theorem foldl_acc8 : ∀ (bs : List Nat), Bytes bs → ∀ (s : ASt), s.Inv →
    (bs.foldl (fun s byte => accumulate 8 byte s) s).A = s.A + leVal bs * 2 ^ s.T ∧
    (bs.foldl (fun s byte => accumulate 8 byte s) s).T = s.T + 8 * bs.length ∧
    (bs.foldl (fun s byte => accumulate 8 byte s) s).Inv := by
  intro bs
  induction bs with
  | nil => intro _ s h; simp [h]
  | cons b bs ih =>
    intro hb s h
    obtain ⟨hb0, hbs⟩ := Bytes_cons.mp hb
    obtain ⟨e1, e2, e3⟩ := accumulate_spec (N := 8) (by decide) (by norm_num; exact hb0) s h
    obtain ⟨f1, f2, f3⟩ := ih hbs _ e3
    rw [List.foldl_cons]
    refine ⟨?_, ?_, f3⟩
    · rw [f1, e1, e2, leVal_cons, pow_add]; ring
    · rw [f2, e2, List.length_cons]; ring

/-- value of the data bits of one word -/
theorem word_value (w : List Nat) (wb b : Nat) (hb : b < 8) (hw : wb ≤ w.length) (hB : Bytes w) :
    leVal w % 2 ^ (8 * wb + b) = leVal (w.take wb) + 256 ^ wb * (w.getD wb 0 % 2 ^ b) := by
  have hp : 2 ^ (8 * wb + b) = 256 ^ wb * 2 ^ b := by rw [pow_add, pow_mul]; norm_num
  have hsplit : leVal w = leVal (w.take wb) + 256 ^ wb * leVal (w.drop wb) := by
    conv_lhs => rw [← List.take_append_drop wb w, leVal_append]
    simp [Nat.min_eq_left hw]
  have hlt : leVal (w.take wb) < 256 ^ wb := by
    have := leVal_lt (Bytes_take hB wb); simpa [Nat.min_eq_left hw] using this
  rw [hp, Nat.mod_mul, hsplit, Nat.add_mul_mod_self_left, Nat.mod_eq_of_lt hlt,
    Nat.add_mul_div_left _ _ (pow_pos (by decide) _), Nat.div_eq_of_lt hlt, Nat.zero_add]
  congr 2
  cases hd : w.drop wb with
  | nil =>
    have : w.length ≤ wb := by
      have := congrArg List.length hd; simp at this; omega
    simp [List.getD_eq_getElem?_getD, List.getElem?_eq_none this]
  | cons x t =>
    have hx : w.getD wb 0 = x := by
      have : w[wb]? = some x := by
        have := congrArg (fun l => l[0]?) hd
        simpa using this
      simp [List.getD_eq_getElem?_getD, this]
    rw [hx, leVal_cons]
    have h256 : 256 = 2 ^ b * 2 ^ (8 - b) := by
      rw [← pow_add, show b + (8 - b) = 8 by omega]; norm_num
    rw [h256, Nat.mul_assoc, Nat.add_mul_mod_self_left]

theorem importWord_spec (wbytes wbits : Nat) (hb : wbits < 8) (w : List Nat) (hB : Bytes w)
    (hw : wbytes + (if wbits ≠ 0 then 1 else 0) ≤ w.length) (s : ASt) (h : s.Inv) :
    (importWord wbytes wbits w s).A = s.A + (leVal w % 2 ^ (8 * wbytes + wbits)) * 2 ^ s.T ∧
    (importWord wbytes wbits w s).T = s.T + (8 * wbytes + wbits) ∧ (importWord wbytes wbits w s).Inv := by
  have hwl : wbytes ≤ w.length := by omega
  obtain ⟨e1, e2, e3⟩ := foldl_acc8 (w.take wbytes) (Bytes_take hB _) s h
  have htl : (w.take wbytes).length = wbytes := by simp [Nat.min_eq_left hwl]
  have hv := word_value w wbytes wbits hb hwl hB
  unfold importWord
  by_cases hb0 : wbits = 0
  · subst hb0
    simp only [ne_eq, not_true_eq_false, if_false]
    refine ⟨?_, by rw [e2, htl]; ring, e3⟩
    rw [e1, hv]; simp [Nat.mod_one]
  · simp only [hb0, ne_eq, not_false_eq_true, if_true]
    obtain ⟨g1, g2, g3⟩ := accumulate_spec (N := wbits) (by omega)
      (Nat.mod_lt _ (pow_pos (by decide) _) : w.getD wbytes 0 % 2 ^ wbits < 2 ^ wbits) _ e3
    refine ⟨?_, by rw [g2, e2, htl]; ring, g3⟩
    rw [g1, e1, e2, hv, htl, pow_add, pow_mul]; norm_num; ring

theorem importWords_spec (wbytes wbits size : Nat) (hb : wbits < 8)
    (hs : wbytes + (if wbits ≠ 0 then 1 else 0) ≤ size) : ∀ (ws : List (List Nat)),
    (∀ w ∈ ws, Bytes w ∧ w.length = size) → ∀ (s : ASt), s.Inv →
    (ws.foldl (fun s w => importWord wbytes wbits w s) s).A
      = s.A + 2 ^ s.T * ws.foldr (fun w acc => leVal w % 2 ^ (8 * wbytes + wbits) + 2 ^ (8 * wbytes + wbits) * acc) 0 ∧
    (ws.foldl (fun s w => importWord wbytes wbits w s) s).T = s.T + (8 * wbytes + wbits) * ws.length ∧
    (ws.foldl (fun s w => importWord wbytes wbits w s) s).Inv := by
  intro ws
  induction ws with
  | nil => intro _ s h; simp [h]
  | cons w ws ih =>
    intro hws s h
    obtain ⟨hwB, hwl⟩ := hws w (by simp)
    obtain ⟨e1, e2, e3⟩ := importWord_spec wbytes wbits hb w hwB (by omega) s h
    obtain ⟨f1, f2, f3⟩ := ih (fun v hv => hws v (by simp [hv])) _ e3
    rw [List.foldl_cons, List.foldr_cons]
    refine ⟨?_, ?_, f3⟩
    · rw [f1, e1, e2, pow_add]; ring
    · rw [f2, e2, List.length_cons]; ring

/-! ### import: the whole function -/

theorem chunks_spec (size : Nat) : ∀ (c : Nat) (l : List Nat), Bytes l → l.length = c * size →
    (chunks size c l).length = c ∧ ∀ w ∈ chunks size c l, Bytes w ∧ w.length = size := by
  intro c
  induction c with
  | zero => intro l _ _; simp [chunks]
  | succ c ih =>
    intro l hb hl
    have hd : (l.drop size).length = c * size := by simp [hl]; ring_nf; omega
    obtain ⟨i1, i2⟩ := ih (l.drop size) (Bytes_drop hb _) hd
    simp only [chunks, List.length_cons, i1, List.mem_cons, true_and]
    intro w hw
    rcases hw with rfl | hw
    · refine ⟨Bytes_take hb _, ?_⟩
      simp [hl]; ring_nf; omega
    · exact i2 w hw

theorem unlayout_spec (order endian : Int) (size count : Nat) (data : List Nat) (hb : Bytes data)
    (hl : data.length = count * size) :
    (unlayout order endian size count data).length = count ∧
    ∀ w ∈ unlayout order endian size count data, Bytes w ∧ w.length = size := by
  obtain ⟨c1, c2⟩ := chunks_spec size count data hb hl
  unfold unlayout
  constructor
  · simp only [List.length_map]; split <;> simp [c1]
  · intro w hw
    simp only [List.mem_map] at hw
    obtain ⟨v, hv, rfl⟩ := hw
    have hv' : v ∈ chunks size count data := by split at hv <;> simpa using hv
    obtain ⟨b1, b2⟩ := c2 v hv'
    split
    · exact ⟨Bytes_reverse.mpr b1, by simpa using b2⟩
    · exact ⟨b1, b2⟩

theorem bytesToLimbs_chunks : ∀ (c : Nat) (l : List Nat), l.length = 8 * c →
    bytesToLimbs l = (chunks 8 c l).map leVal := by
  intro c
  induction c with
  | zero => intro l hl; have : l = [] := List.eq_nil_of_length_eq_zero (by omega); subst this; simp [bytesToLimbs_nil, chunks]
  | succ c ih =>
    intro l hl
    have h8 : (l.take 8).length = 8 := by simp; omega
    have hd : (l.drop 8).length = 8 * c := by simp; omega
    conv_lhs => rw [← List.take_append_drop 8 l, bytesToLimbs_append8 h8]
    simp [chunks, ih _ hd]

theorem foldr_val64 : ∀ (ws : List (List Nat)), (∀ w ∈ ws, Bytes w ∧ w.length = 8) →
    ws.foldr (fun w acc => leVal w % 2 ^ 64 + 2 ^ 64 * acc) 0 = val (ws.map leVal) := by
  intro ws
  induction ws with
  | nil => intro _; rfl
  | cons w ws ih =>
    intro h
    obtain ⟨hb, hl⟩ := h w (by simp)
    have hlt : leVal w < 2 ^ 64 := by
      have := leVal_lt hb; rw [hl] at this; norm_num at this ⊢; exact this
    rw [List.foldr_cons, ih (fun v hv => h v (by simp [hv])), List.map_cons, val_cons, Nat.mod_eq_of_lt hlt, B_eq_2]

theorem map_leVal_reverse_eq_bswap : ∀ (ws : List (List Nat)), (∀ w ∈ ws, Bytes w ∧ w.length = 8) →
    (ws.map (fun w => w.reverse)).map leVal = (ws.map leVal).map bswap := by
  intro ws h
  rw [List.map_map, List.map_map]
  apply List.map_congr_left
  intro w hw
  obtain ⟨hb, hl⟩ := h w hw
  simp only [Function.comp]
  rw [bswap_leVal hl hb]; rfl

/-- `mpz_import`: the result is the documented sum of the data bits of the words, as a normalised
    limb vector -/
theorem mpz_import_spec (count : Nat) (order : Int) (size : Nat) (endian : Int) (nail align : Nat)
    (data : List Nat) (ho : order = 1 ∨ order = -1) (he : endian = -1 ∨ endian = 0 ∨ endian = 1)
    (hs : 1 ≤ size) (hn : nail < 8 * size) (hb : Bytes data) (hl : data.length = count * size) :
    val (mpz_import count order size endian nail align data) = importValue order size endian nail count data ∧
    Limbs (mpz_import count order size endian nail align data) ∧
    TopNZ (mpz_import count order size endian nail align data) := by
  -- it suffices to describe the limbs before normalisation
  suffices hzp : ∀ zp : List Nat, mpz_import count order size endian nail align data
      = normalize (zp.take ((count * (8 * size - nail) + 63) / 64)) →
      Limbs zp → val (zp.take ((count * (8 * size - nail) + 63) / 64)) = importValue order size endian nail count data →
      val (mpz_import count order size endian nail align data) = importValue order size endian nail count data ∧
      Limbs (mpz_import count order size endian nail align data) ∧
      TopNZ (mpz_import count order size endian nail align data) by
    set e' : Int := if endian = 0 then -1 else endian with he'
    have hee : e' = -1 ∨ e' = 1 := by rcases he with rfl | rfl | rfl <;> simp [he']
    obtain ⟨u1, u2⟩ := unlayout_spec order e' size count data hb hl
    by_cases hfast : nail = 0 ∧ size = 8 ∧ align = 0 ∧ ¬ (order = 1 ∧ e' = 1)
    · -- the three whole-limb fast paths
      obtain ⟨rfl, rfl, rfl, hne⟩ := hfast
      have hl8 : data.length = 8 * count := by omega
      have htk : data.take (8 * count) = data := List.take_of_length_le (by omega)
      have hbl := bytesToLimbs_length count data hl8
      have hz : (count * (8 * 8 - 0) + 63) / 64 = count := by omega
      have hbL := Limbs_bytesToLimbs count data hl8 hb
      have hiv : importValue order 8 endian 0 count data
          = val ((unlayout order e' 8 count data).map leVal) := by
        unfold importValue; simp only [← he']; exact foldr_val64 _ u2
      obtain ⟨c1, c2⟩ := chunks_spec 8 count data hb hl
      rcases ho with rfl | rfl <;> rcases hee with hE | hE
      · -- order 1, endian -1: MPN_REVERSE
        apply hzp (bytesToLimbs data).reverse
        · simp [mpz_import, mpz_import_core, mpz_import_fill, ← he', hE, htk]
        · exact Limbs_reverse.mpr hbL
        · rw [hz, List.take_of_length_le (by simp [hbl]), hiv, hE]
          simp [unlayout, bytesToLimbs_chunks count data hl8, List.map_reverse]
      · exact absurd ⟨rfl, hE⟩ hne
      · -- order -1, endian -1: MPN_COPY
        apply hzp (bytesToLimbs data)
        · simp [mpz_import, mpz_import_core, mpz_import_fill, ← he', hE, htk]
        · exact hbL
        · rw [hz, List.take_of_length_le (by simp [hbl]), hiv, hE]
          simp [unlayout, bytesToLimbs_chunks count data hl8]
      · -- order -1, endian 1: MPN_BSWAP
        apply hzp ((bytesToLimbs data).map bswap)
        · simp [mpz_import, mpz_import_core, mpz_import_fill, ← he', hE, htk]
        · exact Limbs_map_bswap _
        · rw [hz, List.take_of_length_le (by simp [hbl]), hiv, hE]
          simp only [unlayout, show ¬ ((-1 : Int) ≥ 0) by decide, if_false, show ((1 : Int) ≥ 0) by decide, if_true]
          rw [map_leVal_reverse_eq_bswap _ c2, bytesToLimbs_chunks count data hl8]
    · -- the generic loop
      have hbit : (8 * size - nail) % 8 < 8 := Nat.mod_lt _ (by decide)
      have hsz : (8 * size - nail) / 8 + (if (8 * size - nail) % 8 ≠ 0 then 1 else 0) ≤ size := by
        split <;> omega
      have hnumb : 8 * ((8 * size - nail) / 8) + (8 * size - nail) % 8 = 8 * size - nail := Nat.div_add_mod _ 8
      have hinv0 : ASt.Inv { limb := 0, lbits := 0, out := [] } := ⟨by simp, by simp, Limbs_nil⟩
      obtain ⟨f1, f2, f3⟩ := importWords_spec _ _ size hbit hsz (unlayout order e' size count data) u2 _ hinv0
      rw [hnumb] at f1 f2
      rw [u1] at f2
      set st := (unlayout order e' size count data).foldl
        (fun s w => importWord ((8 * size - nail) / 8) ((8 * size - nail) % 8) w s) { limb := 0, lbits := 0, out := [] }
        with hst
      obtain ⟨i1, i2, i3⟩ := f3
      simp only [ASt.A, ASt.T, List.reverse_nil, val_nil, List.length_nil, pow_zero, Nat.mul_zero, Nat.zero_add,
        Nat.one_mul, Nat.add_zero] at f1 f2
      have hval : val (if st.lbits ≠ 0 then st.limb :: st.out else st.out).reverse
          = importValue order size endian nail count data := by
        unfold importValue; simp only [← he']; rw [← f1]
        split
        · rw [List.reverse_cons, val_snoc, List.length_reverse]
        · have : st.limb = 0 := by
            have h0 : st.lbits = 0 := by omega
            rw [h0] at i1; simpa using i1
          rw [this]; simp
      have hlen : (if st.lbits ≠ 0 then st.limb :: st.out else st.out).reverse.length
          = (count * (8 * size - nail) + 63) / 64 := by
        rw [Nat.mul_comm count, ← f2]; split <;> simp <;> omega
      apply hzp (if st.lbits ≠ 0 then st.limb :: st.out else st.out).reverse
      · unfold mpz_import mpz_import_core mpz_import_fill
        have hnf : ¬ (nail = 0 ∧ size = 8 ∧ align = 0 ∧ order = -1 ∧ e' = -1) := by
          intro h; apply hfast; obtain ⟨a, b, c, d, e⟩ := h; exact ⟨a, b, c, by omega⟩
        have hnf2 : ¬ (nail = 0 ∧ size = 8 ∧ align = 0 ∧ order = -1 ∧ e' = 1) := by
          intro h; apply hfast; obtain ⟨a, b, c, d, e⟩ := h; exact ⟨a, b, c, by omega⟩
        have hnf3 : ¬ (nail = 0 ∧ size = 8 ∧ align = 0 ∧ order = 1 ∧ e' = -1) := by
          intro h; apply hfast; obtain ⟨a, b, c, d, e⟩ := h; exact ⟨a, b, c, by omega⟩
        simp only [← he', hnf, hnf2, hnf3, if_false, Bool.false_eq_true, ← hst]
      · apply Limbs_reverse.mpr
        split
        · refine Limbs_cons.mpr ⟨?_, i3⟩
          exact lt_of_lt_of_le i1 (by rw [B_eq_2]; exact Nat.pow_le_pow_right (by decide) (by omega))
        · exact i3
      · rw [← hlen, List.take_length, hval]
  intro zp hdef hL hv
  rw [hdef]
  refine ⟨by rw [val_normalize, hv], Limbs_normalize (Limbs_take hL _), ?_⟩
  obtain ⟨_, _, ht⟩ := normalize_spec (zp.take ((count * (8 * size - nail) + 63) / 64))
  exact ht


/-! ### shape of the exported byte string -/

theorem flatten_length_const (size : Nat) : ∀ (L : List (List Nat)), (∀ w ∈ L, w.length = size) →
    L.flatten.length = L.length * size := by
  intro L
  induction L with
  | nil => intro _; simp
  | cons w L ih =>
    intro h
    rw [List.flatten_cons, List.length_append, ih (fun v hv => h v (by simp [hv])), h w (by simp), List.length_cons]
    ring

theorem Bytes_flatten : ∀ (L : List (List Nat)), (∀ w ∈ L, Bytes w) → Bytes L.flatten := by
  intro L
  induction L with
  | nil => intro _; exact Bytes_nil
  | cons w L ih =>
    intro h
    rw [List.flatten_cons]
    exact Bytes_append.mpr ⟨h w (by simp), ih (fun v hv => h v (by simp [hv]))⟩

theorem layout_shape (order endian : Int) (size : Nat) (ws : List (List Nat))
    (h : ∀ w ∈ ws, Bytes w ∧ w.length = size) :
    (layout order endian ws).length = ws.length * size ∧ Bytes (layout order endian ws) := by
  unfold layout
  have hm : ∀ w ∈ ws.map (fun w => if endian ≥ 0 then w.reverse else w), Bytes w ∧ w.length = size := by
    intro w hw; rw [List.mem_map] at hw; obtain ⟨v, hv, rfl⟩ := hw
    obtain ⟨b1, b2⟩ := h v hv
    split
    · exact ⟨Bytes_reverse.mpr b1, by simpa using b2⟩
    · exact ⟨b1, b2⟩
  simp only
  generalize hws' : ws.map (fun w => if endian ≥ 0 then w.reverse else w) = ws' at hm
  have hlen : ws'.length = ws.length := by rw [← hws']; simp
  by_cases ho : order ≥ 0
  · simp only [ho, if_true]
    refine ⟨?_, Bytes_flatten _ (fun w hw => (hm w (by simpa using hw)).1)⟩
    rw [flatten_length_const size _ (fun w hw => (hm w (by simpa using hw)).2)]; simp [hlen]
  · simp only [ho, if_false]
    refine ⟨?_, Bytes_flatten _ (fun w hw => (hm w hw).1)⟩
    rw [flatten_length_const size _ (fun w hw => (hm w hw).2), hlen]

theorem exportBytes_shape (order endian : Int) (size nail x : Nat) :
    (exportBytes order size endian nail x).length = exportCount (8 * size - nail) x * size ∧
    Bytes (exportBytes order size endian nail x) := by
  unfold exportBytes
  have := layout_shape order (if endian = 0 then -1 else endian) size
    ((List.range (exportCount (8 * size - nail) x)).map (fun i => leBytes size (wordOf (8 * size - nail) x i)))
    (by intro w hw; rw [List.mem_map] at hw; obtain ⟨i, _, rfl⟩ := hw; exact ⟨leBytes_bytes _ _, by simp⟩)
  simpa using this

theorem ofU8_toU8 {l : List Nat} (h : Bytes l) : ofU8 (toU8 l) = l := by
  unfold ofU8 toU8
  rw [List.map_map]
  conv_rhs => rw [← List.map_id l]
  apply List.map_congr_left
  intro b hb
  have := h b hb
  simp [Function.comp, UInt8.toNat_ofNat']
  omega


/-- a normalised limb vector is determined by its value -/
theorem normalized_unique : ∀ {a b : List Nat}, Limbs a → TopNZ a → Limbs b → TopNZ b → val a = val b → a = b := by
  intro a
  induction a with
  | nil =>
    intro b _ _ hb tb h
    cases b with
    | nil => rfl
    | cons y ys =>
      exfalso
      -- val (y :: ys) = 0 forces all limbs 0, contradicting the non-zero top limb
      have hne : (y :: ys) ≠ [] := by simp
      obtain ⟨init, hi⟩ := exists_snoc_of_getLastD hne
      have ht := tb hne
      rw [hi, val_snoc] at h
      simp only [val_nil] at h
      have : 0 < B ^ init.length * (y :: ys).getLastD 0 :=
        Nat.mul_pos (pow_pos B_pos _) (Nat.pos_of_ne_zero ht)
      omega
  | cons x xs ih =>
    intro b ha ta hb tb h
    cases b with
    | nil =>
      exfalso
      have hne : (x :: xs) ≠ [] := by simp
      obtain ⟨init, hi⟩ := exists_snoc_of_getLastD hne
      have ht := ta hne
      rw [hi, val_snoc] at h
      simp only [val_nil] at h
      have : 0 < B ^ init.length * (x :: xs).getLastD 0 :=
        Nat.mul_pos (pow_pos B_pos _) (Nat.pos_of_ne_zero ht)
      omega
    | cons y ys =>
      obtain ⟨hx, hxs⟩ := Limbs_cons.mp ha
      obtain ⟨hy, hys⟩ := Limbs_cons.mp hb
      simp only [val_cons] at h
      have e1 : x = y := by
        have := congrArg (· % B) h
        simp only [Nat.add_mul_mod_self_left] at this
        rwa [Nat.mod_eq_of_lt hx, Nat.mod_eq_of_lt hy] at this
      have e2 : val xs = val ys := by
        subst e1
        have : B * val xs = B * val ys := by omega
        exact Nat.eq_of_mul_eq_mul_left B_pos this
      have txs : TopNZ xs := by
        intro hne
        have := ta (by simp)
        cases xs with
        | nil => exact absurd rfl hne
        | cons a as => rw [List.getLastD_cons, List.getLastD_cons] at this; rw [List.getLastD_cons]; exact this
      have tys : TopNZ ys := by
        intro hne
        have := tb (by simp)
        cases ys with
        | nil => exact absurd rfl hne
        | cons a as => rw [List.getLastD_cons, List.getLastD_cons] at this; rw [List.getLastD_cons]; exact this
      rw [e1, ih hxs txs hys tys e2]

/-! ### output streams over an arbitrary sink -/

/-- accounting invariant of a stream: what the sink took never exceeds what was handed over, the error flag is
    set exactly when something was dropped, and exactly then some write call came back short.  With
    `ko = some k` the sink is moreover the harness's (`sinkFailAt k`) and the flag is set exactly when the
    position has passed `k`. -/
def Faulty (ko : Option Nat) (s : OStream) : Prop :=
  s.out.length ≤ s.pos ∧ (s.err = true ↔ s.out.length < s.pos) ∧ (s.fired = 0 ↔ s.out.length = s.pos) ∧
  (∀ k, ko = some k → s.sink = sinkFailAt k ∧ (s.err = true ↔ k < s.pos))

/-- a stream whose sink takes everything -/
def Healthy (s : OStream) : Prop :=
  (∀ p n, s.sink p n = n) ∧ s.err = false ∧ s.fired = 0 ∧ s.pos = s.out.length

theorem faulty_init (f : Nat → Nat → Nat) : Faulty none { sink := f } := by simp [Faulty]
theorem faulty_init_at (k : Nat) : Faulty (some k) { sink := sinkFailAt k } := by simp [Faulty]
theorem healthy_init : Healthy {} := by simp [Healthy]

theorem write_sticky (s : OStream) (chunk : List Nat) (h : s.err = true) : (s.write chunk).1.err = true := by
  unfold OStream.write
  split
  · exact h
  · simp [h]

theorem err_false_of_write {s : OStream} {chunk : List Nat} (he : (s.write chunk).1.err = false) : s.err = false := by
  cases h : s.err with
  | false => rfl
  | true => have := write_sticky s chunk h; rw [he] at this; cases this

theorem write_faulty {ko : Option Nat} {s : OStream} (h : Faulty ko s) (chunk : List Nat) :
    Faulty ko (s.write chunk).1 ∧ (s.write chunk).1.pos = s.pos + chunk.length ∧
    ((s.write chunk).1.err = false → (s.write chunk).2 = chunk.length) := by
  obtain ⟨h1, h2, h3, h4⟩ := h
  unfold OStream.write
  by_cases hc : chunk.isEmpty
  · have : chunk = [] := by simpa using hc
    subst this
    simp only [List.isEmpty_nil, if_true, List.length_nil, Nat.add_zero]
    exact ⟨⟨h1, h2, h3, h4⟩, trivial, fun _ => trivial⟩
  · simp only [hc, Bool.false_eq_true, if_false]
    have hpos : 0 < chunk.length := by
      cases chunk with
      | nil => simp at hc
      | cons a t => simp
    generalize ha : min (s.sink s.pos chunk.length) chunk.length = a
    have hal : a ≤ chunk.length := by rw [← ha]; exact Nat.min_le_right _ _
    refine ⟨⟨?_, ?_, ?_, ?_⟩, trivial, ?_⟩
    · simp only [List.length_append, List.length_take]; omega
    · simp only [List.length_append, List.length_take, Bool.or_eq_true, decide_eq_true_eq, h2]; omega
    · simp only [List.length_append, List.length_take]
      by_cases hlt : a < chunk.length
      · simp only [hlt, if_true]; omega
      · simp only [hlt, if_false]; omega
    · intro k hk
      obtain ⟨g1, g2⟩ := h4 k hk
      refine ⟨g1, ?_⟩
      simp only [Bool.or_eq_true, decide_eq_true_eq, g2]
      have hs : s.sink s.pos chunk.length = if k < s.pos then 0 else if k < s.pos + chunk.length then k - s.pos
          else chunk.length := by rw [g1]; rfl
      rw [hs] at ha
      by_cases c1 : k < s.pos
      · simp only [c1, if_true] at ha; omega
      · by_cases c2 : k < s.pos + chunk.length
        · simp only [c1, if_false, c2, if_true] at ha; omega
        · simp only [c1, if_false, c2] at ha; omega
    · simp only [Bool.or_eq_false_iff, decide_eq_false_iff_not]
      intro hh; omega

theorem write_healthy {s : OStream} (h : Healthy s) (chunk : List Nat) :
    Healthy (s.write chunk).1 ∧ (s.write chunk).1.out = s.out ++ chunk ∧ (s.write chunk).2 = chunk.length := by
  obtain ⟨hf, he, hfi, hp⟩ := h
  unfold OStream.write
  by_cases hc : chunk.isEmpty
  · have : chunk = [] := by simpa using hc
    subst this; simp [Healthy, hf, he, hfi, hp]
  · simp only [hc, Bool.false_eq_true, if_false, hf, Nat.min_self, List.take_length, Nat.lt_irrefl, decide_false,
      Bool.or_false, if_false, Nat.add_zero]
    refine ⟨⟨hf, he, hfi, by simp [hp]⟩, trivial, trivial⟩

/-- number of bytes `mpz_out_str` writes -/
def mpzTextLen (base : Int) (x : Int) : Nat :=
  match outBase base with
  | none => 0
  | some b => if x = 0 then 1 else (if x < 0 then 1 else 0) + (magText base b x.natAbs).length

theorem mpz_out_str_sticky (s : OStream) (base x : Int) (h : s.err = true) : (mpz_out_str s base x).2.err = true := by
  unfold mpz_out_str
  cases outBase base with
  | none => exact h
  | some b =>
    simp only
    split
    · exact write_sticky _ _ h
    · split
      · exact write_sticky _ _ (write_sticky _ _ h)
      · exact write_sticky _ _ h

theorem err_false_of_mpz_out_str {s : OStream} {base x : Int} (he : (mpz_out_str s base x).2.err = false) :
    s.err = false := by
  cases h : s.err with
  | false => rfl
  | true => have := mpz_out_str_sticky s base x h; rw [he] at this; cases this

theorem mpz_out_str_faulty {ko : Option Nat} {s : OStream} (h : Faulty ko s) (base x : Int) :
    Faulty ko (mpz_out_str s base x).2 ∧ (mpz_out_str s base x).2.pos = s.pos + mpzTextLen base x ∧
    ((mpz_out_str s base x).2.err = true → (mpz_out_str s base x).1 = 0) ∧
    ((mpz_out_str s base x).2.err = false → (mpz_out_str s base x).1 = mpzTextLen base x) := by
  unfold mpz_out_str mpzTextLen
  cases hb : outBase base with
  | none =>
    simp only
    refine ⟨h, by simp, ?_, ?_⟩ <;> intro _ <;> simp
  | some b =>
    simp only
    by_cases hx : x = 0
    · simp only [hx, if_true]
      obtain ⟨w1, w2, w3⟩ := write_faulty h [48]
      refine ⟨w1, by simpa using w2, ?_, ?_⟩ <;> intro he <;> simp [he]
    · simp only [hx, if_false]
      by_cases hn : x < 0
      · simp only [hn, if_true]
        obtain ⟨w1, w2, w3⟩ := write_faulty h [45]
        obtain ⟨v1, v2, v3⟩ := write_faulty w1 (magText base b x.natAbs)
        refine ⟨v1, by rw [v2, w2]; simp; omega, ?_, ?_⟩ <;> intro he <;> simp [he]
        exact v3 he
      · simp only [hn, if_false]
        obtain ⟨v1, v2, v3⟩ := write_faulty h (magText base b x.natAbs)
        refine ⟨v1, by rw [v2]; simp, ?_, ?_⟩ <;> intro he <;> simp [he]
        exact v3 he

theorem mpz_out_str_healthy {s : OStream} (h : Healthy s) (base x : Int) :
    Healthy (mpz_out_str s base x).2 ∧
    (mpz_out_str s base x).2.out.length = s.out.length + mpzTextLen base x ∧
    (mpz_out_str s base x).1 = mpzTextLen base x := by
  unfold mpz_out_str mpzTextLen
  cases hb : outBase base with
  | none => simp only; exact ⟨h, by simp, by simp⟩
  | some b =>
    simp only
    by_cases hx : x = 0
    · simp only [hx, if_true]
      obtain ⟨w1, w2, w3⟩ := write_healthy h [48]
      refine ⟨w1, by rw [w2]; simp, ?_⟩
      simp [w1.2.1]
    · simp only [hx, if_false]
      by_cases hn : x < 0
      · simp only [hn, if_true]
        obtain ⟨w1, w2, w3⟩ := write_healthy h [45]
        obtain ⟨v1, v2, v3⟩ := write_healthy w1 (magText base b x.natAbs)
        refine ⟨v1, by rw [v2, w2]; simp; omega, ?_⟩
        simp [v1.2.1, v3]
      · simp only [hn, if_false]
        obtain ⟨v1, v2, v3⟩ := write_healthy h (magText base b x.natAbs)
        refine ⟨v1, by rw [v2]; simp, ?_⟩
        simp [v1.2.1, v3]

/-- what the invariant says at the end of a function that started on a fresh stream and handed over `n` bytes:
    the error flag is set exactly when the sink took fewer than `n` bytes, and then some write call was short -/
theorem faulty_final {ko : Option Nat} {s : OStream} (h : Faulty ko s) :
    (s.err = true ↔ s.out.length < s.pos) ∧ (s.err = false ↔ s.out.length = s.pos) ∧
    (s.err = true ↔ s.fired ≠ 0) ∧ s.out.length ≤ s.pos := by
  obtain ⟨h1, h2, h3, _⟩ := h
  refine ⟨h2, ?_, ?_, h1⟩
  · cases he : s.err with
    | false => rw [he] at h2; simp at h2; simp; omega
    | true => rw [he] at h2; simp at h2; simp; omega
  · rw [h2, Ne, h3]; omega

/-- number of bytes `mpq_out_str` writes -/
def mpqTextLen (base : Int) (num den : Int) : Nat :=
  mpzTextLen base num + (if den ≠ 1 then 1 + mpzTextLen base den else 0)

theorem mpq_out_str_faulty {ko : Option Nat} {s : OStream} (h : Faulty ko s) (base num den : Int) :
    Faulty ko (mpq_out_str s base num den).2 ∧ (mpq_out_str s base num den).2.pos = s.pos + mpqTextLen base num den ∧
    ((mpq_out_str s base num den).2.err = true → (mpq_out_str s base num den).1 = 0) ∧
    ((mpq_out_str s base num den).2.err = false → (mpq_out_str s base num den).1 = mpqTextLen base num den) := by
  obtain ⟨a1, a2, a3, a4⟩ := mpz_out_str_faulty h base num
  unfold mpq_out_str mpqTextLen
  by_cases hd : den ≠ 1
  · simp only [hd, ne_eq, not_false_eq_true, if_true]
    obtain ⟨w1, w2, _⟩ := write_faulty a1 [47]
    obtain ⟨b1, b2, b3, b4⟩ := mpz_out_str_faulty w1 base den
    refine ⟨b1, by rw [b2, w2, a2]; simp; omega, ?_, ?_⟩ <;> intro he <;> simp only [he, if_true, if_false, Bool.false_eq_true]
    have e1 := err_false_of_write (err_false_of_mpz_out_str he)
    rw [a4 e1, b4 he]
  · simp only [hd, if_false]
    refine ⟨a1, by rw [a2]; simp, ?_, ?_⟩ <;> intro he <;> simp only [he, if_true, if_false, Bool.false_eq_true]
    rw [a4 he]; simp

theorem mpq_out_str_healthy {s : OStream} (h : Healthy s) (base num den : Int) :
    Healthy (mpq_out_str s base num den).2 ∧
    (mpq_out_str s base num den).2.out.length = s.out.length + mpqTextLen base num den ∧
    (mpq_out_str s base num den).1 = mpqTextLen base num den := by
  obtain ⟨a1, a2, a3⟩ := mpz_out_str_healthy h base num
  unfold mpq_out_str mpqTextLen
  by_cases hd : den ≠ 1
  · simp only [hd, ne_eq, not_false_eq_true, if_true]
    obtain ⟨w1, w2, _⟩ := write_healthy a1 [47]
    obtain ⟨b1, b2, b3⟩ := mpz_out_str_healthy w1 base den
    refine ⟨b1, by rw [b2, w2]; simp [a2]; omega, ?_⟩
    simp only [b1.2.1, Bool.false_eq_true, if_false, a3, b3]
  · simp only [hd, if_false]
    refine ⟨a1, by rw [a2]; simp, ?_⟩
    simp only [a1.2.1, Bool.false_eq_true, if_false, a3]; simp

/-- number of bytes `mpf_out_str` writes for the digit string `str` (with its sign) and exponent `exp` -/
def mpfTextLen (_base : Int) (str : List Nat) (exp : Int) : Nat :=
  str.length + 2 + (1 + (intText exp).length)

theorem mpf_out_str_faulty {ko : Option Nat} {s : OStream} (h : Faulty ko s) (base : Int) (str : List Nat) (exp : Int) :
    Faulty ko (mpf_out_str s base str exp).2 ∧ (mpf_out_str s base str exp).2.pos = s.pos + mpfTextLen base str exp ∧
    ((mpf_out_str s base str exp).2.err = true → (mpf_out_str s base str exp).1 = 0) ∧
    ((mpf_out_str s base str exp).2.err = false → (mpf_out_str s base str exp).1 = mpfTextLen base str exp) := by
  unfold mpf_out_str mpfTextLen
  simp only
  by_cases hn : str.head? = some 45
  · simp only [hn, if_true]
    obtain ⟨c, t, rfl⟩ : ∃ c t, str = c :: t := by cases str <;> simp at hn ⊢
    simp only [List.tail_cons]
    obtain ⟨w1, p1, _⟩ := write_faulty h [45]
    obtain ⟨w2, p2, _⟩ := write_faulty w1 [48]
    obtain ⟨w3, p3, _⟩ := write_faulty w2 [46]
    obtain ⟨w4, p4, n4⟩ := write_faulty w3 t
    obtain ⟨w5, p5, n5⟩ := write_faulty w4 ((if (if base = 0 then 10 else base).natAbs ≤ 10 then 101 else 64) :: intText exp)
    refine ⟨w5, ?_, ?_, ?_⟩
    · rw [p5, p4, p3, p2, p1]; simp; omega
    · intro he; simp [he]
    · intro he
      have e4 := err_false_of_write he
      simp only [he, Bool.false_eq_true, if_false, n4 e4, n5 he, if_true]
      simp; omega
  · simp only [hn, if_false]
    obtain ⟨w2, p2, _⟩ := write_faulty h [48]
    obtain ⟨w3, p3, _⟩ := write_faulty w2 [46]
    obtain ⟨w4, p4, n4⟩ := write_faulty w3 str
    obtain ⟨w5, p5, n5⟩ := write_faulty w4 ((if (if base = 0 then 10 else base).natAbs ≤ 10 then 101 else 64) :: intText exp)
    refine ⟨w5, ?_, ?_, ?_⟩
    · rw [p5, p4, p3, p2]; simp; omega
    · intro he; simp [he]
    · intro he
      have e4 := err_false_of_write he
      simp only [he, Bool.false_eq_true, if_false, n4 e4, n5 he, if_true]
      simp; omega

/-- `mpz_out_raw` on any sink: one `fwrite` of the whole record; 0 unless the sink took all of it -/
theorem mpz_out_raw_faulty (z : Mpz) (f : Nat → Nat → Nat) :
    (f 0 (out_raw_m z).length < (out_raw_m z).length →
      (mpz_out_raw { sink := f } z).1 = 0 ∧ (mpz_out_raw { sink := f } z).2.fired = 1 ∧
      (mpz_out_raw { sink := f } z).2.out = (out_raw_m z).take (f 0 (out_raw_m z).length)) ∧
    ((out_raw_m z).length ≤ f 0 (out_raw_m z).length →
      (mpz_out_raw { sink := f } z).1 = (out_raw_m z).length ∧ (mpz_out_raw { sink := f } z).2.fired = 0 ∧
      (mpz_out_raw { sink := f } z).2.out = out_raw_m z) := by
  have hlen : 4 ≤ (out_raw_m z).length := by unfold out_raw_m; simp [hdrBytes]
  have hne : (out_raw_m z).isEmpty = false := by
    cases h : out_raw_m z with
    | nil => rw [h] at hlen; simp at hlen
    | cons a t => rfl
  constructor
  · intro hk
    have hmin : min (f 0 (out_raw_m z).length) (out_raw_m z).length = f 0 (out_raw_m z).length := by omega
    simp only [mpz_out_raw, OStream.write, hne, Bool.false_eq_true, if_false, hmin, hk, if_true]
    refine ⟨?_, trivial, by simp⟩
    have : f 0 (out_raw_m z).length ≠ (out_raw_m z).length := by omega
    simp [this]
  · intro hk
    have hmin : min (f 0 (out_raw_m z).length) (out_raw_m z).length = (out_raw_m z).length := by omega
    simp only [mpz_out_raw, OStream.write, hne, Bool.false_eq_true, if_false, hmin, Nat.lt_irrefl, if_false]
    simp

/-! ### truncated input -/

theorem inp_raw_truncated (v : Int) (hv : byteLen v.natAbs < 2 ^ 31) (k : Nat) (hk : k < (outRawBytes v).length)
    (x : Mpz) (hx : x.WF) (junk : Nat → Nat) (hj : ∀ i, junk i < B) :
    (mpz_inp_raw x ⟨outRawBytes v, some k⟩ junk).1 = 0 ∧ (mpz_inp_raw x ⟨outRawBytes v, some k⟩ junk).2.1.WF := by
  have hlen : (outRawBytes v).length = 4 + byteLen v.natAbs := by simp [outRawBytes, hdrBytes]
  have hb : Bytes ((outRawBytes v).take k) := Bytes_take (outRawBytes_bytes v) k
  obtain ⟨wf, h⟩ := inp_raw_rd_spec x hx ((outRawBytes v).take k) hb junk hj
  have hav : (Stream.mk (outRawBytes v) (some k)).avail = (outRawBytes v).take k := rfl
  unfold mpz_inp_raw
  rw [hav]
  refine ⟨?_, wf⟩
  have hkl : ((outRawBytes v).take k).length = k := by simp; omega
  by_cases h4 : 4 ≤ k
  · obtain ⟨e1, _, _, e4⟩ := outRaw_parts v hv []
    have ht : ((outRawBytes v).take k).take 4 = (outRawBytes v ++ []).take 4 := by
      rw [List.take_take, Nat.min_eq_left h4]; simp
    rw [ht, e1, e4, hkl, if_neg (by omega)] at h
    exact h.1
  · rw [hkl, if_neg (by omega)] at h
    exact h.1

/-- nothing but white space before the end of the stream -/
theorem skipWs_all_space : ∀ (ws : List Nat) (n : Nat), (∀ c ∈ ws, isspace c = true) →
    skipWs ws n = (none, [], n + ws.length + 1) := by
  intro ws
  induction ws with
  | nil => intro n _; simp [skipWs]
  | cons c ws ih =>
    intro n h
    have hc : isspace c = true := h c (by simp)
    simp only [skipWs, hc, if_true]
    rw [ih (n + 1) (fun d hd => h d (by simp [hd]))]
    simp; omega

theorem mpz_inp_str_eof (x : Int) (ws : List Nat) (base : Int) (h : ∀ c ∈ ws, isspace c = true) :
    (mpz_inp_str_rd x ws base).1 = 0 ∧ (mpz_inp_str_rd x ws base).2.1 = x := by
  unfold mpz_inp_str_rd
  rw [skipWs_all_space ws 0 h]
  unfold mpz_inp_str_nowhite
  by_cases hb : base > 62 <;> simp [hb]

theorem skipWs_space_then (ws : List Nat) (c : Nat) (rest : List Nat) (n : Nat)
    (h : ∀ d ∈ ws, isspace d = true) (hc : isspace c = false) :
    skipWs (ws ++ c :: rest) n = (some c, rest, n + ws.length + 1) := by
  induction ws generalizing n with
  | nil => simp [skipWs, hc]
  | cons d ws ih =>
    have hd : isspace d = true := h d (by simp)
    simp only [List.cons_append, skipWs, hd, if_true]
    rw [ih (n + 1) (fun e he => h e (by simp [he]))]
    simp; omega

/-- a sign and then the end of the stream -/
theorem mpz_inp_str_eof_sign (x : Int) (ws : List Nat) (base : Int) (h : ∀ c ∈ ws, isspace c = true) :
    (mpz_inp_str_rd x (ws ++ [45]) base).1 = 0 ∧ (mpz_inp_str_rd x (ws ++ [45]) base).2.1 = x := by
  unfold mpz_inp_str_rd
  rw [skipWs_space_then ws 45 [] 0 h (by decide)]
  unfold mpz_inp_str_nowhite
  by_cases hb : base > 62 <;> simp [hb, getc]


/-! ### text round trip (mpz) -/

theorem digitsVal_snoc (b : Nat) (l : List Nat) (d : Nat) : digitsVal b (l ++ [d]) = digitsVal b l * b + d := by
  simp [digitsVal, List.foldl_append]

/-- digits produced by the conversion loop -/
theorem natDigitsAux_spec (b : Nat) (hb : 2 ≤ b) : ∀ (fuel n : Nat) (acc : List Nat), n < 2 ^ fuel →
    ∃ ds, natDigitsAux b fuel n acc = ds ++ acc ∧ digitsVal b ds = n ∧ (∀ d ∈ ds, d < b) ∧
      (n ≠ 0 → ds ≠ [] ∧ ds.head? ≠ some 0) ∧ (n = 0 → ds = []) := by
  intro fuel
  induction fuel with
  | zero =>
    intro n acc hn
    have : n = 0 := by simpa using hn
    subst this
    exact ⟨[], by simp [natDigitsAux], by simp [digitsVal], by simp, by simp, by simp⟩
  | succ fuel ih =>
    intro n acc hn
    by_cases h0 : n = 0
    · subst h0
      exact ⟨[], by simp [natDigitsAux], by simp [digitsVal], by simp, by simp, by simp⟩
    · have hq : n / b < 2 ^ fuel := by
        have h1 : n / b ≤ n / 2 := Nat.div_le_div_left hb (by decide)
        have h2 : n / 2 < 2 ^ fuel := by rw [Nat.div_lt_iff_lt_mul (by decide)]; rw [pow_succ] at hn; exact hn
        omega
      obtain ⟨ds', e1, e2, e3, e4, e5⟩ := ih (n / b) (n % b :: acc) hq
      refine ⟨ds' ++ [n % b], ?_, ?_, ?_, ?_, ?_⟩
      · simp [natDigitsAux, h0, e1]
      · rw [digitsVal_snoc, e2]; exact Nat.div_add_mod' n b
      · intro d hd
        rcases List.mem_append.mp hd with h | h
        · exact e3 d h
        · have : d = n % b := by simpa using h
          rw [this]; exact Nat.mod_lt _ (by omega)
      · intro _
        refine ⟨by simp, ?_⟩
        by_cases hq0 : n / b = 0
        · rw [e5 hq0]
          have hlt : n < b := by
            rcases Nat.lt_or_ge n b with h | h
            · exact h
            · have := Nat.div_pos h (by omega : 0 < b); omega
          simp [Nat.mod_eq_of_lt hlt, h0]
        · obtain ⟨f1, f2⟩ := e4 hq0
          cases hds : ds' with
          | nil => exact absurd hds f1
          | cons a t => rw [hds] at f2; simpa using f2
      · intro h; exact absurd h h0

theorem natDigits_spec (b : Nat) (hb : 2 ≤ b) (n : Nat) :
    digitsVal b (natDigits b n) = n ∧ (∀ d ∈ natDigits b n, d < b) ∧
    (n ≠ 0 → natDigits b n ≠ [] ∧ (natDigits b n).head? ≠ some 0) ∧ (n = 0 → natDigits b n = []) := by
  obtain ⟨ds, e1, e2, e3, e4, e5⟩ := natDigitsAux_spec b hb (bitLen n) n [] (lt_two_pow_bitLen n)
  unfold natDigits
  rw [e1, List.append_nil]
  exact ⟨e2, e3, e4, e5⟩

/-- the character written for digit `d` reads back as `d` (table `big` ⇔ base above 36) and is neither
    white space, nor a sign -/
theorem digit_char (base : Int) (hb : (2 ≤ base ∧ base ≤ 62) ∨ (-36 ≤ base ∧ base ≤ -2)) (d : Nat)
    (hd : d < base.natAbs) :
    digitValue (decide ((base.natAbs : Int) > 36)) (numToText base d) = d ∧
    isspace (numToText base d) = false ∧ numToText base d ≠ 45 ∧ (numToText base d = 48 ↔ d = 0) := by
  unfold numToText digitValue isspace
  rcases hb with ⟨h1, h2⟩ | ⟨h1, h2⟩
  · have hpos : base ≥ 0 := by omega
    simp only [hpos, if_true]
    by_cases h36 : base ≤ 36
    · have hbig : ¬ ((base.natAbs : Int) > 36) := by omega
      simp only [h36, if_true, hbig, decide_false]
      by_cases hd10 : d < 10
      · simp only [hd10, if_true]
        refine ⟨?_, ?_, by omega, by omega⟩
        · rw [if_pos (by omega)]; omega
        · simp; omega
      · simp only [hd10, if_false]
        refine ⟨?_, ?_, by omega, by omega⟩
        · rw [if_neg (by omega), if_neg (by omega), if_pos (by omega)]; simp; omega
        · simp; omega
    · have hbig : ((base.natAbs : Int) > 36) := by omega
      simp only [h36, if_false, hbig, decide_true]
      by_cases hd10 : d < 10
      · simp only [hd10, if_true]
        refine ⟨?_, ?_, by omega, by omega⟩
        · rw [if_pos (by omega)]; omega
        · simp; omega
      · simp only [hd10, if_false]
        by_cases hd36 : d < 36
        · simp only [hd36, if_true]
          refine ⟨?_, ?_, by omega, by omega⟩
          · rw [if_neg (by omega), if_pos (by omega)]; omega
          · simp; omega
        · simp only [hd36, if_false]
          refine ⟨?_, ?_, by omega, by omega⟩
          · rw [if_neg (by omega), if_neg (by omega), if_pos (by omega)]; simp; omega
          · simp; omega
  · have hneg : ¬ base ≥ 0 := by omega
    have hbig : ¬ ((base.natAbs : Int) > 36) := by omega
    simp only [hneg, if_false, hbig, decide_false]
    by_cases hd10 : d < 10
    · simp only [hd10, if_true]
      refine ⟨?_, ?_, by omega, by omega⟩
      · rw [if_pos (by omega)]; omega
      · simp; omega
    · simp only [hd10, if_false]
      refine ⟨?_, ?_, by omega, by omega⟩
      · rw [if_neg (by omega), if_pos (by omega)]; omega
      · simp; omega

theorem ungetc_head_tail (r : List Nat) : ungetc r.head? r.tail = r := by cases r <;> rfl

theorem readDigits_stop (dv : Nat → Nat) (b c : Nat) (r acc : List Nat) (hc : dv c ≥ b) :
    readDigits dv b (some c) r acc = (acc.reverse, some c, r) := by
  cases r <;> simp [readDigits, hc]

/-- the digit loop reads exactly the characters of the digits and stops at the terminator -/
theorem readDigits_digits (dv : Nat → Nat) (b : Nat) (f : Nat → Nat) (rest : List Nat)
    (hrest : ∀ c, rest.head? = some c → dv c ≥ b) :
    ∀ (ds : List Nat) (d : Nat) (acc : List Nat), d < b → (∀ e ∈ ds, e < b) → (∀ e, e < b → dv (f e) = e) →
    readDigits dv b (some (f d)) (ds.map f ++ rest) acc = (acc.reverse ++ d :: ds, rest.head?, rest.tail) := by
  intro ds
  induction ds with
  | nil =>
    intro d acc hd _ hf
    have hdv := hf d hd
    have hnb : ¬ (d ≥ b) := by omega
    cases rest with
    | nil => simp [readDigits, hdv, hnb]
    | cons c r =>
      have hc : dv c ≥ b := hrest c rfl
      simp only [List.map_nil, List.nil_append, readDigits, hdv, hnb, if_false]
      rw [readDigits_stop dv b c r _ hc]
      simp
  | cons e ds ih =>
    intro d acc hd hds hf
    have hdv := hf d hd
    have hnb : ¬ (d ≥ b) := by omega
    have he : e < b := hds e (by simp)
    simp only [List.map_cons, List.cons_append, readDigits, hdv, hnb, if_false]
    rw [ih e (d :: acc) he (fun x hx => hds x (by simp [hx])) hf]
    simp

theorem skipZeros_ne (c : Nat) (hc : c ≠ 48) (r : List Nat) (n : Nat) : skipZeros (some c) r n = (some c, r, n) := by
  unfold skipZeros
  split <;> simp_all

/-- what `mpz_out_str` writes on a healthy stream -/
def mpzText (base : Int) (x : Int) : List Nat :=
  match outBase base with
  | none => []
  | some b => if x = 0 then [48] else (if x < 0 then [45] else []) ++ magText base b x.natAbs

theorem mpz_out_str_text (base x : Int) :
    (mpz_out_str {} base x).2.out = mpzText base x ∧ (mpz_out_str {} base x).1 = (mpzText base x).length := by
  unfold mpz_out_str mpzText
  cases hb : outBase base with
  | none => simp
  | some b =>
    simp only
    by_cases hx : x = 0
    · simp [hx, OStream.write]
    · simp only [hx, if_false]
      have hH : Healthy ({} : OStream) := healthy_init
      by_cases hn : x < 0
      · simp only [hn, if_true]
        obtain ⟨w1, w2, w3⟩ := write_healthy hH [45]
        obtain ⟨v1, v2, v3⟩ := write_healthy w1 (magText base b x.natAbs)
        refine ⟨by rw [v2, w2]; simp, ?_⟩
        simp [v1.2.1, v3]; omega
      · simp only [hn, if_false]
        obtain ⟨v1, v2, v3⟩ := write_healthy hH (magText base b x.natAbs)
        refine ⟨by simp [v2], ?_⟩
        simp [v1.2.1, v3]

/-- `mpz_inp_str_nowhite` in a fixed base `2 ≤ b ≤ 62`, started on the character of a non-zero digit
    `d0` that is followed by the characters of the digits `ds` and then by `rest` (empty, or starting
    with a character that is not a digit in base `b`) -/
theorem nowhite_digits (x : Int) (b : Nat) (hb2 : 2 ≤ b) (hb62 : b ≤ 62) (f : Nat → Nat)
    (hf : ∀ e, e < b → digitValue (decide ((b : Int) > 36)) (f e) = e ∧ f e ≠ 45 ∧ (f e = 48 ↔ e = 0))
    (d0 : Nat) (ds rest : List Nat) (hd0 : d0 < b) (hd0z : d0 ≠ 0) (hds : ∀ e ∈ ds, e < b)
    (hrest : ∀ c, rest.head? = some c → digitValue (decide ((b : Int) > 36)) c ≥ b) (nread : Nat) :
    mpz_inp_str_nowhite x (ds.map f ++ rest) (b : Int) (some (f d0)) nread
      = (nread + (ds.length + 1) - 1, (digitsVal b (d0 :: ds) : Int), rest) := by
  obtain ⟨h1, h2, h3⟩ := hf d0 hd0
  have hne48 : f d0 ≠ 48 := fun h => hd0z (h3.mp h)
  have hrd := readDigits_digits (digitValue (decide ((b : Int) > 36))) b f rest hrest ds d0 [] hd0 hds
    (fun e he => (hf e he).1)
  unfold mpz_inp_str_nowhite
  have hb62' : ¬ ((b : Int) > 62) := by omega
  have hb0 : ¬ ((b : Int) = 0) := by omega
  have hc45 : ¬ (some (f d0) = some 45) := by simpa using h2
  have hdig : ¬ ((digitValue (decide ((b : Int) > 36)) (f d0) : Int) ≥ (b : Int)) := by rw [h1]; omega
  simp only [hb62', if_false, hc45, hb0, hdig, Int.toNat_natCast, skipZeros_ne _ hne48, hrd,
    List.reverse_nil, List.nil_append, List.length_cons, ungetc_head_tail, List.isEmpty_cons, Bool.false_eq_true]

/-- the same after a minus sign -/
theorem nowhite_neg_digits (x : Int) (b : Nat) (hb2 : 2 ≤ b) (hb62 : b ≤ 62) (f : Nat → Nat)
    (hf : ∀ e, e < b → digitValue (decide ((b : Int) > 36)) (f e) = e ∧ f e ≠ 45 ∧ (f e = 48 ↔ e = 0))
    (d0 : Nat) (ds rest : List Nat) (hd0 : d0 < b) (hd0z : d0 ≠ 0) (hds : ∀ e ∈ ds, e < b)
    (hrest : ∀ c, rest.head? = some c → digitValue (decide ((b : Int) > 36)) c ≥ b) (nread : Nat) :
    mpz_inp_str_nowhite x (f d0 :: (ds.map f ++ rest)) (b : Int) (some 45) nread
      = (nread + 1 + (ds.length + 1) - 1, -(digitsVal b (d0 :: ds) : Int), rest) := by
  obtain ⟨h1, h2, h3⟩ := hf d0 hd0
  have hne48 : f d0 ≠ 48 := fun h => hd0z (h3.mp h)
  have hrd := readDigits_digits (digitValue (decide ((b : Int) > 36))) b f rest hrest ds d0 [] hd0 hds
    (fun e he => (hf e he).1)
  unfold mpz_inp_str_nowhite
  have hb62' : ¬ ((b : Int) > 62) := by omega
  have hb0 : ¬ ((b : Int) = 0) := by omega
  have hdig : ¬ ((digitValue (decide ((b : Int) > 36)) (f d0) : Int) ≥ (b : Int)) := by rw [h1]; omega
  simp only [hb62', if_false, if_true, getc, hb0, hdig, Int.toNat_natCast, skipZeros_ne _ hne48, hrd,
    List.reverse_nil, List.nil_append, List.length_cons, ungetc_head_tail, List.isEmpty_cons, Bool.false_eq_true]

theorem outBase_abs (base : Int) (hb : (2 ≤ base ∧ base ≤ 62) ∨ (-36 ≤ base ∧ base ≤ -2)) :
    outBase base = some base.natAbs := by
  unfold outBase
  rcases hb with ⟨h1, h2⟩ | ⟨h1, h2⟩
  · have a : base ≥ 0 := by omega
    have b : ¬ base = 0 := by omega
    have c : ¬ base > 62 := by omega
    simp only [a, if_true, b, if_false, c]
    congr 1; omega
  · have a : ¬ base ≥ 0 := by omega
    simp only [a, if_false]
    congr 1; omega

/-- stream-level round trip of `mpz_out_str` / `mpz_inp_str` for one number followed by `rest` -/
theorem mpz_text_roundtrip (base : Int) (hb : (2 ≤ base ∧ base ≤ 62) ∨ (-36 ≤ base ∧ base ≤ -2)) (x dest : Int)
    (rest : List Nat)
    (hrest : ∀ c, rest.head? = some c → digitValue (decide ((base.natAbs : Int) > 36)) c ≥ base.natAbs) :
    mpz_inp_str_rd dest (mpzText base x ++ rest) (base.natAbs : Int) = ((mpzText base x).length, x, rest) := by
  have hob := outBase_abs base hb
  have hb2 : 2 ≤ base.natAbs := by omega
  have hb62 : base.natAbs ≤ 62 := by omega
  have hf : ∀ e, e < base.natAbs →
      digitValue (decide ((base.natAbs : Int) > 36)) (numToText base e) = e ∧ numToText base e ≠ 45 ∧
      (numToText base e = 48 ↔ e = 0) := by
    intro e he; obtain ⟨a, _, c, d⟩ := digit_char base hb e he; exact ⟨a, c, d⟩
  unfold mpzText mpz_inp_str_rd
  rw [hob]
  simp only
  by_cases hx0 : x = 0
  · subst hx0
    simp only [if_true, List.cons_append, List.nil_append, List.length_singleton]
    have hsp : isspace 48 = false := by decide
    simp only [skipWs, hsp, Bool.false_eq_true, if_false]
    unfold mpz_inp_str_nowhite
    have hb62' : ¬ ((base.natAbs : Int) > 62) := by omega
    have hb0 : ¬ ((base.natAbs : Int) = 0) := by omega
    have hc45 : ¬ (some 48 = some 45) := by decide
    have hdv48 : digitValue (decide ((base.natAbs : Int) > 36)) 48 = 0 := by simp [digitValue]
    have hdig : ¬ ((digitValue (decide ((base.natAbs : Int) > 36)) 48 : Int) ≥ (base.natAbs : Int)) := by
      rw [hdv48]; omega
    simp only [hb62', if_false, hc45, hb0, hdig, Int.toNat_natCast]
    cases rest with
    | nil => simp [skipZeros, readDigits, ungetc]
    | cons c r =>
      have hc : digitValue (decide ((base.natAbs : Int) > 36)) c ≥ base.natAbs := hrest c rfl
      have hc48 : c ≠ 48 := by intro h; rw [h, hdv48] at hc; omega
      simp only [skipZeros, skipZeros_ne _ hc48, readDigits_stop _ _ c r [] hc]
      simp [ungetc]
  · simp only [hx0, if_false]
    obtain ⟨v1, v2, v3, _⟩ := natDigits_spec base.natAbs hb2 x.natAbs
    obtain ⟨n1, n2⟩ := v3 (by omega)
    unfold magText
    cases hds : natDigits base.natAbs x.natAbs with
    | nil => exact absurd hds n1
    | cons d0 ds =>
      rw [hds] at v1 v2 n2
      have hd0 : d0 < base.natAbs := v2 d0 (by simp)
      have hd0z : d0 ≠ 0 := by simpa using n2
      have hds' : ∀ e ∈ ds, e < base.natAbs := fun e he => v2 e (by simp [he])
      obtain ⟨_, hsp0, _, _⟩ := digit_char base hb d0 hd0
      by_cases hneg : x < 0
      · simp only [hneg, if_true, List.map_cons, List.cons_append, List.nil_append, List.length_cons, List.length_map]
        have hsp : isspace 45 = false := by decide
        simp only [skipWs, hsp, Bool.false_eq_true, if_false]
        rw [nowhite_neg_digits dest base.natAbs hb2 hb62 (numToText base) hf d0 ds rest hd0 hd0z hds' hrest, v1]
        have hxx : -(x.natAbs : Int) = x := by omega
        rw [hxx]; congr 1; omega
      · simp only [hneg, if_false, List.map_cons, List.cons_append, List.nil_append, List.length_cons, List.length_map]
        simp only [skipWs, hsp0, Bool.false_eq_true, if_false]
        rw [nowhite_digits dest base.natAbs hb2 hb62 (numToText base) hf d0 ds rest hd0 hd0z hds' hrest, v1]
        have hxx : (x.natAbs : Int) = x := by omega
        rw [hxx]; congr 1; omega


/-! ### gmp_fprintf through the repaired `__gmp_fprintf_funs` -/

theorem write_ok_or_fail {ko : Option Nat} {s : OStream} (h : Faulty ko s) (he : s.err = false) (chunk : List Nat)
    (hne : chunk ≠ []) :
    Faulty ko (s.write chunk).1 ∧
    (((s.write chunk).2 = chunk.length ∧ (s.write chunk).1.err = false ∧ (s.write chunk).1.pos = s.pos + chunk.length) ∨
     ((s.write chunk).2 < chunk.length ∧ (s.write chunk).1.err = true)) := by
  obtain ⟨w1, w2, w3⟩ := write_faulty h chunk
  refine ⟨w1, ?_⟩
  cases hE : (s.write chunk).1.err with
  | false => left; exact ⟨w3 hE, rfl, w2⟩
  | true =>
    right; refine ⟨?_, rfl⟩
    -- the error flag can only have been raised by this very write, which then came back short
    have hemp : chunk.isEmpty = false := by cases chunk <;> simp_all
    unfold OStream.write at hE ⊢
    simp only [hemp, Bool.false_eq_true, if_false, he, Bool.false_or, decide_eq_true_eq] at hE ⊢
    exact hE

/-- outcome of one output stage: either it reported −1 and the error flag is up, or it wrote all its `n` bytes
    without error -/
def StageOK (ko : Option Nat) (s : OStream) (n : Nat) (res : OStream × Int) : Prop :=
  Faulty ko res.1 ∧ ((res.2 = -1 ∧ res.1.err = true) ∨ (res.2 = (n : Int) ∧ res.1.err = false ∧ res.1.pos = s.pos + n))

theorem reps_go_stage {ko : Option Nat} (c : Nat) : ∀ (fuel i : Nat) (s : OStream), Faulty ko s → s.err = false → i ≤ 256 * fuel →
    Faulty ko (fprintfReps.go true c fuel i s).1 ∧
    (((fprintfReps.go true c fuel i s).2 = false ∧ (fprintfReps.go true c fuel i s).1.err = true) ∨
     ((fprintfReps.go true c fuel i s).2 = true ∧ (fprintfReps.go true c fuel i s).1.err = false ∧
      (fprintfReps.go true c fuel i s).1.pos = s.pos + i)) := by
  intro fuel
  induction fuel with
  | zero =>
    intro i s h he hi
    have : i = 0 := by omega
    subst this
    simp [fprintfReps.go, h, he]
  | succ fuel ih =>
    intro i s h he hi
    unfold fprintfReps.go
    by_cases hi0 : i = 0
    · subst hi0; simp [h, he]
    · simp only [hi0, if_false]
      have hpiece : List.replicate (min i 256) c ≠ [] := by
        intro hh; have := congrArg List.length hh; simp at this; omega
      obtain ⟨w1, w2⟩ := write_ok_or_fail h he (List.replicate (min i 256) c) hpiece
      rcases w2 with ⟨n1, e1, p1⟩ | ⟨n0, e0⟩
      · have hn : (s.write (List.replicate (min i 256) c)).2 = min i 256 := by simpa using n1
        simp only [hn, ne_eq, not_true_eq_false, and_false, if_false]
        obtain ⟨g1, g2⟩ := ih (i - min i 256) _ w1 e1 (by omega)
        refine ⟨g1, ?_⟩
        rcases g2 with g | ⟨ga, gb, gc⟩
        · left; exact g
        · right; refine ⟨ga, gb, ?_⟩
          rw [gc, p1]; simp
      · have hn : (s.write (List.replicate (min i 256) c)).2 ≠ min i 256 := by
          have : (s.write (List.replicate (min i 256) c)).2 < min i 256 := by simpa using n0
          omega
        simp only [hn, ne_eq, not_false_eq_true, and_self, if_true]
        exact ⟨w1, Or.inl ⟨trivial, e0⟩⟩

theorem reps_stage {ko : Option Nat} {s : OStream} (h : Faulty ko s) (he : s.err = false) (c reps : Nat) :
    StageOK ko s reps (fprintfReps true s c reps) := by
  obtain ⟨g1, g2⟩ := reps_go_stage (ko := ko) c (reps / 256 + 1) reps s h he (by omega)
  unfold StageOK fprintfReps
  simp only
  refine ⟨g1, ?_⟩
  rcases g2 with ⟨g, ge⟩ | ⟨ga, gb, gc⟩
  · left; simp [g, ge]
  · right; simp [ga, gb, gc]

theorem memory_stage {ko : Option Nat} {s : OStream} (h : Faulty ko s) (he : s.err = false) (t : List Nat) (ht : t ≠ []) :
    StageOK ko s t.length (fprintfMemory true s t) := by
  obtain ⟨w1, w2⟩ := write_ok_or_fail h he t ht
  unfold StageOK fprintfMemory
  simp only
  refine ⟨w1, ?_⟩
  rcases w2 with ⟨n1, e1, p1⟩ | ⟨n0, e0⟩
  · right; simp [n1, e1, p1]
  · left
    have : (s.write t).2 ≠ t.length := by omega
    simp [this, e0]

theorem format_stage {ko : Option Nat} {s : OStream} (h : Faulty ko s) (he : s.err = false) (t : List Nat) (ht : t ≠ []) :
    StageOK ko s t.length (fprintfFormat s t) := by
  obtain ⟨w1, w2⟩ := write_ok_or_fail h he t ht
  unfold StageOK fprintfFormat
  simp only
  refine ⟨w1, ?_⟩
  rcases w2 with ⟨n1, e1, p1⟩ | ⟨n0, e0⟩
  · right; simp [n1, e1, p1]
  · left
    have : (s.write t).2 ≠ t.length := by omega
    simp [this, e0]

theorem skip_stage {ko : Option Nat} {s : OStream} (h : Faulty ko s) (he : s.err = false) : StageOK ko s 0 (s, (0 : Int)) :=
  ⟨h, Or.inr ⟨rfl, he, rfl⟩⟩

/-- the repaired `gmp_fprintf` path on ANY stream satisfying the accounting invariant with no error pending: it
    reports −1 with the error flag up, or it has handed over the whole text without error and reports its length -/
theorem gmp_fprintf_stages {ko : Option Nat} (s0 : OStream) (h0 : Faulty ko s0) (he0 : s0.err = false)
    (pre : List Nat) (width base : Nat) (hb : 2 ≤ base) (x : Int) (post : List Nat) :
    Faulty ko (gmpFprintfModel true s0 pre width base x post).2 ∧
    (((gmpFprintfModel true s0 pre width base x post).1 = -1 ∧
      (gmpFprintfModel true s0 pre width base x post).2.err = true) ∨
     ((gmpFprintfModel true s0 pre width base x post).1 = ((fprintfText pre width base x post).length : Int) ∧
      (gmpFprintfModel true s0 pre width base x post).2.err = false ∧
      (gmpFprintfModel true s0 pre width base x post).2.pos = s0.pos + (fprintfText pre width base x post).length)) := by
  have hdigs : (if x = 0 then [48] else magText base base x.natAbs) ≠ [] := by
    split
    · simp
    · rename_i hx
      unfold magText
      have := (natDigits_spec base hb x.natAbs).2.2.1 (by omega)
      intro hh; exact this.1 (List.map_eq_nil_iff.mp hh)
  unfold gmpFprintfModel
  try simp only
  generalize hdg : (if x = 0 then [48] else magText base base x.natAbs) = digs at hdigs ⊢
  have htot : (fprintfText pre width base x post).length
      = pre.length + (width - ((if x < 0 then 1 else 0) + digs.length)) + (if x < 0 then 1 else 0) + digs.length + post.length := by
    unfold fprintfText; simp only [hdg]; split <;> simp <;> omega
  -- stage 1: text before the conversion
  have st1 : StageOK ko s0 pre.length
      (if pre.isEmpty then (s0, (0 : Int)) else fprintfFormat s0 pre) := by
    by_cases hp : pre.isEmpty
    · have : pre = [] := by simpa using hp
      subst this; simpa using skip_stage h0 he0
    · simp only [hp, Bool.false_eq_true, if_false]
      exact format_stage h0 he0 pre (by intro h; simp [h] at hp)
  generalize hs1 : (if pre.isEmpty then (s0, (0 : Int)) else fprintfFormat s0 pre) = q1 at st1 ⊢
  obtain ⟨s1, r1⟩ := q1
  obtain ⟨f1, o1⟩ := st1
  try simp only
  rcases o1 with ⟨o1, oe1⟩ | ⟨v1, e1, p1⟩
  · (try simp only at o1 oe1 f1); simp [o1, oe1, f1]
  try simp only at v1 e1 p1 f1
  have hr1 : ¬ r1 = -1 := by rw [v1]; omega
  simp only [hr1, if_false]
  -- stage 2: padding
  have st2 : StageOK ko s1 (width - ((if x < 0 then 1 else 0) + digs.length))
      (if ((width : Int) - ((digs.length : Int) + (if x < 0 then 1 else 0)) > 0) then
        fprintfReps true s1 32 ((width : Int) - ((digs.length : Int) + (if x < 0 then 1 else 0))).toNat else (s1, 0)) := by
    by_cases hj : ((width : Int) - ((digs.length : Int) + (if x < 0 then 1 else 0)) > 0)
    · simp only [hj, if_true]
      have : ((width : Int) - ((digs.length : Int) + (if x < 0 then 1 else 0))).toNat
          = width - ((if x < 0 then 1 else 0) + digs.length) := by
        by_cases hn : x < 0 <;> simp only [hn, if_true, if_false] at hj ⊢ <;> omega
      rw [this]; exact reps_stage f1 e1 32 _
    · simp only [hj, if_false]
      have : width - ((if x < 0 then 1 else 0) + digs.length) = 0 := by
        by_cases hn : x < 0 <;> simp only [hn, if_true, if_false] at hj ⊢ <;> omega
      rw [this]; exact skip_stage f1 e1
  generalize hs2 : (if ((width : Int) - ((digs.length : Int) + (if x < 0 then 1 else 0)) > 0) then
        fprintfReps true s1 32 ((width : Int) - ((digs.length : Int) + (if x < 0 then 1 else 0))).toNat else (s1, 0)) = q2 at st2 ⊢
  obtain ⟨s2, r2⟩ := q2
  obtain ⟨f2, o2⟩ := st2
  try simp only
  rcases o2 with ⟨o2, oe2⟩ | ⟨v2, e2, p2⟩
  · (try simp only at o2 oe2 f2); simp [o2, oe2, f2]
  try simp only at v2 e2 p2 f2
  have hr2 : ¬ r2 = -1 := by rw [v2]; omega
  simp only [hr2, if_false]
  -- stage 3: sign
  have st3 : StageOK ko s2 (if x < 0 then 1 else 0)
      (if (if x < 0 then (1 : Int) else 0) ≠ 0 then fprintfReps true s2 45 1 else (s2, 0)) := by
    by_cases hn : x < 0
    · simp only [hn, if_true, ne_eq, one_ne_zero, not_false_eq_true]; exact reps_stage f2 e2 45 1
    · simp only [hn, if_false, ne_eq, not_true_eq_false]; exact skip_stage f2 e2
  generalize hs3 : (if (if x < 0 then (1 : Int) else 0) ≠ 0 then fprintfReps true s2 45 1 else (s2, 0)) = q3 at st3 ⊢
  obtain ⟨s3, r3⟩ := q3
  obtain ⟨f3, o3⟩ := st3
  try simp only
  rcases o3 with ⟨o3, oe3⟩ | ⟨v3, e3, p3⟩
  · (try simp only at o3 oe3 f3); simp [o3, oe3, f3]
  try simp only at v3 e3 p3 f3
  have hr3 : ¬ r3 = -1 := by rw [v3]; split <;> omega
  simp only [hr3, if_false]
  -- stage 4: digits
  have st4 := memory_stage f3 e3 digs hdigs
  generalize hs4 : fprintfMemory true s3 digs = q4 at st4 ⊢
  obtain ⟨s4, r4⟩ := q4
  obtain ⟨f4, o4⟩ := st4
  try simp only
  rcases o4 with ⟨o4, oe4⟩ | ⟨v4, e4, p4⟩
  · (try simp only at o4 oe4 f4); simp [o4, oe4, f4]
  try simp only at v4 e4 p4 f4
  have hr4 : ¬ r4 = -1 := by rw [v4]; omega
  simp only [hr4, if_false]
  -- stage 5: text after the conversion
  have st5 : StageOK ko s4 post.length (if post.isEmpty then (s4, (0 : Int)) else fprintfFormat s4 post) := by
    by_cases hp : post.isEmpty
    · have : post = [] := by simpa using hp
      subst this; simpa using skip_stage f4 e4
    · simp only [hp, Bool.false_eq_true, if_false]
      exact format_stage f4 e4 post (by intro h; simp [h] at hp)
  generalize hs5 : (if post.isEmpty then (s4, (0 : Int)) else fprintfFormat s4 post) = q5 at st5 ⊢
  obtain ⟨s5, r5⟩ := q5
  obtain ⟨f5, o5⟩ := st5
  try simp only
  rcases o5 with ⟨o5, oe5⟩ | ⟨v5, e5, p5⟩
  · (try simp only at o5 oe5 f5); simp [o5, oe5, f5]
  -- everything was handed over without an error
  try simp only at v5 e5 p5 f5
  have hr5 : ¬ r5 = -1 := by rw [v5]; omega
  simp only [hr5, if_false]
  refine ⟨f5, Or.inr ⟨?_, e5, ?_⟩⟩
  · rw [v1, v2, v3, v4, v5, htot]; push_cast; split <;> simp <;> omega
  · rw [htot, p5, p4, p3, p2, p1]; omega

/-- the repaired `gmp_fprintf` path reports −1 for EVERY position at which the write fails -/
theorem gmp_fprintf_fault (k : Nat) (pre : List Nat) (width base : Nat) (hb : 2 ≤ base) (x : Int) (post : List Nat)
    (hk : k < (fprintfText pre width base x post).length) :
    (gmpFprintfModel true { sink := sinkFailAt k } pre width base x post).1 = -1 := by
  obtain ⟨f, o⟩ := gmp_fprintf_stages (ko := some k) { sink := sinkFailAt k } (faulty_init_at k) rfl pre width base hb x post
  rcases o with ⟨o, _⟩ | ⟨_, e, p⟩
  · exact o
  · exfalso
    have := (f.2.2.2 k rfl).2.mpr (by rw [p]; simpa using hk)
    rw [e] at this; exact absurd this (by simp)


/-! ### text round trip (mpq) -/

/-- `mpz_inp_str_nowhite` entered on the first character of what `mpz_out_str` wrote -/
theorem mpz_text_nowhite (base : Int) (hb : (2 ≤ base ∧ base ≤ 62) ∨ (-36 ≤ base ∧ base ≤ -2)) (x dest : Int)
    (rest : List Nat)
    (hrest : ∀ c, rest.head? = some c → digitValue (decide ((base.natAbs : Int) > 36)) c ≥ base.natAbs)
    (nread : Nat) :
    ∃ c0 t, mpzText base x = c0 :: t ∧
      mpz_inp_str_nowhite dest (t ++ rest) (base.natAbs : Int) (some c0) nread
        = (nread + (mpzText base x).length - 1, x, rest) := by
  have hob := outBase_abs base hb
  have hb2 : 2 ≤ base.natAbs := by omega
  have hb62 : base.natAbs ≤ 62 := by omega
  have hf : ∀ e, e < base.natAbs →
      digitValue (decide ((base.natAbs : Int) > 36)) (numToText base e) = e ∧ numToText base e ≠ 45 ∧
      (numToText base e = 48 ↔ e = 0) := by
    intro e he; obtain ⟨a, _, c, d⟩ := digit_char base hb e he; exact ⟨a, c, d⟩
  unfold mpzText
  rw [hob]
  simp only
  by_cases hx0 : x = 0
  · subst hx0
    refine ⟨48, [], by simp, ?_⟩
    simp only [if_true, List.nil_append, List.length_singleton]
    unfold mpz_inp_str_nowhite
    have hb62' : ¬ ((base.natAbs : Int) > 62) := by omega
    have hb0 : ¬ ((base.natAbs : Int) = 0) := by omega
    have hc45 : ¬ (some 48 = some 45) := by decide
    have hdv48 : digitValue (decide ((base.natAbs : Int) > 36)) 48 = 0 := by simp [digitValue]
    have hdig : ¬ ((digitValue (decide ((base.natAbs : Int) > 36)) 48 : Int) ≥ (base.natAbs : Int)) := by
      rw [hdv48]; omega
    simp only [hb62', if_false, hc45, hb0, hdig, Int.toNat_natCast]
    cases rest with
    | nil => simp [skipZeros, readDigits, ungetc]
    | cons c r =>
      have hc : digitValue (decide ((base.natAbs : Int) > 36)) c ≥ base.natAbs := hrest c rfl
      have hc48 : c ≠ 48 := by intro h; rw [h, hdv48] at hc; omega
      simp only [skipZeros, skipZeros_ne _ hc48, readDigits_stop _ _ c r [] hc]
      simp [ungetc]
  · simp only [hx0, if_false]
    obtain ⟨v1, v2, v3, _⟩ := natDigits_spec base.natAbs hb2 x.natAbs
    obtain ⟨n1, n2⟩ := v3 (by omega)
    unfold magText
    cases hds : natDigits base.natAbs x.natAbs with
    | nil => exact absurd hds n1
    | cons d0 ds =>
      rw [hds] at v1 v2 n2
      have hd0 : d0 < base.natAbs := v2 d0 (by simp)
      have hd0z : d0 ≠ 0 := by simpa using n2
      have hds' : ∀ e ∈ ds, e < base.natAbs := fun e he => v2 e (by simp [he])
      by_cases hneg : x < 0
      · refine ⟨45, numToText base d0 :: ds.map (numToText base), by simp [hneg], ?_⟩
        simp only [hneg, if_true, List.map_cons, List.cons_append, List.nil_append, List.length_cons, List.length_map]
        rw [nowhite_neg_digits dest base.natAbs hb2 hb62 (numToText base) hf d0 ds rest hd0 hd0z hds' hrest, v1]
        have hxx : -(x.natAbs : Int) = x := by omega
        rw [hxx]; congr 1; omega
      · refine ⟨numToText base d0, ds.map (numToText base), by simp [hneg], ?_⟩
        simp only [hneg, if_false, List.map_cons, List.nil_append, List.length_cons, List.length_map]
        rw [nowhite_digits dest base.natAbs hb2 hb62 (numToText base) hf d0 ds rest hd0 hd0z hds' hrest, v1]
        have hxx : (x.natAbs : Int) = x := by omega
        rw [hxx]

theorem mpz_out_str_append {s : OStream} (h : Healthy s) (base x : Int) :
    (mpz_out_str s base x).2.out = s.out ++ mpzText base x := by
  unfold mpz_out_str mpzText
  cases hb : outBase base with
  | none => simp
  | some b =>
    simp only
    by_cases hx : x = 0
    · simp only [hx, if_true]
      obtain ⟨w1, w2, w3⟩ := write_healthy h [48]
      exact w2
    · simp only [hx, if_false]
      by_cases hn : x < 0
      · simp only [hn, if_true]
        obtain ⟨w1, w2, w3⟩ := write_healthy h [45]
        obtain ⟨v1, v2, v3⟩ := write_healthy w1 (magText base b x.natAbs)
        rw [v2, w2]; simp
      · simp only [hn, if_false]
        obtain ⟨v1, v2, v3⟩ := write_healthy h (magText base b x.natAbs)
        rw [v2]; simp

/-- what `mpq_out_str` writes on a healthy stream -/
def mpqText (base : Int) (num den : Int) : List Nat :=
  mpzText base num ++ (if den ≠ 1 then 47 :: mpzText base den else [])

theorem mpq_out_str_text (base num den : Int) :
    (mpq_out_str {} base num den).2.out = mpqText base num den ∧
    (mpq_out_str {} base num den).1 = (mpqText base num den).length := by
  obtain ⟨b1, b2, b3⟩ := mpq_out_str_healthy healthy_init base num den
  obtain ⟨a1, a2, a3⟩ := mpz_out_str_healthy healthy_init base num
  obtain ⟨t1, t2⟩ := mpz_out_str_text base num
  have hlen : ∀ y, (mpzText base y).length = mpzTextLen base y := by
    intro y
    obtain ⟨u1, u2⟩ := mpz_out_str_text base y
    obtain ⟨_, _, w3⟩ := mpz_out_str_healthy healthy_init base y
    rw [← u2, w3]
  have hl : (mpqText base num den).length = mpqTextLen base num den := by
    unfold mpqText mpqTextLen; split <;> simp [hlen]; omega
  refine ⟨?_, by rw [b3, hl]⟩
  unfold mpq_out_str mpqText
  by_cases hd : den ≠ 1
  · simp only [hd, ne_eq, not_false_eq_true, if_true]
    obtain ⟨w1, w2, _⟩ := write_healthy a1 [47]
    -- the second mpz_out_str appends the text of den to whatever is in the stream
    have happ := mpz_out_str_append w1 base den
    rw [happ, w2, t1]; simp
  · simp only [hd, if_false, t1]; simp

theorem mpzText_length_pos (base : Int) (hb : (2 ≤ base ∧ base ≤ 62) ∨ (-36 ≤ base ∧ base ≤ -2)) (x : Int) :
    0 < (mpzText base x).length := by
  obtain ⟨c0, t, h, _⟩ := mpz_text_nowhite base hb x 0 [] (by simp) 0
  rw [h]; simp

/-- stream-level round trip of `mpq_out_str` / `mpq_inp_str` (raw fields; no canonicalisation on either side) -/
theorem mpq_text_roundtrip (base : Int) (hb : (2 ≤ base ∧ base ≤ 62) ∨ (-36 ≤ base ∧ base ≤ -2))
    (num den : Int) (q : Int × Int) (rest : List Nat)
    (hrest : ∀ c, rest.head? = some c → digitValue (decide ((base.natAbs : Int) > 36)) c ≥ base.natAbs)
    (hslash : rest.head? ≠ some 47) :
    mpq_inp_str_rd q (mpqText base num den ++ rest) (base.natAbs : Int)
      = ((mpqText base num den).length, (num, den), rest) := by
  have hb2 : 2 ≤ base.natAbs := by omega
  have hb62 : base.natAbs ≤ 62 := by omega
  have hnl := mpzText_length_pos base hb num
  have hdv47 : digitValue (decide ((base.natAbs : Int) > 36)) 47 ≥ base.natAbs := by
    have : digitValue (decide ((base.natAbs : Int) > 36)) 47 = 255 := by simp [digitValue]
    omega
  unfold mpq_inp_str_rd mpqText
  by_cases hd : den ≠ 1
  · simp only [hd, ne_eq, not_false_eq_true, if_true, List.append_assoc, List.cons_append]
    rw [mpz_text_roundtrip base hb num q.1 (47 :: (mpzText base den ++ rest)) (by intro c hc; simp at hc; rw [← hc]; exact hdv47)]
    obtain ⟨c0, t, ht, hnw⟩ := mpz_text_nowhite base hb den 1 rest hrest ((mpzText base num).length + 1 + 1)
    have hne : ¬ (mpzText base num).length = 0 := by omega
    simp only [hne, if_false, getc, if_true, ht, List.cons_append, hnw]
    have hne2 : ¬ ((mpzText base num).length + 1 + 1 + (c0 :: t).length - 1 = 0) := by simp
    simp only [hne2, if_false]
    congr 1
    simp; omega
  · have hd1 : den = 1 := by simpa using hd
    subst hd1
    simp only [ne_eq, not_true_eq_false, if_false, List.append_nil]
    rw [mpz_text_roundtrip base hb num q.1 rest hrest]
    have hne : ¬ (mpzText base num).length = 0 := by omega
    simp only [hne, if_false]
    cases rest with
    | nil => simp [getc, ungetc]
    | cons c r =>
      have hc : digitValue (decide ((base.natAbs : Int) > 36)) c ≥ base.natAbs := hrest c rfl
      have hc47 : ¬ (some c = some 47) := by simpa using hslash
      simp [getc, ungetc, hc47]

/-! ### text round trip (mpf, stream level) -/

/-- what `mpf_out_str` writes, given the digit string `str` of `mpf_get_str` (with its sign) and `exp` -/
def mpfText (base : Int) (str : List Nat) (exp : Int) : List Nat :=
  (if str.head? = some 45 then [45] else []) ++ [48, 46] ++ (if str.head? = some 45 then str.tail else str) ++
    ((if (if base = 0 then 10 else base).natAbs ≤ 10 then 101 else 64) :: intText exp)

theorem mpf_out_str_text (base : Int) (str : List Nat) (exp : Int) :
    (mpf_out_str {} base str exp).2.out = mpfText base str exp ∧
    (mpf_out_str {} base str exp).1 = (mpfText base str exp).length := by
  have hH : Healthy ({} : OStream) := healthy_init
  unfold mpf_out_str mpfText
  simp only
  by_cases hn : str.head? = some 45
  · simp only [hn, if_true]
    obtain ⟨w1, o1, _⟩ := write_healthy hH [45]
    obtain ⟨w2, o2, _⟩ := write_healthy w1 [48]
    obtain ⟨w3, o3, _⟩ := write_healthy w2 [46]
    obtain ⟨w4, o4, n4⟩ := write_healthy w3 str.tail
    obtain ⟨w5, o5, n5⟩ := write_healthy w4 ((if (if base = 0 then 10 else base).natAbs ≤ 10 then 101 else 64) :: intText exp)
    refine ⟨by rw [o5, o4, o3, o2, o1]; simp, ?_⟩
    simp only [w5.2.1, Bool.false_eq_true, if_false, n4, n5, if_true]
    simp; omega
  · simp only [hn, if_false]
    obtain ⟨w2, o2, _⟩ := write_healthy hH [48]
    obtain ⟨w3, o3, _⟩ := write_healthy w2 [46]
    obtain ⟨w4, o4, n4⟩ := write_healthy w3 str
    obtain ⟨w5, o5, n5⟩ := write_healthy w4 ((if (if base = 0 then 10 else base).natAbs ≤ 10 then 101 else 64) :: intText exp)
    refine ⟨by rw [o5, o4, o3, o2]; simp, ?_⟩
    simp only [w5.2.1, Bool.false_eq_true, if_false, n4, n5, if_true]
    simp; omega

theorem readToken_stop (c : Nat) (r acc : List Nat) (hc : isspace c = true) :
    readToken (some c) r acc = (acc.reverse, some c, r) := by
  cases r <;> simp [readToken, hc]

theorem readToken_token (rest : List Nat) (hrest : ∀ c, rest.head? = some c → isspace c = true) :
    ∀ (t : List Nat) (c : Nat) (acc : List Nat), isspace c = false → (∀ e ∈ t, isspace e = false) →
    readToken (some c) (t ++ rest) acc = (acc.reverse ++ c :: t, rest.head?, rest.tail) := by
  intro t
  induction t with
  | nil =>
    intro c acc hc _
    cases rest with
    | nil => simp [readToken, hc]
    | cons d r =>
      have hd : isspace d = true := hrest d rfl
      simp only [List.nil_append, readToken, hc, Bool.false_eq_true, if_false]
      rw [readToken_stop d r _ hd]; simp
  | cons e t ih =>
    intro c acc hc ht
    simp only [List.cons_append, readToken, hc, Bool.false_eq_true, if_false]
    rw [ih e (c :: acc) (ht e (by simp)) (fun x hx => ht x (by simp [hx]))]
    simp

theorem intText_nospace (i : Int) : ∀ e ∈ intText i, isspace e = false := by
  have hdec : ∀ n : Nat, ∀ e ∈ decText n, isspace e = false := by
    intro n e he
    unfold decText at he
    split at he
    · have : e = 48 := by simpa using he
      subst this; decide
    · rw [List.mem_map] at he
      obtain ⟨d, hd, rfl⟩ := he
      have := (natDigits_spec 10 (by decide) n).2.1 d hd
      unfold isspace; simp; omega
  intro e he
  unfold intText at he
  split at he
  · rcases List.mem_cons.mp he with h | h
    · subst h; decide
    · exact hdec _ e h
  · exact hdec _ e he

/-- `mpf_inp_str` finds exactly the text `mpf_out_str` wrote as its token, whatever white space follows -/
theorem mpf_text_scan (base : Int) (str : List Nat) (exp : Int) (hstr : ∀ e ∈ str, isspace e = false)
    (rest : List Nat) (hrest : ∀ c, rest.head? = some c → isspace c = true) :
    mpf_inp_str_scan (mpfText base str exp ++ rest) = (mpfText base str exp, (mpfText base str exp).length, rest) := by
  -- the text is a non-empty string without white space
  have hns : ∀ e ∈ mpfText base str exp, isspace e = false := by
    intro e he
    unfold mpfText at he
    simp only [List.mem_append, List.mem_cons] at he
    rcases he with ((h | h) | h) | h
    · split at h
      · have : e = 45 := by simpa using h
        subst this; decide
      · simp at h
    · rcases h with h | h | h
      · subst h; decide
      · subst h; decide
      · simp at h
    · split at h
      · exact hstr e (List.mem_of_mem_tail h)
      · exact hstr e h
    · rcases h with h | h
      · rw [h]
        by_cases hm : (if base = 0 then 10 else base).natAbs ≤ 10 <;> simp only [hm, if_true, if_false] <;> decide
      · exact intText_nospace exp e h
  obtain ⟨c0, t, ht⟩ : ∃ c0 t, mpfText base str exp = c0 :: t := by
    unfold mpfText; split <;> simp
  rw [ht] at hns ⊢
  have hc0 : isspace c0 = false := hns c0 (by simp)
  unfold mpf_inp_str_scan
  simp only [List.cons_append, skipWs, hc0, Bool.false_eq_true, if_false]
  rw [readToken_token rest hrest t c0 [] hc0 (fun e he => hns e (by simp [he]))]
  simp [ungetc_head_tail]


end Mpir.Io
