/- Helper lemmas for the I/O models (Mpir/Model/Io.lean). -/
import MpirProofs.Lemmas.Base
import Mpir.Model.Io
namespace Mpir.Io
end Mpir.Io
