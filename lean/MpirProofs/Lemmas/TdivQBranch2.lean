/-
  C02 / mpn_tdiv_q, second branch (tdiv_q.c:194-292, `qn + FUDGE < dn`), part 1: the operands handed to the
  approximate division (`prep2`) are N' = ⌊N/P⌋·c and D' = ⌊D·c/(P·B)⌋ of Lemmas/TdivQCore.lean, D' normalised, and the
  limbs tp[] left by the call and the `qh` stores hold an estimate within the callee's error of ⌊N'/D'⌋.
-/
import MpirProofs.Lemmas.TdivQ
namespace Mpir.TdivQ
open Mpir Mpir.DivWord

/-- limb i of a proper vector is ⌊v/B^i⌋ mod B -/
theorem getD_eq_div_mod (l : List Nat) (i : Nat) (hl : Limbs l) (hi : i < l.length) :
    l.getD i 0 = val l / B ^ i % B := by
  have h1 := val_drop l i hl (by omega)
  have h2 := (val_tail_head (l.drop i) (Limbs_drop hl i) (by rw [List.length_drop]; omega)).2
  rw [h1] at h2
  rw [← h2, List.getD_eq_getElem?_getD, List.getD_eq_getElem?_getD, List.getElem?_drop, Nat.add_zero]

/-- what `prep2` hands to the callee.  t = nn-(2qn+1) dividend limbs are dropped (P = B^t), t+1 divisor limbs. -/
def Prep2Spec (n d : List Nat) (npx dpx : List Nat) (cy : Nat) : Prop :=
  ∃ c c' : Nat, c * c' = B ∧
  val npx = val n / B ^ (n.length - (2 * (n.length - d.length + 1) + 1)) * c ∧
  val dpx = val d * c / (B ^ (n.length - (2 * (n.length - d.length + 1) + 1)) * B) ∧
  npx.length = 2 * (n.length - d.length + 1) + 1 + (if cy ≠ 0 then 1 else 0) ∧
  dpx.length = n.length - d.length + 1 + 1 ∧
  B ^ (n.length - d.length + 1 + 1) ≤ 2 * val dpx ∧
  val npx < val dpx * B ^ (n.length - d.length + 1 + 1) ∧
  (cy = 0 → val npx < B ^ (2 * (n.length - d.length + 1) + 1))

/-- sizes in the second branch: s = dn-(qn+1) = t+1 where t = nn-(2qn+1); both are in range iff qn+2 ≤ dn -/
theorem sizes2 (nn dn : Nat) (hnn : dn ≤ nn) (hq : nn - dn + 1 + 2 ≤ dn) :
    dn - (nn - dn + 1 + 1) = nn - (2 * (nn - dn + 1) + 1) + 1 ∧ 2 * (nn - dn + 1) + 1 ≤ nn ∧
    nn - (nn - (2 * (nn - dn + 1) + 1)) = 2 * (nn - dn + 1) + 1 ∧
    dn - (dn - (nn - dn + 1 + 1)) = nn - dn + 1 + 1 := by omega

/-- arithmetic of the shifted top divisor limbs: X = B^qn, Dt = their value, dh the top limb, c = 2^cnt, b the bits
    shifted in -/
theorem divisor_arith (X dh c Dt b : Nat) (hb1 : X * dh ≤ Dt) (hb2 : Dt < X * (dh + 1))
    (hcf : (dh + 1) * c ≤ B) (hcn : B ≤ 2 * (dh * c)) (hb : b < c) (h1 : 1 ≤ dh) :
    Dt * c + b < X * B ∧ X * B ≤ 2 * (Dt * c + b) ∧ X * c ≤ Dt * c + b := by
  have a1 : (Dt + 1) * c ≤ X * (dh + 1) * c := Nat.mul_le_mul_right _ hb2
  have a2 : X * ((dh + 1) * c) ≤ X * B := Nat.mul_le_mul_left _ hcf
  have a3 : X * B ≤ X * (2 * (dh * c)) := Nat.mul_le_mul_left _ hcn
  have a4 : X * dh * c ≤ Dt * c := Nat.mul_le_mul_right _ hb1
  have a5 : X * 1 * c ≤ X * dh * c := Nat.mul_le_mul_right _ (Nat.mul_le_mul_left _ h1)
  refine ⟨?_, ?_, ?_⟩
  · calc Dt * c + b < Dt * c + c := Nat.add_lt_add_left hb _
      _ = (Dt + 1) * c := by ring
      _ ≤ X * (dh + 1) * c := a1
      _ = X * ((dh + 1) * c) := by ring
      _ ≤ X * B := a2
  · calc X * B ≤ X * (2 * (dh * c)) := a3
      _ = 2 * (X * dh * c) := by ring
      _ ≤ 2 * (Dt * c) := Nat.mul_le_mul_left _ a4
      _ ≤ 2 * (Dt * c + b) := Nat.mul_le_mul_left _ (Nat.le_add_right _ _)
  · calc X * c = X * 1 * c := by ring
      _ ≤ X * dh * c := a5
      _ ≤ Dt * c := a4
      _ ≤ Dt * c + b := Nat.le_add_right _ _

/-- tdiv_q.c:213-215: the top k+1 divisor limbs shifted by cnt with the bits x >> (64-cnt) of the next limb or-ed in -/
theorem divisor_ops (dtop : List Nat) (k x cnt : Nat) (hL : Limbs dtop) (hlen : dtop.length = k + 1) (hx : x < B)
    (hcnt : cnt ≤ 63) (hcn : B ≤ 2 * (dtop.getD k 0 * 2 ^ cnt)) (hcf : (dtop.getD k 0 + 1) * 2 ^ cnt ≤ B)
    (h1 : 1 ≤ dtop.getD k 0) :
    val (lshiftGo cnt dtop (x >>> (64 - cnt))).1 = val dtop * 2 ^ cnt + x / 2 ^ (64 - cnt) ∧
    (lshiftGo cnt dtop (x >>> (64 - cnt))).1.length = k + 1 ∧ Limbs (lshiftGo cnt dtop (x >>> (64 - cnt))).1 ∧
    B ^ (k + 1) ≤ 2 * val (lshiftGo cnt dtop (x >>> (64 - cnt))).1 ∧
    B ^ k * 2 ^ cnt ≤ val (lshiftGo cnt dtop (x >>> (64 - cnt))).1 := by
  have hb : x >>> (64 - cnt) < 2 ^ cnt := shr_lt x cnt (by omega) hx
  obtain ⟨gv, _, gL, gl⟩ := lshiftGo_val cnt (by omega) dtop (x >>> (64 - cnt)) hL hb
  obtain ⟨hb1, hb2⟩ := top_bracket dtop hL (by omega)
  rw [hlen] at gv gl
  rw [hlen, Nat.add_sub_cancel] at hb1 hb2
  obtain ⟨a1, a2, a3⟩ := divisor_arith (B ^ k) (dtop.getD k 0) (2 ^ cnt) (val dtop) (x >>> (64 - cnt)) hb1 hb2 hcf hcn hb h1
  rw [← pow_succ] at a1 a2
  have hout : (lshiftGo cnt dtop (x >>> (64 - cnt))).2 = 0 := by
    rcases Nat.eq_zero_or_pos (lshiftGo cnt dtop (x >>> (64 - cnt))).2 with h | h
    · exact h
    · have h' : B ^ (k + 1) * 1 ≤ B ^ (k + 1) * (lshiftGo cnt dtop (x >>> (64 - cnt))).2 := Nat.mul_le_mul_left _ h
      rw [Nat.mul_one] at h'
      have : B ^ (k + 1) ≤ val dtop * 2 ^ cnt + x >>> (64 - cnt) := by
        rw [← gv]; exact Nat.le_trans h' (Nat.le_add_left _ _)
      exact absurd a1 (Nat.not_lt.mpr this)
  rw [hout, Nat.mul_zero, Nat.add_zero] at gv
  rw [gv]
  refine ⟨by rw [Nat.shiftRight_eq_div_pow], gl, gL, a2, a3⟩

/-- tdiv_q.c:208-211: the top 2k+1 dividend limbs shifted by cnt, with the extra limb -/
theorem dividend_ops (nlow : List Nat) (k cnt : Nat) (hL : Limbs nlow) (hlen : nlow.length = 2 * k + 1) (hcnt : cnt ≤ 63) :
    val (List.take (2 * k + 1 + if (lshift nlow cnt).2 ≠ 0 then 1 else 0) ((lshift nlow cnt).1 ++ [(lshift nlow cnt).2]))
      = val nlow * 2 ^ cnt ∧
    (List.take (2 * k + 1 + if (lshift nlow cnt).2 ≠ 0 then 1 else 0) ((lshift nlow cnt).1 ++ [(lshift nlow cnt).2])).length
      = 2 * k + 1 + (if (lshift nlow cnt).2 ≠ 0 then 1 else 0) ∧
    ((lshift nlow cnt).2 = 0 →
      val (List.take (2 * k + 1 + if (lshift nlow cnt).2 ≠ 0 then 1 else 0) ((lshift nlow cnt).1 ++ [(lshift nlow cnt).2]))
        < B ^ (2 * k + 1)) ∧
    val nlow * 2 ^ cnt < B ^ (2 * k + 1) * 2 ^ cnt := by
  obtain ⟨nv, nl, nL⟩ := lshift_ext nlow cnt (by omega) hL
  rw [hlen] at nl nv nL
  have hnlt := val_lt _ hL
  rw [hlen] at hnlt
  refine ⟨nv, nl, ?_, Nat.mul_lt_mul_of_pos_right hnlt (by positivity)⟩
  intro h0
  have := val_lt _ nL
  have e : (List.take (2 * k + 1 + if (lshift nlow cnt).2 ≠ 0 then 1 else 0)
      ((lshift nlow cnt).1 ++ [(lshift nlow cnt).2])).length = 2 * k + 1 := by
    rw [nl, if_neg (by simpa using h0), Nat.add_zero]
  rw [e] at this
  exact this

theorem prep2_unnorm (n d : List Nat) (hdhB : d.getD (d.length - 1) 0 < B) (hu : d.getD (d.length - 1) 0 < B / 2)
    (y : Nat) (ys : List Nat) (hys : d.drop (d.length - (n.length - d.length + 1 + 1)) = y :: ys) :
    prep2 n d =
      (List.take (2 * (n.length - d.length + 1) + 1 +
          if (lshift (n.drop (n.length - (2 * (n.length - d.length + 1) + 1)))
            (count_leading_zeros (d.getD (d.length - 1) 0))).2 ≠ 0 then 1 else 0)
        ((lshift (n.drop (n.length - (2 * (n.length - d.length + 1) + 1)))
            (count_leading_zeros (d.getD (d.length - 1) 0))).1 ++
          [(lshift (n.drop (n.length - (2 * (n.length - d.length + 1) + 1)))
            (count_leading_zeros (d.getD (d.length - 1) 0))).2]),
       (lshiftGo (count_leading_zeros (d.getD (d.length - 1) 0)) (d.drop (d.length - (n.length - d.length + 1 + 1)))
          (d.getD (d.length - (n.length - d.length + 1 + 1) - 1) 0 >>>
            (64 - count_leading_zeros (d.getD (d.length - 1) 0)))).1,
       (lshift (n.drop (n.length - (2 * (n.length - d.length + 1) + 1)))
            (count_leading_zeros (d.getD (d.length - 1) 0))).2) := by
  unfold prep2
  simp only []
  rw [highbit_clear _ hdhB, if_pos (by simpa using hu)]
  rw [hys, lshift_or_low]

theorem prep2_norm (n d : List Nat) (hdhB : d.getD (d.length - 1) 0 < B) (hu : ¬ d.getD (d.length - 1) 0 < B / 2) :
    prep2 n d = (n.drop (n.length - (2 * (n.length - d.length + 1) + 1)),
      d.drop (d.length - (n.length - d.length + 1 + 1)), 0) := by
  unfold prep2
  simp only []
  rw [highbit_clear _ hdhB, if_neg (by simpa using hu)]

theorem prep2_spec (n d : List Nat) (hn : Limbs n) (hd : Limbs d) (hnn : d.length ≤ n.length)
    (hq : n.length - d.length + 1 + 2 ≤ d.length) (htop : d.getD (d.length - 1) 0 ≠ 0) :
    Prep2Spec n d (prep2 n d).1 (prep2 n d).2.1 (prep2 n d).2.2 := by
  have hdhB := SbDiv.limb_getD hd (d.length - 1)
  obtain ⟨hs, ht, hnlen, hdlen⟩ := sizes2 n.length d.length hnn hq
  have hdh1 : 1 ≤ d.getD (d.length - 1) 0 := Nat.pos_of_ne_zero htop
  -- the truncated operands
  have hnlL : Limbs (n.drop (n.length - (2 * (n.length - d.length + 1) + 1))) := Limbs_drop hn _
  have hnlv := val_drop n (n.length - (2 * (n.length - d.length + 1) + 1)) hn (by omega)
  have hnll : (n.drop (n.length - (2 * (n.length - d.length + 1) + 1))).length
      = 2 * (n.length - d.length + 1) + 1 := by rw [List.length_drop]; exact hnlen
  have hdtL : Limbs (d.drop (d.length - (n.length - d.length + 1 + 1))) := Limbs_drop hd _
  have hdtv := val_drop d (d.length - (n.length - d.length + 1 + 1)) hd (by omega)
  have hdtl : (d.drop (d.length - (n.length - d.length + 1 + 1))).length = n.length - d.length + 1 + 1 := by
    rw [List.length_drop]; exact hdlen
  have hdtop := getD_drop_top d (d.length - (n.length - d.length + 1 + 1)) (by omega)
  rw [hdtl, Nat.add_sub_cancel] at hdtop
  have hpowN : B ^ (2 * (n.length - d.length + 1) + 1)
      = B ^ (n.length - d.length + 1) * B ^ (n.length - d.length + 1 + 1) := by
    rw [← pow_add]; congr 1; omega
  have hPB : B ^ (d.length - (n.length - d.length + 1 + 1))
      = B ^ (n.length - (2 * (n.length - d.length + 1) + 1)) * B := by rw [hs, pow_succ]
  by_cases hu : d.getD (d.length - 1) 0 < B / 2
  · -- unnormalised divisor: shift by cnt = count_leading_zeros dh
    obtain ⟨y, ys, hys⟩ := List.exists_cons_of_ne_nil (l := d.drop (d.length - (n.length - d.length + 1 + 1)))
      (by intro h; rw [h] at hdtl; simp at hdtl)
    rw [prep2_unnorm n d hdhB hu y ys hys]
    dsimp only
    obtain ⟨hc63, hcc, hcn, hcf⟩ := clz_facts _ htop hdhB
    have hxB : d.getD (d.length - (n.length - d.length + 1 + 1) - 1) 0 < B := SbDiv.limb_getD hd _
    obtain ⟨dv, dl, _, dnorm, dge⟩ := divisor_ops _ (n.length - d.length + 1) _ _ hdtL hdtl hxB hc63
      (by rw [hdtop]; exact hcn) (by rw [hdtop]; exact hcf) (by rw [hdtop]; exact hdh1)
    obtain ⟨nv, nl, n0, nlt⟩ := dividend_ops _ (n.length - d.length + 1) (count_leading_zeros (d.getD (d.length - 1) 0))
      hnlL hnll hc63
    -- x is the limb of D of weight P, so the value is ⌊D·c/(P·B)⌋
    have hxv : d.getD (d.length - (n.length - d.length + 1 + 1) - 1) 0
        = val d / B ^ (n.length - (2 * (n.length - d.length + 1) + 1)) % B := by
      rw [getD_eq_div_mod d _ hd (by omega)]
      congr 3; omega
    have hsi := shift_in (val d) (B ^ (n.length - (2 * (n.length - d.length + 1) + 1)))
      (2 ^ count_leading_zeros (d.getD (d.length - 1) 0)) (2 ^ (64 - count_leading_zeros (d.getD (d.length - 1) 0)))
      (Bpow_pos _) hcc
    refine ⟨_, _, hcc, ?_, ?_, nl, dl, dnorm, ?_, n0⟩
    · rw [nv, hnlv]
    · rw [dv, hsi, hdtv, hPB, ← hxv]
    · rw [nv]
      rw [hpowN] at nlt
      calc _ < _ := nlt
        _ = B ^ (n.length - d.length + 1) * 2 ^ count_leading_zeros (d.getD (d.length - 1) 0)
              * B ^ (n.length - d.length + 1 + 1) := by ring
        _ ≤ _ := Nat.mul_le_mul_right _ dge
  · -- normalised divisor: plain copies
    rw [prep2_norm n d hdhB hu]
    dsimp only
    obtain ⟨hb1, hb2⟩ := top_bracket _ hdtL (by omega)
    rw [hdtl, Nat.add_sub_cancel, hdtop] at hb1 hb2
    have hnlt := val_lt _ hnlL
    rw [hnll] at hnlt
    have hdh : B ≤ 2 * d.getD (d.length - 1) 0 := by
      have : B = B / 2 * 2 := by simp only [B_eq]
      omega
    refine ⟨1, B, Nat.one_mul _, ?_, ?_, ?_, hdtl, ?_, ?_, ?_⟩
    · rw [hnlv, Nat.mul_one]
    · rw [hdtv, Nat.mul_one, hPB]
    · rw [hnll]; simp
    · calc B ^ (n.length - d.length + 1 + 1) = B ^ (n.length - d.length + 1) * B := pow_succ _ _
        _ ≤ B ^ (n.length - d.length + 1) * (2 * d.getD (d.length - 1) 0) := Nat.mul_le_mul_left _ hdh
        _ = 2 * (B ^ (n.length - d.length + 1) * d.getD (d.length - 1) 0) := by ring
        _ ≤ _ := Nat.mul_le_mul_left _ hb1
    · have a2 : B ^ (n.length - d.length + 1) * 1 ≤ B ^ (n.length - d.length + 1) * d.getD (d.length - 1) 0 :=
        Nat.mul_le_mul_left _ hdh1
      rw [Nat.mul_one] at a2
      rw [hpowN] at hnlt
      calc _ < B ^ (n.length - d.length + 1) * B ^ (n.length - d.length + 1 + 1) := hnlt
        _ ≤ _ := Nat.mul_le_mul_right _ (Nat.le_trans a2 hb1)
    · intro _; exact hnlt

/-- the limbs tp[0..qn] after the call and the stores of tdiv_q.c:237-248 / :276: qn+1 proper limbs whose value Q'
    satisfies ⌊N'/D'⌋ ≤ Q' ≤ ⌊N'/D'⌋ + e — also when the all-ones saturation fired — for every callee error e ≤ 3
    (any e with 2·B^qn + e ≤ B^(qn+1) would do for this statement) -/
theorem tpOf_spec (T : Thresholds) (e : Nat) (he : e ≤ 3) (n d : List Nat) (hn : Limbs n) (hd : Limbs d)
    (hnn : d.length ≤ n.length) (hq : n.length - d.length + 1 + 2 ≤ d.length) (htop : d.getD (d.length - 1) 0 ≠ 0) :
    (tpOf T e n d).1.length = n.length - d.length + 1 + 1 ∧ Limbs (tpOf T e n d).1 ∧
    val (prep2 n d).1 / val (prep2 n d).2.1 ≤ val (tpOf T e n d).1 ∧
    val (tpOf T e n d).1 ≤ val (prep2 n d).1 / val (prep2 n d).2.1 + e := by
  obtain ⟨c, c', _, _, _, Shnl, Shdl, Shnorm, Shsat, Shcy0⟩ := prep2_spec n d hn hd hnn hq htop
  have hB := B_pos
  have hfit : val (prep2 n d).1 / val (prep2 n d).2.1 < B ^ (n.length - d.length + 1 + 1) :=
    Nat.div_lt_of_lt_mul Shsat
  have key := call_store_spec (dispatchDivapprQ T (n.length - d.length + 1)) e (prep2 n d).1 (prep2 n d).2.1
    (prep2 n d).2.2 (n.length - d.length + 1) (val (prep2 n d).1 / val (prep2 n d).2.1)
    (by rw [Shnl, Shdl]; split <;> omega) rfl hfit
    (by
      intro h0
      have h1 := Shcy0 h0
      have hpowN : B ^ (2 * (n.length - d.length + 1) + 1)
          = B ^ (n.length - d.length + 1) * B ^ (n.length - d.length + 1 + 1) := by
        rw [← pow_add]; congr 1; omega
      have h2 : val (prep2 n d).1 < val (prep2 n d).2.1 * (2 * B ^ (n.length - d.length + 1)) := by
        have : B ^ (n.length - d.length + 1) * B ^ (n.length - d.length + 1 + 1)
            ≤ B ^ (n.length - d.length + 1) * (2 * val (prep2 n d).2.1) := Nat.mul_le_mul_left _ Shnorm
        rw [hpowN] at h1
        calc _ < _ := h1
          _ ≤ _ := this
          _ = _ := by ring
      have h3 : val (prep2 n d).1 / val (prep2 n d).2.1 < 2 * B ^ (n.length - d.length + 1) :=
        Nat.div_lt_of_lt_mul h2
      have h4 : 1 ≤ B ^ (n.length - d.length + 1) := Bpow_pos _
      have h5 : B ^ (n.length - d.length + 1 + 1) = B ^ (n.length - d.length + 1) * B := pow_succ _ _
      have h6 : 5 ≤ B := by simp only [B_eq]; omega
      have h7 : B ^ (n.length - d.length + 1) * 5 ≤ B ^ (n.length - d.length + 1) * B := Nat.mul_le_mul_left _ h6
      omega)
  obtain ⟨k1, k2, k3, k4, _⟩ := key
  unfold tpOf
  dsimp only
  exact ⟨k1, k2, k3, k4⟩

end Mpir.TdivQ
