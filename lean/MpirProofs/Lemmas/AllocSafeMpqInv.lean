/- Refinement proof for the size-aware model of mpq/inv.c (Mpir/Model/AllocSafeMpz4.lean `mpq_inv`): in place the two blocks are
   exchanged; otherwise both fields are reallocated AFTER their new sizes have been stored (so `_mpz_realloc` runs on an object
   whose |SIZ| may exceed its ALLOC: it keeps the size because the new block is large enough) and the limbs are copied. -/
import MpirProofs.Lemmas.AllocSafeSetD
namespace Mpir.AllocSafe
open Mpir
open Mpir.Mpz (sgn natAbs_sgn)

/-- `MPZ_REALLOC (w, n)` on an object whose size field has already been set to the final value: |SIZ| ≤ max (n, ALLOC) suffices -/
theorem MPZ_REALLOC_grown2 (s : St) (w n : Nat) (hfit : (s.h w).size.natAbs ≤ max n (s.h w).buf.alloc) :
    Grown s (MPZ_REALLOC s w n) w n := by
  unfold MPZ_REALLOC St.ALLOC
  by_cases hn : n > (s.h w).buf.alloc
  · rw [if_pos hn]
    have hsz : ¬ (s.h w).size.natAbs > max n 1 := by omega
    refine ⟨rfl, ?_, ?_, ?_, ?_, ?_, ?_, ?_⟩
    · intro x; by_cases h : x = w
      · subst h; simp [_mpz_realloc, hsz]
      · simp [_mpz_realloc, upd, h]
    · intro x; by_cases h : x = w
      · subst h; simp [_mpz_realloc]; omega
      · simp [_mpz_realloc, upd, h]
    · simp [_mpz_realloc]
    · simp [_mpz_realloc, Mpz.grow, Mpz.realloc, view, hn]
      split <;> rfl
    · intro x k hb hk; by_cases h : x = w
      · subst h
        simp only [_mpz_realloc, upd_same]
        rw [List.take_take, List.take_append_of_le_length (by rw [hb.1]; omega)]
        congr 1; omega
      · simp [_mpz_realloc, upd, h]
    · intro x hb; by_cases h : x = w
      · subst h
        simp only [_mpz_realloc, upd_same]
        refine ⟨?_, ?_⟩
        · simp only [List.length_take, List.length_append, List.length_replicate, hb.1]; omega
        · exact Limbs_take (Limbs_append.mpr ⟨hb.2, Limbs_replicate _ _ junk_lt⟩) _
      · simpa [_mpz_realloc, upd, h] using hb
    · intro x h; simp [_mpz_realloc, upd, h]
  · rw [if_neg hn]
    refine ⟨rfl, fun _ => rfl, fun _ => Nat.le_refl _, by omega, ?_, fun _ _ _ _ => rfl, fun _ h => h, fun _ _ => rfl⟩
    simp [Mpz.grow, view, hn]

/-- the sizes mpq_inv stores: `den = |num|`, `num = ±den` with the sign of the old numerator -/
def invNum (ns ds : Int) : Int := if ns < 0 then -ds else ds
def invDen (ns : Int) : Int := if ns < 0 then -ns else ns

theorem mpq_inv_inplace (s : St) (n d : Nat) (hs : s.ok = true) (hn : OWF (s.h n)) (hd : OWF (s.h d))
    (hn0 : (s.h n).size ≠ 0) (hnd : n ≠ d) :
    ∃ s', mpq_inv s n d n d = some s' ∧
      Safe2 s s' n d ⟨(s.h d).buf.alloc, invNum (s.h n).size (s.h d).size, (view (s.h d)).d⟩
        ⟨(s.h n).buf.alloc, invDen (s.h n).size, (view (s.h n)).d⟩ := by
  have hdn : d ≠ n := fun h => hnd h.symm
  unfold mpq_inv
  rw [show s.SIZ n = (s.h n).size from rfl, show s.SIZ d = (s.h d).size from rfl]
  have e0 : ((s.h n).size == 0) = false := by simpa using hn0
  simp only [e0, Bool.false_eq_true, if_false, beq_self_eq_true, if_true]
  refine ⟨_, rfl, by simpa using hs, ?_, ?_, ?_, ?_, ?_⟩
  · simp only [upd_other _ _ hnd, upd_same]
    simp only [St.setSize, upd_other _ _ hnd, upd_same, upd_other _ _ hdn]
    exact hd.1
  · simp only [upd_same]
    simp only [St.setSize, upd_other _ _ hnd, upd_same, upd_other _ _ hdn]
    exact hn.1
  · simp only [upd_other _ _ hnd, upd_same]
    simp only [St.setSize, upd_other _ _ hnd, upd_same, upd_other _ _ hdn, view, invNum]
    by_cases h : (s.h n).size < 0 <;> simp [h]
  · simp only [upd_same]
    simp only [St.setSize, upd_other _ _ hnd, upd_same, upd_other _ _ hdn, view, invDen]
    by_cases h : (s.h n).size < 0 <;> simp [h]
  · intro x hx1 hx2
    simp only [upd_other _ _ hx2, upd_other _ _ hx1]
    simp only [St.setSize, upd_other _ _ hx1, upd_other _ _ hx2]

theorem natAbs_invNum (ns ds : Int) : (invNum ns ds).natAbs = ds.natAbs := by
  unfold invNum; split <;> simp
theorem natAbs_invDen (ns : Int) : (invDen ns).natAbs = ns.natAbs := by
  unfold invDen; split <;> simp

theorem mpq_inv_distinct (s : St) (dn dd sn sd : Nat) (hs : s.ok = true)
    (hdn : OWF (s.h dn)) (hdd : OWF (s.h dd)) (hsn : OWF (s.h sn)) (hsd : OWF (s.h sd))
    (hn0 : (s.h sn).size ≠ 0) (h1 : dn ≠ dd) (h2 : dn ≠ sn) (h3 : dn ≠ sd) (h4 : dd ≠ sn) (h5 : dd ≠ sd) :
    ∃ s', mpq_inv s dn dd sn sd = some s' ∧
      Safe2 s s' dn dd
        ⟨(Mpz.grow (view (s.h dn)) (s.h sd).size.natAbs).alloc, invNum (s.h sn).size (s.h sd).size, (view (s.h sd)).d⟩
        ⟨(Mpz.grow (view (s.h dd)) (s.h sn).size.natAbs).alloc, invDen (s.h sn).size, (view (s.h sn)).d⟩ := by
  have h1' : dd ≠ dn := fun h => h1 h.symm
  unfold mpq_inv
  rw [show s.SIZ sn = (s.h sn).size from rfl, show s.SIZ sd = (s.h sd).size from rfl]
  have e0 : ((s.h sn).size == 0) = false := by simpa using hn0
  have e1 : (dn == sn) = false := by simpa using h2
  simp only [e0, e1, Bool.false_eq_true, if_false]
  refine ⟨_, rfl, ?_⟩
  have hb : (if decide ((s.h sn).size < 0) = true then -(s.h sd).size else (s.h sd).size) = invNum (s.h sn).size (s.h sd).size := by
    unfold invNum; by_cases h : (s.h sn).size < 0 <;> simp [h]
  have ha : (if decide ((s.h sn).size < 0) = true then -(s.h sn).size else (s.h sn).size) = invDen (s.h sn).size := by
    unfold invDen; by_cases h : (s.h sn).size < 0 <;> simp [h]
  rw [hb, ha, natAbs_invNum, natAbs_invDen]
  -- the state after the two size stores
  generalize hs0 : (s.setSize dd (invDen (s.h sn).size)).setSize dn (invNum (s.h sn).size (s.h sd).size) = s0
  have h0dn : s0.h dn = { s.h dn with size := invNum (s.h sn).size (s.h sd).size } := by
    rw [← hs0]; simp [St.setSize, upd_other _ _ h1]
  have h0dd : s0.h dd = { s.h dd with size := invDen (s.h sn).size } := by
    rw [← hs0]; simp [St.setSize, upd_other _ _ h1']
  have h0o : ∀ x, x ≠ dn → x ≠ dd → s0.h x = s.h x := by
    intro x hx1 hx2; rw [← hs0, setSize_other _ _ _ hx1, setSize_other _ _ _ hx2]
  have hok0 : s0.ok = true := by rw [← hs0]; simpa using hs
  -- the two reallocations
  have G1 := MPZ_REALLOC_grown2 s0 dn (s.h sd).size.natAbs (by rw [h0dn]; simp [natAbs_invNum])
  have hal1 : ((MPZ_REALLOC s0 dn (s.h sd).size.natAbs).h dn).buf.alloc = (Mpz.grow (view (s.h dn)) (s.h sd).size.natAbs).alloc := by
    rw [G1.alloc, grow_alloc_max _ _ (by rw [h0dn]; exact hdn.2.1), grow_alloc_max _ _ hdn.2.1, h0dn]; rfl
  have hbdn1 := G1.bwf dn (by rw [h0dn]; exact hdn.1)
  have hroom1 := G1.room
  have hsize1 := G1.size
  have hfr1 := G1.other
  have hok1 : (MPZ_REALLOC s0 dn (s.h sd).size.natAbs).ok = true := by rw [G1.ok]; exact hok0
  generalize MPZ_REALLOC s0 dn (s.h sd).size.natAbs = s1 at *
  have h1dd : s1.h dd = s0.h dd := hfr1 dd h1'
  have G2 := MPZ_REALLOC_grown2 s1 dd (s.h sn).size.natAbs (by rw [h1dd, h0dd]; simp [natAbs_invDen])
  have hal2 : ((MPZ_REALLOC s1 dd (s.h sn).size.natAbs).h dd).buf.alloc = (Mpz.grow (view (s.h dd)) (s.h sn).size.natAbs).alloc := by
    rw [G2.alloc, grow_alloc_max _ _ (by rw [h1dd, h0dd]; exact hdd.2.1), grow_alloc_max _ _ hdd.2.1, h1dd, h0dd]; rfl
  have hbdd2 := G2.bwf dd (by rw [h1dd, h0dd]; exact hdd.1)
  have hroom2 := G2.room
  have hsize2 := G2.size
  have hfr2 := G2.other
  have hok2 : (MPZ_REALLOC s1 dd (s.h sn).size.natAbs).ok = true := by rw [G2.ok]; exact hok1
  generalize MPZ_REALLOC s1 dd (s.h sn).size.natAbs = s2 at *
  have h2dn : s2.h dn = s1.h dn := hfr2 dn h1
  have h2sd : s2.h sd = s.h sd := by rw [hfr2 sd (fun h => h5 h.symm), hfr1 sd (fun h => h3 h.symm), h0o sd (fun h => h3 h.symm) (fun h => h5 h.symm)]
  have h2sn : s2.h sn = s.h sn := by rw [hfr2 sn (fun h => h4 h.symm), hfr1 sn (fun h => h2 h.symm), h0o sn (fun h => h2 h.symm) (fun h => h4 h.symm)]
  have Dsd : Den s2 (.ptr (s2.PTR sd)) (view (s.h sd)).d := by
    have := Den.of_owf (s := s2) (x := sd) (by rw [h2sd]; exact hsd)
    rw [h2sd] at this; exact this
  have Dsn : Den s2 (.ptr (s2.PTR sn)) (view (s.h sn)).d := by
    have := Den.of_owf (s := s2) (x := sn) (by rw [h2sn]; exact hsn)
    rw [h2sn] at this; exact this
  have hLd := view_d_length hsd
  have hLn := view_d_length hsn
  -- first copy
  obtain ⟨e3, ok3⟩ := Dsd.rd (s.h sd).size.natAbs (by rw [hLd])
  simp only [St.rdS, St.rdOkS] at e3 ok3
  rw [List.take_of_length_le (by rw [hLd])] at e3
  have W1 := Wrote.fresh s2 dn (view (s.h sd)).d true hok2 rfl (by rw [h2dn]; exact hbdn1) (view_limbs hsd)
    (by rw [hLd, h2dn]; exact hroom1)
  rw [chk_true] at W1
  -- second copy
  have h3dd : (s2.wr (s2.PTR dn) (view (s.h sd)).d).h dd = s2.h dd := W1.frame dd h1'
  have h3sn : (s2.wr (s2.PTR dn) (view (s.h sd)).d).h sn = s2.h sn := W1.frame sn (fun h => h2 h.symm)
  have hp3 : (s2.wr (s2.PTR dn) (view (s.h sd)).d).PTR dd = s2.PTR dd := by simp [St.PTR, h3dd]
  have hp3n : (s2.wr (s2.PTR dn) (view (s.h sd)).d).PTR sn = s2.PTR sn := by simp [St.PTR, h3sn]
  obtain ⟨e4, ok4⟩ := Dsn.rd (s.h sn).size.natAbs (by rw [hLn])
  simp only [St.rdS, St.rdOkS] at e4 ok4
  rw [List.take_of_length_le (by rw [hLn])] at e4
  obtain ⟨t1, t2⟩ := rd_of_h_eq (s' := s2.wr (s2.PTR dn) (view (s.h sd)).d) (s := s2) (p := s2.PTR sn) (by simpa using h3sn)
    (s.h sn).size.natAbs
  rw [e4] at t1
  rw [ok4] at t2
  have W2 := Wrote.fresh (s2.wr (s2.PTR dn) (view (s.h sd)).d) dd (view (s.h sn)).d true W1.ok rfl
    (by rw [h3dd]; exact hbdd2) (view_limbs hsn) (by rw [hLn, h3dd]; exact hroom2)
  rw [chk_true, hp3] at W2
  simp only [MPN_COPY, e3, ok3, chk_true, hp3, hp3n, t1, t2]
  have h4dn : ((s2.wr (s2.PTR dn) (view (s.h sd)).d).wr (s2.PTR dd) (view (s.h sn)).d).h dn =
      (s2.wr (s2.PTR dn) (view (s.h sd)).d).h dn := W2.frame dn h1
  have hsz_dn : (((s2.wr (s2.PTR dn) (view (s.h sd)).d).wr (s2.PTR dd) (view (s.h sn)).d).h dn).size = invNum (s.h sn).size (s.h sd).size := by
    rw [wr_size, wr_size, hsize2, hsize1, h0dn]
  have hsz_dd : (((s2.wr (s2.PTR dn) (view (s.h sd)).d).wr (s2.PTR dd) (view (s.h sn)).d).h dd).size = invDen (s.h sn).size := by
    rw [wr_size, wr_size, hsize2, hsize1, h0dd]
  refine ⟨W2.ok, ?_, W2.bwf, ?_, ?_, ?_⟩
  · rw [h4dn]; exact W1.bwf
  · rw [show view (((s2.wr (s2.PTR dn) (view (s.h sd)).d).wr (s2.PTR dd) (view (s.h sn)).d).h dn) =
        ⟨(((s2.wr (s2.PTR dn) (view (s.h sd)).d).wr (s2.PTR dd) (view (s.h sn)).d).h dn).buf.alloc,
         (((s2.wr (s2.PTR dn) (view (s.h sd)).d).wr (s2.PTR dd) (view (s.h sn)).d).h dn).size,
         (((s2.wr (s2.PTR dn) (view (s.h sd)).d).wr (s2.PTR dd) (view (s.h sn)).d).h dn).buf.limbs.take
           (((s2.wr (s2.PTR dn) (view (s.h sd)).d).wr (s2.PTR dd) (view (s.h sn)).d).h dn).size.natAbs⟩ from rfl]
    rw [hsz_dn, natAbs_invNum, h4dn, W1.alloc, h2dn, hal1, ← hLd, W1.lim]
  · rw [show view (((s2.wr (s2.PTR dn) (view (s.h sd)).d).wr (s2.PTR dd) (view (s.h sn)).d).h dd) =
        ⟨(((s2.wr (s2.PTR dn) (view (s.h sd)).d).wr (s2.PTR dd) (view (s.h sn)).d).h dd).buf.alloc,
         (((s2.wr (s2.PTR dn) (view (s.h sd)).d).wr (s2.PTR dd) (view (s.h sn)).d).h dd).size,
         (((s2.wr (s2.PTR dn) (view (s.h sd)).d).wr (s2.PTR dd) (view (s.h sn)).d).h dd).buf.limbs.take
           (((s2.wr (s2.PTR dn) (view (s.h sd)).d).wr (s2.PTR dd) (view (s.h sn)).d).h dd).size.natAbs⟩ from rfl]
    rw [hsz_dd, natAbs_invDen, W2.alloc, h3dd, hal2, ← hLn, W2.lim]
  · intro x hx1 hx2
    rw [W2.frame x hx2, W1.frame x hx1, hfr2 x hx2, hfr1 x hx1, h0o x hx1 hx2]

end Mpir.AllocSafe
