/- The mpz division wrappers on the pointer-level model: every alias pattern gives the specified values. -/
import MpirProofs.Lemmas.AliasMem
namespace Mpir.AliasMem
open Mpir
open Mpir.DivZ (sizeNat siz sameSign)

/-! ### arithmetic of the quotient size -/

theorem quot_size {N D nl dl : Nat} (hN1 : B ^ (nl - 1) ≤ N) (hN2 : N < B ^ nl) (hD1 : B ^ (dl - 1) ≤ D)
    (hD2 : D < B ^ dl) (hdl : 1 ≤ dl) (hle : dl ≤ nl) :
    N / D < B ^ (nl - dl + 1) ∧
    (nl - dl + 1) - (if N / D / B ^ (nl - dl + 1 - 1) % B = 0 then 1 else 0) = sizeNat (N / D) := by
  have hDpos : 0 < D := Nat.lt_of_lt_of_le (DivZ.Bpow_pos _) hD1
  have hQlt : N / D < B ^ (nl - dl + 1) := by
    rw [Nat.div_lt_iff_lt_mul hDpos]
    have : B ^ nl = B ^ (nl - dl + 1) * B ^ (dl - 1) := by rw [← pow_add]; congr 1; omega
    calc N < B ^ nl := hN2
      _ = B ^ (nl - dl + 1) * B ^ (dl - 1) := this
      _ ≤ B ^ (nl - dl + 1) * D := Nat.mul_le_mul_left _ hD1
  refine ⟨hQlt, ?_⟩
  simp only [Nat.add_sub_cancel]
  have htop : N / D / B ^ (nl - dl) < B := by
    rw [Nat.div_lt_iff_lt_mul (DivZ.Bpow_pos _), Nat.mul_comm, ← pow_succ]; exact hQlt
  rw [Nat.mod_eq_of_lt htop]
  have hup : sizeNat (N / D) ≤ nl - dl + 1 := (DivZ.sizeNat_le_iff _ _).mpr hQlt
  by_cases h0 : N / D / B ^ (nl - dl) = 0
  · rw [if_pos h0]
    have hlt : N / D < B ^ (nl - dl) := by
      rcases Nat.div_eq_zero_iff.mp h0 with h | h
      · exact absurd h (Nat.ne_of_gt (DivZ.Bpow_pos _))
      · exact h
    have h1 : sizeNat (N / D) ≤ nl - dl := (DivZ.sizeNat_le_iff _ _).mpr hlt
    by_cases hz : nl - dl = 0
    · omega
    · have hge : B ^ (nl - dl - 1) ≤ N / D := by
        rw [Nat.le_div_iff_mul_le hDpos]
        have : B ^ (nl - 1) = B ^ (nl - dl - 1) * B ^ dl := by rw [← pow_add]; congr 1; omega
        calc B ^ (nl - dl - 1) * D ≤ B ^ (nl - dl - 1) * B ^ dl := Nat.mul_le_mul_left _ (Nat.le_of_lt hD2)
          _ = B ^ (nl - 1) := this.symm
          _ ≤ N := hN1
      have h2 : ¬ sizeNat (N / D) ≤ nl - dl - 1 := fun hc => by
        have := (DivZ.sizeNat_le_iff _ _).mp hc; omega
      omega
  · rw [if_neg h0]
    have hge : B ^ (nl - dl) ≤ N / D := by
      by_contra hc
      exact h0 (Nat.div_eq_of_lt (by omega))
    have h2 : ¬ sizeNat (N / D) ≤ nl - dl := fun hc => by
      have := (DivZ.sizeNat_le_iff _ _).mp hc; omega
    omega

theorem length_wr' {n m : Nat} {b : List Nat} (h : n ≤ b.length) : (toLimbs n m ++ b.drop n).length = b.length := by
  simp [toLimbs_length]; omega

theorem Limbs_wr' {l b : List Nat} {n : Nat} (hl : Limbs l) (hb : Limbs b) : Limbs (l ++ b.drop n) :=
  Limbs_append.mpr ⟨hl, Limbs_drop hb _⟩

theorem getD_append_left {a b : List Nat} {i : Nat} (h : i < a.length) : (a ++ b).getD i 0 = a.getD i 0 := by
  simp [List.getD_eq_getElem?_getD, List.getElem?_append_left h]

theorem val_take_wr {n m : Nat} (rest : List Nat) (hk : sizeNat m ≤ n) :
    val ((toLimbs n m ++ rest).take (sizeNat m)) = m := by
  rw [List.take_append_of_le_length (by rw [toLimbs_length]; exact hk), toLimbs_take _ _ _ hk]
  exact val_toLimbs_lt (DivZ.lt_B_pow_sizeNat _)

/-! ### the mpn entry points -/

theorem mpn_tdiv_qr_ok {s : St} {qp rp np nl dp dl : Nat} {Nl Dl bq br : List Nat}
    (hN : s.load np nl = .ok Nl) (hD : s.load dp dl = .ok Dl)
    (hbq : s.blk qp = some bq) (hbr : s.blk rp = some br)
    (h1 : qp ≠ np) (h2 : qp ≠ dp) (h3 : rp ≠ np) (h4 : rp ≠ dp) (h5 : qp ≠ rp)
    (hdl : 1 ≤ dl) (hle : dl ≤ nl) (htop : Dl.getD (dl - 1) 0 ≠ 0)
    (haq : nl - dl + 1 ≤ bq.length) (har : dl ≤ br.length) :
    mpn_tdiv_qr qp rp np nl dp dl s =
      .ok ((s.setBlk qp (some (toLimbs (nl - dl + 1) (val Nl / val Dl) ++ bq.drop (nl - dl + 1)))).setBlk rp
            (some (toLimbs dl (val Nl % val Dl) ++ br.drop dl))) := by
  unfold mpn_tdiv_qr
  have hc : ¬ (qp = np ∨ qp = dp ∨ rp = np ∨ rp = dp ∨ qp = rp) := by tauto
  have hs : ¬ ¬ (1 ≤ dl ∧ dl ≤ nl) := by tauto
  simp only [bind, Except.bind, hc, if_false, hN, hD, hs, htop, pure, Except.pure]
  have st1 : s.store qp (toLimbs (nl - dl + 1) (val Nl / val Dl)) =
      .ok (s.setBlk qp (some (toLimbs (nl - dl + 1) (val Nl / val Dl) ++ bq.drop (nl - dl + 1)))) := by
    unfold St.store; rw [hbq]; simp only [toLimbs_length]; rw [if_pos haq]
  rw [st1]; simp only []
  unfold St.store
  have : (s.setBlk qp (some (toLimbs (nl - dl + 1) (val Nl / val Dl) ++ bq.drop (nl - dl + 1)))).blk rp = some br := by
    simp [St.setBlk, Ne.symm h5, hbr]
  rw [this]; simp only [toLimbs_length]; rw [if_pos har]

theorem mpn_tdiv_q_ok {s : St} {qp np nl dp dl : Nat} {Nl Dl bq : List Nat}
    (hN : s.load np nl = .ok Nl) (hD : s.load dp dl = .ok Dl)
    (hbq : s.blk qp = some bq) (h1 : qp ≠ np) (h2 : qp ≠ dp)
    (hdl : 1 ≤ dl) (hle : dl ≤ nl) (htop : Dl.getD (dl - 1) 0 ≠ 0)
    (haq : nl - dl + 1 ≤ bq.length) :
    mpn_tdiv_q qp np nl dp dl s =
      .ok (s.setBlk qp (some (toLimbs (nl - dl + 1) (val Nl / val Dl) ++ bq.drop (nl - dl + 1)))) := by
  unfold mpn_tdiv_q
  have hc : ¬ (qp = np ∨ qp = dp) := by tauto
  have hs : ¬ ¬ (1 ≤ dl ∧ dl ≤ nl) := by tauto
  simp only [bind, Except.bind, hc, if_false, hN, hD, hs, htop, pure, Except.pure]
  unfold St.store; rw [hbq]; simp only [toLimbs_length]; rw [if_pos haq]

theorem limbAt_setBlk (s : St) (p : Nat) (b : List Nat) (i : Nat) (hi : i < b.length) :
    limbAt (s.setBlk p (some b)) p i = .ok (b.getD i 0) := by
  simp [limbAt, St.setBlk, hi]

theorem normSize_setBlk (s : St) (p : Nat) (n m : Nat) (rest : List Nat) :
    normSize (s.setBlk p (some (toLimbs n m ++ rest))) p n = .ok (sizeNat (m % B ^ n)) := by
  simp [normSize, St.load, St.setBlk, toLimbs_length, bind, Except.bind, pure, Except.pure,
    List.take_append_of_le_length, List.take_of_length_le, val_toLimbs]

theorem put_put_eq (s : St) {q r : Nat} (hqr : q ≠ r) (b1 b2 : List Nat) (z1 z2 : Int) :
    (((s.setBlk (s.ptr q) (some b1)).setBlk (s.ptr r) (some b2)).setSize q z1).setSize r z2 =
      (s.put q b1 z1).put r b2 z2 := by
  have hp : (s.put q b1 z1).ptr r = s.ptr r := by
    simp [St.put, St.setSize, St.setVar, St.setBlk, St.ptr, Ne.symm hqr]
  unfold St.put
  rw [show ((s.setBlk (s.ptr q) (some b1)).setSize q z1).ptr r = s.ptr r from hp]
  rfl

theorem limbAt_of_blk {s : St} {p i : Nat} {b : List Nat} (h : s.blk p = some b) (hi : i < b.length) :
    limbAt s p i = .ok (b.getD i 0) := by
  simp [limbAt, h, hi]

theorem normSize_of_blk {s : St} {p n m : Nat} {rest : List Nat} (h : s.blk p = some (toLimbs n m ++ rest)) :
    normSize s p n = .ok (sizeNat (m % B ^ n)) := by
  simp [normSize, St.load, h, toLimbs_length, bind, Except.bind, pure, Except.pure, val_toLimbs]

theorem ite_neg_bool (P : Prop) [Decidable P] (k : Int) :
    (if (!decide P) = true then -k else k) = (if P then k else -k) := by
  by_cases h : P <;> simp [h]

/-! ### the cores: mpn call, normalisation, size stores -/

theorem tdiv_qr_core_ok {s : St} (h : Inv s) {q r : Nat} (hq : q < s.nv) (hr : r < s.nv) (hqr : q ≠ r)
    {np nl dp dl : Nat} {Nl Dl : List Nat}
    (hN : s.load np nl = .ok Nl) (hD : s.load dp dl = .ok Dl)
    (hnq : np ≠ s.ptr q) (hnr : np ≠ s.ptr r) (hdq : dp ≠ s.ptr q) (hdr : dp ≠ s.ptr r)
    (hdl : 1 ≤ dl) (hle : dl ≤ nl) (hLN : Limbs Nl) (hLD : Limbs Dl)
    (hNge : B ^ (nl - 1) ≤ val Nl) (hDge : B ^ (dl - 1) ≤ val Dl)
    (haq : nl - dl + 1 ≤ s.alloc q) (har : dl ≤ s.alloc r) (ns ds : Int) :
    ∃ s', tdiv_qr_core q r (s.ptr q) (s.ptr r) np nl dp dl ns ds s = .ok s' ∧ Inv s' ∧
      s'.nv = s.nv ∧ s'.next = s.next ∧ (∀ i, s'.ptr i = s.ptr i) ∧
      s'.value q = (if sameSign ns ds then ((val Nl / val Dl : Nat) : Int) else -((val Nl / val Dl : Nat) : Int)) ∧
      s'.value r = (if ns ≥ 0 then ((val Nl % val Dl : Nat) : Int) else -((val Nl % val Dl : Nat) : Int)) ∧
      (∀ i, i < s.nv → i ≠ q → i ≠ r → s'.value i = s.value i) := by
  have hNlen := load_length hN
  have hDlen := load_length hD
  have hN2 : val Nl < B ^ nl := by have := val_lt Nl hLN; rwa [hNlen] at this
  have hD2 : val Dl < B ^ dl := by have := val_lt Dl hLD; rwa [hDlen] at this
  have htop : Dl.getD (dl - 1) 0 ≠ 0 := by
    rw [val_top hLD dl hdl (by omega), List.take_of_length_le (by omega)]; exact hDge
  obtain ⟨bq, hbq, hbql, hbqL⟩ := h.live q hq
  obtain ⟨br, hbr, hbrl, hbrL⟩ := h.live r hr
  have hpqr : s.ptr q ≠ s.ptr r := fun e => hqr (h.inj q r hq hr e)
  have hmpn := mpn_tdiv_qr_ok hN hD hbq hbr (Ne.symm hnq) (Ne.symm hdq) (Ne.symm hnr) (Ne.symm hdr) hpqr hdl hle htop
    (by omega) (by omega)
  obtain ⟨hQlt, hQsz⟩ := quot_size hNge hN2 hDge hD2 hdl hle
  have hDpos : 0 < val Dl := Nat.lt_of_lt_of_le (DivZ.Bpow_pos _) hDge
  have hRlt : val Nl % val Dl < B ^ dl := Nat.lt_trans (Nat.mod_lt _ hDpos) hD2
  set Q := val Nl / val Dl with hQ
  set R := val Nl % val Dl with hR
  set bq' := toLimbs (nl - dl + 1) Q ++ bq.drop (nl - dl + 1) with hbq'
  set br' := toLimbs dl R ++ br.drop dl with hbr'
  set X := (s.setBlk (s.ptr q) (some bq')).setBlk (s.ptr r) (some br') with hX
  have hXq : X.blk (s.ptr q) = some bq' := by simp [hX, St.setBlk, hpqr]
  have hXr : X.blk (s.ptr r) = some br' := by simp [hX, St.setBlk]
  have hlimb : limbAt X (s.ptr q) (nl - dl + 1 - 1) = .ok (Q / B ^ (nl - dl + 1 - 1) % B) := by
    rw [limbAt_of_blk hXq (by simp [hbq', toLimbs_length]; omega)]
    rw [hbq', getD_append_left (by rw [toLimbs_length]; omega), toLimbs_getD _ _ _ (by omega)]
  have hnorm : normSize X (s.ptr r) dl = .ok (sizeNat R) := by
    rw [normSize_of_blk hXr, Nat.mod_eq_of_lt hRlt]
  have hRsz : sizeNat R ≤ dl := (DivZ.sizeNat_le_iff _ _).mpr hRlt
  have hQsz' : sizeNat Q ≤ nl - dl + 1 := (DivZ.sizeNat_le_iff _ _).mpr hQlt
  -- first put: the quotient
  have p1 := put_upd h hq bq' Q (!decide (sameSign ns ds))
    (by rw [hbq', length_wr' (by omega)]; exact hbql) (Limbs_wr' (Limbs_toLimbs _ _) hbqL) (by omega)
    (val_take_wr _ hQsz')
  rw [ite_neg_bool] at p1
  set s1 := s.put q bq' (if sameSign ns ds then (sizeNat Q : Int) else -(sizeNat Q : Int)) with hs1
  have hr1 : r < s1.nv := by rw [p1.2.1.nv]; exact hr
  have hbr1 : s1.alloc r = s.alloc r := p1.2.1.alloc r
  have p2 := put_upd p1.1 hr1 br' R (!decide (ns ≥ 0))
    (by rw [hbr', length_wr' (by omega), hbr1]; exact hbrl) (Limbs_wr' (Limbs_toLimbs _ _) hbrL) (by rw [hbr1]; omega)
    (val_take_wr _ hRsz)
  rw [ite_neg_bool] at p2
  refine ⟨_, ?_, p2.1, by rw [p2.2.1.nv, p1.2.1.nv], by rw [p2.2.1.next, p1.2.1.next],
    fun i => by rw [p2.2.1.ptr, p1.2.1.ptr], ?_, ?_, fun i hi hiq hir => ?_⟩
  · unfold tdiv_qr_core
    simp only [bind, Except.bind, hmpn, pure, Except.pure]
    simp only [hlimb, hnorm]
    rw [hQsz, hX, put_put_eq s hqr]
  · rw [p2.2.1.value_o p1.1 hr1 (by rw [p1.2.1.nv]; exact hq) hqr, p1.2.2, ite_neg_bool]
  · rw [p2.2.2, ite_neg_bool]
  · rw [p2.2.1.value_o p1.1 hr1 (by rw [p1.2.1.nv]; exact hi) hir, p1.2.1.value_o h hq hi hiq]

/-! ### helpers for the early exits and the final TMP_FREE -/

theorem setSize_eq_put (s : St) {v : Nat} {b : List Nat} (hb : s.blk (s.ptr v) = some b) (z : Int) :
    s.setSize v z = s.put v b z := by
  unfold St.put
  have : s.setBlk (s.ptr v) (some b) = s := by
    cases s with
    | mk nv vars blk next =>
      simp only [St.setBlk, St.mk.injEq, true_and, and_true]
      funext p
      by_cases e : p = (St.mk nv vars blk next).ptr v
      · rw [if_pos e, e]; exact hb.symm
      · rw [if_neg e]
  rw [this]

theorem setSize_zero_spec {s : St} (h : Inv s) {v : Nat} (hv : v < s.nv) :
    Inv (s.setSize v 0) ∧ Upd s (s.setSize v 0) v ∧ (s.setSize v 0).value v = 0 := by
  obtain ⟨b, hb, hbl, hbL⟩ := h.live v hv
  rw [setSize_eq_put s hb]
  have := put_upd h hv b 0 false hbl hbL (by rw [DivZ.sizeNat_eq_zero.mpr rfl]; omega)
    (by rw [DivZ.sizeNat_eq_zero.mpr rfl]; simp)
  simpa [DivZ.sizeNat_eq_zero.mpr rfl] using this

/-- `MPN_COPY (PTR (w), PTR (u), |SIZ (u)|); SIZ (w) = SIZ (u)` when `w` has the room -/
theorem assign_spec {s : St} (h : Inv s) {w u : Nat} (hw : w < s.nv) (hu : u < s.nv)
    (hfit : (s.size u).natAbs ≤ s.alloc w) :
    ∃ X, s.store (s.ptr w) (s.limbs u) = .ok X ∧ Res s (X.setSize w (s.size u)) w (s.value u) := by
  have hls := h.limbs_spec hu
  obtain ⟨b, hb, hlen, hL, hst⟩ := store_var h hw (s.limbs u) (by rw [hls.1]; exact hfit)
  have hsn := h.size_natAbs hu
  have hput := put_upd h hw (s.limbs u ++ b.drop (s.limbs u).length) (s.mag u) (decide (s.size u < 0))
    (by rw [length_wr _ _ (by rw [hls.1]; omega)]; exact hlen) (Limbs_wr hls.2 hL) (by rw [← hsn]; exact hfit)
    (by rw [← hsn, List.take_append_of_le_length (by rw [hls.1]), List.take_of_length_le (by rw [hls.1])]; rfl)
  have hsz : (if decide (s.size u < 0) = true then -(sizeNat (s.mag u) : Int) else (sizeNat (s.mag u) : Int)) = s.size u := by
    rw [← hsn]
    by_cases h0 : s.size u < 0
    · rw [if_pos (by simpa using h0)]; omega
    · rw [if_neg (by simpa using h0)]; omega
  rw [hsz] at hput
  refine ⟨_, hst, ?_⟩
  refine ⟨hput.1, hput.2.1.nv, ?_, fun i hi hiw => hput.2.1.value_o h hw hi hiw⟩
  have : (s.setBlk (s.ptr w) (some (s.limbs u ++ b.drop (s.limbs u).length))).setSize w (s.size u) =
      s.put w (s.limbs u ++ b.drop (s.limbs u).length) (s.size u) := rfl
  rw [this, hput.2.2, value_eq_sgnv]
  unfold sgnv; by_cases h0 : s.size u < 0 <;> simp [h0]

theorem free_list_inv : ∀ (l : List Nat) {s : St}, Inv s → (∀ p, p ∈ l → ∀ i, i < s.nv → s.ptr i ≠ p) →
    Inv (l.foldl St.free s) ∧ (l.foldl St.free s).nv = s.nv ∧ ∀ i, i < s.nv → (l.foldl St.free s).value i = s.value i
  | [], s, h, _ => ⟨h, rfl, fun _ _ => rfl⟩
  | p :: l, s, h, hp => by
    obtain ⟨i1, n1, v1, e1⟩ := free_inv h p (hp p (by simp))
    have := free_list_inv l i1 (fun p' hp' i hi => by
      rw [n1] at hi
      have : (s.free p).ptr i = s.ptr i := by unfold St.ptr; rw [v1]
      rw [this]; exact hp p' (by simp [hp']) i hi)
    simp only [List.foldl_cons]
    exact ⟨this.1, by rw [this.2.1, n1], fun i hi => by rw [this.2.2 i (by rw [n1]; exact hi), e1 i hi]⟩

/-! ### mpz_tdiv_qr -/

theorem store_vars {s X : St} {p : Nat} {l : List Nat} (h : s.store p l = .ok X) : X.vars = s.vars := by
  unfold St.store at h
  cases hb : s.blk p with
  | none => rw [hb] at h; simp at h
  | some b =>
    rw [hb] at h; simp only [] at h
    split at h
    · cases h; rfl
    · simp at h

theorem sameSign_sizes {s : St} (h : Inv s) {n d : Nat} (hn : n < s.nv) (hd : d < s.nv) :
    sameSign (s.size n) (s.size d) ↔ (s.value n < 0 ↔ s.value d < 0) := by
  unfold sameSign; rw [h.size_neg_iff hn, h.size_neg_iff hd]

theorem tdivQ_eq {s : St} (h : Inv s) {n d : Nat} (hn : n < s.nv) (hd : d < s.nv) :
    (if sameSign (s.size n) (s.size d) then ((s.mag n / s.mag d : Nat) : Int) else -((s.mag n / s.mag d : Nat) : Int))
      = DivZ.tdivQ (s.value n) (s.value d) := by
  unfold DivZ.tdivQ
  rw [DivZ.tdiv_sign_mag, value_natAbs, value_natAbs]
  by_cases hc : sameSign (s.size n) (s.size d)
  · rw [if_pos hc, if_pos ((sameSign_sizes h hn hd).mp hc)]
  · rw [if_neg hc, if_neg (fun e => hc ((sameSign_sizes h hn hd).mpr e))]

theorem tdivR_eq {s : St} (h : Inv s) {n : Nat} (d : Nat) (hn : n < s.nv) :
    (if s.size n ≥ 0 then ((s.mag n % s.mag d : Nat) : Int) else -((s.mag n % s.mag d : Nat) : Int))
      = DivZ.tdivR (s.value n) (s.value d) := by
  unfold DivZ.tdivR
  rw [DivZ.tmod_sign_mag, value_natAbs, value_natAbs]
  have := h.size_neg_iff hn
  by_cases hc : s.size n ≥ 0
  · rw [if_pos hc, if_pos (by omega)]
  · rw [if_neg hc, if_neg (by omega)]

theorem tdiv_qr_ok {s : St} (h : Inv s) {q r n d : Nat} (hq : q < s.nv) (hr : r < s.nv) (hn : n < s.nv)
    (hd : d < s.nv) (hqr : q ≠ r) (hd0 : s.value d ≠ 0) :
    ∃ s', tdiv_qr q r n d s = .ok s' ∧ Inv s' ∧ s'.nv = s.nv ∧
      s'.value q = DivZ.tdivQ (s.value n) (s.value d) ∧ s'.value r = DivZ.tdivR (s.value n) (s.value d) ∧
      ∀ i, i < s.nv → i ≠ q → i ≠ r → s'.value i = s.value i := by
  have hds : s.size d ≠ 0 := fun e => hd0 ((h.size_eq_zero_iff hd).mp e)
  obtain ⟨i1, n1, sz1, v1, a1, ag1⟩ := realloc_spec h hr (s.size d).natAbs
  set s1 := s.mpzRealloc r (s.size d).natAbs with hs1
  unfold tdiv_qr tdiv_qrV
  simp only [Variant.c, if_true, bind, Except.bind, pure, Except.pure]
  rw [if_neg (by omega)]
  simp only [← hs1]
  by_cases hql : ((s.size n).natAbs : Int) - ((s.size d).natAbs : Int) + 1 ≤ 0
  · rw [if_pos hql]
    have hlt : (s.size n).natAbs < (s.size d).natAbs := by omega
    have hq1 : q < s1.nv := by rw [n1]; exact hq
    have hr1 : r < s1.nv := by rw [n1]; exact hr
    have hn1 : n < s1.nv := by rw [n1]; exact hn
    have hmag : (s.value n).natAbs < (s.value d).natAbs := by
      rw [value_natAbs, value_natAbs]
      have h1 := h.mag_lt hn
      have h2 := h.mag_ge hd hds
      have h3 : B ^ (s.size n).natAbs ≤ B ^ ((s.size d).natAbs - 1) := Nat.pow_le_pow_right B_pos (by omega)
      omega
    obtain ⟨tq, tr⟩ := DivZ.tdiv_tmod_of_natAbs_lt hmag
    by_cases hnr : n = r
    · subst hnr
      simp only [ne_eq, not_true_eq_false, if_false]
      obtain ⟨i2, u2, vq2⟩ := setSize_zero_spec i1 hq1
      refine ⟨_, rfl, i2, by rw [u2.nv, n1], ?_, ?_, fun i hi hiq hir => ?_⟩
      · rw [vq2]; exact tq.symm
      · rw [u2.value_o i1 hq1 hn1 (Ne.symm hqr), v1 n hn]; exact tr.symm
      · rw [u2.value_o i1 hq1 (by rw [n1]; exact hi) hiq, v1 i hi]
    · rw [if_pos hnr]
      have hl := i1.load_var hn1; rw [sz1] at hl
      rw [hl]; simp only []
      obtain ⟨X, eX, iX, nX, vrX, voX⟩ := assign_spec i1 hr1 hn1 (by rw [sz1]; omega)
      rw [eX]; simp only []
      have hXn : X.size n = s1.size n := by unfold St.size; rw [store_vars eX]
      rw [hXn]
      have hqX : q < (X.setSize r (s1.size n)).nv := by rw [nX]; exact hq1
      obtain ⟨i2, u2, vq2⟩ := setSize_zero_spec iX hqX
      refine ⟨_, rfl, i2, by rw [u2.nv, nX, n1], ?_, ?_, fun i hi hiq hir => ?_⟩
      · rw [vq2]; exact tq.symm
      · rw [u2.value_o iX hqX (by rw [nX]; exact hr1) (Ne.symm hqr), vrX, v1 n hn]; exact tr.symm
      · rw [u2.value_o iX hqX (by rw [nX, n1]; exact hi) hiq, voX i (by rw [n1]; exact hi) hir, v1 i hi]
  · rw [if_neg hql]
    have hle : (s.size d).natAbs ≤ (s.size n).natAbs := by omega
    have hqlN : (((s.size n).natAbs : Int) - ((s.size d).natAbs : Int) + 1).toNat = (s.size n).natAbs - (s.size d).natAbs + 1 := by omega
    rw [hqlN]
    have hq1 : q < s1.nv := by rw [n1]; exact hq
    obtain ⟨i2, n2, sz2, v2, a2, ag2⟩ := realloc_spec i1 hq1 ((s.size n).natAbs - (s.size d).natAbs + 1)
    set s2 := s1.mpzRealloc q ((s.size n).natAbs - (s.size d).natAbs + 1) with hs2
    have nv2 : s2.nv = s.nv := by rw [n2, n1]
    have hq2 : q < s2.nv := by rw [nv2]; exact hq
    have hr2 : r < s2.nv := by rw [nv2]; exact hr
    have hn2 : n < s2.nv := by rw [nv2]; exact hn
    have hd2 : d < s2.nv := by rw [nv2]; exact hd
    have size2 : ∀ i, s2.size i = s.size i := fun i => by rw [sz2, sz1]
    have val2 : ∀ i, i < s.nv → s2.value i = s.value i := fun i hi => by rw [v2 i (by rw [n1]; exact hi), v1 i hi]
    have mag2 : ∀ i, i < s.nv → s2.mag i = s.mag i := fun i hi => by
      rw [← value_natAbs, ← value_natAbs, val2 i hi]
    -- the two conditional copies
    generalize hc1 : decide (True ∧ (s2.ptr d = s2.ptr r ∨ s2.ptr d = s2.ptr q)) = c1
    generalize hc2 : decide (True ∧ (s2.ptr n = s2.ptr r ∨ s2.ptr n = s2.ptr q)) = c2
    have hld := i2.load_var hd2; rw [size2] at hld
    have hln := i2.load_var hn2; rw [size2] at hln
    obtain ⟨dp, s3, e3, i3, x3, l3, t3, f3⟩ := copyIf_spec i2 c1 hld
    obtain ⟨np, s4, e4, i4, x4, l4, t4, f4⟩ := copyIf_spec i3 c2 (x3.load hln)
    rw [e3]; simp only []
    rw [e4]; simp only []
    have x24 := x3.trans x4
    have hpq : s2.ptr q = s4.ptr q := (x24.ptr q).symm
    have hpr : s2.ptr r = s4.ptr r := (x24.ptr r).symm
    rw [hpq, hpr]
    have hq4 : q < s4.nv := by rw [x24.nv]; exact hq2
    have hr4 : r < s4.nv := by rw [x24.nv]; exact hr2
    have hlt2 : ∀ i, i < s.nv → s4.ptr i < s2.next := fun i hi => by
      rw [x24.ptr]; exact i2.lt i (by rw [nv2]; exact hi)
    have hlt3 : ∀ i, i < s.nv → s4.ptr i < s3.next := fun i hi => Nat.lt_of_lt_of_le (hlt2 i hi) x3.next
    have hdp : ∀ i, i < s.nv → (i = q ∨ i = r) → dp ≠ s4.ptr i := fun i hi hqr' => by
      cases c1
      · rw [(f3 rfl).1, x24.ptr]
        have h' : ¬ (s2.ptr d = s2.ptr r ∨ s2.ptr d = s2.ptr q) := by simpa using of_decide_eq_false hc1
        rcases hqr' with e | e
        · rw [e]; exact fun e' => h' (Or.inr e')
        · rw [e]; exact fun e' => h' (Or.inl e')
      · rw [(t3 rfl).1]; exact Nat.ne_of_gt (hlt2 i hi)
    have hnp : ∀ i, i < s.nv → (i = q ∨ i = r) → np ≠ s4.ptr i := fun i hi hqr' => by
      cases c2
      · rw [(f4 rfl).1, x24.ptr]
        have h' : ¬ (s2.ptr n = s2.ptr r ∨ s2.ptr n = s2.ptr q) := by simpa using of_decide_eq_false hc2
        rcases hqr' with e | e
        · rw [e]; exact fun e' => h' (Or.inr e')
        · rw [e]; exact fun e' => h' (Or.inl e')
      · rw [(t4 rfl).1]; exact Nat.ne_of_gt (hlt3 i hi)
    have hsn0 : s2.size n ≠ 0 := by rw [size2]; omega
    have hsd0 : s2.size d ≠ 0 := by rw [size2]; exact hds
    have hNge := i2.mag_ge hn2 hsn0; rw [size2] at hNge
    have hDge := i2.mag_ge hd2 hsd0; rw [size2] at hDge
    obtain ⟨s5, e5, i5, nv5, nx5, p5, vq5, vr5, vo5⟩ := tdiv_qr_core_ok i4 hq4 hr4 hqr l4 (x4.load l3)
      (hnp q hq (Or.inl rfl)) (hnp r hr (Or.inr rfl)) (hdp q hq (Or.inl rfl)) (hdp r hr (Or.inr rfl))
      (by omega) hle (i2.limbs_spec hn2).2 (i2.limbs_spec hd2).2 hNge hDge
      (by rw [x24.alloc]; exact a2) (by rw [x24.alloc]; exact Nat.le_trans a1 (ag2 r)) (s.size n) (s.size d)
    rw [e5]; simp only []
    have nv5' : s5.nv = s.nv := by rw [nv5, x24.nv, nv2]
    obtain ⟨i6, nv6, v6⟩ := free_list_inv ((if c1 = true then [dp] else []) ++ if c2 = true then [np] else []) i5
      (fun p hp i hi => by
        rw [nv5'] at hi
        rw [p5]
        rcases List.mem_append.mp hp with hp | hp
        · cases c1
          · simp at hp
          · simp at hp; rw [hp, (t3 rfl).1]; exact Nat.ne_of_lt (hlt2 i hi)
        · cases c2
          · simp at hp
          · simp at hp; rw [hp, (t4 rfl).1]; exact Nat.ne_of_lt (hlt3 i hi))
    refine ⟨_, rfl, i6, by rw [nv6, nv5'], ?_, ?_, fun i hi hiq hir => ?_⟩
    · rw [v6 q (by rw [nv5']; exact hq), vq5]
      show (if sameSign (s.size n) (s.size d) then ((s2.mag n / s2.mag d : Nat) : Int) else -((s2.mag n / s2.mag d : Nat) : Int)) = _
      rw [mag2 n hn, mag2 d hd]; exact tdivQ_eq h hn hd
    · rw [v6 r (by rw [nv5']; exact hr), vr5]
      show (if s.size n ≥ 0 then ((s2.mag n % s2.mag d : Nat) : Int) else -((s2.mag n % s2.mag d : Nat) : Int)) = _
      rw [mag2 n hn, mag2 d hd]; exact tdivR_eq h d hn
    · rw [v6 i (by rw [nv5']; exact hi), vo5 i (by rw [x24.nv, nv2]; exact hi) hiq hir, x24.value i2 (by rw [nv2]; exact hi), val2 i hi]

/-! ### mpz_tdiv_q, mpz_tdiv_r -/

theorem tdiv_q_core_ok {s : St} (h : Inv s) {q : Nat} (hq : q < s.nv)
    {np nl dp dl : Nat} {Nl Dl : List Nat}
    (hN : s.load np nl = .ok Nl) (hD : s.load dp dl = .ok Dl)
    (hnq : np ≠ s.ptr q) (hdq : dp ≠ s.ptr q)
    (hdl : 1 ≤ dl) (hle : dl ≤ nl) (hLN : Limbs Nl) (hLD : Limbs Dl)
    (hNge : B ^ (nl - 1) ≤ val Nl) (hDge : B ^ (dl - 1) ≤ val Dl)
    (haq : nl - dl + 1 ≤ s.alloc q) (ns ds : Int) :
    ∃ s', tdiv_q_core q (s.ptr q) np nl dp dl ns ds s = .ok s' ∧ Inv s' ∧ Upd s s' q ∧
      s'.value q = (if sameSign ns ds then ((val Nl / val Dl : Nat) : Int) else -((val Nl / val Dl : Nat) : Int)) := by
  have hNlen := load_length hN
  have hDlen := load_length hD
  have hN2 : val Nl < B ^ nl := by have := val_lt Nl hLN; rwa [hNlen] at this
  have hD2 : val Dl < B ^ dl := by have := val_lt Dl hLD; rwa [hDlen] at this
  have htop : Dl.getD (dl - 1) 0 ≠ 0 := by
    rw [val_top hLD dl hdl (by omega), List.take_of_length_le (by omega)]; exact hDge
  obtain ⟨bq, hbq, hbql, hbqL⟩ := h.live q hq
  have hmpn := mpn_tdiv_q_ok hN hD hbq (Ne.symm hnq) (Ne.symm hdq) hdl hle htop (by omega)
  obtain ⟨hQlt, hQsz⟩ := quot_size hNge hN2 hDge hD2 hdl hle
  set Q := val Nl / val Dl with hQ
  set bq' := toLimbs (nl - dl + 1) Q ++ bq.drop (nl - dl + 1) with hbq'
  set X := s.setBlk (s.ptr q) (some bq') with hX
  have hXq : X.blk (s.ptr q) = some bq' := by simp [hX, St.setBlk]
  have hlimb : limbAt X (s.ptr q) (nl - dl + 1 - 1) = .ok (Q / B ^ (nl - dl + 1 - 1) % B) := by
    rw [limbAt_of_blk hXq (by simp [hbq', toLimbs_length]; omega)]
    rw [hbq', getD_append_left (by rw [toLimbs_length]; omega), toLimbs_getD _ _ _ (by omega)]
  have hQsz' : sizeNat Q ≤ nl - dl + 1 := (DivZ.sizeNat_le_iff _ _).mpr hQlt
  have p1 := put_upd h hq bq' Q (!decide (sameSign ns ds))
    (by rw [hbq', length_wr' (by omega)]; exact hbql) (Limbs_wr' (Limbs_toLimbs _ _) hbqL) (by omega)
    (val_take_wr _ hQsz')
  rw [ite_neg_bool] at p1
  refine ⟨_, ?_, p1.1, p1.2.1, ?_⟩
  · unfold tdiv_q_core
    simp only [bind, Except.bind, hmpn, pure, Except.pure]
    simp only [hlimb]
    rw [hQsz]; rfl
  · rw [p1.2.2, ite_neg_bool]

/-- writing a live block that is not a variable's -/
theorem setBlk_nonvar {s : St} (h : Inv s) {p : Nat} (hp : ∀ i, i < s.nv → s.ptr i ≠ p) (hlt : p < s.next)
    (b : List Nat) :
    Inv (s.setBlk p (some b)) ∧ (∀ i, i < s.nv → (s.setBlk p (some b)).value i = s.value i) := by
  have hb : ∀ i, i < s.nv → (s.setBlk p (some b)).blk (s.ptr i) = s.blk (s.ptr i) := fun i hi => by
    simp [St.setBlk, hp i hi]
  have hv : ∀ i, i < s.nv → (s.setBlk p (some b)).value i = s.value i := fun i hi => value_congr rfl (hb i hi)
  refine ⟨⟨fun i hi => ?_, fun i j hi hj => h.inj i j hi hj, fun i hi => h.lt i hi, fun q hq => ?_,
    fun i hi => h.fits i hi, fun i hi => ?_⟩, hv⟩
  · obtain ⟨c, hc, hlen, hL⟩ := h.live i hi
    exact ⟨c, by rw [show (s.setBlk p (some b)).ptr i = s.ptr i from rfl, hb i hi, hc], hlen, hL⟩
  · have hq' : s.next ≤ q := hq
    have : q ≠ p := by omega
    simp only [St.setBlk, this, if_false]; exact h.fresh q hq
  · rw [show (s.setBlk p (some b)).size i = s.size i from rfl, hv i hi]; exact h.norm i hi

theorem tdiv_r_core_ok {s : St} (h : Inv s) {r : Nat} (hr : r < s.nv)
    {qp np nl dp dl : Nat} {Nl Dl bq : List Nat}
    (hN : s.load np nl = .ok Nl) (hD : s.load dp dl = .ok Dl)
    (hbq : s.blk qp = some bq) (hqv : ∀ i, i < s.nv → s.ptr i ≠ qp) (hqlt : qp < s.next)
    (hqn : qp ≠ np) (hqd : qp ≠ dp)
    (hnr : np ≠ s.ptr r) (hdr : dp ≠ s.ptr r)
    (hdl : 1 ≤ dl) (hle : dl ≤ nl) (hLN : Limbs Nl) (hLD : Limbs Dl)
    (hDge : B ^ (dl - 1) ≤ val Dl)
    (haq : nl - dl + 1 ≤ bq.length) (har : dl ≤ s.alloc r) (ns : Int) :
    ∃ s', tdiv_r_core r qp (s.ptr r) np nl dp dl ns s = .ok s' ∧ Inv s' ∧
      s'.nv = s.nv ∧ (∀ i, s'.ptr i = s.ptr i) ∧
      s'.value r = (if ns ≥ 0 then ((val Nl % val Dl : Nat) : Int) else -((val Nl % val Dl : Nat) : Int)) ∧
      (∀ i, i < s.nv → i ≠ r → s'.value i = s.value i) := by
  have hDlen := load_length hD
  have hD2 : val Dl < B ^ dl := by have := val_lt Dl hLD; rwa [hDlen] at this
  have htop : Dl.getD (dl - 1) 0 ≠ 0 := by
    rw [val_top hLD dl hdl (by omega), List.take_of_length_le (by omega)]; exact hDge
  obtain ⟨br, hbr, hbrl, hbrL⟩ := h.live r hr
  have hmpn := mpn_tdiv_qr_ok hN hD hbq hbr hqn hqd (Ne.symm hnr) (Ne.symm hdr) (Ne.symm (hqv r hr)) hdl hle htop
    haq (by omega)
  have hDpos : 0 < val Dl := Nat.lt_of_lt_of_le (DivZ.Bpow_pos _) hDge
  have hRlt : val Nl % val Dl < B ^ dl := Nat.lt_trans (Nat.mod_lt _ hDpos) hD2
  set R := val Nl % val Dl with hR
  set br' := toLimbs dl R ++ br.drop dl with hbr'
  set Y := s.setBlk qp (some (toLimbs (nl - dl + 1) (val Nl / val Dl) ++ bq.drop (nl - dl + 1))) with hY
  obtain ⟨iY, vY⟩ := setBlk_nonvar h hqv hqlt (toLimbs (nl - dl + 1) (val Nl / val Dl) ++ bq.drop (nl - dl + 1))
  rw [← hY] at iY vY
  set X := Y.setBlk (s.ptr r) (some br') with hX
  have hXr : X.blk (s.ptr r) = some br' := by simp [hX, St.setBlk]
  have hnorm : normSize X (s.ptr r) dl = .ok (sizeNat R) := by
    rw [normSize_of_blk hXr, Nat.mod_eq_of_lt hRlt]
  have hRsz : sizeNat R ≤ dl := (DivZ.sizeNat_le_iff _ _).mpr hRlt
  have hrY : r < Y.nv := hr
  have p2 := put_upd iY hrY br' R (!decide (ns ≥ 0))
    (by rw [hbr', length_wr' (by omega)]; exact hbrl) (Limbs_wr' (Limbs_toLimbs _ _) hbrL)
    (by show sizeNat R ≤ s.alloc r; omega) (val_take_wr _ hRsz)
  rw [ite_neg_bool] at p2
  refine ⟨_, ?_, p2.1, p2.2.1.nv, fun i => p2.2.1.ptr i, ?_, fun i hi hir => ?_⟩
  · unfold tdiv_r_core
    simp only [bind, Except.bind, hmpn, pure, Except.pure]
    simp only [hnorm]
    rfl
  · rw [p2.2.2, ite_neg_bool]
  · rw [p2.2.1.value_o iY hrY hi hir, vY i hi]


theorem mag_lt_of_size_lt {s : St} (h : Inv s) {n d : Nat} (hn : n < s.nv) (hd : d < s.nv) (hds : s.size d ≠ 0)
    (hlt : (s.size n).natAbs < (s.size d).natAbs) : (s.value n).natAbs < (s.value d).natAbs := by
  rw [value_natAbs, value_natAbs]
  have h1 := h.mag_lt hn
  have h2 := h.mag_ge hd hds
  have h3 : B ^ (s.size n).natAbs ≤ B ^ ((s.size d).natAbs - 1) := Nat.pow_le_pow_right B_pos (by omega)
  omega

theorem tdiv_q_ok {s : St} (h : Inv s) {q n d : Nat} (hq : q < s.nv) (hn : n < s.nv)
    (hd : d < s.nv) (hd0 : s.value d ≠ 0) :
    ∃ s', tdiv_q q n d s = .ok s' ∧ Res s s' q (DivZ.tdivQ (s.value n) (s.value d)) := by
  have hds : s.size d ≠ 0 := fun e => hd0 ((h.size_eq_zero_iff hd).mp e)
  unfold tdiv_q tdiv_qV
  simp only [Variant.c, if_true, bind, Except.bind, pure, Except.pure]
  rw [if_neg (by omega)]
  by_cases hql : ((s.size n).natAbs : Int) - ((s.size d).natAbs : Int) + 1 ≤ 0
  · rw [if_pos hql]
    have hlt : (s.size n).natAbs < (s.size d).natAbs := by omega
    obtain ⟨tq, _⟩ := DivZ.tdiv_tmod_of_natAbs_lt (mag_lt_of_size_lt h hn hd hds hlt)
    obtain ⟨i2, u2, vq2⟩ := setSize_zero_spec h hq
    exact ⟨_, rfl, i2, u2.nv, by rw [vq2]; exact tq.symm, fun i hi hiq => u2.value_o h hq hi hiq⟩
  · rw [if_neg hql]
    have hle : (s.size d).natAbs ≤ (s.size n).natAbs := by omega
    have hqlN : (((s.size n).natAbs : Int) - ((s.size d).natAbs : Int) + 1).toNat = (s.size n).natAbs - (s.size d).natAbs + 1 := by omega
    rw [hqlN]
    obtain ⟨i2, nv2, size2, val2, a2, ag2⟩ := realloc_spec h hq ((s.size n).natAbs - (s.size d).natAbs + 1)
    set s2 := s.mpzRealloc q ((s.size n).natAbs - (s.size d).natAbs + 1) with hs2
    have hq2 : q < s2.nv := by rw [nv2]; exact hq
    have hn2 : n < s2.nv := by rw [nv2]; exact hn
    have hd2 : d < s2.nv := by rw [nv2]; exact hd
    have mag2 : ∀ i, i < s.nv → s2.mag i = s.mag i := fun i hi => by
      rw [← value_natAbs, ← value_natAbs, val2 i hi]
    generalize hc1 : decide (True ∧ (s2.ptr d = s2.ptr q)) = c1
    generalize hc2 : decide (True ∧ (s2.ptr n = s2.ptr q)) = c2
    have hld := i2.load_var hd2; rw [size2] at hld
    have hln := i2.load_var hn2; rw [size2] at hln
    obtain ⟨dp, s3, e3, i3, x3, l3, t3, f3⟩ := copyIf_spec i2 c1 hld
    obtain ⟨np, s4, e4, i4, x4, l4, t4, f4⟩ := copyIf_spec i3 c2 (x3.load hln)
    rw [e3]; simp only []
    rw [e4]; simp only []
    have x24 := x3.trans x4
    have hpq : s2.ptr q = s4.ptr q := (x24.ptr q).symm
    rw [hpq]
    have hq4 : q < s4.nv := by rw [x24.nv]; exact hq2
    have hlt2 : ∀ i, i < s.nv → s4.ptr i < s2.next := fun i hi => by
      rw [x24.ptr]; exact i2.lt i (by rw [nv2]; exact hi)
    have hlt3 : ∀ i, i < s.nv → s4.ptr i < s3.next := fun i hi => Nat.lt_of_lt_of_le (hlt2 i hi) x3.next
    have hdp : dp ≠ s4.ptr q := by
      cases c1
      · rw [(f3 rfl).1, x24.ptr]
        have h' : ¬ (s2.ptr d = s2.ptr q) := by simpa using of_decide_eq_false hc1
        exact h'
      · rw [(t3 rfl).1]; exact Nat.ne_of_gt (hlt2 q hq)
    have hnp : np ≠ s4.ptr q := by
      cases c2
      · rw [(f4 rfl).1, x24.ptr]
        have h' : ¬ (s2.ptr n = s2.ptr q) := by simpa using of_decide_eq_false hc2
        exact h'
      · rw [(t4 rfl).1]; exact Nat.ne_of_gt (hlt3 q hq)
    have hsn0 : s2.size n ≠ 0 := by rw [size2]; omega
    have hsd0 : s2.size d ≠ 0 := by rw [size2]; exact hds
    have hNge := i2.mag_ge hn2 hsn0; rw [size2] at hNge
    have hDge := i2.mag_ge hd2 hsd0; rw [size2] at hDge
    obtain ⟨s5, e5, i5, u5, vq5⟩ := tdiv_q_core_ok i4 hq4 l4 (x4.load l3) hnp hdp
      (by omega) hle (i2.limbs_spec hn2).2 (i2.limbs_spec hd2).2 hNge hDge
      (by rw [x24.alloc]; exact a2) (s.size n) (s.size d)
    rw [e5]; simp only []
    have nv5' : s5.nv = s.nv := by rw [u5.nv, x24.nv, nv2]
    obtain ⟨i6, nv6, v6⟩ := free_list_inv ((if c1 = true then [dp] else []) ++ if c2 = true then [np] else []) i5
      (fun p hp i hi => by
        rw [nv5'] at hi
        rw [u5.ptr]
        rcases List.mem_append.mp hp with hp | hp
        · cases c1
          · simp at hp
          · simp at hp; rw [hp, (t3 rfl).1]; exact Nat.ne_of_lt (hlt2 i hi)
        · cases c2
          · simp at hp
          · simp at hp; rw [hp, (t4 rfl).1]; exact Nat.ne_of_lt (hlt3 i hi))
    refine ⟨_, rfl, i6, by rw [nv6, nv5'], ?_, fun i hi hiq => ?_⟩
    · rw [v6 q (by rw [nv5']; exact hq), vq5]
      show (if sameSign (s.size n) (s.size d) then ((s2.mag n / s2.mag d : Nat) : Int) else -((s2.mag n / s2.mag d : Nat) : Int)) = _
      rw [mag2 n hn, mag2 d hd]; exact tdivQ_eq h hn hd
    · rw [v6 i (by rw [nv5']; exact hi), u5.value_o i4 hq4 (by rw [x24.nv, nv2]; exact hi) hiq,
        x24.value i2 (by rw [nv2]; exact hi), val2 i hi]

theorem tdiv_r_ok {s : St} (h : Inv s) {r n d : Nat} (hr : r < s.nv) (hn : n < s.nv)
    (hd : d < s.nv) (hd0 : s.value d ≠ 0) :
    ∃ s', tdiv_r r n d s = .ok s' ∧ Res s s' r (DivZ.tdivR (s.value n) (s.value d)) := by
  have hds : s.size d ≠ 0 := fun e => hd0 ((h.size_eq_zero_iff hd).mp e)
  obtain ⟨i1, n1, sz1, v1, a1, ag1⟩ := realloc_spec h hr (s.size d).natAbs
  set s1 := s.mpzRealloc r (s.size d).natAbs with hs1
  unfold tdiv_r tdiv_rV
  simp only [Variant.c, if_true, bind, Except.bind, pure, Except.pure]
  rw [if_neg (by omega)]
  simp only [← hs1]
  have hr1 : r < s1.nv := by rw [n1]; exact hr
  have hn1 : n < s1.nv := by rw [n1]; exact hn
  by_cases hql : ((s.size n).natAbs : Int) - ((s.size d).natAbs : Int) + 1 ≤ 0
  · rw [if_pos hql]
    have hlt : (s.size n).natAbs < (s.size d).natAbs := by omega
    obtain ⟨_, tr⟩ := DivZ.tdiv_tmod_of_natAbs_lt (mag_lt_of_size_lt h hn hd hds hlt)
    by_cases hnr : n = r
    · subst hnr
      simp only [ne_eq, not_true_eq_false, if_false]
      exact ⟨_, rfl, i1, n1, by rw [v1 n hn]; exact tr.symm, fun i hi _ => v1 i hi⟩
    · rw [if_pos hnr]
      have hl := i1.load_var hn1; rw [sz1] at hl
      rw [hl]; simp only []
      obtain ⟨X, eX, iX, nX, vrX, voX⟩ := assign_spec i1 hr1 hn1 (by rw [sz1]; omega)
      rw [eX]; simp only []
      have hXn : X.size n = s1.size n := by unfold St.size; rw [store_vars eX]
      rw [hXn]
      exact ⟨_, rfl, iX, by rw [nX, n1], by rw [vrX, v1 n hn]; exact tr.symm,
        fun i hi hir => by rw [voX i (by rw [n1]; exact hi) hir, v1 i hi]⟩
  · rw [if_neg hql]
    have hle : (s.size d).natAbs ≤ (s.size n).natAbs := by omega
    have hqlN : (((s.size n).natAbs : Int) - ((s.size d).natAbs : Int) + 1).toNat = (s.size n).natAbs - (s.size d).natAbs + 1 := by omega
    rw [hqlN]
    -- the scratch quotient
    set ql := (s.size n).natAbs - (s.size d).natAbs + 1 with hqldef
    set s2 := (s1.tmpAlloc ql).2 with hs2
    have hqp : (s1.tmpAlloc ql).1 = s1.next := rfl
    rw [hqp]
    have i2 : Inv s2 := malloc_inv i1 (List.replicate ql junk)
    have x12 : Ext s1 s2 := malloc_ext i1 (List.replicate ql junk)
    have hqpb : s2.blk s1.next = some (List.replicate ql junk) := malloc_blk_new s1 (List.replicate ql junk)
    have nv2 : s2.nv = s.nv := by rw [x12.nv, n1]
    have hr2 : r < s2.nv := by rw [nv2]; exact hr
    have hn2 : n < s2.nv := by rw [nv2]; exact hn
    have hd2 : d < s2.nv := by rw [nv2]; exact hd
    have size2 : ∀ i, s2.size i = s.size i := fun i => by rw [x12.size, sz1]
    have val2 : ∀ i, i < s.nv → s2.value i = s.value i := fun i hi => by
      rw [x12.value i1 (by rw [n1]; exact hi), v1 i hi]
    have mag2 : ∀ i, i < s.nv → s2.mag i = s.mag i := fun i hi => by
      rw [← value_natAbs, ← value_natAbs, val2 i hi]
    have next2 : s2.next = s1.next + 1 := rfl
    generalize hc1 : decide (True ∧ (s2.ptr d = s2.ptr r)) = c1
    generalize hc2 : decide (True ∧ (s2.ptr n = s2.ptr r)) = c2
    have hld := i2.load_var hd2; rw [size2] at hld
    have hln := i2.load_var hn2; rw [size2] at hln
    obtain ⟨dp, s3, e3, i3, x3, l3, t3, f3⟩ := copyIf_spec i2 c1 hld
    obtain ⟨np, s4, e4, i4, x4, l4, t4, f4⟩ := copyIf_spec i3 c2 (x3.load hln)
    rw [e3]; simp only []
    rw [e4]; simp only []
    have x24 := x3.trans x4
    have hpr : s2.ptr r = s4.ptr r := (x24.ptr r).symm
    rw [hpr]
    have hr4 : r < s4.nv := by rw [x24.nv]; exact hr2
    have hlt1 : ∀ i, i < s.nv → s4.ptr i < s1.next := fun i hi => by
      rw [x24.ptr, x12.ptr]; exact i1.lt i (by rw [n1]; exact hi)
    have hlt2 : ∀ i, i < s.nv → s4.ptr i < s2.next := fun i hi => by have := hlt1 i hi; omega
    have hlt3 : ∀ i, i < s.nv → s4.ptr i < s3.next := fun i hi => Nat.lt_of_lt_of_le (hlt2 i hi) x3.next
    have hdp : dp ≠ s4.ptr r ∧ s1.next ≠ dp := by
      cases c1
      · rw [(f3 rfl).1, x24.ptr]
        have h' : ¬ (s2.ptr d = s2.ptr r) := by simpa using of_decide_eq_false hc1
        exact ⟨h', by have := hlt1 d hd; rw [x24.ptr] at this; omega⟩
      · rw [(t3 rfl).1]; exact ⟨Nat.ne_of_gt (hlt2 r hr), by omega⟩
    have hnp : np ≠ s4.ptr r ∧ s1.next ≠ np := by
      cases c2
      · rw [(f4 rfl).1, x24.ptr]
        have h' : ¬ (s2.ptr n = s2.ptr r) := by simpa using of_decide_eq_false hc2
        exact ⟨h', by have := hlt1 n hn; rw [x24.ptr] at this; omega⟩
      · rw [(t4 rfl).1]; exact ⟨Nat.ne_of_gt (hlt3 r hr), by have := x3.next; omega⟩
    have hsd0 : s2.size d ≠ 0 := by rw [size2]; exact hds
    have hDge := i2.mag_ge hd2 hsd0; rw [size2] at hDge
    have hqpb4 : s4.blk s1.next = some (List.replicate ql junk) := by
      rw [x24.blk _ (by rw [hqpb]; simp), hqpb]
    obtain ⟨s5, e5, i5, nv5, p5, vr5, vo5⟩ := tdiv_r_core_ok i4 hr4 l4 (x4.load l3) hqpb4
      (fun i hi => by rw [x24.nv, nv2] at hi; exact Nat.ne_of_lt (hlt1 i hi))
      (by have := x24.next; omega) hnp.2 hdp.2 hnp.1 hdp.1
      (by omega) hle (i2.limbs_spec hn2).2 (i2.limbs_spec hd2).2 hDge
      (by simp [hqldef]) (by rw [x24.alloc, x12.alloc]; exact a1) (s.size n)
    rw [e5]; simp only []
    have nv5' : s5.nv = s.nv := by rw [nv5, x24.nv, nv2]
    obtain ⟨i6, nv6, v6⟩ := free_list_inv (s1.next :: (if c1 = true then [dp] else []) ++ if c2 = true then [np] else []) i5
      (fun p hp i hi => by
        rw [nv5'] at hi
        rw [p5]
        rcases List.mem_append.mp hp with hp | hp
        · rcases List.mem_cons.mp hp with hp | hp
          · rw [hp]; exact Nat.ne_of_lt (hlt1 i hi)
          · cases c1
            · simp at hp
            · simp at hp; rw [hp, (t3 rfl).1]; exact Nat.ne_of_lt (hlt2 i hi)
        · cases c2
          · simp at hp
          · simp at hp; rw [hp, (t4 rfl).1]; exact Nat.ne_of_lt (hlt3 i hi))
    refine ⟨_, rfl, i6, by rw [nv6, nv5'], ?_, fun i hi hir => ?_⟩
    · rw [v6 r (by rw [nv5']; exact hr), vr5]
      show (if s.size n ≥ 0 then ((s2.mag n % s2.mag d : Nat) : Int) else -((s2.mag n % s2.mag d : Nat) : Int)) = _
      rw [mag2 n hn, mag2 d hd]; exact tdivR_eq h d hn
    · rw [v6 i (by rw [nv5']; exact hi), vo5 i (by rw [x24.nv, nv2]; exact hi) hir,
        x24.value i2 (by rw [nv2]; exact hi), val2 i hi]

/-! ### floor / ceiling wrappers, mpz_mod -/

theorem tempDivisor_spec {s : St} (h : Inv s) {d : Nat} (hd : d < s.nv) (copied : Bool) :
    ∃ dv s0, tempDivisor copied d s = .ok (dv, s0) ∧ Inv s0 ∧ dv < s0.nv ∧ s0.value dv = s.value d ∧
      (∀ i, i < s.nv → s0.value i = s.value i) ∧
      (copied = true → dv = s.nv ∧ s0.nv = s.nv + 1) ∧ (copied = false → dv = d ∧ s0 = s) := by
  cases copied
  · exact ⟨d, s, by simp [tempDivisor, pure, Except.pure], h, hd, rfl, fun _ _ => rfl, by simp, by simp⟩
  · obtain ⟨e1, i1, n1, vo1, a1, vn1⟩ := tmpInit_spec h (s.size d).natAbs
    have hd1 : d < (s.tmpInit (s.size d).natAbs).2.nv := by rw [n1]; omega
    have hw1 : s.nv < (s.tmpInit (s.size d).natAbs).2.nv := by rw [n1]; omega
    obtain ⟨s0, e0, i0, n0, vw0, vo0⟩ := mpz_set_ok i1 hw1 hd1
    refine ⟨s.nv, s0, ?_, i0, by rw [n0, n1]; omega, by rw [vw0, (vo1 d hd).1],
      fun i hi => by rw [vo0 i (by rw [n1]; omega) (by omega), (vo1 i hi).1], fun _ => ⟨rfl, by rw [n0, n1]⟩, by simp⟩
    simp only [tempDivisor, if_true, bind, Except.bind, pure, Except.pure, e1]
    rw [e0]

/-- the size field of a variable is determined by its value -/
theorem size_of_value {s s' : St} (h : Inv s) (h' : Inv s') {i j : Nat} (hi : i < s.nv) (hj : j < s'.nv)
    (e : s'.value j = s.value i) : s'.size j = s.size i := by
  rw [h.norm i hi, h'.norm j hj, e]

def cfQ (ceil : Bool) (x y : Int) : Int := if ceil then DivZ.cdivQ x y else DivZ.fdivQ x y
def cfR (ceil : Bool) (x y : Int) : Int := if ceil then DivZ.cdivR x y else DivZ.fdivR x y

theorem cfQ_eq (ceil : Bool) {x y : Int} (hy : y ≠ 0) :
    cfQ ceil x y = if (if ceil then (x < 0 ↔ y < 0) else ¬ (x < 0 ↔ y < 0)) ∧ Int.tmod x y ≠ 0
      then (if ceil then Int.tdiv x y + 1 else Int.tdiv x y - 1) else Int.tdiv x y := by
  cases ceil
  · simp only [cfQ, Bool.false_eq_true, if_false, DivZ.fdivQ]; exact DivZ.fdiv_from_tdiv hy
  · simp only [cfQ, if_true]; exact DivZ.cdivQ_from_tdiv hy

theorem cfR_eq (ceil : Bool) {x y : Int} (hy : y ≠ 0) :
    cfR ceil x y = if (if ceil then (x < 0 ↔ y < 0) else ¬ (x < 0 ↔ y < 0)) ∧ Int.tmod x y ≠ 0
      then (if ceil then Int.tmod x y - y else Int.tmod x y + y) else Int.tmod x y := by
  cases ceil
  · simp only [cfR, Bool.false_eq_true, if_false, DivZ.fdivR]; exact DivZ.fmod_from_tmod hy
  · simp only [cfR, if_true]; exact DivZ.cdivR_from_tmod hy

theorem cfdiv_qr_ok (ceil : Bool) {s : St} (h : Inv s) {q r n d : Nat} (hq : q < s.nv) (hr : r < s.nv) (hn : n < s.nv)
    (hd : d < s.nv) (hqr : q ≠ r) (hd0 : s.value d ≠ 0) :
    ∃ s', cfdiv_qrV .c ceil q r n d s = .ok s' ∧ Inv s' ∧ s'.nv = s.nv ∧
      s'.value q = cfQ ceil (s.value n) (s.value d) ∧ s'.value r = cfR ceil (s.value n) (s.value d) ∧
      ∀ i, i < s.nv → i ≠ q → i ≠ r → s'.value i = s.value i := by
  unfold cfdiv_qrV
  simp only [bind, Except.bind, pure, Except.pure]
  generalize hcp : decide (Variant.c.fdivCopy = true ∧ (q = d ∨ r = d)) = copied
  obtain ⟨dv, s0, e0, i0, hdv0, vdv0, vo0, ct, cf⟩ := tempDivisor_spec h hd copied
  rw [e0]; simp only []
  have nv0 : s.nv ≤ s0.nv := by
    cases copied
    · rw [(cf rfl).2]
    · rw [(ct rfl).2]; omega
  have hdvq : dv ≠ q ∧ dv ≠ r := by
    cases copied
    · rw [(cf rfl).1]
      have h' : ¬ (q = d ∨ r = d) := by simpa [Variant.c] using of_decide_eq_false hcp
      exact ⟨fun e => h' (Or.inl e.symm), fun e => h' (Or.inr e.symm)⟩
    · rw [(ct rfl).1]; omega
  obtain ⟨s1, e1, i1, n1, vq1, vr1, vo1⟩ := tdiv_qr_ok i0 (q := q) (r := r) (n := n) (d := dv)
    (by omega) (by omega) (by omega) hdv0 hqr (by rw [vdv0]; exact hd0)
  have e1' : tdiv_qrV Variant.c q r n dv s0 = .ok s1 := e1
  rw [e1']; simp only []
  rw [vo0 n hn, vdv0] at vq1 vr1
  have hsn : s0.size n = s.size n := size_of_value h i0 hn (by omega) (vo0 n hn)
  rw [hsn]
  have vdv1 : s1.value dv = s.value d := by rw [vo1 dv hdv0 hdvq.1 hdvq.2, vdv0]
  have hadj : ((if ceil = true then decide (sameSign (s.size n) (s.size d)) else !decide (sameSign (s.size n) (s.size d))) = true ∧ s1.size r ≠ 0)
      ↔ ((if ceil then (s.value n < 0 ↔ s.value d < 0) else ¬ (s.value n < 0 ↔ s.value d < 0)) ∧ Int.tmod (s.value n) (s.value d) ≠ 0) := by
    have e2 : s1.size r ≠ 0 ↔ Int.tmod (s.value n) (s.value d) ≠ 0 := by
      rw [Ne, i1.size_eq_zero_iff (by omega), vr1]; rfl
    have e3 := sameSign_sizes h hn hd
    cases ceil <;> simp [e2, e3]
  have hfin : ∀ s3, Inv s3 → s3.nv = s0.nv → (∀ i, i < s0.nv → s3.value i = (if i = q then cfQ ceil (s.value n) (s.value d) else if i = r then cfR ceil (s.value n) (s.value d) else s0.value i)) →
      ∃ s', (Except.ok (if copied = true then s3.tmpDone else s3) : R St) = Except.ok s' ∧ Inv s' ∧ s'.nv = s.nv ∧
        s'.value q = cfQ ceil (s.value n) (s.value d) ∧ s'.value r = cfR ceil (s.value n) (s.value d) ∧
        ∀ i, i < s.nv → i ≠ q → i ≠ r → s'.value i = s.value i := by
    intro s3 i3 n3 v3
    cases copied
    · have := (cf rfl).2
      refine ⟨s3, by simp, i3, by rw [n3, this], ?_, ?_, fun i hi hiq hir => ?_⟩
      · rw [v3 q (by omega)]; simp
      · rw [v3 r (by omega)]; simp [Ne.symm hqr]
      · rw [v3 i (by omega)]; simp [hiq, hir, vo0 i hi]
    · have hnv := (ct rfl).2
      obtain ⟨i4, n4, v4⟩ := tmpDone_spec i3 s.nv (by rw [n3, hnv])
      refine ⟨s3.tmpDone, by simp, i4, n4, ?_, ?_, fun i hi hiq hir => ?_⟩
      · rw [v4 q hq, v3 q (by omega)]; simp
      · rw [v4 r hr, v3 r (by omega)]; simp [Ne.symm hqr]
      · rw [v4 i hi, v3 i (by omega)]; simp [hiq, hir, vo0 i hi]
  by_cases hc : (if ceil then (s.value n < 0 ↔ s.value d < 0) else ¬ (s.value n < 0 ↔ s.value d < 0)) ∧ Int.tmod (s.value n) (s.value d) ≠ 0
  · rw [if_pos (hadj.mpr hc)]
    obtain ⟨s2, e2, i2, n2, vq2, vo2⟩ := mpz_aors_ui_ok i1 (w := q) (u := q) (by omega) (by omega) (!ceil) 1 (by rw [B_eq]; decide)
    rw [show mpz_aors_ui (!ceil) q q 1 s1 = .ok s2 from e2]; simp only []
    obtain ⟨s3, e3, i3, n3, vr3, vo3⟩ := mpz_aors_ok i2 (w := r) (u := r) (v := dv) (by omega) (by omega) (by omega) ceil
    rw [e3]; simp only []
    apply hfin s3 i3 (by omega)
    intro i hi
    by_cases hiq : i = q
    · rw [if_pos hiq, hiq, vo3 q (by omega) hqr, vq2, vq1, cfQ_eq ceil hd0, if_pos hc]
      cases ceil <;> simp [DivZ.tdivQ]
    · rw [if_neg hiq]
      by_cases hir : i = r
      · rw [if_pos hir, hir, vr3, vo2 r (by omega) (Ne.symm hqr), vo2 dv (by omega) hdvq.1, vr1, vdv1, cfR_eq ceil hd0, if_pos hc]
        cases ceil <;> simp [DivZ.tdivR]
      · rw [if_neg hir, vo3 i (by omega) hir, vo2 i (by omega) hiq, vo1 i hi hiq hir]
  · rw [if_neg (fun e => hc (hadj.mp e))]
    apply hfin s1 i1 n1
    intro i hi
    by_cases hiq : i = q
    · rw [if_pos hiq, hiq, vq1, cfQ_eq ceil hd0, if_neg hc]; rfl
    · rw [if_neg hiq]
      by_cases hir : i = r
      · rw [if_pos hir, hir, vr1, cfR_eq ceil hd0, if_neg hc]; rfl
      · rw [if_neg hir, vo1 i hi hiq hir]


theorem cfdiv_q_ok (ceil : Bool) {s : St} (h : Inv s) {q n d : Nat} (hq : q < s.nv) (hn : n < s.nv)
    (hd : d < s.nv) (hd0 : s.value d ≠ 0) :
    ∃ s', cfdiv_qV .c ceil q n d s = .ok s' ∧ Res s s' q (cfQ ceil (s.value n) (s.value d)) := by
  unfold cfdiv_qV
  simp only [bind, Except.bind, pure, Except.pure]
  obtain ⟨e0, i0, n0, vo0, a0, vn0⟩ := tmpInit_spec h (s.size d).natAbs
  rw [e0]
  set s0 := (s.tmpInit (s.size d).natAbs).2 with hs0
  obtain ⟨s1, e1, i1, n1, vq1, vr1, vo1⟩ := tdiv_qr_ok i0 (q := q) (r := s.nv) (n := n) (d := d)
    (by omega) (by omega) (by omega) (by omega) (by omega) (by rw [(vo0 d hd).1]; exact hd0)
  have e1' : tdiv_qrV Variant.c q s.nv n d s0 = .ok s1 := e1
  rw [e1']; simp only []
  rw [(vo0 n hn).1, (vo0 d hd).1] at vq1 vr1
  have hadj : ((if ceil = true then decide (sameSign (s.size d) (s.size n)) else !decide (sameSign (s.size d) (s.size n))) = true ∧ s1.size s.nv ≠ 0)
      ↔ ((if ceil then (s.value n < 0 ↔ s.value d < 0) else ¬ (s.value n < 0 ↔ s.value d < 0)) ∧ Int.tmod (s.value n) (s.value d) ≠ 0) := by
    have e2 : s1.size s.nv ≠ 0 ↔ Int.tmod (s.value n) (s.value d) ≠ 0 := by
      rw [Ne, i1.size_eq_zero_iff (by omega), vr1]; rfl
    have e3 := sameSign_sizes h hd hn
    have e4 : (s.value d < 0 ↔ s.value n < 0) ↔ (s.value n < 0 ↔ s.value d < 0) := by tauto
    cases ceil <;> simp [e2, e3, e4]
  have hfin : ∀ s3, Inv s3 → s3.nv = s0.nv → s3.value q = cfQ ceil (s.value n) (s.value d) →
      (∀ i, i < s.nv → i ≠ q → s3.value i = s.value i) →
      ∃ s', (Except.ok s3.tmpDone : R St) = Except.ok s' ∧ Res s s' q (cfQ ceil (s.value n) (s.value d)) := by
    intro s3 i3 n3 vq3 vo3
    obtain ⟨i4, n4, v4⟩ := tmpDone_spec i3 s.nv (by rw [n3, n0])
    exact ⟨_, rfl, i4, n4, by rw [v4 q hq, vq3], fun i hi hiq => by rw [v4 i hi, vo3 i hi hiq]⟩
  by_cases hc : (if ceil then (s.value n < 0 ↔ s.value d < 0) else ¬ (s.value n < 0 ↔ s.value d < 0)) ∧ Int.tmod (s.value n) (s.value d) ≠ 0
  · rw [if_pos (hadj.mpr hc)]
    obtain ⟨s2, e2, i2, n2, vq2, vo2⟩ := mpz_aors_ui_ok i1 (w := q) (u := q) (by omega) (by omega) (!ceil) 1 (by rw [B_eq]; decide)
    rw [show mpz_aors_ui (!ceil) q q 1 s1 = .ok s2 from e2]; simp only []
    apply hfin s2 i2 (by omega)
    · rw [vq2, vq1, cfQ_eq ceil hd0, if_pos hc]
      cases ceil <;> simp [DivZ.tdivQ]
    · intro i hi hiq
      rw [vo2 i (by omega) hiq, vo1 i (by omega) hiq (by omega), (vo0 i hi).1]
  · rw [if_neg (fun e => hc (hadj.mp e))]
    apply hfin s1 i1 n1
    · rw [vq1, cfQ_eq ceil hd0, if_neg hc]; rfl
    · intro i hi hiq
      rw [vo1 i (by omega) hiq (by omega), (vo0 i hi).1]

theorem cfdiv_r_ok (ceil : Bool) {s : St} (h : Inv s) {r n d : Nat} (hr : r < s.nv) (hn : n < s.nv)
    (hd : d < s.nv) (hd0 : s.value d ≠ 0) :
    ∃ s', cfdiv_rV .c ceil r n d s = .ok s' ∧ Res s s' r (cfR ceil (s.value n) (s.value d)) := by
  unfold cfdiv_rV
  simp only [bind, Except.bind, pure, Except.pure]
  generalize hcp : decide (Variant.c.fdivCopy = true ∧ r = d) = copied
  obtain ⟨dv, s0, e0, i0, hdv0, vdv0, vo0, ct, cf⟩ := tempDivisor_spec h hd copied
  rw [e0]; simp only []
  have nv0 : s.nv ≤ s0.nv := by
    cases copied
    · rw [(cf rfl).2]
    · rw [(ct rfl).2]; omega
  have hdvr : dv ≠ r := by
    cases copied
    · rw [(cf rfl).1]
      have h' : ¬ (r = d) := by simpa [Variant.c] using of_decide_eq_false hcp
      exact fun e => h' e.symm
    · rw [(ct rfl).1]; omega
  obtain ⟨s1, e1, i1, n1, vr1, vo1⟩ := tdiv_r_ok i0 (r := r) (n := n) (d := dv)
    (by omega) (by omega) hdv0 (by rw [vdv0]; exact hd0)
  have e1' : tdiv_rV Variant.c r n dv s0 = .ok s1 := e1
  rw [e1']; simp only []
  rw [vo0 n hn, vdv0] at vr1
  have vdv1 : s1.value dv = s.value d := by rw [vo1 dv hdv0 hdvr, vdv0]
  have hadj : ((if ceil = true then decide (sameSign (s.size d) (s1.size n)) else !decide (sameSign (s.size d) (s1.size n))) = true ∧ s1.size r ≠ 0)
      ↔ ((if ceil then (s.value n < 0 ↔ s.value d < 0) else ¬ (s.value n < 0 ↔ s.value d < 0)) ∧ Int.tmod (s.value n) (s.value d) ≠ 0) := by
    have e2 : s1.size r ≠ 0 ↔ Int.tmod (s.value n) (s.value d) ≠ 0 := by
      rw [Ne, i1.size_eq_zero_iff (by omega), vr1]; rfl
    have e3 : Int.tmod (s.value n) (s.value d) ≠ 0 → (sameSign (s.size d) (s1.size n) ↔ (s.value n < 0 ↔ s.value d < 0)) := by
      intro hne
      unfold sameSign
      rw [h.size_neg_iff hd, i1.size_neg_iff (by omega)]
      by_cases hnr : n = r
      · rw [hnr, vr1, ← hnr]
        have := DivZ.tmod_lt_zero_iff hne
        unfold DivZ.tdivR; tauto
      · rw [vo1 n (by omega) hnr, vo0 n hn]; tauto
    by_cases hne : Int.tmod (s.value n) (s.value d) = 0
    · simp [e2, hne]
    · have e3' := e3 hne
      cases ceil <;> simp [e2, e3', hne]
  have hfin : ∀ s3, Inv s3 → s3.nv = s0.nv → s3.value r = cfR ceil (s.value n) (s.value d) →
      (∀ i, i < s.nv → i ≠ r → s3.value i = s.value i) →
      ∃ s', (Except.ok (if copied = true then s3.tmpDone else s3) : R St) = Except.ok s' ∧ Res s s' r (cfR ceil (s.value n) (s.value d)) := by
    intro s3 i3 n3 vr3 vo3
    cases copied
    · have := (cf rfl).2
      exact ⟨s3, by simp, i3, by rw [n3, this], vr3, vo3⟩
    · have hnv := (ct rfl).2
      obtain ⟨i4, n4, v4⟩ := tmpDone_spec i3 s.nv (by rw [n3, hnv])
      exact ⟨s3.tmpDone, by simp, i4, n4, by rw [v4 r hr, vr3], fun i hi hir => by rw [v4 i hi, vo3 i hi hir]⟩
  by_cases hc : (if ceil then (s.value n < 0 ↔ s.value d < 0) else ¬ (s.value n < 0 ↔ s.value d < 0)) ∧ Int.tmod (s.value n) (s.value d) ≠ 0
  · rw [if_pos (hadj.mpr hc)]
    obtain ⟨s3, e3, i3, n3, vr3, vo3⟩ := mpz_aors_ok i1 (w := r) (u := r) (v := dv) (by omega) (by omega) (by omega) ceil
    rw [e3]; simp only []
    apply hfin s3 i3 (by omega)
    · rw [vr3, vr1, vdv1, cfR_eq ceil hd0, if_pos hc]
      cases ceil <;> simp [DivZ.tdivR]
    · intro i hi hir
      rw [vo3 i (by omega) hir, vo1 i (by omega) hir, vo0 i hi]
  · rw [if_neg (fun e => hc (hadj.mp e))]
    apply hfin s1 i1 n1
    · rw [vr1, cfR_eq ceil hd0, if_neg hc]; rfl
    · intro i hi hir
      rw [vo1 i (by omega) hir, vo0 i hi]

theorem mod_ok {s : St} (h : Inv s) {r n d : Nat} (hr : r < s.nv) (hn : n < s.nv)
    (hd : d < s.nv) (hd0 : s.value d ≠ 0) :
    ∃ s', mod r n d s = .ok s' ∧ Res s s' r (DivZ.modS (s.value n) (s.value d)) := by
  unfold mod modV
  simp only [bind, Except.bind, pure, Except.pure]
  generalize hcp : decide (Variant.c.fdivCopy = true ∧ r = d) = copied
  obtain ⟨dv, s0, e0, i0, hdv0, vdv0, vo0, ct, cf⟩ := tempDivisor_spec h hd copied
  rw [e0]; simp only []
  have nv0 : s.nv ≤ s0.nv := by
    cases copied
    · rw [(cf rfl).2]
    · rw [(ct rfl).2]; omega
  have hdvr : dv ≠ r := by
    cases copied
    · rw [(cf rfl).1]
      have h' : ¬ (r = d) := by simpa [Variant.c] using of_decide_eq_false hcp
      exact fun e => h' e.symm
    · rw [(ct rfl).1]; omega
  obtain ⟨s1, e1, i1, n1, vr1, vo1⟩ := tdiv_r_ok i0 (r := r) (n := n) (d := dv)
    (by omega) (by omega) hdv0 (by rw [vdv0]; exact hd0)
  have e1' : tdiv_rV Variant.c r n dv s0 = .ok s1 := e1
  rw [e1']; simp only []
  rw [vo0 n hn, vdv0] at vr1
  have vdv1 : s1.value dv = s.value d := by rw [vo1 dv hdv0 hdvr, vdv0]
  have e2 : s1.size r ≠ 0 ↔ Int.tmod (s.value n) (s.value d) ≠ 0 := by
    rw [Ne, i1.size_eq_zero_iff (by omega), vr1]; rfl
  have e3 : Int.tmod (s.value n) (s.value d) ≠ 0 → (s1.size n < 0 ↔ s.value n < 0) := by
    intro hne
    rw [i1.size_neg_iff (by omega)]
    by_cases hnr : n = r
    · rw [hnr, vr1, ← hnr]; exact DivZ.tmod_lt_zero_iff hne
    · rw [vo1 n (by omega) hnr, vo0 n hn]
  have e4 : s1.size dv < 0 ↔ s.value d < 0 := by rw [i1.size_neg_iff (by omega), vdv1]
  have hspec := DivZ.emod_from_tmod (s.value n) (s.value d)
  have hfin : ∀ s3, Inv s3 → s3.nv = s0.nv → s3.value r = DivZ.modS (s.value n) (s.value d) →
      (∀ i, i < s.nv → i ≠ r → s3.value i = s.value i) →
      ∃ s', (Except.ok (if copied = true then s3.tmpDone else s3) : R St) = Except.ok s' ∧ Res s s' r (DivZ.modS (s.value n) (s.value d)) := by
    intro s3 i3 n3 vr3 vo3
    cases copied
    · have := (cf rfl).2
      exact ⟨s3, by simp, i3, by rw [n3, this], vr3, vo3⟩
    · have hnv := (ct rfl).2
      obtain ⟨i4, n4, v4⟩ := tmpDone_spec i3 s.nv (by rw [n3, hnv])
      exact ⟨s3.tmpDone, by simp, i4, n4, by rw [v4 r hr, vr3], fun i hi hir => by rw [v4 i hi, vo3 i hi hir]⟩
  have hsame : ∀ s3, s3 = s1 → (∀ i, i < s.nv → i ≠ r → s3.value i = s.value i) := fun s3 e i hi hir => by
    rw [e, vo1 i (by omega) hir, vo0 i hi]
  by_cases hne : Int.tmod (s.value n) (s.value d) = 0
  · rw [if_neg (fun e => (e2.mp e) hne)]
    apply hfin s1 i1 n1
    · rw [vr1]; unfold DivZ.modS; rw [hspec]; simp [hne, DivZ.tdivR]
    · exact hsame s1 rfl
  · rw [if_pos (e2.mpr hne)]
    by_cases hneg : s.value n < 0
    · rw [if_pos ((e3 hne).mpr hneg)]
      by_cases hdneg : s.value d < 0
      · rw [if_pos (e4.mpr hdneg)]
        obtain ⟨s3, e3', i3, n3, vr3, vo3⟩ := mpz_aors_ok i1 (w := r) (u := r) (v := dv) (by omega) (by omega) (by omega) true
        rw [e3']
        apply hfin s3 i3 (by omega)
        · rw [vr3, vr1, vdv1]; unfold DivZ.modS; rw [hspec]; simp [hne, hneg, hdneg, DivZ.tdivR]
        · intro i hi hir; rw [vo3 i (by omega) hir]; exact hsame s1 rfl i hi hir
      · rw [if_neg (fun e => hdneg (e4.mp e))]
        obtain ⟨s3, e3', i3, n3, vr3, vo3⟩ := mpz_aors_ok i1 (w := r) (u := r) (v := dv) (by omega) (by omega) (by omega) false
        rw [e3']
        apply hfin s3 i3 (by omega)
        · rw [vr3, vr1, vdv1]; unfold DivZ.modS; rw [hspec]; simp [hne, hneg, hdneg, DivZ.tdivR]
        · intro i hi hir; rw [vo3 i (by omega) hir]; exact hsame s1 rfl i hi hir
    · rw [if_neg (fun e => hneg ((e3 hne).mp e))]
      apply hfin s1 i1 n1
      · rw [vr1]; unfold DivZ.modS; rw [hspec]; simp [hne, hneg, DivZ.tdivR]
      · exact hsame s1 rfl

/-! ### states built from values -/

theorem ofInts_value (zs : List Int) (i : Nat) (hi : i < zs.length) : (ofInts zs).value i = zs.getD i 0 := by
  unfold St.value St.mag St.limbs St.size St.ptr
  simp only [ofInts, hi, if_true, Option.getD_some]
  set z := zs.getD i 0
  rw [DivZ.siz_natAbs, toLimbs_take _ _ _ (Nat.le_max_left _ _), val_toLimbs_lt (DivZ.lt_B_pow_sizeNat _)]
  have := @DivZ.siz_neg_iff z
  split <;> omega

theorem ofInts_inv (zs : List Int) : Inv (ofInts zs) := by
  refine ⟨fun i hi => ?_, fun i j _ _ e => e, fun i hi => hi, fun p hp => ?_, fun i hi => ?_, fun i hi => ?_⟩
  · have hi' : i < zs.length := hi
    refine ⟨toLimbs (max (sizeNat (zs.getD i 0).natAbs) 1) (zs.getD i 0).natAbs, ?_, ?_, Limbs_toLimbs _ _⟩
    · simp [ofInts, St.ptr, hi']
    · simp [ofInts, St.alloc, toLimbs_length]
  · have hp' : zs.length ≤ p := hp
    simp only [ofInts]; rw [if_neg (by omega)]
  · simp only [St.size, St.alloc, ofInts]; rw [DivZ.siz_natAbs]; exact Nat.le_max_left _ _
  · rw [ofInts_value zs i hi]; rfl

/-! ### mpz_divexact -/

theorem mpn_divexact_ok {s : St} {qp np nl dp dl : Nat} {Nl Dl bq : List Nat}
    (hN : s.load np nl = .ok Nl) (hD : s.load dp dl = .ok Dl)
    (hbq : s.blk qp = some bq) (h2 : qp ≠ dp)
    (hdl : 1 ≤ dl) (hle : dl ≤ nl) (htop : Dl.getD (dl - 1) 0 ≠ 0)
    (haq : nl - dl + 1 ≤ bq.length) :
    mpn_divexact qp np nl dp dl s =
      .ok (s.setBlk qp (some (toLimbs (nl - dl + 1) (val Nl / val Dl) ++ bq.drop (nl - dl + 1)))) := by
  unfold mpn_divexact
  have hs : ¬ ¬ (1 ≤ dl ∧ dl ≤ nl) := by tauto
  simp only [bind, Except.bind, h2, if_false, hN, hD, hs, htop, pure, Except.pure]
  unfold St.store; rw [hbq]; simp only [toLimbs_length]; rw [if_pos haq]

theorem divexact_ok {s : St} (h : Inv s) {q n d : Nat} (hq : q < s.nv) (hn : n < s.nv)
    (hd : d < s.nv) (hd0 : s.value d ≠ 0) :
    ∃ s', divexact q n d s = .ok s' ∧ Res s s' q (DivZ.tdivQ (s.value n) (s.value d)) := by
  have hds : s.size d ≠ 0 := fun e => hd0 ((h.size_eq_zero_iff hd).mp e)
  unfold divexact divexactV
  simp only [Variant.c, if_true, bind, Except.bind, pure, Except.pure, Bool.not_true, Bool.false_eq_true, true_and, and_true, and_false, if_false]
  obtain ⟨i1, nv1, size1, val1, a1, ag1⟩ := realloc_spec h hq (((s.size n).natAbs : Int) - ((s.size d).natAbs : Int) + 1).toNat
  set s1 := s.mpzRealloc q (((s.size n).natAbs : Int) - ((s.size d).natAbs : Int) + 1).toNat with hs1
  have hq1 : q < s1.nv := by rw [nv1]; exact hq
  have hn1 : n < s1.nv := by rw [nv1]; exact hn
  have hd1 : d < s1.nv := by rw [nv1]; exact hd
  by_cases hlt : (s.size n).natAbs < (s.size d).natAbs
  · rw [if_pos hlt]
    obtain ⟨tq, _⟩ := DivZ.tdiv_tmod_of_natAbs_lt (mag_lt_of_size_lt h hn hd hds hlt)
    obtain ⟨i2, u2, vq2⟩ := setSize_zero_spec i1 hq1
    exact ⟨_, rfl, i2, by rw [u2.nv, nv1], by rw [vq2]; exact tq.symm,
      fun i hi hiq => by rw [u2.value_o i1 hq1 (by rw [nv1]; exact hi) hiq, val1 i hi]⟩
  · rw [if_neg hlt, if_neg (by omega)]
    have hle : (s.size d).natAbs ≤ (s.size n).natAbs := by omega
    have hqlN : (((s.size n).natAbs : Int) - ((s.size d).natAbs : Int) + 1).toNat = (s.size n).natAbs - (s.size d).natAbs + 1 := by omega
    rw [hqlN] at a1 ⊢
    set ql := (s.size n).natAbs - (s.size d).natAbs + 1 with hqldef
    have mag1 : ∀ i, i < s.nv → s1.mag i = s.mag i := fun i hi => by
      rw [← value_natAbs, ← value_natAbs, val1 i hi]
    have hld := i1.load_var hd1; rw [size1] at hld
    have hln := i1.load_var hn1; rw [size1] at hln
    have hsn0 : s1.size n ≠ 0 := by rw [size1]; omega
    have hsd0 : s1.size d ≠ 0 := by rw [size1]; exact hds
    have hNge := i1.mag_ge hn1 hsn0; rw [size1] at hNge
    have hDge := i1.mag_ge hd1 hsd0; rw [size1] at hDge
    have hLN := (i1.limbs_spec hn1).2
    have hLD := (i1.limbs_spec hd1).2
    have hN2 := i1.mag_lt hn1; rw [size1] at hN2
    have hD2 := i1.mag_lt hd1; rw [size1] at hD2
    have hDlen := (i1.limbs_spec hd1).1; rw [size1] at hDlen
    have htop : (s1.limbs d).getD ((s.size d).natAbs - 1) 0 ≠ 0 := by
      have := i1.top_ne_zero hd1 hsd0; rwa [size1] at this
    obtain ⟨hQlt, _⟩ := quot_size hNge hN2 hDge hD2 (by omega) hle
    set Q := s1.mag n / s1.mag d with hQ
    have hQsz : sizeNat Q ≤ ql := (DivZ.sizeNat_le_iff _ _).mpr hQlt
    have hQval : (if sameSign (s.size n) (s.size d) then ((Q : Nat) : Int) else -((Q : Nat) : Int)) = DivZ.tdivQ (s.value n) (s.value d) := by
      rw [hQ, mag1 n hn, mag1 d hd]; exact tdivQ_eq h hn hd
    obtain ⟨bq, hbq, hbql, hbqL⟩ := i1.live q hq1
    by_cases hc : q = n ∨ q = d
    · -- quotient in TMP space, copied back
      have hc' : decide (q = n ∨ q = d) = true := by simpa using hc
      simp only [hc', if_true, decide_true]
      have i2 : Inv (s1.tmpAlloc ql).2 := malloc_inv i1 _
      have x12 : Ext s1 (s1.tmpAlloc ql).2 := malloc_ext i1 _
      have hqpb : (s1.tmpAlloc ql).2.blk s1.next = some (List.replicate ql junk) := malloc_blk_new s1 _
      have hqp : (s1.tmpAlloc ql).1 = s1.next := rfl
      rw [hqp]
      set s2 := (s1.tmpAlloc ql).2 with hs2
      have hne : ∀ i, i < s.nv → s2.ptr i ≠ s1.next := fun i hi => by
        rw [x12.ptr]; exact Nat.ne_of_lt (i1.lt i (by rw [nv1]; exact hi))
      have hmpn : mpn_divexact s1.next (s1.ptr n) (s.size n).natAbs (s1.ptr d) (s.size d).natAbs s2 =
          .ok (s2.setBlk s1.next (some (toLimbs ql Q ++ (List.replicate ql junk).drop ql))) :=
        mpn_divexact_ok (x12.load hln) (x12.load hld) hqpb (by rw [← x12.ptr d]; exact Ne.symm (hne d hd)) (by omega) hle htop
          (by simp only [List.length_replicate]; omega)
      rw [x12.ptr n, x12.ptr d]
      rw [hmpn]; simp only []
      rw [List.drop_of_length_le (by simp), List.append_nil]
      obtain ⟨iY, vY⟩ := setBlk_nonvar i2 (p := s1.next) (fun i hi => hne i (by rw [x12.nv, nv1] at hi; exact hi))
        (by show s1.next < s1.next + 1; omega) (toLimbs ql Q)
      set Y := s2.setBlk s1.next (some (toLimbs ql Q)) with hY
      have hYb : Y.blk s1.next = some (toLimbs ql Q ++ []) := by simp [hY, St.setBlk]
      rw [normSize_of_blk hYb, Nat.mod_eq_of_lt hQlt]; simp only []
      have hsz : ∀ i, Y.size i = s.size i := fun i => by
        show s2.size i = s.size i; rw [x12.size, size1]
      rw [hsz n, hsz d]
      have hqY : q < Y.nv := by show q < s2.nv; rw [x12.nv]; exact hq1
      have hne' : s1.next ≠ (Y.setSize q (if sameSign (s.size n) (s.size d) then (sizeNat Q : Int) else -(sizeNat Q : Int))).ptr q := by
        have : (Y.setSize q (if sameSign (s.size n) (s.size d) then (sizeNat Q : Int) else -(sizeNat Q : Int))).ptr q = s2.ptr q := by
          simp [St.setSize, St.setVar, St.ptr, hY, St.setBlk]
        rw [this]; exact Ne.symm (hne q hq)
      rw [if_pos hne']
      have hload : (Y.setSize q (if sameSign (s.size n) (s.size d) then (sizeNat Q : Int) else -(sizeNat Q : Int))).load s1.next (sizeNat Q)
          = .ok (toLimbs (sizeNat Q) Q) := by
        have : (Y.setSize q (if sameSign (s.size n) (s.size d) then (sizeNat Q : Int) else -(sizeNat Q : Int))).blk s1.next = some (toLimbs ql Q) := by
          simp [St.setSize, St.setVar, hY, St.setBlk]
        unfold St.load; rw [this]; simp only [toLimbs_length]
        rw [if_pos hQsz, toLimbs_take _ _ _ hQsz]
      rw [hload]; simp only []
      -- the final store into quot
      have hYq : Y.blk (Y.ptr q) = some bq := by
        show Y.blk (s2.ptr q) = some bq
        rw [hY]; simp only [St.setBlk]; rw [if_neg (hne q hq), x12.ptr, x12.blk _ (by rw [hbq]; simp), hbq]
      have p1 := put_upd iY hqY (toLimbs (sizeNat Q) Q ++ bq.drop (sizeNat Q)) Q (!decide (sameSign (s.size n) (s.size d)))
        (by rw [length_wr' (by omega)]; show bq.length = s2.alloc q; rw [x12.alloc]; exact hbql)
        (Limbs_wr' (Limbs_toLimbs _ _) hbqL) (by show sizeNat Q ≤ s2.alloc q; rw [x12.alloc]; omega)
        (val_take_wr _ (Nat.le_refl _))
      rw [ite_neg_bool] at p1
      have hstore : (Y.setSize q (if sameSign (s.size n) (s.size d) then (sizeNat Q : Int) else -(sizeNat Q : Int))).store
            ((Y.setSize q (if sameSign (s.size n) (s.size d) then (sizeNat Q : Int) else -(sizeNat Q : Int))).ptr q) (toLimbs (sizeNat Q) Q)
          = .ok (Y.put q (toLimbs (sizeNat Q) Q ++ bq.drop (sizeNat Q)) (if sameSign (s.size n) (s.size d) then (sizeNat Q : Int) else -(sizeNat Q : Int))) := by
        have e1 : (Y.setSize q (if sameSign (s.size n) (s.size d) then (sizeNat Q : Int) else -(sizeNat Q : Int))).ptr q = Y.ptr q := by
          simp [St.setSize, St.setVar, St.ptr]
        have e2 : (Y.setSize q (if sameSign (s.size n) (s.size d) then (sizeNat Q : Int) else -(sizeNat Q : Int))).blk (Y.ptr q) = some bq := hYq
        rw [e1]; unfold St.store; rw [e2]; simp only [toLimbs_length]
        rw [if_pos (by omega)]; rfl
      rw [hstore]; simp only []
      set Z := Y.put q (toLimbs (sizeNat Q) Q ++ bq.drop (sizeNat Q)) (if sameSign (s.size n) (s.size d) then (sizeNat Q : Int) else -(sizeNat Q : Int)) with hZ
      obtain ⟨i4, n4, _, v4⟩ := free_inv p1.1 s1.next (fun i hi => by
        rw [p1.2.1.nv] at hi; rw [p1.2.1.ptr]; exact hne i (by rw [show Y.nv = s2.nv from rfl, x12.nv, nv1] at hi; exact hi))
      have nvZ : Z.nv = s.nv := by rw [p1.2.1.nv]; show s2.nv = s.nv; rw [x12.nv, nv1]
      refine ⟨_, rfl, i4, by rw [n4, nvZ], ?_, fun i hi hiq => ?_⟩
      · rw [v4 q (by rw [nvZ]; exact hq), p1.2.2, ite_neg_bool]; exact hQval
      · rw [v4 i (by rw [nvZ]; exact hi), p1.2.1.value_o iY hqY (by show i < s2.nv; rw [x12.nv, nv1]; exact hi) hiq,
          vY i (by rw [x12.nv, nv1]; exact hi), x12.value i1 (by rw [nv1]; exact hi), val1 i hi]
    · -- quotient written in place
      have hc' : decide (q = n ∨ q = d) = false := by simpa using hc
      simp only [hc', Bool.false_eq_true, if_false, decide_false]
      have hqd : s1.ptr q ≠ s1.ptr d := fun e => hc (Or.inr (i1.inj q d hq1 hd1 e))
      have hmpn : mpn_divexact (s1.ptr q) (s1.ptr n) (s.size n).natAbs (s1.ptr d) (s.size d).natAbs s1 =
          .ok (s1.setBlk (s1.ptr q) (some (toLimbs ql Q ++ bq.drop ql))) :=
        mpn_divexact_ok hln hld hbq hqd (by omega) hle htop (by omega)
      rw [hmpn]; simp only []
      set Y := s1.setBlk (s1.ptr q) (some (toLimbs ql Q ++ bq.drop ql)) with hY
      have hYb : Y.blk (s1.ptr q) = some (toLimbs ql Q ++ bq.drop ql) := by simp [hY, St.setBlk]
      rw [normSize_of_blk hYb, Nat.mod_eq_of_lt hQlt]; simp only []
      have hsz : ∀ i, Y.size i = s.size i := fun i => by show s1.size i = s.size i; rw [size1]
      rw [hsz n, hsz d]
      have hp : (Y.setSize q (if sameSign (s.size n) (s.size d) then (sizeNat Q : Int) else -(sizeNat Q : Int))).ptr q = s1.ptr q := by
        simp [St.setSize, St.setVar, St.ptr, hY, St.setBlk]
      rw [if_neg (by rw [hp]; simp)]
      have p1 := put_upd i1 hq1 (toLimbs ql Q ++ bq.drop ql) Q (!decide (sameSign (s.size n) (s.size d)))
        (by rw [length_wr' (by omega)]; exact hbql) (Limbs_wr' (Limbs_toLimbs _ _) hbqL) (by omega)
        (val_take_wr _ hQsz)
      rw [ite_neg_bool] at p1
      refine ⟨_, rfl, p1.1, by show (s1.put q _ _).nv = _; rw [p1.2.1.nv, nv1], ?_, fun i hi hiq => ?_⟩
      · show (s1.put q _ _).value q = _
        rw [p1.2.2, ite_neg_bool]; exact hQval
      · show (s1.put q _ _).value i = _
        rw [p1.2.1.value_o i1 hq1 (by rw [nv1]; exact hi) hiq, val1 i hi]

end Mpir.AliasMem
