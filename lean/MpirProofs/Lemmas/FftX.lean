/- Helper lemmas for the value-level FFT transforms (Mpir/Model/FftX.lean): list access, bit reversal, one
   decimation-in-frequency layer, the radix-2 transform as a bit-reversed DFT and its inverse.
   Everything is stated through an arbitrary ring homomorphism `f : ℤ →+* S` into a commutative ring in which
   `f 2 ^ wn = -1` (for the theorems: S = ZMod (2^wn + 1)); the models compute with exact integers. -/
import Mpir.Model.FftX
import Mathlib.Tactic.Ring
import Mathlib.Tactic.Linarith
import Mathlib.Tactic.NormNum
import Mathlib.Tactic.LinearCombination
import Mathlib.Tactic.IntervalCases
import Mathlib.Algebra.BigOperators.Intervals
import Mathlib.Algebra.Ring.Hom.Defs
set_option linter.unusedSimpArgs false
namespace Mpir.FftX
open Mpir Finset

/-! ### list access -/

theorem el_nil (i : Nat) : el [] i = 0 := by simp [el]

theorem el_cons_zero (a : Int) (l : List Int) : el (a :: l) 0 = a := rfl
theorem el_cons_succ (a : Int) (l : List Int) (i : Nat) : el (a :: l) (i + 1) = el l i := rfl

theorem el_range_map (g : Nat → Int) (n i : Nat) (h : i < n) : el ((List.range n).map g) i = g i := by
  simp [el, List.getD_eq_getElem?_getD, h]

theorem el_range_map_ge (g : Nat → Int) (n i : Nat) (h : n ≤ i) : el ((List.range n).map g) i = 0 := by
  simp [el, List.getD_eq_getElem?_getD, h]

theorem length_fsts (n : Nat) (f : Nat → Int × Int) : (fsts n f).length = n := by simp [fsts]
theorem length_snds (n : Nat) (f : Nat → Int × Int) : (snds n f).length = n := by simp [snds]

theorem el_fsts (n : Nat) (f : Nat → Int × Int) (i : Nat) (h : i < n) : el (fsts n f) i = (f i).1 :=
  el_range_map _ n i h
theorem el_snds (n : Nat) (f : Nat → Int × Int) (i : Nat) (h : i < n) : el (snds n f) i = (f i).2 :=
  el_range_map _ n i h

theorem el_append_left (a b : List Int) (i : Nat) (h : i < a.length) : el (a ++ b) i = el a i := by
  simp [el, List.getD_eq_getElem?_getD, List.getElem?_append_left h]

theorem el_append_right (a b : List Int) (i : Nat) : el (a ++ b) (a.length + i) = el b i := by
  simp [el, List.getD_eq_getElem?_getD, List.getElem?_append_right]

theorem el_append_right' (a b : List Int) (n i : Nat) (hn : a.length = n) : el (a ++ b) (n + i) = el b i := by
  subst hn; exact el_append_right a b i

theorem el_take (xs : List Int) (n i : Nat) (h : i < n) : el (xs.take n) i = el xs i := by
  simp [el, List.getD_eq_getElem?_getD, h]

theorem el_take_ge (xs : List Int) (n i : Nat) (h : n ≤ i) : el (xs.take n) i = 0 := by
  simp [el, List.getD_eq_getElem?_getD, Nat.not_lt.mpr h]

theorem el_drop (xs : List Int) (n i : Nat) : el (xs.drop n) i = el xs (n + i) := by
  simp [el, List.getD_eq_getElem?_getD]

theorem fsts_congr (n : Nat) (f g : Nat → Int × Int) (h : ∀ i < n, (f i).1 = (g i).1) : fsts n f = fsts n g := by
  unfold fsts; apply List.map_congr_left; intro i hi; exact h i (List.mem_range.mp hi)
theorem snds_congr (n : Nat) (f g : Nat → Int × Int) (h : ∀ i < n, (f i).2 = (g i).2) : snds n f = snds n g := by
  unfold snds; apply List.map_congr_left; intro i hi; exact h i (List.mem_range.mp hi)

theorem two_pow_pos' (d : Nat) : 0 < 2 ^ d := Nat.pow_pos (by norm_num)

/-! ### lengths -/

theorem length_fft_radix2 (d w : Nat) (xs : List Int) : (fft_radix2 d w xs).length = 2 ^ (d + 1) := by
  induction d generalizing w xs with
  | zero => simp [fft_radix2, length_fsts, length_snds]
  | succ d ih => simp only [fft_radix2, List.length_append, ih]; ring

theorem length_ifft_radix2 (d w : Nat) (xs : List Int) : (ifft_radix2 d w xs).length = 2 ^ (d + 1) := by
  cases d with
  | zero => simp [ifft_radix2, length_fsts, length_snds]
  | succ d => simp only [ifft_radix2, List.length_append, length_fsts, length_snds]; ring

/-! ### bit reversal: `rev b k` reverses the low `b` bits of `k < 2^b` (top bit first) -/

def rev : Nat → Nat → Nat
  | 0, _ => 0
  | b + 1, k => if k < 2 ^ b then 2 * rev b k else 2 * rev b (k - 2 ^ b) + 1

theorem rev_lt (b k : Nat) : rev b k < 2 ^ b := by
  induction b generalizing k with
  | zero => simp [rev]
  | succ b ih =>
    unfold rev; split
    · have := ih k; rw [pow_succ]; omega
    · have := ih (k - 2 ^ b); rw [pow_succ]; omega

/-- peeling the lowest bit instead -/
theorem rev_low (b m e : Nat) (hm : m < 2 ^ b) (he : e < 2) : rev (b + 1) (2 * m + e) = rev b m + e * 2 ^ b := by
  induction b generalizing m e with
  | zero =>
    have : m = 0 := by simpa using hm
    subst this
    interval_cases e <;> simp [rev]
  | succ b ih =>
    rw [rev]
    have hp : 2 ^ (b + 1) = 2 * 2 ^ b := by rw [pow_succ]; ring
    by_cases h : m < 2 ^ b
    · have h1 : 2 * m + e < 2 ^ (b + 1) := by omega
      rw [if_pos h1, ih m e h he, rev, if_pos h]; rw [hp]; ring
    · have h1 : ¬ 2 * m + e < 2 ^ (b + 1) := by omega
      have h2 : 2 * m + e - 2 ^ (b + 1) = 2 * (m - 2 ^ b) + e := by omega
      have h3 : m - 2 ^ b < 2 ^ b := by rw [hp] at hm; omega
      rw [if_neg h1, h2, ih (m - 2 ^ b) e h3 he, rev, if_neg h]; rw [hp]; ring

theorem rev_rev (b k : Nat) (hk : k < 2 ^ b) : rev b (rev b k) = k := by
  induction b generalizing k with
  | zero => simp [rev]; simp at hk; omega
  | succ b ih =>
    have hp : 2 ^ (b + 1) = 2 * 2 ^ b := by rw [pow_succ]; ring
    have e : rev (b + 1) k = if k < 2 ^ b then 2 * rev b k else 2 * rev b (k - 2 ^ b) + 1 := by rw [rev]
    rw [e]
    by_cases h : k < 2 ^ b
    · rw [if_pos h]
      have := rev_low b (rev b k) 0 (rev_lt b k) (by norm_num)
      simp only [Nat.add_zero, Nat.zero_mul] at this
      rw [this, ih k h]
    · rw [if_neg h]
      have h3 : k - 2 ^ b < 2 ^ b := by omega
      rw [rev_low b (rev b (k - 2 ^ b)) 1 (rev_lt b _) (by norm_num), ih _ h3]; omega

/-! ### one decimation-in-frequency layer -/

section ring
variable {S : Type} [CommRing S]

theorem neg_one_pow_two_mul (r : Nat) : ((-1 : S)) ^ (2 * r) = 1 := by rw [pow_mul]; simp
theorem neg_one_pow_two_mul_add_one (r : Nat) : ((-1 : S)) ^ (2 * r + 1) = -1 := by
  rw [pow_succ, neg_one_pow_two_mul]; simp

/-- even outputs of a length-2n DFT from the sums -/
theorem dif_even (z : S) (n : Nat) (hz : z ^ n = -1) (a : Nat → S) (r : Nat) :
    ∑ j ∈ range n, (a j + a (n + j)) * (z ^ 2) ^ (r * j) = ∑ j ∈ range (2 * n), a j * z ^ (2 * r * j) := by
  rw [two_mul n, sum_range_add, ← sum_add_distrib]
  apply sum_congr rfl; intro j _
  have e1 : z ^ (2 * r * (n + j)) = (z ^ n) ^ (2 * r) * z ^ (2 * r * j) := by
    rw [← pow_mul, ← pow_add]; congr 1; ring
  have e2 : (z ^ 2) ^ (r * j) = z ^ (2 * r * j) := by rw [← pow_mul]; congr 1; ring
  rw [e1, e2, hz, neg_one_pow_two_mul]; ring

/-- odd outputs from the twisted differences -/
theorem dif_odd (z : S) (n : Nat) (hz : z ^ n = -1) (a : Nat → S) (r : Nat) :
    ∑ j ∈ range n, ((a j - a (n + j)) * z ^ j) * (z ^ 2) ^ (r * j) =
      ∑ j ∈ range (2 * n), a j * z ^ ((2 * r + 1) * j) := by
  rw [two_mul n, sum_range_add, ← sum_add_distrib]
  apply sum_congr rfl; intro j _
  have e1 : z ^ ((2 * r + 1) * (n + j)) = (z ^ n) ^ (2 * r + 1) * z ^ ((2 * r + 1) * j) := by
    rw [← pow_mul, ← pow_add]; congr 1; ring
  have e2 : z ^ j * (z ^ 2) ^ (r * j) = z ^ ((2 * r + 1) * j) := by
    rw [← pow_mul, ← pow_add]; congr 1; ring
  rw [e1, hz, neg_one_pow_two_mul_add_one, mul_assoc, e2]; ring

variable (f : ℤ →+* S)

theorem map_two_pow (e : Nat) : f ((2 : ℤ) ^ e) = f 2 ^ e := by rw [map_pow]

/-! ### (a) the radix-2 transform is the DFT in bit-reversed order -/

theorem fft_radix2_dft (d w : Nat) (xs : List Int) (hz : f 2 ^ (2 ^ d * w) = -1) (k : Nat) (hk : k < 2 ^ (d + 1)) :
    f (el (fft_radix2 d w xs) k) =
      ∑ j ∈ range (2 ^ (d + 1)), f (el xs j) * (f 2 ^ w) ^ (rev (d + 1) k * j) := by
  induction d generalizing w xs k with
  | zero =>
    simp only [Nat.pow_zero, Nat.one_mul, Nat.zero_add, Nat.pow_one] at hz hk ⊢
    have e : fft_radix2 0 w xs = [el xs 0 + el xs 1, (el xs 0 - el xs 1) * 2 ^ (0 * w)] := by
      simp [fft_radix2, fsts, snds, bfly, List.range_succ]
    rw [e]
    interval_cases k
    · simp [el, rev, sum_range_succ]
    · simp only [el, rev, sum_range_succ, sum_range_zero]
      simp only [List.getD_cons_succ, List.getD_cons_zero, Nat.zero_mul, pow_zero, mul_one, map_sub,
        Nat.lt_irrefl, if_false, Nat.sub_self, Nat.mul_zero, Nat.zero_add, Nat.one_mul,
        pow_one, zero_add, hz]
      ring
  | succ d ih =>
    have hp : 2 ^ (d + 1 + 1) = 2 * 2 ^ (d + 1) := by rw [pow_succ]; ring
    have hz' : f 2 ^ (2 ^ d * (2 * w)) = -1 := by rw [← hz]; congr 1; rw [pow_succ]; ring
    have hzz : (f 2 ^ w) ^ 2 ^ (d + 1) = -1 := by rw [← pow_mul, mul_comm]; exact hz
    have e2 : f 2 ^ (2 * w) = (f 2 ^ w) ^ 2 := by rw [← pow_mul, mul_comm]
    have er : rev (d + 1 + 1) k = if k < 2 ^ (d + 1) then 2 * rev (d + 1) k else 2 * rev (d + 1) (k - 2 ^ (d + 1)) + 1 := by
      rw [rev]
    simp only [fft_radix2]
    by_cases h : k < 2 ^ (d + 1)
    · rw [el_append_left _ _ _ (by rw [length_fft_radix2]; exact h), ih _ _ hz' k h, er, if_pos h, e2, hp]
      rw [← dif_even (f 2 ^ w) (2 ^ (d + 1)) hzz (fun j => f (el xs j)) (rev (d + 1) k)]
      apply sum_congr rfl; intro j hj
      rw [el_fsts _ _ _ (mem_range.mp hj)]; simp [bfly]
    · have hk' : k - 2 ^ (d + 1) < 2 ^ (d + 1) := by omega
      have ek : k = 2 ^ (d + 1) + (k - 2 ^ (d + 1)) := by omega
      rw [er, if_neg h]
      rw [ek, el_append_right' _ _ (2 ^ (d + 1)) _ (length_fft_radix2 _ _ _), ih _ _ hz' _ hk', e2, hp]
      have ek' : 2 ^ (d + 1) + (k - 2 ^ (d + 1)) - 2 ^ (d + 1) = k - 2 ^ (d + 1) := by omega
      rw [ek']
      rw [← dif_odd (f 2 ^ w) (2 ^ (d + 1)) hzz (fun j => f (el xs j)) (rev (d + 1) (k - 2 ^ (d + 1)))]
      apply sum_congr rfl; intro j hj
      rw [el_snds _ _ _ (mem_range.mp hj)]
      simp only [bfly, map_mul, map_sub, map_pow]
      congr 2; rw [← pow_mul, mul_comm]

/-! ### (b) the inverse transform undoes the forward one up to the factor 2n -/

theorem wnOf_eq (n w : Nat) (h : 64 ∣ n * w) : wnOf n w = n * w := by
  unfold wnOf; rw [Nat.mul_comm w n]; exact Nat.div_mul_cancel h

/-- `u^e · u^(2wn − e) = 1` when `u^(2wn) = 1` -/
theorem pow_mul_pow_sub_eq_one (u : S) (m e : Nat) (hu : u ^ m = 1) (he : e ≤ m) : u ^ e * u ^ (m - e) = 1 := by
  rw [← pow_add, Nat.add_sub_cancel' he, hu]

/-- the value of one inverse butterfly on the images of (c(X+Y), c(X−Y)·u^e) -/
theorem ibfly_val (wn : Nat) (a b : Int) (i w : Nat) (c X Y : S) (hu : f 2 ^ (2 * wn) = 1) (he : i * w ≤ 2 * wn)
    (ha : f a = c * (X + Y)) (hb : f b = c * ((X - Y) * f 2 ^ (i * w))) :
    f (ibfly wn a b i w).1 = 2 * c * X ∧ f (ibfly wn a b i w).2 = 2 * c * Y := by
  have e := pow_mul_pow_sub_eq_one (f 2) (2 * wn) (i * w) hu he
  simp only [ibfly, map_add, map_sub, map_mul, map_pow, ha, hb]
  constructor
  · linear_combination (c * (X - Y)) * e
  · linear_combination (-(c * (X - Y))) * e

theorem ifft_radix2_spec (d w : Nat) (hd : 64 ∣ 2 ^ d * w) (hu : f 2 ^ (2 * (2 ^ d * w)) = 1) (xs ys : List Int)
    (h : ∀ k < 2 ^ (d + 1), f (el ys k) = f (el (fft_radix2 d w xs) k)) (j : Nat) (hj : j < 2 ^ (d + 1)) :
    f (el (ifft_radix2 d w ys) j) = 2 ^ (d + 1) * f (el xs j) := by
  induction d generalizing w xs ys j with
  | zero =>
    simp only [Nat.pow_zero, Nat.one_mul, Nat.zero_add, Nat.pow_one] at hd hu hj h ⊢
    have ew : wnOf 1 w = w := by rw [wnOf_eq 1 w (by simpa using hd)]; simp
    have e : fft_radix2 0 w xs = [el xs 0 + el xs 1, (el xs 0 - el xs 1) * 2 ^ (0 * w)] := by
      simp [fft_radix2, fsts, snds, bfly, List.range_succ]
    have e' : ifft_radix2 0 w ys = [(ibfly w (el ys 0) (el ys 1) 0 w).1, (ibfly w (el ys 0) (el ys 1) 0 w).2] := by
      simp [ifft_radix2, fsts, snds, List.range_succ, ew]
    have h0 := h 0 (by norm_num); have h1 := h 1 (by norm_num)
    rw [e] at h0 h1
    have hb := ibfly_val f w (el ys 0) (el ys 1) 0 w 1 (f (el xs 0)) (f (el xs 1)) hu (by omega)
      (by rw [h0]; simp [el]) (by rw [h1]; simp [el])
    rw [e']
    interval_cases j
    · rw [el_cons_zero, hb.1]; ring
    · rw [show ∀ a b : Int, el [a, b] 1 = b from fun _ _ => rfl, hb.2]; ring
  | succ d ih =>
    have hd' : 64 ∣ 2 ^ d * (2 * w) := by
      have : 2 ^ d * (2 * w) = 2 ^ (d + 1) * w := by rw [pow_succ]; ring
      rw [this]; exact hd
    have hu' : f 2 ^ (2 * (2 ^ d * (2 * w))) = 1 := by
      rw [← hu]; congr 1; rw [pow_succ]; ring
    have ewn : wnOf (2 ^ (d + 1)) w = 2 ^ (d + 1) * w := wnOf_eq _ _ hd
    have hp : 2 ^ (d + 1 + 1) = 2 * 2 ^ (d + 1) := by rw [pow_succ]; ring
    -- the forward transform is R(s) ++ R(t)
    have hfw : fft_radix2 (d + 1) w xs =
        fft_radix2 d (2 * w) (fsts (2 ^ (d + 1)) fun i => bfly (el xs i) (el xs (2 ^ (d + 1) + i)) i w) ++
        fft_radix2 d (2 * w) (snds (2 ^ (d + 1)) fun i => bfly (el xs i) (el xs (2 ^ (d + 1) + i)) i w) := by
      simp only [fft_radix2]
    rw [hfw] at h
    have I1 := fun i (hi : i < 2 ^ (d + 1)) => ih (2 * w) hd' hu' _ (ys.take (2 ^ (d + 1)))
      (fun k hk => by
        rw [el_take _ _ _ hk, h k (by omega), el_append_left _ _ _ (by rw [length_fft_radix2]; exact hk)]) i hi
    have I2 := fun i (hi : i < 2 ^ (d + 1)) => ih (2 * w) hd' hu' _ (ys.drop (2 ^ (d + 1)))
      (fun k hk => by
        rw [el_drop, h _ (by omega), el_append_right' _ _ _ _ (length_fft_radix2 _ _ _)]) i hi
    simp only [ifft_radix2]
    -- one butterfly
    have key : ∀ i < 2 ^ (d + 1),
        f (ibfly (wnOf (2 ^ (d + 1)) w)
            (el (ifft_radix2 d (2 * w) (ys.take (2 ^ (d + 1))) ++ ifft_radix2 d (2 * w) (ys.drop (2 ^ (d + 1)))) i)
            (el (ifft_radix2 d (2 * w) (ys.take (2 ^ (d + 1))) ++ ifft_radix2 d (2 * w) (ys.drop (2 ^ (d + 1))))
              (2 ^ (d + 1) + i)) i w).1 = 2 * 2 ^ (d + 1) * f (el xs i) ∧
        f (ibfly (wnOf (2 ^ (d + 1)) w)
            (el (ifft_radix2 d (2 * w) (ys.take (2 ^ (d + 1))) ++ ifft_radix2 d (2 * w) (ys.drop (2 ^ (d + 1)))) i)
            (el (ifft_radix2 d (2 * w) (ys.take (2 ^ (d + 1))) ++ ifft_radix2 d (2 * w) (ys.drop (2 ^ (d + 1))))
              (2 ^ (d + 1) + i)) i w).2 = 2 * 2 ^ (d + 1) * f (el xs (2 ^ (d + 1) + i)) := by
      intro i hi
      rw [el_append_left _ _ _ (by rw [length_ifft_radix2]; exact hi),
        el_append_right' _ _ _ _ (length_ifft_radix2 _ _ _), ewn]
      apply ibfly_val f _ _ _ i w _ _ _ hu
      · have : i * w ≤ 2 ^ (d + 1) * w := Nat.mul_le_mul_right w (le_of_lt hi)
        omega
      · rw [I1 i hi, el_fsts _ _ _ hi]; simp [bfly]
      · rw [I2 i hi, el_snds _ _ _ hi]; simp [bfly]
    by_cases hjn : j < 2 ^ (d + 1)
    · rw [el_append_left _ _ _ (by rw [length_fsts]; exact hjn), el_fsts _ _ _ hjn, (key j hjn).1]; ring
    · have hj' : j - 2 ^ (d + 1) < 2 ^ (d + 1) := by omega
      have ej : j = 2 ^ (d + 1) + (j - 2 ^ (d + 1)) := by omega
      rw [ej, el_append_right' _ _ _ _ (length_fsts _ _), el_snds _ _ _ hj', (key _ hj').2]; ring

end ring

end Mpir.FftX
