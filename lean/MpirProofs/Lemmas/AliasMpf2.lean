/- mpf_mul, mpf_sqrt, mpf_div_ui of Mpir/Model/AliasMpf.lean (pointer level): for every assignment of variable ids the
   call succeeds and leaves in `r` exactly the limbs / size / exponent of the bit-exact model Mpir/Model/Mpf.lean applied
   to the operands as they were before the call. -/
import MpirProofs.Lemmas.AliasMpf
import MpirProofs.Lemmas.AliasShift
import MpirProofs.Lemmas.AliasRootrem
namespace Mpir.AliasMem
open Mpir
open Mpir.DivZ (sizeNat siz sameSign)

/-! ### selecting the top limbs of an operand -/

theorem limbs_of_blk {s : St} {i : Nat} {b : List Nat} (hb : s.blk (s.ptr i) = some b) :
    s.limbs i = b.take (s.size i).natAbs := by
  unfold St.limbs; rw [hb]; rfl

theorem top_length (k : Nat) (l : List Nat) : (Mpf.top k l).length = min l.length k := by
  unfold Mpf.top; simp; omega

/-- `if (usize > prec) { up += usize - prec; usize = prec; }` then read `usize` limbs at `up` -/
theorem loadAt_top {X : St} {p n k : Nat} {b : List Nat} (hb : X.blk p = some b) (hn : n ≤ b.length) :
    X.loadAt p (if n > k then n - k else 0) (if n > k then k else n) = .ok (Mpf.top k (b.take n)) := by
  have e1 : (if n > k then n - k else 0) = n - k := by split <;> omega
  have e2 : (if n > k then k else n) = n - (n - k) := by split <;> omega
  rw [e1, e2, loadAt_ok hb (by omega)]
  unfold Mpf.top
  rw [List.drop_take, List.length_take, Nat.min_eq_left hn]

theorem topLimb_toLimbs (n v : Nat) (hn : 1 ≤ n) : Mpf.topLimb (toLimbs n v) = v / B ^ (n - 1) % B := by
  unfold Mpf.topLimb
  rw [List.getLast?_eq_getElem?, toLimbs_length, ← List.getD_eq_getElem?_getD, toLimbs_getD _ _ _ (by omega)]

theorem toLimbs_drop : ∀ (n j v : Nat), (toLimbs n v).drop j = toLimbs (n - j) (v / B ^ j)
  | n, 0, v => by simp
  | 0, j + 1, v => by simp [toLimbs]
  | n + 1, j + 1, v => by
    simp only [toLimbs, List.drop_succ_cons]
    rw [toLimbs_drop n j (v / B), Nat.div_div_eq_div_mul, pow_succ', Nat.add_sub_add_right]

/-- the top `rs` limbs of a number of exactly `toff + rs` limbs are normalised -/
theorem sizeNat_top_part {P toff rs : Nat} (hsz : sizeNat P = toff + rs) (hrs : 1 ≤ rs) :
    P / B ^ toff < B ^ rs ∧ sizeNat (P / B ^ toff) = rs := by
  have h1 : P < B ^ (toff + rs) := by rw [← hsz]; exact DivZ.lt_B_pow_sizeNat P
  have h2 : B ^ (toff + rs - 1) ≤ P := by
    by_contra hc
    have := (DivZ.sizeNat_le_iff P (toff + rs - 1)).mpr (by omega)
    omega
  have h3 : P / B ^ toff < B ^ rs := by
    rw [Nat.div_lt_iff_lt_mul (DivZ.Bpow_pos _), ← pow_add, Nat.add_comm]; exact h1
  refine ⟨h3, sizeNat_eq ?_ h3 hrs⟩
  rw [Nat.le_div_iff_mul_le (DivZ.Bpow_pos _), ← pow_add]
  rw [show rs - 1 + toff = toff + rs - 1 by omega]; exact h2

theorem top_if_length (k n : Nat) (b : List Nat) (hn : n ≤ b.length) :
    (if n > k then k else n) = (Mpf.top k (b.take n)).length := by
  rw [top_length, List.length_take, Nat.min_eq_left hn]; split <;> omega

/-- the selected top limbs of a normalised operand are normalised -/
theorem top_ge {L : List Nat} (hL : Limbs L) (k : Nat) (hge : B ^ (L.length - 1) ≤ val L)
    (h1 : (Mpf.top k L).length ≠ 0) : B ^ ((Mpf.top k L).length - 1) ≤ val (Mpf.top k L) := by
  rw [top_length] at h1 ⊢
  unfold Mpf.top
  rw [val_drop hL _ (by omega), Nat.le_div_iff_mul_le (DivZ.Bpow_pos _), ← pow_add]
  refine Nat.le_trans (Nat.pow_le_pow_right B_pos ?_) hge
  omega

theorem top_norm {s : St} (h : Inv s) {i : Nat} (hi : i < s.nv) {b : List Nat} (hb : s.blk (s.ptr i) = some b) (k : Nat)
    (h1 : (Mpf.top k (b.take (s.size i).natAbs)).length ≠ 0) :
    B ^ ((Mpf.top k (b.take (s.size i).natAbs)).length - 1) ≤ val (Mpf.top k (b.take (s.size i).natAbs)) := by
  obtain ⟨b', hb', hbl, hbL⟩ := h.live i hi
  have : b' = b := by rw [hb] at hb'; exact (Option.some.inj hb').symm
  subst this
  have hf := h.fits i hi
  have h0 : s.size i ≠ 0 := fun h0 => by rw [h0] at h1; simp [Mpf.top] at h1
  refine top_ge (Limbs_take hbL _) k ?_ h1
  have := h.mag_ge hi h0
  unfold St.mag at this; rw [limbs_of_blk hb] at this
  rwa [List.length_take, Nat.min_eq_left (by omega)]

theorem sign_eq (a b : Int) (n : Int) :
    (if (!decide (sameSign a b)) = true then -n else n) = (if (decide (a < 0) != decide (b < 0)) = true then -n else n) := by
  unfold sameSign
  by_cases ha : a < 0 <;> by_cases hb : b < 0 <;> simp [ha, hb]

/-- mul.c:67-82 on the factors selected: what the model of the C leaves in `r` is `Mpf.mulLimbs` -/
theorem mulLimbs_eq {prec : Nat} {A Bv : List Nat} {k P adj k1 toff rs : Nat} (hk : k = A.length + Bv.length)
    (hP : P = val A * val Bv) (hadj : adj = if P / B ^ (k - 1) = 0 then 1 else 0) (hk1 : k1 = k - adj)
    (htoff : toff = if k1 > prec + 1 then k1 - (prec + 1) else 0) (hrs : rs = if k1 > prec + 1 then prec + 1 else k1)
    (hk2 : 2 ≤ k) (hPlt : P < B ^ k) :
    Mpf.mulLimbs prec A Bv = (((toLimbs k P).drop toff).take rs, adj) := by
  unfold Mpf.mulLimbs
  simp only [← hk, ← hP]
  have ht : Mpf.topLimb (toLimbs k P) = P / B ^ (k - 1) := by
    rw [topLimb_toLimbs _ _ (by omega), Nat.mod_eq_of_lt]
    rw [Nat.div_lt_iff_lt_mul (DivZ.Bpow_pos _), ← pow_succ']
    rw [show k - 1 + 1 = k by omega]; exact hPlt
  rw [ht, ← hadj, ← hk1]
  have hadj1 : adj ≤ 1 := by rw [hadj]; split <;> omega
  unfold Mpf.top
  rw [List.length_take, toLimbs_length, Nat.min_eq_left (by omega), List.drop_take]
  have e1 : k1 - (prec + 1) = toff := by rw [htoff]; split <;> omega
  have e2 : k1 - toff = rs := by rw [hrs, htoff]; split <;> omega
  rw [e1, e2]

theorem mpf_mul_ok {s : FSt} (h : FInv s) {r u v : Nat} (hr : r < s.st.nv) (hu : u < s.st.nv) (hv : v < s.st.nv) :
    ∃ s', mpf_mul r u v s = .ok s' ∧ FRes s s' r (Mpf.mul (s.prec r) (s.F u) (s.F v)) := by
  obtain ⟨bu, hbu, hbul, hbuL⟩ := h.inv.live u hu
  obtain ⟨bv, hbv, hbvl, hbvL⟩ := h.inv.live v hv
  obtain ⟨br, hbr, hbrl, hbrL⟩ := h.inv.live r hr
  have hfu := h.inv.fits u hu
  have hfv := h.inv.fits v hv
  have hroom := h.room r hr
  have hFu : Mpf.top (s.prec r) (s.F u).d = Mpf.top (s.prec r) (bu.take (s.st.size u).natAbs) := by
    show Mpf.top _ (s.st.limbs u) = _; rw [limbs_of_blk hbu]
  have hFv : Mpf.top (s.prec r) (s.F v).d = Mpf.top (s.prec r) (bv.take (s.st.size v).natAbs) := by
    show Mpf.top _ (s.st.limbs v) = _; rw [limbs_of_blk hbv]
  have hAL : Limbs (Mpf.top (s.prec r) (bu.take (s.st.size u).natAbs)) := Limbs_drop (Limbs_take hbuL _) _
  have hBL : Limbs (Mpf.top (s.prec r) (bv.take (s.st.size v).natAbs)) := Limbs_drop (Limbs_take hbvL _) _
  have hAge := top_norm h.inv hu hbu (s.prec r)
  have hBge := top_norm h.inv hv hbv (s.prec r)
  have hAl := top_if_length (s.prec r) (s.st.size u).natAbs bu (by omega)
  have hBl := top_if_length (s.prec r) (s.st.size v).natAbs bv (by omega)
  unfold mpf_mul mpf_mulV
  simp only [FVariant.c, bind, Except.bind, pure, Except.pure]
  rw [loadAt_top hbu (by omega), loadAt_top hbv (by omega)]
  simp only [hAl, hBl, if_true]
  unfold Mpf.mul
  simp only [hFu, hFv]
  generalize Mpf.top (s.prec r) (bu.take (s.st.size u).natAbs) = A at *
  generalize Mpf.top (s.prec r) (bv.take (s.st.size v).natAbs) = Bv at *
  by_cases hz : A.length = 0 ∨ Bv.length = 0
  · rw [if_pos hz, if_pos hz]
    exact ⟨_, rfl, setSE_zero_spec h hr⟩
  rw [if_neg hz, if_neg hz]
  have hz' := not_or.mp hz
  have hAge' := hAge hz'.1
  have hBge' := hBge hz'.2
  clear hAge hBge hAl hBl hFu hFv
  obtain ⟨k, hk⟩ : ∃ k, k = A.length + Bv.length := ⟨_, rfl⟩
  obtain ⟨P, hP⟩ : ∃ P, P = val A * val Bv := ⟨_, rfl⟩
  simp only [← hk, ← hP]
  obtain ⟨adj, hadj⟩ : ∃ adj, adj = if P / B ^ (k - 1) = 0 then 1 else 0 := ⟨_, rfl⟩
  simp only [← hadj]
  obtain ⟨k1, hk1⟩ : ∃ k1, k1 = k - adj := ⟨_, rfl⟩
  simp only [← hk1]
  obtain ⟨toff, htoff⟩ : ∃ toff, toff = if k1 > s.prec r + 1 then k1 - (s.prec r + 1) else 0 := ⟨_, rfl⟩
  obtain ⟨rs, hrs⟩ : ∃ rs, rs = if k1 > s.prec r + 1 then s.prec r + 1 else k1 := ⟨_, rfl⟩
  simp only [← htoff, ← hrs]
  have hk2 : 2 ≤ k := by omega
  have hb := mul_bounds hAge' (val_lt A hAL) hBge' (val_lt Bv hBL) (by omega) (by omega)
  rw [← hk, ← hP] at hb
  have hsz := mul_size hb.1 hb.2 hk2
  rw [← hadj, ← hk1] at hsz
  rw [mulLimbs_eq hk hP hadj hk1 htoff hrs hk2 hb.2]
  simp only []
  have hadj1 : adj ≤ 1 := by rw [hadj]; split <;> omega
  have hto : toff + rs = k1 := by rw [htoff, hrs]; split <;> omega
  have hrs1 : rs ≤ s.prec r + 1 := by rw [hrs]; split <;> omega
  have hrs0 : 1 ≤ rs := by rw [hrs]; split <;> omega
  have i1 := malloc_inv h.inv (toLimbs k P)
  have x1 := malloc_ext h.inv (toLimbs k P)
  have hl : ((toLimbs k P).drop toff).take rs = toLimbs rs (P / B ^ toff) := by
    rw [toLimbs_drop, toLimbs_take _ _ _ (by omega)]
  have hq := sizeNat_top_part (toff := toff) (rs := rs) (by rw [hsz, hto]) hrs0
  rw [show (s.st.malloc (toLimbs k P)).1 = s.st.next from rfl,
    loadAt_ok (malloc_blk_new s.st (toLimbs k P)) (by rw [toLimbs_length]; omega)]
  simp only []
  have hbr1 : (s.st.malloc (toLimbs k P)).2.blk (s.st.ptr r) = some br := by
    rw [x1.blk _ (by rw [hbr]; simp), hbr]
  rw [hl, store_blk hbr1 (by rw [toLimbs_length]; omega)]
  simp only [toLimbs_length]
  refine ⟨_, rfl, ?_⟩
  have hf := fput_spec h i1 x1 hr (toLimbs rs (P / B ^ toff) ++ br.drop rs) rs (!decide (sameSign (s.st.size u) (s.st.size v)))
    (s.exp u + s.exp v - adj) [s.st.next] (by rw [length_wr' (by omega)]; exact hbrl) (Limbs_wr' (Limbs_toLimbs _ _) hbrL)
    (by omega) ?_ ?_
  · rw [List.take_left' (toLimbs_length _ _)] at hf
    have e := sign_eq (s.st.size u) (s.st.size v) (rs : Int)
    show FRes s _ r ⟨s.prec r, if (decide (s.st.size u < 0) != decide (s.st.size v < 0)) = true then -(rs : Int) else (rs : Int),
      s.exp u + s.exp v - adj, _⟩
    rw [← e]; exact hf
  · rw [List.take_left' (toLimbs_length _ _), val_toLimbs_lt hq.1]; exact hq.2
  · intro p hp i hi
    rw [List.mem_singleton] at hp
    rw [hp]; exact malloc_ne_ptr h.inv hi

/-- why mul.c forms the product in TMP space: without it every call with `r = u` or `r = v` and a non-zero product hands
    mpn_mul a product area that is one of its factors -/
theorem mpf_mul_noTmp_ub {s : FSt} (h : FInv s) {r u v : Nat} (hu : u < s.st.nv) (hv : v < s.st.nv)
    (hru : r = u ∨ r = v) (hp : 1 ≤ s.prec r) (hu0 : s.st.size u ≠ 0) (hv0 : s.st.size v ≠ 0) :
    mpf_mulV {productInTmp := false} r u v s = .error "ub:mpn_mul product overlaps a factor" := by
  obtain ⟨bu, hbu, hbul, hbuL⟩ := h.inv.live u hu
  obtain ⟨bv, hbv, hbvl, hbvL⟩ := h.inv.live v hv
  have hfu := h.inv.fits u hu
  have hfv := h.inv.fits v hv
  unfold mpf_mulV
  simp only [bind, Except.bind, pure, Except.pure]
  rw [loadAt_top hbu (by omega), loadAt_top hbv (by omega)]
  simp only []
  rw [if_neg (by rintro (e | e) <;> split at e <;> omega)]
  simp only [Bool.false_eq_true, if_false]
  rw [if_pos (by rcases hru with e | e <;> rw [e] <;> simp)]
  rfl

/-- the variables `0 … n-1` as the bit-exact model sees them -/
def lookF (x : R FSt) (n : Nat) : R (List Mpf.F) := x.map (fun s => (List.range n).map s.F)

-- r = u, u has 4 limbs > prec + 1 = 3: the top 2 limbs of u are multiplied, u's old limbs are what the product is made of
example : lookF (mpf_mul 0 0 1 (ofFs [⟨2, 4, 3, [5, 6, 7, 8]⟩, ⟨2, -1, 1, [3]⟩])) 2 =
    .ok [⟨2, -2, 3, [21, 24]⟩, ⟨2, -1, 1, [3]⟩] := by decide +kernel
example : Mpf.mul 2 ⟨2, 4, 3, [5, 6, 7, 8]⟩ ⟨2, -1, 1, [3]⟩ = ⟨2, -2, 3, [21, 24]⟩ := by decide +kernel
-- r = u = v (squaring in place), 4 limbs under prec 2
example : lookF (mpf_mul 0 0 0 (ofFs [⟨2, 4, 3, [5, 6, 7, 2 ^ 63]⟩])) 1 = .ok [⟨2, 3, 6, [0, 7, 2 ^ 62]⟩] := by decide +kernel
-- productInTmp := false: mpn_mul straight into r overlaps a factor (r = u) …
example : lookF (mpf_mulV {productInTmp := false} 0 0 1 (ofFs [⟨2, 4, 3, [5, 6, 7, 8]⟩, ⟨2, -1, 1, [3]⟩])) 2 =
    .error "ub:mpn_mul product overlaps a factor" := by decide +kernel
-- … and with distinct variables the 2·prec-limb product does not fit the prec + 1 limbs of r
example : lookF (mpf_mulV {productInTmp := false} 0 1 2
      (ofFs [⟨2, 0, 0, []⟩, ⟨2, 3, 3, [5, 6, 7]⟩, ⟨2, 3, 1, [2 ^ 63, 1, 2 ^ 63]⟩])) 3 =
    .error "ub:write past the end of a block" := by decide +kernel


/-! ### mpf_sqrt -/

theorem setSize_ptr (s : St) (r : Nat) (x : Int) (i : Nat) : (s.setSize r x).ptr i = s.ptr i := by
  unfold St.setSize St.setVar St.ptr
  by_cases e : i = r <;> simp [e]

/-- sqrt.c:87-99 / div_ui.c:78-91: the top `t` limbs of the operand, or the operand above `t - n` zero limbs -/
theorem loadPad {X : St} {p n t : Nat} {b : List Nat} (hb : X.blk p = some b) (hn : n ≤ b.length) :
    (if n > t then X.loadAt p (n - t) t
     else (X.loadAt p 0 n).bind (fun l => Except.ok (List.replicate (t - n) 0 ++ l))) =
      .ok (List.replicate (t - n) 0 ++ Mpf.top t (b.take n)) := by
  by_cases hgt : n > t
  · rw [if_pos hgt, loadAt_ok hb (by omega)]
    have : t - n = 0 := by omega
    rw [this]
    unfold Mpf.top
    rw [List.length_take, Nat.min_eq_left hn, List.drop_take, show n - (n - t) = t by omega]; rfl
  · rw [if_neg hgt, loadAt_ok hb (by omega)]
    unfold Mpf.top
    rw [List.length_take, Nat.min_eq_left hn, show n - t = 0 by omega]; rfl

theorem setSE_loadAt (s : FSt) (r : Nat) (a e : Int) (p o n : Nat) :
    (s.setSE r a e).st.loadAt p o n = s.st.loadAt p o n := rfl

theorem setSE_ptr (s : FSt) (r : Nat) (a e : Int) (i : Nat) : (s.setSE r a e).st.ptr i = s.st.ptr i :=
  setSize_ptr s.st r a i

theorem sqrtrem_root_ok {X : St} {sp np nn : Nat} {l bs : List Nat} (hl : X.blk np = some l) (hll : l.length = nn)
    (hbs : X.blk sp = some bs) (hne : sp ≠ np) (hnn : 1 ≤ nn) (htop : l.getD (nn - 1) 0 ≠ 0)
    (hroom : (nn + 1) / 2 ≤ bs.length) :
    mpf_sqrtV.mpn_sqrtrem_root sp np nn X =
      .ok (X.setBlk sp (some (toLimbs ((nn + 1) / 2) (Nat.sqrt (val l)) ++ bs.drop ((nn + 1) / 2)))) := by
  unfold mpf_sqrtV.mpn_sqrtrem_root
  simp only [bind, Except.bind]
  rw [if_neg hne, load_blk hl (by omega)]
  simp only []
  rw [if_neg (by omega), List.take_of_length_le (by omega), if_neg htop, store_blk hbs (by rw [toLimbs_length]; exact hroom)]
  rw [toLimbs_length]

/-- the padded operand of mpf_sqrt / mpf_div_ui: `t` limbs, normalised, value `val (top) * B^(t - length)` -/
theorem pad_spec {s : St} (h : Inv s) {i : Nat} (hi : i < s.nv) {b : List Nat} (hb : s.blk (s.ptr i) = some b)
    (h0 : s.size i ≠ 0) (t : Nat) (ht : 1 ≤ t) :
    let l := List.replicate (t - (s.size i).natAbs) 0 ++ Mpf.top t (b.take (s.size i).natAbs)
    l.length = t ∧ Limbs l ∧
    val l = val (Mpf.top t (b.take (s.size i).natAbs)) * B ^ (t - (Mpf.top t (b.take (s.size i).natAbs)).length) ∧
    B ^ (t - 1) ≤ val l ∧ val l < B ^ t := by
  intro l
  obtain ⟨b', hb', hbl, hbL⟩ := h.live i hi
  have : b' = b := by rw [hb] at hb'; exact (Option.some.inj hb').symm
  subst this
  have hf := h.fits i hi
  have hn0 : (s.size i).natAbs ≠ 0 := by omega
  have htl : (Mpf.top t (b'.take (s.size i).natAbs)).length = min (s.size i).natAbs t := by
    rw [top_length, List.length_take, hbl, Nat.min_eq_left hf]
  have hge := top_norm h hi hb t (by rw [htl]; omega)
  have hTL : Limbs (Mpf.top t (b'.take (s.size i).natAbs)) := Limbs_drop (Limbs_take hbL _) _
  have hlt := val_lt _ hTL
  have hlen : l.length = t := by
    simp only [l, List.length_append, List.length_replicate, htl]; omega
  have hLl : Limbs l := Limbs_append.mpr ⟨Limbs_replicate_zero _, hTL⟩
  have hval : val l = val (Mpf.top t (b'.take (s.size i).natAbs)) * B ^ (t - (Mpf.top t (b'.take (s.size i).natAbs)).length) := by
    simp only [l]
    rw [val_zeros_append, Nat.mul_comm, htl]
    congr 2; omega
  refine ⟨hlen, hLl, hval, ?_, by have := val_lt l hLl; rwa [hlen] at this⟩
  rw [hval]
  generalize val (Mpf.top t (b'.take (s.size i).natAbs)) = T at *
  rw [htl] at hge ⊢
  calc B ^ (t - 1) = B ^ (min (s.size i).natAbs t - 1) * B ^ (t - min (s.size i).natAbs t) := by
        rw [← pow_add]; congr 1; omega
    _ ≤ _ := Nat.mul_le_mul_right _ hge

theorem mpf_sqrt_ok {s : FSt} (h : FInv s) {r u : Nat} (hr : r < s.st.nv) (hu : u < s.st.nv) (hu0 : 0 ≤ s.st.size u)
    (hp : 1 ≤ s.prec r) :
    ∃ s' f, mpf_sqrt r u s = .ok s' ∧ Mpf.sqrt (s.prec r) (s.F u) = .ok f ∧ FRes s s' r f := by
  obtain ⟨bu, hbu, hbul, hbuL⟩ := h.inv.live u hu
  obtain ⟨br, hbr, hbrl, hbrL⟩ := h.inv.live r hr
  have hfu := h.inv.fits u hu
  have hroom := h.room r hr
  have hFs : (s.F u).size = s.st.size u := rfl
  have hFe : (s.F u).exp = s.exp u := rfl
  have hFd : (s.F u).d = bu.take (s.st.size u).natAbs := limbs_of_blk hbu
  unfold mpf_sqrt mpf_sqrtV Mpf.sqrt
  simp only [FVariant.c, bind, pure, Except.pure, if_true, hFs, hFe, hFd, setSE_loadAt, setSE_ptr]
  rw [if_neg (not_lt.mpr hu0), if_neg (not_lt.mpr hu0)]
  by_cases hz : s.st.size u = 0
  · rw [if_pos hz, if_pos hz]
    exact ⟨_, _, rfl, rfl, setSE_zero_spec h hr⟩
  rw [if_neg hz, if_neg hz, loadPad hbu (by omega)]
  have heo : (s.exp u % 2).toNat ≤ 1 := by omega
  have heo2 : ((s.exp u % 2).toNat : Int) = s.exp u % 2 := by omega
  rw [heo2]
  obtain ⟨t, ht⟩ : ∃ t, t = 2 * s.prec r - (s.exp u % 2).toNat := ⟨_, rfl⟩
  simp only [← ht]
  have ht1 : 1 ≤ t := by omega
  have ht2 : (t + 1) / 2 = s.prec r := by omega
  clear heo heo2
  obtain ⟨hll, hlL, hlv, hlge, hllt⟩ := pad_spec h.inv hu hbu hz t ht1
  simp only [Except.bind]
  rw [← hlv]
  generalize List.replicate (t - (s.st.size u).natAbs) 0 ++ Mpf.top t (bu.take (s.st.size u).natAbs) = l at *
  have hne : s.st.ptr r ≠ s.st.next := malloc_ne_ptr h.inv hr
  have hXl : ((s.setSE r (s.prec r) ((s.exp u + s.exp u % 2) / 2)).st.malloc l).2.blk
      ((s.setSE r (s.prec r) ((s.exp u + s.exp u % 2) / 2)).st.malloc l).1 = some l := malloc_blk_new _ l
  have hXr : ((s.setSE r (s.prec r) ((s.exp u + s.exp u % 2) / 2)).st.malloc l).2.blk (s.st.ptr r) = some br := by
    rw [← hbr]
    simp only [St.malloc, St.setBlk]
    exact if_neg hne
  have htop : l.getD (t - 1) 0 ≠ 0 := by
    rw [val_top hlL t ht1 (by omega), List.take_of_length_le (by omega)]; exact hlge
  rw [sqrtrem_root_ok hXl hll hXr hne ht1 htop (by omega)]
  simp only [ht2]
  refine ⟨_, _, rfl, rfl, ?_⟩
  have hsz := sqrt_size hlge hllt ht1
  rw [ht2] at hsz
  have hslt : Nat.sqrt (val l) < B ^ s.prec r := by rw [← hsz]; exact DivZ.lt_B_pow_sizeNat _
  have hf := fput_spec h (malloc_inv h.inv l) (malloc_ext h.inv l) hr (toLimbs (s.prec r) (Nat.sqrt (val l)) ++ br.drop (s.prec r))
    (s.prec r) false ((s.exp u + s.exp u % 2) / 2) [s.st.next] (by rw [length_wr' (by omega)]; exact hbrl)
    (Limbs_wr' (Limbs_toLimbs _ _) hbrL) (by omega)
    (by rw [List.take_left' (toLimbs_length _ _), val_toLimbs_lt hslt]; exact hsz)
    (by intro p hp i hi
        rw [List.mem_singleton] at hp
        rw [hp]; exact malloc_ne_ptr h.inv hi)
  rw [List.take_left' (toLimbs_length _ _)] at hf
  exact hf

theorem mpf_sqrt_neg {s : FSt} {r u : Nat} (hneg : s.st.size u < 0) :
    mpf_sqrt r u s = .error "sqrtneg" ∧ Mpf.sqrt (s.prec r) (s.F u) = .sqrtneg := by
  have hFs : (s.F u).size = s.st.size u := rfl
  unfold mpf_sqrt mpf_sqrtV Mpf.sqrt
  simp only [bind, Except.bind, hFs]
  rw [if_pos hneg, if_pos hneg]
  exact ⟨rfl, rfl⟩

-- r = u, u has 5 limbs > prec + 1 = 3, odd exponent: the root of the top 3 limbs [7, 8, 9] of u as it was
example : lookF (mpf_sqrt 0 0 (ofFs [⟨2, 5, 3, [5, 6, 7, 8, 9]⟩])) 1 = .ok [⟨2, 2, 2, [1, 3]⟩] := by decide +kernel
example : Mpf.sqrt 2 ⟨2, 5, 3, [5, 6, 7, 8, 9]⟩ = .ok ⟨2, 2, 2, [1, 3]⟩ := by decide +kernel
-- even exponent: the top 4 limbs
example : lookF (mpf_sqrt 0 0 (ofFs [⟨2, 5, 4, [5, 6, 7, 8, 9]⟩])) 1 = .ok [⟨2, 2, 2, [5726623061, 12884901888]⟩] := by
  decide +kernel
-- r ≠ u: u untouched
example : lookF (mpf_sqrt 0 1 (ofFs [⟨2, 0, 0, []⟩, ⟨2, 5, 3, [5, 6, 7, 8, 9]⟩])) 2 =
    .ok [⟨2, 2, 2, [1, 3]⟩, ⟨2, 5, 3, [5, 6, 7, 8, 9]⟩] := by decide +kernel
-- sqrtLocals := false (u->_mp_size read again after r->_mp_size = prec was stored, r = u): a different root …
example : lookF (mpf_sqrtV {sqrtLocals := false} 0 0 (ofFs [⟨2, 5, 3, [5, 6, 7, 8, 9]⟩])) 1 =
    .ok [⟨2, 2, 2, [8291622248878821281, 2]⟩] := by decide +kernel
-- … and with a short operand stale limbs above |size| are taken for data
example : lookF (mpf_sqrtV {sqrtLocals := false} 0 0 (ofFs [⟨3, 1, 4, [5]⟩])) 1 ≠ lookF (mpf_sqrt 0 0 (ofFs [⟨3, 1, 4, [5]⟩])) 1 := by
  decide +kernel
example : (mpf_sqrt 0 1 (ofFs [⟨2, 0, 0, []⟩, ⟨2, -1, 1, [4]⟩])).toOption.isNone := by decide +kernel


/-! ### mpf_div_ui -/

theorem mpf_div_ui_zero {s : FSt} {r u : Nat} :
    mpf_div_ui r u 0 s = .error "div0" ∧ Mpf.div_ui (s.prec r) (s.F u) 0 = .div0 := ⟨rfl, rfl⟩

theorem mpf_div_ui_ok {s : FSt} (h : FInv s) {r u : Nat} (hr : r < s.st.nv) (hu : u < s.st.nv) {v : Nat} (hv : 0 < v) (hvB : v < B) :
    ∃ s' f, mpf_div_ui r u v s = .ok s' ∧ Mpf.div_ui (s.prec r) (s.F u) v = .ok f ∧ FRes s s' r f := by
  obtain ⟨bu, hbu, hbul, hbuL⟩ := h.inv.live u hu
  obtain ⟨br, hbr, hbrl, hbrL⟩ := h.inv.live r hr
  have hfu := h.inv.fits u hu
  have hroom := h.room r hr
  have hFs : (s.F u).size = s.st.size u := rfl
  have hFe : (s.F u).exp = s.exp u := rfl
  have hFd : (s.F u).d = bu.take (s.st.size u).natAbs := limbs_of_blk hbu
  unfold mpf_div_ui mpf_div_uiV Mpf.div_ui Mpf.quotFinish
  simp only [FVariant.c, bind, pure, Except.pure, if_true, hFs, hFe, hFd, Nat.add_comm 1 (s.prec r)]
  rw [if_neg (by omega : ¬ v = 0), if_neg (by omega : ¬ v = 0)]
  by_cases hz : s.st.size u = 0
  · rw [if_pos hz, if_pos (by omega : (s.st.size u).natAbs = 0)]
    exact ⟨_, _, rfl, rfl, setSE_zero_spec h hr⟩
  rw [if_neg hz, if_neg (by omega : ¬ (s.st.size u).natAbs = 0), loadPad hbu (by omega)]
  obtain ⟨t, ht⟩ : ∃ t, t = s.prec r + 1 := ⟨_, rfl⟩
  simp only [← ht]
  have ht1 : 1 ≤ t := by omega
  obtain ⟨hll, hlL, hlv, hlge, hllt⟩ := pad_spec h.inv hu hbu hz t ht1
  simp only [Except.bind]
  rw [← hlv]
  generalize List.replicate (t - (s.st.size u).natAbs) 0 ++ Mpf.top t (bu.take (s.st.size u).natAbs) = l at *
  have hne : s.st.ptr r ≠ s.st.next := malloc_ne_ptr h.inv hr
  have x1 := malloc_ext h.inv (l ++ [junk])
  have hXr : (s.st.malloc (l ++ [junk])).2.blk (s.st.ptr r) = some br := by
    rw [x1.blk _ (by rw [hbr]; simp), hbr]
  rw [store_blk hXr (by rw [toLimbs_length]; omega)]
  simp only [toLimbs_length]
  rw [limbAt_setBlk _ _ _ _ (by rw [length_wr' (by omega)]; omega)]
  simp only []
  rw [getD_append_left (by rw [toLimbs_length]; omega), toLimbs_getD _ _ _ (by omega)]
  have hq := quot_size (N := val l) (D := v) (nl := t) (dl := 1) hlge hllt (by rw [Nat.sub_self, pow_zero]; exact hv) (by rw [pow_one]; exact hvB)
    (Nat.le_refl _) ht1
  simp only [Nat.sub_add_cancel ht1] at hq
  rw [topLimb_toLimbs _ _ ht1]
  obtain ⟨q, hqd⟩ : ∃ q, q = val l / v := ⟨_, rfl⟩
  rw [← hqd] at hq ⊢
  obtain ⟨hzl, hhz⟩ : ∃ hzl, hzl = if q / B ^ (t - 1) % B = 0 then 1 else 0 := ⟨_, rfl⟩
  rw [← hhz] at hq
  simp only [← hhz]
  have hzl1 : hzl ≤ 1 := by rw [hhz]; split <;> omega
  have hsg : (if s.st.size u ≥ 0 then ((t - hzl : Nat) : Int) else -((t - hzl : Nat) : Int)) =
      (if decide (s.st.size u < 0) = true then -((t - hzl : Nat) : Int) else ((t - hzl : Nat) : Int)) := by
    by_cases hs : s.st.size u < 0
    · rw [if_neg (by omega), if_pos (by simpa using hs)]
    · rw [if_pos (by omega), if_neg (by simpa using hs)]
  rw [hsg]
  refine ⟨_, _, rfl, rfl, ?_⟩
  have hf := fput_spec h (malloc_inv h.inv (l ++ [junk])) x1 hr (toLimbs t q ++ br.drop t)
    (t - hzl) (decide (s.st.size u < 0)) (s.exp u - hzl) [s.st.next] (by rw [length_wr' (by omega)]; exact hbrl)
    (Limbs_wr' (Limbs_toLimbs _ _) hbrL) (by omega)
    (by rw [hq.2]; rw [val_take_wr _ (by rw [← hq.2]; omega)])
    (by intro p hp i hi
        rw [List.mem_singleton] at hp
        rw [hp]; exact malloc_ne_ptr h.inv hi)
  rw [List.take_append_of_le_length (by rw [toLimbs_length]; omega)] at hf
  rw [List.length_take, toLimbs_length, Nat.min_eq_left (by omega)]
  exact hf

/-- why div_ui.c moves the dividend to TMP space: dividing in place, every call with `r = u` and an operand longer than
    prec + 1 limbs hands mpn_divrem_1 a quotient area that overlaps its dividend at an offset -/
theorem mpf_div_ui_noTmp_ub {s : FSt} (h : FInv s) {r : Nat} (hr : r < s.st.nv) {v : Nat} (hv : 0 < v)
    (hlong : s.prec r + 1 < (s.st.size r).natAbs) :
    mpf_div_uiV {dividendInTmp := false} r r v s = .error "ub:mpn_divrem_1 quotient overlaps the dividend at an offset" := by
  obtain ⟨br, hbr, hbrl, hbrL⟩ := h.inv.live r hr
  have hfr := h.inv.fits r hr
  unfold mpf_div_uiV
  simp only [bind, pure, Except.pure, Nat.add_comm 1 (s.prec r)]
  rw [if_neg (by omega : ¬ v = 0), if_neg (by omega : ¬ (s.st.size r).natAbs = 0), loadPad hbr (by omega)]
  simp only [Except.bind, Bool.false_eq_true, if_false]
  rw [if_pos ⟨trivial, hlong⟩]
  rfl

-- r = u, u has 5 limbs > prec + 1 = 3, negative: the top 3 limbs [7, 8, 9] of u as it was, divided by 3
example : lookF (mpf_div_ui 0 0 3 (ofFs [⟨2, -5, 3, [5, 6, 7, 8, 9]⟩])) 1 =
    .ok [⟨2, -3, 3, [12297829382473034413, 2, 3]⟩] := by decide +kernel
example : Mpf.div_ui 2 ⟨2, -5, 3, [5, 6, 7, 8, 9]⟩ 3 = .ok ⟨2, -3, 3, [12297829382473034413, 2, 3]⟩ := by decide +kernel
-- high quotient limb zero: one limb less, exponent - 1; r ≠ u leaves u alone
example : lookF (mpf_div_ui 0 1 10 (ofFs [⟨2, 0, 0, []⟩, ⟨2, 5, 3, [5, 6, 7, 8, 9]⟩])) 2 =
    .ok [⟨2, 2, 2, [3689348814741910323, 16602069666338596455]⟩, ⟨2, 5, 3, [5, 6, 7, 8, 9]⟩] := by decide +kernel
-- short operand in place (zero padding below)
example : lookF (mpf_div_ui 0 0 3 (ofFs [⟨2, 1, 3, [5]⟩])) 1 =
    .ok [⟨2, 3, 3, [12297829382473034410, 12297829382473034410, 1]⟩] := by decide +kernel
-- dividendInTmp := false: with r = u and a long operand mpn_divrem_1 gets a quotient area overlapping its dividend at an offset
example : lookF (mpf_div_uiV {dividendInTmp := false} 0 0 3 (ofFs [⟨2, -5, 3, [5, 6, 7, 8, 9]⟩])) 1 =
    .error "ub:mpn_divrem_1 quotient overlaps the dividend at an offset" := by decide +kernel
example : mpf_div_ui 0 0 0 (ofFs [⟨2, 1, 3, [5]⟩]) = .error "div0" := mpf_div_ui_zero.1

end Mpir.AliasMem
