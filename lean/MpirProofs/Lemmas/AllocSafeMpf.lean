/- mpf destinations: a block of `PREC + 1` limbs that is never reallocated.  mpf/urandomb.c (Mpir/Model/AllocSafeMpz4.lean
   `mpf_urandomb`): the `nlimbs` limbs `_gmp_rand` stores, the in-place shift and the strip loop stay inside the block because
   `nlimbs ≤ PREC + 1`; the result is the value-level model of C19 (Mpir/Model/Rand.lean `mpfUrandomb`).  With the seeded
   `prec = PREC (rop) + 1` a request of more than `64 (PREC + 1)` bits stores `PREC + 2` limbs. -/
import MpirProofs.Lemmas.AllocSafeTdiv
namespace Mpir.AllocSafe
open Mpir

/-- the block invariant of an mpf destination -/
def FWF (s : FSt) : Prop := s.o.buf.limbs.length = s.o.buf.alloc ∧ s.o.buf.alloc = s.o.prec + 1

theorem FSt.wr_spec (s : FSt) (l : List Nat) (hb : s.o.buf.limbs.length = s.o.buf.alloc) (hl : l.length ≤ s.o.buf.alloc) :
    (s.wr 0 l).ok = s.ok ∧ (s.wr 0 l).o.buf.limbs = l ++ s.o.buf.limbs.drop l.length ∧
    (s.wr 0 l).o.buf.alloc = s.o.buf.alloc ∧ (s.wr 0 l).o.buf.limbs.length = s.o.buf.alloc ∧
    (s.wr 0 l).o.prec = s.o.prec := by
  simp only [FSt.wr, Buf.write, Nat.zero_add, hl, if_true, Bool.and_true, List.take_zero, List.nil_append,
    List.length_append, List.length_drop, hb]
  refine ⟨trivial, trivial, trivial, by omega, trivial⟩

theorem FSt.rd_spec (s : FSt) (n : Nat) (hn : n ≤ s.o.buf.alloc) :
    (s.rd n).1 = s.o.buf.limbs.take n ∧ (s.rd n).2 = s := by
  cases s with
  | mk o ok => simp [FSt.rd, Buf.read, hn]

/-- the state holds `toLimbs nlimbs r` at the bottom of a block of PREC + 1 ≥ nlimbs limbs -/
structure FHolds (s0 s : FSt) (nlimbs r : Nat) : Prop where
  ok : s.ok = true
  len : s.o.buf.limbs.length = s.o.buf.alloc
  alloc : s.o.buf.alloc = s0.o.buf.alloc
  prec : s.o.prec = s0.o.prec
  take : s.o.buf.limbs.take nlimbs = toLimbs nlimbs r

theorem FHolds.of_wr (s0 s : FSt) (nlimbs r : Nat) (hok : s.ok = true) (hlen : s.o.buf.limbs.length = s.o.buf.alloc)
    (hal : s.o.buf.alloc = s0.o.buf.alloc) (hpr : s.o.prec = s0.o.prec) (hle : nlimbs ≤ s0.o.buf.alloc) :
    FHolds s0 (s.wr 0 (toLimbs nlimbs r)) nlimbs r := by
  obtain ⟨wok, wl, wa, wn, wp⟩ := s.wr_spec (toLimbs nlimbs r) hlen (by rw [toLimbs_len, hal]; exact hle)
  exact ⟨by rw [wok]; exact hok, by rw [wn, wa], by rw [wa, hal], by rw [wp, hpr], by rw [wl]; exact List.take_left' (toLimbs_len _ _)⟩

theorem mpf_urandomb_fin_spec {s0 s : FSt} {nlimbs r : Nat} (H : FHolds s0 s nlimbs r) (hle : nlimbs ≤ s0.o.buf.alloc)
    (ha : s0.o.buf.alloc = s0.o.prec + 1) :
    (mpf_urandomb_fin s nlimbs).ok = true ∧
    (mpf_urandomb_fin s nlimbs).out = (s0.o.prec + 1, Rand.mpfFinish (toLimbs nlimbs r)) ∧
    FWF (mpf_urandomb_fin s nlimbs) := by
  obtain ⟨e, e'⟩ := s.rd_spec nlimbs (by rw [H.alloc]; exact hle)
  unfold mpf_urandomb_fin
  simp only [e, e', H.take]
  refine ⟨H.ok, ?_, ⟨H.len, by rw [H.alloc, ha, H.prec]⟩⟩
  simp only [FSt.out, Rand.mpfFinish, Rand.mpfStrip, Int.natAbs_natCast, H.alloc, ha]
  congr 2
  have hle2 := Mpz.normalize_length_le (toLimbs nlimbs r)
  rw [toLimbs_len] at hle2
  have : s.o.buf.limbs.take (Mpir.normalize (toLimbs nlimbs r)).length =
      (s.o.buf.limbs.take nlimbs).take (Mpir.normalize (toLimbs nlimbs r)).length := by
    rw [List.take_take, Nat.min_eq_left hle2]
  rw [this, H.take, take_normalize_length]

theorem mpf_urandomb_alloc_safe (s : FSt) (g : Rand.Gen) (nbits : Nat) (hs : s.ok = true) (hw : FWF s) :
    (mpf_urandomb 0 s g nbits).1.ok = true ∧
    (mpf_urandomb 0 s g nbits).1.out = (s.o.prec + 1, (Rand.mpfUrandomb g s.o.prec nbits).1) ∧
    (mpf_urandomb 0 s g nbits).2 = (Rand.mpfUrandomb g s.o.prec nbits).2 ∧
    FWF (mpf_urandomb 0 s g nbits).1 := by
  obtain ⟨hb, ha⟩ := hw
  unfold mpf_urandomb Rand.mpfUrandomb
  simp only [Nat.add_zero]
  generalize hnl : (if (decide (Rand.bitsToLimbs nbits > s.o.prec + 1) || Rand.bitsToLimbs nbits == 0) = true then s.o.prec + 1
    else Rand.bitsToLimbs nbits) = nlimbs
  have hle : nlimbs ≤ s.o.buf.alloc := by
    rw [← hnl, ha]
    split
    · exact Nat.le_refl _
    · rename_i h
      simp only [Bool.or_eq_true, decide_eq_true_eq, beq_iff_eq, not_or] at h
      omega
  generalize (if (decide (Rand.bitsToLimbs nbits > s.o.prec + 1) || Rand.bitsToLimbs nbits == 0) = true then nlimbs * 64 else nbits) = nb
  generalize g.get nb = p
  have hpow : (2 : Nat) ^ (64 * nlimbs) = B ^ nlimbs := (DivZ.B_pow nlimbs).symm
  have H1 := FHolds.of_wr s s nlimbs (p.1 % 2 ^ (64 * nlimbs)) hs hb rfl rfl hle
  have hval1 : val (toLimbs nlimbs (p.1 % 2 ^ (64 * nlimbs))) = p.1 % 2 ^ (64 * nlimbs) := by
    rw [(DivZ.val_toLimbs _ _).1, ← hpow, Nat.mod_mod]
  unfold mpf_urandomb_shift
  by_cases hsh : nb % 64 ≠ 0
  · simp only [hsh, ne_eq, not_false_eq_true, if_true]
    obtain ⟨e, e'⟩ := (s.wr 0 (toLimbs nlimbs (p.1 % 2 ^ (64 * nlimbs)))).rd_spec nlimbs (by rw [H1.alloc]; exact hle)
    simp only [e, e', H1.take, hval1]
    have H2 := FHolds.of_wr s _ nlimbs ((p.1 % 2 ^ (64 * nlimbs)) <<< (64 - nb % 64) % 2 ^ (64 * nlimbs)) H1.ok H1.len H1.alloc H1.prec hle
    obtain ⟨f1, f2, f3⟩ := mpf_urandomb_fin_spec H2 hle ha
    exact ⟨f1, f2, trivial, f3⟩
  · have hsh' : nb % 64 = 0 := by simpa using hsh
    simp only [hsh', ne_eq, not_true_eq_false, if_false]
    obtain ⟨f1, f2, f3⟩ := mpf_urandomb_fin_spec H1 hle ha
    exact ⟨f1, f2, trivial, f3⟩

/-- the seeded bug of the brief: with `prec = PREC (rop) + 1` a request of more than `64 (PREC + 1)` bits makes `_gmp_rand`
    store `PREC + 2` limbs into the block of `PREC + 1` — for every generator and every destination -/
theorem mpf_urandomb_prec_plus_one_overruns (s : FSt) (g : Rand.Gen) (nbits : Nat) (hw : FWF s)
    (hn : 64 * (s.o.prec + 1) < nbits) : (mpf_urandomb 1 s g nbits).1.ok = false := by
  obtain ⟨hb, ha⟩ := hw
  have hlimbs : Rand.bitsToLimbs nbits ≥ s.o.prec + 2 := by unfold Rand.bitsToLimbs; omega
  have wrf : ∀ (t : FSt) (l : List Nat), t.ok = false → (t.wr 0 l).ok = false := by
    intro t l h; simp [FSt.wr, h]
  have rdf : ∀ (t : FSt) (n : Nat), t.ok = false → (t.rd n).2.ok = false := by
    intro t n h; simp [FSt.rd, h]
  have shf : ∀ (t : FSt) (n b : Nat), t.ok = false → (mpf_urandomb_shift t n b).ok = false := by
    intro t n b h
    unfold mpf_urandomb_shift
    split
    · exact wrf _ _ (rdf _ _ h)
    · exact h
  have finf : ∀ (t : FSt) (n : Nat), t.ok = false → (mpf_urandomb_fin t n).ok = false := by
    intro t n h
    unfold mpf_urandomb_fin
    exact rdf _ _ h
  unfold mpf_urandomb
  simp only []
  refine finf _ _ (shf _ _ _ ?_)
  simp only [FSt.wr, Buf.write, Nat.zero_add, toLimbs_len, Bool.and_eq_false_iff]
  right
  rw [if_neg]
  rw [ha]
  split <;> omega

end Mpir.AllocSafe
