/- mpf_get_str: the rounding of the developed digits to the requested count (MpfStr.finish). -/
import MpirProofs.Lemmas.MpfStrGet
namespace Mpir.MpfStr
open Mpir Mpir.Mpf Mpir.Radix

theorem digVal_append_zeros (b : ℕ) (hb : 1 ≤ b) (l : List ℕ) (j : ℕ) (x : ℤ) :
    digVal b (l ++ List.replicate j 0) x = digVal b l x := by
  have hbq : (b : ℚ) ≠ 0 := by
    have : (0 : ℚ) < (b : ℚ) := by exact_mod_cast hb
    exact this.ne'
  unfold digVal
  have h0 : ofDigits b (List.replicate j 0) = 0 := by
    induction j with
    | zero => simp [ofDigits]
    | succ j ih => rw [List.replicate_succ, ofDigits_cons, ih]; simp
  rw [ofDigits_app, h0, List.length_replicate, List.length_append, List.length_replicate]
  have : x - ((l.length + j : ℕ) : ℤ) = (x - (l.length : ℤ)) - (j : ℤ) := by push_cast; ring
  rw [this, zpow_sub₀ hbq, zpow_natCast]
  have hbj : (b : ℚ) ^ j ≠ 0 := pow_ne_zero _ hbq
  push_cast
  field_simp
  ring

/-- stripping trailing zero digits changes neither the value nor the leading digits; what remains does not end in 0 -/
theorem strip_spec (b : ℕ) (hb : 1 ≤ b) (ds : List ℕ) (x : ℤ) :
    digVal b (stripTrailingZeros ds) x = digVal b ds x ∧
    (stripTrailingZeros ds).getLast? ≠ some 0 ∧ (stripTrailingZeros ds).length ≤ ds.length ∧
    (∀ d ∈ stripTrailingZeros ds, d ∈ ds) ∧
    ∃ j, ds = stripTrailingZeros ds ++ List.replicate j 0 := by
  set p : ℕ → Bool := fun d => d == 0 with hp
  obtain ⟨k, hsplit, hk, hall⟩ := dropWhile_split p ds.reverse
  have hz : ds.reverse.takeWhile p = List.replicate k 0 := by
    apply List.eq_replicate_iff.mpr
    refine ⟨hk, fun d hd => ?_⟩
    have := hall d hd
    simpa [hp] using this
  have hds : ds = stripTrailingZeros ds ++ List.replicate k 0 := by
    unfold stripTrailingZeros
    have := congrArg List.reverse hsplit
    rw [List.reverse_reverse, List.reverse_append, hz, List.reverse_replicate] at this
    exact this
  refine ⟨?_, ?_, ?_, ?_, k, hds⟩
  · conv_rhs => rw [hds]
    rw [digVal_append_zeros b hb]
  · unfold stripTrailingZeros
    rw [List.getLast?_reverse]
    cases hr : ds.reverse.dropWhile (· == 0) with
    | nil => simp
    | cons d rest =>
      have := dropWhile_head_false p ds.reverse d rest hr
      simp only [hp, beq_eq_false_iff_ne, ne_eq] at this
      simp [this]
  · have := congrArg List.length hds
    simp at this; omega
  · intro d hd
    rw [hds]; exact List.mem_append_left _ hd

/-- **Rounding to nd digits** (get_str.c:253-291).  For developed digits `ds` (digits of the base, more than `nd`
    of them) the digits delivered denote a value within 3/4 of a unit of the nd-th digit of what `ds` denotes
    (half a unit when rounding up; when the (nd+1)-th digit is below base/2 the tail is dropped, which for an
    odd base can exceed one half: (b+1)/(2b)). -/
theorem finish_round (b : ℕ) (hb : 2 ≤ b) (nd : ℕ) (ds : List ℕ) (x : ℤ)
    (hds : ∀ d ∈ ds, d < b) (hlen : nd < ds.length) :
    |digVal b (finish b nd ds x).1 (finish b nd ds x).2 - digVal b ds x| ≤ 3 / 4 * (b : ℚ) ^ (x - (nd : ℤ)) := by
  have hb1 : 1 ≤ b := by omega
  have hbq : (0 : ℚ) < (b : ℚ) := by exact_mod_cast (show 0 < b by omega)
  have hbne : (b : ℚ) ≠ 0 := hbq.ne'
  -- split the digits
  set hd := ds.take nd with hhd
  set tl := ds.drop nd with htl
  have hsplit : ds = hd ++ tl := (List.take_append_drop nd ds).symm
  have hhdlen : hd.length = nd := by rw [hhd, List.length_take]; omega
  have htllen : tl.length = ds.length - nd := by rw [htl, List.length_drop]
  obtain ⟨m, hm⟩ : ∃ m, tl.length = m + 1 := ⟨ds.length - nd - 1, by omega⟩
  have hhd_lt : ∀ d ∈ hd, d < b := fun d h => hds d (List.mem_of_mem_take h)
  have htl_lt : ∀ d ∈ tl, d < b := fun d h => hds d (List.mem_of_mem_drop h)
  -- rounding digit
  obtain ⟨r, tl', htl'⟩ : ∃ r tl', tl = r :: tl' := by
    cases h : tl with
    | nil => rw [h] at hm; simp at hm
    | cons r t => exact ⟨r, t, rfl⟩
  have hget : ds.getD nd 0 = r := by
    rw [List.getD_eq_getElem?_getD, hsplit, List.getElem?_append_right (by omega), hhdlen, htl']
    simp
  have hr_lt : r < b := htl_lt r (by rw [htl']; simp)
  have htl'len : tl'.length = m := by rw [htl'] at hm; simpa using hm
  have hT' : ofDigits b tl' < b ^ m := by
    have := ofDigits_lt (show 0 < b by omega) tl' (fun d h => htl_lt d (by rw [htl']; simp [h]))
    rwa [htl'len] at this
  -- value of ds
  set H := ofDigits b hd with hH
  set T := ofDigits b tl with hT
  have hTr : T = r * b ^ m + ofDigits b tl' := by rw [hT, htl', ofDigits_cons, htl'len]
  have hN : ofDigits b ds = H * b ^ (m + 1) + T := by
    conv_lhs => rw [hsplit]
    rw [ofDigits_app, hm]
  have hL : (ds.length : ℤ) = (nd : ℤ) + ((m + 1 : ℕ) : ℤ) := by
    have : ds.length = nd + (m + 1) := by omega
    rw [this]; push_cast; ring
  have hbm : (0 : ℚ) < (b : ℚ) ^ (m + 1) := pow_pos hbq _
  set unit : ℚ := (b : ℚ) ^ (x - (nd : ℤ)) with hunit
  have hunit_pos : 0 < unit := zpow_pos hbq _
  have hdsval : digVal b ds x = ((H : ℚ) + (T : ℚ) / (b : ℚ) ^ (m + 1)) * unit := by
    unfold digVal
    rw [hN, hL, hunit]
    have : x - ((nd : ℤ) + ((m + 1 : ℕ) : ℤ)) = (x - (nd : ℤ)) - ((m + 1 : ℕ) : ℤ) := by ring
    rw [this, zpow_sub₀ hbne, zpow_natCast]
    push_cast
    field_simp
  have hTq : (T : ℚ) = (r : ℚ) * (b : ℚ) ^ m + (ofDigits b tl' : ℚ) := by exact_mod_cast hTr
  have hT'q : (ofDigits b tl' : ℚ) < (b : ℚ) ^ m := by exact_mod_cast hT'
  have hT'0 : (0 : ℚ) ≤ (ofDigits b tl' : ℚ) := Nat.cast_nonneg _
  have hbmm : (b : ℚ) ^ (m + 1) = (b : ℚ) ^ m * (b : ℚ) := pow_succ _ _
  have hbmpos : (0 : ℚ) < (b : ℚ) ^ m := pow_pos hbq _
  unfold finish
  simp only
  rw [hget]
  by_cases hround : ds.length > nd ∧ 2 * r ≥ b
  · rw [if_pos hround]
    obtain ⟨rv, _, rlast, _, _⟩ := roundUp_spec b hb hd x hhd_lt
    obtain ⟨sv, _, _, _, _⟩ := strip_spec b hb1 (roundUp b hd x).1 (roundUp b hd x).2
    rw [sv, rv, hhdlen, hdsval, ← hunit]
    -- (H + 1) - (H + T/b^(m+1)) = 1 - T/b^(m+1) ∈ (0, 1/2]
    have h2r : (b : ℚ) ≤ 2 * (r : ℚ) := by exact_mod_cast hround.2
    have hfrac_lo : (1 : ℚ) / 2 ≤ (T : ℚ) / (b : ℚ) ^ (m + 1) := by
      rw [le_div_iff₀ hbm, hTq, hbmm]; nlinarith
    have hfrac_hi : (T : ℚ) / (b : ℚ) ^ (m + 1) < 1 := by
      rw [div_lt_one hbm, hTq, hbmm]
      have : (r : ℚ) + 1 ≤ (b : ℚ) := by exact_mod_cast hr_lt
      nlinarith
    have : ((H : ℚ) + 1) * unit - ((H : ℚ) + (T : ℚ) / (b : ℚ) ^ (m + 1)) * unit =
        (1 - (T : ℚ) / (b : ℚ) ^ (m + 1)) * unit := by ring
    rw [this, abs_of_nonneg (mul_nonneg (by linarith) hunit_pos.le)]
    nlinarith
  · rw [if_neg hround]
    simp only
    obtain ⟨sv, _, _, _, _⟩ := strip_spec b hb1 hd x
    rw [← hhd, sv, hdsval]
    have hdval : digVal b hd x = (H : ℚ) * unit := by
      unfold digVal; rw [hhdlen]
    rw [hdval]
    have h2r : 2 * (r : ℚ) + 1 ≤ (b : ℚ) := by
      have : 2 * r + 1 ≤ b := by omega
      exact_mod_cast this
    have hfrac_lo : (0 : ℚ) ≤ (T : ℚ) / (b : ℚ) ^ (m + 1) := by positivity
    have hfrac_hi : (T : ℚ) / (b : ℚ) ^ (m + 1) ≤ 3 / 4 := by
      rw [div_le_iff₀ hbm, hTq, hbmm]
      -- T < (r+1) b^m ≤ ((b+1)/2) b^m ≤ (3/4) b b^m  since b ≥ 2
      have hb2 : (2 : ℚ) ≤ (b : ℚ) := by exact_mod_cast hb
      nlinarith
    have : (H : ℚ) * unit - ((H : ℚ) + (T : ℚ) / (b : ℚ) ^ (m + 1)) * unit =
        -((T : ℚ) / (b : ℚ) ^ (m + 1) * unit) := by ring
    rw [this, abs_neg, abs_of_nonneg (mul_nonneg hfrac_lo hunit_pos.le)]
    exact mul_le_mul_of_nonneg_right hfrac_hi hunit_pos.le

/-- with no more digits than requested nothing is rounded -/
theorem finish_short (b : ℕ) (hb : 1 ≤ b) (nd : ℕ) (ds : List ℕ) (x : ℤ) (hlen : ds.length ≤ nd) :
    digVal b (finish b nd ds x).1 (finish b nd ds x).2 = digVal b ds x := by
  unfold finish
  simp only
  have : ¬ (ds.length > nd ∧ 2 * ds.getD nd 0 ≥ b) := by omega
  rw [if_neg this]
  simp only
  rw [List.take_of_length_le hlen]
  exact (strip_spec b hb ds x).1

end Mpir.MpfStr
