/- mpf_get_str: from the bounds on the developed integer (MpfStrScaled) and the rounding step (MpfStrRound) to
   "within one unit of the last requested digit", under explicit adequacy conditions on n_limbs_needed. -/
import MpirProofs.Lemmas.MpfStrScaled
import MpirProofs.Lemmas.MpfStrRound
namespace Mpir.MpfStr
open Mpir Mpir.Mpf Mpir.Radix

/-- arithmetic core, multiplication branch: N ≤ W, W(1-ε)^(e+1) - 1 < N, N + 1 ≤ P (= b^L0), ε Q ≤ 2^-64 (Q = b^nd),
    8 Q ≤ P, e + 1 ≤ 2^59  ⟹  W - N ≤ P / (4 Q) -/
theorem core_mul (W N ε P Q : ℚ) (e : ℕ) (h0 : 0 ≤ ε) (h1 : ε ≤ 1) (hNW : N ≤ W)
    (hlo : W * (1 - ε) ^ (e + 1) - 1 < N) (hNP : N + 1 ≤ P) (hQ1 : 1 ≤ Q) (hεQ : ε * Q ≤ 1 / 2 ^ 64)
    (hPQ : 8 * Q ≤ P) (he : (e : ℚ) + 1 ≤ 2 ^ 59) (hN0 : 0 ≤ N) :
    W - N ≤ P / (4 * Q) := by
  have hQpos : 0 < Q := by linarith
  have hW0 : 0 ≤ W := le_trans hN0 hNW
  have hb := one_sub_pow_ge h0 h1 (e + 1)
  push_cast at hb
  -- (e+1) ε ≤ 2^59 ε Q ≤ 2^-5
  have hε1 : ε ≤ ε * Q := by nlinarith
  have hk : ((e : ℚ) + 1) * ε ≤ 1 / 32 := by
    have : ((e : ℚ) + 1) * ε ≤ 2 ^ 59 * (ε * Q) := by
      calc ((e : ℚ) + 1) * ε ≤ 2 ^ 59 * ε := mul_le_mul_of_nonneg_right he h0
        _ ≤ 2 ^ 59 * (ε * Q) := mul_le_mul_of_nonneg_left hε1 (by positivity)
    have h2 : (2 : ℚ) ^ 59 * (ε * Q) ≤ 2 ^ 59 * (1 / 2 ^ 64) := mul_le_mul_of_nonneg_left hεQ (by positivity)
    have h3 : (2 : ℚ) ^ 59 * (1 / 2 ^ 64) = 1 / 32 := by norm_num
    linarith
  -- W (1 - (e+1)ε) < N + 1 ≤ P, so W ≤ 2 P
  have hWlo : W * (1 - ((e : ℚ) + 1) * ε) ≤ W * (1 - ε) ^ (e + 1) := mul_le_mul_of_nonneg_left hb hW0
  have hW2 : W ≤ 2 * P := by nlinarith
  -- W - N < W (e+1) ε + 1
  have hdiff : W - N ≤ W * (((e : ℚ) + 1) * ε) + 1 := by nlinarith
  -- W (e+1) ε ≤ 2 P · 2^59 · ε ≤ 2^61 · (ε Q) · P / Q ≤ P / (16 Q)
  have hP0 : 0 ≤ P := by linarith
  have t1 : W * (((e : ℚ) + 1) * ε) ≤ 2 * P * (2 ^ 59 * ε) := by
    have : ((e : ℚ) + 1) * ε ≤ 2 ^ 59 * ε := mul_le_mul_of_nonneg_right he h0
    exact mul_le_mul hW2 this (mul_nonneg (by linarith) h0) (by linarith)
  have t2 : 2 * P * (2 ^ 59 * ε) ≤ P / (16 * Q) := by
    rw [le_div_iff₀ (by linarith : (0 : ℚ) < 16 * Q)]
    have : 2 * P * (2 ^ 59 * ε) * (16 * Q) = P * (2 ^ 64 * (ε * Q)) := by ring
    rw [this]
    have : (2 : ℚ) ^ 64 * (ε * Q) ≤ 1 := by
      have := mul_le_mul_of_nonneg_left hεQ (show (0 : ℚ) ≤ 2 ^ 64 by positivity)
      have h3 : (2 : ℚ) ^ 64 * (1 / 2 ^ 64) = 1 := by norm_num
      linarith
    nlinarith
  have t3 : (1 : ℚ) ≤ P / (8 * Q) := by
    rw [le_div_iff₀ (by linarith : (0 : ℚ) < 8 * Q)]; linarith
  have e1 : P / (4 * Q) = P / (16 * Q) + P / (8 * Q) + P / (16 * Q) := by
    field_simp; ring
  have hnn : 0 ≤ P / (16 * Q) := by positivity
  rw [e1]; linarith

/-- arithmetic core, division branch: N (1-ε)^e ≤ V, V (1-ε) - 1 < N  ⟹  |N - V| ≤ P / (4 Q) -/
theorem core_div (V N ε P Q : ℚ) (e : ℕ) (h0 : 0 ≤ ε) (h1 : ε ≤ 1)
    (hhi : N * (1 - ε) ^ e ≤ V) (hlo : V * (1 - ε) - 1 < N) (hNP : N + 1 ≤ P) (hQ1 : 1 ≤ Q)
    (hεQ : ε * Q ≤ 1 / 2 ^ 64) (hPQ : 8 * Q ≤ P) (he : (e : ℚ) + 1 ≤ 2 ^ 59) (hN0 : 0 ≤ N) (hV0 : 0 ≤ V) :
    |N - V| ≤ P / (4 * Q) := by
  have hQpos : 0 < Q := by linarith
  have hb := one_sub_pow_ge h0 h1 e
  have hε1 : ε ≤ ε * Q := by nlinarith
  have hεs : ε ≤ 1 / 2 ^ 64 := le_trans hε1 hεQ
  have hP0 : 0 ≤ P := by linarith
  have hQP : 0 ≤ P / Q := by positivity
  -- ε P ≤ 2^-64 P / Q
  have hεP : ε * P ≤ 1 / 2 ^ 64 * (P / Q) := by
    have : ε * P = (ε * Q) * (P / Q) := by field_simp
    rw [this]; exact mul_le_mul_of_nonneg_right hεQ hQP
  have h8 : 8 ≤ P / Q := by rw [le_div_iff₀ hQpos]; linarith
  have e4 : P / (4 * Q) = (P / Q) / 4 := by field_simp
  rw [e4, abs_le]
  constructor
  · -- V - N < V ε + 1, V ≤ 2 P
    have hV2 : V ≤ 2 * P := by
      have : (1 : ℚ) / 2 ^ 64 ≤ 1 / 2 := by norm_num
      nlinarith
    have : V - N ≤ V * ε + 1 := by nlinarith
    have t : V * ε ≤ 2 * (ε * P) := by nlinarith
    have c : (2 : ℚ) * (1 / 2 ^ 64 * (P / Q)) ≤ (P / Q) / 8 := by
      have : (2 : ℚ) * (1 / 2 ^ 64) ≤ 1 / 8 := by norm_num
      nlinarith
    linarith
  · -- N - V ≤ N e ε ≤ P e ε
    have : N * (1 - (e : ℚ) * ε) ≤ V := le_trans (mul_le_mul_of_nonneg_left hb hN0) hhi
    have hNP' : N ≤ P := by linarith
    have heq : (e : ℚ) ≤ 2 ^ 59 := by linarith
    have t : N * ((e : ℚ) * ε) ≤ 2 ^ 59 * (ε * P) := by
      have : N * ((e : ℚ) * ε) ≤ P * (2 ^ 59 * ε) :=
        mul_le_mul hNP' (mul_le_mul_of_nonneg_right heq h0) (mul_nonneg (Nat.cast_nonneg e) h0) hP0
      linarith
    have c : (2 : ℚ) ^ 59 * (1 / 2 ^ 64 * (P / Q)) ≤ (P / Q) / 8 := by
      have : (2 : ℚ) ^ 59 * (1 / 2 ^ 64) = 1 / 32 := by norm_num
      nlinarith
    have : (2 : ℚ) ^ 59 * (ε * P) ≤ 2 ^ 59 * (1 / 2 ^ 64 * (P / Q)) :=
      mul_le_mul_of_nonneg_left hεP (by positivity)
    nlinarith

/-- the exponent delivered is the one of the developed digits, or one more after a carry out of the first digit -/
theorem finish_exp (b nd : ℕ) (ds : List ℕ) (x : ℤ) : (finish b nd ds x).2 = x ∨ (finish b nd ds x).2 = x + 1 := by
  unfold finish
  simp only
  split
  · unfold roundUp
    split
    · right; rfl
    · left; rfl
  · left; rfl

/-- value of the digits of an integer: N · b^(x - L) -/
theorem digVal_digitsOf (b : ℕ) (hb : 2 ≤ b) (N : ℕ) (x : ℤ) :
    digVal b (digitsOf b N) x = (N : ℚ) * (b : ℚ) ^ (x - ((digitsOf b N).length : ℤ)) := by
  unfold digVal; rw [ofDigits_digitsOf hb]

/-- glue: developed integer N with L0 > nd digits, scaled by b^s, within P/(4Q) of the scaled magnitude -/
theorem within_unit_glue (b : ℕ) (hb : 2 ≤ b) (nd N : ℕ) (s : ℤ) (U : ℚ)
    (hL : nd < (digitsOf b N).length)
    (hclose : |(N : ℚ) - U * (b : ℚ) ^ s| ≤ (b : ℚ) ^ (digitsOf b N).length / (4 * (b : ℚ) ^ nd)) :
    |digVal b (finish b nd (digitsOf b N) (((digitsOf b N).length : ℤ) - s)).1
        (finish b nd (digitsOf b N) (((digitsOf b N).length : ℤ) - s)).2 - U| ≤
      (b : ℚ) ^ (((digitsOf b N).length : ℤ) - s - (nd : ℤ)) := by
  have hbq : (0 : ℚ) < (b : ℚ) := by exact_mod_cast (show 0 < b by omega)
  have hbne : (b : ℚ) ≠ 0 := hbq.ne'
  set ds := digitsOf b N with hds
  set L0 := ds.length with hL0
  have hdlt : ∀ d ∈ ds, d < b := digitsOf_lt hb N
  have hr := finish_round b hb nd ds ((L0 : ℤ) - s) hdlt hL
  have hv : digVal b ds ((L0 : ℤ) - s) = (N : ℚ) * (b : ℚ) ^ (-s) := by
    rw [hds, digVal_digitsOf b hb N]
    congr 2
    rw [← hds, ← hL0]; ring
  rw [hv] at hr
  set unit : ℚ := (b : ℚ) ^ ((L0 : ℤ) - s - (nd : ℤ)) with hunit
  have hunit_pos : 0 < unit := zpow_pos hbq _
  -- conversion error, scaled back
  have hbs : (0 : ℚ) < (b : ℚ) ^ (-s) := zpow_pos hbq _
  have hconv : |(N : ℚ) * (b : ℚ) ^ (-s) - U| ≤ 1 / 4 * unit := by
    have e1 : (N : ℚ) * (b : ℚ) ^ (-s) - U = ((N : ℚ) - U * (b : ℚ) ^ s) * (b : ℚ) ^ (-s) := by
      rw [sub_mul, mul_assoc, ← zpow_add₀ hbne]; simp
    rw [e1, abs_mul, abs_of_pos hbs]
    have e2 : (b : ℚ) ^ L0 / (4 * (b : ℚ) ^ nd) * (b : ℚ) ^ (-s) = 1 / 4 * unit := by
      rw [hunit]
      have : (L0 : ℤ) - s - (nd : ℤ) = (L0 : ℤ) + (-s) + (-(nd : ℤ)) := by ring
      rw [this, zpow_add₀ hbne, zpow_add₀ hbne, zpow_neg _ (nd : ℤ), zpow_natCast, zpow_natCast]
      have hbn : (b : ℚ) ^ nd ≠ 0 := pow_ne_zero _ hbne
      field_simp
    rw [← e2]
    exact mul_le_mul_of_nonneg_right hclose hbs.le
  calc |digVal b (finish b nd ds ((L0 : ℤ) - s)).1 (finish b nd ds ((L0 : ℤ) - s)).2 - U|
      = |(digVal b (finish b nd ds ((L0 : ℤ) - s)).1 (finish b nd ds ((L0 : ℤ) - s)).2 - (N : ℚ) * (b : ℚ) ^ (-s)) +
          ((N : ℚ) * (b : ℚ) ^ (-s) - U)| := by congr 1; ring
    _ ≤ |digVal b (finish b nd ds ((L0 : ℤ) - s)).1 (finish b nd ds ((L0 : ℤ) - s)).2 - (N : ℚ) * (b : ℚ) ^ (-s)| +
          |(N : ℚ) * (b : ℚ) ^ (-s) - U| := abs_add_le _ _
    _ ≤ 3 / 4 * unit + 1 / 4 * unit := add_le_add hr hconv
    _ = unit := by ring

theorem nLimbsNeeded_pos (base nd : ℕ) : 3 ≤ nLimbsNeeded base nd := by unfold nLimbsNeeded; omega

/-- the side conditions shared by both branches, in ℚ -/
theorem adequacy_q (b nd nln L0 N : ℕ) (hb : 2 ≤ b)
    (H1 : b ^ nd * 2 ^ 64 ≤ B ^ (nln - 1)) (H2 : nd + 3 ≤ L0) (hN : N < b ^ L0) :
    (N : ℚ) + 1 ≤ (b : ℚ) ^ L0 ∧ (1 : ℚ) ≤ (b : ℚ) ^ nd ∧ epsP nln * (b : ℚ) ^ nd ≤ 1 / 2 ^ 64 ∧
    8 * (b : ℚ) ^ nd ≤ (b : ℚ) ^ L0 := by
  have hbq : (1 : ℚ) ≤ (b : ℚ) := by exact_mod_cast (show 1 ≤ b by omega)
  refine ⟨?_, one_le_pow₀ hbq, ?_, ?_⟩
  · have : N + 1 ≤ b ^ L0 := hN
    exact_mod_cast this
  · unfold epsP
    have hBq : (0 : ℚ) < (B : ℚ) ^ (nln - 1) := pow_pos Bq_pos _
    rw [div_mul_eq_mul_div, one_mul, div_le_div_iff₀ hBq (by positivity)]
    have : ((b ^ nd * 2 ^ 64 : ℕ) : ℚ) ≤ ((B ^ (nln - 1) : ℕ) : ℚ) := by exact_mod_cast H1
    push_cast at this
    linarith
  · have h8 : 8 ≤ b ^ (L0 - nd) := by
      calc 8 = 2 ^ 3 := by norm_num
        _ ≤ b ^ 3 := Nat.pow_le_pow_left hb 3
        _ ≤ b ^ (L0 - nd) := Nat.pow_le_pow_right (by omega) (by omega)
    have : 8 * b ^ nd ≤ b ^ L0 := by
      have e : b ^ L0 = b ^ (L0 - nd) * b ^ nd := by rw [← pow_add]; congr 1; omega
      rw [e]; exact Nat.mul_le_mul_right _ h8
    exact_mod_cast this

/-- **Accuracy of mpf_get_str's algorithm** under explicit adequacy conditions.  With nd the digit count worked to,
    nln = n_limbs_needed, N the developed integer with L0 digits and scaling exponent s (|s| = e):
      (H1) base^nd · 2^64 ≤ B^(nln-1)      — nln leaves two guard limbs beyond the nd digits (3 + limbs(nd))
      (H2) nd + 3 ≤ L0                      — at least three more digits are developed than are delivered
      (H3) e + 1 ≤ 2^59
      (H4) in the division branch the power's ignored limbs do not exceed n_less_limbs_needed
    the digits delivered denote a value within ONE UNIT of the nd-th digit of |u|. -/
theorem get_digits_within_unit (base nd0 : ℕ) (u : F) (hb : 2 ≤ base)
    (hl : Limbs u.d) (hne : u.d ≠ []) (ht : u.d.getLast? ≠ some 0)
    (H1 : base ^ effDigits base u.prec nd0 * 2 ^ 64 ≤ B ^ (nLimbsNeeded base (effDigits base u.prec nd0) - 1))
    (H2 : effDigits base u.prec nd0 + 3 ≤
      (digitsOf base (scaledInt base (nLimbsNeeded base (effDigits base u.prec nd0)) u).1).length)
    (H3 : (scaledInt base (nLimbsNeeded base (effDigits base u.prec nd0)) u).2.natAbs + 1 ≤ 2 ^ 59)
    (H4 : ¬ u.exp ≤ (nLimbsNeeded base (effDigits base u.prec nd0) : ℤ) →
      (powHigh0 base (mulTrunc (64 * (u.exp - (nLimbsNeeded base (effDigits base u.prec nd0) : ℤ)).toNat) (cpbeBits base))
        (nLimbsNeeded base (effDigits base u.prec nd0))).2 ≤ (u.exp - (nLimbsNeeded base (effDigits base u.prec nd0) : ℤ)).toNat) :
    |digVal base (get_digits base nd0 u).1 (get_digits base nd0 u).2 - qv u.d u.exp| ≤
      (base : ℚ) ^ ((get_digits base nd0 u).2 - (effDigits base u.prec nd0 : ℤ)) := by
  have hbq : (1 : ℚ) ≤ (base : ℚ) := by exact_mod_cast (show 1 ≤ base by omega)
  have hlen0 : u.d.length ≠ 0 := fun h => hne (List.eq_nil_of_length_eq_zero h)
  unfold get_digits
  simp only
  rw [if_neg hlen0]
  generalize effDigits base u.prec nd0 = nd at *
  have hn : 1 ≤ nLimbsNeeded base nd := by have := nLimbsNeeded_pos base nd; omega
  generalize nLimbsNeeded base nd = nln at *
  have h0 := epsP_nonneg nln
  have h1 := epsP_le_one nln
  have hU0 : 0 ≤ qv u.d u.exp := qv_nonneg _ _
  -- the bounds on the developed integer, by branch
  have key : ∃ s : ℤ, (scaledInt base nln u).2 = s ∧
      |((scaledInt base nln u).1 : ℚ) - qv u.d u.exp * (base : ℚ) ^ s| ≤
        (base : ℚ) ^ (digitsOf base (scaledInt base nln u).1).length / (4 * (base : ℚ) ^ nd) := by
    have hNlt : (scaledInt base nln u).1 < base ^ (digitsOf base (scaledInt base nln u).1).length := by
      have := ofDigits_lt (show 0 < base by omega) _ (digitsOf_lt hb (scaledInt base nln u).1)
      rwa [ofDigits_digitsOf hb] at this
    obtain ⟨a1, a2, a3, a4⟩ := adequacy_q base nd nln _ _ hb H1 H2 hNlt
    by_cases hexp : u.exp ≤ (nln : ℤ)
    · obtain ⟨e, hs, hNW, hlo⟩ := scaledInt_mul_bound base nln u (by omega) hn hl hne ht hexp
      refine ⟨(e : ℤ), hs, ?_⟩
      rw [hs, Int.natAbs_natCast] at H3
      have he : (e : ℚ) + 1 ≤ 2 ^ 59 := by exact_mod_cast H3
      rw [zpow_natCast, abs_sub_comm, abs_of_nonneg (by linarith)]
      exact core_mul _ _ _ _ _ e h0 h1 hNW hlo a1 a2 a3 a4 he (Nat.cast_nonneg _)
    · obtain ⟨e, hs, hhi, hlo⟩ := scaledInt_div_bound base nln u (by omega) hn hl hne ht hexp (H4 hexp)
      refine ⟨-(e : ℤ), hs, ?_⟩
      rw [hs, Int.natAbs_neg, Int.natAbs_natCast] at H3
      have he : (e : ℚ) + 1 ≤ 2 ^ 59 := by exact_mod_cast H3
      have hbe : (0 : ℚ) < (base : ℚ) ^ e := pow_pos (by linarith) _
      have hV : qv u.d u.exp * (base : ℚ) ^ (-(e : ℤ)) = qv u.d u.exp / (base : ℚ) ^ e := by
        rw [zpow_neg, zpow_natCast]; ring
      rw [hV]
      exact core_div _ _ _ _ _ e h0 h1 hhi hlo a1 a2 a3 a4 he (Nat.cast_nonneg _) (div_nonneg hU0 hbe.le)
  obtain ⟨s, hs, hclose⟩ := key
  generalize scaledInt base nln u = sc at *
  rw [hs]
  have hL : nd < (digitsOf base sc.1).length := by omega
  have g := within_unit_glue base hb nd sc.1 s (qv u.d u.exp) hL hclose
  refine le_trans g ?_
  -- the unit at the delivered exponent is not smaller
  apply zpow_le_zpow_right₀ hbq
  rcases finish_exp base nd (digitsOf base sc.1) (((digitsOf base sc.1).length : ℤ) - s) with h | h <;> rw [h] <;> omega

end Mpir.MpfStr
