/- mpf_get_str: how close the integer whose digits are developed (MpfStr.scaledInt) is to |u| · base^(±e). -/
import MpirProofs.Lemmas.MpfStrDiv
import MpirProofs.Lemmas.MpfStrGet
namespace Mpir.MpfStr
open Mpir Mpir.Mpf Mpir.Radix

/-- the `P` most significant limbs, shifted back into place, approximate the whole within one factor -/
theorem top_appr (P : ℕ) (hP : 1 ≤ P) (d : List ℕ) (hl : Limbs d) (hne : d ≠ []) (ht : d.getLast? ≠ some 0) :
    Appr (epsP P) ((val (top P d) : ℚ) * (B : ℚ) ^ (d.length - (top P d).length)) (val d : ℚ) 1 ∧
    val (top P d) ≠ 0 ∧ (top P d).length ≤ P ∧ (top P d).length ≤ d.length := by
  obtain ⟨t1, t2, t3, t4, t5, t6, t7⟩ := top_facts P (by omega) d hl hne ht
  have hpos := val_pos_of_top t2 t3
  have h0 := epsP_nonneg P
  have h1 := epsP_le_one P
  refine ⟨?_, by omega, by rw [t4]; omega, by rw [t4]; omega⟩
  rw [t4]
  rcases le_or_gt d.length P with h | h
  · have e1 : d.length - min P d.length = 0 := by omega
    have e2 : top P d = d := top_of_le h
    rw [e1, e2, pow_zero, mul_one]
    exact Appr.mono h0 h1 (Nat.cast_nonneg _) (Appr.refl h0 h1 _) (Nat.zero_le 1)
  · have e1 : d.length - min P d.length = d.length - P := by omega
    rw [e1]
    have hge : B ^ (P - 1) ≤ val (top P d) := by
      rcases t7 with h' | h'
      · have : 1 < B ^ (d.length - P) := Nat.one_lt_pow (by omega) one_lt_B
        omega
      · exact h'
    have hBd : (0 : ℚ) < (B : ℚ) ^ (d.length - P) := pow_pos Bq_pos _
    apply appr_floor P (val (top P d)) ((B : ℚ) ^ (d.length - P)) (val d : ℚ) hBd hge
    · have : val (top P d) * B ^ (d.length - P) ≤ val d := by rw [t5]; nlinarith
      exact_mod_cast this
    · have : val d < (val (top P d) + 1) * B ^ (d.length - P) := by rw [t5]; nlinarith
      exact_mod_cast this

/-- mpn_pow_1_highpart of get_str.c (e = 0 allowed) -/
theorem powHigh0_appr (base P e : ℕ) (hb : 1 ≤ base) (hP : 1 ≤ P) :
    (powHigh0 base e P).1 ≠ 0 ∧
    Appr (epsP P) (((powHigh0 base e P).1 : ℚ) * (B : ℚ) ^ (powHigh0 base e P).2) ((base : ℚ) ^ e) e := by
  unfold powHigh0
  by_cases he : e = 0
  · subst he
    simp only [if_true, pow_zero, Nat.cast_one, mul_one]
    exact ⟨by norm_num, Appr.refl (epsP_nonneg P) (epsP_le_one P) 1⟩
  · rw [if_neg he]
    obtain ⟨a, _, c⟩ := powHigh_appr base P e hb hP (by omega)
    exact ⟨a, c⟩

/-- **multiplication branch** (EXP ≤ n_limbs_needed): N = ⌊ top limbs · power / B^off ⌋ lies below |u|·base^e and
    above |u|·base^e·(1 − B^(1-nln))^(e+1) − 1 -/
theorem scaledInt_mul_bound (base nln : ℕ) (u : F) (hb : 1 ≤ base) (hn : 1 ≤ nln)
    (hl : Limbs u.d) (hne : u.d ≠ []) (ht : u.d.getLast? ≠ some 0) (hexp : u.exp ≤ (nln : ℤ)) :
    ∃ e : ℕ, (scaledInt base nln u).2 = (e : ℤ) ∧
      ((scaledInt base nln u).1 : ℚ) ≤ qv u.d u.exp * (base : ℚ) ^ e ∧
      qv u.d u.exp * (base : ℚ) ^ e * (1 - epsP nln) ^ (e + 1) - 1 < ((scaledInt base nln u).1 : ℚ) := by
  have h0 := epsP_nonneg nln
  have h1 := epsP_le_one nln
  obtain ⟨au, _, hun, hul⟩ := top_appr nln hn u.d hl hne ht
  unfold scaledInt
  simp only
  rw [if_pos hexp]
  -- make the computed pieces opaque (tactics must not try to evaluate them)
  generalize top nln u.d = up at *
  generalize mulTrunc (64 * ((nln : ℤ) - u.exp).toNat) (cpbeBits base) = e at *
  obtain ⟨_, ap⟩ := powHigh0_appr base nln e hb hn
  generalize powHigh0 base e nln = pw at *
  refine ⟨e, rfl, ?_⟩
  -- T = val up · pw.1 · B^(exp + ign - un), within e+1 factors below |u| b^e
  set z : ℤ := u.exp - (u.d.length : ℤ) with hz
  have hzpos : (0 : ℚ) < (B : ℚ) ^ z := zpow_pos Bq_pos _
  have hbe : (0 : ℚ) ≤ (base : ℚ) ^ e := by positivity
  have a1 := Appr.mul h0 h1 (Nat.cast_nonneg (val u.d)) hbe au ap
  have a2 := Appr.mul_const h0 h1 a1 hzpos.le
  have hV : (val u.d : ℚ) * (base : ℚ) ^ e * (B : ℚ) ^ z = qv u.d u.exp * (base : ℚ) ^ e := by
    unfold qv; ring
  rw [hV] at a2
  have h1e : 1 + e = e + 1 := by omega
  rw [h1e] at a2
  set T : ℚ := (val up : ℚ) * (B : ℚ) ^ (u.d.length - up.length) * ((pw.1 : ℚ) * (B : ℚ) ^ pw.2) * (B : ℚ) ^ z with hT
  -- T = t · B^(-off)
  have hTt : T = ((val up * pw.1 : ℕ) : ℚ) * (B : ℚ) ^ (-((up.length : ℤ) - u.exp - (pw.2 : ℤ))) := by
    rw [hT, hz]
    have : -((up.length : ℤ) - u.exp - (pw.2 : ℤ)) =
        ((u.d.length - up.length : ℕ) : ℤ) + (pw.2 : ℤ) + (u.exp - (u.d.length : ℤ)) := by
      push_cast [Nat.cast_sub hul]; ring
    rw [this, zpow_add₀ Bq_ne, zpow_add₀ Bq_ne, zpow_natCast, zpow_natCast]; push_cast; ring
  by_cases hoff : (up.length : ℤ) - u.exp - (pw.2 : ℤ) < 0
  · rw [if_pos hoff]
    have hN : ((val up * pw.1 * B ^ (-((up.length : ℤ) - u.exp - (pw.2 : ℤ))).toNat : ℕ) : ℚ) = T := by
      rw [hTt]
      have : -((up.length : ℤ) - u.exp - (pw.2 : ℤ)) = ((-((up.length : ℤ) - u.exp - (pw.2 : ℤ))).toNat : ℤ) := by
        rw [Int.toNat_of_nonneg]; omega
      rw [this, zpow_natCast]; push_cast
      rw [Int.toNat_of_nonneg (by omega)]
    rw [hN]
    exact ⟨a2.2, by linarith [a2.1]⟩
  · rw [if_neg hoff]
    obtain ⟨k, hk⟩ := Int.eq_ofNat_of_zero_le (show 0 ≤ (up.length : ℤ) - u.exp - (pw.2 : ℤ) by omega)
    rw [hk, Int.toNat_natCast]
    have hBk : (0 : ℚ) < (B : ℚ) ^ k := pow_pos Bq_pos _
    have hTk : T = ((val up * pw.1 : ℕ) : ℚ) / (B : ℚ) ^ k := by
      rw [hTt, hk, zpow_neg, zpow_natCast]; ring
    have hBkn := Bpow_pos k
    have f1 : ((val up * pw.1 / B ^ k : ℕ) : ℚ) ≤ T := by
      rw [hTk, le_div_iff₀ hBk]
      have := Nat.div_mul_le_self (val up * pw.1) (B ^ k)
      exact_mod_cast this
    have f2 : T < ((val up * pw.1 / B ^ k : ℕ) : ℚ) + 1 := by
      rw [hTk, div_lt_iff₀ hBk]
      have h3 := Nat.div_add_mod (val up * pw.1) (B ^ k)
      have h4 := Nat.mod_lt (val up * pw.1) hBkn
      have : val up * pw.1 < (val up * pw.1 / B ^ k + 1) * B ^ k := by nlinarith
      exact_mod_cast this
    exact ⟨le_trans f1 a2.2, by linarith [a2.1]⟩

/-- **division branch** (EXP > n_limbs_needed): N = ⌊ top limbs · B^(xn-un) / power ⌋ satisfies
    N·(1 − B^(1-nln))^e ≤ |u|/base^e  and  |u|/base^e·(1 − B^(1-nln)) − 1 < N,
    provided the ignored limb count of the power does not exceed n_less_limbs_needed (get_str.c:238 subtracts them) -/
theorem scaledInt_div_bound (base nln : ℕ) (u : F) (hb : 1 ≤ base) (hn : 1 ≤ nln)
    (hl : Limbs u.d) (hne : u.d ≠ []) (ht : u.d.getLast? ≠ some 0) (hexp : ¬ u.exp ≤ (nln : ℤ))
    (hign : (powHigh0 base (mulTrunc (64 * (u.exp - (nln : ℤ)).toNat) (cpbeBits base)) nln).2 ≤ (u.exp - (nln : ℤ)).toNat) :
    ∃ e : ℕ, (scaledInt base nln u).2 = -(e : ℤ) ∧
      ((scaledInt base nln u).1 : ℚ) * (1 - epsP nln) ^ e ≤ qv u.d u.exp / (base : ℚ) ^ e ∧
      qv u.d u.exp / (base : ℚ) ^ e * (1 - epsP nln) - 1 < ((scaledInt base nln u).1 : ℚ) := by
  have h0 := epsP_nonneg nln
  have h1 := epsP_le_one nln
  obtain ⟨au, _, hun, hul⟩ := top_appr nln hn u.d hl hne ht
  unfold scaledInt
  simp only
  rw [if_neg hexp]
  generalize top nln u.d = up at *
  generalize mulTrunc (64 * (u.exp - (nln : ℤ)).toNat) (cpbeBits base) = e at *
  obtain ⟨hp1, ap⟩ := powHigh0_appr base nln e hb hn
  generalize powHigh0 base e nln = pw at *
  obtain ⟨less, hless⟩ : ∃ less : ℕ, (u.exp - (nln : ℤ)).toNat = less := ⟨_, rfl⟩
  rw [hless] at hign ⊢
  have hexpv : u.exp = (nln : ℤ) + (less : ℤ) := by
    have := Int.toNat_of_nonneg (show 0 ≤ u.exp - (nln : ℤ) by omega)
    rw [hless] at this; omega
  refine ⟨e, rfl, ?_⟩
  have hε : 0 ≤ 1 - epsP nln := by linarith
  have hpwq : (0 : ℚ) < (pw.1 : ℚ) := by exact_mod_cast Nat.pos_of_ne_zero hp1
  have hbe : (0 : ℚ) < (base : ℚ) ^ e := pow_pos (by exact_mod_cast hb) _
  set U' : ℚ := (val up : ℚ) * (B : ℚ) ^ (u.d.length - up.length) with hU'
  set D' : ℚ := (pw.1 : ℚ) * (B : ℚ) ^ pw.2 with hD'
  have hDpos : 0 < D' := mul_pos hpwq (pow_pos Bq_pos _)
  set z : ℤ := u.exp - (u.d.length : ℤ) with hz
  have hzpos : (0 : ℚ) < (B : ℚ) ^ z := zpow_pos Bq_pos _
  -- X = x / pw.1 = U' B^z / D'
  set X : ℚ := ((val up * B ^ (nln + (less - pw.2) - up.length) : ℕ) : ℚ) / (pw.1 : ℚ) with hX
  have hXe : X = U' * (B : ℚ) ^ z / D' := by
    rw [hX, hU', hD', hz, hexpv]
    have hsub : ((nln + (less - pw.2) - up.length : ℕ) : ℤ) =
        (nln : ℤ) + (less : ℤ) - (pw.2 : ℤ) - (up.length : ℤ) := by omega
    have : (B : ℚ) ^ ((nln : ℤ) + (less : ℤ) - (u.d.length : ℤ)) =
        (B : ℚ) ^ (nln + (less - pw.2) - up.length) * (B : ℚ) ^ pw.2 / (B : ℚ) ^ (u.d.length - up.length) := by
      rw [← zpow_natCast, ← zpow_natCast (B : ℚ) pw.2, ← zpow_natCast (B : ℚ) (u.d.length - up.length),
        ← zpow_add₀ Bq_ne, ← zpow_sub₀ Bq_ne]
      congr 1
      rw [hsub]; push_cast [Nat.cast_sub hul]; ring
    rw [this]
    have hB1 : (B : ℚ) ^ pw.2 ≠ 0 := pow_ne_zero _ Bq_ne
    have hB2 : (B : ℚ) ^ (u.d.length - up.length) ≠ 0 := pow_ne_zero _ Bq_ne
    push_cast
    field_simp
  have hUq : U' * (B : ℚ) ^ z ≤ qv u.d u.exp := by
    unfold qv; rw [← hz]; exact mul_le_mul_of_nonneg_right au.2 hzpos.le
  have hUq' : qv u.d u.exp * (1 - epsP nln) ≤ U' * (B : ℚ) ^ z := by
    unfold qv; rw [← hz]
    have := mul_le_mul_of_nonneg_right au.1 hzpos.le
    rw [pow_one] at this
    calc (val u.d : ℚ) * (B : ℚ) ^ z * (1 - epsP nln) = (val u.d : ℚ) * (1 - epsP nln) * (B : ℚ) ^ z := by ring
      _ ≤ U' * (B : ℚ) ^ z := this
  have hqv0 : 0 ≤ qv u.d u.exp := qv_nonneg _ _
  -- floor
  clear_value X
  generalize val up * B ^ (nln + (less - pw.2) - up.length) = xx at *
  have hXv : X = (xx : ℚ) / (pw.1 : ℚ) := hX
  have f1 : ((xx / pw.1 : ℕ) : ℚ) ≤ X := by
    rw [hXv, le_div_iff₀ hpwq]
    have := Nat.div_mul_le_self xx pw.1
    exact_mod_cast this
  have f2 : X < ((xx / pw.1 : ℕ) : ℚ) + 1 := by
    rw [hXv, div_lt_iff₀ hpwq]
    have : xx < (xx / pw.1 + 1) * pw.1 := by
      rw [Nat.mul_comm]; exact Nat.lt_mul_div_succ xx (Nat.pos_of_ne_zero hp1)
    exact_mod_cast this
  generalize ((xx / pw.1 : ℕ) : ℚ) = Nq at *
  have s0 : (0 : ℚ) ≤ (1 - epsP nln) ^ e := pow_nonneg hε e
  constructor
  · -- N (1-ε)^e ≤ X (1-ε)^e ≤ U (1-ε)^e / D' ≤ U / b^e
    have s1 : Nq * (1 - epsP nln) ^ e ≤ X * (1 - epsP nln) ^ e := mul_le_mul_of_nonneg_right f1 s0
    refine le_trans s1 ?_
    rw [hXe, div_mul_eq_mul_div, div_le_div_iff₀ hDpos hbe]
    have s3 : (base : ℚ) ^ e * (1 - epsP nln) ^ e ≤ D' := ap.1
    calc U' * (B : ℚ) ^ z * (1 - epsP nln) ^ e * (base : ℚ) ^ e
        = U' * (B : ℚ) ^ z * ((base : ℚ) ^ e * (1 - epsP nln) ^ e) := by ring
      _ ≤ qv u.d u.exp * D' := mul_le_mul hUq s3 (mul_nonneg hbe.le s0) hqv0
  · -- U (1-ε) / b^e ≤ U' B^z / D' = X < N + 1
    have s2 : qv u.d u.exp * (1 - epsP nln) / (base : ℚ) ^ e ≤ U' * (B : ℚ) ^ z / D' := by
      have hnn : 0 ≤ U' * (B : ℚ) ^ z := le_trans (mul_nonneg hqv0 hε) hUq'
      calc qv u.d u.exp * (1 - epsP nln) / (base : ℚ) ^ e ≤ U' * (B : ℚ) ^ z / (base : ℚ) ^ e :=
            div_le_div_of_nonneg_right hUq' hbe.le
        _ ≤ U' * (B : ℚ) ^ z / D' := div_le_div_of_nonneg_left hnn hDpos ap.2
    rw [← hXe] at s2
    have : qv u.d u.exp / (base : ℚ) ^ e * (1 - epsP nln) = qv u.d u.exp * (1 - epsP nln) / (base : ℚ) ^ e := by ring
    rw [this]; linarith

end Mpir.MpfStr
