/- Helper lemmas for the model of mpn_divrem (divrem.c), given the specification of mpn_tdiv_qr for dn ≥ 3. -/
import MpirProofs.Lemmas.TdivQrSmall
namespace Mpir.TdivQr
open Mpir Mpir.DivWord Mpir.SbDiv

/-- two limb vectors of the same length with the same value are equal -/
theorem limbs_ext (a b : List Nat) (ha : Limbs a) (hb : Limbs b) (hl : a.length = b.length) (hv : val a = val b) :
    a = b := by
  rw [← toLimbs_of_val a ha, ← toLimbs_of_val b hb, hl, hv]

/-- the low k limbs and the top limb of a vector of k+1 limbs, in terms of its value
    (`MPN_COPY (qp, q2p, qn); qhl = q2p[qn]`, divrem.c:56-57, :85-86, :95-96) -/
theorem split_top_div (q : List Nat) (k : Nat) (hq : Limbs q) (hlen : q.length = k + 1) :
    q.take k = toLimbs k (val q) ∧ q.getD k 0 = val q / B ^ k := by
  have e := val_take_top q k hlen
  have hlt := val_lt (q.take k) (Limbs_take hq k)
  rw [List.length_take, hlen, Nat.min_eq_left (Nat.le_succ k)] at hlt
  have hP := Bpow_pos k
  obtain ⟨t1, t2, t3⟩ := val_toLimbs k (val q)
  constructor
  · apply limbs_ext _ _ (Limbs_take hq k) t3
    · rw [t2, List.length_take, hlen, Nat.min_eq_left (Nat.le_succ k)]
    · rw [t1, ← e, Nat.add_mul_mod_self_left, Nat.mod_eq_of_lt hlt]
  · rw [← e, Nat.add_mul_div_left _ _ hP, Nat.div_eq_of_lt hlt, Nat.zero_add]

theorem val_zero_pad (k : Nat) (n : List Nat) : val (List.replicate k 0 ++ n) = val n * B ^ k := by
  rw [val_append, val_replicate_zero, List.length_replicate, Nat.zero_add, Nat.mul_comm]

/-- mpn_divrem returns the contract `DivZ.mpnDivrem`, provided mpn_tdiv_qr meets its specification for this divisor -/
theorem divrem_spec (T : Thresholds) (qxn : Nat) (n d : List Nat) (hn : Limbs n) (hd : Limbs d) (hdn : 1 ≤ d.length)
    (hnn : d.length ≤ n.length) (hnorm : B / 2 ≤ d.getD (d.length - 1) 0)
    (hbig : 3 ≤ d.length → ∀ n2 : List Nat, Limbs n2 → d.length ≤ n2.length →
      ∃ res, tdiv_qr T n2 d = some res ∧ Spec n2 d res) :
    divrem T qxn n d =
      (toLimbs (n.length - d.length + qxn) (val n * B ^ qxn / val d), toLimbs d.length (val n * B ^ qxn % val d),
       val n * B ^ qxn / val d / B ^ (n.length - d.length + qxn), true) := by
  unfold divrem
  simp only []
  by_cases h1 : d.length = 1
  · -- divrem.c:44-61
    rw [if_pos h1]
    rw [h1] at hnorm
    have hdB : d.getD 0 0 < B := limb_getD hd 0
    have hvd : val d = d.getD 0 0 := by rw [list_len1 d h1]; simp [val_cons]
    have hd0 : 0 < d.getD 0 0 := by
      have : 0 < B / 2 := by decide
      simp only [Nat.sub_self] at hnorm
      omega
    obtain ⟨e, hr, hq, hql⟩ := divrem_1_spec qxn n (d.getD 0 0) hn hd0 hdB
    obtain ⟨hQ, hR⟩ := divmod_of_eq (val n * B ^ qxn) (d.getD 0 0) _ _ e.symm hr
    have hlen : (divrem_1 qxn n (d.getD 0 0)).1.length = (n.length + qxn - 1) + 1 := by rw [hql]; omega
    obtain ⟨s1, s2⟩ := split_top_div _ _ hq hlen
    have e1 : n.length - 1 + qxn = n.length + qxn - 1 := by omega
    have hrB : (divrem_1 qxn n (d.getD 0 0)).2 < B := by omega
    have ht : toLimbs 1 (divrem_1 qxn n (d.getD 0 0)).2 = [(divrem_1 qxn n (d.getD 0 0)).2] := by
      show [(divrem_1 qxn n (d.getD 0 0)).2 % B] = _
      rw [Nat.mod_eq_of_lt hrB]
    rw [s1, s2, hvd, hQ, hR, h1, e1, ht]
  · rw [if_neg h1]
    by_cases h2 : d.length = 2
    · -- divrem.c:62-65
      rw [if_pos h2]
      unfold divrem_2
      simp only [h2]
    · rw [if_neg h2]
      have h3 : 3 ≤ d.length := by omega
      have hn2 : (if qxn ≠ 0 then List.replicate qxn 0 ++ n else n) = List.replicate qxn 0 ++ n := by
        by_cases hq0 : qxn = 0
        · rw [if_neg (by simp [hq0]), hq0]; rfl
        · rw [if_pos hq0]
      rw [hn2]
      have hl2 : Limbs (List.replicate qxn 0 ++ n) := Limbs_append.mpr ⟨Limbs_replicate_zero qxn, hn⟩
      have hlen2 : (List.replicate qxn 0 ++ n).length = n.length + qxn := by
        rw [List.length_append, List.length_replicate]; omega
      obtain ⟨res, hres, s1, s2, s3, s4, s5, s6, s7⟩ := hbig h3 _ hl2 (by rw [hlen2]; omega)
      rw [hres]
      simp only []
      rw [val_zero_pad] at s1 s2
      have hlen : res.1.length = (n.length - d.length + qxn) + 1 := by rw [s4, hlen2]; omega
      obtain ⟨t1, t2⟩ := split_top_div _ _ s3 hlen
      rw [t1, t2, s1, s7, eq_toLimbs res.2.1 d.length _ s5 s6 s2]

/-- the same for the value contract of Mpir/Model/DivZ.lean -/
theorem divrem_mpnDivrem (T : Thresholds) (qxn : Nat) (n d : List Nat) (hn : Limbs n) (hd : Limbs d) (hdn : 1 ≤ d.length)
    (hnn : d.length ≤ n.length) (hnorm : B / 2 ≤ d.getD (d.length - 1) 0)
    (hbig : 3 ≤ d.length → ∀ n2 : List Nat, Limbs n2 → d.length ≤ n2.length →
      ∃ res, tdiv_qr T n2 d = some res ∧ Spec n2 d res) :
    DivZ.mpnDivrem n d qxn = some ((divrem T qxn n d).1, (divrem T qxn n d).2.1, (divrem T qxn n d).2.2.1) ∧
    (divrem T qxn n d).2.2.2 = true := by
  rw [divrem_spec T qxn n d hn hd hdn hnn hnorm hbig]
  refine ⟨?_, rfl⟩
  have hnd : DivZ.normalised d = true := by
    obtain ⟨k, hk⟩ : ∃ k, d.length = k + 1 := ⟨d.length - 1, by omega⟩
    rw [hk, Nat.add_sub_cancel] at hnorm
    have e := List.take_append_drop k d
    have h1 : (d.drop k).length = 1 := by simp [hk]
    have h2 := list_len1 _ h1
    have h3 : (d.drop k).getD 0 0 = d.getD k 0 := by simp [List.getD_eq_getElem?_getD]
    rw [h3] at h2
    unfold DivZ.normalised
    rw [← e, h2]
    simpa using hnorm
  unfold DivZ.mpnDivrem
  rw [if_neg (by simp [hnd]; omega)]

end Mpir.TdivQr
