/- Refinement proofs for the size-aware model of mpz/xor.c (Mpir/Model/AllocSafeMpz2.lean): every sign case refines
   the C10 sign-magnitude model (Mpir/Model/Bits.lean) with `ok = true`. -/
import MpirProofs.Lemmas.AllocSafeLogic
namespace Mpir.AllocSafe
open Mpir
open Mpir.Mpz (sgn Norm natAbs_sgn)

theorem xorCat_len (a b : List Nat) : (Bits.xorCat a b).length = max a.length b.length := by
  unfold Bits.xorCat Bits.xor_n
  split <;> simp <;> omega

/-- xor.c:126-141 / 182-195 -/
theorem xor_cat_wrote {s1 : St} {res : Nat} (hs : s1.ok = true) (hb : BWF (s1.h res).buf) (a b : Src) (A Bl : List Nat)
    (Da : Den s1 a A) (Db : Den s1 b Bl) (hA : Limbs A) (hB : Limbs Bl)
    (hfit : max A.length Bl.length ≤ (s1.h res).buf.alloc) :
    Wrote s1 (xor_cat s1 (s1.PTR res) a b A.length Bl.length).1 res (Bits.xorCat A Bl) ∧
    (xor_cat s1 (s1.PTR res) a b A.length Bl.length).2 = (Bits.xorCat A Bl).length := by
  rw [xorCat_len]
  unfold xor_cat Bits.xorCat Bits.xor_n
  by_cases hgt : A.length > Bl.length
  · simp only [hgt, if_true]
    have W := Wrote.cat hs hb (· ^^^ ·) (fun a b ha hb => xor_lt ha hb) a b a A Bl A Bl.length Da Db Da
      (by omega) (by omega) (by omega) hA hB hA (by omega)
    rw [zipWith_take_full _ _ _ _ (by omega)] at W
    exact ⟨W, by omega⟩
  · simp only [hgt, if_false]
    have W := Wrote.cat hs hb (· ^^^ ·) (fun a b ha hb => xor_lt ha hb) a b b A Bl Bl A.length Da Db Db
      (by omega) (by omega) (by omega) hA hB hB (by omega)
    rw [zipWith_take_full _ _ _ _ (by omega)] at W
    exact ⟨W, by omega⟩

/-- MPN_NORMALIZE; SIZ = ±size on what has been written -/
theorem Wrote.norm_end {s1 s2 : St} {w : Nat} {R : List Nat} (W : Wrote s1 s2 w R) (neg : Bool) :
    Refines s1 ((MPN_NORMALIZE s2 (s1.PTR w) R.length).2.setSize w (sgn neg (MPN_NORMALIZE s2 (s1.PTR w) R.length).1)) w
      ⟨(s1.h w).buf.alloc, sgn neg (Mpir.normalize R).length, Mpir.normalize R⟩ := by
  obtain ⟨e, W1⟩ := W.normalize
  have R1 := (W1.setSize (sgn neg (Mpir.normalize R).length)).refines (sgn neg (Mpir.normalize R).length) (by simp)
    (by rw [natAbs_sgn]; exact Mpz.normalize_length_le R)
  rw [natAbs_sgn, take_normalize_length] at R1
  rw [e]; exact R1

theorem xor_nn_refines (s : St) (res op1 op2 : Nat) (hs : s.ok = true)
    (hw : OWF (s.h res)) (hu : OWF (s.h op1)) (hv : OWF (s.h op2)) :
    Refines s (xor_nn s res op1 op2 (s.h op1).size.natAbs (s.h op2).size.natAbs) res
      (ofZ (Mpz.grow (view (s.h res)) (max (s.h op1).size.natAbs (s.h op2).size.natAbs)).alloc
        (Bits.xorNN (view (s.h op1)).d (view (s.h op2)).d)) := by
  have hA := view_d_length hu
  have hB := view_d_length hv
  have LA := view_limbs hu
  have LB := view_limbs hv
  generalize hAd : (view (s.h op1)).d = A at *
  generalize hBd : (view (s.h op2)).d = Bv at *
  generalize hn1 : (s.h op1).size.natAbs = n1 at *
  generalize hn2 : (s.h op2).size.natAbs = n2 at *
  have Da : Den s (.ptr (s.PTR op1)) A := hAd ▸ Den.of_owf hu
  have Db : Den s (.ptr (s.PTR op2)) Bv := hBd ▸ Den.of_owf hv
  obtain ⟨t1s, _, t1D⟩ := tmp_sub_1_spec s (s.PTR op1) A n1 Da (by omega) LA
  obtain ⟨t2s, _, t2D⟩ := tmp_sub_1_spec (s.chk true) (s.PTR op2) Bv n2 (Db.chk _) (by omega) LB
  rw [List.take_of_length_le (by omega)] at t1D t2D
  have hO1 : (Bits.subLimb A 1).1.length = n1 := by rw [subLimb_len]; exact hA
  have hO2 : (Bits.subLimb Bv 1).1.length = n2 := by rw [subLimb_len]; exact hB
  have LO1 := subLimb_limbs A 1 LA
  have LO2 := subLimb_limbs Bv 1 LB
  unfold xor_nn Bits.xorNN ofZ
  dsimp only
  rw [show tmp_sub_1 s (s.PTR op1) n1 = ((tmp_sub_1 s (s.PTR op1) n1).1, (tmp_sub_1 s (s.PTR op1) n1).2) from rfl]
  simp only [t1s]
  rw [show tmp_sub_1 (s.chk true) (s.PTR op2) n2 = ((tmp_sub_1 (s.chk true) (s.PTR op2) n2).1, (tmp_sub_1 (s.chk true) (s.PTR op2) n2).2) from rfl]
  simp only [t2s, realloc_if]
  generalize (tmp_sub_1 s (s.PTR op1) n1).1 = opx1 at *
  generalize (tmp_sub_1 (s.chk true) (s.PTR op2) n2).1 = opx2 at *
  generalize hO1d : (Bits.subLimb A 1).1 = O1 at *
  generalize hO2d : (Bits.subLimb Bv 1).1 = O2 at *
  rw [reptr_eq' ((s.chk true).chk true) res (max n1 n2) res (s.PTR res) rfl]
  have G := MPZ_REALLOC_grown ((s.chk true).chk true) res (max n1 n2) hw
  generalize hs1 : MPZ_REALLOC ((s.chk true).chk true) res (max n1 n2) = s1 at *
  have hok1 : s1.ok = true := by rw [G.ok]; simpa using hs
  have halloc : (Mpz.grow (view (s.h res)) (max n1 n2)).alloc = (s1.h res).buf.alloc := G.alloc.symm
  rw [halloc]
  refine Refines.of_chk (Refines.of_chk (Refines.of_grown G ?_))
  obtain ⟨W, e⟩ := xor_cat_wrote hok1 (G.bwf res hw.1) (.tmp opx1 0) (.tmp opx2 0) O1 O2 (t1D s1) (t2D s1) LO1 LO2
    (by rw [hO1, hO2]; exact G.room)
  rw [hO1, hO2] at W e
  rw [show xor_cat s1 (s1.PTR res) (Src.tmp opx1 0) (Src.tmp opx2 0) n1 n2 =
    ((xor_cat s1 (s1.PTR res) (Src.tmp opx1 0) (Src.tmp opx2 0) n1 n2).1, (xor_cat s1 (s1.PTR res) (Src.tmp opx1 0) (Src.tmp opx2 0) n1 n2).2) from rfl]
  simp only [e]
  have E := W.norm_end false
  rw [show MPN_NORMALIZE (xor_cat s1 (s1.PTR res) (Src.tmp opx1 0) (Src.tmp opx2 0) n1 n2).1 (s1.PTR res) (Bits.xorCat O1 O2).length =
    ((MPN_NORMALIZE (xor_cat s1 (s1.PTR res) (Src.tmp opx1 0) (Src.tmp opx2 0) n1 n2).1 (s1.PTR res) (Bits.xorCat O1 O2).length).1,
     (MPN_NORMALIZE (xor_cat s1 (s1.PTR res) (Src.tmp opx1 0) (Src.tmp opx2 0) n1 n2).1 (s1.PTR res) (Bits.xorCat O1 O2).length).2) from rfl]
  simpa [sgn] using E

theorem xor_pn_refines (s : St) (res op1 op2 : Nat) (hs : s.ok = true)
    (hw : OWF (s.h res)) (hu : OWF (s.h op1)) (hv : OWF (s.h op2)) (h2 : (s.h op2).size ≠ 0) :
    Refines s (xor_pn true 1 s res op1 op2 (s.h op1).size.natAbs (s.h op2).size.natAbs) res
      (ofZ (Mpz.grow (view (s.h res)) (max (s.h op1).size.natAbs (s.h op2).size.natAbs + 1)).alloc
        (Bits.xorPN (view (s.h op1)).d (view (s.h op2)).d)) := by
  have hA := view_d_length hu
  have hB := view_d_length hv
  have LA := view_limbs hu
  have LB := view_limbs hv
  generalize hAd : (view (s.h op1)).d = A at *
  generalize hBd : (view (s.h op2)).d = Bv at *
  generalize hn1 : (s.h op1).size.natAbs = n1 at *
  generalize hn2 : (s.h op2).size.natAbs = n2 at *
  have hn2p : 1 ≤ n2 := by omega
  have Db : Den s (.ptr (s.PTR op2)) Bv := hBd ▸ Den.of_owf hv
  obtain ⟨t2s, _, t2D⟩ := tmp_sub_1_spec s (s.PTR op2) Bv n2 Db (by omega) LB
  rw [List.take_of_length_le (by omega)] at t2D
  have hO2 : (Bits.subLimb Bv 1).1.length = n2 := by rw [subLimb_len]; exact hB
  have LO2 := subLimb_limbs Bv 1 LB
  unfold xor_pn Bits.xorPN ofZ
  dsimp only
  rw [show tmp_sub_1 s (s.PTR op2) n2 = ((tmp_sub_1 s (s.PTR op2) n2).1, (tmp_sub_1 s (s.PTR op2) n2).2) from rfl]
  simp only [t2s, realloc_if]
  generalize (tmp_sub_1 s (s.PTR op2) n2).1 = opx at *
  generalize hO2d : (Bits.subLimb Bv 1).1 = O2 at *
  rw [reptr_eq' (s.chk true) res (max n1 n2 + 1) res (s.PTR res) rfl,
    reptr_eq' (s.chk true) res (max n1 n2 + 1) op1 (s.PTR op1) rfl]
  have G := MPZ_REALLOC_grown (s.chk true) res (max n1 n2 + 1) hw
  generalize hs1 : MPZ_REALLOC (s.chk true) res (max n1 n2 + 1) = s1 at *
  have hok1 : s1.ok = true := by rw [G.ok]; simpa using hs
  have halloc : (Mpz.grow (view (s.h res)) (max n1 n2 + 1)).alloc = (s1.h res).buf.alloc := G.alloc.symm
  rw [halloc]
  refine Refines.of_chk (Refines.of_grown G ?_)
  have Da1 : Den s1 (.ptr (s1.PTR op1)) A := hAd ▸ Den.of_grown G hu
  have hroom := G.room
  obtain ⟨W, e⟩ := xor_cat_wrote hok1 (G.bwf res hw.1) (.ptr (s1.PTR op1)) (.tmp opx 0) A O2 Da1 (t2D s1) LA LO2
    (by rw [hA, hO2]; omega)
  rw [hA, hO2] at W e
  generalize hX : xor_cat s1 (s1.PTR res) (Src.ptr (s1.PTR op1)) (Src.tmp opx 0) n1 n2 = X at *
  rw [show X = (X.1, X.2) from rfl]
  simp only [e]
  have hlen := xorCat_len A O2
  obtain ⟨e1, W3⟩ := W.addOne (by intro h; rw [h] at hlen; simp at hlen; omega) (by rw [hlen, hA, hO2]; omega)
  generalize hY : addOneTail X.1 (s1.PTR res) (Bits.xorCat A O2).length = Y at *
  rw [show Y = (Y.1, Y.2) from rfl]
  simp only [e1]
  have E := W3.norm_end true
  generalize hZ : MPN_NORMALIZE Y.2 (s1.PTR res) (Bits.addOneGrow (Bits.xorCat A O2)).length = Z at *
  rw [show Z = (Z.1, Z.2) from rfl]
  exact E

theorem ptr_bne (s : St) (x y : Nat) : (s.PTR x != s.PTR y) = !decide (x = y) := by
  by_cases h : x = y
  · subst h; simp
  · have : s.PTR x ≠ s.PTR y := by intro e; exact h (congrArg Ptr.id e)
    simp [h, this]

/-- ior.c:50-62 / 67-79, xor.c:50-62 / 67-79 -/
theorem cat_pp_wrote (f : Nat → Nat → Nat) (hf : ∀ a b, a < B → b < B → f a b < B) (s : St) (res op1 op2 big : Nat)
    (hbig : big = op1 ∨ big = op2) (hs : s.ok = true) (hw : OWF (s.h res)) (hu : OWF (s.h op1)) (hv : OWF (s.h op2))
    (k : Nat) (hk1 : k ≤ (s.h op1).size.natAbs) (hk2 : k ≤ (s.h op2).size.natAbs) :
    Wrote (MPZ_REALLOC s res (s.h big).size.natAbs) (cat_pp f true s res op1 op2 big k (s.h big).size.natAbs).1 res
      (List.zipWith f ((view (s.h op1)).d.take k) ((view (s.h op2)).d.take k) ++ (view (s.h big)).d.drop k) ∧
    (cat_pp f true s res op1 op2 big k (s.h big).size.natAbs).2 = (MPZ_REALLOC s res (s.h big).size.natAbs).PTR res := by
  have hbg : OWF (s.h big) := by rcases hbig with h | h <;> rw [h] <;> assumption
  have hkb : k ≤ (s.h big).size.natAbs := by rcases hbig with h | h <;> rw [h] <;> assumption
  have hA := view_d_length hu
  have hB := view_d_length hv
  have hX := view_d_length hbg
  unfold cat_pp
  dsimp only
  simp only [realloc_if]
  rw [reptr_eq' s res (s.h big).size.natAbs op1 (s.PTR op1) rfl, reptr_eq' s res (s.h big).size.natAbs op2 (s.PTR op2) rfl,
    reptr_eq' s res (s.h big).size.natAbs res (s.PTR res) rfl]
  have G := MPZ_REALLOC_grown s res (s.h big).size.natAbs hw
  have Da := Den.of_grown G hu
  have Db := Den.of_grown G hv
  have Dx := Den.of_grown G hbg
  generalize hs1 : MPZ_REALLOC s res (s.h big).size.natAbs = s1 at *
  have hok1 : s1.ok = true := by rw [G.ok]; exact hs
  have hbp : (if big = op1 then s1.PTR op1 else s1.PTR op2) = s1.PTR big := by
    rcases hbig with h | h
    · simp [h]
    · by_cases h' : big = op1
      · simp [h']
      · rw [if_neg h', h]
  rw [hbp, ptr_bne]
  refine ⟨?_, rfl⟩
  by_cases hrb : res = big
  · subst hrb
    simp only [decide_true, Bool.not_true, Bool.false_eq_true, if_false]
    have W0 := Wrote.refl s1 res (s.h res).size.natAbs hok1 (G.bwf res hw.1) G.room
    have e0 : (s1.h res).buf.limbs.take (s.h res).size.natAbs = (view (s.h res)).d := by
      have := Dx.2.2.2; simpa [hX] using this
    rw [e0] at W0
    have W1 := W0.logop f hf _ _ _ _ k Da Db (by omega) (by omega) (view_limbs hu) (view_limbs hv) (by have := G.room; omega)
    exact W1
  · simp only [hrb, decide_false, Bool.not_false, if_true]
    have W := Wrote.cat hok1 (G.bwf res hw.1) f hf (.ptr (s1.PTR op1)) (.ptr (s1.PTR op2)) (.ptr (s1.PTR big))
      _ _ _ k Da Db Dx (by omega) (by omega) (by omega) (view_limbs hu) (view_limbs hv) (view_limbs hbg) (by rw [hX]; exact G.room)
    rw [hX] at W
    exact W

theorem xorCat_ge (a b : List Nat) (h : b.length ≤ a.length) :
    Bits.xorCat a b = List.zipWith (· ^^^ ·) (a.take b.length) (b.take b.length) ++ a.drop b.length := by
  unfold Bits.xorCat Bits.xor_n
  rw [zipWith_take_full _ _ _ _ (by omega)]
  split
  · rfl
  · have : a.length = b.length := by omega
    rw [List.drop_of_length_le (by omega), List.drop_of_length_le (by omega)]

theorem xorCat_le (a b : List Nat) (h : a.length < b.length) :
    Bits.xorCat a b = List.zipWith (· ^^^ ·) (a.take a.length) (b.take a.length) ++ b.drop a.length := by
  unfold Bits.xorCat Bits.xor_n
  rw [zipWith_take_full _ _ _ _ (by omega)]
  have : ¬ a.length > b.length := by omega
  simp only [this, if_false]

theorem xor_pp_refines (s : St) (res op1 op2 : Nat) (hs : s.ok = true)
    (hw : OWF (s.h res)) (hu : OWF (s.h op1)) (hv : OWF (s.h op2)) :
    Refines s (xor_pp true s res op1 op2 (s.h op1).size.natAbs (s.h op2).size.natAbs) res
      (ofZ (Mpz.grow (view (s.h res)) (max (s.h op1).size.natAbs (s.h op2).size.natAbs)).alloc
        (Bits.xorPP (view (s.h op1)).d (view (s.h op2)).d)) := by
  have hA := view_d_length hu
  have hB := view_d_length hv
  unfold xor_pp Bits.xorPP ofZ
  by_cases hge : (s.h op1).size.natAbs ≥ (s.h op2).size.natAbs
  · simp only [hge, if_true]
    obtain ⟨W, ep⟩ := cat_pp_wrote (· ^^^ ·) (fun a b ha hb => xor_lt ha hb) s res op1 op2 op1 (Or.inl rfl) hs hw hu hv
      (s.h op2).size.natAbs hge (Nat.le_refl _)
    have G := MPZ_REALLOC_grown s res (s.h op1).size.natAbs hw
    rw [← hB, ← xorCat_ge _ _ (by omega)] at W
    rw [ep, Nat.max_eq_left hge]
    have hl : (Bits.xorCat (view (s.h op1)).d (view (s.h op2)).d).length = (s.h op1).size.natAbs := by
      rw [xorCat_len]; omega
    have E := W.norm_end false
    rw [hl, hB] at E
    have halloc : (Mpz.grow (view (s.h res)) (s.h op1).size.natAbs).alloc =
      ((MPZ_REALLOC s res (s.h op1).size.natAbs).h res).buf.alloc := G.alloc.symm
    rw [halloc]
    refine Refines.of_grown G ?_
    simpa [sgn] using E
  · simp only [hge, if_false]
    have hlt : (s.h op1).size.natAbs < (s.h op2).size.natAbs := by omega
    obtain ⟨W, ep⟩ := cat_pp_wrote (· ^^^ ·) (fun a b ha hb => xor_lt ha hb) s res op1 op2 op2 (Or.inr rfl) hs hw hu hv
      (s.h op1).size.natAbs (Nat.le_refl _) (by omega)
    have G := MPZ_REALLOC_grown s res (s.h op2).size.natAbs hw
    rw [← hA, ← xorCat_le _ _ (by omega)] at W
    rw [ep, Nat.max_eq_right (by omega)]
    have hl : (Bits.xorCat (view (s.h op1)).d (view (s.h op2)).d).length = (s.h op2).size.natAbs := by
      rw [xorCat_len]; omega
    have E := W.norm_end false
    rw [hl, hA] at E
    have halloc : (Mpz.grow (view (s.h res)) (s.h op2).size.natAbs).alloc =
      ((MPZ_REALLOC s res (s.h op2).size.natAbs).h res).buf.alloc := G.alloc.symm
    rw [halloc]
    refine Refines.of_grown G ?_
    simpa [sgn] using E

/-- value-level result of mpz_xor with the allocation -/
def Spec.xor (w u v : Mpz.Mpz) : Mpz.Mpz :=
  ofZ (Mpz.grow w (max u.size.natAbs v.size.natAbs + (if (u.size < 0 ↔ v.size < 0) then 0 else 1))).alloc
    (Bits.mpz_xor (zOf u) (zOf v))

theorem xor_refines (s : St) (w u v : Nat) (hs : s.ok = true)
    (hw : OWF (s.h w)) (hu : OWF (s.h u)) (hv : OWF (s.h v)) :
    Refines s (mpz_xor s w u v) w (Spec.xor (view (s.h w)) (view (s.h u)) (view (s.h v))) := by
  unfold mpz_xor xor_ Spec.xor Bits.mpz_xor zOf
  have e1 : (view (s.h u)).size = (s.h u).size := rfl
  have e2 : (view (s.h v)).size = (s.h v).size := rfl
  simp only [St.SIZ, e1, e2]
  by_cases h1 : (s.h u).size ≥ 0 <;> by_cases h2 : (s.h v).size ≥ 0
  · have h1' : ¬ (s.h u).size < 0 := by omega
    have h2' : ¬ (s.h v).size < 0 := by omega
    simp only [h1, h2, h1', h2', if_true, iff_self, decide_false, Bool.not_false, Nat.add_zero]
    exact xor_pp_refines s w u v hs hw hu hv
  · have h1' : ¬ (s.h u).size < 0 := by omega
    have h2' : (s.h v).size < 0 := by omega
    simp only [h1, h2, h1', h2', if_true, false_iff, not_true_eq_false, if_false, decide_false, decide_true, Bool.not_false,
      Bool.not_true, Bool.false_eq_true]
    exact xor_pn_refines s w u v hs hw hu hv (by omega)
  · have h1' : (s.h u).size < 0 := by omega
    have h2' : ¬ (s.h v).size < 0 := by omega
    simp only [h1, h2, h1', h2', if_true, true_iff, if_false, decide_false, decide_true, Bool.not_false,
      Bool.not_true, Bool.false_eq_true]
    rw [Nat.max_comm]
    exact xor_pn_refines s w v u hs hw hv hu (by omega)
  · have h1' : (s.h u).size < 0 := by omega
    have h2' : (s.h v).size < 0 := by omega
    simp only [h1, h2, h1', h2', if_true, iff_self, if_false, decide_true, Bool.not_true, Bool.false_eq_true, Nat.add_zero]
    exact xor_nn_refines s w u v hs hw hu hv

theorem xor_need_le (u v : Mpz.Mpz) (hu : Mpz.WF u) (hv : Mpz.WF v) :
    (Bits.mpz_xor (zOf u) (zOf v)).mag.length ≤
      max u.size.natAbs v.size.natAbs + (if (u.size < 0 ↔ v.size < 0) then 0 else 1) := by
  obtain ⟨_, _, hl1, _⟩ := (Mpz.WF_iff u).mp hu
  obtain ⟨_, _, hl2, _⟩ := (Mpz.WF_iff v).mp hv
  unfold Bits.mpz_xor zOf Bits.xorPP Bits.xorNN Bits.xorPN
  by_cases h1 : u.size < 0 <;> by_cases h2 : v.size < 0 <;>
    simp only [h1, h2, decide_true, decide_false, Bool.not_true, Bool.not_false, Bool.false_eq_true, if_false, if_true,
      iff_self, true_iff, false_iff, not_true_eq_false, not_false_eq_true, Nat.add_zero]
  · refine Nat.le_trans (Mpz.normalize_length_le _) ?_
    rw [xorCat_len, subLimb_len, subLimb_len]; omega
  · refine Nat.le_trans (Mpz.normalize_length_le _) (Nat.le_trans (addOneGrow_len_le _) ?_)
    rw [xorCat_len, subLimb_len]; omega
  · refine Nat.le_trans (Mpz.normalize_length_le _) (Nat.le_trans (addOneGrow_len_le _) ?_)
    rw [xorCat_len, subLimb_len]; omega
  · refine Nat.le_trans (Mpz.normalize_length_le _) ?_
    rw [xorCat_len]; omega

end Mpir.AllocSafe
