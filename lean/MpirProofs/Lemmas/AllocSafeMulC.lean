/- Refinement proof for the size-aware model of mpz/mul.c (Mpir/Model/AllocSafeMpz4.lean `mul`): every path refines the
   value-level model `Mpz.mul` (exact by C01's `mpz_mul_exact`) with `ok = true`; the operands are read from the block they
   live in at the time of the call — the retained old block of w (`free_me`), a temporary copy, or another variable's block. -/
import MpirProofs.Lemmas.AllocSafeAorsmul
namespace Mpir.AllocSafe
open Mpir
open Mpir.Mpz (sgn natAbs_sgn Norm)

/-- mul.c:154-163 on a state whose block of w has room for the product and does not hold an operand that is still needed -/
theorem mulTail_refines (s1 : St) (w : Nat) (up vp : Src) (U V : List Nat) (same neg : Bool)
    (hok : s1.ok = true) (hb : BWF (s1.h w).buf) (DU : Den s1 up U) (DV : Den s1 vp V) (hLU : Limbs U) (hLV : Limbs V)
    (hV : V ≠ []) (hsame : same = true → up = vp ∧ U = V) (hroom : U.length + V.length ≤ (s1.h w).buf.alloc) :
    Refines s1 (mulTail s1 w up vp U.length V.length same neg) w
      ⟨(s1.h w).buf.alloc,
        sgn neg (U.length + V.length -
          (if Mpz.topLimb (if (same && U.length == V.length) = true then Mpz.mpn_sqr U else Mpz.mpn_mul U V) == 0 then 1 else 0)),
        (if (same && U.length == V.length) = true then Mpz.mpn_sqr U else Mpz.mpn_mul U V).take (U.length + V.length -
          (if Mpz.topLimb (if (same && U.length == V.length) = true then Mpz.mpn_sqr U else Mpz.mpn_mul U V) == 0 then 1 else 0))⟩ := by
  obtain ⟨eu, oku⟩ := DU.rd U.length (Nat.le_refl _)
  obtain ⟨ev, okv⟩ := DV.rd V.length (Nat.le_refl _)
  rw [List.take_length] at eu ev
  unfold mulTail
  by_cases hsq : (same && U.length == V.length) = true
  · have hs' : same = true := by
      cases same
      · simp at hsq
      · rfl
    obtain ⟨hp, hUV⟩ := hsame hs'
    subst hp hUV
    simp only [hsq, if_true]
    obtain ⟨_, tl, tn⟩ := Mpz.K.mul_basecase_val U U hLU hLU hV
    have tl' : Limbs (Mpz.mpn_sqr U) := tl
    have tn' : (Mpz.mpn_sqr U).length = U.length + U.length := tn
    have hsq' : Mpz.mpn_mul U U = Mpz.mpn_sqr U := rfl
    simp only [mpn_mul_S, eu, oku, Bool.and_self, hsq']
    have W := Wrote.fresh s1 w (Mpz.mpn_sqr U) true hok rfl hb tl' (by rw [tn']; exact hroom)
    rw [chk_true] at W ⊢
    have hUl : 0 < U.length := List.length_pos_iff.mpr hV
    have hld := W.load (2 * U.length - 1) (by rw [tn']; omega)
    rw [← topLimb_eq_getD _ (2 * U.length) (by rw [tn']; omega) (by omega)] at hld
    simp only [hld, chk_true]
    exact W.fin_take neg _ (by rw [tn']; omega)
  · have hsq' : (same && U.length == V.length) = false := by simpa using hsq
    simp only [hsq', Bool.false_eq_true, if_false]
    obtain ⟨_, tl, tn⟩ := Mpz.K.mul_basecase_val U V hLU hLV hV
    have tl' : Limbs (Mpz.mpn_mul U V) := tl
    have tn' : (Mpz.mpn_mul U V).length = U.length + V.length := tn
    simp only [mpn_mul_S, eu, ev, oku, okv, Bool.and_self]
    have W := Wrote.fresh s1 w (Mpz.mpn_mul U V) true hok rfl hb tl' (by rw [tn']; exact hroom)
    exact W.fin_take neg _ (by rw [tn']; omega)

/-! ## the fresh block of mul.c:128-130 -/

theorem freshBlock_ok (s : St) (w n : Nat) : (freshBlock s w n).ok = s.ok := rfl
theorem freshBlock_other (s : St) (w n : Nat) {x : Nat} (hx : x ≠ w) : (freshBlock s w n).h x = s.h x := by
  simp [freshBlock, upd, hx]
theorem freshBlock_bwf (s : St) (w n : Nat) : BWF ((freshBlock s w n).h w).buf := by
  simp only [freshBlock, upd_same]; exact BWF_new n
theorem freshBlock_alloc (s : St) (w n : Nat) : ((freshBlock s w n).h w).buf.alloc = n := by
  simp [freshBlock, Buf.new]

/-- an operand in another variable's block is still there after w got its fresh block -/
theorem Den.fresh {s : St} {w n x : Nat} {L : List Nat} (D : Den s (.ptr (s.PTR x)) L) (hx : x ≠ w) :
    Den (freshBlock s w n) (.ptr (s.PTR x)) L := by
  obtain ⟨h0, hl, hfit, ht⟩ := D
  have hf := freshBlock_other s w n hx
  simp only [PTR_id] at hfit ht
  exact ⟨h0, by simp [St.live, St.PTR, hf], by simp only [PTR_id, hf]; exact hfit, by simp only [PTR_id, hf]; exact ht⟩

/-- the retained old block (`free_me`), or any detached block, holds what it held -/
theorem Den.detached (b : Buf) (L : List Nat) (hfit : L.length ≤ b.alloc) (ht : b.limbs.take L.length = L) (s' : St) :
    Den s' (.tmp b 0) L := ⟨rfl, hfit, ht⟩

theorem tmp_copy_spec (s : St) (p : Ptr) (L : List Nat) (D : Den s (.ptr p) L) :
    (tmp_copy s p L.length).2 = s ∧ ∀ s' : St, Den s' (.tmp (tmp_copy s p L.length).1 0) L := by
  obtain ⟨e, ok⟩ := D.rd L.length (Nat.le_refl _)
  simp only [St.rdS, St.rdOkS] at e ok
  rw [List.take_length] at e
  refine ⟨?_, ?_⟩
  · simp only [tmp_copy, e, ok, Buf.write, Buf.new, Nat.zero_add, Nat.le_refl, if_true, Bool.and_self, chk_true]
  · intro s'
    simp only [tmp_copy, e, Buf.write, Buf.new, Nat.zero_add, Nat.le_refl, if_true]
    refine ⟨rfl, by simp, ?_⟩
    simp only [List.take_zero, List.nil_append]
    rw [List.take_append_of_le_length (by omega)]
    exact List.take_of_length_le (by omega)

/-- what the generic path leaves: the block has `wsize` limbs if it had fewer, else it is kept -/
def Spec.mulGen (walloc : Nat) (U V : List Nat) (same neg : Bool) : Mpz.Mpz :=
  ⟨walloc,
    sgn neg (U.length + V.length -
      (if Mpz.topLimb (if (same && U.length == V.length) = true then Mpz.mpn_sqr U else Mpz.mpn_mul U V) == 0 then 1 else 0)),
    (if (same && U.length == V.length) = true then Mpz.mpn_sqr U else Mpz.mpn_mul U V).take (U.length + V.length -
      (if Mpz.topLimb (if (same && U.length == V.length) = true then Mpz.mpn_sqr U else Mpz.mpn_mul U V) == 0 then 1 else 0))⟩

theorem Den.of_owf_detached {s : St} {x : Nat} (hx : OWF (s.h x)) (s' : St) :
    Den s' (.tmp (s.h x).buf 0) (view (s.h x)).d :=
  Den.detached _ _ (by rw [view_d_length hx]; exact view_fit hx) (by rw [view_d_length hx]; rfl) s'

theorem mulGeneric_refines (s : St) (w u v : Nat) (neg : Bool) (hs : s.ok = true)
    (hw : OWF (s.h w)) (hu : OWF (s.h u)) (hv : OWF (s.h v)) (hv0 : (s.h v).size ≠ 0) :
    Refines s (mulGeneric true s w u v (s.h u).size.natAbs (s.h v).size.natAbs neg) w
      (Spec.mulGen (if (s.h w).buf.alloc < (s.h u).size.natAbs + (s.h v).size.natAbs
          then (s.h u).size.natAbs + (s.h v).size.natAbs else (s.h w).buf.alloc)
        (view (s.h u)).d (view (s.h v)).d (u == v) neg) := by
  have hUl := view_d_length hu
  have hVl := view_d_length hv
  have hLU := view_limbs hu
  have hLV := view_limbs hv
  have hVne : (view (s.h v)).d ≠ [] := by intro h; rw [h] at hVl; simp at hVl; omega
  have hsameUV : (u == v) = true → (view (s.h u)).d = (view (s.h v)).d := by
    intro h; have : u = v := by simpa using h
    rw [this]
  have huv_of : (u == v) = true → u = v := fun h => by simpa using h
  unfold mulGeneric
  rw [show s.ALLOC w = (s.h w).buf.alloc from rfl]
  rw [← hUl, ← hVl]
  by_cases hal : (s.h w).buf.alloc < (view (s.h u)).d.length + (view (s.h v)).d.length
  · simp only [hal, if_true, Bool.and_true]
    have fin : ∀ (up vp : Src), Den (freshBlock s w ((view (s.h u)).d.length + (view (s.h v)).d.length)) up (view (s.h u)).d →
        Den (freshBlock s w ((view (s.h u)).d.length + (view (s.h v)).d.length)) vp (view (s.h v)).d →
        ((u == v) = true → up = vp) →
        Refines s (mulTail (freshBlock s w ((view (s.h u)).d.length + (view (s.h v)).d.length)) w up vp
          (view (s.h u)).d.length (view (s.h v)).d.length (u == v) neg) w
          (Spec.mulGen ((view (s.h u)).d.length + (view (s.h v)).d.length) (view (s.h u)).d (view (s.h v)).d (u == v) neg) := by
      intro up vp DU DV hp
      unfold Spec.mulGen
      have R := mulTail_refines (freshBlock s w ((view (s.h u)).d.length + (view (s.h v)).d.length)) w up vp
        (view (s.h u)).d (view (s.h v)).d (u == v) neg (by rw [freshBlock_ok]; exact hs) (freshBlock_bwf _ _ _) DU DV hLU hLV hVne
        (fun h => ⟨hp h, hsameUV h⟩) (by rw [freshBlock_alloc])
      rw [freshBlock_alloc] at R
      exact R.rebase (fun x hx => freshBlock_other s w _ hx)
    by_cases hwu : w = u
    · have e : (w == u) = true := by simpa using hwu
      simp only [e, Bool.true_or, if_true]
      by_cases hwv : w = v
      · have e' : (w == v) = true := by simpa using hwv
        simp only [e', if_true]
        refine fin _ _ ?_ ?_ (fun _ => rfl)
        · rw [hwu]; exact Den.of_owf_detached hu _
        · rw [hwv]; exact Den.of_owf_detached hv _
      · have e' : (w == v) = false := by simpa using hwv
        simp only [e', Bool.false_eq_true, if_false]
        refine fin _ _ ?_ ?_ (fun h => absurd (hwu.trans (huv_of h)) hwv)
        · rw [hwu]; exact Den.of_owf_detached hu _
        · exact (Den.of_owf hv).fresh (fun h => hwv h.symm)
    · have e : (w == u) = false := by simpa using hwu
      by_cases hwv : w = v
      · have e' : (w == v) = true := by simpa using hwv
        simp only [e, e', Bool.or_true, Bool.false_or, if_true, Bool.false_eq_true, if_false]
        refine fin _ _ ?_ ?_ (fun h => absurd (hwv.trans (huv_of h).symm) hwu)
        · exact (Den.of_owf hu).fresh (fun h => hwu h.symm)
        · rw [hwv]; exact Den.of_owf_detached hv _
      · have e' : (w == v) = false := by simpa using hwv
        simp only [e, e', Bool.or_self, Bool.false_eq_true, if_false]
        refine fin _ _ ((Den.of_owf hu).fresh (fun h => hwu h.symm)) ((Den.of_owf hv).fresh (fun h => hwv h.symm)) ?_
        intro h; have : u = v := by simpa using h
        rw [this]
  · simp only [hal, if_false]
    have fin : ∀ (up vp : Src), Den s up (view (s.h u)).d → Den s vp (view (s.h v)).d → ((u == v) = true → up = vp) →
        Refines s (mulTail s w up vp (view (s.h u)).d.length (view (s.h v)).d.length (u == v) neg) w
          (Spec.mulGen (s.h w).buf.alloc (view (s.h u)).d (view (s.h v)).d (u == v) neg) := by
      intro up vp DU DV hp
      unfold Spec.mulGen
      exact mulTail_refines s w up vp (view (s.h u)).d (view (s.h v)).d (u == v) neg hs hw.1 DU DV hLU hLV hVne
        (fun h => ⟨hp h, hsameUV h⟩) (by omega)
    by_cases hwu : w = u
    · have e : (w == u) = true := by simpa using hwu
      simp only [e, if_true]
      obtain ⟨c1, c2⟩ := tmp_copy_spec s (s.PTR u) (view (s.h u)).d (Den.of_owf hu)
      rw [show tmp_copy s (s.PTR u) (view (s.h u)).d.length = ((tmp_copy s (s.PTR u) (view (s.h u)).d.length).1,
        (tmp_copy s (s.PTR u) (view (s.h u)).d.length).2) from rfl]
      simp only [c1]
      by_cases hwv : w = v
      · have e' : (w == v) = true := by simpa using hwv
        simp only [e', if_true]
        refine fin _ _ (c2 s) ?_ (fun _ => rfl)
        have huv : u = v := hwu.symm.trans hwv
        rw [← huv]; exact c2 s
      · have e' : (w == v) = false := by simpa using hwv
        simp only [e', Bool.false_eq_true, if_false]
        exact fin _ _ (c2 s) (Den.of_owf hv) (fun h => absurd (hwu.trans (huv_of h)) hwv)
    · have e : (w == u) = false := by simpa using hwu
      simp only [e, Bool.false_eq_true, if_false]
      by_cases hwv : w = v
      · have e' : (w == v) = true := by simpa using hwv
        simp only [e', if_true]
        obtain ⟨c1, c2⟩ := tmp_copy_spec s (s.PTR v) (view (s.h v)).d (Den.of_owf hv)
        rw [show tmp_copy s (s.PTR v) (view (s.h v)).d.length = ((tmp_copy s (s.PTR v) (view (s.h v)).d.length).1,
          (tmp_copy s (s.PTR v) (view (s.h v)).d.length).2) from rfl]
        simp only [c1]
        exact fin _ _ (Den.of_owf hu) (c2 s) (fun h => absurd (hwv.trans (huv_of h).symm) hwu)
      · have e' : (w == v) = false := by simpa using hwv
        simp only [e', Bool.false_eq_true, if_false]
        refine fin _ _ (Den.of_owf hu) (Den.of_owf hv) ?_
        intro h; have : u = v := by simpa using h
        rw [this]

theorem mul_refines (thr : Nat) (s : St) (w u v : Nat) (hs : s.ok = true)
    (hw : OWF (s.h w)) (hu : OWF (s.h u)) (hv : OWF (s.h v)) :
    Refines s (mul thr true 1 s w u v) w
      (Mpz.mul thr ⟨w == u, w == v, u == v⟩ (view (s.h w)) (view (s.h u)) (view (s.h v))) := by
  unfold mul Mpz.mul
  rw [show s.SIZ u = (s.h u).size from rfl, show s.SIZ v = (s.h v).size from rfl]
  have e1 : (view (s.h u)).size = (s.h u).size := rfl
  have e2 : (view (s.h v)).size = (s.h v).size := rfl
  have e3 : (view (s.h w)).alloc = (s.h w).buf.alloc := rfl
  rw [e1, e2]
  have hUl := view_d_length hu
  have hVl := view_d_length hv
  have hLU := view_limbs hu
  have hLV := view_limbs hv
  by_cases h0 : ((s.h u).size.natAbs == 0 || (s.h v).size.natAbs == 0) = true
  · simp only [h0, if_true]
    exact ⟨by simpa using hs, by simp [view], by simpa using hw.1, fun x hx => setSize_other _ _ _ hx⟩
  · simp only [h0, Bool.false_eq_true, if_false]
    have ⟨hu0, hv0⟩ : (s.h u).size.natAbs ≠ 0 ∧ (s.h v).size.natAbs ≠ 0 := by simpa using h0
    have hv0' : (s.h v).size ≠ 0 := by intro h; rw [h] at hv0; simp at hv0
    have hu0' : (s.h u).size ≠ 0 := by intro h; rw [h] at hu0; simp at hu0
    have hUne : (view (s.h u)).d ≠ [] := by intro h; rw [h] at hUl; simp at hUl; omega
    have hVne : (view (s.h v)).d ≠ [] := by intro h; rw [h] at hVl; simp at hVl; omega
    by_cases h1 : ((s.h v).size.natAbs == 1) = true
    · -- mul.c:69-77
      simp only [h1, if_true]
      have G := MPZ_REALLOC_grown s w ((s.h u).size.natAbs + 1) hw
      have Du := Den.of_grown G hu
      have Dv := Den.of_grown G hv
      have halloc : (Mpz.grow (view (s.h w)) ((s.h u).size.natAbs + 1)).alloc =
        ((MPZ_REALLOC s w ((s.h u).size.natAbs + 1)).h w).buf.alloc := G.alloc.symm
      rw [halloc]
      refine Refines.of_grown G ?_
      have h1' : (view (s.h v)).d.length = 1 := by rw [hVl]; simpa using h1
      obtain ⟨el, okl⟩ := Dv.one h1'
      simp only [Src.add, St.rdS, St.rdOkS] at el okl
      simp only [St.load, el, okl, chk_true]
      have hv0B : (view (s.h v)).d.headD 0 < B := by
        match hd : (view (s.h v)).d, h1' with
        | [a], _ => rw [hd] at hLV; exact hLV a (by simp)
      have Z := aorsmul_1_zero_refines _ w u ((view (s.h v)).d.headD 0) (Mpz.diffSign (s.h u).size (s.h v).size) (view (s.h u)).d
        (by rw [G.ok]; exact hs) (G.bwf w hw.1) Du hLU hv0B (by rw [hUl]; exact G.room)
      rw [hUl] at Z
      exact Z
    · simp only [h1, Bool.false_eq_true, if_false]
      by_cases hbc : ((s.h u).size.natAbs + (s.h v).size.natAbs ≤ thr ∧ w ≠ u ∧ w ≠ v)
      · -- mul.c:83-103, the basecase shortcut (w is neither operand)
        obtain ⟨hthr, hwu, hwv⟩ := hbc
        have c1 : (decide ((s.h u).size.natAbs + (s.h v).size.natAbs ≤ thr) && w != u && w != v) = true := by
          simp [hthr, hwu, hwv]
        have c2 : (decide ((s.h u).size.natAbs + (s.h v).size.natAbs ≤ thr) && !(w == u) && !(w == v)) = true := by
          simp [hthr, hwu, hwv]
        simp only [c1, c2, if_true]
        have G := MPZ_REALLOC_grown s w ((s.h u).size.natAbs + (s.h v).size.natAbs) hw
        have Du := Den.of_grown G hu
        have Dv := Den.of_grown G hv
        have halloc : (Mpz.grow (view (s.h w)) ((s.h u).size.natAbs + (s.h v).size.natAbs)).alloc =
          ((MPZ_REALLOC s w ((s.h u).size.natAbs + (s.h v).size.natAbs)).h w).buf.alloc := G.alloc.symm
        rw [halloc]
        refine Refines.of_grown G ?_
        have hok1 : (MPZ_REALLOC s w ((s.h u).size.natAbs + (s.h v).size.natAbs)).ok = true := by rw [G.ok]; exact hs
        have hbw := G.bwf w hw.1
        have hroom := G.room
        set s1 := MPZ_REALLOC s w ((s.h u).size.natAbs + (s.h v).size.natAbs) with hs1
        obtain ⟨eu, oku⟩ := Du.rd (view (s.h u)).d.length (Nat.le_refl _)
        obtain ⟨ev, okv⟩ := Dv.rd (view (s.h v)).d.length (Nat.le_refl _)
        simp only [St.rdS, St.rdOkS] at eu oku ev okv
        rw [List.take_length, hUl] at eu
        rw [List.take_length, hVl] at ev
        rw [hUl] at oku
        rw [hVl] at okv
        -- the product the C forms, as one expression
        have hwp : (if ((s.h u).size.natAbs == (s.h v).size.natAbs) = true then
              if (u == v) = true then Mpz.mpn_sqr (view (s.h u)).d else Mpir.mul_basecase (view (s.h u)).d (view (s.h v)).d
            else if (s.h u).size.natAbs > (s.h v).size.natAbs then Mpir.mul_basecase (view (s.h u)).d (view (s.h v)).d
            else Mpir.mul_basecase (view (s.h v)).d (view (s.h u)).d) =
            (if (s.h u).size.natAbs ≥ (s.h v).size.natAbs then Mpz.mpn_mul (view (s.h u)).d (view (s.h v)).d
             else Mpz.mpn_mul (view (s.h v)).d (view (s.h u)).d) := by
          by_cases he : (s.h u).size.natAbs = (s.h v).size.natAbs
          · have he' : ((s.h u).size.natAbs == (s.h v).size.natAbs) = true := by simpa using he
            rw [he', if_pos rfl, if_pos (show (s.h u).size.natAbs ≥ (s.h v).size.natAbs by omega)]
            by_cases huv : u = v
            · subst huv; simp [Mpz.mpn_sqr, Mpz.mpn_mul]
            · have : (u == v) = false := by simpa using huv
              rw [this]; rfl
          · have he' : ((s.h u).size.natAbs == (s.h v).size.natAbs) = false := by simpa using he
            rw [he']
            simp only [Bool.false_eq_true, if_false]
            by_cases hg : (s.h u).size.natAbs > (s.h v).size.natAbs
            · rw [if_pos hg, if_pos (show (s.h u).size.natAbs ≥ (s.h v).size.natAbs by omega)]; rfl
            · rw [if_neg hg, if_neg (show ¬ (s.h u).size.natAbs ≥ (s.h v).size.natAbs by omega)]; rfl
        rw [hwp]
        have key : ∀ (t : List Nat) (st : St), Limbs t → t.length = (s.h u).size.natAbs + (s.h v).size.natAbs →
            st = (s1.chk true).wr (s1.PTR w) t →
            Refines s1 ((st.load (s1.PTR w) ((s.h u).size.natAbs + (s.h v).size.natAbs - 1)).2.setSize w
              (sgn (Mpz.diffSign (s.h u).size (s.h v).size) ((s.h u).size.natAbs + (s.h v).size.natAbs -
                (if (st.load (s1.PTR w) ((s.h u).size.natAbs + (s.h v).size.natAbs - 1)).1 == 0 then 1 else 0)))) w
              ⟨(s1.h w).buf.alloc, sgn (Mpz.diffSign (s.h u).size (s.h v).size) ((s.h u).size.natAbs + (s.h v).size.natAbs -
                  (if Mpz.topLimb t == 0 then 1 else 0)),
                t.take ((s.h u).size.natAbs + (s.h v).size.natAbs - (if Mpz.topLimb t == 0 then 1 else 0))⟩ := by
          intro t st tl tn hst
          subst hst
          have W := Wrote.fresh s1 w t true hok1 rfl hbw tl (by rw [tn]; exact hroom)
          rw [chk_true] at W ⊢
          have hld := W.load ((s.h u).size.natAbs + (s.h v).size.natAbs - 1) (by rw [tn]; omega)
          rw [← topLimb_eq_getD _ _ tn (by omega)] at hld
          simp only [hld, chk_true]
          exact W.fin_take _ _ (by rw [tn]; omega)
        by_cases hg : (s.h u).size.natAbs ≥ (s.h v).size.natAbs
        · simp only [hg, if_true, ge_iff_le]
          obtain ⟨_, tl, tn⟩ := Mpz.K.mul_basecase_val (view (s.h u)).d (view (s.h v)).d hLU hLV hVne
          rw [hUl, hVl] at tn
          have K := key (Mpz.mpn_mul (view (s.h u)).d (view (s.h v)).d) _ tl tn rfl
          simpa [mpn_mul, eu, ev, oku, okv, hg] using K
        · simp only [hg, if_false, ge_iff_le]
          obtain ⟨_, tl, tn⟩ := Mpz.K.mul_basecase_val (view (s.h v)).d (view (s.h u)).d hLV hLU hUne
          rw [hUl, hVl, Nat.add_comm] at tn
          have K := key (Mpz.mpn_mul (view (s.h v)).d (view (s.h u)).d) _ tl tn rfl
          simpa [mpn_mul, eu, ev, oku, okv, hg] using K
      · -- mul.c:105-166, the generic path
        have c1 : (decide ((s.h u).size.natAbs + (s.h v).size.natAbs ≤ thr) && w != u && w != v) = false := by
          cases hc : (decide ((s.h u).size.natAbs + (s.h v).size.natAbs ≤ thr) && w != u && w != v) with
          | false => rfl
          | true =>
            simp only [Bool.and_eq_true, decide_eq_true_eq, bne_iff_ne, ne_eq] at hc
            exact absurd ⟨hc.1.1, hc.1.2, hc.2⟩ hbc
        have c2 : (decide ((s.h u).size.natAbs + (s.h v).size.natAbs ≤ thr) && !(w == u) && !(w == v)) = false := by
          rw [← c1]; rfl
        simp only [c1, c2, Bool.false_eq_true, if_false, Mpz.Alias.uv]
        rw [e3]
        by_cases hsw : (s.h u).size.natAbs < (s.h v).size.natAbs
        · simp only [hsw, if_true, decide_true]
          have R := mulGeneric_refines s w v u (Mpz.diffSign (s.h u).size (s.h v).size) hs hw hv hu hu0'
          unfold Spec.mulGen at R
          rw [hUl, hVl] at R
          have ecomm : (v == u) = (u == v) := by
            by_cases h : u = v
            · subst h; rfl
            · have h' : ¬ v = u := fun e => h e.symm
              simp [h, h']
          rw [ecomm, Nat.add_comm (s.h v).size.natAbs (s.h u).size.natAbs] at R
          exact R
        · simp only [hsw, if_false, decide_false, Bool.false_eq_true]
          have R := mulGeneric_refines s w u v (Mpz.diffSign (s.h u).size (s.h v).size) hs hw hu hv hv0'
          unfold Spec.mulGen at R
          rw [hUl, hVl] at R
          exact R

end Mpir.AllocSafe
