/-
  Helper lemmas for the `%Q` round trip (C18): the bytes `__gmp_doprnt_integer` (printf/doprnti.c, model
  `doprntIntegerCore`) produces for a string with or without `/`, as blanks, sign, base prefix, zeros, body, blanks.
-/
import MpirProofs.Lemmas.ScanfI
namespace Mpir.Scanf
open Mpir.Printf

/-- the calls of doprnti.c:105-132 with the lengths as parameters -/
def coreCalls (P : Params) (sign : Option Char) (s sb : List Char) (slash : Option (List Char × List Char))
    (showbaselen denShowbaselen zeros justlen : Int) : List Call :=
  let justify := if justlen ≤ 0 then Justify.none else P.justify
  (if justify = .right then [Call.reps P.fill justlen.toNat] else []) ++
  (match sign with | some c => [Call.reps c 1] | none => []) ++
  memoryMaybe (sb.take showbaselen.toNat) ++
  repsMaybe '0' zeros.toNat ++
  (if justify = .internal then [Call.reps P.fill justlen.toNat] else []) ++
  (match slash with
   | some (num, den) =>
       if denShowbaselen ≠ 0 then [Call.memory num, Call.memory (sb.take denShowbaselen.toNat), Call.memory den]
       else [Call.memory s]
   | none => [Call.memory s]) ++
  (if justify = .left then [Call.reps P.fill justlen.toNat] else [])

def coreBody (s sb : List Char) (slash : Option (List Char × List Char)) (denShowbaselen : Int) : List Char :=
  match slash with
  | some (num, den) => if denShowbaselen ≠ 0 then num ++ sb.take denShowbaselen.toNat ++ den else s
  | none => s

theorem coreCalls_bytes (P : Params) (sign : Option Char) (s sb : List Char) (slash : Option (List Char × List Char))
    (showbaselen denShowbaselen zeros justlen : Int) :
    callsBytes (coreCalls P sign s sb slash showbaselen denShowbaselen zeros justlen) =
      (if P.justify = .right then List.replicate justlen.toNat P.fill else []) ++ sign.toList ++
      sb.take showbaselen.toNat ++ List.replicate zeros.toNat '0' ++
      (if P.justify = .internal then List.replicate justlen.toNat P.fill else []) ++
      coreBody s sb slash denShowbaselen ++
      (if P.justify = .left then List.replicate justlen.toNat P.fill else []) := by
  have hm : ∀ l : List Char, callsBytes (memoryMaybe l) = l := by
    intro l; unfold memoryMaybe; split
    · simp [callsBytes, Call.bytes]
    · rename_i h; have : l = [] := by simpa using h
      simp [callsBytes, this]
  have hr : ∀ (c : Char) (n : Nat), callsBytes (repsMaybe c n) = List.replicate n c := by
    intro c n; unfold repsMaybe; split
    · simp [callsBytes, Call.bytes]
    · rename_i h; have : n = 0 := by simpa using h
      simp [callsBytes, this]
  have happ : ∀ a b : List Call, callsBytes (a ++ b) = callsBytes a ++ callsBytes b := by
    intro a b; simp [callsBytes]
  have hbody : callsBytes (match slash with
      | some (num, den) =>
        if denShowbaselen ≠ 0 then [Call.memory num, Call.memory (sb.take denShowbaselen.toNat), Call.memory den]
        else [Call.memory s]
      | none => [Call.memory s]) = coreBody s sb slash denShowbaselen := by
    unfold coreBody
    cases slash with
    | none => simp [callsBytes, Call.bytes]
    | some nd => obtain ⟨num, den⟩ := nd; simp only; split <;> simp [callsBytes, Call.bytes]
  have hsign : callsBytes (match sign with | some c => [Call.reps c 1] | none => []) = sign.toList := by
    cases sign <;> simp [callsBytes, Call.bytes]
  unfold coreCalls
  simp only [happ, hm, hr, hbody, hsign]
  by_cases hj : justlen ≤ 0
  · have hJ0 : justlen.toNat = 0 := by omega
    simp [hj, hJ0, callsBytes]
  · cases hjj : P.justify <;> simp [hj, callsBytes, Call.bytes]

/-- doprnti.c:90 zeros -/
def cZ (P : Params) (s : List Char) : Int := max 0 (P.prec - (s.length : Int))
/-- doprnti.c:86-95 showbaselen -/
def cSL (P : Params) (s sb : List Char) : Int :=
  if ¬ (false = true) ∧ cZ P s > 0 ∧ (if P.showbase = .nonzero ∧ s.head? = some '0' then (0 : Int) else (sb.length : Int)) = 1 then 0
  else (if P.showbase = .nonzero ∧ s.head? = some '0' then (0 : Int) else (sb.length : Int))
/-- doprnti.c:81-84 den_showbaselen -/
def cDL (P : Params) (s sb : List Char) : Int :=
  match splitSlash s with
  | none => 0
  | some (_, den) => if P.showbase = .nonzero ∧ den.head? = some '0' then (0 : Int) else (sb.length : Int)
/-- doprnti.c:98-99 justlen -/
def cJ (P : Params) (sign : Option Char) (s sb : List Char) : Int :=
  P.width - ((s.length : Int) + (if sign.isSome then 1 else 0) + cSL P s sb + cDL P s sb + cZ P s)

theorem core_eq_calls (P : Params) (sign : Option Char) (s sb : List Char) :
    doprntIntegerCore false P sign s sb =
      coreCalls P sign s sb (splitSlash s) (cSL P s sb) (cDL P s sb) (cZ P s) (cJ P sign s sb) := by
  rfl

/-- the sign character that is not white space -/
def psign : Option Char → List Char
  | some c => if c = ' ' then [] else [c]
  | none => []

theorem sign_split (sign : Option Char) : ∃ m, sign.toList = List.replicate m ' ' ++ psign sign := by
  cases sign with
  | none => exact ⟨0, rfl⟩
  | some c =>
    by_cases h : c = ' '
    · exact ⟨1, by simp [psign, h]⟩
    · exact ⟨0, by simp [psign, h]⟩

/-- the bytes of `__gmp_doprnt_integer`: blanks, sign, base prefix, zeros, body, blanks -/
theorem core_shape (P : Params) (sign : Option Char) (s sb : List Char)
    (hjf : (P.justify = .left ∧ P.fill = ' ') ∨ (P.justify = .internal ∧ P.fill = '0') ∨ (P.justify = .right ∧ P.fill = ' ')) :
    ∃ a k t, callsBytes (doprntIntegerCore false P sign s sb) =
        List.replicate a ' ' ++ (psign sign ++ (sb.take (cSL P s sb).toNat ++ (List.replicate k '0' ++
          (coreBody s sb (splitSlash s) (cDL P s sb) ++ List.replicate t ' ')))) ∧
      (P.justify ≠ .left → t = 0) ∧ (cZ P s).toNat ≤ k ∧ (P.justify ≠ .internal ∨ cJ P sign s sb ≤ 0 → k = (cZ P s).toNat) := by
  rw [core_eq_calls, coreCalls_bytes]
  obtain ⟨m, hm⟩ := sign_split sign
  rw [hm]
  have rr : ∀ (c : Char) (m n : Nat) (l : List Char),
      List.replicate m c ++ (List.replicate n c ++ l) = List.replicate (m + n) c ++ l := by
    intros; rw [← List.append_assoc, List.replicate_append_replicate]
  rcases hjf with ⟨hj, hf⟩ | ⟨hj, hf⟩ | ⟨hj, hf⟩
  · refine ⟨m, (cZ P s).toNat, (cJ P sign s sb).toNat, ?_, fun h => absurd hj h, Nat.le_refl _, fun _ => rfl⟩
    simp [hj, hf, List.append_assoc]
  · refine ⟨m, (cZ P s).toNat + (cJ P sign s sb).toNat, 0, ?_, fun _ => rfl, Nat.le_add_right _ _, fun h => ?_⟩
    · simp [hj, hf, List.append_assoc, rr]
    · rcases h with h | h
      · exact absurd hj h
      · omega
  · refine ⟨(cJ P sign s sb).toNat + m, (cZ P s).toNat, 0, ?_, fun _ => rfl, Nat.le_refl _, fun _ => rfl⟩
    simp [hj, hf, List.append_assoc, rr]

/-! ### the text of `%Q` -/

/-- bytes `gmp_printf ("%<fl><w><p>Q<conv>", q)` produces according to the model; `n`, `d` = numerator and denominator as
    stored (not necessarily canonical) -/
def layoutModelQ (fl : List Char) (w : WidthArg) (p : PrecArg) (conv : Conv) (n d : Int) : List Char :=
  callsBytes (doprntIntegerG false (specParams false fl w p conv) (mpqGetStr (convBase conv) n d))

/-- numerator digits: none for 0 with precision 0 (doprnti.c:63-64) -/
def qNum (p : PrecArg) (conv : Conv) (n : Int) : List Char :=
  if n = 0 ∧ precInt p = 0 then [] else natDigits conv.base conv.upper n.natAbs
/-- the base prefix `#` asks for (doprnti.c:69-79) -/
def qSb (fl : List Char) (conv : Conv) : List Char :=
  if '#' ∈ fl then (if conv.base = 16 then (if conv.upper then ['0', 'X'] else ['0', 'x']) else if conv.base = 8 then ['0'] else []) else []
/-- `/`, base prefix and digits of the denominator; nothing for denominator 1 (mpq/get_str.c) -/
def qDen (fl : List Char) (conv : Conv) (d : Int) : List Char :=
  if d = 1 then [] else '/' :: (qSb fl conv ++ natDigits conv.base conv.upper d.natAbs)
/-- strlen of the string handed to `__gmp_doprnt_integer` (sign and precision-0 zero removed) -/
def qSlen (p : PrecArg) (conv : Conv) (n d : Int) : Nat :=
  (qNum p conv n).length + (if d = 1 then 0 else 1 + (natDigits conv.base conv.upper d.natAbs).length)
/-- the `0x` / `0X` in front of the numerator -/
def qPrefix (fl : List Char) (p : PrecArg) (conv : Conv) (n : Int) : List Char :=
  if conv.base = 16 ∧ ¬ ((qNum p conv n).head? = some '0') then qSb fl conv else []
def qSign (fl : List Char) (n : Int) : List Char := if n < 0 then ['-'] else if '+' ∈ fl then ['+'] else []
def qSignLen (fl : List Char) (n : Int) : Nat := if n < 0 ∨ '+' ∈ fl ∨ ' ' ∈ fl then 1 else 0

theorem natDigits_nohead (conv : Conv) (m : Nat) : (natDigits conv.base conv.upper m).head? ≠ some '-' ∧
    ∀ c ∈ natDigits conv.base conv.upper m, c ≠ '/' := by
  have hb2 : 2 ≤ conv.base := by cases conv <;> decide
  have hb36 : conv.base ≤ 36 := by cases conv <;> decide
  have hmem : ∀ c ∈ natDigits conv.base conv.upper m, c ≠ '/' ∧ c ≠ '-' := fun c hc =>
    digitTab_ne conv.upper c (natDigits_mem _ _ hb2 hb36 _ c hc)
  refine ⟨?_, fun c hc => (hmem c hc).1⟩
  cases h : natDigits conv.base conv.upper m with
  | nil => simp
  | cons a t => simp; exact (hmem a (by rw [h]; exact List.mem_cons_self)).2

theorem layoutModelQ_shape (fl : List Char) (w : WidthArg) (p : PrecArg) (conv : Conv) (n d : Int) (hd : 0 < d) :
    ∃ a k t, layoutModelQ fl w p conv n d =
        List.replicate a ' ' ++ (qSign fl n ++ (qPrefix fl p conv n ++ (List.replicate k '0' ++
          (qNum p conv n ++ (qDen fl conv d ++ List.replicate t ' '))))) ∧
      (¬ leftP fl w → t = 0) ∧
      ('#' ∈ fl ∧ conv.base = 8 → 1 ≤ k ∨ (qNum p conv n).head? = some '0') ∧
      (conv.base = 10 → precInt p ≤ (qSlen p conv n d : Int) →
        (¬ '0' ∈ fl ∨ leftP fl w ∨ 0 ≤ precInt p ∨ cWidth w ≤ qSignLen fl n + qSlen p conv n d) → k = 0) := by
  obtain ⟨hbase, hshow, hsign, hwidth, hprec, hjust, hfill⟩ := specParams_fields fl w p conv
  unfold layoutModelQ qPrefix
  generalize specParams false fl w p conv = P at *
  -- the string
  unfold mpqGetStr mpzGetStr
  rw [convBase_natAbs, convBase_neg]
  have hdn : ¬ d < 0 := by omega
  simp only [hdn, if_false, List.nil_append]
  obtain ⟨hnh, hnsl⟩ := natDigits_nohead conv n.natAbs
  obtain ⟨hdh, hdsl⟩ := natDigits_nohead conv d.natAbs
  have hb2 : 2 ≤ conv.base := by cases conv <;> decide
  have hb36 : conv.base ≤ 36 := by cases conv <;> decide
  have hne := natDigits_ne_nil conv.base conv.upper n.natAbs
  have hn0 : n = 0 → natDigits conv.base conv.upper n.natAbs = ['0'] := by
    intro h; rw [h]; exact natDigits_zero _ _
  have hn1 : n ≠ 0 → (natDigits conv.base conv.upper n.natAbs).head? ≠ some '0' :=
    fun h => natDigits_head_ne_zero conv.base conv.upper hb2 hb36 n.natAbs (by omega)
  have hd1 : (natDigits conv.base conv.upper d.natAbs).head? ≠ some '0' :=
    natDigits_head_ne_zero conv.base conv.upper hb2 hb36 d.natAbs (by omega)
  have hdne := natDigits_ne_nil conv.base conv.upper d.natAbs
  generalize hnd : natDigits conv.base conv.upper n.natAbs = nd at *
  generalize hdd : natDigits conv.base conv.upper d.natAbs = dd at *
  have hsgn : (if n < 0 then ['-'] else []) = (if decide (n < 0) then ['-'] else ([] : List Char)) := by
    by_cases hv : n < 0 <;> simp [hv]
  have hhead : (nd ++ if d = 1 then [] else '/' :: dd).head? ≠ some '-' := by
    cases nd with
    | nil => exact absurd rfl hne
    | cons a t => simpa using hnh
  rw [hsgn, List.append_assoc, doprntIntegerG_signed P _ _ hhead]
  have hqn : qNum p conv n = if n = 0 ∧ precInt p = 0 then [] else nd := by unfold qNum; rw [hnd]
  have hs : (if (nd ++ if d = 1 then [] else '/' :: dd).head? = some '0' ∧ P.prec = 0
      then (nd ++ if d = 1 then [] else '/' :: dd).tail else nd ++ if d = 1 then [] else '/' :: dd) =
      qNum p conv n ++ (if d = 1 then [] else '/' :: dd) := by
    rw [hqn, hprec]
    by_cases h0 : n = 0
    · rw [hn0 h0]; by_cases hp0 : precInt p = 0 <;> simp [h0, hp0]
    · have := hn1 h0
      cases nd with
      | nil => exact absurd rfl hne
      | cons a t => simp at this; simp [h0, this]
  rw [hs]
  have hq0 : (qNum p conv n).head? = some '0' ↔ (n = 0 ∧ precInt p ≠ 0) := by
    rw [hqn]
    by_cases h0 : n = 0
    · rw [hn0 h0]; by_cases hp0 : precInt p = 0 <;> simp [h0, hp0]
    · have := hn1 h0; simp [h0, this]
  have hqsl : ∀ c ∈ qNum p conv n, c ≠ '/' := by
    rw [hqn]; intro c hc; split at hc
    · cases hc
    · exact hnsl c hc
  have hqlen : (qNum p conv n ++ if d = 1 then [] else '/' :: dd).length = qSlen p conv n d := by
    unfold qSlen; rw [hdd]; by_cases h1 : d = 1 <;> simp [h1]; omega
  have hshd : (qNum p conv n ++ if d = 1 then [] else '/' :: dd).head? = some '0' ↔ (qNum p conv n).head? = some '0' := by
    cases hq : qNum p conv n with
    | nil => by_cases h1 : d = 1 <;> simp [h1]
    | cons a t => simp
  generalize qNum p conv n = NQ at *
  have hjf : (P.justify = .left ∧ P.fill = ' ') ∨ (P.justify = .internal ∧ P.fill = '0') ∨ (P.justify = .right ∧ P.fill = ' ') := by
    rw [hjust, hfill]
    by_cases h1 : leftP fl w
    · left; simp [h1]
    · by_cases h2 : '0' ∈ fl ∧ precInt p < 0
      · right; left; simp [h1, h2]
      · right; right; simp only [h1, h2, if_false, not_false_eq_true, true_and]
  obtain ⟨a, k, t, hbytes, ht, hzk, hkz⟩ :=
    core_shape P (if decide (n < 0) = true then some '-' else P.sign) (NQ ++ if d = 1 then [] else '/' :: dd) (showbaseStr P) hjf
  rw [hbytes]
  have hps : psign (if decide (n < 0) = true then some '-' else P.sign) = qSign fl n := by
    rw [hsign]; unfold qSign psign
    by_cases hv : n < 0 <;> by_cases h1 : '+' ∈ fl <;> by_cases h2 : ' ' ∈ fl <;> simp [hv, h1, h2]
  have hsl : (if decide (n < 0) = true then some '-' else P.sign).isSome = true ↔ (n < 0 ∨ '+' ∈ fl ∨ ' ' ∈ fl) := by
    rw [hsign]
    by_cases hv : n < 0 <;> by_cases h1 : '+' ∈ fl <;> by_cases h2 : ' ' ∈ fl <;> simp [hv, h1, h2]
  have hsb : showbaseStr P = qSb fl conv := by
    unfold showbaseStr qSb; rw [hshow, hbase]
    by_cases hh : '#' ∈ fl <;> cases conv <;> simp [hh, convBase, Conv.base, Conv.upper]
  have hsplit : splitSlash (NQ ++ if d = 1 then [] else '/' :: dd) = if d = 1 then none else some (NQ ++ ['/'], dd) := by
    by_cases h1 : d = 1
    · simp only [h1, if_true, List.append_nil]; exact splitSlash_none _ hqsl
    · simp only [h1, if_false]; exact splitSlash_at _ _ hqsl
  have hnz : P.showbase = .nonzero ↔ '#' ∈ fl := by rw [hshow]; by_cases hh : '#' ∈ fl <;> simp [hh]
  have hDL : cDL P (NQ ++ if d = 1 then [] else '/' :: dd) (showbaseStr P) = if d = 1 then 0 else ((qSb fl conv).length : Int) := by
    unfold cDL; rw [hsplit, hsb]
    by_cases h1 : d = 1
    · simp [h1]
    · simp only [h1, if_false]; rw [if_neg]; rintro ⟨-, h⟩; exact hd1 h
  have hbody : coreBody (NQ ++ if d = 1 then [] else '/' :: dd) (showbaseStr P)
      (splitSlash (NQ ++ if d = 1 then [] else '/' :: dd)) (cDL P (NQ ++ if d = 1 then [] else '/' :: dd) (showbaseStr P)) =
      NQ ++ qDen fl conv d := by
    rw [hDL, hsplit, hsb]; unfold coreBody qDen; rw [hdd]
    by_cases h1 : d = 1
    · simp [h1]
    · simp only [h1, if_false]
      by_cases hl : ((qSb fl conv).length : Int) ≠ 0
      · simp [hl]
      · have : qSb fl conv = [] := by
          have : (qSb fl conv).length = 0 := by omega
          exact List.length_eq_zero_iff.mp this
        simp [this]
  rw [hbody]
  have hZ : cZ P (NQ ++ if d = 1 then [] else '/' :: dd) = max 0 (precInt p - (qSlen p conv n d : Int)) := by
    unfold cZ; rw [hqlen, hprec]
  -- the base prefix: `0x` stays a prefix, the octal `0` joins the zeros
  have hpre : ∃ e, (showbaseStr P).take (cSL P (NQ ++ if d = 1 then [] else '/' :: dd) (showbaseStr P)).toNat ++ List.replicate k '0' =
      (if conv.base = 16 ∧ ¬ (NQ.head? = some '0') then qSb fl conv else []) ++ List.replicate (k + e) '0' ∧
      ('#' ∈ fl ∧ conv.base = 8 → 1 ≤ k + e ∨ NQ.head? = some '0') ∧ (conv.base = 10 → e = 0) := by
    unfold cSL
    rw [hsb]
    simp only [hshd, hnz]
    have hzk' : cZ P (NQ ++ if d = 1 then [] else '/' :: dd) > 0 → 1 ≤ k := by intro h; omega
    generalize cZ P (NQ ++ if d = 1 then [] else '/' :: dd) = Z at *
    by_cases hh : '#' ∈ fl
    · rcases ConvBase_base _ _ (conv_ConvBase conv) with h8 | h10 | h16
      · have hq : qSb fl conv = ['0'] := by unfold qSb; simp [hh, h8]
        rw [hq]
        by_cases h0 : NQ.head? = some '0'
        · exact ⟨0, by simp [hh, h0, h8], fun _ => Or.inr h0, fun _ => rfl⟩
        · by_cases hz : Z > 0
          · exact ⟨0, by simp [hh, h0, h8, hz], fun _ => Or.inl (by have := hzk' hz; omega), fun _ => rfl⟩
          · exact ⟨1, by simp [hh, h0, h8, hz, List.replicate_succ], fun _ => Or.inl (by omega), fun h => by omega⟩
      · have hq : qSb fl conv = [] := by unfold qSb; simp [hh, h10]
        rw [hq]
        exact ⟨0, by simp [h10], fun h => by omega, fun _ => rfl⟩
      · have hq : (qSb fl conv).length = 2 := by unfold qSb; cases conv.upper <;> simp [hh, h16]
        by_cases h0 : NQ.head? = some '0'
        · exact ⟨0, by simp [hh, h0, h16], fun h => by omega, fun _ => rfl⟩
        · refine ⟨0, ?_, fun h => by omega, fun _ => rfl⟩
          simp only [hh, h0, and_false, if_false, hq, true_and, not_false_eq_true, and_true, h16, if_true]
          have h21 : ¬ (((2 : Nat) : Int) = 1) := by omega
          have ht2 : List.take 2 (qSb fl conv) = qSb fl conv := List.take_of_length_le (by omega)
          simp [h21, ht2]
    · have hq : qSb fl conv = [] := by unfold qSb; simp [hh]
      rw [hq]
      exact ⟨0, by simp, fun h => absurd h.1 hh, fun _ => rfl⟩
  obtain ⟨e, he, hoct, hdece⟩ := hpre
  refine ⟨a, k + e, t, ?_, ?_, hoct, ?_⟩
  · rw [hps, ← List.append_assoc ((showbaseStr P).take _), he]
    simp only [List.append_assoc]
  · intro hl; apply ht; rw [hjust]; simp only [hl, if_false]; split <;> simp
  · intro h10 hpl hor
    rw [hdece h10, Nat.add_zero]
    have hz0 : (cZ P (NQ ++ if d = 1 then [] else '/' :: dd)).toNat = 0 := by rw [hZ]; omega
    rw [← hz0]
    apply hkz
    rcases hor with h | h | h | h
    · left; rw [hjust]; by_cases hl : leftP fl w <;> simp [hl, h]
    · left; rw [hjust]; simp [h]
    · left; rw [hjust]; by_cases hl : leftP fl w <;> simp [hl]; omega
    · right
      have hq : qSb fl conv = [] := by unfold qSb; by_cases hh : '#' ∈ fl <;> simp [hh, h10]
      have hSL : cSL P (NQ ++ if d = 1 then [] else '/' :: dd) (showbaseStr P) = 0 := by
        unfold cSL; rw [hsb, hq]; simp
      have hc0 : cZ P (NQ ++ if d = 1 then [] else '/' :: dd) ≥ 0 := by unfold cZ; omega
      have hcz : cZ P (NQ ++ if d = 1 then [] else '/' :: dd) = 0 := by omega
      unfold cJ
      rw [hSL, hDL, hq, hqlen, hwidth, hcz]
      have : (if (if decide (n < 0) = true then some '-' else P.sign).isSome = true then (1 : Int) else 0) = (qSignLen fl n : Int) := by
        unfold qSignLen
        by_cases hc : (n < 0 ∨ '+' ∈ fl ∨ ' ' ∈ fl)
        · rw [if_pos (hsl.mpr hc), if_pos hc]; rfl
        · rw [if_neg (fun h => hc (hsl.mp h)), if_neg hc]; rfl
      rw [this]
      split <;> simp <;> omega

/-! ### base detection on the two parts of a printed rational -/

theorem sep_not_digit (b : Nat) (hb : b = 8 ∨ b = 10 ∨ b = 16) (R : List Char)
    (hR : ∀ c, R.head? = some c → c = '/' ∨ c = ' ') : ∀ c, R.head? = some c → isDigitIn b c = false := by
  intro c hc
  rcases hR c hc with h | h <;> subst h <;> rcases hb with h | h | h <;> rw [h] <;> decide

theorem sep_head (R : List Char) (hR : ∀ c, R.head? = some c → c = '/' ∨ c = ' ') :
    R.head? ≠ some 'x' ∧ R.head? ≠ some 'X' ∧ R.head? ≠ some '0' := by
  refine ⟨?_, ?_, ?_⟩ <;> intro h <;> rcases hR _ h with h' | h' <;> cases h'

/-- the numerator as `%Qi` sees it -/
theorem qi_num_key (fl : List Char) (p : PrecArg) (conv : Conv) (n : Int) (k : Nat) (R : List Char)
    (hR : ∀ c, R.head? = some c → c = '/' ∨ c = ' ')
    (hdig : ¬ (n = 0 ∧ precInt p = 0 ∧ ¬ ('#' ∈ fl ∧ conv = .o)))
    (hhash : conv.base ≠ 10 → n ≠ 0 → '#' ∈ fl)
    (hk8 : '#' ∈ fl ∧ conv.base = 8 → 1 ≤ k ∨ (qNum p conv n).head? = some '0')
    (hk0 : conv.base = 10 → n ≠ 0 → k = 0) :
    ∃ pre body b, qPrefix fl p conv n ++ (List.replicate k '0' ++ (qNum p conv n ++ R)) = pre ++ (body ++ R) ∧
      Shape 0 b pre body R ∧ (pre = ['0'] ∨ body ≠ []) ∧ strVal b body = n.natAbs := by
  have hcb := conv_ConvBase conv
  have hb := ConvBase_base _ _ hcb
  have hb2 : 2 ≤ conv.base := by omega
  have hb36 : conv.base ≤ 36 := by omega
  obtain ⟨hval, hdigs⟩ := natDigits_props conv.base conv.upper (by omega) (digitChar_props _ _ hcb) n.natAbs
  obtain ⟨hRx, hRX, hR0⟩ := sep_head R hR
  by_cases hv : n = 0
  · -- zeros only
    have hq : qNum p conv n = [] ∨ qNum p conv n = ['0'] := by
      unfold qNum; rw [hv]; split
      · left; rfl
      · right; exact natDigits_zero _ _
    have hpre : qPrefix fl p conv n = [] := by
      unfold qPrefix
      by_cases h16 : conv.base = 16
      · rcases hq with h | h
        · exfalso; apply hdig
          have hq' : qNum p conv n = [] := h
          unfold qNum at hq'
          split at hq'
          · rename_i h3; refine ⟨h3.1, h3.2, ?_⟩; rintro ⟨-, h6⟩; rw [h6] at h16; cases h16
          · exact absurd hq' (natDigits_ne_nil _ _ _)
        · simp [h]
      · simp [h16]
    obtain ⟨m, hm1⟩ : ∃ m, List.replicate k '0' ++ qNum p conv n = '0' :: List.replicate m '0' := by
      rcases hq with h | h
      · have hk1 : 1 ≤ k := by
          by_contra hk
          apply hdig
          have hq' : qNum p conv n = [] := h
          unfold qNum at hq'
          split at hq'
          · rename_i h3
            refine ⟨h3.1, h3.2, ?_⟩
            intro h4
            rcases hk8 ⟨h4.1, by rw [h4.2]; rfl⟩ with h5 | h5
            · omega
            · rw [h] at h5; cases h5
          · exact absurd hq' (natDigits_ne_nil _ _ _)
        exact ⟨k - 1, by rw [h, List.append_nil, ← List.replicate_succ]; congr 1; omega⟩
      · exact ⟨k, by rw [h, ← List.replicate_succ, List.replicate_succ']⟩
    refine ⟨['0'], List.replicate m '0', 8, ?_, ⟨?_, sep_not_digit 8 (by simp) R hR, Or.inr (Or.inr (Or.inl ⟨rfl, rfl, rfl, ?_, ?_⟩))⟩,
      Or.inl rfl, ?_⟩
    · rw [hpre, List.nil_append, ← List.append_assoc, hm1]; rfl
    · intro c hc; rw [(List.mem_replicate.mp hc).2]; decide
    · cases m with
      | zero => simpa using hRx
      | succ j => simp [List.replicate_succ]
    · cases m with
      | zero => simpa using hRX
      | succ j => simp [List.replicate_succ]
    · have := strVal_zeros 8 m []; rw [List.append_nil] at this; rw [this, hv]; rfl
  · have hm : n.natAbs ≠ 0 := by omega
    have hpd : qNum p conv n = natDigits conv.base conv.upper n.natAbs := by
      unfold qNum; rw [if_neg]; rintro ⟨h, -⟩; exact hv h
    have hhd := natDigits_head_ne_zero conv.base conv.upper hb2 hb36 n.natAbs hm
    have hne := natDigits_ne_nil conv.base conv.upper n.natAbs
    unfold qPrefix
    rw [hpd] at hk8 ⊢
    generalize natDigits conv.base conv.upper n.natAbs = ds at *
    obtain ⟨d0, dt, rfl⟩ : ∃ d0 dt, ds = d0 :: dt := by
      cases ds with
      | nil => exact absurd rfl hne
      | cons c t => exact ⟨c, t, rfl⟩
    have hd0 : d0 ≠ '0' := by simpa using hhd
    have hd0s := digit_not_special conv.base d0 (hdigs d0 List.mem_cons_self)
    rcases hb with h8 | h10 | h16
    · have hh : '#' ∈ fl := hhash (by rw [h8]; decide) hv
      have hk1 : 1 ≤ k := by
        rcases hk8 ⟨hh, h8⟩ with h | h
        · exact h
        · simp at h; exact absurd h hd0
      obtain ⟨k', rfl⟩ : ∃ k', k = k' + 1 := ⟨k - 1, by omega⟩
      rw [h8] at hval hdigs
      refine ⟨['0'], List.replicate k' '0' ++ (d0 :: dt), 8, ?_,
        ⟨?_, sep_not_digit 8 (by simp) R hR, Or.inr (Or.inr (Or.inl ⟨rfl, rfl, rfl, ?_, ?_⟩))⟩, Or.inl rfl, ?_⟩
      · simp [h8, List.replicate_succ]
      · intro c hc
        rcases List.mem_append.mp hc with h | h
        · rw [(List.mem_replicate.mp h).2]; decide
        · exact hdigs c h
      · cases k' with
        | zero => simpa using hd0s.2.2.2.1
        | succ j => simp [List.replicate_succ]
      · cases k' with
        | zero => simpa using hd0s.2.2.2.2.1
        | succ j => simp [List.replicate_succ]
      · rw [strVal_zeros]; exact hval
    · have hk : k = 0 := hk0 h10 hv
      rw [h10] at hval hdigs
      refine ⟨[], d0 :: dt, 10, ?_, ⟨hdigs, sep_not_digit 10 (by simp) R hR, Or.inr (Or.inl ⟨rfl, rfl, rfl, by simpa using hd0⟩)⟩,
        Or.inr (by simp), hval⟩
      rw [hk]; simp [h10]
    · have hh : '#' ∈ fl := hhash (by rw [h16]; decide) hv
      have hsb : qSb fl conv = (if conv.upper then ['0', 'X'] else ['0', 'x']) := by unfold qSb; simp [hh, h16]
      rw [h16] at hval hdigs
      refine ⟨if conv.upper then ['0', 'X'] else ['0', 'x'], List.replicate k '0' ++ (d0 :: dt), 16, ?_,
        ⟨?_, sep_not_digit 16 (by simp) R hR, Or.inr (Or.inr (Or.inr ⟨rfl, rfl, ?_⟩))⟩, Or.inr (by simp), ?_⟩
      · rw [hsb]; simp [h16, hd0]
      · intro c hc
        rcases List.mem_append.mp hc with h | h
        · rw [(List.mem_replicate.mp h).2]; decide
        · exact hdigs c h
      · cases conv.upper <;> simp
      · rw [strVal_zeros]; exact hval

/-- the denominator (≠ 1) as `%Qi` sees it -/
theorem qi_den_key (fl : List Char) (conv : Conv) (d : Int) (hd : 0 < d) (R : List Char)
    (hR : ∀ c, R.head? = some c → c = '/' ∨ c = ' ')
    (hhash : conv.base ≠ 10 → '#' ∈ fl) :
    ∃ pre body b, qSb fl conv ++ natDigits conv.base conv.upper d.natAbs = pre ++ body ∧
      Shape 0 b pre body R ∧ (pre = ['0'] ∨ body ≠ []) ∧ strVal b body = d.natAbs := by
  have hcb := conv_ConvBase conv
  have hb := ConvBase_base _ _ hcb
  have hb2 : 2 ≤ conv.base := by omega
  have hb36 : conv.base ≤ 36 := by omega
  obtain ⟨hval, hdigs⟩ := natDigits_props conv.base conv.upper (by omega) (digitChar_props _ _ hcb) d.natAbs
  have hhd := natDigits_head_ne_zero conv.base conv.upper hb2 hb36 d.natAbs (by omega)
  have hne := natDigits_ne_nil conv.base conv.upper d.natAbs
  generalize natDigits conv.base conv.upper d.natAbs = ds at *
  obtain ⟨d0, dt, rfl⟩ : ∃ d0 dt, ds = d0 :: dt := by
    cases ds with
    | nil => exact absurd rfl hne
    | cons c t => exact ⟨c, t, rfl⟩
  have hd0 : d0 ≠ '0' := by simpa using hhd
  have hd0s := digit_not_special conv.base d0 (hdigs d0 List.mem_cons_self)
  rcases hb with h8 | h10 | h16
  · have hh : '#' ∈ fl := hhash (by rw [h8]; decide)
    have hsb : qSb fl conv = ['0'] := by unfold qSb; simp [hh, h8]
    rw [h8] at hval hdigs
    exact ⟨['0'], d0 :: dt, 8, by rw [hsb], ⟨hdigs, sep_not_digit 8 (by simp) R hR,
      Or.inr (Or.inr (Or.inl ⟨rfl, rfl, rfl, by simpa using hd0s.2.2.2.1, by simpa using hd0s.2.2.2.2.1⟩))⟩, Or.inl rfl, hval⟩
  · have hsb : qSb fl conv = [] := by unfold qSb; split <;> simp [h10]
    rw [h10] at hval hdigs
    exact ⟨[], d0 :: dt, 10, by rw [hsb], ⟨hdigs, sep_not_digit 10 (by simp) R hR,
      Or.inr (Or.inl ⟨rfl, rfl, rfl, by simpa using hd0⟩)⟩, Or.inr (by simp), hval⟩
  · have hh : '#' ∈ fl := hhash (by rw [h16]; decide)
    have hsb : qSb fl conv = (if conv.upper then ['0', 'X'] else ['0', 'x']) := by unfold qSb; simp [hh, h16]
    rw [h16] at hval hdigs
    refine ⟨if conv.upper then ['0', 'X'] else ['0', 'x'], d0 :: dt, 16, by rw [hsb], ⟨hdigs, sep_not_digit 16 (by simp) R hR,
      Or.inr (Or.inr (Or.inr ⟨rfl, rfl, ?_⟩))⟩, Or.inr (by simp), hval⟩
    cases conv.upper <;> simp

end Mpir.Scanf
