/- mpz_gcdext on the pointer-level model (Mpir/Model/AliasGcdext.lean): every assignment of (g, s, t, a, b) — s, t possibly
   NULL, g / s / t possibly a or b, a possibly b — yields the values of the value-level model `Gcd.mpz_gcdext`. -/
import MpirProofs.Lemmas.AliasGcd
import MpirProofs.Lemmas.GcdExtZ
import MpirProofs.Lemmas.AliasMul
import Mpir.Model.AliasGcdext
namespace Mpir.AliasMem
open Mpir
open Mpir.DivZ (sizeNat siz sameSign)

/-! ### small facts -/

theorem gx_toLimbs_val : ∀ (l : List Nat), Limbs l → toLimbs l.length (val l) = l
  | [], _ => rfl
  | x :: xs, h => by
    have hx := Limbs_cons.mp h
    simp only [List.length_cons, toLimbs, val_cons]
    rw [Nat.add_mul_mod_self_left, Nat.mod_eq_of_lt hx.1, Nat.add_mul_div_left _ _ B_pos, Nat.div_eq_of_lt hx.1,
      Nat.zero_add, gx_toLimbs_val xs hx.2]

theorem gx_siz_natCast (m : Nat) : siz (m : Int) = (sizeNat m : Int) := by
  unfold siz; simp

theorem gx_realloc_nv (s : St) (v n : Nat) : (s.mpzRealloc v n).nv = s.nv := by
  unfold St.mpzRealloc; split <;> rfl

theorem realloc_blk_ne (s : St) (v n p : Nat) (h1 : p ≠ s.ptr v) (h2 : p ≠ s.next) :
    (s.mpzRealloc v n).blk p = s.blk p := by
  unfold St.mpzRealloc; split
  · simp [St.setVar, St.malloc, St.free, St.setBlk, h1, h2]
  · rfl

/-- blocks that belong to no variable (TMP space) survive a step, and still belong to no variable -/
def Keep (s s' : St) : Prop :=
  ∀ p, (∀ i, i < s.nv → s.ptr i ≠ p) → p < s.next →
    (∀ i, i < s'.nv → s'.ptr i ≠ p) ∧ p < s'.next ∧ s'.blk p = s.blk p

theorem Keep.refl (s : St) : Keep s s := fun _ h1 h2 => ⟨h1, h2, rfl⟩

theorem Keep.trans {a b c : St} (h1 : Keep a b) (h2 : Keep b c) : Keep a c := fun p hp hlt => by
  obtain ⟨x1, x2, x3⟩ := h1 p hp hlt
  obtain ⟨y1, y2, y3⟩ := h2 p x1 x2
  exact ⟨y1, y2, y3.trans x3⟩

theorem realloc_keep (s : St) {w : Nat} (hw : w < s.nv) (n : Nat) : Keep s (s.mpzRealloc w n) := fun p hp hlt => by
  refine ⟨fun i hi => ?_, Nat.lt_of_lt_of_le hlt (realloc_next_le s w n), realloc_blk_ne s w n p (Ne.symm (hp w hw)) (by omega)⟩
  rw [gx_realloc_nv] at hi
  rw [realloc_ptr]; split
  · omega
  · exact hp i hi

theorem upd_keep {s s' : St} {w : Nat} (u : Upd s s' w) (hw : w < s.nv) : Keep s s' := fun p hp hlt => by
  refine ⟨fun i hi => ?_, by rw [u.next]; exact hlt, u.blk_o p (Ne.symm (hp w hw))⟩
  rw [u.nv] at hi; rw [u.ptr]; exact hp i hi

/-- `MPZ_REALLOC (w, n); MPN_COPY (PTR (w), src, n); SIZ (w) = sz` from a TMP block holding the normalised magnitude of z -/
theorem gcdextOut_ok {s : St} (h : Inv s) {w : Nat} (hw : w < s.nv) {src : Nat} (z : Int) {rest : List Nat}
    (hnv : ∀ i, i < s.nv → s.ptr i ≠ src) (hlt : src < s.next)
    (hsrc : s.blk src = some (toLimbs (sizeNat z.natAbs) z.natAbs ++ rest)) :
    ∃ s', gcdextOut w src (sizeNat z.natAbs) (siz z) s = .ok s' ∧ Res s s' w z ∧ Keep s s' := by
  obtain ⟨i1, nv1, size1, val1, a1, _⟩ := realloc_spec h hw (sizeNat z.natAbs)
  have k1 := realloc_keep s hw (sizeNat z.natAbs)
  obtain ⟨s', e', hres, u'⟩ := setInt_spec i1 (v := w) (by rw [nv1]; exact hw) z a1
  refine ⟨s', ?_, ⟨hres.1, hres.2.1.trans nv1, hres.2.2.1, fun i hi hiw =>
    (hres.2.2.2 i (by rw [nv1]; exact hi) hiw).trans (val1 i hi)⟩, Keep.trans k1 (upd_keep u' (by rw [nv1]; exact hw))⟩
  unfold gcdextOut
  have hb : (s.mpzRealloc w (sizeNat z.natAbs)).blk src = some (toLimbs (sizeNat z.natAbs) z.natAbs ++ rest) := by
    rw [(k1 src hnv hlt).2.2, hsrc]
  have hl : (s.mpzRealloc w (sizeNat z.natAbs)).load src (sizeNat z.natAbs) = .ok (toLimbs (sizeNat z.natAbs) z.natAbs) := by
    unfold St.load; rw [hb]; simp [toLimbs_length]
  simp only [bind, Except.bind, hl]
  exact e'

/-- `SIZ (x) = sz; PTR (x)[0] = 1;` with sz ∈ {1, 0, -1} (gcdext.c:63-64) -/
theorem setOne_ok {s : St} (h : Inv s) {x : Nat} (hx : x < s.nv) (hal : 1 ≤ s.alloc x) (sz : Int)
    (hsz : sz = 1 ∨ sz = 0 ∨ sz = -1) :
    ∃ s', (s.setSize x sz).storeAt ((s.setSize x sz).ptr x) 0 [1] = .ok s' ∧ Inv s' ∧ Upd s s' x ∧ s'.value x = sz := by
  obtain ⟨b, hb, hbl, hbL⟩ := h.live x hx
  have hp : (s.setSize x sz).ptr x = s.ptr x := by simp [St.setSize, St.setVar, St.ptr]
  rw [hp, storeAt_ok (show (s.setSize x sz).blk (s.ptr x) = some b from hb) (by simp; omega)]
  have hL1 : Limbs [1] := by intro y hy; simp at hy; rw [hy, B_eq]; decide
  have hlen : (wrAt b 0 [1]).length = s.alloc x := by rw [wrAt_length (by simp; omega)]; exact hbl
  have hs1 : sizeNat 1 = 1 := sizeNat_eq (by simp) (by rw [B_eq]; decide) (Nat.le_refl 1)
  have hs0 : sizeNat 0 = 0 := DivZ.sizeNat_eq_zero.mpr rfl
  have ht1 : val ((wrAt b 0 [1]).take 1) = 1 := by rw [wrAt_zero]; simp
  have hE : (s.setSize x sz).setBlk (s.ptr x) (some (wrAt b 0 [1])) = s.put x (wrAt b 0 [1]) sz := rfl
  rw [hE]
  rcases hsz with e | e | e
  · have p := put_upd h hx (wrAt b 0 [1]) 1 false hlen (Limbs_wrAt hbL hL1) (by rw [hs1]; exact hal) (by rw [hs1]; exact ht1)
    simp only [hs1, Bool.false_eq_true, if_false] at p
    subst e
    exact ⟨_, rfl, p.1, p.2.1, by simpa using p.2.2⟩
  · have p := put_upd h hx (wrAt b 0 [1]) 0 false hlen (Limbs_wrAt hbL hL1) (by rw [hs0]; omega) (by rw [hs0]; simp)
    simp only [hs0, Bool.false_eq_true, if_false] at p
    subst e
    exact ⟨_, rfl, p.1, p.2.1, by simpa using p.2.2⟩
  · have p := put_upd h hx (wrAt b 0 [1]) 1 true hlen (Limbs_wrAt hbL hL1) (by rw [hs1]; exact hal) (by rw [hs1]; exact ht1)
    simp only [hs1, if_true] at p
    subst e
    exact ⟨_, rfl, p.1, p.2.1, by simpa using p.2.2⟩

/-! ### the mpn call (gcdext.c:77) -/

theorem gx_store_nonvar {s : St} (h : Inv s) {p : Nat} (hp : ∀ i, i < s.nv → s.ptr i ≠ p) (hlt : p < s.next)
    {b : List Nat} (hb : s.blk p = some b) (l : List Nat) (hl : l.length ≤ b.length) :
    ∃ s', s.store p l = .ok s' ∧ Inv s' ∧ s'.nv = s.nv ∧ s'.vars = s.vars ∧ s'.next = s.next ∧
      s'.blk p = some (l ++ b.drop l.length) ∧ (∀ q, q ≠ p → s'.blk q = s.blk q) ∧
      ∀ i, i < s.nv → s'.value i = s.value i := by
  obtain ⟨i1, v1⟩ := setBlk_nonvar h hp hlt (l ++ b.drop l.length)
  refine ⟨s.setBlk p (some (l ++ b.drop l.length)), ?_, i1, rfl, rfl, rfl, by simp [St.setBlk], fun q hq => by simp [St.setBlk, hq], v1⟩
  unfold St.store; rw [hb]; simp only []; rw [if_pos hl]

theorem mpn_gcdext_ok {s : St} (h : Inv s) {gp sp ap bp an n : Nat} {A Bl bg bs : List Nat}
    (hd : ¬ (ap = bp ∨ gp = sp ∨ gp = ap ∨ gp = bp ∨ sp = ap ∨ sp = bp))
    (hap : ∀ i, i < s.nv → s.ptr i ≠ ap) (hbp : ∀ i, i < s.nv → s.ptr i ≠ bp)
    (hgp : ∀ i, i < s.nv → s.ptr i ≠ gp) (hsp : ∀ i, i < s.nv → s.ptr i ≠ sp)
    (lap : ap < s.next) (lbp : bp < s.next) (lgp : gp < s.next) (lsp : sp < s.next)
    (hA : s.blk ap = some A) (hAl : A.length = an) (hB : s.blk bp = some Bl) (hBl : Bl.length = n)
    (hn : 1 ≤ n ∧ n ≤ an) (htop : Bl.getD (n - 1) 0 ≠ 0)
    (hbg : s.blk gp = some bg) (hbs : s.blk sp = some bs)
    (hfitG : sizeNat (Gcd.mpn_gcdext (val A) an (val Bl) n).1 ≤ bg.length)
    (hfitS : sizeNat (Gcd.mpn_gcdext (val A) an (val Bl) n).2.natAbs ≤ bs.length) :
    ∃ s', mpn_gcdext gp sp ap an bp n s = .ok (sizeNat (Gcd.mpn_gcdext (val A) an (val Bl) n).1,
        siz (Gcd.mpn_gcdext (val A) an (val Bl) n).2, s') ∧
      Inv s' ∧ s'.nv = s.nv ∧ s'.vars = s.vars ∧ s'.next = s.next ∧ (∀ i, i < s.nv → s'.value i = s.value i) ∧
      (∃ ra, s'.blk ap = some ra) ∧ (∃ rb, s'.blk bp = some rb) ∧
      s'.blk gp = some (toLimbs (sizeNat (Gcd.mpn_gcdext (val A) an (val Bl) n).1) (Gcd.mpn_gcdext (val A) an (val Bl) n).1 ++
          bg.drop (sizeNat (Gcd.mpn_gcdext (val A) an (val Bl) n).1)) ∧
      s'.blk sp = some (toLimbs (sizeNat (Gcd.mpn_gcdext (val A) an (val Bl) n).2.natAbs)
          (Gcd.mpn_gcdext (val A) an (val Bl) n).2.natAbs ++ bs.drop (sizeNat (Gcd.mpn_gcdext (val A) an (val Bl) n).2.natAbs)) := by
  have hne : ap ≠ bp ∧ gp ≠ sp ∧ gp ≠ ap ∧ gp ≠ bp ∧ sp ≠ ap ∧ sp ≠ bp := by
    refine ⟨fun e => hd ?_, fun e => hd ?_, fun e => hd ?_, fun e => hd ?_, fun e => hd ?_, fun e => hd ?_⟩ <;> simp [e]
  obtain ⟨n1, n2, n3, n4, n5, n6⟩ := hne
  have lA : s.load ap an = .ok A := by rw [← hAl]; exact load_of_blk hA
  have lB : s.load bp n = .ok Bl := by rw [← hBl]; exact load_of_blk hB
  set r := Gcd.mpn_gcdext (val A) an (val Bl) n with hr
  obtain ⟨s1, e1, i1, nv1, vars1, next1, b1, o1, v1⟩ := gx_store_nonvar h hap lap hA (List.replicate an junk) (by simp [hAl])
  have ptr1 : ∀ i, s1.ptr i = s.ptr i := fun i => by unfold St.ptr; rw [vars1]
  obtain ⟨s2, e2, i2, nv2, vars2, next2, b2, o2, v2⟩ := gx_store_nonvar i1 (p := bp) (fun i hi => by rw [ptr1]; exact hbp i (by rw [← nv1]; exact hi))
    (by rw [next1]; exact lbp) (by rw [o1 bp (Ne.symm n1)]; exact hB) (List.replicate n junk) (by simp [hBl])
  have ptr2 : ∀ i, s2.ptr i = s.ptr i := fun i => by unfold St.ptr; rw [vars2, vars1]
  obtain ⟨s3, e3, i3, nv3, vars3, next3, b3, o3, v3⟩ := gx_store_nonvar i2 (p := gp) (fun i hi => by rw [ptr2]; exact hgp i (by rw [← nv1, ← nv2]; exact hi))
    (by rw [next2, next1]; exact lgp) (by rw [o2 gp n4, o1 gp n3]; exact hbg) (toLimbs (sizeNat r.1) r.1) (by rw [toLimbs_length]; exact hfitG)
  have ptr3 : ∀ i, s3.ptr i = s.ptr i := fun i => by unfold St.ptr; rw [vars3, vars2, vars1]
  obtain ⟨s4, e4, i4, nv4, vars4, next4, b4, o4, v4⟩ := gx_store_nonvar i3 (p := sp) (fun i hi => by rw [ptr3]; exact hsp i (by rw [← nv1, ← nv2, ← nv3]; exact hi))
    (by rw [next3, next2, next1]; exact lsp) (by rw [o3 sp (Ne.symm n2), o2 sp n6, o1 sp n5]; exact hbs)
    (toLimbs (sizeNat r.2.natAbs) r.2.natAbs) (by rw [toLimbs_length]; exact hfitS)
  refine ⟨s4, ?_, i4, by rw [nv4, nv3, nv2, nv1], by rw [vars4, vars3, vars2, vars1], by rw [next4, next3, next2, next1],
    fun i hi => ?_, ⟨_, by rw [o4 ap (Ne.symm n5), o3 ap (Ne.symm n3), o2 ap n1, b1]⟩,
    ⟨_, by rw [o4 bp (Ne.symm n6), o3 bp (Ne.symm n4), b2]⟩, by rw [o4 gp n2, b3, toLimbs_length], by rw [b4, toLimbs_length]⟩
  · unfold mpn_gcdext
    have hs : ¬ ¬ (1 ≤ n ∧ n ≤ an) := by tauto
    simp only [bind, Except.bind, hd, if_false, lA, lB, hs, htop, pure, Except.pure, ← hr, e1, e2, e3, e4]
  · rw [v4 i (by rw [nv3, nv2, nv1]; exact hi), v3 i (by rw [nv2, nv1]; exact hi), v2 i (by rw [nv1]; exact hi), v1 i hi]

/-! ### the `bsize == 0` exit (gcdext.c:50-67) -/

theorem gcdextZero_ok {st : St} (h : Inv st) {g a : Nat} {sv tv : Option Nat}
    (hg : g < st.nv) (ha : a < st.nv) (hs : ∀ x ∈ sv, x < st.nv) (ht : ∀ x ∈ tv, x < st.nv)
    (hgs : g ∉ sv) (hgt : g ∉ tv) (hst : ∀ x ∈ sv, x ∉ tv) (has : ∀ x ∈ sv, 1 ≤ st.alloc x) :
    ∃ st', gcdextZero g sv tv a (st.size a).natAbs st = .ok st' ∧ Inv st' ∧ st'.nv = st.nv ∧
      st'.value g = ((st.value a).natAbs : Int) ∧
      (∀ x ∈ sv, st'.value x = (if st.value a ≥ 0 then (if (st.size a).natAbs ≠ 0 then 1 else 0) else -1)) ∧
      (∀ x ∈ tv, st'.value x = 0) ∧
      ∀ i, i < st.nv → i ≠ g → i ∉ sv → i ∉ tv → st'.value i = st.value i := by
  unfold gcdextZero
  simp only [bind, Except.bind, pure, Except.pure]
  set n := (st.size a).natAbs with hn
  obtain ⟨i1, nv1, size1, val1, a1, ag1⟩ := realloc_spec h hg n
  set s1 := st.mpzRealloc g n with hs1
  have hg1 : g < s1.nv := by rw [nv1]; exact hg
  have ha1 : a < s1.nv := by rw [nv1]; exact ha
  have hl := i1.load_var ha1; rw [size1, ← hn] at hl
  rw [hl]; simp only []
  have hls := i1.limbs_spec ha1; rw [size1, ← hn] at hls
  have hsn := i1.size_natAbs ha1; rw [size1, ← hn] at hsn
  have hmag : s1.mag a = st.mag a := by rw [← value_natAbs, ← value_natAbs, val1 a ha]
  -- :56-57 is `setInt g |a|`
  have hlim : s1.limbs a = toLimbs (sizeNat ((s1.mag a : Int)).natAbs) ((s1.mag a : Int)).natAbs := by
    simp only [Int.natAbs_natCast]
    rw [← hsn, ← hls.1]; exact (gx_toLimbs_val _ hls.2).symm
  obtain ⟨s2, e2, r2, u2⟩ := setInt_spec i1 hg1 (s1.mag a : Int) (by simpa [← hsn] using a1)
  obtain ⟨bg, hbg, hbgl, hbgL, hstg⟩ := store_var i1 hg1 (s1.limbs a) (by rw [hls.1]; exact a1)
  rw [hstg]; simp only []
  have hX : (s1.setBlk (s1.ptr g) (some (s1.limbs a ++ bg.drop (s1.limbs a).length))).setSize g (n : Int) = s2 := by
    have e := e2
    unfold St.setInt at e
    rw [← hlim] at e
    simp only [bind, Except.bind, hstg, pure, Except.pure] at e
    rw [gx_siz_natCast, ← hsn] at e
    exact Except.ok.inj e
  rw [hX]
  obtain ⟨i2, nv2, vg2, vo2⟩ := r2
  -- :59-60
  have hstep3 : ∃ s3, s2.zeroOpt tv = s3 ∧ Inv s3 ∧ s3.nv = st.nv ∧
      (∀ i, s3.alloc i = s2.alloc i) ∧ (∀ x ∈ tv, s3.value x = 0) ∧ ∀ i, i < st.nv → i ∉ tv → s3.value i = s2.value i := by
    cases tv with
    | none => exact ⟨s2, rfl, i2, nv2.trans nv1, fun _ => rfl, fun x hx => by simp at hx, fun i _ _ => rfl⟩
    | some t =>
      have ht2 : t < s2.nv := by rw [nv2, nv1]; exact ht t rfl
      obtain ⟨i3, u3, v3⟩ := setSize_zero_spec i2 ht2
      refine ⟨s2.setSize t 0, rfl, i3, by rw [u3.nv, nv2, nv1], u3.alloc, fun x hx => ?_, fun i hi hit => ?_⟩
      · have : x = t := by simpa using hx.symm
        rw [this]; exact v3
      · exact u3.value_o i2 ht2 (by rw [nv2, nv1]; exact hi) (fun e => hit (by simp [e]))
  obtain ⟨s3, e3, i3, nv3, al3, vt3, vo3⟩ := hstep3
  rw [e3]
  have hvg3 : s3.value g = ((st.value a).natAbs : Int) := by
    rw [vo3 g hg hgt, vg2, hmag, value_natAbs]
  have hvo3 : ∀ i, i < st.nv → i ≠ g → i ∉ tv → s3.value i = st.value i := fun i hi hig hit => by
    rw [vo3 i hi hit, vo2 i (by rw [nv1]; exact hi) hig, val1 i hi]
  -- :61-65
  cases sv with
  | none =>
    exact ⟨s3, rfl, i3, nv3, hvg3, fun x hx => by simp at hx, vt3, fun i hi hig _ hit => hvo3 i hi hig hit⟩
  | some x =>
    have hx0 : x < st.nv := hs x rfl
    have hx3 : x < s3.nv := by rw [nv3]; exact hx0
    have hal3 : 1 ≤ s3.alloc x := by
      have h1 := has x rfl
      have h2 := ag1 x
      rw [al3, u2.alloc]; omega
    have hxg : x ≠ g := fun e => hgs (by simp [e])
    have hxt : x ∉ tv := hst x rfl
    simp only []
    obtain ⟨s4, e4, i4, u4, v4⟩ := setOne_ok i3 hx3 hal3
      (if st.size a ≥ 0 then (if n ≠ 0 then 1 else 0) else -1) (by split <;> [split <;> simp; simp])
    refine ⟨s4, e4, i4, by rw [u4.nv, nv3], ?_, fun y hy => ?_, fun y hy => ?_, fun i hi hig his hit => ?_⟩
    · rw [u4.value_o i3 hx3 (by rw [nv3]; exact hg) (Ne.symm hxg), hvg3]
    · have : y = x := by simpa using hy.symm
      rw [this, v4]
      have := h.size_neg_iff ha
      have hiff : (st.size a ≥ 0) ↔ (st.value a ≥ 0) := by omega
      simp only [hiff]
    · have hyx : y ≠ x := fun e => hxt (by rw [← e]; exact hy)
      rw [u4.value_o i3 hx3 (by rw [nv3]; exact ht y hy) hyx, vt3 y hy]
    · have hix : i ≠ x := fun e => his (by simp [e])
      rw [u4.value_o i3 hx3 (by rw [nv3]; exact hi) hix, hvo3 i hi hig hit]

/-! ### the general case (gcdext.c:69-112) -/

theorem gx_sizeNat_mono {a b : Nat} (hab : a ≤ b) : sizeNat a ≤ sizeNat b :=
  (DivZ.sizeNat_le_iff _ _).mpr (Nat.lt_of_le_of_lt hab (DivZ.lt_B_pow_sizeNat b))

/-- what the mpz layer uses of the mpn_gcdext contract: G fits `bsize` limbs, S fits `bsize` (+1) limbs, V ∣ G - U S -/
theorem contract_fits (hc : Gcd.MpnGcdextContract) {U V : Nat} (hV : 0 < V) (hle : sizeNat V ≤ sizeNat U) :
    sizeNat (Gcd.mpn_gcdext U (sizeNat U) V (sizeNat V)).1 ≤ sizeNat V ∧
    sizeNat (Gcd.mpn_gcdext U (sizeNat U) V (sizeNat V)).2.natAbs ≤ sizeNat V ∧
    (((Gcd.mpn_gcdext U (sizeNat U) V (sizeNat V)).1 : Int) - U * (Gcd.mpn_gcdext U (sizeNat U) V (sizeNat V)).2) % V = 0 := by
  obtain ⟨hG, hdiv, hS, _⟩ := hc U V hV hle
  change (Gcd.mpn_gcdext U (sizeNat U) V (sizeNat V)).1 = _ at hG
  change (((Gcd.mpn_gcdext U (sizeNat U) V (sizeNat V)).1 : Int) - U * (Gcd.mpn_gcdext U (sizeNat U) V (sizeNat V)).2) % V = 0 at hdiv
  change (Gcd.mpn_gcdext U (sizeNat U) V (sizeNat V)).2 = 1 ∨
    2 * (Gcd.mpn_gcdext U (sizeNat U) V (sizeNat V)).1 * (Gcd.mpn_gcdext U (sizeNat U) V (sizeNat V)).2.natAbs < V at hS
  have hGle : (Gcd.mpn_gcdext U (sizeNat U) V (sizeNat V)).1 ≤ V := by rw [hG]; exact Nat.gcd_le_right _ hV
  have hGpos : 0 < (Gcd.mpn_gcdext U (sizeNat U) V (sizeNat V)).1 := by rw [hG]; exact Nat.gcd_pos_of_pos_right _ hV
  refine ⟨gx_sizeNat_mono hGle, gx_sizeNat_mono ?_, hdiv⟩
  rcases hS with e | e
  · rw [e]; show 1 ≤ V; omega
  · have : (Gcd.mpn_gcdext U (sizeNat U) V (sizeNat V)).2.natAbs ≤
        2 * (Gcd.mpn_gcdext U (sizeNat U) V (sizeNat V)).1 * (Gcd.mpn_gcdext U (sizeNat U) V (sizeNat V)).2.natAbs :=
      Nat.le_mul_of_pos_left _ (by omega)
    omega

theorem gx_siz_neg (z : Int) : siz (-z) = -siz z := by
  unfold siz
  by_cases h0 : z = 0
  · subst h0; simp [DivZ.sizeNat_eq_zero.mpr rfl]
  · by_cases h1 : z < 0
    · rw [if_neg (by omega), if_pos h1]; simp
    · rw [if_pos (by omega), if_neg h1]; simp

theorem gx_copyIf_true_ok {s : St} {p n : Nat} {l : List Nat} (hl : s.load p n = .ok l) :
    s.copyIf true p n = .ok (s.next, (s.malloc l).2) := by
  simp [St.copyIf, St.tmpCopy, bind, Except.bind, hl, pure, Except.pure, St.malloc]

/-- specification of the `t != NULL` block (gcdext.c:82-97) in a state where the TMP blocks `pg`, `ps` hold G and |S| -/
def TSpec (tv : Option Nat) (a b : Nat) : Prop :=
  ∀ {s : St}, Inv s → a < s.nv → b < s.nv → (∀ x ∈ tv, x < s.nv) → s.value b ≠ 0 →
    ∀ (pg ps G : Nat) (S : Int) (rg rs : List Nat) (bsize : Nat),
      (∀ i, i < s.nv → s.ptr i ≠ pg) → pg < s.next → (∀ i, i < s.nv → s.ptr i ≠ ps) → ps < s.next → pg ≠ ps →
      s.blk pg = some (toLimbs (sizeNat G) G ++ rg) → (toLimbs (sizeNat G) G ++ rg).length = bsize → Limbs rg →
      s.blk ps = some (toLimbs (sizeNat S.natAbs) S.natAbs ++ rs) → (toLimbs (sizeNat S.natAbs) S.natAbs ++ rs).length = bsize + 1 →
      Limbs rs →
      ∃ xs s', gcdextT tv a b pg ps (sizeNat G) (siz S) (sizeNat S.natAbs) (s.size a).natAbs bsize s = .ok (xs, s') ∧
        Inv s' ∧ s'.nv = s.nv ∧
        (∀ x ∈ tv, s'.value x = DivZ.tdivQ ((G : Int) - S * s.value a) (s.value b)) ∧
        (∀ i, i < s.nv → i ∉ tv → s'.value i = s.value i) ∧ Keep s s' ∧
        ∀ p ∈ xs, (∀ i, i < s'.nv → s'.ptr i ≠ p) ∧ p < s'.next

theorem TSpec_none (a b : Nat) : TSpec none a b := by
  intro s h _ _ _ _ pg ps G S rg rs bsize _ _ _ _ _ _ _ _ _ _ _
  exact ⟨[], s, rfl, h, rfl, fun x hx => by simp at hx, fun _ _ _ => rfl, Keep.refl s, fun p hp => by simp at hp⟩

theorem gcdextMain_ok (hc : Gcd.MpnGcdextContract) {st : St} (h : Inv st) {g a b : Nat} {sv tv : Option Nat}
    (hg : g < st.nv) (ha : a < st.nv) (hb : b < st.nv) (hs : ∀ x ∈ sv, x < st.nv) (ht : ∀ x ∈ tv, x < st.nv)
    (hgs : g ∉ sv) (hgt : g ∉ tv) (hst : ∀ x ∈ sv, x ∉ tv) (has : ∀ x ∈ sv, 1 ≤ st.alloc x)
    (hle : (st.size b).natAbs ≤ (st.size a).natAbs) (hT : TSpec tv a b) :
    ∃ st', gcdextMain .c g sv tv a b (st.size a).natAbs (st.size b).natAbs st = .ok st' ∧ Inv st' ∧ st'.nv = st.nv ∧
      st'.value g = (Gcd.gcdextCore (st.value a) (st.value b)).1 ∧
      (∀ x ∈ sv, st'.value x = (Gcd.gcdextCore (st.value a) (st.value b)).2.1) ∧
      (∀ x ∈ tv, st'.value x = (Gcd.gcdextCore (st.value a) (st.value b)).2.2) ∧
      ∀ i, i < st.nv → i ≠ g → i ∉ sv → i ∉ tv → st'.value i = st.value i := by
  have hna : Gcd.nlimbs (st.value a).natAbs = (st.size a).natAbs := by
    rw [value_natAbs, h.size_natAbs ha]; rfl
  have hnb : Gcd.nlimbs (st.value b).natAbs = (st.size b).natAbs := by
    rw [value_natAbs, h.size_natAbs hb]; rfl
  unfold gcdextMain Gcd.gcdextCore
  rw [hna, hnb]
  by_cases hb0 : (st.size b).natAbs = 0
  · rw [if_pos hb0, if_pos hb0]
    exact gcdextZero_ok h hg ha hs ht hgs hgt hst has
  · rw [if_neg hb0, if_neg hb0]
    simp only [GcdextVariant.c, if_true, bind, Except.bind, pure, Except.pure]
    set an := (st.size a).natAbs with han
    set bn := (st.size b).natAbs with hbn
    -- :71-73
    rw [gx_copyIf_true_ok (h.load_var ha)]; simp only []
    have i1 := malloc_inv h (st.limbs a)
    have x1 := malloc_ext h (st.limbs a)
    set s1 := (st.malloc (st.limbs a)).2 with hs1
    have lb1 : s1.load (s1.ptr b) bn = .ok (st.limbs b) := by rw [x1.ptr]; exact x1.load (h.load_var hb)
    rw [gx_copyIf_true_ok lb1]; simp only []
    have i2 := malloc_inv i1 (st.limbs b)
    have x2 := malloc_ext i1 (st.limbs b)
    set s2 := (s1.malloc (st.limbs b)).2 with hs2
    have hpg : (s2.tmpAlloc bn).1 = st.next + 2 := rfl
    have hps : ((s2.tmpAlloc bn).2.tmpAlloc (bn + 1)).1 = st.next + 3 := rfl
    have hpb : s1.next = st.next + 1 := rfl
    rw [hpg, hps, hpb]
    set s3 := (s2.tmpAlloc bn).2 with hs3
    set s4 := (s3.tmpAlloc (bn + 1)).2 with hs4
    have i3 : Inv s3 := malloc_inv i2 (List.replicate bn junk)
    have x3 : Ext s2 s3 := malloc_ext i2 (List.replicate bn junk)
    have i4 : Inv s4 := malloc_inv i3 (List.replicate (bn + 1) junk)
    have x4 : Ext s3 s4 := malloc_ext i3 (List.replicate (bn + 1) junk)
    have x04 : Ext st s4 := (x1.trans x2).trans (x3.trans x4)
    have hn4 : s4.next = st.next + 4 := rfl
    have hnonvar : ∀ k, ∀ i, i < s4.nv → s4.ptr i ≠ st.next + k := fun k i hi => by
      rw [x04.ptr]; have := h.lt i (by rw [← x04.nv]; exact hi); omega
    have bA1 : s1.blk st.next = some (st.limbs a) := malloc_blk_new st _
    have bA : s4.blk st.next = some (st.limbs a) := by
      rw [(x2.trans (x3.trans x4)).blk st.next (by rw [bA1]; simp), bA1]
    have bB2 : s2.blk (st.next + 1) = some (st.limbs b) := malloc_blk_new s1 _
    have bB : s4.blk (st.next + 1) = some (st.limbs b) := by
      rw [(x3.trans x4).blk _ (by rw [bB2]; simp), bB2]
    have bG3 : s3.blk (st.next + 2) = some (List.replicate bn junk) := malloc_blk_new s2 _
    have bG : s4.blk (st.next + 2) = some (List.replicate bn junk) := by
      rw [x4.blk _ (by rw [bG3]; simp), bG3]
    have bS : s4.blk (st.next + 3) = some (List.replicate (bn + 1) junk) := malloc_blk_new s3 _
    have hbs0 : st.size b ≠ 0 := by omega
    have hVpos : 0 < st.mag b := by
      have := h.mag_ge hb hbs0
      exact Nat.lt_of_lt_of_le (DivZ.Bpow_pos _) this
    have hfit := contract_fits hc (U := st.mag a) (V := st.mag b) hVpos
      (by rw [← h.size_natAbs ha, ← h.size_natAbs hb]; exact hle)
    rw [← h.size_natAbs ha, ← h.size_natAbs hb, ← han, ← hbn] at hfit
    obtain ⟨fitG, fitS, hdiv⟩ := hfit
    obtain ⟨s5, e5, i5, nv5, vars5, next5, val5, _, _, bG5, bS5⟩ :=
      mpn_gcdext_ok i4 (gp := st.next + 2) (sp := st.next + 3) (ap := st.next) (bp := st.next + 1) (an := an) (n := bn)
        (A := st.limbs a) (Bl := st.limbs b) (by omega)
        (fun i hi => by have := hnonvar 0 i hi; simpa using this) (hnonvar 1) (hnonvar 2) (hnonvar 3)
        (by omega) (by omega) (by omega) (by omega) bA (h.limbs_spec ha).1 bB (h.limbs_spec hb).1 ⟨by omega, hle⟩
        (h.top_ne_zero hb hbs0) bG bS (by simp only [List.length_replicate]; exact fitG) (by simp only [List.length_replicate]; exact Nat.le_succ_of_le fitS)
    rw [e5]; simp only []
    change ∃ st', _ ∧ _ ∧ _ ∧ _ ∧ _ ∧ _ ∧ _
    rw [value_natAbs, value_natAbs]
    have hmagA : val (st.limbs a) = st.mag a := rfl
    have hmagB : val (st.limbs b) = st.mag b := rfl
    rw [hmagA, hmagB] at bG5 bS5 ⊢
    set G := (Gcd.mpn_gcdext (st.mag a) an (st.mag b) bn).1 with hG
    set S0 := (Gcd.mpn_gcdext (st.mag a) an (st.mag b) bn).2 with hS0
    set S' : Int := if st.value a ≥ 0 then S0 else -S0 with hS'
    have x05 : ∀ i, s5.vars i = st.vars i := fun i => by rw [vars5]; exact x04.vars i
    have hsz5 : ∀ i, s5.size i = st.size i := fun i => by unfold St.size; rw [x05]
    have hval5 : ∀ i, i < st.nv → s5.value i = st.value i := fun i hi => by
      rw [val5 i (by rw [x04.nv]; exact hi), x04.value h hi]
    have hnv5 : s5.nv = st.nv := by rw [nv5, x04.nv]
    have hiff : (st.size a ≥ 0) ↔ (st.value a ≥ 0) := by have := h.size_neg_iff ha; omega
    have hss : (if s5.size a ≥ 0 then siz S0 else -siz S0) = siz S' := by
      rw [hsz5, hS']; by_cases h0 : st.value a ≥ 0
      · rw [if_pos (hiff.mpr h0), if_pos h0]
      · rw [if_neg (fun e => h0 (hiff.mp e)), if_neg h0, gx_siz_neg]
    have hSabs : S'.natAbs = S0.natAbs := by rw [hS']; split <;> simp
    have hsn : (siz S0).natAbs = sizeNat S'.natAbs := by rw [DivZ.siz_natAbs, hSabs]
    rw [hss, hsn]
    rw [← hSabs] at bS5
    have han5 : an = (s5.size a).natAbs := by rw [hsz5]
    -- :82-97
    have hvb0 : s5.value b ≠ 0 := by
      rw [hval5 b hb]; exact fun e => hbs0 ((h.size_eq_zero_iff hb).mpr e)
    have hLj : ∀ k m, Limbs ((List.replicate m junk).drop k) := fun k m => Limbs_drop (Limbs_replicate_junk m) k
    have hnv5' : ∀ k, ∀ i, i < s5.nv → s5.ptr i ≠ st.next + k := fun k i hi => by
      have : s5.ptr i = s4.ptr i := by unfold St.ptr; rw [vars5]
      rw [this]; exact hnonvar k i (by rw [← nv5]; exact hi)
    have fitG' : sizeNat G ≤ bn := fitG
    have fitS' : sizeNat S'.natAbs ≤ bn := by rw [hSabs]; exact fitS
    obtain ⟨xs, s6, e6, i6, nv6, vt6, vo6, k6, hxs⟩ := hT i5 (by rw [hnv5]; exact ha) (by rw [hnv5]; exact hb)
      (fun x hx => by rw [hnv5]; exact ht x hx) hvb0 (st.next + 2) (st.next + 3) G S' _ _ bn
      (hnv5' 2) (by rw [next5, hn4]; omega) (hnv5' 3) (by rw [next5, hn4]; omega) (by omega) bG5
      (by rw [List.length_append, toLimbs_length, List.length_drop, List.length_replicate]; omega) (hLj _ _) bS5
      (by rw [List.length_append, toLimbs_length, List.length_drop, List.length_replicate]; omega) (hLj _ _)
    rw [← han5] at e6
    rw [e6]; simp only []
    have hnv6 : s6.nv = st.nv := nv6.trans hnv5
    have n5lt : ∀ k, k < 4 → st.next + k < s5.next := fun k hk => by rw [next5, hn4]; omega
    have bS6 := (k6 (st.next + 3) (hnv5' 3) (n5lt 3 (by omega)))
    have bG6 := (k6 (st.next + 2) (hnv5' 2) (n5lt 2 (by omega)))
    rw [bS5] at bS6; rw [bG5] at bG6
    -- :99-106
    have hS7 : ∃ s7, gcdextS sv (st.next + 3) (sizeNat S'.natAbs) (siz S') s6 = .ok s7 ∧ Inv s7 ∧ s7.nv = st.nv ∧
        (∀ x ∈ sv, s7.value x = S') ∧ (∀ i, i < st.nv → i ∉ sv → s7.value i = s6.value i) ∧ Keep s6 s7 := by
      cases sv with
      | none => exact ⟨s6, rfl, i6, hnv6, fun x hx => by simp at hx, fun _ _ _ => rfl, Keep.refl s6⟩
      | some x =>
        obtain ⟨s7, e7, r7, k7⟩ := gcdextOut_ok i6 (w := x) (by rw [hnv6]; exact hs x rfl) S' bS6.1 bS6.2.1 bS6.2.2
        refine ⟨s7, e7, r7.1, r7.2.1.trans hnv6, fun y hy => ?_, fun i hi his => ?_, k7⟩
        · have : y = x := by simpa using hy.symm
          rw [this]; exact r7.2.2.1
        · exact r7.2.2.2 i (by rw [hnv6]; exact hi) (fun e => his (by simp [e]))
    obtain ⟨s7, e7, i7, nv7, vs7, vo7, k7⟩ := hS7
    rw [e7]; simp only []
    -- :108-110
    have bG7 := k7 (st.next + 2) bG6.1 bG6.2.1
    rw [bG6.2.2] at bG7
    have hform : gcdextOut g (st.next + 2) (sizeNat G) ((sizeNat G : Nat) : Int) s7 =
        gcdextOut g (st.next + 2) (sizeNat ((G : Int)).natAbs) (siz (G : Int)) s7 := by
      rw [gx_siz_natCast, Int.natAbs_natCast]
    rw [hform]
    obtain ⟨s8, e8, r8, k8⟩ := gcdextOut_ok i7 (w := g) (by rw [nv7]; exact hg) (G : Int) bG7.1 bG7.2.1
      (by rw [Int.natAbs_natCast]; exact bG7.2.2)
    rw [e8]; simp only []
    -- :112
    have k58 : Keep s5 s8 := (k6.trans k7).trans k8
    have k68 : Keep s6 s8 := k7.trans k8
    have hfree := free_list_inv ([st.next, st.next + 1] ++ [st.next + 2, st.next + 3] ++ xs) r8.1 (fun p hp => by
      simp only [List.mem_append, List.mem_cons, List.not_mem_nil, or_false] at hp
      rcases hp with ((hp | hp) | (hp | hp)) | hp
      · rw [hp]; exact (k58 (st.next + 0) (hnv5' 0) (n5lt 0 (by omega))).1
      · rw [hp]; exact (k58 (st.next + 1) (hnv5' 1) (n5lt 1 (by omega))).1
      · rw [hp]; exact (k58 (st.next + 2) (hnv5' 2) (n5lt 2 (by omega))).1
      · rw [hp]; exact (k58 (st.next + 3) (hnv5' 3) (n5lt 3 (by omega))).1
      · exact (k68 p (hxs p hp).1 (hxs p hp).2).1)
    have nv8 : s8.nv = st.nv := r8.2.1.trans nv7
    refine ⟨_, rfl, hfree.1, hfree.2.1.trans nv8, ?_, fun x hx => ?_, fun x hx => ?_, fun i hi hig his hit => ?_⟩
    · rw [hfree.2.2 g (by rw [nv8]; exact hg)]; exact r8.2.2.1
    · have hx0 := hs x hx
      have hxg : x ≠ g := fun e => hgs (by rw [← e]; exact hx)
      rw [hfree.2.2 x (by rw [nv8]; exact hx0), r8.2.2.2 x (by rw [nv7]; exact hx0) hxg]; exact vs7 x hx
    · have hx0 := ht x hx
      have hxg : x ≠ g := fun e => hgt (by rw [← e]; exact hx)
      have hxs' : x ∉ sv := fun e => hst x e hx
      rw [hfree.2.2 x (by rw [nv8]; exact hx0), r8.2.2.2 x (by rw [nv7]; exact hx0) hxg, vo7 x hx0 hxs', vt6 x hx,
        hval5 a ha, hval5 b hb]
      -- exact division: truncation = floor
      have hvb : st.value b ≠ 0 := by rw [← hval5 b hb]; exact hvb0
      have hprod : S' * st.value a = (st.mag a : Int) * S0 := by
        rw [hS']
        have := value_natAbs st a
        by_cases h0 : st.value a ≥ 0
        · rw [if_pos h0]; rw [← this]; rw [Int.natAbs_of_nonneg h0]; ring
        · rw [if_neg h0]; rw [← this]; rw [Int.ofNat_natAbs_of_nonpos (by omega)]; ring
      have hdvd : st.value b ∣ (G : Int) - S' * st.value a := by
        rw [hprod]
        have h1 : ((st.mag b : Nat) : Int) ∣ (G : Int) - (st.mag a : Int) * S0 := Int.dvd_of_emod_eq_zero hdiv
        have h2 : st.value b ∣ ((st.mag b : Nat) : Int) := by rw [← value_natAbs]; exact Int.dvd_natAbs_self
        exact Int.dvd_trans h2 h1
      unfold DivZ.tdivQ
      exact Int.tdiv_eq_ediv_of_dvd hdvd
    · rw [hfree.2.2 i (by rw [nv8]; exact hi), r8.2.2.2 i (by rw [nv7]; exact hi) hig, vo7 i hi his,
        vo6 i (by rw [hnv5]; exact hi) hit, hval5 i hi]

/-- mpz_gcdext for every assignment of (g, s, t, a, b), given the specification `TSpec` of the `t != NULL` block
    (gcdext.c:82-97) for the two possible roles of the operands after the swap at :43-48. -/
theorem gcdext_ok_of (hc : Gcd.MpnGcdextContract) {st : St} (h : Inv st) {g a b : Nat} {sv tv : Option Nat}
    (hg : g < st.nv) (ha : a < st.nv) (hb : b < st.nv) (hs : ∀ x ∈ sv, x < st.nv) (ht : ∀ x ∈ tv, x < st.nv)
    (hgs : g ∉ sv) (hgt : g ∉ tv) (hst : ∀ x ∈ sv, x ∉ tv)
    (has : ∀ x ∈ sv, 1 ≤ st.alloc x) (hat : ∀ x ∈ tv, 1 ≤ st.alloc x)
    (hT1 : TSpec tv a b) (hT2 : TSpec sv b a) :
    ∃ st', gcdext g sv tv a b st = .ok st' ∧ Inv st' ∧ st'.nv = st.nv ∧
      st'.value g = (Gcd.mpz_gcdext (st.value a) (st.value b)).1 ∧
      (∀ x ∈ sv, st'.value x = (Gcd.mpz_gcdext (st.value a) (st.value b)).2.1) ∧
      (∀ x ∈ tv, st'.value x = (Gcd.mpz_gcdext (st.value a) (st.value b)).2.2) ∧
      ∀ i, i < st.nv → i ≠ g → i ∉ sv → i ∉ tv → st'.value i = st.value i := by
  have hna : Gcd.nlimbs (st.value a).natAbs = (st.size a).natAbs := by
    rw [value_natAbs, h.size_natAbs ha]; rfl
  have hnb : Gcd.nlimbs (st.value b).natAbs = (st.size b).natAbs := by
    rw [value_natAbs, h.size_natAbs hb]; rfl
  rw [Gcd.mpz_gcdext_eq, hna, hnb]
  unfold gcdext gcdextV
  simp only []
  by_cases hlt : (st.size a).natAbs < (st.size b).natAbs
  · rw [if_pos hlt, if_pos hlt]
    obtain ⟨st', e, i', n', vg, vs, vt, vo⟩ := gcdextMain_ok hc h hg hb ha ht hs hgt hgs (fun x hx hx' => hst x hx' hx) hat
      (Nat.le_of_lt hlt) hT2
    exact ⟨st', e, i', n', vg, vt, vs, fun i hi hig his hit => vo i hi hig hit his⟩
  · rw [if_neg hlt, if_neg hlt]
    exact gcdextMain_ok hc h hg ha hb hs ht hgs hgt hst has (by omega) hT1

/-- special case (subsumed by `gcdext_ok` below): both cofactor pointers NULL — g may be a or b, a may be b. -/
theorem gcdext_ok_partial (hc : Gcd.MpnGcdextContract) {st : St} (h : Inv st) {g a b : Nat}
    (hg : g < st.nv) (ha : a < st.nv) (hb : b < st.nv) :
    ∃ st', gcdext g none none a b st = .ok st' ∧ Inv st' ∧ st'.nv = st.nv ∧
      st'.value g = (Gcd.mpz_gcdext (st.value a) (st.value b)).1 ∧
      ∀ i, i < st.nv → i ≠ g → st'.value i = st.value i := by
  obtain ⟨st', e, i', n', vg, _, _, vo⟩ := gcdext_ok_of hc h (sv := none) (tv := none) hg ha hb (fun x hx => by simp at hx)
    (fun x hx => by simp at hx) (by simp) (by simp) (fun x hx => by simp at hx) (fun x hx => by simp at hx)
    (fun x hx => by simp at hx) (TSpec_none a b) (TSpec_none b a)
  exact ⟨st', e, i', n', vg, fun i hi hig => vo i hi hig (by simp) (by simp)⟩

/-! ### frame facts for the callees of the `t != NULL` block -/

/-- relative to a base state `s0`: only the header of `w`, the block `PTR (w)` had in `s0` and blocks allocated since
    may differ in `s` -/
def Fr (s0 : St) (w : Nat) (s : St) : Prop :=
  (∀ i, i ≠ w → s.vars i = s0.vars i) ∧ (∀ p, p < s0.next → p ≠ s0.ptr w → s.blk p = s0.blk p) ∧
  s0.next ≤ s.next ∧ (s.ptr w = s0.ptr w ∨ s0.next ≤ s.ptr w)

theorem Fr.refl (s : St) (w : Nat) : Fr s w s := ⟨fun _ _ => rfl, fun _ _ _ => rfl, Nat.le_refl _, Or.inl rfl⟩

theorem Fr.setBlk {s0 s : St} {w : Nat} (h : Fr s0 w s) {q : Nat} (hq : q = s.ptr w ∨ s0.next ≤ q) (b : Option (List Nat)) :
    Fr s0 w (s.setBlk q b) := by
  obtain ⟨h1, h2, h3, h4⟩ := h
  refine ⟨h1, fun p hp hpw => ?_, h3, h4⟩
  have : p ≠ q := by
    rcases hq with e | e
    · rw [e]; rcases h4 with e' | e'
      · rw [e']; exact hpw
      · omega
    · omega
  simp only [St.setBlk, this, if_false]; exact h2 p hp hpw

theorem Fr.setSize {s0 s : St} {w : Nat} (h : Fr s0 w s) (z : Int) : Fr s0 w (s.setSize w z) := by
  obtain ⟨h1, h2, h3, h4⟩ := h
  refine ⟨fun i hi => ?_, h2, h3, ?_⟩
  · simp only [St.setSize, St.setVar, hi, if_false]; exact h1 i hi
  · have : (s.setSize w z).ptr w = s.ptr w := by simp [St.setSize, St.setVar, St.ptr]
    rw [this]; exact h4

theorem Fr.malloc {s0 s : St} {w : Nat} (h : Fr s0 w s) (l : List Nat) : Fr s0 w (s.malloc l).2 := by
  obtain ⟨h1, h2, h3, h4⟩ := h
  refine ⟨h1, fun p hp hpw => ?_, Nat.le_succ_of_le h3, h4⟩
  have : p ≠ s.next := by omega
  simp only [St.malloc, St.setBlk, this, if_false]; exact h2 p hp hpw

theorem Fr.realloc {s0 s : St} {w : Nat} (h : Fr s0 w s) (n : Nat) : Fr s0 w (s.mpzRealloc w n) := by
  obtain ⟨h1, h2, h3, h4⟩ := h
  refine ⟨fun i hi => ?_, fun p hp hpw => ?_, Nat.le_trans h3 (realloc_next_le s w n), ?_⟩
  · rw [← h1 i hi]; unfold St.mpzRealloc; split
    · simp [St.setVar, hi]; rfl
    · rfl
  · rw [realloc_blk_ne s w n p ?_ (by omega)]; exact h2 p hp hpw
    rcases h4 with e' | e'
    · rw [e']; exact hpw
    · omega
  · rw [realloc_ptr]; split
    · exact Or.inr h3
    · exact h4

theorem gx_bind_ok {α β : Type} {x : R α} {f : α → R β} {b : β} (e : (x >>= f) = .ok b) :
    ∃ a, x = .ok a ∧ f a = .ok b := by
  cases x with
  | error m => simp [bind, Except.bind] at e
  | ok a => exact ⟨a, rfl, e⟩

theorem gx_store_inv {s X : St} {p : Nat} {l : List Nat} (e : s.store p l = .ok X) : ∃ b, X = s.setBlk p (some b) := by
  unfold St.store at e
  split at e
  · simp at e
  · split at e
    · exact ⟨_, (Except.ok.inj e).symm⟩
    · simp at e

theorem mpz_aors_fr {s s' : St} {sub : Bool} {w u v : Nat} (e : mpz_aors sub w u v s = .ok s') : Fr s w s' := by
  unfold mpz_aors at e
  obtain ⟨up, _, e⟩ := gx_bind_ok e
  obtain ⟨vp, _, e⟩ := gx_bind_ok e
  unfold St.setInt at e
  obtain ⟨X, hX, e⟩ := gx_bind_ok e
  obtain ⟨b, rfl⟩ := gx_store_inv hX
  rw [← Except.ok.inj e]
  exact ((Fr.refl s w).realloc _ |>.setBlk (Or.inl rfl) _).setSize _

theorem gx_mpn_divexact_inv {s X : St} {qp np nn dp dn : Nat} (e : mpn_divexact qp np nn dp dn s = .ok X) :
    ∃ b, X = s.setBlk qp (some b) := by
  unfold mpn_divexact at e
  simp only [bind, Except.bind] at e
  split at e
  · simp at e
  split at e
  · simp at e
  split at e
  · simp at e
  split at e
  · simp at e
  split at e
  · simp at e
  exact gx_store_inv e

/-- divexact.c:79-80 `if (qp != PTR (quot)) MPN_COPY (PTR (quot), qp, qn)` -/
theorem gx_copyback_fr {s0 v : St} {q qp k : Nat} (f : Fr s0 q v) {w : St}
    (e : (if qp ≠ v.ptr q then Except.bind (v.load qp k) (fun l => v.store (v.ptr q) l)
      else .ok v) = .ok w) : Fr s0 q w := by
  split at e
  · simp only [Except.bind] at e
    split at e
    · simp at e
    · obtain ⟨b, rfl⟩ := gx_store_inv e
      exact f.setBlk (Or.inl rfl) _
  · rw [← Except.ok.inj e]; exact f

theorem divexact_fr {s s' : St} {q n d : Nat} (e : divexact q n d s = .ok s') : Fr s q s' := by
  unfold divexact divexactV at e
  simp only [Variant.c, bind, Except.bind, pure, Except.pure, Bool.not_true, Bool.false_eq_true, true_and, and_true, and_false, if_false] at e
  have f1 : Fr s q (s.mpzRealloc q (((s.size n).natAbs : Int) - ((s.size d).natAbs : Int) + 1).toNat) := (Fr.refl s q).realloc _
  set s1 := s.mpzRealloc q (((s.size n).natAbs : Int) - ((s.size d).natAbs : Int) + 1).toNat with hs1
  by_cases hlt : (s.size n).natAbs < (s.size d).natAbs
  · rw [if_pos hlt] at e
    rw [← Except.ok.inj e]; exact f1.setSize 0
  · rw [if_neg hlt] at e
    by_cases hd0 : (s.size d).natAbs = 0
    · rw [if_pos hd0] at e; simp [throw, throwThe, MonadExceptOf.throw] at e
    · rw [if_neg hd0] at e
      by_cases hc : q = n ∨ q = d
      · have hc' : decide (q = n ∨ q = d) = true := by simpa using hc
        simp only [hc', if_true] at e
        have f2 : Fr s q (s1.tmpAlloc (((s.size n).natAbs : Int) - ((s.size d).natAbs : Int) + 1).toNat).2 := f1.malloc _
        have hqp : s.next ≤ (s1.tmpAlloc (((s.size n).natAbs : Int) - ((s.size d).natAbs : Int) + 1).toNat).1 := f1.2.2.1
        split at e
        · simp at e
        next v hv =>
        obtain ⟨b, rfl⟩ := gx_mpn_divexact_inv hv
        split at e
        · simp at e
        next k hk =>
        split at e
        · simp at e
        next w hw =>
        rw [← Except.ok.inj e]
        exact (gx_copyback_fr ((f2.setBlk (Or.inr hqp) _).setSize _) hw).setBlk (Or.inr hqp) none
      · have hc' : decide (q = n ∨ q = d) = false := by simpa using hc
        simp only [hc', Bool.false_eq_true, if_false] at e
        split at e
        · simp at e
        next v hv =>
        obtain ⟨b, rfl⟩ := gx_mpn_divexact_inv hv
        split at e
        · simp at e
        next k hk =>
        split at e
        · simp at e
        next w hw =>
        rw [← Except.ok.inj e]
        exact gx_copyback_fr ((f1.setBlk (Or.inl rfl) _).setSize _) hw

/-! ### the `t != NULL` block (gcdext.c:82-97) -/

/-- a local header pointing at a TMP block that holds the normalised magnitude of z is a proper variable -/
theorem pushVar_spec {s : St} (h : Inv s) {p : Nat} (hp : ∀ i, i < s.nv → s.ptr i ≠ p) (hlt : p < s.next) (z : Int)
    {rest : List Nat} (hb : s.blk p = some (toLimbs (sizeNat z.natAbs) z.natAbs ++ rest)) (hL : Limbs rest) (n : Nat)
    (hlen : (toLimbs (sizeNat z.natAbs) z.natAbs ++ rest).length = n) :
    Inv (s.pushVar { alloc := n, size := siz z, ptr := p }).2 ∧
    (s.pushVar { alloc := n, size := siz z, ptr := p }).2.value s.nv = z ∧
    ∀ i, i < s.nv → (s.pushVar { alloc := n, size := siz z, ptr := p }).2.value i = s.value i := by
  set s' := (s.pushVar { alloc := n, size := siz z, ptr := p }).2 with hs'
  have hnv : s'.nv = s.nv + 1 := rfl
  have hblk : s'.blk = s.blk := rfl
  have hnext : s'.next = s.next := rfl
  have hnew : s'.vars s.nv = { alloc := n, size := siz z, ptr := p } := by simp [hs', St.pushVar, St.setVar]
  have hvo : ∀ i, i < s.nv → s'.vars i = s.vars i := fun i hi => by
    have : i ≠ s.nv := by omega
    simp [hs', St.pushVar, St.setVar, this]
  have hval : ∀ i, i < s.nv → s'.value i = s.value i := fun i hi => value_congr (hvo i hi) (by rw [hblk])
  have hpo : ∀ k, k < s.nv → s'.ptr k = s.ptr k := fun k hk => by unfold St.ptr; rw [hvo k hk]
  have hpn : s'.ptr s.nv = p := by unfold St.ptr; rw [hnew]
  have hvn : s'.value s.nv = z := by
    unfold St.value St.mag St.limbs St.size St.ptr
    rw [hnew, hblk, hb]
    simp only [Option.getD_some, DivZ.siz_natAbs]
    rw [List.take_append_of_le_length (by rw [toLimbs_length]), List.take_of_length_le (by rw [toLimbs_length]),
      val_toLimbs_lt (DivZ.lt_B_pow_sizeNat _)]
    have := DivZ.siz_neg_iff (v := z)
    split <;> omega
  refine ⟨⟨fun i hi => ?_, fun i j hi hj e => ?_, fun i hi => ?_, fun q hq => ?_, fun i hi => ?_, fun i hi => ?_⟩, hvn, hval⟩
  · rw [hnv] at hi
    by_cases hin : i = s.nv
    · subst hin
      refine ⟨_, by rw [hpn, hblk]; exact hb, ?_, Limbs_append.mpr ⟨Limbs_toLimbs _ _, hL⟩⟩
      unfold St.alloc; rw [hnew]; exact hlen
    · have hi' : i < s.nv := by omega
      obtain ⟨b, hb', hbl, hbL⟩ := h.live i hi'
      exact ⟨b, by rw [hpo i hi', hblk]; exact hb', by unfold St.alloc; rw [hvo i hi']; exact hbl, hbL⟩
  · rw [hnv] at hi hj
    by_cases hin : i = s.nv <;> by_cases hjn : j = s.nv
    · rw [hin, hjn]
    · rw [hin, hpn, hpo j (by omega)] at e; exact absurd e.symm (hp j (by omega))
    · rw [hjn, hpn, hpo i (by omega)] at e; exact absurd e (hp i (by omega))
    · rw [hpo i (by omega), hpo j (by omega)] at e; exact h.inj i j (by omega) (by omega) e
  · rw [hnv] at hi; rw [hnext]
    by_cases hin : i = s.nv
    · rw [hin, hpn]; exact hlt
    · rw [hpo i (by omega)]; exact h.lt i (by omega)
  · rw [hblk]; exact h.fresh q hq
  · rw [hnv] at hi
    by_cases hin : i = s.nv
    · subst hin; unfold St.size St.alloc; rw [hnew]; simp only [DivZ.siz_natAbs]
      rw [← hlen, List.length_append, toLimbs_length]; omega
    · unfold St.size St.alloc; rw [hvo i (by omega)]; exact h.fits i (by omega)
  · rw [hnv] at hi
    by_cases hin : i = s.nv
    · subst hin; rw [hvn]; unfold St.size; rw [hnew]
    · rw [hval i (by omega)]; unfold St.size; rw [hvo i (by omega)]; exact h.norm i (by omega)

theorem popVar_inv {s : St} (h : Inv s) (k : Nat) (hk : s.nv = k + 1) : Inv s.popVar ∧ s.popVar.nv = k := by
  have hnv : s.popVar.nv = k := by simp [St.popVar, hk]
  refine ⟨⟨fun i hi => ?_, fun i j hi hj e => ?_, fun i hi => ?_, fun q hq => h.fresh q hq, fun i hi => ?_, fun i hi => ?_⟩, hnv⟩
  · rw [hnv] at hi; exact h.live i (by omega)
  · rw [hnv] at hi hj; exact h.inj i j (by omega) (by omega) e
  · rw [hnv] at hi; exact h.lt i (by omega)
  · rw [hnv] at hi; exact h.fits i (by omega)
  · rw [hnv] at hi; exact h.norm i (by omega)

theorem TSpec_some (t a b : Nat) : TSpec (some t) a b := by
  intro s h ha hb ht hvb pg ps G S rg rs bsize hpg lpg hps lps hne bG lG LG bS lS LS
  have ht0 : t < s.nv := ht t rfl
  unfold gcdextT
  simp only [bind, Except.bind, pure, Except.pure]
  rw [← gx_siz_natCast]
  -- the three locals
  obtain ⟨ia, vga, voa⟩ := pushVar_spec h hpg lpg (G : Int) (rest := rg) (by rw [Int.natAbs_natCast]; exact bG) LG bsize
    (by rw [Int.natAbs_natCast]; exact lG)
  set sa := (s.pushVar { alloc := bsize, size := siz (G : Int), ptr := pg }).2 with hsa
  have nva : sa.nv = s.nv + 1 := rfl
  have hpsa : ∀ i, i < sa.nv → sa.ptr i ≠ ps := fun i hi => by
    by_cases e : i = s.nv
    · have : sa.ptr s.nv = pg := by simp [hsa, St.pushVar, St.setVar, St.ptr]
      rw [e, this]; exact hne
    · have : sa.ptr i = s.ptr i := by simp [hsa, St.pushVar, St.setVar, St.ptr, e]
      rw [this]; exact hps i (by omega)
  obtain ⟨ib, vsb, vob⟩ := pushVar_spec ia hpsa (show ps < sa.next from lps) S (rest := rs) (show sa.blk ps = _ from bS) LS (bsize + 1) lS
  have e1 : (s.pushVar { alloc := bsize, size := siz (G : Int), ptr := pg }).1 = s.nv := rfl
  have e2 : (sa.pushVar { alloc := bsize + 1, size := siz S, ptr := ps }).1 = s.nv + 1 := rfl
  rw [e1, e2]
  set sb := (sa.pushVar { alloc := bsize + 1, size := siz S, ptr := ps }).2 with hsb
  have nvb : sb.nv = s.nv + 2 := rfl
  set n := sizeNat S.natAbs + (s.size a).natAbs + 1 with hn
  obtain ⟨e3, ic, nvc, voc, alc, _⟩ := tmpInit_spec ib n
  rw [e3, nvb]
  set sc := (sb.tmpInit n).2 with hsc
  rw [nvb] at nvc alc
  -- explicit shape of sc
  have hvarsc : ∀ i, i < s.nv → sc.vars i = s.vars i := fun i hi => by
    have h1 : i ≠ s.nv + 2 := by omega
    have h2 : i ≠ s.nv + 1 := by omega
    have h3 : i ≠ s.nv := by omega
    simp [hsc, hsb, hsa, St.tmpInit, St.tmpAlloc, St.malloc, St.pushVar, St.setVar, St.setBlk, h1, h2, h3]
  have hblkc : ∀ q, q ≠ s.next → sc.blk q = s.blk q := fun q hq => by
    simp [hsc, hsb, hsa, St.tmpInit, St.tmpAlloc, St.malloc, St.pushVar, St.setVar, St.setBlk, hq]
  have hnextc : sc.next = s.next + 1 := rfl
  have hptrx : sc.ptr (s.nv + 2) = s.next := by
    simp [hsc, hsb, hsa, St.tmpInit, St.tmpAlloc, St.malloc, St.pushVar, St.setVar, St.setBlk, St.ptr]
  have q1 : s.nv ≠ s.nv + 1 + 1 := by omega
  have hptrg : sc.ptr s.nv = pg := by
    simp [hsc, hsb, hsa, St.tmpInit, St.tmpAlloc, St.malloc, St.pushVar, St.setVar, St.setBlk, St.ptr, q1]
  have hptrs : sc.ptr (s.nv + 1) = ps := by
    simp [hsc, hsb, hsa, St.tmpInit, St.tmpAlloc, St.malloc, St.pushVar, St.setVar, St.setBlk, St.ptr]
  have hvalc : ∀ i, i < s.nv → sc.value i = s.value i := fun i hi => by
    rw [(voc i (by omega)).1, vob i (by omega), voa i hi]
  have hvalg : sc.value s.nv = G := by rw [(voc s.nv (by omega)).1, vob s.nv (by omega), vga]
  have hvals : sc.value (s.nv + 1) = S := by rw [(voc (s.nv + 1) (by omega)).1]; exact vsb
  -- :94 mpz_mul (x, &stmp, a)
  obtain ⟨s1, em, r1, u1⟩ := mpz_mul_ok ic (w := s.nv + 2) (u := s.nv + 1) (v := a) (by omega) (by omega) (by omega)
  have u1 := u1 (by
      rw [alc, ic.norm (s.nv + 1) (by omega), hvals, DivZ.siz_natAbs, ic.norm a (by omega), hvalc a ha, ← h.norm a ha]
      omega) (by omega) (by omega)
  rw [em]; simp only []
  obtain ⟨i1, nv1, vx1, vo1⟩ := r1
  rw [hvals, hvalc a ha] at vx1
  -- :95 mpz_sub (x, &gtmp, x)
  obtain ⟨s2, es, i2, nv2, vx2, vo2⟩ := mpz_aors_ok i1 (w := s.nv + 2) (u := s.nv) (v := s.nv + 2) (by omega) (by omega) (by omega) true
  have es' : mpz_sub (s.nv + 2) s.nv (s.nv + 2) s1 = .ok s2 := es
  rw [es']; simp only []
  have f2 := mpz_aors_fr es
  simp only [if_true] at vx2
  rw [vo1 s.nv (by omega) (by omega), hvalg, vx1] at vx2
  -- :96 mpz_divexact (t, x, b)
  have hvb2 : s2.value b = s.value b := by
    rw [vo2 b (by omega) (by omega), vo1 b (by omega) (by omega), hvalc b hb]
  obtain ⟨s3, ed, i3, nv3, vt3, vo3⟩ := divexact_ok i2 (q := t) (n := s.nv + 2) (d := b) (by omega) (by omega) (by omega)
    (by rw [hvb2]; exact hvb)
  rw [ed]; simp only []
  have f3 := divexact_fr ed
  rw [vx2, hvb2] at vt3
  have nv3' : s3.nv = s.nv + 3 := by omega
  -- :97 the locals go out of scope
  obtain ⟨ip1, np1⟩ := popVar_inv i3 (s.nv + 2) nv3'
  obtain ⟨ip2, np2⟩ := popVar_inv ip1 (s.nv + 1) np1
  obtain ⟨ip3, np3⟩ := popVar_inv ip2 s.nv np2
  -- pointers and blocks of the old state
  have hptr_o : ∀ i, i < s.nv → i ≠ t → s3.ptr i = s.ptr i := fun i hi hit => by
    unfold St.ptr
    rw [f3.1 i hit, f2.1 i (by omega), u1.vars_o i (by omega), hvarsc i hi]
  have hptr2t : s2.ptr t = s.ptr t := by
    unfold St.ptr
    rw [f2.1 t (by omega), u1.vars_o t (by omega), hvarsc t ht0]
  have hnext2 : s.next + 1 ≤ s2.next := by have := f2.2.2.1; rw [u1.next, hnextc] at this; exact this
  have hkeep : Keep s s3.popVar.popVar.popVar := fun p hp hlt => by
    refine ⟨fun i hi => ?_, ?_, ?_⟩
    · rw [np3] at hi
      show s3.ptr i ≠ p
      by_cases hit : i = t
      · rw [hit]
        rcases f3.2.2.2 with e | e
        · rw [e, hptr2t]; exact hp t ht0
        · omega
      · rw [hptr_o i hi hit]; exact hp i hi
    · show p < s3.next
      have := f3.2.2.1; omega
    · show s3.blk p = s.blk p
      rw [f3.2.1 p (by omega) (by rw [hptr2t]; exact Ne.symm (hp t ht0)),
        f2.2.1 p (by rw [u1.next, hnextc]; omega) (by rw [u1.ptr, hptrx]; omega),
        u1.blk_o p (by rw [hptrx]; omega), hblkc p (by omega)]
  refine ⟨[s3.ptr (s.nv + 2)], s3.popVar.popVar.popVar, rfl, ip3, np3, fun x hx => ?_, fun i hi hit => ?_, hkeep, fun p hp => ?_⟩
  · have : x = t := by simpa using hx.symm
    rw [this]; exact vt3
  · have hit' : i ≠ t := fun e => hit (by simp [e])
    show s3.value i = s.value i
    rw [vo3 i (by omega) hit', vo2 i (by omega) (by omega), vo1 i (by omega) (by omega), hvalc i hi]
  · have : p = s3.ptr (s.nv + 2) := by simpa using hp
    rw [this]
    refine ⟨fun i hi => ?_, i3.lt _ (by omega)⟩
    rw [np3] at hi
    show s3.ptr i ≠ s3.ptr (s.nv + 2)
    exact fun e => by have := i3.inj i (s.nv + 2) (by omega) (by omega) e; omega

/-- mpz_gcdext (g, s, t, a, b) on the pointer-level model, for EVERY assignment of the five arguments: s, t possibly NULL
    (`none`), g / s / t possibly a or b, a possibly b; g, s, t pairwise distinct (manual).  `hc` is the documented contract of
    mpn_gcdext (`Mpir.Gcd.mpn_gcdext_contract`, MpirProofs/Props/C07_gcdextdc2.lean); `has` / `hat`: ALLOC ≥ 1, MPIR's
    object invariant, needed because `PTR (s)[0] = 1` (gcdext.c:64) is stored without a realloc. -/
theorem gcdext_ok (hc : Gcd.MpnGcdextContract) {st : St} (h : Inv st) {g a b : Nat} {sv tv : Option Nat}
    (hg : g < st.nv) (ha : a < st.nv) (hb : b < st.nv) (hs : ∀ x ∈ sv, x < st.nv) (ht : ∀ x ∈ tv, x < st.nv)
    (hgs : g ∉ sv) (hgt : g ∉ tv) (hst : ∀ x ∈ sv, x ∉ tv)
    (has : ∀ x ∈ sv, 1 ≤ st.alloc x) (hat : ∀ x ∈ tv, 1 ≤ st.alloc x) :
    ∃ st', gcdext g sv tv a b st = .ok st' ∧ Inv st' ∧ st'.nv = st.nv ∧
      st'.value g = (Gcd.mpz_gcdext (st.value a) (st.value b)).1 ∧
      (∀ x ∈ sv, st'.value x = (Gcd.mpz_gcdext (st.value a) (st.value b)).2.1) ∧
      (∀ x ∈ tv, st'.value x = (Gcd.mpz_gcdext (st.value a) (st.value b)).2.2) ∧
      ∀ i, i < st.nv → i ≠ g → i ∉ sv → i ∉ tv → st'.value i = st.value i := by
  have T : ∀ (o : Option Nat) (a b : Nat), TSpec o a b := fun o a b => by
    cases o with
    | none => exact TSpec_none a b
    | some t => exact TSpec_some t a b
  exact gcdext_ok_of hc h hg ha hb hs ht hgs hgt hst has hat (T tv a b) (T sv b a)

/-! ### examples (three-limb a, two-limb b) -/

/-- what an example looks at: value, ALLOC, PTR of the first `k` variables, or the error -/
def lookG (r : R St) (k : Nat) : Except String (List (Int × Nat × Nat)) := r.map (·.view k)

def gxA : Int := 123456789012345678901234567890123456789012345
def gxB : Int := -98765432109876543210987654321
def gxS : Int := -13897166258405449268137282294
def gxT : Int := -17371457664709402175000749915268275989474073

example : Gcd.mpz_gcdext gxA gxB = (3, gxS, gxT) := by decide +kernel
example : gxA * gxS + gxB * gxT = 3 := by decide +kernel
-- all five distinct
example : lookG (gcdext 0 (some 1) (some 2) 3 4 (ofInts [0, 0, 0, gxA, gxB])) 5 =
    .ok [(3, 1, 0), (gxS, 2, 11), (gxT, 3, 10), (gxA, 3, 3), (gxB, 2, 4)] := by decide +kernel
-- operands swapped (asize < bsize): the cofactors swap roles
example : lookG (gcdext 0 (some 1) (some 2) 3 4 (ofInts [0, 0, 0, gxB, gxA])) 5 =
    .ok [(3, 1, 0), (gxT, 3, 10), (gxS, 2, 11), (gxB, 2, 3), (gxA, 3, 4)] := by decide +kernel
-- g = a and s = b, in place
example : lookG (gcdext 0 (some 1) (some 2) 0 1 (ofInts [gxA, gxB, 0])) 3 =
    .ok [(3, 3, 0), (gxS, 2, 1), (gxT, 3, 8)] := by decide +kernel
-- t = a
example : lookG (gcdext 0 (some 1) (some 2) 2 3 (ofInts [0, 0, gxA, gxB])) 4 =
    .ok [(3, 1, 0), (gxS, 2, 9), (gxT, 3, 2), (gxB, 2, 3)] := by decide +kernel
-- s = NULL
example : lookG (gcdext 0 none (some 2) 2 3 (ofInts [0, 0, gxA, gxB])) 4 =
    .ok [(3, 1, 0), (0, 1, 1), (gxT, 3, 2), (gxB, 2, 3)] := by decide +kernel
-- t = NULL
example : lookG (gcdext 0 (some 1) none 2 3 (ofInts [0, 0, gxA, gxB])) 4 =
    .ok [(3, 1, 0), (gxS, 2, 8), (gxA, 3, 2), (gxB, 2, 3)] := by decide +kernel
-- a = b (same variable), g = a
example : lookG (gcdext 3 (some 1) (some 2) 3 3 (ofInts [5, 6, 7, gxA])) 4 =
    .ok [(5, 1, 0), (0, 1, 1), (1, 1, 2), (gxA, 3, 3)] := by decide +kernel
-- the bsize = 0 exit with s = a: g = |a| is copied out before `SIZ (s) = -1; PTR (s)[0] = 1` lands on a
example : lookG (gcdext 0 (some 1) (some 2) 1 3 (ofInts [5, -gxA, 7, 0])) 4 =
    .ok [(gxA, 3, 4), (-1, 3, 1), (0, 1, 2), (0, 1, 3)] := by decide +kernel
-- NEGATIVE, without the TMP copies of the operands (gcdext.c:71-73) mpn_gcdext destroys {PTR (a)}, {PTR (b)}: a, b and t are wrong
example : lookG (gcdextV { copyOperands := false } 0 (some 1) (some 2) 3 4 (ofInts [0, 0, 0, gxA, gxB])) 5 =
    .ok [(3, 1, 0), (gxS, 2, 9), (-256357469318597064494385860018585169424309253996, 4, 8),
      (5460065707201051358373628801397347625591632630148427005679, 3, 3), (-295990755083049101712519384020072382191, 2, 4)] := by
  decide +kernel
-- NEGATIVE, and with a = b (one variable) the call itself is undefined: the two source operands overlap
example : lookG (gcdextV { copyOperands := false } 0 (some 1) (some 2) 3 3 (ofInts [0, 0, 0, gxA])) 4 =
    .error "ub:mpn_gcdext operands overlap" := by decide +kernel
-- NEGATIVE, s written before t is computed: with s = a the product s·a reads the new a, t is wrong (correct: gxT)
example : lookG (gcdextV { tBeforeS := false } 0 (some 1) (some 2) 1 3 (ofInts [0, gxA, 0, gxB])) 4 =
    .ok [(3, 1, 0), (gxS, 3, 1), (1955453703669360966019249215, 2, 9), (gxB, 2, 3)] := by decide +kernel
example : lookG (gcdext 0 (some 1) (some 2) 1 3 (ofInts [0, gxA, 0, gxB])) 4 =
    .ok [(3, 1, 0), (gxS, 3, 1), (gxT, 3, 9), (gxB, 2, 3)] := by decide +kernel

end Mpir.AliasMem
