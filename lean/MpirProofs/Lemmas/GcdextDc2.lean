/- mpn_gcdext after the dc loop (gcdext.c:408-546): the a = b exit, the `u0 == 0` shortcut, and the general case —
   mpn_gcdext_lehmer_n on copies, compute_v (the second Lehmer cofactor by an exact division), and the
   combination  S = u·u1 − v·u0  with its sizes and the four ASSERTs on ualloc. -/
import MpirProofs.Lemmas.GcdextDc
import MpirProofs.Props.C07_gcdext
namespace Mpir.Gcdext
open Mpir Mpir.Gcd Mpir.Hgcd

/-! ### sizes -/

theorem nlimbs_mul_le (x y : Nat) : nlimbs (x * y) ≤ nlimbs x + nlimbs y := by
  apply nlimbs_le_of_lt
  rw [pow_add]
  exact Nat.mul_lt_mul'' (lt_pow_nlimbs x) (lt_pow_nlimbs y)

/-- `n -= (p[n-1] == 0)` normalises a number known to have k or k-1 limbs -/
theorem norm1 {x k : Nat} (hk : 1 ≤ k) (h1 : x < B ^ k) (h2 : k - 1 ≤ nlimbs x) :
    (if limbAt x (k - 1) = 0 then k - 1 else k) = nlimbs x := by
  have hle : nlimbs x ≤ k := nlimbs_le_of_lt h1
  have hz := limbAt_top_zero x k hk h1
  by_cases h : limbAt x (k - 1) = 0
  · rw [if_pos h]
    have := nlimbs_le_of_lt (hz.mp h)
    omega
  · rw [if_neg h]
    have hge : B ^ (k - 1) ≤ x := by
      by_contra hc
      exact h (hz.mpr (by omega))
    have := pow_lt_of hge (lt_pow_nlimbs x)
    omega

/-- size of an exact quotient: vn = size + 1 - bn, vn -= (vp[vn-1] == 0) (gcdext.c:146-150) -/
theorem quot_size {t b : Nat} (hb : 0 < b) (hd : b ∣ t) (ht : 0 < t) :
    (if limbAt (t / b) (nlimbs t + 1 - nlimbs b - 1) = 0 then nlimbs t + 1 - nlimbs b - 1 else nlimbs t + 1 - nlimbs b)
      = nlimbs (t / b) := by
  obtain ⟨v, hv⟩ := hd
  have hv0 : 0 < v := by
    rcases Nat.eq_zero_or_pos v with h | h
    · rw [h] at hv; omega
    · exact h
  have hq : t / b = v := by rw [hv]; exact Nat.mul_div_cancel_left v hb
  rw [hq]
  have h1 := nlimbs_mul_ge hb hv0
  have h2 := nlimbs_mul_le b v
  rw [← hv] at h1 h2
  have hbn := nlimbs_pos hb
  have hvn := nlimbs_pos hv0
  apply norm1 (by omega)
  · exact lt_of_lt_of_le (lt_pow_nlimbs v) (Nat.pow_le_pow_right B_pos (by omega))
  · omega

/-- compute_v (gcdext.c:93): for the Lehmer cofactor u ≠ 0 of (a, b) — {up, |usize|} normalised, g ≤ a — and
    T with b·T = |g − u·a|: returns (T, nlimbs T); both ASSERT_NOCARRY hold (the model reduces modulo the area). -/
theorem computeV_spec (a b g up T : Nat) (usize : Int) (ha : 0 < a) (hb : 0 < b) (hg : 0 < g) (hga : g ≤ a) (hup : 0 < up)
    (hsz : usize.natAbs = nlimbs up)
    (hT : if usize > 0 then b * T + g = a * up else b * T = a * up + g) :
    computeV a b g up usize = (T, nlimbs T) := by
  have han := nlimbs_pos ha
  have hupn := nlimbs_pos hup
  have hprod : a * up < B ^ (usize.natAbs + nlimbs a) := by
    rw [hsz, pow_add, Nat.mul_comm]
    exact Nat.mul_lt_mul'' (lt_pow_nlimbs up) (lt_pow_nlimbs a)
  have hge : g ≤ a * up := le_trans hga (Nat.le_mul_of_pos_right _ hup)
  unfold computeV
  dsimp only
  by_cases hpos : usize > 0
  · rw [if_pos hpos] at hT
    rw [if_pos hpos]
    have e1 : (a * up + B ^ (usize.natAbs + nlimbs a) - g) % B ^ (usize.natAbs + nlimbs a) = b * T := by
      have : a * up + B ^ (usize.natAbs + nlimbs a) - g = b * T + B ^ (usize.natAbs + nlimbs a) := by omega
      rw [this, Nat.add_mod_right]
      exact Nat.mod_eq_of_lt (by omega)
    rw [e1]
    by_cases hz : nlimbs (b * T) = 0
    · rw [if_pos hz]
      have := (nlimbs_eq_zero_iff _).mp hz
      have hT0 : T = 0 := by
        rcases Nat.mul_eq_zero.mp this with h | h
        · omega
        · exact h
      rw [hT0, nlimbs_zero]
    · rw [if_neg hz]
      have hpos' : 0 < b * T := Nat.pos_of_ne_zero (fun h => hz (by rw [h]; exact nlimbs_zero))
      have hq : b * T / b = T := Nat.mul_div_cancel_left T hb
      have := quot_size hb (Dvd.intro T rfl) hpos'
      rw [hq] at this ⊢
      rw [this]
  · rw [if_neg hpos] at hT
    rw [if_neg hpos]
    have hfit : a * up + g < B ^ (usize.natAbs + nlimbs a) := by
      -- g ≤ a and up + 1 ≤ B^|usize|
      have h1 : up + 1 ≤ B ^ usize.natAbs := by rw [hsz]; exact lt_pow_nlimbs up
      have h2 : a * (up + 1) ≤ a * B ^ usize.natAbs := Nat.mul_le_mul_left _ h1
      have h3 : a * B ^ usize.natAbs < B ^ nlimbs a * B ^ usize.natAbs :=
        Nat.mul_lt_mul_of_pos_right (lt_pow_nlimbs a) (pow_pos B_pos _)
      rw [pow_add, Nat.mul_comm (B ^ usize.natAbs)]
      rw [Nat.mul_add] at h2
      omega
    have e1 : (a * up + g) % B ^ (usize.natAbs + nlimbs a) = b * T := by
      rw [Nat.mod_eq_of_lt hfit, hT]
    rw [e1]
    have hpos' : 0 < b * T := by omega
    have hlow : usize.natAbs + nlimbs a - 1 ≤ nlimbs (b * T) := by
      have := nlimbs_mul_ge ha hup
      have h4 : nlimbs (a * up) ≤ nlimbs (b * T) := by
        apply nlimbs_le_of_lt
        exact lt_of_le_of_lt (by omega : a * up ≤ b * T) (lt_pow_nlimbs _)
      omega
    have hn := norm1 (x := b * T) (k := usize.natAbs + nlimbs a) (by omega) (by rw [hT]; exact hfit) hlow
    rw [hn]
    have hq : b * T / b = T := Nat.mul_div_cancel_left T hb
    have := quot_size hb (Dvd.intro T rfl) hpos'
    rw [hq] at this ⊢
    rw [this]

/-! ### assembling the result -/

theorem usize_of {usize S : Int} {up : Nat} (h1 : up = S.natAbs) (h2 : usize.natAbs = nlimbs up) (h3 : usize < 0 ↔ S < 0) :
    usize = (if S < 0 then -1 else 1) * (nlimbs S.natAbs : Int) := by
  rw [← h1, ← h2]
  by_cases h : S < 0
  · rw [if_pos h]; have := h3.mpr h; omega
  · rw [if_neg h]; have : ¬ usize < 0 := fun hc => h (h3.mp hc); omega

/-- cy = mpn_add (...); up[un] = cy; un += (cy != 0)  (gcdext.c:528-538) -/
theorem add_size (p q : Nat) (hp : 0 < p) :
    (if (p + q) / B ^ (if nlimbs q ≤ nlimbs p then nlimbs p else nlimbs q) ≠ 0
      then (if nlimbs q ≤ nlimbs p then nlimbs p else nlimbs q) + 1 else (if nlimbs q ≤ nlimbs p then nlimbs p else nlimbs q))
      = nlimbs (p + q) := by
  obtain ⟨k, hk⟩ : ∃ k, (if nlimbs q ≤ nlimbs p then nlimbs p else nlimbs q) = k := ⟨_, rfl⟩
  rw [hk]
  have hpk : nlimbs p ≤ k := by rw [← hk]; split <;> omega
  have hqk : nlimbs q ≤ k := by rw [← hk]; split <;> omega
  have hpn := nlimbs_pos hp
  have h1 : p < B ^ k := lt_of_lt_of_le (lt_pow_nlimbs p) (Nat.pow_le_pow_right B_pos hpk)
  have h2 : q < B ^ k := lt_of_lt_of_le (lt_pow_nlimbs q) (Nat.pow_le_pow_right B_pos hqk)
  have h3 := two_pow_le k
  have hlow : B ^ (k - 1) ≤ p + q := by
    by_cases hc : nlimbs q ≤ nlimbs p
    · rw [if_pos hc] at hk; rw [← hk]; have := pow_le_of_nlimbs hp; omega
    · rw [if_neg hc] at hk; rw [← hk]
      have hq0 : 0 < q := by
        rcases Nat.eq_zero_or_pos q with h | h
        · rw [h, nlimbs_zero] at hc; omega
        · exact h
      have := pow_le_of_nlimbs hq0; omega
  by_cases hc : (p + q) / B ^ k ≠ 0
  · rw [if_pos hc]
    exact (nlimbs_of_bounds (by omega) (by simpa using div_pow_ne_zero.mp hc) (by omega)).symm
  · rw [if_neg hc]
    rw [not_not, Nat.div_eq_zero_iff_lt (pow_pos B_pos _)] at hc
    exact (nlimbs_of_bounds (by omega) hlow hc).symm

theorem nlimbs_pair_le {x y N : Nat} (hx : 0 < x) (hy : 0 < y) (h : x * y < B ^ N) : nlimbs x + nlimbs y ≤ N + 1 := by
  have := nlimbs_mul_ge hx hy
  have := nlimbs_le_of_lt h
  omega

theorem cofBound_lt {V G N : Nat} {S : Int} (h : CofBound V G S) (hG : 0 < G) (hV : V < B ^ N) (hV1 : 1 < V) : S.natAbs < B ^ N := by
  rcases h with h | ⟨h, _⟩
  · have : S.natAbs ≤ 2 * G * S.natAbs := Nat.le_mul_of_pos_left _ (by omega)
    omega
  · rw [h]; simp; omega

/-- the second Lehmer cofactor: signs and sizes (`Ext1Bound`), from the bound on the first -/
theorem ext1Bound_of_cofBound (a b g : Nat) (S T : Int) (ha : 0 < a) (hb : 0 < b) (hne : a ≠ b) (hg : g = Nat.gcd a b)
    (hid : (a : Int) * S + b * T = g) (hbd : CofBound b g S) (hS : S ≠ 0) : Ext1Bound a b g S T := by
  have hmod : ((g : Int) - a * S) % b = 0 := Int.emod_eq_zero_of_dvd ⟨T, by linarith⟩
  have hok := Mpir.C07x.cofBound_contract a b g S hb hg hmod hbd
  obtain ⟨_, ⟨k1, k2, k3⟩⟩ := mpn_key a b g S T ha hb hne hok hid
  have hgpos : 0 < g := by rw [hg]; exact Nat.gcd_pos_of_pos_left _ ha
  have hga : g ≤ a := by rw [hg]; exact Nat.gcd_le_left _ ha
  have hgi : (0 : Int) < g := by exact_mod_cast hgpos
  have hai : (0 : Int) < a := by exact_mod_cast ha
  have hbi : (0 : Int) < b := by exact_mod_cast hb
  have hgai : (g : Int) ≤ a := by exact_mod_cast hga
  rcases lt_or_gt_of_ne hS with hneg | hpos
  · -- S < 0: T > 0
    right
    have hTpos : 0 < T := by
      by_contra hc
      have h1 : (b : Int) * T ≤ 0 := mul_nonpos_of_nonneg_of_nonpos (le_of_lt hbi) (by omega)
      have h2 : (a : Int) * S < 0 := mul_neg_of_pos_of_neg hai hneg
      linarith
    have hb1 : 2 * (g : Int) * (-S) < b := by
      rcases hbd with h | ⟨h, _⟩
      · have h' : ((2 * g * S.natAbs : Nat) : Int) < b := by exact_mod_cast h
        push_cast at h'
        rw [abs_of_neg hneg] at h'; exact h'
      · omega
    refine ⟨le_of_lt hneg, le_of_lt hTpos, hb1, ?_⟩
    have e : (T.natAbs : Int) = T := by omega
    by_cases h2 : (a : Int) = 2 * g
    · have := k1 h2; rw [this]; linarith
    · have := k2 h2; rw [e] at this; exact le_of_lt this
  · left
    have hTle : T ≤ 0 := by
      by_contra hc
      have h1 : (b : Int) * 1 ≤ b * T := mul_le_mul_of_nonneg_left (by omega) (le_of_lt hbi)
      have h2 : (a : Int) * 1 ≤ a * S := mul_le_mul_of_nonneg_left (by omega) (le_of_lt hai)
      linarith
    have e : (S.natAbs : Int) = S := by omega
    have eT : (T.natAbs : Int) = -T := by omega
    refine ⟨le_of_lt hpos, hTle, ?_, ?_, ?_⟩
    · rcases hbd with h | ⟨h1, h2⟩
      · have h' : ((2 * g * S.natAbs : Nat) : Int) < b := by exact_mod_cast h
        push_cast at h'
        rw [abs_of_pos hpos] at h'; exact le_of_lt h'
      · rw [h1, h2]; push_cast; linarith
    · by_cases h2 : (a : Int) = 2 * g
      · have := k1 h2; omega
      · have := k2 h2; rw [eT] at this; exact le_of_lt this
    · intro heq
      rcases hbd with h | ⟨h1, _⟩
      · have h' : ((2 * g * S.natAbs : Nat) : Int) < b := by exact_mod_cast h
        push_cast at h'
        rw [abs_of_pos hpos] at h'; linarith
      · exact h1

/-- |S_l|·u1 + |T|·u0 is the magnitude of S_l·u1 − T·u0 when S_l, T have opposite signs -/
theorem combine_abs (S T : Int) (u0 u1 : Nat) (h : (0 < S ∧ T ≤ 0) ∨ (S < 0 ∧ 0 ≤ T)) :
    (S * u1 - T * u0).natAbs = u1 * S.natAbs + u0 * T.natAbs ∧ ((S * u1 - T * u0 < 0 ↔ S < 0) ∨ (u1 = 0)) := by
  rcases h with ⟨h1, h2⟩ | ⟨h1, h2⟩
  · have e1 : (S.natAbs : Int) = S := by omega
    have e2 : (T.natAbs : Int) = -T := by omega
    have e : S * u1 - T * u0 = ((u1 * S.natAbs + u0 * T.natAbs : Nat) : Int) := by push_cast; rw [← Int.natCast_natAbs, ← Int.natCast_natAbs, e1, e2]; ring
    refine ⟨by rw [e, Int.natAbs_natCast], Or.inl ⟨fun hc => ?_, fun hc => by omega⟩⟩
    rw [e] at hc
    exact absurd hc (not_lt.mpr (Int.natCast_nonneg _))
  · have e1 : (S.natAbs : Int) = -S := by omega
    have e2 : (T.natAbs : Int) = T := by omega
    have e : S * u1 - T * u0 = -((u1 * S.natAbs + u0 * T.natAbs : Nat) : Int) := by push_cast; rw [← Int.natCast_natAbs, ← Int.natCast_natAbs, e1, e2]; ring
    refine ⟨by rw [e, Int.natAbs_neg, Int.natAbs_natCast], ?_⟩
    by_cases hu : u1 = 0
    · exact Or.inr hu
    · left
      refine ⟨fun _ => h1, fun _ => ?_⟩
      rw [e]
      have : 0 < u1 * S.natAbs := Nat.mul_pos (Nat.pos_of_ne_zero hu) (by omega)
      have : (0 : Int) < ((u1 * S.natAbs + u0 * T.natAbs : Nat) : Int) := by exact_mod_cast (by omega : 0 < u1 * S.natAbs + u0 * T.natAbs)
      omega

/-- gcdext.c:408-546 -/
theorem dcFinish_spec (A V G N : Nat) (P : Prop) (hV : V < B ^ N) (hV1 : 1 < V) (s : DcState) (h : DInv A V G P s) :
    ResOk A V G (dcFinish (N + 1) s) ∧ (P → (dcFinish (N + 1) s).ok = true) := by
  obtain ⟨a, b, n, ⟨u0, u1, un, ok⟩⟩ := s
  obtain ⟨hl, hcof, hgcd, hsz, hokP⟩ := h
  simp only at hl hcof hgcd hsz hokP
  obtain ⟨h0a, h0b, haB, hbB, ht, hn1⟩ := hl
  obtain ⟨hsum, hu1, hz0, _⟩ := cofOk_sum hcof
  have hGpos : 0 < G := by rw [← hgcd]; exact Nat.gcd_pos_of_pos_left _ h0a
  unfold dcFinish
  dsimp only
  by_cases hab : a = b
  · -- a = b: the smaller of +u1, -u0
    rw [if_pos hab]
    have hna : n = nlimbs a := by
      rcases ht with h | h
      · exact (nlimbs_of_bounds hn1 h haB).symm
      · rw [hab]; exact (nlimbs_of_bounds hn1 h hbB).symm
    have hex : ExitOk A V (u0, u1) a (-1) := ⟨a, b, h0a, h0b, hcof, Or.inl ⟨rfl, rfl, hab.symm⟩⟩
    obtain ⟨r1, r2⟩ := exitOk_result hex
    have hG := hookG_spec ⟨u0, u1, un, true⟩ a (-1) hsz
    obtain ⟨x1, x2, x3, x4, x5⟩ := hookG_okirr ok ⟨u0, u1, un, ok⟩ ⟨u0, u1, un, true⟩ a (nlimbs a) (-1) ⟨rfl, rfl, rfl, by simp⟩
    obtain ⟨y1, y2, y3, y4, y5⟩ := hG
    have haG : a = G := by rw [← hgcd, ← hab, Nat.gcd_self]
    rw [hna]
    subst haG
    refine ⟨⟨_, by rw [x1]; exact y1, by rw [x2]; exact y2, by rw [x4]; exact y4, by rw [x3]; exact y5, r1, r2⟩, fun hp => ?_⟩
    rw [x5, y3, hokP hp]; rfl
  · rw [if_neg hab]
    obtain ⟨r1, r2, r3, r4, r5, r6, r7, r8, _⟩ := Mpir.C07x.mpn_gcdext_lehmer_n_correct a b n h0a h0b haB hbB ht hn1
    rw [hgcd] at r1 r2 r4 r5
    have hus := usize_of r6 r7 r8
    by_cases hz : u0 % B = 0 ∧ un = 1
    · -- u0 = 0, u1 = 1: b = V, a = A − k·V
      rw [if_pos hz]
      have hu00 : u0 = 0 := by
        obtain ⟨b0, _⟩ := hsz
        simp only at b0
        rw [hz.2, pow_one] at b0
        have := Nat.mod_eq_of_lt b0
        omega
      have hu11 := hz0 hu00
      obtain ⟨v0, v1, hd, ca, cb⟩ := hcof
      simp only at hd ca cb
      rw [hu11] at hd ca
      rw [hu00] at hd cb
      have hv0 : v0 = 1 := by omega
      have hbV : b = V := by rw [hv0] at cb; push_cast at cb; have : (b : Int) = V := by linarith
                             exact_mod_cast this
      obtain ⟨t, ht'⟩ := Int.dvd_of_emod_eq_zero r4
      refine ⟨⟨(lehmerNS a b n).S, r1, r2, r6, hus, ⟨t - v1 * (lehmerNS a b n).S, ?_⟩, by rw [← hbV]; exact r5⟩, fun _ => r3⟩
      have ht'' : (G : Int) - a * (lehmerNS a b n).S = b * t := ht'
      have hbVi : (b : Int) = V := by exact_mod_cast hbV
      push_cast at ca
      linear_combination (-1 : Int) * ht'' - (lehmerNS a b n).S * ca - t * hbVi
    · rw [if_neg hz]
      have hu0pos : 1 ≤ u0 := by
        by_contra hc
        have hu00 : u0 = 0 := by omega
        have hu11 := hz0 hu00
        obtain ⟨_, _, t3, t4, _⟩ := hsz
        simp only at t3 t4
        rw [hu00, hu11] at t3
        apply hz
        refine ⟨by rw [hu00]; rfl, ?_⟩
        rcases t3 with t3 | t3
        · have := pow_pos B_pos (un - 1); omega
        · by_contra hne
          have h2 : B ^ 1 ≤ B ^ (un - 1) := Nat.pow_le_pow_right B_pos (by omega)
          rw [pow_one] at h2
          have hB : 2 ≤ B := by rw [B_eq]; norm_num
          omega
      obtain ⟨t, ht'⟩ := Int.dvd_of_emod_eq_zero r4
      have hid : (a : Int) * (lehmerNS a b n).S + b * t = G := by
        have ht'' : (G : Int) - a * (lehmerNS a b n).S = b * t := ht'
        linarith
      generalize lehmerNS a b n = l at r1 r2 r3 r5 r6 r7 r8 hus hid ⊢
      generalize hS : l.S = S at r5 r6 r8 hus hid
      by_cases hu : l.usize = 0
      · -- u = 0: b = g, the cofactor is -u0
        rw [if_pos hu]
        have hup0 : l.up = 0 := by
          rw [hu] at r7; simp at r7
          exact (nlimbs_eq_zero_iff _).mp r7.symm
        have hS0 : S = 0 := by rw [hup0] at r6; omega
        rw [hS0] at hid
        have hbG : b = G := by
          have h1 : (b : Int) ∣ G := ⟨t, by linarith⟩
          have h2 : b ∣ G := by exact_mod_cast h1
          have h3 : G ∣ b := by rw [← hgcd]; exact Nat.gcd_dvd_right _ _
          exact Nat.dvd_antisymm h2 h3
        have hGa : G ∣ a := by rw [← hgcd]; exact Nat.gcd_dvd_left _ _
        obtain ⟨q, hq⟩ := hGa
        have hq2 : 2 ≤ q := by
          by_contra hc
          have : q = 0 ∨ q = 1 := by omega
          rcases this with h | h <;> rw [h] at hq <;> omega
        have hbd := exit_d1 hcof h0b (by rw [hq, hbG, Nat.mul_comm] : a = q * b) hq2
        obtain ⟨tb, htb⟩ := cofOk_b hcof
        rw [hbG] at hbd htb
        refine ⟨⟨-(u0 : Int), r1, r2, by simp, ?_, ⟨tb, htb⟩, hbd⟩, fun hp => by simp only [hokP hp, r3]; rfl⟩
        show -((nlimbs u0 : Nat) : Int) = _
        rw [if_pos (by omega), Int.natAbs_neg, Int.natAbs_natCast]; ring
      · rw [if_neg hu]
        have hSne : S ≠ 0 := by
          intro h0
          rw [h0] at r6; simp at r6
          rw [r6, nlimbs_zero] at r7
          omega
        have hext := ext1Bound_of_cofBound a b G S t h0a h0b hab hgcd.symm hid r5 hSne
        have hsgn : (0 < S ∧ t ≤ 0) ∨ (S < 0 ∧ 0 ≤ t) := by
          rcases hext with ⟨e1, e2, _⟩ | ⟨e1, e2, _⟩
          · left; exact ⟨by omega, e2⟩
          · right; exact ⟨by omega, e2⟩
        have hbound := final_bound a b G u0 u1 V S t hsum hu1 hz0 hGpos hid hext
        obtain ⟨habs, hsg⟩ := combine_abs S t u0 u1 hsgn
        have hsg' : S * u1 - t * u0 < 0 ↔ S < 0 := by
          rcases hsg with h | h
          · exact h
          · omega
        have hupos : 0 < l.up := by rw [r6]; omega
        have hGa : G ≤ a := by rw [← hgcd]; exact Nat.gcd_le_left _ h0a
        have hcv : computeV a b G l.up l.usize = (t.natAbs, nlimbs t.natAbs) := by
          apply computeV_spec a b G l.up t.natAbs l.usize h0a h0b hGpos hGa hupos r7
          rcases hsgn with ⟨e1, e2⟩ | ⟨e1, e2⟩
          · have hpos : l.usize > 0 := by
              have : ¬ l.usize < 0 := fun hc => by have := r8.mp hc; omega
              omega
            rw [if_pos hpos]
            have eS : (S.natAbs : Int) = S := by omega
            have eT : (t.natAbs : Int) = -t := by omega
            have : ((b * t.natAbs + G : Nat) : Int) = ((a * l.up : Nat) : Int) := by
              rw [r6, Nat.cast_add, Nat.cast_mul, Nat.cast_mul, eS, eT]; linarith
            exact_mod_cast this
          · have hneg : ¬ l.usize > 0 := by have := r8.mpr e1; omega
            rw [if_neg hneg]
            have eS : (S.natAbs : Int) = -S := by omega
            have eT : (t.natAbs : Int) = t := by omega
            have : ((b * t.natAbs : Nat) : Int) = ((a * l.up + G : Nat) : Int) := by
              rw [r6, Nat.cast_add, Nat.cast_mul, Nat.cast_mul, eS, eT]; linarith
            exact_mod_cast this
        rw [r1, hcv]
        simp only
        have hident : ∃ t' : Int, (A : Int) * (S * u1 - t * u0) + V * t' = G := by
          obtain ⟨ta, hta⟩ := cofOk_a hcof
          obtain ⟨tb, htb⟩ := cofOk_b hcof
          refine ⟨S * ta + t * tb, ?_⟩
          rw [← hid, ← hta, ← htb]; ring
        have hxN := cofBound_lt hbound hGpos hV hV1
        rw [habs, ← r6] at hxN
        have hneg_iff : (decide (l.usize < 0) = true) ↔ S * u1 - t * u0 < 0 := by
          rw [decide_eq_true_eq, hsg']; exact r8
        have hflag1 : l.usize.natAbs + nlimbs u1 ≤ N + 1 := by
          rw [r7]
          exact nlimbs_pair_le hupos hu1 (lt_of_le_of_lt (by rw [Nat.mul_comm]; exact Nat.le_add_right _ _) hxN)
        by_cases ht0 : nlimbs t.natAbs > 0
        · rw [if_pos ht0]
          have htpos : 0 < t.natAbs := by
            rcases Nat.eq_zero_or_pos t.natAbs with h | h
            · rw [h, nlimbs_zero] at ht0; omega
            · exact h
          have hsz2 := add_size (u1 * l.up) (u0 * t.natAbs) (Nat.mul_pos hu1 hupos)
          have hflag2 : nlimbs t.natAbs + nlimbs u0 ≤ N + 1 :=
            nlimbs_pair_le htpos hu0pos (lt_of_le_of_lt (by rw [Nat.mul_comm]; exact Nat.le_add_left _ _) hxN)
          have hxn : nlimbs (u1 * l.up + u0 * t.natAbs) ≤ N := nlimbs_le_of_lt hxN
          refine ⟨⟨S * u1 - t * u0, rfl, r2, by rw [habs, r6], ?_, hident, hbound⟩, fun hp => ?_⟩
          · show (if decide (l.usize < 0) = true then -((_ : Nat) : Int) else ((_ : Nat) : Int)) = _
            rw [hsz2, habs, ← r6]
            by_cases hc : S * u1 - t * u0 < 0
            · rw [if_pos (hneg_iff.mpr hc), if_pos hc]; ring
            · rw [if_neg (fun h => hc (hneg_iff.mp h)), if_neg hc]; ring
          · show (ok && l.ok && decide (_ ≤ N + 1) && decide (_ ≤ N + 1) && decide (_ < N + 1)) = true
            rw [hokP hp, r3]
            simp only [Bool.and_self, Bool.true_and, Bool.and_eq_true, decide_eq_true_eq]
            refine ⟨⟨hflag1, hflag2⟩, ?_⟩
            have : (if nlimbs (u0 * t.natAbs) ≤ nlimbs (u1 * l.up) then nlimbs (u1 * l.up) else nlimbs (u0 * t.natAbs)) ≤
                nlimbs (u1 * l.up + u0 * t.natAbs) := by
              generalize (if nlimbs (u0 * t.natAbs) ≤ nlimbs (u1 * l.up) then nlimbs (u1 * l.up) else nlimbs (u0 * t.natAbs)) = k at hsz2 ⊢
              rw [← hsz2]; split <;> omega
            omega
        · rw [if_neg ht0]
          have ht00 : t.natAbs = 0 := by
            have : nlimbs t.natAbs = 0 := by omega
            exact (nlimbs_eq_zero_iff _).mp this
          rw [ht00, Nat.mul_zero, Nat.add_zero] at habs
          refine ⟨⟨S * u1 - t * u0, rfl, r2, by rw [habs, r6], ?_, hident, hbound⟩, fun hp => ?_⟩
          · show (if decide (l.usize < 0) = true then -((_ : Nat) : Int) else ((_ : Nat) : Int)) = _
            rw [habs, ← r6]
            by_cases hc : S * u1 - t * u0 < 0
            · rw [if_pos (hneg_iff.mpr hc), if_pos hc]; ring
            · rw [if_neg (fun h => hc (hneg_iff.mp h)), if_neg hc]; ring
          · show (ok && l.ok && decide (_ ≤ N + 1)) = true
            rw [hokP hp, r3]
            simp only [Bool.and_self, Bool.true_and, decide_eq_true_eq]
            exact hflag1

/-! ### mpn_gcdext on the divide-and-conquer range -/

theorem resOk_S {A V G : Nat} {r : Fin} (h : ResOk A V G r) :
    r.g = G ∧ r.gn = nlimbs G ∧ r.up = r.S.natAbs ∧ r.usize.natAbs = nlimbs r.up ∧ (r.usize < 0 ↔ r.S < 0) ∧
    (∃ t : Int, (A : Int) * r.S + V * t = G) ∧ CofBound V G r.S := by
  obtain ⟨S, h1, h2, h3, h4, h5, h6⟩ := h
  have hS : r.S = S := by
    unfold Fin.S
    rw [h3, h4]
    by_cases hneg : S < 0
    · have hn : 0 < nlimbs S.natAbs := nlimbs_pos (Int.natAbs_pos.mpr (by omega))
      rw [if_pos hneg, if_pos (by omega)]; omega
    · rw [if_neg hneg, if_neg (by simp)]; omega
  rw [hS]
  refine ⟨h1, h2, h3, by rw [h4, h3]; split <;> simp, ?_, h5, h6⟩
  rw [h4]
  by_cases hneg : S < 0
  · have hn : 0 < nlimbs S.natAbs := nlimbs_pos (Int.natAbs_pos.mpr (by omega))
    rw [if_pos hneg]; constructor <;> intro <;> omega
  · rw [if_neg hneg]; constructor <;> intro <;> omega

/-- mpn_gcdext (sized model, `hg` = mpn_hgcd) for n ≥ GCDEXT_DC_THRESHOLD limbs in V: the first round, the loop, the
    exit code — given the contract of `hg` on every size it is called with (n − n/3 < R). -/
theorem mpnGcdextS_dc_spec (hg : Nat → Nat → Nat → HM → StepRes) (R dcThr U V : Nat) (hok : HgOk hg R) (h10 : 10 ≤ dcThr)
    (hV0 : 0 < V) (hle : nlimbs V ≤ nlimbs U) (hdc : dcThr ≤ nlimbs V) (hR : nlimbs V - nlimbs V / 3 < R) :
    let r := mpnGcdextS hg dcThr U (nlimbs U) V (nlimbs V)
    mpnGcdextOk U V r.g r.S ∧ CofBound V r.g r.S ∧ r.gn = nlimbs r.g ∧ r.up = r.S.natAbs ∧ r.usize.natAbs = nlimbs r.up ∧
      (r.usize < 0 ↔ r.S < 0) ∧ (HgMn hg R → r.ok = true) := by
  intro r
  have hnV := nlimbs_bounds V hV0
  have hn1 := nlimbs_pos hV0
  have hV1 : 1 < V := by
    have h2 : B ^ 1 ≤ B ^ (nlimbs V - 1) := Nat.pow_le_pow_right B_pos (by omega)
    rw [pow_one] at h2
    have hB : 2 ≤ B := by rw [B_eq]; norm_num
    omega
  -- the general conversion from ResOk w.r.t. A ≡ U (mod V)
  have conv : ∀ (A : Nat) (q : Nat) (r : Fin), U = A + V * q → ResOk A V (Nat.gcd A V) r →
      mpnGcdextOk U V r.g r.S ∧ CofBound V r.g r.S ∧ r.gn = nlimbs r.g ∧ r.up = r.S.natAbs ∧ r.usize.natAbs = nlimbs r.up ∧
      (r.usize < 0 ↔ r.S < 0) := by
    intro A q r hU hres
    obtain ⟨k1, k2, k3, k4, k5, ⟨t, ht⟩, k7⟩ := resOk_S hres
    have hG : Nat.gcd A V = Nat.gcd U V := by
      rw [hU, Nat.gcd_comm, Nat.gcd_comm (A + V * q) V, Nat.gcd_add_mul_left_right]
    rw [hG] at k1 k2 k7 ht
    rw [k1]
    refine ⟨Mpir.C07x.cofBound_contract U V _ _ hV0 rfl ?_ k7, k7, k2, k3, k4, k5⟩
    apply Int.emod_eq_zero_of_dvd
    refine ⟨t - q * r.S, ?_⟩
    have hUi : (U : Int) = A + V * q := by exact_mod_cast hU
    rw [hUi]
    linear_combination (-1 : Int) * ht
  have main : ∀ (A q : Nat) (r : Fin), U = A + V * q → 0 < A → A < B ^ nlimbs V →
      r = (match dcFirst hg (nlimbs V + 1) A V (nlimbs V) with
        | .inr r => r
        | .inl s =>
            match dcLoop hg dcThr (nlimbs V + 1) (s.a + s.b + 1) s with
            | .inr r => r
            | .inl s => dcFinish (nlimbs V + 1) s) →
      mpnGcdextOk U V r.g r.S ∧ CofBound V r.g r.S ∧ r.gn = nlimbs r.g ∧ r.up = r.S.natAbs ∧ r.usize.natAbs = nlimbs r.up ∧
      (r.usize < 0 ↔ r.S < 0) ∧ (HgMn hg R → r.ok = true) := by
    intro A q r hU hA0 hAB hr
    have hl : LInv A V (nlimbs V) := ⟨hA0, hV0, hAB, hnV.1, Or.inr hnV.2, hn1⟩
    have d1 := dcFirst_spec hg R A V (nlimbs V) hok (by omega) (by omega) hl
    cases hd : dcFirst hg (nlimbs V + 1) A V (nlimbs V) with
    | inr r' =>
      rw [hd] at d1 hr
      simp only at d1 hr
      subst hr
      obtain ⟨c1, c2, c3, c4, c5, c6⟩ := conv A q r hU d1.1
      exact ⟨c1, c2, c3, c4, c5, c6, d1.2⟩
    | inl s =>
      rw [hd] at d1 hr
      simp only at d1 hr
      have d2 := dcLoop_spec hg R dcThr A V (Nat.gcd A V) (nlimbs V) hok (by omega) hR hAB hnV.1 (s.a + s.b + 1) s d1 (by omega)
      cases hd2 : dcLoop hg dcThr (nlimbs V + 1) (s.a + s.b + 1) s with
      | inr r' =>
        rw [hd2] at d2 hr
        simp only at d2 hr
        subst hr
        obtain ⟨c1, c2, c3, c4, c5, c6⟩ := conv A q r hU d2.1
        exact ⟨c1, c2, c3, c4, c5, c6, d2.2⟩
      | inl s' =>
        rw [hd2] at d2 hr
        simp only at d2 hr
        obtain ⟨e1, e2⟩ := dcFinish_spec A V (Nat.gcd A V) (nlimbs V) (HgMn hg R) hnV.1 hV1 s' d2
        subst hr
        obtain ⟨c1, c2, c3, c4, c5, c6⟩ := conv A q _ hU e1
        exact ⟨c1, c2, c3, c4, c5, c6, e2⟩
  have hr : r = mpnGcdextS hg dcThr U (nlimbs U) V (nlimbs V) := rfl
  clear_value r
  unfold mpnGcdextS at hr
  dsimp only at hr
  by_cases hgt : nlimbs U > nlimbs V
  · simp only [if_pos hgt] at hr
    have hlt' : U % V < V := Nat.mod_lt _ hV0
    by_cases hz : U % V = 0
    · rw [if_pos ⟨hgt, hz⟩] at hr
      subst hr
      have hVU : V ∣ U := Nat.dvd_of_mod_eq_zero hz
      have hS : (⟨V, nlimbs V, 0, 0, true⟩ : Fin).S = 0 := by unfold Fin.S; simp
      rw [hS]
      refine ⟨⟨(Nat.gcd_eq_right hVU).symm, by simp, Or.inr (by simpa using hV0), by simp [hz]⟩, Or.inl (by simpa using hV0), rfl, rfl, ?_, by simp, fun _ => rfl⟩
      show (0 : Int).natAbs = nlimbs 0
      rw [nlimbs_zero]; rfl
    · rw [if_neg (fun h => hz h.2), if_neg (by omega)] at hr
      exact main (U % V) (U / V) r (Nat.mod_add_div U V).symm (Nat.pos_of_ne_zero hz) (lt_trans hlt' hnV.1) hr
  · simp only [if_neg hgt] at hr
    rw [if_neg (fun h => hgt h.1), if_neg (by omega)] at hr
    have hn : nlimbs U = nlimbs V := by omega
    have hU0 : 0 < U := by
      rcases Nat.eq_zero_or_pos U with h | h
      · rw [h, nlimbs_zero] at hn; omega
      · exact h
    have hnU := nlimbs_bounds U hU0
    rw [hn] at hnU
    exact main U 0 r (by simp) hU0 hnU.1 hr

end Mpir.Gcdext
