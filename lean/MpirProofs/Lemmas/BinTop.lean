/-
  C16 part binsmall: the dispatcher mpz_bin_uiui (mpz/bin_uiui.c:708-742) — every branch returns binomial (n, k).
-/
import MpirProofs.Lemmas.BinBdiv
import MpirProofs.Lemmas.Goet
namespace Mpir.Numth
open Mpir Mpir.Gen.NumthTabs Mpir.Sieve Nat

theorem bin_dispatch_consts : ODD_FACTORIAL_TABLE_LIMIT = 25 ∧ ODD_CENTRAL_BINOMIAL_TABLE_LIMIT = 35 ∧
    ODD_FACTORIAL_EXTTABLE_LIMIT = 67 ∧ BIN_UIUI_RECURSIVE_SMALLDC = 1 ∧ BIN_UIUI_ENABLE_SMALLDC = 1 := by decide

/-- mpz_bin_uiui after `k = MIN (k, n - k)`: every algorithm the dispatcher can select returns binomial (n, k) -/
theorem mpz_bin_uiui_reduced (n k : ℕ) (hn : n < B) (h2k : 2 * k ≤ n) :
    (match (if k < 2 then (BinAlg.tiny, k)
      else if n ≤ ODD_FACTORIAL_EXTTABLE_LIMIT then (BinAlg.bc, k)
      else if k ≤ ODD_FACTORIAL_TABLE_LIMIT then (BinAlg.smallk, k)
      else if BIN_UIUI_ENABLE_SMALLDC ≠ 0 ∧
          k ≤ (if BIN_UIUI_RECURSIVE_SMALLDC ≠ 0 then ODD_CENTRAL_BINOMIAL_TABLE_LIMIT else ODD_FACTORIAL_TABLE_LIMIT) * 2 then (BinAlg.smallkdc, k)
      else if aboveThreshold k BIN_GOETGHELUCK_THRESHOLD ∧ k > n / 16 then (BinAlg.goetgheluck, k)
      else (BinAlg.bdiv, k)) with
    | (.zero, _) => some 0
    | (.tiny, k) => some (if k ≠ 0 then n else 1)
    | (.bc, k) => some (bc_bin_uiui n k)
    | (.smallk, k) => some (smallk_bin_uiui n k)
    | (.smallkdc, k) => some (smallkdc_bin_uiui 8 n k)
    | (.goetgheluck, k) => some (goetgheluck_bin_uiui n k)
    | (.bdiv, k) => bdiv_bin_uiui n k) = some (n.choose k) := by
  obtain ⟨c1, c2, c3, c4, c5⟩ := bin_dispatch_consts
  by_cases h2 : k < 2
  · rw [if_pos h2]
    simp only
    have : k = 0 ∨ k = 1 := by omega
    rcases this with rfl | rfl <;> simp
  rw [if_neg h2]
  by_cases h3 : n ≤ ODD_FACTORIAL_EXTTABLE_LIMIT
  · rw [if_pos h3]
    simp only
    rw [bc_bin_uiui_binom n (by omega) k (by omega) (by omega) (by omega), binom_eq_choose]
  rw [if_neg h3]
  by_cases h4 : k ≤ ODD_FACTORIAL_TABLE_LIMIT
  · rw [if_pos h4]
    simp only
    rw [smallk_bin_uiui_eq n k (by omega) h4 (by omega) hn]
  rw [if_neg h4]
  by_cases h5 : BIN_UIUI_ENABLE_SMALLDC ≠ 0 ∧
      k ≤ (if BIN_UIUI_RECURSIVE_SMALLDC ≠ 0 then ODD_CENTRAL_BINOMIAL_TABLE_LIMIT else ODD_FACTORIAL_TABLE_LIMIT) * 2
  · rw [if_pos h5]
    simp only
    have h5' : k ≤ 2 * ODD_CENTRAL_BINOMIAL_TABLE_LIMIT := by
      have := h5.2
      rw [c4] at this
      simp only [Nat.one_ne_zero, ne_eq, not_false_eq_true, if_true] at this
      omega
    rw [smallkdc_bin_uiui_eq 8 n k (by omega) h5' (by rw [c2] at h5'; omega) h2k hn]
  rw [if_neg h5]
  by_cases h6 : aboveThreshold k BIN_GOETGHELUCK_THRESHOLD = true ∧ k > n / 16
  · rw [if_pos h6]
    simp only
    rw [goetgheluck_eq_choose n k (by omega) hn h2k (by rw [nb_eq, nb_eq]; omega)]
  · rw [if_neg h6]
    simp only
    exact bdiv_bin_uiui_eq n k (by omega) h2k hn

/-- **mpz_bin_uiui (n, k) = binomial (n, k)** for every n < 2^64 and every k -/
theorem mpz_bin_uiui_eq (n k0 : ℕ) (hn : n < B) : mpz_bin_uiui n k0 = some (n.choose k0) := by
  unfold mpz_bin_uiui binDispatch
  by_cases h1 : n < k0
  · simp [h1, Nat.choose_eq_zero_of_lt h1]
  · rw [if_neg h1]
    have hk0 : k0 ≤ n := by omega
    have hsym : n.choose (min k0 (n - k0)) = n.choose k0 := by
      rcases Nat.le_total k0 (n - k0) with h | h
      · rw [Nat.min_eq_left h]
      · rw [Nat.min_eq_right h, Nat.choose_symm hk0]
    rw [← hsym]
    have h2k : 2 * min k0 (n - k0) ≤ n := by
      have hm1 : min k0 (n - k0) ≤ k0 := Nat.min_le_left _ _
      have hm2 : min k0 (n - k0) ≤ n - k0 := Nat.min_le_right _ _
      omega
    exact mpz_bin_uiui_reduced n (min k0 (n - k0)) hn h2k

end Mpir.Numth
