/- C06 — helper lemmas for the divide-and-conquer conversions and the stream functions. -/
import MpirProofs.Lemmas.Radix
import Mpir.Model.RadixDc
namespace Mpir.RadixDc
open Mpir Mpir.Radix
end Mpir.RadixDc
