/- C06 — helper lemmas for the divide-and-conquer conversions (models in Mpir/Model/RadixDc.lean). -/
import MpirProofs.Lemmas.Radix
import MpirProofs.Lemmas.RadixDcXn
import Mpir.Model.RadixDc
import Mathlib.Data.Nat.GCD.Basic
namespace Mpir.RadixDc
open Mpir Mpir.Radix

/-! ### limb vectors -/

theorem toLimbs_length : ∀ (n v : Nat), (toLimbs n v).length = n
  | 0, _ => rfl
  | n + 1, v => by simp [toLimbs, toLimbs_length n]

theorem Limbs_toLimbs : ∀ (n v : Nat), Limbs (toLimbs n v)
  | 0, _ => Limbs_nil
  | n + 1, v => by
    rw [toLimbs]; exact Limbs_cons.mpr ⟨Nat.mod_lt _ B_pos, Limbs_toLimbs n _⟩

theorem val_toLimbs : ∀ (n v : Nat), val (toLimbs n v) = v % B ^ n
  | 0, v => by simp [toLimbs, Nat.mod_one]
  | n + 1, v => by
    rw [toLimbs, val_cons, val_toLimbs n, pow_succ, Nat.mul_comm (B ^ n) B, Nat.mod_mul]

theorem val_toLimbs_lt {n v : Nat} (h : v < B ^ n) : val (toLimbs n v) = v := by
  rw [val_toLimbs, Nat.mod_eq_of_lt h]

theorem val_replicate_zero : ∀ n : Nat, val (List.replicate n 0) = 0
  | 0 => rfl
  | n + 1 => by simp [List.replicate, val_replicate_zero n]

theorem Limbs_replicate_zero (n : Nat) : Limbs (List.replicate n 0) := by
  intro x hx; rw [List.eq_of_mem_replicate hx]; exact B_pos

/-- a vector whose top limb is non-zero is at least B^(n-1); one whose value is below B^k has at most k limbs -/
theorem length_le_of_val_lt {u : List Nat} (hne : u ≠ []) (htop : u.getLast! ≠ 0) {k : Nat} (h : val u < B ^ k) :
    u.length ≤ k := by
  have hge := val_ge_of_top hne htop
  by_contra hcon
  have : B ^ k ≤ B ^ (u.length - 1) := Nat.pow_le_pow_right B_pos (by omega)
  omega

/-! ### zero-padded digit strings -/

/-- the digits of `v`, padded with zeros on the left to at least `k` digits -/
def padDigits (b k v : Nat) : List Nat := List.replicate (k - (digitsOf b v).length) 0 ++ digitsOf b v

theorem digitsOf_zero (b : Nat) : digitsOf b 0 = [] := by
  unfold digitsOf; rw [digitsAcc]; simp

theorem fixedDigits_zero (b : Nat) (hb : 0 < b) : ∀ n : Nat, fixedDigits b n 0 = List.replicate n 0
  | 0 => rfl
  | n + 1 => by
    rw [fixedDigits, Nat.zero_div, Nat.zero_mod, fixedDigits_zero b hb n]; rfl

/-- the digit count of `v` is at most `n` when `v < b^n`, and more than `m` when `b^m ≤ v` -/
theorem digitsOf_length_le {b : Nat} (hb : 2 ≤ b) {v n : Nat} (h : v < b ^ n) : (digitsOf b v).length ≤ n := by
  rcases Nat.eq_zero_or_pos v with h0 | h0
  · subst h0; simp
  · obtain ⟨_, lo, _⟩ := digitsOf_length_bounds hb h0
    by_contra hcon
    have : b ^ n ≤ b ^ ((digitsOf b v).length - 1) := Nat.pow_le_pow_right (by omega) (by omega)
    omega

theorem digitsOf_length_gt {b : Nat} (hb : 2 ≤ b) {v m : Nat} (h : b ^ m ≤ v) : m < (digitsOf b v).length := by
  have h0 : 0 < v := lt_of_lt_of_le (Nat.pow_pos (by omega)) h
  obtain ⟨_, _, hi⟩ := digitsOf_length_bounds hb h0
  by_contra hcon
  have : b ^ (digitsOf b v).length ≤ b ^ m := Nat.pow_le_pow_right (by omega) (by omega)
  omega

/-- the fixed-width string is the zero-padded natural one -/
theorem fixedDigits_eq_pad {b : Nat} (hb : 2 ≤ b) {n v : Nat} (h : v < b ^ n) :
    fixedDigits b n v = padDigits b n v := by
  unfold padDigits
  rcases Nat.eq_zero_or_pos v with h0 | h0
  · subst h0; simp [fixedDigits_zero b (by omega)]
  · obtain ⟨dpos, lo, hi⟩ := digitsOf_length_bounds hb h0
    have hle := digitsOf_length_le hb h
    generalize hd : (digitsOf b v).length = d at *
    obtain ⟨a, rfl⟩ : ∃ a, n = a + d := ⟨n - d, by omega⟩
    rw [fixedDigits_split (by omega) d a v h, Nat.div_eq_of_lt hi, Nat.mod_eq_of_lt hi,
      fixedDigits_zero b (by omega), Nat.add_sub_cancel, ← digitsOf_eq_fixed hb dpos lo hi]

theorem padDigits_of_le {b k v : Nat} (h : k ≤ (digitsOf b v).length) : padDigits b k v = digitsOf b v := by
  unfold padDigits; rw [Nat.sub_eq_zero_of_le h]; simp

theorem padDigits_length {b : Nat} (k v : Nat) : (padDigits b k v).length = max k (digitsOf b v).length := by
  unfold padDigits; simp; omega

/-- padding again -/
theorem replicate_pad {b : Nat} (len k v : Nat) :
    List.replicate (len - (padDigits b k v).length) 0 ++ padDigits b k v = padDigits b (max len k) v := by
  rw [padDigits_length]
  unfold padDigits
  rw [← List.append_assoc, List.replicate_append_replicate]
  congr 2; omega

/-- a fixed-width low part appended to a padded high part -/
theorem pad_append_fixed {b : Nat} (hb : 2 ≤ b) (k c Q r : Nat) (hr : r < b ^ c) :
    padDigits b k Q ++ fixedDigits b c r = padDigits b (k + c) (Q * b ^ c + r) := by
  rcases Nat.eq_zero_or_pos Q with h0 | h0
  · subst h0
    rw [Nat.zero_mul, Nat.zero_add, fixedDigits_eq_pad hb hr]
    have hle := digitsOf_length_le hb hr
    unfold padDigits
    rw [digitsOf_zero]
    simp only [List.length_nil, Nat.sub_zero, List.append_nil]
    rw [← List.append_assoc, List.replicate_append_replicate]
    congr 2; omega
  · unfold padDigits
    rw [digitsOf_append_fixed hb c Q r h0 hr, List.append_assoc]
    congr 2
    simp only [List.length_append, fixedDigits_length]; omega

/-! ### mpn_sb_get_str on operands that need not be normalised -/

/-- The basecase loop for an arbitrary {up, un} (high zero limbs allowed, as mpn_dc_get_str passes them):
    the digits of the value, zero-padded on the left to at least `chars_per_limb·(un-1)` digits. -/
theorem sbLoop_pad {b cpl bb : Nat} {ten : Bool} (hb : 2 ≤ b) (hcpl : 0 < cpl) (hbb : bb = b ^ cpl) (hlt : bb < B)
    (hpeel : ∀ f, f < B → (if ten then peelBase10 f else (peel b cpl f).1) = (peel b cpl f).1) :
    ∀ (fuel : Nat) (u acc : List Nat), Limbs u → u ≠ [] → val u < 2 ^ fuel → u.length ≤ fuel + 1 →
      digitsAcc b ((sbLoop b cpl bb ten fuel u acc).1.headD 0) (sbLoop b cpl bb ten fuel u acc).2
        = padDigits b (cpl * (u.length - 1)) (val u) ++ acc := by
  intro fuel
  have hbbpos : 0 < bb := by rw [hbb]; exact Nat.pow_pos (by omega)
  have hbb2 : 2 ≤ bb := by
    rw [hbb]; calc 2 ≤ b ^ 1 := by simpa using hb
      _ ≤ b ^ cpl := Nat.pow_le_pow_right (by omega) hcpl
  have hone : ∀ (x : Nat) (acc : List Nat), digitsAcc b x acc = padDigits b (cpl * ([x].length - 1)) (val [x]) ++ acc := by
    intro x acc
    rw [digitsAcc_eq_digitsOf]; simp [padDigits]
  induction fuel with
  | zero =>
    intro u acc _ hne _ hlen
    match u, hne, hlen with
    | [x], _, _ => simp only [sbLoop, List.headD_cons]; exact hone x acc
  | succ fuel ih =>
    intro u acc hu hne hfuel hlenf
    rw [sbLoop]
    split
    · rename_i hlen
      obtain ⟨hv, hr, hl, hq⟩ := divrem1_spec bb hbbpos u hu
      generalize divrem1 u bb = res at *
      obtain ⟨q, r⟩ := res
      simp only at hv hr hl hq ⊢
      obtain ⟨f1, f2, f3⟩ := frac_bounds hr hlt
      have hds : (if ten then peelBase10 ((r * B / bb + 1) % B) else (peel b cpl ((r * B / bb + 1) % B)).1)
          = fixedDigits b cpl r := by
        rw [Nat.mod_eq_of_lt f1, hpeel _ f1]
        exact peel_digits bb hlt cpl r _ (hbb ▸ hr) f1 (hbb ▸ f2) (hbb ▸ f3)
      rw [hds]
      have hqne : q ≠ [] := by intro e; rw [e] at hl; simp at hl; omega
      have hsplit := dropLast_getLast! q hqne
      have hqv : val q = val q.dropLast + B ^ (u.length - 1) * q.getLast! := by
        conv_lhs => rw [← hsplit]
        rw [val_snoc]; simp [hl]
      have hQlt : val q < 2 ^ fuel := by
        have : val q * 2 ≤ val u := by rw [hv]; nlinarith
        rw [pow_succ] at hfuel; omega
      by_cases h0 : q.getLast! = 0
      · -- the top quotient limb is zero: un decreases
        have hc : (q.getLast! == 0) = true := by rw [h0]; rfl
        rw [if_pos hc]
        have hvq : val q.dropLast = val q := by rw [hqv, h0]; simp
        have hlen' : q.dropLast.length = u.length - 1 := by simp [hl]
        have hne' : q.dropLast ≠ [] := by
          intro e; rw [e] at hlen'; simp at hlen'; omega
        rw [ih _ _ (Limbs_append.mp (hsplit ▸ hq)).1 hne' (hvq ▸ hQlt) (by omega), hvq, hlen',
          ← List.append_assoc, pad_append_fixed hb _ _ _ _ (hbb ▸ hr), hv, hbb]
        congr 2
        have : u.length - 1 = (u.length - 1 - 1) + 1 := by omega
        conv_rhs => rw [this]
        ring
      · -- the top quotient limb is non-zero: the quotient is normalised, no padding at all
        have hc : ¬ (q.getLast! == 0) = true := fun h => h0 (beq_iff_eq.mp h)
        rw [if_neg hc]
        have hQge : B ^ (u.length - 1) ≤ val q := by
          rw [hqv]
          have : 1 ≤ q.getLast! := Nat.pos_of_ne_zero h0
          nlinarith [Nat.pow_pos (n := u.length - 1) B_pos]
        have hfl : q.length ≤ fuel + 1 := by
          -- 2^(64(un-1)) ≤ val q < 2^fuel
          have h1 : (2 : Nat) ^ (64 * (u.length - 1)) < 2 ^ fuel := by
            have := B_pow (u.length - 1); omega
          have := (Nat.pow_lt_pow_iff_right (by omega : 1 < 2)).mp h1
          omega
        rw [ih _ _ hq hqne hQlt hfl, hl, ← List.append_assoc, pad_append_fixed hb _ _ _ _ (hbb ▸ hr), hv, hbb]
        congr 1
        -- both sides are unpadded: b^(cpl·un) ≤ val u
        have hbig : b ^ (cpl * (u.length - 1) + cpl) ≤ val q * b ^ cpl + r := by
          have e1 : b ^ (cpl * (u.length - 1) + cpl) = (b ^ cpl) ^ (u.length - 1) * b ^ cpl := by
            rw [← pow_mul, ← pow_add]
          have e2 : (b ^ cpl) ^ (u.length - 1) ≤ B ^ (u.length - 1) :=
            Nat.pow_le_pow_left (by rw [← hbb]; omega) _
          rw [e1]
          calc (b ^ cpl) ^ (u.length - 1) * b ^ cpl ≤ val q * b ^ cpl := Nat.mul_le_mul_right _ (le_trans e2 hQge)
            _ ≤ _ := Nat.le_add_right _ _
        have hg := digitsOf_length_gt hb hbig
        rw [padDigits_of_le (by omega), padDigits_of_le (by omega)]
    · rename_i hlen
      have h1 : u.length = 1 := by
        have : u.length ≠ 0 := by simpa using hne
        omega
      match u, h1 with
      | [x], _ => simp only [List.headD_cons]; exact hone x acc

/-- mpn_sb_get_str on {up, un} with un ≥ 1, high zero limbs allowed: the digits of the value zero-padded on
    the left to at least `chars_per_limb·(un-1)` digits (no padding when the top limb is non-zero). -/
theorem sb_get_str_pad {b : Nat} (hb : 2 ≤ b) (hb62 : b ≤ 62) (hok : NonPow2Ok b) (h10 : Base10Ok)
    (up : List Nat) (hu : Limbs up) (hne : up ≠ []) :
    sb_get_str b up = padDigits b (charsPerLimb b * (up.length - 1)) (val up) := by
  obtain ⟨t1, t2, t3⟩ := h10
  have hcpl := hok.cpl_pos hb62
  have hval : val up < 2 ^ (64 * up.length + 1) := by
    have := val_lt up hu
    rw [B_pow] at this; rw [pow_succ]; omega
  unfold sb_get_str
  by_cases hten : b = 10
  · subst hten
    have e1 : Gen.mpBases10.1 = charsPerLimb 10 := by rw [t1]
    have e2 : Gen.mpBases10.2.1 = bigBase 10 := by rw [t1]
    have e3 : Gen.mpBases10.2.2.2 = 0 := by rw [t1]; exact t3
    simp only [show ((10 : Nat) == 10) = true from rfl, if_true, e1, e2]
    have := sbLoop_pad (b := 10) (cpl := charsPerLimb 10) (bb := bigBase 10) (ten := true) hb hcpl hok.1
      (hok.1 ▸ hok.2.1)
      (by intro f hf; simp only [if_true]; rw [t2]; exact peelBase10_eq ⟨e1.trans t2, e3⟩ f hf)
      (64 * up.length + 1) up [] hu hne hval (by omega)
    simpa using this
  · have hf : (b == 10) = false := by simpa using hten
    simp only [hf, Bool.false_eq_true, if_false]
    have := sbLoop_pad (b := b) (cpl := charsPerLimb b) (bb := bigBase b) (ten := false) hb hcpl hok.1
      (hok.1 ▸ hok.2.1) (by intro f _; simp)
      (64 * up.length + 1) up [] hu hne hval (by omega)
    simpa using this

/-! ### mpn_dc_get_str -/

theorem cmp_lt_iff {u v : List Nat} (hu : Limbs u) (hv : Limbs v) (hl : u.length = v.length) :
    cmp u v < 0 ↔ val u < val v := by
  unfold cmp
  have := cmpRev_spec u.reverse v.reverse (Limbs_reverse hu) (Limbs_reverse hv) (by simp [hl])
  simp only [List.reverse_reverse] at this
  rcases this with ⟨h1, h2⟩ | ⟨h1, h2⟩ | ⟨h1, h2⟩ <;> rw [h1] <;> constructor <;> intro h <;> omega

theorem getLast_ne_zero_of_val_ge {u : List Nat} (hu : Limbs u) (hne : u ≠ []) (h : B ^ (u.length - 1) ≤ val u) :
    u.getLast! ≠ 0 := by
  intro h0
  have hs := dropLast_getLast! u hne
  have hv : val u = val u.dropLast := by
    conv_lhs => rw [← hs]
    rw [val_snoc, h0]; simp
  have hlt := val_lt u.dropLast (Limbs_append.mp (hs ▸ hu)).1
  rw [List.length_dropLast] at hlt
  omega

/-- what the table theorem establishes for one entry: the power `big_base^e` with its low zero limbs
    stripped, normalised, and the digit count -/
structure PowOk (b cpl : Nat) (pw : Pow) (e : Nat) : Prop where
  value : val pw.p * B ^ pw.shift = (b ^ cpl) ^ e
  dib : pw.dib = cpl * e
  limbs : Limbs pw.p
  ne : pw.p ≠ []
  top : pw.p.getLast! ≠ 0
  epos : 1 ≤ e

theorem PowOk.lower {b cpl e : Nat} {pw : Pow} (h : PowOk b cpl pw e) :
    B ^ (pw.p.length + pw.shift - 1) ≤ (b ^ cpl) ^ e := by
  have h1 := val_ge_of_top h.ne h.top
  have hl : 0 < pw.p.length := List.length_pos_iff.mpr h.ne
  rw [← h.value, show pw.p.length + pw.shift - 1 = (pw.p.length - 1) + pw.shift by omega, pow_add]
  exact Nat.mul_le_mul_right _ h1

theorem PowOk.upper {b cpl e : Nat} {pw : Pow} (h : PowOk b cpl pw e) :
    (b ^ cpl) ^ e < B ^ (pw.p.length + pw.shift) := by
  have h1 := val_lt pw.p h.limbs
  rw [← h.value, pow_add]
  exact Nat.mul_lt_mul_of_pos_right h1 (Nat.pow_pos B_pos)

/-- `powtab->n + powtab->shift` of consecutive entries: P ≤ P'^2 gives λ ≤ 2λ' -/
theorem PowOk.limbs_le {b cpl e e' : Nat} {pw pw' : Pow} (h : PowOk b cpl pw e) (h' : PowOk b cpl pw' e')
    (hb : 0 < b) (hee : e ≤ 2 * e') : pw.p.length + pw.shift ≤ 2 * (pw'.p.length + pw'.shift) := by
  have h1 := h.lower
  have h2 := h'.upper
  have h3 : (b ^ cpl) ^ e ≤ ((b ^ cpl) ^ e') ^ 2 := by
    rw [← pow_mul (b ^ cpl), Nat.mul_comm]; exact Nat.pow_le_pow_right (Nat.pow_pos hb) hee
  have h4 : ((b ^ cpl) ^ e') ^ 2 < (B ^ (pw'.p.length + pw'.shift)) ^ 2 := Nat.pow_lt_pow_left h2 (by omega)
  rw [← pow_mul B] at h4
  have := (Nat.pow_lt_pow_iff_right (by rw [B_eq]; omega : 1 < B)).mp (lt_of_le_of_lt (le_trans h1 h3) h4)
  omega

/-- the table as mpn_dc_get_str walks it (current entry first, entry 0 last) with the exponents of big_base:
    entry 0 is big_base itself, each exponent is at most twice the next lower one -/
def GetTabOk (b cpl : Nat) : List Pow → List Nat → Prop
  | [pw], [e] => PowOk b cpl pw e ∧ e = 1
  | pw :: pw' :: tab, e :: e' :: es => PowOk b cpl pw e ∧ e ≤ 2 * e' ∧ GetTabOk b cpl (pw' :: tab) (e' :: es)
  | _, _ => False

/-- quotient and remainder as mpn_dc_get_str forms them (get_str.c:301-305) -/
def dcQ (pw : Pow) (u : List Nat) : List Nat :=
  let qfull := toLimbs (u.length - pw.shift - pw.p.length + 1) (val (u.drop pw.shift) / val pw.p)
  qfull.take (u.length - pw.shift - pw.p.length +
    (if qfull.getD (u.length - pw.shift - pw.p.length) 0 != 0 then 1 else 0))

def dcR (pw : Pow) (u : List Nat) : List Nat :=
  u.take pw.shift ++ toLimbs pw.p.length (val (u.drop pw.shift) % val pw.p)

theorem dcGetStr_cons (T base : Nat) (pw : Pow) (rest : List Pow) (len : Nat) (u : List Nat) :
    dcGetStr T base (pw :: rest) len u =
      if u.length < T then (if u.length != 0 then some (sbLen base len u) else some (List.replicate len 0))
      else if u.length < pw.p.length + pw.shift ∨
          (u.length = pw.p.length + pw.shift ∧ cmp (u.drop pw.shift) pw.p < 0) then dcGetStr T base rest len u
      else match dcGetStr T base rest (if len != 0 then len - pw.dib else len) (dcQ pw u),
                 dcGetStr T base rest pw.dib (dcR pw u) with
        | some a, some b => some (a ++ b)
        | _, _ => none := by
  rw [dcGetStr]; rfl

theorem take_top (l : List Nat) (N : Nat) (hl : l.length = N + 1) :
    (l.getD N 0 ≠ 0 → l.take (N + 1) = l ∧ l.getLast! = l.getD N 0) ∧
    (l.getD N 0 = 0 → val (l.take N) = val l ∧ l.take N = l.dropLast) := by
  have hne : l ≠ [] := by intro e; rw [e] at hl; simp at hl
  have hs := dropLast_getLast! l hne
  have hd : l.dropLast.length = N := by simp [hl]
  have ht : l.take N = l.dropLast := by
    conv_lhs => rw [← hs]
    rw [List.take_append_of_le_length (by omega), List.take_of_length_le (by omega)]
  have hg : l.getD N 0 = l.getLast! := by
    conv_lhs => rw [← hs]
    rw [List.getD_eq_getElem?_getD, List.getElem?_append_right (by omega), hd]; simp
  refine ⟨fun _ => ⟨List.take_of_length_le (by omega), hg.symm⟩, fun h0 => ⟨?_, ht⟩⟩
  rw [ht]
  conv_rhs => rw [← hs]
  rw [val_snoc, ← hg, h0]; simp

theorem dc_div_spec {b cpl e : Nat} {pw : Pow} (hok : PowOk b cpl pw e) {u : List Nat} (hu : Limbs u)
    (hlen : pw.p.length + pw.shift ≤ u.length) :
    val (dcQ pw u) = val u / (b ^ cpl) ^ e ∧ val (dcR pw u) = val u % (b ^ cpl) ^ e ∧
    Limbs (dcQ pw u) ∧ Limbs (dcR pw u) ∧ (dcR pw u).length = pw.p.length + pw.shift ∧
    ((dcQ pw u).length = u.length - (pw.p.length + pw.shift) ∨
     ((dcQ pw u).length = u.length - (pw.p.length + pw.shift) + 1 ∧ dcQ pw u ≠ [] ∧ (dcQ pw u).getLast! ≠ 0)) := by
  have hsplit := val_take_drop u pw.shift (by omega)
  have hlo := val_lt _ (Limbs_take hu pw.shift)
  have hhi := val_lt _ (Limbs_drop hu pw.shift)
  rw [List.length_take, Nat.min_eq_left (by omega)] at hlo
  rw [List.length_drop] at hhi
  have hPlo := val_ge_of_top hok.ne hok.top
  have hPhi := val_lt _ hok.limbs
  have hpl : 0 < pw.p.length := List.length_pos_iff.mpr hok.ne
  have hPpos : 0 < val pw.p := lt_of_lt_of_le (Nat.pow_pos B_pos) hPlo
  have hBs : 0 < B ^ pw.shift := Nat.pow_pos B_pos
  rw [← hok.value]
  generalize hlo' : val (u.take pw.shift) = lo at *
  generalize hhi' : val (u.drop pw.shift) = hi at *
  generalize hPp : val pw.p = Pp at *
  -- quotient and remainder of the whole number
  have hdm := Nat.div_add_mod hi Pp
  have hml := Nat.mod_lt hi hPpos
  have hqr : val u / (Pp * B ^ pw.shift) = hi / Pp ∧ val u % (Pp * B ^ pw.shift) = lo + B ^ pw.shift * (hi % Pp) := by
    rw [Nat.div_mod_unique (Nat.mul_pos hPpos hBs)]
    constructor
    · rw [hsplit]; nlinarith [hdm]
    · have : hi % Pp + 1 ≤ Pp := hml
      nlinarith
  -- the quotient fits un - sn - pwn + 1 limbs
  have hqfit : hi / Pp < B ^ (u.length - pw.shift - pw.p.length + 1) := by
    have e1 : B ^ (u.length - pw.shift) = B ^ (u.length - pw.shift - pw.p.length + 1) * B ^ (pw.p.length - 1) := by
      rw [← pow_add]; congr 1; omega
    have h1 : hi / Pp * B ^ (pw.p.length - 1) ≤ hi / Pp * Pp := Nat.mul_le_mul_left _ hPlo
    have h2 : hi / Pp * Pp ≤ hi := Nat.div_mul_le_self _ _
    rw [e1] at hhi
    exact Nat.lt_of_mul_lt_mul_right (lt_of_le_of_lt (le_trans h1 h2) hhi)
  have hN : u.length - (pw.p.length + pw.shift) = u.length - pw.shift - pw.p.length := by omega
  have hqv := val_toLimbs_lt hqfit
  have hql := toLimbs_length (u.length - pw.shift - pw.p.length + 1) (hi / Pp)
  have hqL := Limbs_toLimbs (u.length - pw.shift - pw.p.length + 1) (hi / Pp)
  obtain ⟨t1, t2⟩ := take_top _ _ hql
  have hrv : val (dcR pw u) = lo + B ^ pw.shift * (hi % Pp) := by
    unfold dcR
    rw [val_append, List.length_take, Nat.min_eq_left (by omega), hlo', hhi', hPp,
      val_toLimbs_lt (lt_trans hml hPhi)]
  have hrL : Limbs (dcR pw u) := Limbs_append.mpr ⟨Limbs_take hu _, Limbs_toLimbs _ _⟩
  have hrl : (dcR pw u).length = pw.p.length + pw.shift := by
    unfold dcR; rw [List.length_append, List.length_take, toLimbs_length]; omega
  unfold dcQ
  simp only [hhi', hPp]
  generalize toLimbs (u.length - pw.shift - pw.p.length + 1) (hi / Pp) = qf at *
  by_cases htop : qf.getD (u.length - pw.shift - pw.p.length) 0 = 0
  · obtain ⟨v1, v2⟩ := t2 htop
    have hc : (qf.getD (u.length - pw.shift - pw.p.length) 0 != 0) = false := by rw [htop]; rfl
    simp only [hc, Bool.false_eq_true, if_false, Nat.add_zero]
    refine ⟨by rw [v1, hqv, hqr.1], by rw [hrv, hqr.2], Limbs_take hqL _, hrL, hrl, Or.inl ?_⟩
    rw [List.length_take, hql]; omega
  · obtain ⟨v1, v2⟩ := t1 htop
    have hc : (qf.getD (u.length - pw.shift - pw.p.length) 0 != 0) = true := by simpa using htop
    simp only [hc, if_true]
    rw [v1]
    refine ⟨by rw [hqv, hqr.1], by rw [hrv, hqr.2], hqL, hrL, hrl, Or.inr ⟨by rw [hql]; omega, ?_, by rw [v2]; exact htop⟩⟩
    intro e0; rw [e0] at hql; simp at hql

/-- what mpn_dc_get_str must produce: the digits (LEN = 0) or exactly LEN digits -/
def expect (b len v : Nat) : List Nat := if len = 0 then digitsOf b v else fixedDigits b len v

theorem sbLen_ok {b cpl : Nat} (hb : 2 ≤ b) (hbb : b ^ cpl < B)
    (hsb : ∀ u : List Nat, Limbs u → u ≠ [] → sb_get_str b u = padDigits b (cpl * (u.length - 1)) (val u))
    (len : Nat) (u : List Nat) (hu : Limbs u) (hne : u ≠ [])
    (h0 : len = 0 → u.getLast! ≠ 0) (h1 : len ≠ 0 → val u < b ^ len ∧ B ^ (u.length - 1) ≤ b ^ len) :
    sbLen b len u = expect b len (val u) := by
  unfold sbLen expect
  simp only [hsb u hu hne]
  rw [replicate_pad]
  have hpw : b ^ (cpl * (u.length - 1)) ≤ B ^ (u.length - 1) := by
    rw [pow_mul]; exact Nat.pow_le_pow_left (Nat.le_of_lt hbb) _
  by_cases hl : len = 0
  · rw [if_pos hl, hl, Nat.zero_max]
    have := digitsOf_length_gt hb (le_trans hpw (val_ge_of_top hne (h0 hl)))
    exact padDigits_of_le (by omega)
  · rw [if_neg hl]
    obtain ⟨a1, a2⟩ := h1 hl
    have : cpl * (u.length - 1) ≤ len := (Nat.pow_le_pow_iff_right (by omega)).mp (le_trans hpw a2)
    rw [Nat.max_eq_left this, fixedDigits_eq_pad hb a1]

theorem GetTabOk.head {b cpl : Nat} {pw : Pow} {rest : List Pow} {e : Nat} {es : List Nat}
    (h : GetTabOk b cpl (pw :: rest) (e :: es)) : PowOk b cpl pw e := by
  cases rest with
  | nil => cases es with
    | nil => exact h.1
    | cons _ _ => simp [GetTabOk] at h
  | cons _ _ => cases es with
    | nil => simp [GetTabOk] at h
    | cons _ _ => exact h.1

theorem dc_leaf {b cpl : Nat} (hb : 2 ≤ b) (hbb : b ^ cpl < B)
    (hsb : ∀ u : List Nat, Limbs u → u ≠ [] → sb_get_str b u = padDigits b (cpl * (u.length - 1)) (val u))
    (len : Nat) (u : List Nat) (hu : Limbs u)
    (h0 : len = 0 → u ≠ [] ∧ u.getLast! ≠ 0) (h1 : len ≠ 0 → val u < b ^ len ∧ B ^ (u.length - 1) ≤ b ^ len) :
    (if u.length != 0 then some (sbLen b len u) else some (List.replicate len 0)) = some (expect b len (val u)) := by
  cases u with
  | nil =>
    have hl : len ≠ 0 := fun h => (h0 h).1 rfl
    simp [expect, hl, fixedDigits_zero b (by omega)]
  | cons x xs =>
    have : ((x :: xs).length != 0) = true := by simp
    rw [if_pos this, sbLen_ok hb hbb hsb len (x :: xs) hu (by simp) (fun h => (h0 h).2) h1]

theorem pow_le_sq {D e e' : Nat} (hD : 0 < D) (hee : e ≤ 2 * e') : D ^ e ≤ (D ^ e') ^ 2 := by
  rw [← pow_mul, Nat.mul_comm]; exact Nat.pow_le_pow_right hD hee

/-- mpn_dc_get_str: for a table of exact powers (entry 0 = big_base, exponents at most doubling), an operand
    within the capacity of the current entry (`u < P²·B^(T-3)`, `un ≤ 2(n+shift) + T-3`), LEN = 0 with a
    normalised operand or LEN ≠ 0 with `u < b^LEN` and `B^(un-1) ≤ b^LEN`: the C never leaves the table and
    the output is the digit string of `u` (exactly LEN digits when LEN ≠ 0). -/
theorem dcGetStr_ok {b cpl T : Nat} (hb : 2 ≤ b) (hcpl : 0 < cpl) (hbb : b ^ cpl < B) (hT : 3 ≤ T)
    (hsb : ∀ u : List Nat, Limbs u → u ≠ [] → sb_get_str b u = padDigits b (cpl * (u.length - 1)) (val u)) :
    ∀ (rest : List Pow) (es : List Nat) (pw : Pow) (e : Nat), GetTabOk b cpl (pw :: rest) (e :: es) →
    ∀ (len : Nat) (u : List Nat), Limbs u →
      u.length ≤ 2 * (pw.p.length + pw.shift) + (T - 3) →
      val u < ((b ^ cpl) ^ e) ^ 2 * B ^ (T - 3) →
      (len = 0 → u ≠ [] ∧ u.getLast! ≠ 0) →
      (len ≠ 0 → val u < b ^ len ∧ B ^ (u.length - 1) ≤ b ^ len) →
      dcGetStr T b (pw :: rest) len u = some (expect b len (val u)) := by
  have hB1 : 1 < B := by rw [B_eq]; omega
  have hDpos : 0 < b ^ cpl := Nat.pow_pos (by omega)
  intro rest
  induction rest with
  | nil =>
    intro es pw e htab len u hu hcap _ h0 h1
    cases es with
    | cons _ _ => simp [GetTabOk] at htab
    | nil =>
    obtain ⟨hok, he⟩ := htab
    subst he
    rw [dcGetStr_cons]
    have hlam : pw.p.length + pw.shift = 1 := by
      have lo := hok.lower
      simp only [pow_one] at lo
      have h2 : B ^ (pw.p.length + pw.shift - 1) < B ^ 1 := by simpa using lt_of_le_of_lt lo hbb
      have := (Nat.pow_lt_pow_iff_right hB1).mp h2
      have hl : 0 < pw.p.length := List.length_pos_iff.mpr hok.ne
      omega
    rw [if_pos (by omega)]
    exact dc_leaf hb hbb hsb len u hu h0 h1
  | cons pw' tab ih =>
    intro es pw e htab len u hu hcap hval h0 h1
    cases es with
    | nil => simp [GetTabOk] at htab
    | cons e' es' =>
    obtain ⟨hok, hee, htab'⟩ := htab
    have hok' := htab'.head
    have hll := hok.limbs_le hok' (by omega) hee
    have hPP := pow_le_sq (e := e) (e' := e') hDpos hee
    have hPlo := hok.lower
    have hPhi := hok.upper
    have hPb : (b ^ cpl) ^ e = b ^ pw.dib := by rw [hok.dib, pow_mul]
    have hdibpos : pw.dib ≠ 0 := by
      rw [hok.dib]; exact Nat.mul_ne_zero (by omega) (by have := hok.epos; omega)
    have hPpos : 0 < (b ^ cpl) ^ e := Nat.pow_pos hDpos
    have hsplit0 := hok.value
    generalize hP : (b ^ cpl) ^ e = P at *
    generalize hP' : (b ^ cpl) ^ e' = P' at *
    generalize hlam : pw.p.length + pw.shift = lam at *
    generalize hlam' : pw'.p.length + pw'.shift = lam' at *
    have hBT : 0 < B ^ (T - 3) := Nat.pow_pos B_pos
    have hsq : P ≤ P' ^ 2 * B ^ (T - 3) := le_trans hPP (Nat.le_mul_of_pos_right _ hBT)
    rw [dcGetStr_cons]
    by_cases hlt : u.length < T
    · rw [if_pos hlt]; exact dc_leaf hb hbb hsb len u hu h0 h1
    rw [if_neg hlt, hlam]
    by_cases hft : u.length < lam ∨ (u.length = lam ∧ cmp (u.drop pw.shift) pw.p < 0)
    · -- u < P: the same operand with the next lower power
      rw [if_pos hft]
      have hsmall : val u < P ∧ u.length ≤ lam := by
        rcases hft with h | ⟨h, hc⟩
        · refine ⟨?_, by omega⟩
          have h1 := val_lt u hu
          have h2 : B ^ u.length ≤ B ^ (lam - 1) := Nat.pow_le_pow_right B_pos (by omega)
          omega
        · refine ⟨?_, by omega⟩
          have hdl : (u.drop pw.shift).length = pw.p.length := by rw [List.length_drop]; omega
          have hc' := (cmp_lt_iff (Limbs_drop hu _) hok.limbs hdl).mp hc
          have hs := val_take_drop u pw.shift (by omega)
          have hlo := val_lt _ (Limbs_take hu pw.shift)
          rw [List.length_take, Nat.min_eq_left (by omega)] at hlo
          rw [← hsplit0, hs]
          have h3 : B ^ pw.shift * (val (u.drop pw.shift) + 1) ≤ B ^ pw.shift * val pw.p :=
            Nat.mul_le_mul_left _ hc'
          rw [Nat.mul_add, Nat.mul_one] at h3
          rw [Nat.mul_comm (val pw.p)]
          omega
      exact ih es' pw' e' htab' len u hu (by omega) (by rw [hP']; omega) h0 h1
    · rw [if_neg hft]
      have hge : lam ≤ u.length := by
        by_contra hcon; exact hft (Or.inl (by omega))
      -- un = λ: the comparison says u ≥ P
      have hgeP : u.length = lam → P ≤ val u := by
        intro heq
        have hdl : (u.drop pw.shift).length = pw.p.length := by rw [List.length_drop]; omega
        have hc' : ¬ val (u.drop pw.shift) < val pw.p := fun h =>
          hft (Or.inr ⟨heq, (cmp_lt_iff (Limbs_drop hu _) hok.limbs hdl).mpr h⟩)
        have hs := val_take_drop u pw.shift (by omega)
        rw [← hsplit0, hs]
        have h3 : B ^ pw.shift * val pw.p ≤ B ^ pw.shift * val (u.drop pw.shift) :=
          Nat.mul_le_mul_left _ (by omega)
        rw [Nat.mul_comm (val pw.p)]
        omega
      obtain ⟨qv, rv, qL, rL, rl, ql⟩ := dc_div_spec hok hu (by omega)
      rw [hP] at qv rv
      rw [hlam] at rl ql
      have hdm := Nat.div_add_mod (val u) P
      have hml := Nat.mod_lt (val u) hPpos
      generalize hQ : val u / P = Q at *
      generalize hR : val u % P = R at *
      -- Q < P·B^(T-3)
      have hQlt : Q < P * B ^ (T - 3) := by
        rw [← hQ]; apply Nat.div_lt_of_lt_mul
        calc val u < P ^ 2 * B ^ (T - 3) := hval
          _ = P * (P * B ^ (T - 3)) := by ring
      -- in LEN = 0 mode the operand is normalised: u ≥ P and Q ≥ B^(un-1-λ)
      have hnorm : len = 0 → 1 ≤ Q ∧ B ^ (u.length - 1 - lam) ≤ Q := by
        intro hl
        obtain ⟨une, utop⟩ := h0 hl
        have hge1 := val_ge_of_top une utop
        have hPu : P ≤ val u := by
          rcases Nat.lt_or_ge lam u.length with h | h
          · have : B ^ lam ≤ B ^ (u.length - 1) := Nat.pow_le_pow_right B_pos (by omega)
            omega
          · exact hgeP (by omega)
        have hQ1 : 1 ≤ Q := by
          rw [← hQ]; exact (Nat.one_le_div_iff hPpos).mpr hPu
        refine ⟨hQ1, ?_⟩
        rcases Nat.lt_or_ge (u.length - 1) lam with h | h
        · rw [Nat.sub_eq_zero_of_le (by omega)]; simpa using hQ1
        · by_contra hcon
          have h2 : Q + 1 ≤ B ^ (u.length - 1 - lam) := by omega
          have h3 : B ^ (u.length - 1) = B ^ (u.length - 1 - lam) * B ^ lam := by
            rw [← pow_add]; congr 1; omega
          have h4 : P * (Q + 1) ≤ B ^ lam * B ^ (u.length - 1 - lam) :=
            Nat.mul_le_mul (Nat.le_of_lt hPhi) h2
          rw [Nat.mul_add, Nat.mul_one, Nat.mul_comm (B ^ lam)] at h4
          generalize P * Q = X at *
          omega
      -- in LEN ≠ 0 mode: dib < len
      have hdl : len ≠ 0 → pw.dib < len := by
        intro hl
        obtain ⟨a1, a2⟩ := h1 hl
        have : b ^ pw.dib < b ^ len := by
          rcases Nat.lt_or_ge lam u.length with h | h
          · have : B ^ lam ≤ B ^ (u.length - 1) := Nat.pow_le_pow_right B_pos (by omega)
            omega
          · have := hgeP (by omega); omega
        exact (Nat.pow_lt_pow_iff_right (by omega)).mp this
      -- the quotient call
      have hlen'0 : (if (len != 0) = true then len - pw.dib else len) = 0 ↔ len = 0 := by
        by_cases hl : len = 0
        · subst hl; simp
        · have hc : (len != 0) = true := by simpa using hl
          have := hdl hl
          rw [if_pos hc]; omega
      generalize hlen' : (if (len != 0) = true then len - pw.dib else len) = len' at *
      have capq : (dcQ pw u).length ≤ 2 * lam' + (T - 3) := by
        rcases ql with ql | ⟨ql, qne, qtop⟩
        · omega
        · have : val (dcQ pw u) < B ^ (lam + (T - 3)) := by
            rw [qv, pow_add]
            exact lt_of_lt_of_le hQlt (Nat.mul_le_mul_right _ (Nat.le_of_lt hPhi))
          have := length_le_of_val_lt qne qtop this
          omega
      have valq : val (dcQ pw u) < P' ^ 2 * B ^ (T - 3) := by
        rw [qv]; exact lt_of_lt_of_le hQlt (Nat.mul_le_mul_right _ hPP)
      have h0q : len' = 0 → dcQ pw u ≠ [] ∧ (dcQ pw u).getLast! ≠ 0 := by
        intro hl'
        have hl : len = 0 := hlen'0.mp hl'
        obtain ⟨hQ1, hQge⟩ := hnorm hl
        rcases ql with ql | ⟨_, qne, qtop⟩
        · have qne : dcQ pw u ≠ [] := by
            intro e0; rw [e0] at qv; simp at qv; omega
          refine ⟨qne, getLast_ne_zero_of_val_ge qL qne ?_⟩
          rw [qv, ql, show u.length - lam - 1 = u.length - 1 - lam by omega]; exact hQge
        · exact ⟨qne, qtop⟩
      have h1q : len' ≠ 0 → val (dcQ pw u) < b ^ len' ∧ B ^ ((dcQ pw u).length - 1) ≤ b ^ len' := by
        intro hl'
        have hl : len ≠ 0 := fun h => hl' (hlen'0.mpr h)
        have hc : (len != 0) = true := by simpa using hl
        rw [if_pos hc] at hlen'
        obtain ⟨a1, a2⟩ := h1 hl
        have hd := hdl hl
        have hpw : b ^ len = b ^ len' * P := by
          rw [hPb, ← pow_add]; congr 1; omega
        have hq1 : Q < b ^ len' := by
          rw [← hQ]; apply Nat.div_lt_of_lt_mul; rw [Nat.mul_comm, ← hpw]; exact a1
        refine ⟨by rw [qv]; exact hq1, ?_⟩
        rcases ql with ql | ⟨_, qne, qtop⟩
        · rw [ql]
          rcases Nat.lt_or_ge lam u.length with h | h
          · by_contra hcon
            have h2 : b ^ len' + 1 ≤ B ^ (u.length - lam - 1) := by omega
            have h3 : B ^ (u.length - 1) = B ^ (u.length - lam - 1) * B ^ lam := by
              rw [← pow_add]; congr 1; omega
            have h4 : (b ^ len' + 1) * P ≤ B ^ (u.length - lam - 1) * B ^ lam :=
              Nat.mul_le_mul h2 (Nat.le_of_lt hPhi)
            rw [Nat.add_mul, Nat.one_mul] at h4
            generalize b ^ len' * P = X at *
            omega
          · rw [Nat.sub_eq_zero_of_le (by omega)]
            exact Nat.pow_pos (by omega)
        · have := val_ge_of_top qne qtop
          rw [qv] at this; omega
      have IHq := ih es' pw' e' htab' len' (dcQ pw u) qL (by rw [hlam']; exact capq) (by rw [hP']; exact valq) h0q h1q
      -- the remainder call
      have IHr := ih es' pw' e' htab' pw.dib (dcR pw u) rL (by omega)
        (by rw [rv, hP']; omega)
        (fun h => absurd h hdibpos)
        (fun _ => ⟨by rw [rv, ← hPb]; exact hml, by rw [rl, ← hPb]; exact hPlo⟩)
      rw [IHq, IHr]
      simp only []
      congr 1
      rw [qv, rv]
      unfold expect
      by_cases hl : len = 0
      · have hl'0 : len' = 0 := hlen'0.mpr hl
        rw [if_pos hl'0, if_neg hdibpos, if_pos hl]
        obtain ⟨hQ1, _⟩ := hnorm hl
        rw [← digitsOf_append_fixed hb pw.dib Q R hQ1 (by rw [← hPb]; exact hml), ← hPb, ← hdm]
        congr 1; ring
      · have hc : (len != 0) = true := by simpa using hl
        have hd := hdl hl
        rw [if_pos hc] at hlen'
        have hlen : len = len' + pw.dib := by omega
        have hne' : len' ≠ 0 := by omega
        rw [if_neg hne', if_neg hdibpos, if_neg hl]
        conv_rhs => rw [hlen]
        rw [fixedDigits_split (by omega) pw.dib len' (val u) (by rw [← hlen]; exact (h1 hl).1),
          ← hPb, hQ, hR]

/-! ### the table of powers of mpn_get_str -/

theorem expAscGo_acc : ∀ (pn : Nat) (acc : List Nat), expAscGo pn acc = expAscGo pn [] ++ acc := by
  intro pn
  induction pn using Nat.strong_induction_on with
  | _ pn ih =>
    intro acc
    rw [expAscGo]; conv_rhs => rw [expAscGo]
    split
    · simp
    · rw [ih _ (by omega) (pn :: acc), ih _ (by omega) [pn]]; simp

theorem expAsc_step {pn : Nat} (h : 2 ≤ pn) : expAsc pn = expAsc ((pn + 1) / 2) ++ [pn] := by
  unfold expAsc; rw [expAscGo, dif_neg (by omega)]; exact expAscGo_acc _ [pn]

theorem expAsc_small {pn : Nat} (h : pn ≤ 1) : expAsc pn = [] := by
  unfold expAsc; rw [expAscGo, dif_pos h]

/-- ascending exponent chain: every entry is at least 2 and the one before it is its rounded-up half -/
def AscOk : Nat → List Nat → Prop
  | _, [] => True
  | prev, e :: l => 2 ≤ e ∧ prev = (e + 1) / 2 ∧ AscOk e l

theorem AscOk_snoc : ∀ (l : List Nat) (prev x : Nat), AscOk prev l → 2 ≤ x → l.getLastD prev = (x + 1) / 2 →
    AscOk prev (l ++ [x])
  | [], prev, x, _, hx, hl => by
    simp only [List.getLastD_nil] at hl
    exact ⟨hx, hl, trivial⟩
  | e :: l, prev, x, h, hx, hl => by
    obtain ⟨h1, h2, h3⟩ := h
    rw [List.getLastD_cons] at hl
    exact ⟨h1, h2, AscOk_snoc l e x h3 hx hl⟩

theorem expAsc_ok : ∀ pn : Nat, AscOk 1 (expAsc pn) ∧ (1 ≤ pn → (expAsc pn).getLastD 1 = pn) := by
  intro pn
  induction pn using Nat.strong_induction_on with
  | _ pn ih =>
    rcases Nat.lt_or_ge pn 2 with h | h
    · rw [expAsc_small (by omega)]
      exact ⟨trivial, fun h1 => by simp; omega⟩
    · obtain ⟨a1, a2⟩ := ih ((pn + 1) / 2) (by omega)
      rw [expAsc_step h]
      refine ⟨AscOk_snoc _ _ _ a1 h (a2 (by omega)), fun _ => ?_⟩
      simp

theorem stripLow_zero (xs : List Nat) (sh : Nat) : stripLow (0 :: xs) sh = stripLow xs (sh + 1) := by
  rw [stripLow]

theorem stripLow_succ (n : Nat) (xs : List Nat) (sh : Nat) : stripLow ((n + 1) :: xs) sh = ((n + 1) :: xs, sh) := by
  rw [stripLow]; intro rest h; simp at h

theorem getLast!_cons_cons (x y : Nat) (l : List Nat) : (x :: y :: l).getLast! = (y :: l).getLast! := by
  simp [List.getLast!]

theorem stripLow_spec : ∀ (l : List Nat) (sh : Nat),
    val (stripLow l sh).1 * B ^ (stripLow l sh).2 = val l * B ^ sh ∧ (∀ x ∈ (stripLow l sh).1, x ∈ l) ∧
    ((stripLow l sh).1 ≠ [] → (stripLow l sh).1.getLast! = l.getLast!)
  | [], sh => by simp [stripLow]
  | 0 :: xs, sh => by
    rw [stripLow_zero]
    obtain ⟨h1, h2, h3⟩ := stripLow_spec xs (sh + 1)
    refine ⟨?_, fun x hx => List.mem_cons_of_mem _ (h2 x hx), fun hne => ?_⟩
    · rw [h1, val_cons, pow_succ]; ring
    · rw [h3 hne]
      cases xs with
      | nil => simp [stripLow] at hne
      | cons y ys => rw [getLast!_cons_cons]
  | (n + 1) :: xs, sh => by
    rw [stripLow_succ]; exact ⟨rfl, fun x hx => hx, fun _ => rfl⟩

/-- one squaring round leaves the power with exponent `e - 1` (the final multiplication brings it to `e`) -/
theorem getPowLoop_ok {b cpl : Nat} (hb : 2 ≤ b) :
    ∀ (targets p : List Nat) (bexp shift dib : Nat), Limbs p → p ≠ [] → p.getLast! ≠ 0 →
      val p * B ^ shift = (b ^ cpl) ^ bexp → dib = cpl * bexp → 1 ≤ bexp → AscOk (bexp + 1) targets →
      List.Forall₂ (fun pw e => PowOk b cpl pw (e - 1)) (getPowLoop (b ^ cpl) cpl targets p bexp shift dib) targets
  | [], _, _, _, _, _, _, _, _, _, _, _ => by simp [getPowLoop]
  | e :: es, p, bexp, shift, dib, hp, hne, htop, hv, hd, hb1, hasc => by
    obtain ⟨he2, hprev, hasc'⟩ := hasc
    have hDpos : 0 < b ^ cpl := Nat.pow_pos (by omega)
    have hppos : 0 < val p := lt_of_lt_of_le (Nat.pow_pos B_pos) (val_ge_of_top hne htop)
    rw [getPowLoop]
    simp only []
    -- the new value and exponent
    have key : ∃ t : Nat, t ≠ 0 ∧ t * B ^ (2 * shift) = (b ^ cpl) ^ (e - 1) ∧
        (if decide (2 * bexp + 1 < e) = true then val p * val p * b ^ cpl else val p * val p) = t ∧
        (if decide (2 * bexp + 1 < e) = true then 2 * dib + cpl else 2 * dib) = cpl * (e - 1) ∧
        (if decide (2 * bexp + 1 < e) = true then 2 * bexp + 1 else 2 * bexp) = e - 1 := by
      have hsq : val p * val p * B ^ (2 * shift) = (b ^ cpl) ^ (2 * bexp) := by
        have : (val p * B ^ shift) ^ 2 = ((b ^ cpl) ^ bexp) ^ 2 := by rw [hv]
        rw [← pow_mul, Nat.mul_comm bexp 2] at this
        rw [← this, Nat.mul_comm 2 shift, pow_mul]; ring
      by_cases hadj : 2 * bexp + 1 < e
      · have he : e - 1 = 2 * bexp + 1 := by omega
        refine ⟨val p * val p * b ^ cpl, Nat.mul_ne_zero (Nat.mul_ne_zero (by omega) (by omega)) (by omega), ?_, by simp [hadj], ?_, by simp [hadj]; omega⟩
        · rw [he, pow_succ, ← hsq]; ring
        · simp only [hadj, decide_true, if_true]; rw [he, hd]; ring
      · have he : e - 1 = 2 * bexp := by omega
        refine ⟨val p * val p, Nat.mul_ne_zero (by omega) (by omega), ?_, by simp [hadj], ?_, by simp [hadj]; omega⟩
        · rw [he, ← hsq]
        · simp only [hadj, decide_false, Bool.false_eq_true, if_false]; rw [he, hd]; ring
    obtain ⟨t, ht0, htv, e1, e2, e3⟩ := key
    rw [e1, e2, e3]
    obtain ⟨nv, nL⟩ := val_natLimbs t
    obtain ⟨nne, ntop⟩ := natLimbs_top t ht0
    obtain ⟨s1, s2, s3⟩ := stripLow_spec (natLimbs t) (2 * shift)
    generalize hst : stripLow (natLimbs t) (2 * shift) = st at *
    obtain ⟨tl, sh'⟩ := st
    simp only at s1 s2 s3 ⊢
    rw [nv, htv] at s1
    have tlne : tl ≠ [] := by
      intro h0; rw [h0] at s1; simp at s1
      have := Nat.pow_pos (n := e - 1) hDpos; omega
    have tlL : Limbs tl := fun x hx => nL x (s2 x hx)
    have tltop : tl.getLast! ≠ 0 := by rw [s3 tlne]; exact ntop
    refine List.Forall₂.cons ⟨s1, rfl, tlL, tlne, tltop, by omega⟩ ?_
    exact getPowLoop_ok hb es tl (e - 1) sh' (cpl * (e - 1)) tlL tlne tltop s1 rfl (by omega)
      (by rw [show e - 1 + 1 = e by omega]; exact hasc')

theorem finalMul_ok {b cpl e : Nat} (hb : 2 ≤ b) {pw : Pow} (h : PowOk b cpl pw e) :
    PowOk b cpl (finalMul (b ^ cpl) cpl pw) (e + 1) := by
  have hDpos : 0 < b ^ cpl := Nat.pow_pos (by omega)
  have hppos : 0 < val pw.p := lt_of_lt_of_le (Nat.pow_pos B_pos) (val_ge_of_top h.ne h.top)
  have ht0 : val pw.p * b ^ cpl ≠ 0 := Nat.mul_ne_zero (by omega) (by omega)
  obtain ⟨nv, nL⟩ := val_natLimbs (val pw.p * b ^ cpl)
  obtain ⟨nne, ntop⟩ := natLimbs_top _ ht0
  have hval : val (natLimbs (val pw.p * b ^ cpl)) * B ^ pw.shift = (b ^ cpl) ^ (e + 1) := by
    rw [nv, pow_succ, ← h.value]; ring
  have hdib : pw.dib + cpl = cpl * (e + 1) := by rw [h.dib]; ring
  unfold finalMul
  split
  · rename_i rest heq
    rw [heq] at hval nL ntop
    have rne : rest ≠ [] := by
      intro h0; rw [h0] at hval; simp at hval
      have := Nat.pow_pos (n := e + 1) hDpos; omega
    refine ⟨?_, hdib, (Limbs_cons.mp nL).2, rne, ?_, by omega⟩
    · simp only; rw [← hval, val_cons, pow_succ]; ring
    · simp only
      cases rest with
      | nil => exact absurd rfl rne
      | cons y ys => rw [getLast!_cons_cons] at ntop; exact ntop
  · exact ⟨hval, hdib, nL, nne, ntop, by omega⟩

/-- the exponents of big_base in powtab[0], powtab[1], …: `1, exptab[n_pows-1], …, exptab[1]` -/
def getExps (xn : Nat) : List Nat := 1 :: (expAsc xn).dropLast

theorem p0_ok {b cpl : Nat} (hb : 2 ≤ b) (hbb : b ^ cpl < B) : PowOk b cpl ⟨[b ^ cpl], 0, cpl⟩ 1 := by
  have hDpos : 0 < b ^ cpl := Nat.pow_pos (by omega)
  refine ⟨by simp, by simp, ?_, by simp, ?_, by omega⟩
  · exact Limbs_cons.mpr ⟨hbb, Limbs_nil⟩
  · simp [List.getLast!]; omega

/-- every entry of the table mpn_get_str builds is the exact power it stands for -/
theorem getPowtabX_ok {b cpl : Nat} (hb : 2 ≤ b) (hbb : b ^ cpl < B) (xn : Nat) :
    List.Forall₂ (PowOk b cpl) (getPowtabX (b ^ cpl) cpl xn) (getExps xn) := by
  have hp0 := p0_ok (cpl := cpl) hb hbb
  obtain ⟨hasc, _⟩ := expAsc_ok xn
  unfold getPowtabX getExps
  rcases Nat.lt_or_ge xn 2 with hx | hx
  · rw [expAsc_small (by omega)]
    exact List.Forall₂.cons hp0 List.Forall₂.nil
  · rw [expAsc_step hx] at hasc ⊢
    rw [List.dropLast_concat]
    obtain ⟨hasc', _⟩ := expAsc_ok ((xn + 1) / 2)
    generalize expAsc ((xn + 1) / 2) = body at *
    cases body with
    | nil => exact List.Forall₂.cons hp0 List.Forall₂.nil
    | cons e1 targets =>
      obtain ⟨h2, h1, hch⟩ := hasc'
      have he1 : e1 = 2 := by omega
      subst he1
      refine List.Forall₂.cons hp0 ?_
      simp only [List.map_cons]
      refine List.Forall₂.cons (finalMul_ok hb hp0) ?_
      have hloop := getPowLoop_ok (cpl := cpl) hb targets [b ^ cpl] 1 0 cpl hp0.limbs hp0.ne hp0.top
        (by simp) (by simp) (by omega) hch
      -- map finalMul over the loop entries
      have : ∀ (l : List Pow) (es : List Nat), (∀ e ∈ es, 1 ≤ e) →
          List.Forall₂ (fun pw e => PowOk b cpl pw (e - 1)) l es →
          List.Forall₂ (PowOk b cpl) (l.map (finalMul (b ^ cpl) cpl)) es := by
        intro l es hes hf
        induction hf with
        | nil => exact List.Forall₂.nil
        | @cons pw e l' es' h _ ih =>
          refine List.Forall₂.cons ?_ (ih (fun e he => hes e (List.mem_cons_of_mem _ he)))
          have := finalMul_ok hb h
          rwa [show e - 1 + 1 = e by have := hes e (List.mem_cons_self ..); omega] at this
      refine this _ _ ?_ hloop
      -- every target is at least 2
      have hge : ∀ (l : List Nat) (prev : Nat), AscOk prev l → ∀ e ∈ l, 1 ≤ e := by
        intro l
        induction l with
        | nil => intro _ _ e he; cases he
        | cons x xs ih =>
          intro prev h e he
          rcases List.mem_cons.mp he with rfl | he'
          · have := h.1; omega
          · exact ih x h.2.2 e he'
      exact hge targets 2 hch

/-- consecutive exponents at most double -/
def AscChain : Nat → List Nat → Prop
  | _, [] => True
  | prev, e :: l => e ≤ 2 * prev ∧ AscChain e l

theorem AscOk.chain : ∀ (l : List Nat) (prev : Nat), AscOk prev l → AscChain prev l
  | [], _, _ => trivial
  | e :: l, prev, h => ⟨by have := h.2.1; omega, AscOk.chain l e h.2.2⟩

theorem getTabOk_rev {b cpl : Nat} : ∀ (tab : List Pow) (es : List Nat) (pwh : Pow) (eh : Nat) (accT : List Pow)
    (accE : List Nat), GetTabOk b cpl (pwh :: accT) (eh :: accE) → List.Forall₂ (PowOk b cpl) tab es →
    AscChain eh es → ∃ pw rest e es', tab.reverse ++ pwh :: accT = pw :: rest ∧ es.reverse ++ eh :: accE = e :: es' ∧
      GetTabOk b cpl (pw :: rest) (e :: es') ∧ e = es.getLastD eh
  | [], es, pwh, eh, accT, accE, hacc, hf, _ => by
    cases hf
    exact ⟨pwh, accT, eh, accE, rfl, rfl, hacc, rfl⟩
  | pw :: tab, es, pwh, eh, accT, accE, hacc, hf, hch => by
    cases hf with
    | cons h hf' =>
      rename_i e es1
      obtain ⟨c1, c2⟩ := hch
      have hacc' : GetTabOk b cpl (pw :: pwh :: accT) (e :: eh :: accE) := ⟨h, c1, hacc⟩
      obtain ⟨pw2, rest, e2, es2, r1, r2, r3, r4⟩ := getTabOk_rev tab es1 pw e (pwh :: accT) (eh :: accE) hacc' hf' c2
      refine ⟨pw2, rest, e2, es2, ?_, ?_, r3, ?_⟩
      · rw [List.reverse_cons, List.append_assoc]; exact r1
      · rw [List.reverse_cons, List.append_assoc]; exact r2
      · rw [r4, List.getLastD_cons]

/-- the table as mpn_dc_get_str receives it (top entry first) is a table of exact powers with exponents at
    most doubling from entry to entry, entry 0 = big_base, and the top power is at least big_base^(xn/2) -/
theorem getPowtab_rev_ok {b cpl : Nat} (hb : 2 ≤ b) (hbb : b ^ cpl < B) (xn : Nat) :
    ∃ pw rest e es, (getPowtabX (b ^ cpl) cpl xn).reverse = pw :: rest ∧ GetTabOk b cpl (pw :: rest) (e :: es) ∧
      xn ≤ 2 * e := by
  have hall := getPowtabX_ok hb hbb xn
  obtain ⟨hasc, hlast⟩ := expAsc_ok xn
  unfold getExps at hall
  generalize getPowtabX (b ^ cpl) cpl xn = tab at *
  cases hall with
  | cons h0 hrest =>
    rename_i pw0 tab'
    -- the chain 1 :: dropLast
    have hchain : AscChain 1 (expAsc xn).dropLast ∧ xn ≤ 2 * (expAsc xn).dropLast.getLastD 1 := by
      rcases Nat.lt_or_ge xn 2 with hx | hx
      · rw [expAsc_small (by omega)]; exact ⟨trivial, by simp; omega⟩
      · rw [expAsc_step hx, List.dropLast_concat]
        obtain ⟨b1, b2⟩ := expAsc_ok ((xn + 1) / 2)
        exact ⟨AscOk.chain _ _ b1, by rw [b2 (by omega)]; omega⟩
    have hbase : GetTabOk b cpl [pw0] [1] := ⟨h0, rfl⟩
    obtain ⟨pw, rest, e, es, r1, _, r3, r4⟩ := getTabOk_rev tab' _ pw0 1 [] [] hbase hrest hchain.1
    refine ⟨pw, rest, e, es, ?_, r3, by rw [r4]; exact hchain.2⟩
    rw [List.reverse_cons]; exact r1

/-! ### mpn_get_str, all sizes -/

/-- the divide-and-conquer branch of mpn_get_str: table + recursion produce the digits of the operand -/
theorem get_str_dc_branch {b : Nat} (hb : 2 ≤ b) (hb62 : b ≤ 62) (hok : NonPow2Ok b) (h10 : Base10Ok)
    (hx : XnOk b) (hbig : 2 ^ (sibHint b).2.2.2.2.2 < b ^ (sibHint b).2.2.2.2.1)
    (T : Nat) (hT : 4 ≤ T) (up : List Nat) (hu : Limbs up) (hne : up ≠ []) (htop : up.getLast! ≠ 0)
    (hsize : up.length ≤ 2 ^ 36) :
    dcGetStr T b (getPowtab b up.length).reverse 0 up = some (digitsOf b (val up)) := by
  have hcpl := hok.cpl_pos hb62
  have hbb : b ^ charsPerLimb b < B := hok.2.1
  have hsb := fun (u : List Nat) (h1 : Limbs u) (h2 : u ≠ []) => sb_get_str_pad hb hb62 hok h10 u h1 h2
  have hun : 1 ≤ up.length := List.length_pos_iff.mpr hne
  have hxl := xn_large hb hx hbig hun hsize
  unfold getPowtab
  rw [hok.1]
  obtain ⟨pw, rest, e, es, hrev, htab, hxn⟩ := getPowtab_rev_ok (cpl := charsPerLimb b) hb hbb (xnOf b up.length)
  rw [hrev]
  have hpk := htab.head
  have hDpos : 0 < b ^ charsPerLimb b := Nat.pow_pos (by omega)
  -- val up < P²·B^(T-3)
  have hv := val_lt up hu
  have hge := val_ge_of_top hne htop
  have hcap2 : val up < ((b ^ charsPerLimb b) ^ e) ^ 2 * B ^ (T - 3) := by
    have e1 : B ^ up.length = B ^ (up.length - 1) * B := by rw [← pow_succ]; congr 1; omega
    have e2 : (b ^ charsPerLimb b) ^ xnOf b up.length ≤ ((b ^ charsPerLimb b) ^ e) ^ 2 := by
      rw [← pow_mul (b ^ charsPerLimb b) e 2]; exact Nat.pow_le_pow_right hDpos (by omega)
    have e3 : B ≤ B ^ (T - 3) := by
      calc B = B ^ 1 := (pow_one B).symm
        _ ≤ B ^ (T - 3) := Nat.pow_le_pow_right B_pos (by omega)
    calc val up < B ^ (up.length - 1) * B := by rw [← e1]; exact hv
      _ ≤ ((b ^ charsPerLimb b) ^ e) ^ 2 * B ^ (T - 3) := Nat.mul_le_mul (le_trans hxl e2) e3
  have hcap1 : up.length ≤ 2 * (pw.p.length + pw.shift) + (T - 3) := by
    have hup := hpk.upper
    have h2 : ((b ^ charsPerLimb b) ^ e) ^ 2 * B ^ (T - 3) < B ^ (2 * (pw.p.length + pw.shift) + (T - 3)) := by
      rw [pow_add, Nat.mul_comm 2, pow_mul]
      exact Nat.mul_lt_mul_of_pos_right (Nat.pow_lt_pow_left hup (by omega)) (Nat.pow_pos B_pos)
    have h3 : B ^ (up.length - 1) < B ^ (2 * (pw.p.length + pw.shift) + (T - 3)) :=
      lt_of_le_of_lt hge (lt_trans hcap2 h2)
    have := (Nat.pow_lt_pow_iff_right (by rw [B_eq]; omega : 1 < B)).mp h3
    omega
  have := dcGetStr_ok hb hcpl hbb (by omega : 3 ≤ T) hsb rest es pw e htab 0 up hu hcap1 hcap2
    (fun _ => ⟨hne, htop⟩) (fun h => absurd rfl h)
  rw [this]; rfl

/-- mpn_get_str with the divide-and-conquer branch modelled, every base 2..62, every operand below 2^36 limbs,
    every pair of thresholds with GET_STR_DC_THRESHOLD ≥ 4: exactly the digits of the operand -/
theorem mpn_get_str_dc_of_table {b : Nat} (hb : 2 ≤ b) (hb62 : b ≤ 62)
    (hnp : pow2P b = false → NonPow2Ok b ∧ XnOk b ∧ 2 ^ (sibHint b).2.2.2.2.2 < b ^ (sibHint b).2.2.2.2.1)
    (hp : pow2P b = true → Pow2Ok b) (h10 : Base10Ok)
    (dcT preT : Nat) (hT : 4 ≤ dcT) (up : List Nat) (hu : Limbs up) (hne : up ≠ []) (htop : up.getLast! ≠ 0)
    (hsize : up.length ≤ 2 ^ 36) :
    mpn_get_str_dc dcT preT b up = some (digitsOf b (val up)) := by
  unfold mpn_get_str_dc
  have hl : (up.length == 0) = false := by
    cases up with
    | nil => exact absurd rfl hne
    | cons _ _ => rfl
  simp only [hl, Bool.false_eq_true, if_false]
  cases hpw : pow2P b with
  | true =>
    simp only [if_true]
    have hok := hp hpw
    rw [get_str_pow2_of_table hb hok (bigBase_le_64 hb62 hok) up hu hne htop]
  | false =>
    simp only [Bool.false_eq_true, if_false]
    obtain ⟨hok, hx, hbig⟩ := hnp hpw
    split
    · rw [sb_get_str_of_table hb hb62 hok h10 up hu hne htop]
    · exact get_str_dc_branch hb hb62 hok h10 hx hbig dcT hT up hu hne htop hsize

end Mpir.RadixDc
