/-
  Lemmas for C02 part c02_sbq (mpn_sb_div_q): the whole fix-up sb_div_q.c:203-298 decides the sign of
  G - A, G = (dividend limbs below the final window, y, x), A = what triangularization and tails ignored.
-/
import MpirProofs.Lemmas.SbDivQFix
namespace Mpir.SbDivQ
open Mpir Mpir.DivWord Mpir.SbDiv

/-- the first part of the tails code (sb_div_q.c:265-277): subtract qh·D_low at position qn -/
theorem tail_qh (mem dlow : List Nat) (qn : Nat) (hm : Limbs mem) (hd : Limbs dlow) (hl : mem.length = qn + dlow.length) :
    let sb := sub_n (mem.drop qn) dlow
    Limbs (mem.take qn ++ sb.1) ∧ (mem.take qn ++ sb.1).length = mem.length ∧ sb.2 ≤ 1 ∧
    val (mem.take qn ++ sb.1) + B ^ qn * val dlow = val mem + B ^ mem.length * sb.2 := by
  have hdl : (mem.drop qn).length = dlow.length := by rw [List.length_drop, hl]; omega
  obtain ⟨sv, sc, sl, sn⟩ := subNC_val (mem.drop qn) dlow 0 (Limbs_drop hm _) hd hdl (by omega)
  change val (sub_n _ _).1 + _ + 0 = _ + _ * (sub_n _ _).2 at sv
  change (sub_n _ _).2 ≤ 1 at sc
  change Limbs (sub_n _ _).1 at sl
  change (sub_n _ _).1.length = _ at sn
  generalize sub_n (mem.drop qn) dlow = sb at *
  obtain ⟨r, b⟩ := sb
  simp only at sv sc sl sn ⊢
  have htl : (mem.take qn).length = qn := by rw [List.length_take, hl]; omega
  have hv := val_take_drop mem qn (by omega)
  refine ⟨Limbs_append.mpr ⟨Limbs_take hm _, sl⟩, by rw [List.length_append, htl, sn, hdl, hl], sc, ?_⟩
  rw [val_append, htl, hv, hl, pow_add, hdl] at *
  have : B ^ qn * (val r + val dlow + 0) = B ^ qn * (val (mem.drop qn) + B ^ dlow.length * b) := by rw [sv]
  nlinarith

/-- the part of `dqFixup` after the triangularization loop when qn + 1 < dn (sb_div_q.c:258-297) -/
def fixTails (q dp0 mem : List Nat) (qh x sft : Nat) : DqRes :=
  let qn := q.length
  let sb := sub_n (mem.drop qn) (dp0.take sft)
  let bor := if qh ≠ 0 then sb.2 else 0
  let mem := if qh ≠ 0 then mem.take qn ++ sb.1 else mem
  if bor ≠ 0 ∧ x = 0 then
    let cy := if qn ≠ 0 then (sub_1 q 1).2 else bor
    some (if qn ≠ 0 then (sub_1 q 1).1 else q, (qh + B - cy) % B)
  else
    let x := if bor ≠ 0 then x - 1 else x
    if qn = 0 then some (q, qh)
    else some (dqTail q dp0 qh sft mem x)

theorem dqFixup_eq (q dp dp0 lowN : List Nat) (qh x y : Nat) :
    dqFixup q dp dp0 lowN qh x y =
      match dqTri q dp dp.length qh (dp.length - 2) (lowN.drop (dp0.length - dp.length)) x y with
      | .inl r => r
      | .inr (r1, x, y) =>
        if q.length + 1 < dp0.length then
          fixTails q dp0 (lowN.take (dp0.length - dp.length) ++ r1 ++ [y]) qh x (dp0.length - dp.length)
        else some (q, qh) := rfl

theorem fixTails_spec (q dp0 mem : List Nat) (qh x s : Nat) (hq : Limbs q) (hdp0 : Limbs dp0) (hm : Limbs mem)
    (hml : mem.length = q.length + s) (hs : s ≤ dp0.length) (hqn : 0 < q.length) (hqh : qh ≤ 1) :
    ((qh * B ^ q.length + val q) * val (dp0.take s) ≤ val mem + B ^ (q.length + s) * x →
      fixTails q dp0 mem qh x s = some (q, qh)) ∧
    (val mem + B ^ (q.length + s) * x < (qh * B ^ q.length + val q) * val (dp0.take s) →
      ∃ q' qh', fixTails q dp0 mem qh x s = some (q', qh') ∧ q'.length = q.length ∧ Limbs q' ∧ qh' ≤ 1 ∧
        qh' * B ^ q.length + val q' + 1 = qh * B ^ q.length + val q) := by
  have hB := B_pos
  have hdl : Limbs (dp0.take s) := Limbs_take hdp0 _
  have hdll : (dp0.take s).length = s := by rw [List.length_take]; omega
  have hts := tailSum_eq q dp0 s hs
  obtain ⟨dq1, dq2, dq3, dq4, dq5⟩ := decr_quot q hq hqn
  have hqne : q.length ≠ 0 := by omega
  unfold fixTails
  simp only []
  rcases Nat.eq_zero_or_pos qh with h0 | h1
  · subst h0
    simp only [ne_eq, not_true_eq_false, if_false, false_and, hqne]
    obtain ⟨t1, t2⟩ := dqTail_spec q dp0 0 (q.length + s) hq hdp0 s mem x (by omega) hm hml
    rw [hts] at t1 t2
    simp only [Nat.zero_mul, Nat.zero_add]
    constructor
    · intro h; rw [t1 h]
    · intro h
      obtain ⟨e, hpos⟩ := t2 h
      rw [e]
      have hb := dq5 hpos
      rw [hb, Nat.mul_zero, Nat.add_zero] at dq4
      exact ⟨_, _, rfl, dq2, dq1, by omega, by omega⟩
  · have hqh1 : qh = 1 := by omega
    subst hqh1
    obtain ⟨u1, u2, u3, u4⟩ := tail_qh mem (dp0.take s) q.length hm hdl (by rw [hml, hdll])
    simp only [ne_eq, Nat.one_ne_zero, not_false_eq_true, if_true, hqne, if_false]
    generalize sub_n (mem.drop q.length) (dp0.take s) = sb at *
    rw [hml] at u2 u4
    have hm2 := val_lt _ u1
    rw [u2] at hm2
    generalize mem.take q.length ++ sb.1 = mem2 at *
    simp only [Nat.one_mul]
    have eA : (B ^ q.length + val q) * val (dp0.take s) = B ^ q.length * val (dp0.take s) + val q * val (dp0.take s) := by
      ring
    rw [eA]
    generalize B ^ q.length * val (dp0.take s) = A1 at *
    by_cases hex : ¬sb.2 = 0 ∧ x = 0
    · rw [if_pos hex]
      obtain ⟨hb, hx⟩ := hex
      subst hx
      have hb1 : sb.2 = 1 := by omega
      rw [hb1, Nat.mul_one] at u4
      rw [Nat.mul_zero, Nat.add_zero]
      constructor
      · intro h
        exfalso
        have := Nat.zero_le (val q * val (dp0.take s))
        omega
      · intro _
        refine ⟨_, _, rfl, dq2, dq1, ?_, ?_⟩
        · have : (sub_1 q 1).2 = 0 ∨ (sub_1 q 1).2 = 1 := by omega
          rcases this with h | h <;> rw [h] <;> simp only [B_eq] <;> omega
        · have : (sub_1 q 1).2 = 0 ∨ (sub_1 q 1).2 = 1 := by omega
          rcases this with h | h
          · rw [h] at dq4 ⊢
            rw [Nat.mul_zero, Nat.add_zero] at dq4
            have e : (1 + B - 0) % B = 1 := by simp only [B_eq]
            rw [e]; omega
          · rw [h] at dq4 ⊢
            rw [Nat.mul_one] at dq4
            have e : (1 + B - 1) % B = 0 := by simp only [B_eq]
            rw [e]; omega
    · rw [if_neg hex]
      obtain ⟨t1, t2⟩ := dqTail_spec q dp0 1 (q.length + s) hq hdp0 s mem2 (if ¬sb.2 = 0 then x - 1 else x) (by omega)
        u1 u2
      rw [hts] at t1 t2
      have hG : val mem2 + B ^ (q.length + s) * (if ¬sb.2 = 0 then x - 1 else x) + A1
          = val mem + B ^ (q.length + s) * x := by
        by_cases hb : sb.2 = 0
        · rw [if_neg (by simpa using hb)]
          rw [hb, Nat.mul_zero, Nat.add_zero] at u4
          omega
        · rw [if_pos hb]
          have hb1 : sb.2 = 1 := by omega
          have hx : x ≠ 0 := fun hx => hex ⟨hb, hx⟩
          obtain ⟨x', rfl⟩ : ∃ x', x = x' + 1 := ⟨x - 1, by omega⟩
          rw [hb1, Nat.mul_one] at u4
          rw [Nat.add_sub_cancel]
          have e : B ^ (q.length + s) * (x' + 1) = B ^ (q.length + s) * x' + B ^ (q.length + s) := by ring
          omega
      constructor
      · intro h; rw [t1 (by omega)]
      · intro h
        obtain ⟨e, hpos⟩ := t2 (by omega)
        rw [e]
        have hb := dq5 hpos
        rw [hb, Nat.mul_zero, Nat.add_zero] at dq4
        exact ⟨_, _, rfl, dq2, dq1, by omega, by omega⟩

/-- the fix-up code of mpn_sb_div_q decides the sign of G - A exactly: G = the remainder it starts from (dividend limbs
    below the final window, y, x), A = everything the loops ignored (triangularization, qh·D_low, q·D_low) -/
theorem dqFixup_spec (q dp0 lowN : List Nat) (qh x y s k : Nat) (hdp0l : dp0.length = s + k + 2)
    (hlow : lowN.length = s + k) (hq : Limbs q) (hdp0 : Limbs dp0) (hlowl : Limbs lowN) (hy : y < B) (hqh : qh ≤ 1)
    (hqn : k + 1 ≤ q.length) (hcase : s = 0 ∨ q.length = k + 1) :
    (B ^ s * triSum q (dp0.drop s) k k + (qh * B ^ q.length + val q) * val (dp0.take s)
        ≤ val lowN + B ^ (s + k) * y + B ^ (s + k + 1) * x →
      dqFixup q (dp0.drop s) dp0 lowN qh x y = some (q, qh)) ∧
    (val lowN + B ^ (s + k) * y + B ^ (s + k + 1) * x
        < B ^ s * triSum q (dp0.drop s) k k + (qh * B ^ q.length + val q) * val (dp0.take s) →
      ∃ q' qh', dqFixup q (dp0.drop s) dp0 lowN qh x y = some (q', qh') ∧ q'.length = q.length ∧ Limbs q' ∧ qh' ≤ 1 ∧
        qh' * B ^ q.length + val q' + 1 = qh * B ^ q.length + val q) := by
  have hB := B_pos
  have hdpl : (dp0.drop s).length = k + 2 := by rw [List.length_drop, hdp0l]; omega
  have hdp : Limbs (dp0.drop s) := Limbs_drop hdp0 _
  have hr1 : Limbs (lowN.drop s) := Limbs_drop hlowl _
  have hr1l : (lowN.drop s).length = k := by rw [List.length_drop, hlow]; omega
  have hll : Limbs (lowN.take s) := Limbs_take hlowl _
  have hlll : (lowN.take s).length = s := by rw [List.length_take, hlow]; omega
  have hvl := val_take_drop lowN s (by omega)
  have hlt := val_lt _ hll
  rw [hlll] at hlt
  obtain ⟨tr1, tr2⟩ := dqTri_spec q (dp0.drop s) k qh hq hdp hdpl k (lowN.drop s) x y (le_refl _) hr1 hr1l hy
  rw [dqFixup_eq, hdpl, hdp0l, show s + k + 2 - (k + 2) = s by omega, show k + 2 - 2 = k from rfl]
  have hp1 : B ^ (s + k) = B ^ s * B ^ k := pow_add _ _ _
  have hp2 : B ^ (s + k + 1) = B ^ s * B ^ (k + 1) := by rw [show s + k + 1 = s + (k + 1) by omega, pow_add]
  rw [hvl, hp1, hp2]
  generalize triSum q (dp0.drop s) k k = T at *
  cases htri : dqTri q (dp0.drop s) (k + 2) qh k (lowN.drop s) x y with
  | inl res =>
    obtain ⟨e1, e2, e3⟩ := tr2 res htri
    simp only []
    obtain ⟨x1, x2⟩ := dqExit1_ok q qh hq (by omega) e3
    have hlt2 : val (lowN.take s) + B ^ s * val (lowN.drop s) + B ^ s * B ^ k * y + B ^ s * B ^ (k + 1) * x
        < B ^ s * T := by
      have : B ^ s * (val (lowN.drop s) + B ^ k * y + B ^ (k + 1) * x + 1) ≤ B ^ s * T := Nat.mul_le_mul_left _ e2
      nlinarith
    constructor
    · intro h
      exfalso
      have := Nat.zero_le ((qh * B ^ q.length + val q) * val (dp0.take s))
      omega
    · intro _
      obtain ⟨_, d2, _, _, _⟩ := decr_quot q hq (by omega)
      obtain ⟨d1, _, _, _, _⟩ := decr_quot q hq (by omega)
      exact ⟨_, _, by rw [e1, x1], d2, d1, hqh, by omega⟩
  | inr p =>
    obtain ⟨r1', x', y'⟩ := p
    obtain ⟨a1, a2, a3, a4⟩ := tr1 r1' x' y' htri
    simp only []
    have hG : val (lowN.take s) + B ^ s * val (lowN.drop s) + B ^ s * B ^ k * y + B ^ s * B ^ (k + 1) * x
        = val (lowN.take s) + B ^ s * val r1' + B ^ s * B ^ k * y' + B ^ s * B ^ (k + 1) * x' + B ^ s * T := by
      have : B ^ s * (val r1' + B ^ k * y' + B ^ (k + 1) * x' + T)
          = B ^ s * (val (lowN.drop s) + B ^ k * y + B ^ (k + 1) * x) := by rw [a4]
      nlinarith
    rw [hG]
    by_cases hc : q.length + 1 < s + k + 2
    · rw [if_pos hc]
      have hql : q.length = k + 1 := by omega
      have hmem : Limbs (lowN.take s ++ r1' ++ [y']) :=
        Limbs_append.mpr ⟨Limbs_append.mpr ⟨hll, a1⟩, by intro z hz; simp at hz; subst hz; exact a3⟩
      have hmeml : (lowN.take s ++ r1' ++ [y']).length = q.length + s := by
        simp [hlll, a2, hql]; omega
      obtain ⟨f1, f2⟩ := fixTails_spec q dp0 (lowN.take s ++ r1' ++ [y']) qh x' s hq hdp0 hmem hmeml (by omega)
        (by omega) hqh
      have hvm : val (lowN.take s ++ r1' ++ [y']) + B ^ (q.length + s) * x'
          = val (lowN.take s) + B ^ s * val r1' + B ^ s * B ^ k * y' + B ^ s * B ^ (k + 1) * x' := by
        rw [val_append, val_append, List.length_append, hlll, a2, hql, val_cons, val_nil, Nat.mul_zero, Nat.add_zero,
          show k + 1 + s = s + k + 1 by omega, hp2, pow_add]
      rw [hvm] at f1 f2
      constructor
      · intro h; exact f1 (by omega)
      · intro h; exact f2 (by omega)
    · rw [if_neg hc]
      have hs0 : s = 0 := by omega
      subst hs0
      constructor
      · intro _; rfl
      · intro h
        exfalso
        have e0 : val (dp0.take 0) = 0 := by simp
        rw [e0, Nat.mul_zero, Nat.add_zero] at h
        omega

end Mpir.SbDivQ
