/- Helper lemmas for the limb level of C08 (Mpir/Model/PowmLimb.lean): mpn_redc_n with the wrap-around
   recovery, mpn_redc_2, the memory models of mpn_powm / mpn_powlo. -/
import MpirProofs.Lemmas.Powm
import Mpir.Model.PowmLimb
namespace Mpir.PowmL
open Mpir Mpir.Powm

/-! ### the wrap-around recovery of mpn_redc_n, as arithmetic

`P = B^k`, `R = B^(rn-k)` (`k = 2n − rn`), so `B^rn = P·R`.  The full product is
`y = l0 + P·L + P·R·yh` (`l0 < P` the known low part, `L < R`, `yh < P` the part that wrapped).
`Y` is the residue returned by mulmod_bnm1. -/

/-- which representatives are possible: `Y = S` or `Y = S − (PR − 1)`. -/
theorem rep_cases (M Y S : Nat) (hM : 1 ≤ M) (hY : Y ≤ M) (hS : S < 2 * M) (h0 : S = 0 → Y = 0)
    (hc : Y % M = S % M) : ∃ e, e ≤ 1 ∧ Y + e * M = S := by
  by_cases hSM : S < M
  · rw [Nat.mod_eq_of_lt hSM] at hc
    by_cases hYM : Y < M
    · rw [Nat.mod_eq_of_lt hYM] at hc
      exact ⟨0, by omega, by omega⟩
    · have : Y = M := by omega
      rw [this, Nat.mod_self] at hc
      have := h0 hc.symm
      omega
  · have hS2 : S % M = S - M := by
      rw [Nat.mod_eq_sub_mod (by omega), Nat.mod_eq_of_lt (by omega)]
    rw [hS2] at hc
    by_cases hYM : Y < M
    · rw [Nat.mod_eq_of_lt hYM] at hc
      exact ⟨1, le_refl _, by omega⟩
    · have : Y = M := by omega
      rw [this, Nat.mod_self] at hc
      exact ⟨0, by omega, by omega⟩

/-- the recovery: from the residue `Y`, the low part `l0` and the kernels' outputs (`d`, `cy` of the
    subtraction, `V'`, `bw` of the decrement) the limbs `k..2n` of the product are exact and the borrow
    stops inside the area. -/
theorem wrap_recover (P R l0 L yh Y e d cy V' bw : Nat) (hP : 2 ≤ P) (hR : 1 ≤ R)
    (hl0 : l0 < P) (hL : L < R) (hyh : yh < P) (hY : Y < P * R) (he : e ≤ 1)
    (hrep : Y + e * (P * R - 1) = l0 + P * L + yh)
    (hexcl : ¬ (yh = P - 1 ∧ L = R - 1))
    (hd : d + l0 = Y % P + P * cy) (hdlt : d < P) (hcy : cy ≤ 1)
    (hV : V' + cy = Y / P + R * d + P * R * bw) (hV' : V' < P * R) (hbw : bw ≤ 1) :
    V' = L + R * yh ∧ bw = 0 := by
  have hPR : P * 1 ≤ P * R := Nat.mul_le_mul_left _ hR
  have hPL : P * L + P ≤ P * R := by
    have : P * (L + 1) ≤ P * R := Nat.mul_le_mul_left _ (by omega)
    rw [Nat.mul_add, Nat.mul_one] at this; exact this
  have hRy : R * yh + R ≤ P * R := by
    have : R * (yh + 1) ≤ R * P := Nat.mul_le_mul_left _ (by omega)
    rw [Nat.mul_add, Nat.mul_one, Nat.mul_comm R P] at this; exact this
  have hdm := Nat.div_add_mod Y P
  rcases Nat.eq_zero_or_pos e with h0 | h1
  · -- Y = l0 + yh + P·L
    subst h0
    simp only [Nat.zero_mul, Nat.add_zero] at hrep
    -- c = (l0 + yh) / P ∈ {0,1}
    have hA : Y % P = (l0 + yh) % P := by
      rw [hrep]
      have : l0 + P * L + yh = (l0 + yh) + P * L := by ring
      rw [this, Nat.add_mul_mod_self_left]
    have hH : Y / P = L + (l0 + yh) / P := by
      rw [hrep]
      have : l0 + P * L + yh = (l0 + yh) + P * L := by ring
      rw [this, Nat.add_mul_div_left _ _ (by omega : 0 < P)]; ring
    have hc := Nat.div_add_mod (l0 + yh) P
    have hcle : (l0 + yh) / P ≤ 1 := by
      have : (l0 + yh) / P < 2 := Nat.div_lt_of_lt_mul (by omega)
      omega
    rw [hA] at hd
    rw [hH] at hV
    generalize (l0 + yh) / P = c at *
    generalize (l0 + yh) % P = A at *
    have hcc : c = cy := by
      rcases Nat.lt_or_ge c cy with h | h
      · have : c = 0 := by omega
        have : cy = 1 := by omega
        subst_vars; omega
      · rcases Nat.eq_or_lt_of_le h with h | h
        · exact h.symm
        · have : c = 1 := by omega
          have : cy = 0 := by omega
          subst_vars; omega
    subst hcc
    have hdy : d = yh := by
      have : P * c + A = l0 + yh := hc
      omega
    subst hdy
    rcases Nat.eq_zero_or_pos bw with hb | hb
    · subst hb; constructor <;> omega
    · have : bw = 1 := by omega
      subst this; omega
  · -- Y + PR − 1 = l0 + yh + P·L
    have : e = 1 := by omega
    subst this
    simp only [Nat.one_mul] at hrep
    have hLR : L = R - 1 := by
      by_contra hne
      have hL2 : L + 2 ≤ R := by omega
      have : P * (L + 2) ≤ P * R := Nat.mul_le_mul_left _ hL2
      rw [Nat.mul_add] at this
      omega
    have hyh2 : yh + 2 ≤ P := by
      by_contra hne
      exact hexcl ⟨by omega, hLR⟩
    have hPL2 : P * L + P = P * R := by
      have : L + 1 = R := by omega
      rw [← this, Nat.mul_add, Nat.mul_one]
    have hYs : Y + P = l0 + yh + 1 := by omega
    have hYlt : Y < P := by omega
    rw [Nat.mod_eq_of_lt hYlt] at hd
    rw [Nat.div_eq_of_lt hYlt] at hV
    have hcy1 : cy = 1 := by
      by_contra hne
      have : cy = 0 := by omega
      subst this; omega
    subst hcy1
    have hdy : d = yh + 1 := by omega
    subst hdy
    have hRy2 : R * (yh + 1) + R ≤ P * R := by
      have : R * (yh + 2) ≤ R * P := Nat.mul_le_mul_left _ hyh2
      rw [Nat.mul_comm R P] at this
      have e2 : R * (yh + 2) = R * (yh + 1) + R := by ring
      omega
    have hRexp : R * (yh + 1) = R * yh + R := by ring
    rcases Nat.eq_zero_or_pos bw with hb | hb
    · subst hb; constructor <;> omega
    · have : bw = 1 := by omega
      subst this; omega


/-! ### list plumbing -/

theorem toLimbs_val : ∀ (l : List Nat), Limbs l → toLimbs l.length (val l) = l
  | [], _ => rfl
  | x :: xs, h => by
    have ⟨hx, hxs⟩ := Limbs_cons.mp h
    simp only [List.length_cons, toLimbs, val_cons]
    rw [Nat.add_mul_mod_self_left, Nat.mod_eq_of_lt hx, Nat.add_mul_div_left _ _ B_pos,
      Nat.div_eq_of_lt hx, Nat.zero_add, toLimbs_val xs hxs]

theorem eq_toLimbs (l : List Nat) (n v : Nat) (hl : Limbs l) (hn : l.length = n) (hv : val l = v) :
    l = toLimbs n v := by
  rw [← hn, ← hv, toLimbs_val l hl]

theorem sub_1_val (l : List Nat) (v : Nat) (hne : l ≠ []) (h : Limbs l) (hv : v < B) :
    val (sub_1 l v).1 + v = val l + B ^ l.length * (sub_1 l v).2 ∧
    (sub_1 l v).2 ≤ 1 ∧ Limbs (sub_1 l v).1 ∧ (sub_1 l v).1.length = l.length := by
  cases l with
  | nil => exact absurd rfl hne
  | cons x xs => exact sub_1_val' x xs v h hv


/-! ### mpn_redc_n on limb lists -/

/-- the product cannot have its wrapped part and the limbs `k..rn` all ones at once. -/
theorem wrap_excl (P Q x m L yh l0 : Nat) (hP : 2 ≤ P) (hQ : 1 ≤ Q) (hx : x < P * Q) (hm : m < P * Q)
    (hy : x * m = l0 + P * L + P * (Q * Q) * yh) : ¬ (yh = P - 1 ∧ L = Q * Q - 1) := by
  rintro ⟨h1, h2⟩
  have hxm : x * m ≤ (P * Q - 1) * (P * Q - 1) := Nat.mul_le_mul (by omega) (by omega)
  have hPQ : 1 ≤ P * Q := Nat.mul_pos (by omega) hQ
  have hQQ : 1 ≤ Q * Q := Nat.mul_pos hQ hQ
  -- (PQ−1)² + 2PQ = (PQ)² + 1
  have e1 : (P * Q - 1) * (P * Q - 1) + 2 * (P * Q) = (P * Q) * (P * Q) + 1 := by
    obtain ⟨t, ht⟩ : ∃ t, P * Q = t + 1 := ⟨P * Q - 1, by omega⟩
    rw [ht]; simp only [Nat.add_sub_cancel]; ring
  have e2 : P * L + P = P * (Q * Q) := by
    have : L + 1 = Q * Q := by omega
    rw [← this]; ring
  have e3 : P * (Q * Q) * yh + P * (Q * Q) = (P * Q) * (P * Q) := by
    have : yh + 1 = P := by omega
    calc P * (Q * Q) * yh + P * (Q * Q) = P * (Q * Q) * (yh + 1) := by ring
      _ = (P * Q) * (P * Q) := by rw [this]; ring
  have e4 : P ≤ P * Q := Nat.le_mul_of_pos_right _ hQ
  generalize x * m = y at *
  generalize (P * Q - 1) * (P * Q - 1) = sq at *
  generalize (P * Q) * (P * Q) = T2 at *
  generalize P * (Q * Q) * yh = a1 at *
  generalize P * (Q * Q) = W at *
  generalize P * L = a2 at *
  generalize P * Q = T at *
  omega

theorem redcNCore_spec (rn : Nat) (up mp yres : List Nat) (x : Nat)
    (hup : Limbs up) (hmp : Limbs mp) (hyr : Limbs yres)
    (hlen : up.length = 2 * mp.length) (hyl : yres.length = rn) (hn : 1 ≤ mp.length)
    (hrn1 : mp.length ≤ rn) (hrn2 : rn < 2 * mp.length)
    (hx : x < B ^ mp.length)
    (hlow : (x * val mp) % B ^ mp.length = val up % B ^ mp.length)
    (hrep : val yres % (B ^ rn - 1) = (x * val mp) % (B ^ rn - 1))
    (hzero : x * val mp = 0 → val yres = 0) :
    (redcNCore rn up mp yres).2 = true ∧
    (redcNCore rn up mp yres).1 = toLimbs mp.length
      (if val up / B ^ mp.length < x * val mp / B ^ mp.length
       then (val up / B ^ mp.length + B ^ mp.length - x * val mp / B ^ mp.length + val mp) % B ^ mp.length
       else val up / B ^ mp.length - x * val mp / B ^ mp.length) := by
  set n := mp.length with hnd
  set m := val mp with hmd
  set k := 2 * n - rn with hkd
  have hk1 : 1 ≤ k := by omega
  have hkn : k ≤ n := by omega
  set P := B ^ k with hPd
  set Q := B ^ (rn - n) with hQd
  have hBpos : 0 < B := B_pos
  have hB2 : 2 ≤ B := by simp [B_eq]
  have hPpos : 0 < P := Nat.pow_pos hBpos
  have hQpos : 0 < Q := Nat.pow_pos hBpos
  have hP2 : 2 ≤ P := by
    have : B ^ 1 ≤ B ^ k := Nat.pow_le_pow_right hBpos hk1
    rw [pow_one] at this; omega
  have hBn : B ^ n = P * Q := by rw [hPd, hQd, ← pow_add]; congr 1; omega
  have hR : B ^ (rn - k) = Q * Q := by rw [hQd, ← pow_add]; congr 1; omega
  have hBrn : B ^ rn = P * (Q * Q) := by rw [hPd, ← hR, ← pow_add]; congr 1; omega
  have hmlt : m < P * Q := by rw [← hBn]; exact val_lt mp hmp
  rw [hBn] at hx hlow
  -- decomposition of the product
  set y := x * m with hyd
  have hyP := Nat.div_add_mod y P
  have hyQ := Nat.div_add_mod (y / P) (Q * Q)
  obtain ⟨l0, hl0d⟩ : ∃ l0, l0 = y % P := ⟨_, rfl⟩
  obtain ⟨L, hLd⟩ : ∃ L, L = y / P % (Q * Q) := ⟨_, rfl⟩
  obtain ⟨yh, hyhd⟩ : ∃ yh, yh = y / P / (Q * Q) := ⟨_, rfl⟩
  rw [← hl0d] at hyP
  rw [← hLd, ← hyhd] at hyQ
  have hQQpos : 0 < Q * Q := Nat.mul_pos hQpos hQpos
  have hLlt : L < Q * Q := by rw [hLd]; exact Nat.mod_lt _ hQQpos
  have hl0lt : l0 < P := by rw [hl0d]; exact Nat.mod_lt _ hPpos
  have hydec : y = l0 + P * L + P * (Q * Q) * yh := by
    have : P * (y / P) = P * (Q * Q * yh + L) := by rw [hyQ]
    rw [Nat.mul_add] at this
    have e : P * (Q * Q * yh) = P * (Q * Q) * yh := by ring
    omega
  have hylt : y < (P * Q) * (P * Q) := Nat.mul_lt_mul'' hx hmlt
  have hyhlt : yh < P := by
    rw [hyhd, Nat.div_div_eq_div_mul]
    apply Nat.div_lt_of_lt_mul
    have : P * (Q * Q) * P = (P * Q) * (P * Q) := by ring
    rw [this]; exact hylt
  have hexcl := wrap_excl P Q x m L yh l0 hP2 hQpos hx hmlt hydec
  -- the low k limbs of y are those of up
  have hl0u : l0 = val (up.take k) := by
    rw [← val_take_mod up hup k, hl0d]
    have h1 : y % (P * Q) % P = y % P := Nat.mod_mul_right_mod _ _ _
    have h2 : val up % (P * Q) % P = val up % P := Nat.mod_mul_right_mod _ _ _
    rw [← h1, hlow, h2]
  -- the residue
  set Y := val yres with hYd
  have hYlt : Y < P * (Q * Q) := by rw [← hBrn, ← hyl]; exact val_lt yres hyr
  obtain ⟨e, he1, hrepe⟩ : ∃ e, e ≤ 1 ∧ Y + e * (P * (Q * Q) - 1) = l0 + P * L + yh := by
    have hM1 : 1 ≤ P * (Q * Q) - 1 := by
      have : P * 1 ≤ P * (Q * Q) := Nat.mul_le_mul_left _ hQQpos
      omega
    have hPL : P * L + P ≤ P * (Q * Q) := by
      have : P * (L + 1) ≤ P * (Q * Q) := Nat.mul_le_mul_left _ (by omega)
      rw [Nat.mul_add, Nat.mul_one] at this; exact this
    have hS0 : l0 + P * L + yh = 0 → Y = 0 := by
      intro h
      apply hzero
      have : yh = 0 := by omega
      rw [hydec, this, Nat.mul_zero]; omega
    have hcong : Y % (P * (Q * Q) - 1) = (l0 + P * L + yh) % (P * (Q * Q) - 1) := by
      rw [hBrn] at hrep
      rw [hrep, hydec]
      have e1 : P * (Q * Q) * yh = (P * (Q * Q) - 1) * yh + yh := by
        obtain ⟨t, ht⟩ : ∃ t, P * (Q * Q) = t + 1 := ⟨P * (Q * Q) - 1, by omega⟩
        rw [ht]; simp only [Nat.add_sub_cancel]; ring
      rw [e1]
      have e2 : l0 + P * L + ((P * (Q * Q) - 1) * yh + yh) = (l0 + P * L + yh) + (P * (Q * Q) - 1) * yh := by ring
      rw [e2, Nat.add_mul_mod_self_left]
    have hS2 : l0 + P * L + yh < 2 * (P * (Q * Q) - 1) := by
      -- S ≤ PQ² + P − 2, equality to 2(PQ²−1) only in the excluded case
      by_contra hge
      apply hexcl
      have hPle : P * 1 ≤ P * (Q * Q) := Nat.mul_le_mul_left _ hQQpos
      constructor
      · omega
      · by_contra hLne
        have hL2 : L + 2 ≤ Q * Q := by omega
        have : P * (L + 2) ≤ P * (Q * Q) := Nat.mul_le_mul_left _ hL2
        rw [Nat.mul_add] at this
        omega
    exact rep_cases _ Y _ hM1 (by omega) hS2 hS0 hcong
  -- now run the code
  unfold redcNCore
  have hcond : ¬ (2 * n ≤ rn) := by omega
  simp only [hcond, if_false, sub_n, ← hnd, ← hkd]
  -- first subtraction
  have htk1 : (yres.take k).length = k := by rw [List.length_take]; omega
  have htk2 : (up.take k).length = k := by rw [List.length_take]; omega
  obtain ⟨sv, sc, sL, sn⟩ := subNC_val (yres.take k) (up.take k) 0 (Limbs_take hyr k) (Limbs_take hup k)
    (by rw [htk1, htk2]) (by omega)
  rw [htk1] at sv sn
  rw [← val_take_mod yres hyr k, ← hl0u] at sv
  generalize subNC (yres.take k) (up.take k) 0 = r1 at *
  obtain ⟨d, cy⟩ := r1
  simp only at sv sc sL sn ⊢
  have hdlt : val d < P := by have := val_lt d sL; rwa [sn] at this
  -- the decrement
  have hdrop : (yres ++ d).drop k = yres.drop k ++ d := List.drop_append_of_le_length (by omega)
  have htake : (yres ++ d).take k = yres.take k := List.take_append_of_le_length (by omega)
  rw [hdrop, htake]
  have hsegL : Limbs (yres.drop k ++ d) := Limbs_append.mpr ⟨Limbs_drop hyr k, sL⟩
  have hseglen : (yres.drop k ++ d).length = rn := by
    rw [List.length_append, List.length_drop, sn]; omega
  have hsegne : yres.drop k ++ d ≠ [] := by
    intro h; rw [h] at hseglen; simp at hseglen; omega
  obtain ⟨dv, dc, dL, dn⟩ := sub_1_val (yres.drop k ++ d) cy hsegne hsegL (by omega)
  rw [hseglen] at dv dn
  rw [val_append, List.length_drop, hyl, hR, ← val_drop_div yres hyr k, hBrn] at dv
  generalize sub_1 (yres.drop k ++ d) cy = r2 at *
  obtain ⟨seg, bw⟩ := r2
  simp only at dv dc dL dn ⊢
  have hseglt : val seg < P * (Q * Q) := by have := val_lt seg dL; rwa [dn, hBrn] at this
  obtain ⟨hV, hbw⟩ := wrap_recover P (Q * Q) l0 L (yh) Y e (val d) cy (val seg) bw hP2 hQQpos hl0lt hLlt hyhlt
    hYlt he1 hrepe hexcl (by omega) hdlt sc (by omega) hseglt dc
  subst hbw
  -- the high half of y
  have hhi : ((yres.take k ++ seg).drop n).take n = seg.drop (n - k) := by
    have h1 : (yres.take k ++ seg).drop n = seg.drop (n - k) := by
      rw [List.drop_append, htk1]
      have : (yres.take k).drop n = [] := List.drop_eq_nil_of_le (by omega)
      rw [this, List.nil_append]
    rw [h1, List.take_of_length_le]
    rw [List.length_drop, dn]; omega
  rw [hhi]
  have hhv : val (seg.drop (n - k)) = y / (P * Q) := by
    rw [← val_drop_div seg dL, hV]
    have h1 : B ^ (n - k) = Q := by rw [hQd]; congr 1; omega
    rw [h1]
    have h2 : L + Q * Q * yh = y / P := by rw [← hyQ]; ring
    rw [h2, Nat.div_div_eq_div_mul]
  have hhL : Limbs (seg.drop (n - k)) := Limbs_drop dL _
  have hhn : (seg.drop (n - k)).length = n := by rw [List.length_drop, dn]; omega
  have hun : (up.drop n).length = n := by rw [List.length_drop]; omega
  have huv : val (up.drop n) = val up / (P * Q) := by rw [← val_drop_div up hup n, hBn]
  obtain ⟨tv, tc, tL, tn⟩ := subNC_val (up.drop n) (seg.drop (n - k)) 0 (Limbs_drop hup n) hhL (by rw [hun, hhn]) (by omega)
  rw [hun, hhv, huv, hBn] at tv
  rw [hun] at tn
  generalize subNC (up.drop n) (seg.drop (n - k)) 0 = r3 at *
  obtain ⟨rp, cy2⟩ := r3
  simp only at tv tc tL tn ⊢
  have hrplt : val rp < P * Q := by have := val_lt rp tL; rwa [tn, hBn] at this
  have huhlt : val up / (P * Q) < P * Q := by
    apply Nat.div_lt_of_lt_mul
    have := val_lt up hup
    rw [hlen, two_mul, pow_add, hBn] at this; exact this
  refine ⟨by simp, ?_⟩
  rw [hBn]
  generalize val up / (P * Q) = uh at *
  generalize y / (P * Q) = yq at *
  by_cases hc : cy2 = 0
  · subst hc
    have hlt : ¬ uh < yq := by omega
    simp only [hlt, if_false, show ((0 : Nat) != 0) = false from rfl, Bool.false_eq_true]
    exact eq_toLimbs rp n _ tL tn (by omega)
  · have hc1 : cy2 = 1 := by omega
    subst hc1
    have hlt : uh < yq := by
      by_contra hge
      have : yq ≤ uh := by omega
      omega
    simp only [hlt, if_true, show ((1 : Nat) != 0) = true from rfl, add_n]
    obtain ⟨av, ac, aL, an⟩ := addNC_val rp mp 0 tL hmp (by rw [tn]) (by omega)
    rw [tn, hBn] at av
    rw [tn] at an
    generalize addNC rp mp 0 = r4 at *
    obtain ⟨out, c4⟩ := r4
    simp only at av ac aL an ⊢
    have houtlt : val out < P * Q := by have := val_lt out aL; rwa [an, hBn] at this
    apply eq_toLimbs out n _ aL an
    have hA : uh + P * Q - yq + m = val out + P * Q * c4 := by omega
    rw [hA, Nat.add_mul_mod_self_left, Nat.mod_eq_of_lt houtlt]


/-- the executable limb-level mpn_redc_n returns the limbs of the value-level `Powm.redc_n`, and the
    borrow of the wrap-around recovery stays inside `yp[0..2n)`. -/
theorem redcN_eq (rn : Nat) (up mp ip : List Nat) (hup : Limbs up) (hmp : Limbs mp)
    (hlen : up.length = 2 * mp.length) (hn : 1 ≤ mp.length)
    (hrn1 : mp.length ≤ rn) (hrn2 : rn < 2 * mp.length)
    (hip : (val ip * val mp) % B ^ mp.length = 1) :
    (redcN rn up mp ip).2 = true ∧
    (redcN rn up mp ip).1 = toLimbs mp.length (redc_n (val up) (val mp) mp.length (val ip)) := by
  set n := mp.length with hnd
  have hBnpos : 0 < B ^ n := Nat.pow_pos B_pos
  have hult : val up < B ^ n * B ^ n := by
    have := val_lt up hup
    rwa [hlen, two_mul, pow_add] at this
  -- x
  have hxv : val (toLimbs n (val (up.take n) * val ip)) = (val up % B ^ n * val ip) % B ^ n := by
    rw [val_toLimbs, val_take_mod up hup n]
  have hxlt : (val up % B ^ n * val ip) % B ^ n < B ^ n := Nat.mod_lt _ hBnpos
  have hlow : ((val up % B ^ n * val ip) % B ^ n * val mp) % B ^ n = val up % B ^ n := by
    have h1 : (val up % B ^ n * val ip) % B ^ n * val mp ≡ val up % B ^ n * val ip * val mp [MOD B ^ n] :=
      (Nat.mod_modEq _ _).mul_right _
    have h2 : val up % B ^ n * val ip * val mp = val up % B ^ n * (val ip * val mp) := by ring
    have h3 : val up % B ^ n * (val ip * val mp) ≡ val up % B ^ n * 1 [MOD B ^ n] := by
      apply Nat.ModEq.mul_left
      unfold Nat.ModEq
      rw [hip, Nat.mod_eq_of_lt]
      have : B ^ 1 ≤ B ^ n := Nat.pow_le_pow_right B_pos hn
      rw [pow_one] at this
      have : 2 ≤ B := by simp [B_eq]
      omega
    have h4 := h1.trans (h2 ▸ h3)
    unfold Nat.ModEq at h4
    rw [h4, Nat.mul_one, Nat.mod_mod]
  set x := (val up % B ^ n * val ip) % B ^ n with hxd
  have hM : 0 < B ^ rn - 1 := by
    have : B ^ 1 ≤ B ^ rn := Nat.pow_le_pow_right B_pos (by omega)
    rw [pow_one] at this
    have : 2 ≤ B := by simp [B_eq]
    omega
  have hyv : val (mulmodBnm1 rn (toLimbs n (val (up.take n) * val ip)) mp) = (x * val mp) % (B ^ rn - 1) := by
    unfold mulmodBnm1
    rw [hxv, val_toLimbs, Nat.mod_eq_of_lt]
    have := Nat.mod_lt (x * val mp) hM
    omega
  have hcore := redcNCore_spec rn up mp (mulmodBnm1 rn (toLimbs n (val (up.take n) * val ip)) mp) x
    hup hmp (by unfold mulmodBnm1; exact Limbs_toLimbs _ _) hlen (by unfold mulmodBnm1; exact toLimbs_length _ _)
    hn hrn1 hrn2 hxlt (by rw [hlow])
    (by rw [hyv, Nat.mod_mod]) (by intro h0; rw [hyv, h0, Nat.zero_mod])
  unfold redcN
  simp only [← hnd]
  refine ⟨hcore.1, ?_⟩
  rw [hcore.2]
  congr 1
  unfold redc_n
  simp only [← hxd]
  have : val up / B ^ n % B ^ n = val up / B ^ n := Nat.mod_eq_of_lt (Nat.div_lt_of_lt_mul hult)
  rw [this]

end Mpir.PowmL
