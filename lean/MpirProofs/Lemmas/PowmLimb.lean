/- Helper lemmas for the limb level of C08 (Mpir/Model/PowmLimb.lean): mpn_redc_n with the wrap-around
   recovery, mpn_redc_2, the memory models of mpn_powm / mpn_powlo. -/
import MpirProofs.Lemmas.Powm
import Mpir.Model.PowmLimb
namespace Mpir.PowmL
open Mpir Mpir.Powm

/-! ### the wrap-around recovery of mpn_redc_n, as arithmetic

`P = B^k`, `R = B^(rn-k)` (`k = 2n − rn`), so `B^rn = P·R`.  The full product is
`y = l0 + P·L + P·R·yh` (`l0 < P` the known low part, `L < R`, `yh < P` the part that wrapped).
`Y` is the residue returned by mulmod_bnm1. -/

/-- which representatives are possible: `Y = S` or `Y = S − (PR − 1)`. -/
theorem rep_cases (M Y S : Nat) (hM : 1 ≤ M) (hY : Y ≤ M) (hS : S < 2 * M) (h0 : S = 0 → Y = 0)
    (hc : Y % M = S % M) : ∃ e, e ≤ 1 ∧ Y + e * M = S := by
  by_cases hSM : S < M
  · rw [Nat.mod_eq_of_lt hSM] at hc
    by_cases hYM : Y < M
    · rw [Nat.mod_eq_of_lt hYM] at hc
      exact ⟨0, by omega, by omega⟩
    · have : Y = M := by omega
      rw [this, Nat.mod_self] at hc
      have := h0 hc.symm
      omega
  · have hS2 : S % M = S - M := by
      rw [Nat.mod_eq_sub_mod (by omega), Nat.mod_eq_of_lt (by omega)]
    rw [hS2] at hc
    by_cases hYM : Y < M
    · rw [Nat.mod_eq_of_lt hYM] at hc
      exact ⟨1, le_refl _, by omega⟩
    · have : Y = M := by omega
      rw [this, Nat.mod_self] at hc
      exact ⟨0, by omega, by omega⟩

/-- the recovery: from the residue `Y`, the low part `l0` and the kernels' outputs (`d`, `cy` of the
    subtraction, `V'`, `bw` of the decrement) the limbs `k..2n` of the product are exact and the borrow
    stops inside the area. -/
theorem wrap_recover (P R l0 L yh Y e d cy V' bw : Nat) (hP : 2 ≤ P) (hR : 1 ≤ R)
    (hl0 : l0 < P) (hL : L < R) (hyh : yh < P) (hY : Y < P * R) (he : e ≤ 1)
    (hrep : Y + e * (P * R - 1) = l0 + P * L + yh)
    (hexcl : ¬ (yh = P - 1 ∧ L = R - 1))
    (hd : d + l0 = Y % P + P * cy) (hdlt : d < P) (hcy : cy ≤ 1)
    (hV : V' + cy = Y / P + R * d + P * R * bw) (hV' : V' < P * R) (hbw : bw ≤ 1) :
    V' = L + R * yh ∧ bw = 0 := by
  have hPR : P * 1 ≤ P * R := Nat.mul_le_mul_left _ hR
  have hPL : P * L + P ≤ P * R := by
    have : P * (L + 1) ≤ P * R := Nat.mul_le_mul_left _ (by omega)
    rw [Nat.mul_add, Nat.mul_one] at this; exact this
  have hRy : R * yh + R ≤ P * R := by
    have : R * (yh + 1) ≤ R * P := Nat.mul_le_mul_left _ (by omega)
    rw [Nat.mul_add, Nat.mul_one, Nat.mul_comm R P] at this; exact this
  have hdm := Nat.div_add_mod Y P
  rcases Nat.eq_zero_or_pos e with h0 | h1
  · -- Y = l0 + yh + P·L
    subst h0
    simp only [Nat.zero_mul, Nat.add_zero] at hrep
    -- c = (l0 + yh) / P ∈ {0,1}
    have hA : Y % P = (l0 + yh) % P := by
      rw [hrep]
      have : l0 + P * L + yh = (l0 + yh) + P * L := by ring
      rw [this, Nat.add_mul_mod_self_left]
    have hH : Y / P = L + (l0 + yh) / P := by
      rw [hrep]
      have : l0 + P * L + yh = (l0 + yh) + P * L := by ring
      rw [this, Nat.add_mul_div_left _ _ (by omega : 0 < P)]; ring
    have hc := Nat.div_add_mod (l0 + yh) P
    have hcle : (l0 + yh) / P ≤ 1 := by
      have : (l0 + yh) / P < 2 := Nat.div_lt_of_lt_mul (by omega)
      omega
    rw [hA] at hd
    rw [hH] at hV
    generalize (l0 + yh) / P = c at *
    generalize (l0 + yh) % P = A at *
    have hcc : c = cy := by
      rcases Nat.lt_or_ge c cy with h | h
      · have : c = 0 := by omega
        have : cy = 1 := by omega
        subst_vars; omega
      · rcases Nat.eq_or_lt_of_le h with h | h
        · exact h.symm
        · have : c = 1 := by omega
          have : cy = 0 := by omega
          subst_vars; omega
    subst hcc
    have hdy : d = yh := by
      have : P * c + A = l0 + yh := hc
      omega
    subst hdy
    rcases Nat.eq_zero_or_pos bw with hb | hb
    · subst hb; constructor <;> omega
    · have : bw = 1 := by omega
      subst this; omega
  · -- Y + PR − 1 = l0 + yh + P·L
    have : e = 1 := by omega
    subst this
    simp only [Nat.one_mul] at hrep
    have hLR : L = R - 1 := by
      by_contra hne
      have hL2 : L + 2 ≤ R := by omega
      have : P * (L + 2) ≤ P * R := Nat.mul_le_mul_left _ hL2
      rw [Nat.mul_add] at this
      omega
    have hyh2 : yh + 2 ≤ P := by
      by_contra hne
      exact hexcl ⟨by omega, hLR⟩
    have hPL2 : P * L + P = P * R := by
      have : L + 1 = R := by omega
      rw [← this, Nat.mul_add, Nat.mul_one]
    have hYs : Y + P = l0 + yh + 1 := by omega
    have hYlt : Y < P := by omega
    rw [Nat.mod_eq_of_lt hYlt] at hd
    rw [Nat.div_eq_of_lt hYlt] at hV
    have hcy1 : cy = 1 := by
      by_contra hne
      have : cy = 0 := by omega
      subst this; omega
    subst hcy1
    have hdy : d = yh + 1 := by omega
    subst hdy
    have hRy2 : R * (yh + 1) + R ≤ P * R := by
      have : R * (yh + 2) ≤ R * P := Nat.mul_le_mul_left _ hyh2
      rw [Nat.mul_comm R P] at this
      have e2 : R * (yh + 2) = R * (yh + 1) + R := by ring
      omega
    have hRexp : R * (yh + 1) = R * yh + R := by ring
    rcases Nat.eq_zero_or_pos bw with hb | hb
    · subst hb; constructor <;> omega
    · have : bw = 1 := by omega
      subst this; omega


/-! ### list plumbing -/

theorem toLimbs_val : ∀ (l : List Nat), Limbs l → toLimbs l.length (val l) = l
  | [], _ => rfl
  | x :: xs, h => by
    have ⟨hx, hxs⟩ := Limbs_cons.mp h
    simp only [List.length_cons, toLimbs, val_cons]
    rw [Nat.add_mul_mod_self_left, Nat.mod_eq_of_lt hx, Nat.add_mul_div_left _ _ B_pos,
      Nat.div_eq_of_lt hx, Nat.zero_add, toLimbs_val xs hxs]

theorem eq_toLimbs (l : List Nat) (n v : Nat) (hl : Limbs l) (hn : l.length = n) (hv : val l = v) :
    l = toLimbs n v := by
  rw [← hn, ← hv, toLimbs_val l hl]

theorem sub_1_val (l : List Nat) (v : Nat) (hne : l ≠ []) (h : Limbs l) (hv : v < B) :
    val (sub_1 l v).1 + v = val l + B ^ l.length * (sub_1 l v).2 ∧
    (sub_1 l v).2 ≤ 1 ∧ Limbs (sub_1 l v).1 ∧ (sub_1 l v).1.length = l.length := by
  cases l with
  | nil => exact absurd rfl hne
  | cons x xs => exact sub_1_val' x xs v h hv


/-! ### mpn_redc_n on limb lists -/

/-- the product cannot have its wrapped part and the limbs `k..rn` all ones at once. -/
theorem wrap_excl (P Q x m L yh l0 : Nat) (hP : 2 ≤ P) (hQ : 1 ≤ Q) (hx : x < P * Q) (hm : m < P * Q)
    (hy : x * m = l0 + P * L + P * (Q * Q) * yh) : ¬ (yh = P - 1 ∧ L = Q * Q - 1) := by
  rintro ⟨h1, h2⟩
  have hxm : x * m ≤ (P * Q - 1) * (P * Q - 1) := Nat.mul_le_mul (by omega) (by omega)
  have hPQ : 1 ≤ P * Q := Nat.mul_pos (by omega) hQ
  have hQQ : 1 ≤ Q * Q := Nat.mul_pos hQ hQ
  -- (PQ−1)² + 2PQ = (PQ)² + 1
  have e1 : (P * Q - 1) * (P * Q - 1) + 2 * (P * Q) = (P * Q) * (P * Q) + 1 := by
    obtain ⟨t, ht⟩ : ∃ t, P * Q = t + 1 := ⟨P * Q - 1, by omega⟩
    rw [ht]; simp only [Nat.add_sub_cancel]; ring
  have e2 : P * L + P = P * (Q * Q) := by
    have : L + 1 = Q * Q := by omega
    rw [← this]; ring
  have e3 : P * (Q * Q) * yh + P * (Q * Q) = (P * Q) * (P * Q) := by
    have : yh + 1 = P := by omega
    calc P * (Q * Q) * yh + P * (Q * Q) = P * (Q * Q) * (yh + 1) := by ring
      _ = (P * Q) * (P * Q) := by rw [this]; ring
  have e4 : P ≤ P * Q := Nat.le_mul_of_pos_right _ hQ
  generalize x * m = y at *
  generalize (P * Q - 1) * (P * Q - 1) = sq at *
  generalize (P * Q) * (P * Q) = T2 at *
  generalize P * (Q * Q) * yh = a1 at *
  generalize P * (Q * Q) = W at *
  generalize P * L = a2 at *
  generalize P * Q = T at *
  omega

theorem redcNCore_spec (rn : Nat) (up mp yres : List Nat) (x : Nat)
    (hup : Limbs up) (hmp : Limbs mp) (hyr : Limbs yres)
    (hlen : up.length = 2 * mp.length) (hyl : yres.length = rn) (hn : 1 ≤ mp.length)
    (hrn1 : mp.length ≤ rn) (hrn2 : rn < 2 * mp.length)
    (hx : x < B ^ mp.length)
    (hlow : (x * val mp) % B ^ mp.length = val up % B ^ mp.length)
    (hrep : val yres % (B ^ rn - 1) = (x * val mp) % (B ^ rn - 1))
    (hzero : x * val mp = 0 → val yres = 0) :
    (redcNCore rn up mp yres).2 = true ∧
    (redcNCore rn up mp yres).1 = toLimbs mp.length
      (if val up / B ^ mp.length < x * val mp / B ^ mp.length
       then (val up / B ^ mp.length + B ^ mp.length - x * val mp / B ^ mp.length + val mp) % B ^ mp.length
       else val up / B ^ mp.length - x * val mp / B ^ mp.length) := by
  set n := mp.length with hnd
  set m := val mp with hmd
  set k := 2 * n - rn with hkd
  have hk1 : 1 ≤ k := by omega
  have hkn : k ≤ n := by omega
  set P := B ^ k with hPd
  set Q := B ^ (rn - n) with hQd
  have hBpos : 0 < B := B_pos
  have hB2 : 2 ≤ B := by simp [B_eq]
  have hPpos : 0 < P := Nat.pow_pos hBpos
  have hQpos : 0 < Q := Nat.pow_pos hBpos
  have hP2 : 2 ≤ P := by
    have : B ^ 1 ≤ B ^ k := Nat.pow_le_pow_right hBpos hk1
    rw [pow_one] at this; omega
  have hBn : B ^ n = P * Q := by rw [hPd, hQd, ← pow_add]; congr 1; omega
  have hR : B ^ (rn - k) = Q * Q := by rw [hQd, ← pow_add]; congr 1; omega
  have hBrn : B ^ rn = P * (Q * Q) := by rw [hPd, ← hR, ← pow_add]; congr 1; omega
  have hmlt : m < P * Q := by rw [← hBn]; exact val_lt mp hmp
  rw [hBn] at hx hlow
  -- decomposition of the product
  set y := x * m with hyd
  have hyP := Nat.div_add_mod y P
  have hyQ := Nat.div_add_mod (y / P) (Q * Q)
  obtain ⟨l0, hl0d⟩ : ∃ l0, l0 = y % P := ⟨_, rfl⟩
  obtain ⟨L, hLd⟩ : ∃ L, L = y / P % (Q * Q) := ⟨_, rfl⟩
  obtain ⟨yh, hyhd⟩ : ∃ yh, yh = y / P / (Q * Q) := ⟨_, rfl⟩
  rw [← hl0d] at hyP
  rw [← hLd, ← hyhd] at hyQ
  have hQQpos : 0 < Q * Q := Nat.mul_pos hQpos hQpos
  have hLlt : L < Q * Q := by rw [hLd]; exact Nat.mod_lt _ hQQpos
  have hl0lt : l0 < P := by rw [hl0d]; exact Nat.mod_lt _ hPpos
  have hydec : y = l0 + P * L + P * (Q * Q) * yh := by
    have : P * (y / P) = P * (Q * Q * yh + L) := by rw [hyQ]
    rw [Nat.mul_add] at this
    have e : P * (Q * Q * yh) = P * (Q * Q) * yh := by ring
    omega
  have hylt : y < (P * Q) * (P * Q) := Nat.mul_lt_mul'' hx hmlt
  have hyhlt : yh < P := by
    rw [hyhd, Nat.div_div_eq_div_mul]
    apply Nat.div_lt_of_lt_mul
    have : P * (Q * Q) * P = (P * Q) * (P * Q) := by ring
    rw [this]; exact hylt
  have hexcl := wrap_excl P Q x m L yh l0 hP2 hQpos hx hmlt hydec
  -- the low k limbs of y are those of up
  have hl0u : l0 = val (up.take k) := by
    rw [← val_take_mod up hup k, hl0d]
    have h1 : y % (P * Q) % P = y % P := Nat.mod_mul_right_mod _ _ _
    have h2 : val up % (P * Q) % P = val up % P := Nat.mod_mul_right_mod _ _ _
    rw [← h1, hlow, h2]
  -- the residue
  set Y := val yres with hYd
  have hYlt : Y < P * (Q * Q) := by rw [← hBrn, ← hyl]; exact val_lt yres hyr
  obtain ⟨e, he1, hrepe⟩ : ∃ e, e ≤ 1 ∧ Y + e * (P * (Q * Q) - 1) = l0 + P * L + yh := by
    have hM1 : 1 ≤ P * (Q * Q) - 1 := by
      have : P * 1 ≤ P * (Q * Q) := Nat.mul_le_mul_left _ hQQpos
      omega
    have hPL : P * L + P ≤ P * (Q * Q) := by
      have : P * (L + 1) ≤ P * (Q * Q) := Nat.mul_le_mul_left _ (by omega)
      rw [Nat.mul_add, Nat.mul_one] at this; exact this
    have hS0 : l0 + P * L + yh = 0 → Y = 0 := by
      intro h
      apply hzero
      have : yh = 0 := by omega
      rw [hydec, this, Nat.mul_zero]; omega
    have hcong : Y % (P * (Q * Q) - 1) = (l0 + P * L + yh) % (P * (Q * Q) - 1) := by
      rw [hBrn] at hrep
      rw [hrep, hydec]
      have e1 : P * (Q * Q) * yh = (P * (Q * Q) - 1) * yh + yh := by
        obtain ⟨t, ht⟩ : ∃ t, P * (Q * Q) = t + 1 := ⟨P * (Q * Q) - 1, by omega⟩
        rw [ht]; simp only [Nat.add_sub_cancel]; ring
      rw [e1]
      have e2 : l0 + P * L + ((P * (Q * Q) - 1) * yh + yh) = (l0 + P * L + yh) + (P * (Q * Q) - 1) * yh := by ring
      rw [e2, Nat.add_mul_mod_self_left]
    have hS2 : l0 + P * L + yh < 2 * (P * (Q * Q) - 1) := by
      -- S ≤ PQ² + P − 2, equality to 2(PQ²−1) only in the excluded case
      by_contra hge
      apply hexcl
      have hPle : P * 1 ≤ P * (Q * Q) := Nat.mul_le_mul_left _ hQQpos
      constructor
      · omega
      · by_contra hLne
        have hL2 : L + 2 ≤ Q * Q := by omega
        have : P * (L + 2) ≤ P * (Q * Q) := Nat.mul_le_mul_left _ hL2
        rw [Nat.mul_add] at this
        omega
    exact rep_cases _ Y _ hM1 (by omega) hS2 hS0 hcong
  -- now run the code
  unfold redcNCore
  have hcond : ¬ (2 * n ≤ rn) := by omega
  simp only [hcond, if_false, sub_n, ← hnd, ← hkd]
  -- first subtraction
  have htk1 : (yres.take k).length = k := by rw [List.length_take]; omega
  have htk2 : (up.take k).length = k := by rw [List.length_take]; omega
  obtain ⟨sv, sc, sL, sn⟩ := subNC_val (yres.take k) (up.take k) 0 (Limbs_take hyr k) (Limbs_take hup k)
    (by rw [htk1, htk2]) (by omega)
  rw [htk1] at sv sn
  rw [← val_take_mod yres hyr k, ← hl0u] at sv
  generalize subNC (yres.take k) (up.take k) 0 = r1 at *
  obtain ⟨d, cy⟩ := r1
  simp only at sv sc sL sn ⊢
  have hdlt : val d < P := by have := val_lt d sL; rwa [sn] at this
  -- the decrement
  have hdrop : (yres ++ d).drop k = yres.drop k ++ d := List.drop_append_of_le_length (by omega)
  have htake : (yres ++ d).take k = yres.take k := List.take_append_of_le_length (by omega)
  rw [hdrop, htake]
  have hsegL : Limbs (yres.drop k ++ d) := Limbs_append.mpr ⟨Limbs_drop hyr k, sL⟩
  have hseglen : (yres.drop k ++ d).length = rn := by
    rw [List.length_append, List.length_drop, sn]; omega
  have hsegne : yres.drop k ++ d ≠ [] := by
    intro h; rw [h] at hseglen; simp at hseglen; omega
  obtain ⟨dv, dc, dL, dn⟩ := sub_1_val (yres.drop k ++ d) cy hsegne hsegL (by omega)
  rw [hseglen] at dv dn
  rw [val_append, List.length_drop, hyl, hR, ← val_drop_div yres hyr k, hBrn] at dv
  generalize sub_1 (yres.drop k ++ d) cy = r2 at *
  obtain ⟨seg, bw⟩ := r2
  simp only at dv dc dL dn ⊢
  have hseglt : val seg < P * (Q * Q) := by have := val_lt seg dL; rwa [dn, hBrn] at this
  obtain ⟨hV, hbw⟩ := wrap_recover P (Q * Q) l0 L (yh) Y e (val d) cy (val seg) bw hP2 hQQpos hl0lt hLlt hyhlt
    hYlt he1 hrepe hexcl (by omega) hdlt sc (by omega) hseglt dc
  subst hbw
  -- the high half of y
  have hhi : ((yres.take k ++ seg).drop n).take n = seg.drop (n - k) := by
    have h1 : (yres.take k ++ seg).drop n = seg.drop (n - k) := by
      rw [List.drop_append, htk1]
      have : (yres.take k).drop n = [] := List.drop_eq_nil_of_le (by omega)
      rw [this, List.nil_append]
    rw [h1, List.take_of_length_le]
    rw [List.length_drop, dn]; omega
  rw [hhi]
  have hhv : val (seg.drop (n - k)) = y / (P * Q) := by
    rw [← val_drop_div seg dL, hV]
    have h1 : B ^ (n - k) = Q := by rw [hQd]; congr 1; omega
    rw [h1]
    have h2 : L + Q * Q * yh = y / P := by rw [← hyQ]; ring
    rw [h2, Nat.div_div_eq_div_mul]
  have hhL : Limbs (seg.drop (n - k)) := Limbs_drop dL _
  have hhn : (seg.drop (n - k)).length = n := by rw [List.length_drop, dn]; omega
  have hun : (up.drop n).length = n := by rw [List.length_drop]; omega
  have huv : val (up.drop n) = val up / (P * Q) := by rw [← val_drop_div up hup n, hBn]
  obtain ⟨tv, tc, tL, tn⟩ := subNC_val (up.drop n) (seg.drop (n - k)) 0 (Limbs_drop hup n) hhL (by rw [hun, hhn]) (by omega)
  rw [hun, hhv, huv, hBn] at tv
  rw [hun] at tn
  generalize subNC (up.drop n) (seg.drop (n - k)) 0 = r3 at *
  obtain ⟨rp, cy2⟩ := r3
  simp only at tv tc tL tn ⊢
  have hrplt : val rp < P * Q := by have := val_lt rp tL; rwa [tn, hBn] at this
  have huhlt : val up / (P * Q) < P * Q := by
    apply Nat.div_lt_of_lt_mul
    have := val_lt up hup
    rw [hlen, two_mul, pow_add, hBn] at this; exact this
  refine ⟨by simp, ?_⟩
  rw [hBn]
  generalize val up / (P * Q) = uh at *
  generalize y / (P * Q) = yq at *
  by_cases hc : cy2 = 0
  · subst hc
    have hlt : ¬ uh < yq := by omega
    simp only [hlt, if_false, show ((0 : Nat) != 0) = false from rfl, Bool.false_eq_true]
    exact eq_toLimbs rp n _ tL tn (by omega)
  · have hc1 : cy2 = 1 := by omega
    subst hc1
    have hlt : uh < yq := by
      by_contra hge
      have : yq ≤ uh := by omega
      omega
    simp only [hlt, if_true, show ((1 : Nat) != 0) = true from rfl, add_n]
    obtain ⟨av, ac, aL, an⟩ := addNC_val rp mp 0 tL hmp (by rw [tn]) (by omega)
    rw [tn, hBn] at av
    rw [tn] at an
    generalize addNC rp mp 0 = r4 at *
    obtain ⟨out, c4⟩ := r4
    simp only at av ac aL an ⊢
    have houtlt : val out < P * Q := by have := val_lt out aL; rwa [an, hBn] at this
    apply eq_toLimbs out n _ aL an
    have hA : uh + P * Q - yq + m = val out + P * Q * c4 := by omega
    rw [hA, Nat.add_mul_mod_self_left, Nat.mod_eq_of_lt houtlt]


/-- the executable limb-level mpn_redc_n returns the limbs of the value-level `Powm.redc_n`, and the
    borrow of the wrap-around recovery stays inside `yp[0..2n)`. -/
theorem redcN_eq (rn : Nat) (up mp ip : List Nat) (hup : Limbs up) (hmp : Limbs mp)
    (hlen : up.length = 2 * mp.length) (hn : 1 ≤ mp.length)
    (hrn1 : mp.length ≤ rn) (hrn2 : rn < 2 * mp.length)
    (hip : (val ip * val mp) % B ^ mp.length = 1) :
    (redcN rn up mp ip).2 = true ∧
    (redcN rn up mp ip).1 = toLimbs mp.length (redc_n (val up) (val mp) mp.length (val ip)) := by
  set n := mp.length with hnd
  have hBnpos : 0 < B ^ n := Nat.pow_pos B_pos
  have hult : val up < B ^ n * B ^ n := by
    have := val_lt up hup
    rwa [hlen, two_mul, pow_add] at this
  -- x
  have hxv : val (toLimbs n (val (up.take n) * val ip)) = (val up % B ^ n * val ip) % B ^ n := by
    rw [val_toLimbs, val_take_mod up hup n]
  have hxlt : (val up % B ^ n * val ip) % B ^ n < B ^ n := Nat.mod_lt _ hBnpos
  have hlow : ((val up % B ^ n * val ip) % B ^ n * val mp) % B ^ n = val up % B ^ n := by
    have h1 : (val up % B ^ n * val ip) % B ^ n * val mp ≡ val up % B ^ n * val ip * val mp [MOD B ^ n] :=
      (Nat.mod_modEq _ _).mul_right _
    have h2 : val up % B ^ n * val ip * val mp = val up % B ^ n * (val ip * val mp) := by ring
    have h3 : val up % B ^ n * (val ip * val mp) ≡ val up % B ^ n * 1 [MOD B ^ n] := by
      apply Nat.ModEq.mul_left
      unfold Nat.ModEq
      rw [hip, Nat.mod_eq_of_lt]
      have : B ^ 1 ≤ B ^ n := Nat.pow_le_pow_right B_pos hn
      rw [pow_one] at this
      have : 2 ≤ B := by simp [B_eq]
      omega
    have h4 := h1.trans (h2 ▸ h3)
    unfold Nat.ModEq at h4
    rw [h4, Nat.mul_one, Nat.mod_mod]
  set x := (val up % B ^ n * val ip) % B ^ n with hxd
  have hM : 0 < B ^ rn - 1 := by
    have : B ^ 1 ≤ B ^ rn := Nat.pow_le_pow_right B_pos (by omega)
    rw [pow_one] at this
    have : 2 ≤ B := by simp [B_eq]
    omega
  have hyv : val (mulmodBnm1 rn (toLimbs n (val (up.take n) * val ip)) mp) = (x * val mp) % (B ^ rn - 1) := by
    unfold mulmodBnm1
    rw [hxv, val_toLimbs, Nat.mod_eq_of_lt]
    have := Nat.mod_lt (x * val mp) hM
    omega
  have hcore := redcNCore_spec rn up mp (mulmodBnm1 rn (toLimbs n (val (up.take n) * val ip)) mp) x
    hup hmp (by unfold mulmodBnm1; exact Limbs_toLimbs _ _) hlen (by unfold mulmodBnm1; exact toLimbs_length _ _)
    hn hrn1 hrn2 hxlt (by rw [hlow])
    (by rw [hyv, Nat.mod_mod]) (by intro h0; rw [hyv, h0, Nat.zero_mod])
  unfold redcN
  simp only [← hnd]
  refine ⟨hcore.1, ?_⟩
  rw [hcore.2]
  congr 1
  unfold redc_n
  simp only [← hxd]
  have : val up / B ^ n % B ^ n = val up / B ^ n := Nat.mod_eq_of_lt (Nat.div_lt_of_lt_mul hult)
  rw [this]


/-! ### memory areas -/

theorem store_length (a : List Nat) (off : Nat) (d : List Nat) : (store a off d).1.length = a.length := by
  unfold store
  split
  · simp only [List.length_append, List.length_take, List.length_drop]; omega
  · rfl

theorem store_zero (a d : List Nat) (h : d.length ≤ a.length) : store a 0 d = (d ++ a.drop d.length, true) := by
  unfold store
  simp [h]

theorem load_zero_append (d r : List Nat) (k : Nat) (hk : k = d.length) : load (d ++ r) 0 k = (d, true) := by
  unfold load
  subst hk
  simp

/-- `MPN_COPY (tp, rp, n); MPN_ZERO (tp + n, n)` then reading `tp[0..2n)`. -/
theorem store_pad (tp r : List Nat) (n : Nat) (hr : r.length = n) (h : 2 * n ≤ tp.length) :
    store tp 0 r = (r ++ tp.drop n, true) ∧
    store (r ++ tp.drop n) n (zeros n) = (r ++ zeros n ++ tp.drop (2 * n), true) ∧
    load (r ++ zeros n ++ tp.drop (2 * n)) 0 (2 * n) = (r ++ zeros n, true) := by
  refine ⟨?_, ?_, ?_⟩
  · rw [store_zero tp r (by omega), hr]
  · have hz : (zeros n).length = n := zeros_length n
    have h1 : n + n ≤ (r ++ tp.drop n).length := by
      simp only [List.length_append, List.length_drop, hr]; omega
    have h2 : (r ++ tp.drop n).take n = r := by
      rw [List.take_append_of_le_length (by omega), List.take_of_length_le (by omega)]
    have h3 : (r ++ tp.drop n).drop (n + n) = tp.drop (2 * n) := by
      rw [List.drop_append, hr]
      have : r.drop (n + n) = [] := List.drop_eq_nil_of_le (by omega)
      rw [this, List.nil_append, List.drop_drop]; congr 1; omega
    unfold store
    rw [hz, if_pos h1, h2, h3]
  · rw [List.append_assoc]
    have := load_zero_append (r ++ zeros n) (tp.drop (2 * n)) (2 * n) (by simp [zeros_length, hr]; omega)
    rw [List.append_assoc] at this
    exact this

/-! ### the limb-level reduction of mpn_powm -/

theorem reduceL_lt (thr : Nat) (nextSize : Nat → Nat) (mp u : List Nat) (h : mp.length < thr) :
    reduceL thr nextSize mp (mipOf thr mp) u =
      (redc_1 u mp ((B - modlimb_invert (mp.headD 1)) % B), true) := by
  unfold reduceL mipOf
  rw [if_pos h, if_pos h, List.headD_cons]

theorem reduceL_ge (thr : Nat) (nextSize : Nat → Nat) (mp u : List Nat) (h : ¬ mp.length < thr) :
    reduceL thr nextSize mp (mipOf thr mp) u =
      redcN (nextSize mp.length) u mp (toLimbs mp.length (binvert (val mp) mp.length)) := by
  unfold reduceL mipOf
  rw [if_neg h, if_neg h]

theorem reduceL_spec (thr : Nat) (nextSize : Nat → Nat) (mp : List Nat) (hmp : Limbs mp) (hn : 1 ≤ mp.length)
    (hodd : val mp % 2 = 1)
    (hns : thr ≤ mp.length → mp.length ≤ nextSize mp.length ∧ nextSize mp.length < 2 * mp.length)
    (u : List Nat) (hu : Limbs u) (hul : u.length = 2 * mp.length) :
    (reduceL thr nextSize mp (mipOf thr mp) u).2 = true ∧
    Limbs (reduceL thr nextSize mp (mipOf thr mp) u).1 ∧
    (reduceL thr nextSize mp (mipOf thr mp) u).1.length = mp.length ∧
    (val (reduceL thr nextSize mp (mipOf thr mp) u).1 * B ^ mp.length ≡ val u [MOD val mp]) ∧
    (val u < B ^ mp.length → val (reduceL thr nextSize mp (mipOf thr mp) u).1 ≤ val mp) := by
  have hult : val u < B ^ mp.length * B ^ mp.length := by
    have := val_lt u hu
    rwa [hul, two_mul, pow_add] at this
  have hmlt := val_lt mp hmp
  by_cases hthr : mp.length < thr
  · have hdef : reduceL thr nextSize mp (mipOf thr mp) u =
        (redc_1 u mp ((B - modlimb_invert (mp.headD 1)) % B), true) := reduceL_lt thr nextSize mp u hthr
    rw [hdef]
    have hred := reducer_spec thr mp hmp hn hodd (val u) hult
    have hreq : reducer thr mp (val u) = val (redc_1 u mp ((B - modlimb_invert (mp.headD 1)) % B)) := by
      unfold reducer
      simp only [hthr, if_true]
      rw [← hul, toLimbs_val u hu]
    rw [hreq] at hred
    have hm0 : mp.headD 0 % 2 = 1 := by rw [← val_mod_two]; exact hodd
    have hhd : mp.headD 1 = mp.headD 0 := by
      cases mp with
      | nil => simp at hn
      | cons a l => rfl
    have hinv := neg_modlimb_invert_spec (mp.headD 0) hm0
    obtain ⟨_, _, _, _, _, hL, hlen'⟩ := redc_1_identity u mp ((B - modlimb_invert (mp.headD 1)) % B) hn hu hmp hul
      (by rw [hhd]; exact hinv)
    exact ⟨rfl, hL, hlen', hred.2.1, hred.2.2⟩
  · have hge : thr ≤ mp.length := by omega
    obtain ⟨hr1, hr2⟩ := hns hge
    have hBn1 : 1 < B ^ mp.length := by
      have h1 : B ^ 1 ≤ B ^ mp.length := Nat.pow_le_pow_right B_pos hn
      rw [pow_one] at h1
      have hB : 1 < B := by simp [B_eq]
      omega
    have hipv : (val (toLimbs mp.length (binvert (val mp) mp.length)) * val mp) % B ^ mp.length = 1 := by
      rw [val_toLimbs, Nat.mod_mul_mod]
      exact binvert_spec (val mp) mp.length hn hodd
    have hdef : reduceL thr nextSize mp (mipOf thr mp) u =
        redcN (nextSize mp.length) u mp (toLimbs mp.length (binvert (val mp) mp.length)) :=
      reduceL_ge thr nextSize mp u hthr
    rw [hdef]
    obtain ⟨hok, hval⟩ := redcN_eq (nextSize mp.length) u mp _ hu hmp hul hn hr1 hr2 hipv
    obtain ⟨s1, s2, s3⟩ := redc_n_spec (val u) (val mp) mp.length
      (val (toLimbs mp.length (binvert (val mp) mp.length))) (by omega) hmlt hult
      (by rw [hipv, Nat.mod_eq_of_lt hBn1])
    rw [hval]
    refine ⟨hok, Limbs_toLimbs _ _, toLimbs_length _ _, ?_, ?_⟩
    · rw [val_toLimbs_lt _ _ s1]; exact s2
    · intro h; rw [val_toLimbs_lt _ _ s1]; exact s3 h

/-- what a reduction must satisfy (the conclusion of `reduceL_spec`). -/
def RedOK (red : List Nat → List Nat × Bool) (mp : List Nat) : Prop :=
  ∀ u, Limbs u → u.length = 2 * mp.length →
    (red u).2 = true ∧ Limbs (red u).1 ∧ (red u).1.length = mp.length ∧
    (val (red u).1 * B ^ mp.length ≡ val u [MOD val mp]) ∧
    (val u < B ^ mp.length → val (red u).1 ≤ val mp)

theorem mulRed_eq (red : List Nat → List Nat × Bool) (n : Nat) (tp a b : List Nat) (h : 2 * n ≤ tp.length) :
    mulRed red n tp a b =
      ((red (toLimbs (2 * n) (val a * val b))).1, toLimbs (2 * n) (val a * val b) ++ tp.drop (2 * n),
       (red (toLimbs (2 * n) (val a * val b))).2) := by
  unfold mulRed
  have hl : (toLimbs (2 * n) (val a * val b)).length = 2 * n := toLimbs_length _ _
  rw [store_zero _ _ (by rw [hl]; exact h)]
  simp only [hl]
  rw [load_zero_append _ _ _ hl.symm]
  simp

theorem mulRed_spec (red : List Nat → List Nat × Bool) (mp : List Nat) (hred : RedOK red mp)
    (tp a b : List Nat) (h : 2 * mp.length ≤ tp.length) (ha : Limbs a) (hb : Limbs b)
    (hal : a.length = mp.length) (hbl : b.length = mp.length) :
    (mulRed red mp.length tp a b).2.2 = true ∧ (mulRed red mp.length tp a b).2.1.length = tp.length ∧
    Limbs (mulRed red mp.length tp a b).1 ∧ (mulRed red mp.length tp a b).1.length = mp.length ∧
    (val (mulRed red mp.length tp a b).1 * B ^ mp.length ≡ val a * val b [MOD val mp]) := by
  rw [mulRed_eq red mp.length tp a b h]
  simp only
  have hlt : val a * val b < B ^ (2 * mp.length) := by
    have h1 := val_lt a ha
    have h2 := val_lt b hb
    rw [hal] at h1; rw [hbl] at h2
    rw [two_mul, pow_add]; exact Nat.mul_lt_mul'' h1 h2
  obtain ⟨r1, r2, r3, r4, _⟩ := hred (toLimbs (2 * mp.length) (val a * val b)) (Limbs_toLimbs _ _) (toLimbs_length _ _)
  rw [val_toLimbs_lt _ _ hlt] at r4
  refine ⟨r1, ?_, r2, r3, r4⟩
  rw [List.length_append, toLimbs_length, List.length_drop]; omega


/-! ### the table of odd powers and the window loop on memory -/

/-- `r` holds `b^k` in Montgomery form: n proper limbs, `val r ≡ b^k·B^n (mod m)`. -/
def Good (b : Nat) (mp : List Nat) (r : List Nat) (k : Nat) : Prop :=
  Limbs r ∧ r.length = mp.length ∧ val r ≡ b ^ k * B ^ mp.length [MOD val mp]

theorem good_mul (red : List Nat → List Nat × Bool) (mp : List Nat) (hred : RedOK red mp) (b : Nat)
    (hcop : Nat.gcd (val mp) (B ^ mp.length) = 1)
    (tp x y : List Nat) (j k : Nat) (h : 2 * mp.length ≤ tp.length) (hx : Good b mp x j) (hy : Good b mp y k) :
    (mulRed red mp.length tp x y).2.2 = true ∧ (mulRed red mp.length tp x y).2.1.length = tp.length ∧
    Good b mp (mulRed red mp.length tp x y).1 (j + k) := by
  obtain ⟨h1, h2, h3, h4, h5⟩ := mulRed_spec red mp hred tp x y h hx.1 hy.1 hx.2.1 hy.2.1
  refine ⟨h1, h2, h3, h4, ?_⟩
  have e3 : val x * val y ≡ (b ^ j * B ^ mp.length) * (b ^ k * B ^ mp.length) [MOD val mp] := hx.2.2.mul hy.2.2
  have e4 : (b ^ j * B ^ mp.length) * (b ^ k * B ^ mp.length) = (b ^ (j + k) * B ^ mp.length) * B ^ mp.length := by
    rw [pow_add]; ring
  rw [e4] at e3
  exact Nat.ModEq.cancel_right_of_coprime hcop (h5.trans e3)

theorem getD_set_list (pp : List (List Nat)) (k i : Nat) (r d : List Nat) (hk : k < pp.length) :
    (pp.set k r).getD i d = if i = k then r else pp.getD i d := by
  rw [List.getD_eq_getElem?_getD, List.getD_eq_getElem?_getD, List.getElem?_set]
  by_cases h : k = i
  · subst h; simp [hk]
  · have : ¬ i = k := fun e => h e.symm
    simp [h, this]

theorem inPP_of_lt (n w i : Nat) (h : i < 2 ^ (w - 1)) : inPP n w i = true := by
  unfold inPP
  rw [Nat.shiftLeft_eq]
  have : n * (i + 1) ≤ n * 2 ^ (w - 1) := Nat.mul_le_mul_left _ h
  rw [Nat.mul_add, Nat.mul_one] at this
  simpa using this

theorem precomp_spec (red : List Nat → List Nat × Bool) (mp : List Nat) (hred : RedOK red mp) (b w : Nat)
    (hcop : Nat.gcd (val mp) (B ^ mp.length) = 1) (b2 : List Nat) (hb2 : Good b mp b2 2) :
    ∀ (c j : Nat) (pp : List (List Nat)) (tp : List Nat) (ok : Bool),
      pp.length = 2 ^ (w - 1) → j + c + 1 = 2 ^ (w - 1) → 2 * mp.length ≤ tp.length → ok = true →
      (∀ i, i ≤ j → Good b mp (pp.getD i (zeros mp.length)) (2 * i + 1)) →
      (precomp red mp.length w b2 c j pp tp ok).2.2 = true ∧
      (precomp red mp.length w b2 c j pp tp ok).2.1.length = tp.length ∧
      ∀ i, i < 2 ^ (w - 1) → Good b mp ((precomp red mp.length w b2 c j pp tp ok).1.getD i (zeros mp.length)) (2 * i + 1) := by
  intro c
  induction c with
  | zero =>
    intro j pp tp ok hpl hj htp hok hgood
    simp only [precomp]
    exact ⟨hok, trivial, fun i hi => hgood i (by omega)⟩
  | succ c ih =>
    intro j pp tp ok hpl hj htp hok hgood
    simp only [precomp]
    obtain ⟨m1, m2, m3⟩ := good_mul red mp hred b hcop tp (pp.getD j (zeros mp.length)) b2 (2 * j + 1) 2 htp
      (hgood j (le_refl _)) hb2
    have hin1 := inPP_of_lt mp.length w j (by omega)
    have hin2 := inPP_of_lt mp.length w (j + 1) (by omega)
    have hok' : (ok && (mulRed red mp.length tp (pp.getD j (zeros mp.length)) b2).2.2 && inPP mp.length w j
        && inPP mp.length w (j + 1)) = true := by
      rw [hok, m1, hin1, hin2]; rfl
    obtain ⟨r1, r2, r3⟩ := ih (j + 1) (pp.set (j + 1) (mulRed red mp.length tp (pp.getD j (zeros mp.length)) b2).1)
      (mulRed red mp.length tp (pp.getD j (zeros mp.length)) b2).2.1 _
      (by rw [List.length_set]; exact hpl) (by omega) (by rw [m2]; exact htp) hok'
      (by
        intro i hi
        rw [getD_set_list _ _ _ _ _ (by omega)]
        by_cases hij : i = j + 1
        · simp only [hij, if_true]
          have e : 2 * j + 1 + 2 = 2 * (j + 1) + 1 := by ring
          rw [← e]; exact m3
        · simp only [hij, if_false]
          exact hgood i (by omega))
    exact ⟨r1, by rw [r2, m2], r3⟩


theorem cmp_ge_iff (r mp : List Nat) (hr : Limbs r) (hmp : Limbs mp) (hl : r.length = mp.length) :
    cmp r mp ≥ 0 ↔ val mp ≤ val r := by
  unfold cmp
  have h := cmpRev_spec r.reverse mp.reverse (Limbs_reverse hr) (Limbs_reverse hmp) (by simp [hl])
  simp only [List.reverse_reverse] at h
  rcases h with ⟨h1, h2⟩ | ⟨h1, h2⟩ | ⟨h1, h2⟩ <;> rw [h1] <;> constructor <;> intro h3 <;> omega

/-- powm.c:559-577 on a state that holds `b^e` in Montgomery form. -/
theorem powmFinish_spec (red : List Nat → List Nat × Bool) (mp : List Nat) (hred : RedOK red mp) (hmp : Limbs mp)
    (hn : 1 ≤ mp.length) (b e : Nat) (hcop : Nat.gcd (val mp) (B ^ mp.length) = 1) (hmpos : 0 < val mp)
    (s : St) (hok : s.ok = true) (htp : 2 * mp.length ≤ s.tp.length) (hg : Good b mp s.rp e) :
    (powmFinish red mp s).2 = true ∧ (powmFinish red mp s).1 = toLimbs mp.length (b ^ e % val mp) := by
  obtain ⟨gL, gn, gc⟩ := hg
  obtain ⟨p1, p2, p3⟩ := store_pad s.tp s.rp mp.length gn htp
  unfold powmFinish
  simp only [p1, p2, p3, hok, Bool.true_and]
  have hu : Limbs (s.rp ++ zeros mp.length) := Limbs_append.mpr ⟨gL, Limbs_zeros _⟩
  have hul : (s.rp ++ zeros mp.length).length = 2 * mp.length := by
    rw [List.length_append, zeros_length, gn]; omega
  have huv : val (s.rp ++ zeros mp.length) = val s.rp := val_append_zeros _ _
  have hrlt : val s.rp < B ^ mp.length := by have := val_lt s.rp gL; rwa [gn] at this
  obtain ⟨r1, r2, r3, r4, r5⟩ := hred (s.rp ++ zeros mp.length) hu hul
  rw [huv] at r4 r5
  have hle := r5 hrlt
  have hc : val (red (s.rp ++ zeros mp.length)).1 ≡ b ^ e [MOD val mp] :=
    Nat.ModEq.cancel_right_of_coprime hcop (r4.trans gc)
  refine ⟨by rw [r1], ?_⟩
  generalize (red (s.rp ++ zeros mp.length)).1 = r at *
  by_cases hge : cmp r mp ≥ 0
  · simp only [hge, if_true]
    have hvm : val r = val mp := by have := (cmp_ge_iff r mp r2 hmp r3).mp hge; omega
    obtain ⟨sv, sc, sL, sn⟩ := subNC_val r mp 0 r2 hmp r3 (by omega)
    have hz : b ^ e % val mp = 0 := by
      unfold Nat.ModEq at hc
      rw [← hc, hvm, Nat.mod_self]
    rw [hz]
    apply eq_toLimbs _ _ _ sL (by rw [sn, r3])
    have hlt := val_lt _ sL
    rw [sn, r3] at hlt
    rw [r3] at sv
    by_cases hb : (subNC r mp 0).2 = 0
    · rw [hb] at sv; omega
    · have : (subNC r mp 0).2 = 1 := by omega
      rw [this] at sv; omega
  · simp only [hge, if_false]
    have hlt : val r < val mp := by
      by_contra h
      exact hge ((cmp_ge_iff r mp r2 hmp r3).mpr (by omega))
    apply eq_toLimbs _ _ _ r2 r3
    unfold Nat.ModEq at hc
    rw [← hc, Nat.mod_eq_of_lt hlt]

/-- **mpn_powm on memory**: for a scratch area of at least `MAX (mpn_binvert_itch (n), 2n)` limbs
    (powm.c:157) no access leaves `tp` or the table `pp`, the wrap-around recovery of every redc_n call
    stays in its area, and `rp[0..n)` holds `b^e mod m`. -/
theorem mpnPowmMem_correct (thr : Nat) (nextSize binvItch : Nat → Nat) (itch : Nat) (bp ep mp : List Nat)
    (hep : Norm ep) (hne : ep ≠ []) (hmp : Limbs mp) (hn : 1 ≤ mp.length) (hodd : val mp % 2 = 1)
    (hns : thr ≤ mp.length → mp.length ≤ nextSize mp.length ∧ nextSize mp.length < 2 * mp.length)
    (hitch : 2 * mp.length ≤ itch) (hbinv : thr ≤ mp.length → binvItch mp.length ≤ itch) :
    (mpnPowmMem thr nextSize binvItch itch bp ep mp).2 = true ∧
    (mpnPowmMem thr nextSize binvItch itch bp ep mp).1 = toLimbs mp.length (val bp ^ val ep % val mp) := by
  set m := val mp with hmd
  set b := val bp with hbd
  set red := reduceL thr nextSize mp (mipOf thr mp) with hredd
  have hred : RedOK red mp := fun u hu hul => reduceL_spec thr nextSize mp hmp hn hodd hns u hu hul
  have hmpos : 0 < m := by omega
  have hmlt : m < B ^ mp.length := val_lt mp hmp
  have hcop : Nat.gcd m (B ^ mp.length) = 1 := by
    have : B ^ mp.length = 2 ^ (64 * mp.length) := by rw [B_eq_two_pow, ← pow_mul]
    rw [this]; exact (coprime_two_pow_odd _ m hodd).symm
  obtain ⟨hw1, hw63⟩ := win_size_bounds (sizeinbase2 ep)
  set w := win_size (sizeinbase2 ep) with hw
  have h2w : 1 ≤ 2 ^ (w - 1) := Nat.one_le_two_pow
  -- the flag of mpn_binvert
  have hok0 : (if mp.length < thr then true else decide (binvItch mp.length ≤ itch)) = true := by
    by_cases h : mp.length < thr
    · simp [h]
    · simp only [h, if_false, decide_eq_true_eq]; exact hbinv (by omega)
  -- the table
  have htpl : (zeros itch).length = itch := zeros_length _
  set pp0 := (List.replicate (2 ^ (w - 1)) (zeros mp.length)).set 0 (toLimbs mp.length ((b * B ^ mp.length) % m)) with hpp0
  have hpp0l : pp0.length = 2 ^ (w - 1) := by rw [hpp0, List.length_set, List.length_replicate]
  have he0 : pp0.getD 0 (zeros mp.length) = toLimbs mp.length ((b * B ^ mp.length) % m) := by
    rw [hpp0, getD_set_list _ _ _ _ _ (by rw [List.length_replicate]; omega)]; simp
  have hg0 : Good b mp (toLimbs mp.length ((b * B ^ mp.length) % m)) 1 := by
    refine ⟨Limbs_toLimbs _ _, toLimbs_length _ _, ?_⟩
    rw [val_toLimbs_lt _ _ (lt_trans (Nat.mod_lt _ hmpos) hmlt), pow_one]
    exact Nat.mod_modEq _ _
  obtain ⟨q1, q2, q3⟩ := good_mul red mp hred b hcop (zeros itch) _ _ 1 1 (by rw [htpl]; exact hitch) hg0 hg0
  have htab := precomp_spec red mp hred b w hcop _ q3 (2 ^ (w - 1) - 1) 0 pp0
    (mulRed red mp.length (zeros itch) (toLimbs mp.length ((b * B ^ mp.length) % m)) (toLimbs mp.length ((b * B ^ mp.length) % m))).2.1
    ((if mp.length < thr then true else decide (binvItch mp.length ≤ itch)) && inPP mp.length w 0 &&
      (mulRed red mp.length (zeros itch) (toLimbs mp.length ((b * B ^ mp.length) % m)) (toLimbs mp.length ((b * B ^ mp.length) % m))).2.2)
    hpp0l (by omega) (by rw [q2, htpl]; exact hitch)
    (by rw [hok0, inPP_of_lt mp.length w 0 (by omega), q1]; rfl)
    (by
      intro i hi
      have : i = 0 := by omega
      subst this
      rw [he0]; exact hg0)
  have htdef : powmTable red mp.length w (zeros itch) (if mp.length < thr then true else decide (binvItch mp.length ≤ itch)) b m =
      precomp red mp.length w (mulRed red mp.length (zeros itch) (toLimbs mp.length ((b * B ^ mp.length) % m)) (toLimbs mp.length ((b * B ^ mp.length) % m))).1
        (2 ^ (w - 1) - 1) 0 pp0
        (mulRed red mp.length (zeros itch) (toLimbs mp.length ((b * B ^ mp.length) % m)) (toLimbs mp.length ((b * B ^ mp.length) % m))).2.1
        ((if mp.length < thr then true else decide (binvItch mp.length ≤ itch)) && inPP mp.length w 0 &&
          (mulRed red mp.length (zeros itch) (toLimbs mp.length ((b * B ^ mp.length) % m)) (toLimbs mp.length ((b * B ^ mp.length) % m))).2.2) := by
    unfold powmTable
    simp only [← hpp0, he0]
  rw [← htdef] at htab
  obtain ⟨t1, t2, t3⟩ := htab
  rw [q2, htpl] at t2
  set T := powmTable red mp.length w (zeros itch) (if mp.length < thr then true else decide (binvItch mp.length ≤ itch)) b m with hTd
  -- the window loop
  let Rel : St → Nat → Prop := fun s k => s.ok = true ∧ s.tp.length = itch ∧ Good b mp s.rp k
  have hsqr : ∀ s k, Rel s k → Rel (sqrSt red mp.length s) (2 * k) := by
    intro s k ⟨h1, h2, h3⟩
    obtain ⟨g1, g2, g3⟩ := good_mul red mp hred b hcop s.tp s.rp s.rp k k (by rw [h2]; exact hitch) h3 h3
    refine ⟨?_, ?_, ?_⟩
    · simp only [sqrSt, h1, g1]; rfl
    · simp only [sqrSt]; rw [g2, h2]
    · simp only [sqrSt]; rw [two_mul]; exact g3
  have hmul : ∀ s k i, i < 2 ^ (w - 1) → Rel s k →
      Rel (mulSt red mp.length s (tableSt mp.length w T.1 T.2.1 T.2.2 i)) (k + (2 * i + 1)) := by
    intro s k i hi ⟨h1, h2, h3⟩
    obtain ⟨g1, g2, g3⟩ := good_mul red mp hred b hcop s.tp s.rp (T.1.getD i (zeros mp.length)) k (2 * i + 1)
      (by rw [h2]; exact hitch) h3 (t3 i hi)
    refine ⟨?_, ?_, ?_⟩
    · simp only [mulSt, tableSt, h1, g1, t1, inPP_of_lt mp.length w i hi]; rfl
    · simp only [mulSt, tableSt]; rw [g2, h2]
    · simp only [mulSt, tableSt]; exact g3
  have htabR : ∀ i, i < 2 ^ (w - 1) → Rel (tableSt mp.length w T.1 T.2.1 T.2.2 i) (2 * i + 1) := by
    intro i hi
    refine ⟨?_, t2, t3 i hi⟩
    simp only [tableSt, t1, inPP_of_lt mp.length w i hi]; rfl
  have hres := windowExp_rel (sqrSt red mp.length) (mulSt red mp.length) (tableSt mp.length w T.1 T.2.1 T.2.2) Rel
    ep hep.1 hne (hep.2 hne) w hw1 hw63 hsqr hmul htabR
  obtain ⟨f1, f2, f3⟩ := hres
  have hfin := powmFinish_spec red mp hred hmp hn b (val ep) hcop hmpos _ f1 (by rw [f2]; exact hitch) f3
  unfold mpnPowmMem
  exact hfin

/-! ### mpn_powlo on memory -/

theorem load_store_same (a : List Nat) (off : Nat) (d : List Nat) (h : off + d.length ≤ a.length) :
    store a off d = (a.take off ++ d ++ a.drop (off + d.length), true) ∧
    load (a.take off ++ d ++ a.drop (off + d.length)) off d.length = (d, true) := by
  refine ⟨by unfold store; rw [if_pos h], ?_⟩
  unfold load
  have hl : (a.take off ++ d ++ a.drop (off + d.length)).length = a.length := by
    simp only [List.length_append, List.length_take, List.length_drop]; omega
  rw [hl, if_pos h]
  have htl : (a.take off).length = off := by rw [List.length_take]; omega
  rw [List.append_assoc, List.drop_append, htl, Nat.sub_self, List.drop_zero,
    List.drop_eq_nil_of_le (by omega), List.nil_append, List.take_append_of_le_length (by omega),
    List.take_of_length_le (by omega)]

/-- `r` holds `b^k mod B^n`. -/
def GoodLo (b n : Nat) (r : List Nat) (k : Nat) : Prop :=
  Limbs r ∧ r.length = n ∧ val r = b ^ k % B ^ n

theorem mulLo_spec (b n : Nat) (s : St) (y : List Nat) (yok : Bool) (j k : Nat) (hn : 1 ≤ n)
    (hok : s.ok = true) (hyok : yok = true) (htp : 2 * n ≤ s.tp.length)
    (hx : GoodLo b n s.rp j) (hy : GoodLo b n y k) :
    (mulLo n s y yok).ok = true ∧ (mulLo n s y yok).tp.length = s.tp.length ∧
    GoodLo b n (mulLo n s y yok).rp (j + k) := by
  have hdl : (toLimbs (2 * n) (val s.rp * val y)).length = 2 * n := toLimbs_length _ _
  have hst := store_zero s.tp (toLimbs (2 * n) (val s.rp * val y)) (by rw [hdl]; exact htp)
  have hld : load (toLimbs (2 * n) (val s.rp * val y) ++ s.tp.drop (2 * n)) 0 n =
      ((toLimbs (2 * n) (val s.rp * val y)).take n, true) := by
    unfold load
    have : 0 + n ≤ (toLimbs (2 * n) (val s.rp * val y) ++ s.tp.drop (2 * n)).length := by
      rw [List.length_append, hdl]; omega
    rw [if_pos this, List.drop_zero, List.take_append_of_le_length (by rw [hdl]; omega)]
  unfold mulLo
  simp only [hst, hdl, hld, hok, hyok, Bool.and_self]
  refine ⟨trivial, ?_, Limbs_take (Limbs_toLimbs _ _) _, ?_, ?_⟩
  · rw [List.length_append, hdl, List.length_drop]; omega
  · rw [List.length_take, hdl]; omega
  · rw [← val_take_mod _ (Limbs_toLimbs _ _), val_toLimbs, hx.2.2, hy.2.2]
    have hdvd : B ^ n ∣ B ^ (2 * n) := Nat.pow_dvd_pow B (by omega)
    rw [Nat.mod_mod_of_dvd _ hdvd, ← Nat.mul_mod, pow_add]

theorem inPPlo_of_le (n w i : Nat) (h : i ≤ 2 ^ (w - 1)) : inPPlo n w i = true := by
  unfold inPPlo
  rw [Nat.shiftLeft_eq]
  have : n * i ≤ n * 2 ^ (w - 1) := Nat.mul_le_mul_left _ h
  simpa using this

theorem precompLo_spec (b n w : Nat) (tp b2 : List Nat) (hb2 : GoodLo b n b2 2)
    (hload : load tp (2 * n) n = (b2, true)) :
    ∀ (c j : Nat) (pp : List (List Nat)) (ok : Bool),
      pp.length = 2 ^ (w - 1) + 1 → j + c + 1 = 2 ^ (w - 1) → ok = true →
      (∀ i, i ≤ j → GoodLo b n (pp.getD i (zeros n)) (2 * i + 1)) →
      (precompLo n w tp c j pp ok).2 = true ∧
      ∀ i, i < 2 ^ (w - 1) → GoodLo b n ((precompLo n w tp c j pp ok).1.getD i (zeros n)) (2 * i + 1) := by
  intro c
  induction c with
  | zero =>
    intro j pp ok hpl hj hok hgood
    simp only [precompLo]
    exact ⟨hok, fun i hi => hgood i (by omega)⟩
  | succ c ih =>
    intro j pp ok hpl hj hok hgood
    simp only [precompLo, hload]
    have hx := hgood j (le_refl _)
    set prod := toLimbs (2 * n) (val (pp.getD j (zeros n)) * val b2) with hprod
    have hpl' : prod.length = 2 * n := toLimbs_length _ _
    have hlow : GoodLo b n (prod.take n) (2 * (j + 1) + 1) := by
      refine ⟨Limbs_take (Limbs_toLimbs _ _) _, by rw [List.length_take, hpl']; omega, ?_⟩
      rw [← val_take_mod _ (Limbs_toLimbs _ _), val_toLimbs, hx.2.2, hb2.2.2]
      have hdvd : B ^ n ∣ B ^ (2 * n) := Nat.pow_dvd_pow B (by omega)
      rw [Nat.mod_mod_of_dvd _ hdvd, ← Nat.mul_mod, ← pow_add]
      congr 2
    have hok' : (ok && true && inPPlo n w j && inPPlo n w (j + 1) && inPPlo n w (j + 2)) = true := by
      rw [hok, inPPlo_of_le n w j (by omega), inPPlo_of_le n w (j + 1) (by omega), inPPlo_of_le n w (j + 2) (by omega)]
      rfl
    apply ih (j + 1) _ _ (by rw [List.length_set, List.length_set]; exact hpl) (by omega) hok'
    intro i hi
    rw [getD_set_list _ _ _ _ _ (by rw [List.length_set]; omega), getD_set_list _ _ _ _ _ (by omega)]
    have h2 : ¬ i = j + 2 := by omega
    simp only [h2, if_false]
    by_cases hij : i = j + 1
    · simp only [hij, if_true]; exact hlow
    · simp only [hij, if_false]; exact hgood i (by omega)

/-- **mpn_powlo on memory**: with the documented `3n` limbs of scratch every access stays inside `tp`
    (the square / low product in `tp[0..2n)`, `b^2` kept at `tp[2n..3n)`) and inside
    `pp[0 .. (n << (w-1)) + n)` (including the high halves that MPIR's mpn_mullow_n writes), and
    `rp[0..n)` = `b^e mod B^n`. -/
theorem mpnPowloMem_correct (itch : Nat) (bp ep : List Nat) (n : Nat) (hbp : Limbs bp) (hbl : n ≤ bp.length)
    (hn : 1 ≤ n) (hep : Norm ep) (hne : ep ≠ []) (h2 : 2 ≤ val ep) (hitch : 3 * n ≤ itch) :
    (mpnPowloMem itch bp ep n).2 = true ∧
    (mpnPowloMem itch bp ep n).1 = toLimbs n (val (bp.take n) ^ val ep % B ^ n) := by
  set b := val (bp.take n) with hbd
  have hebi := sizeinbase2_ge_two ep hep hne h2
  obtain ⟨hw1, hw63⟩ := win_size_lo_bounds (sizeinbase2 ep) hebi
  set w := win_size_lo (sizeinbase2 ep) with hw
  have h2w : 1 ≤ 2 ^ (w - 1) := Nat.one_le_two_pow
  have hBnpos : 0 < B ^ n := Nat.pow_pos B_pos
  have htake : (bp.take n).length = n := by rw [List.length_take]; omega
  have hb0 : GoodLo b n (bp.take n) 1 := by
    refine ⟨Limbs_take hbp n, htake, ?_⟩
    rw [pow_one, Nat.mod_eq_of_lt]
    have := val_lt _ (Limbs_take hbp n)
    rwa [htake] at this
  -- b^2 at tp[2n..3n)
  have htpl : (zeros itch).length = itch := zeros_length _
  set s0 : St := { rp := bp.take n, tp := zeros itch, ok := true } with hs0
  obtain ⟨m1, m2, m3⟩ := mulLo_spec b n s0 (bp.take n) true 1 1 hn rfl rfl (by rw [hs0]; simp only [htpl]; omega) hb0 hb0
  have hmul0 : mulLo n s0 (bp.take n) true =
      { rp := (load (store (zeros itch) 0 (toLimbs (2 * n) (b * b))).1 0 n).1,
        tp := (store (zeros itch) 0 (toLimbs (2 * n) (b * b))).1,
        ok := (true && true && (store (zeros itch) 0 (toLimbs (2 * n) (b * b))).2 &&
          (load (store (zeros itch) 0 (toLimbs (2 * n) (b * b))).1 0 n).2) } := rfl
  rw [hmul0] at m1 m2 m3
  simp only at m1 m2 m3
  set tpa := (store (zeros itch) 0 (toLimbs (2 * n) (b * b))).1 with htpa
  set la := load tpa 0 n with hla
  have hoka : (store (zeros itch) 0 (toLimbs (2 * n) (b * b))).2 = true ∧ la.2 = true := by
    simp only [Bool.true_and, Bool.and_eq_true] at m1; exact m1
  rw [hs0] at m2; simp only [htpl] at m2
  obtain ⟨c1, c2⟩ := load_store_same tpa (2 * n) la.1 (by rw [m3.2.1, m2]; omega)
  set tpc := tpa.take (2 * n) ++ la.1 ++ tpa.drop (2 * n + la.1.length) with htpc
  rw [m3.2.1] at c2
  have htpcl : tpc.length = itch := by
    rw [htpc]; simp only [List.length_append, List.length_take, List.length_drop, m3.2.1, m2]; omega
  have hok0 : (inPPlo n w 0 && (store (zeros itch) 0 (toLimbs (2 * n) (b * b))).2 && la.2 && (store tpa (2 * n) la.1).2) = true := by
    rw [inPPlo_of_le n w 0 (by omega), hoka.1, hoka.2, c1]; rfl
  set pp0 := (List.replicate (2 ^ (w - 1) + 1) (zeros n)).set 0 (bp.take n) with hpp0
  have hpp0l : pp0.length = 2 ^ (w - 1) + 1 := by rw [hpp0, List.length_set, List.length_replicate]
  have he0 : pp0.getD 0 (zeros n) = bp.take n := by
    rw [hpp0, getD_set_list _ _ _ _ _ (by rw [List.length_replicate]; omega)]; simp
  have htab := precompLo_spec b n w tpc la.1 (by have := m3; rwa [show 1 + 1 = 2 from rfl] at this) c2
    (2 ^ (w - 1) - 1) 0 pp0 _ hpp0l (by omega) hok0
    (by intro i hi
        have : i = 0 := by omega
        subst this
        rw [he0]; exact hb0)
  have hc1 : (store tpa (2 * n) la.1).1 = tpc := by rw [c1]
  rw [← hc1] at htab
  obtain ⟨t1, t3⟩ := htab
  set T := precompLo n w (store tpa (2 * n) la.1).1 (2 ^ (w - 1) - 1) 0 pp0
    (inPPlo n w 0 && (store (zeros itch) 0 (toLimbs (2 * n) (b * b))).2 && la.2 && (store tpa (2 * n) la.1).2) with hTd
  have htc : (store tpa (2 * n) la.1).1.length = itch := by rw [store_length, m2]
  let Rel : St → Nat → Prop := fun s k => s.ok = true ∧ s.tp.length = itch ∧ GoodLo b n s.rp k
  have hsqr : ∀ s k, Rel s k → Rel (mulLo n s s.rp true) (2 * k) := by
    intro s k ⟨h1, h2', h3⟩
    obtain ⟨g1, g2, g3⟩ := mulLo_spec b n s s.rp true k k hn h1 rfl (by rw [h2']; omega) h3 h3
    exact ⟨g1, by rw [g2, h2'], by rw [two_mul]; exact g3⟩
  have hmul : ∀ s k i, i < 2 ^ (w - 1) → Rel s k →
      Rel (mulLo n s (tableLo n w T.1 (store tpa (2 * n) la.1).1 T.2 i).rp (tableLo n w T.1 (store tpa (2 * n) la.1).1 T.2 i).ok)
        (k + (2 * i + 1)) := by
    intro s k i hi ⟨h1, h2', h3⟩
    have hiok : (tableLo n w T.1 (store tpa (2 * n) la.1).1 T.2 i).ok = true := by
      simp only [tableLo, t1, inPPlo_of_le n w i (by omega)]; rfl
    obtain ⟨g1, g2, g3⟩ := mulLo_spec b n s (tableLo n w T.1 (store tpa (2 * n) la.1).1 T.2 i).rp
      (tableLo n w T.1 (store tpa (2 * n) la.1).1 T.2 i).ok k (2 * i + 1) hn h1 hiok (by rw [h2']; omega) h3 (t3 i hi)
    exact ⟨g1, g2.trans h2', g3⟩
  have htabR : ∀ i, i < 2 ^ (w - 1) → Rel (tableLo n w T.1 (store tpa (2 * n) la.1).1 T.2 i) (2 * i + 1) := by
    intro i hi
    refine ⟨?_, htc, t3 i hi⟩
    simp only [tableLo, t1, inPPlo_of_le n w i (by omega)]; rfl
  have hres := windowExp_rel (fun s => mulLo n s s.rp true) (fun s t => mulLo n s t.rp t.ok)
    (tableLo n w T.1 (store tpa (2 * n) la.1).1 T.2) Rel ep hep.1 hne (hep.2 hne) w hw1 hw63 hsqr hmul htabR
  obtain ⟨f1, _, f3⟩ := hres
  unfold mpnPowloMem
  exact ⟨f1, eq_toLimbs _ _ _ f3.1 f3.2.1 f3.2.2⟩

end Mpir.PowmL
