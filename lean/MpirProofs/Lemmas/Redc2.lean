/- mpn_redc_2 (mpn/generic/redc_2.c), limb level: the two-limb step and the identity. -/
import MpirProofs.Lemmas.Powm
import MpirProofs.Lemmas.FftRing
import Mathlib.Tactic.LinearCombination
namespace Mpir.Powm
open Mpir

/-- the memory traffic of one round of redc_2.c:88-96, given the two mpn_addmul_1 results -/
theorem redc2Step_eq (mp t cs : List Nat) (n mip0 mip1 a0 b0 ca c0 c1 : Nat) (r0t mid : List Nat)
    (hn : 2 ≤ n) (hlen : n + 2 ≤ t.length)
    (h0 : addmul_1 (t.take n) mp ((mip0 * t.getD 0 0) % B) = (a0 :: r0t, c0)) (hr0t : r0t.length = n - 1)
    (h1 : addmul_1 (r0t ++ [c0]) mp (((mip0 * t.getD 0 0) / B + mip0 * t.getD 1 0 + mip1 * t.getD 0 0) % B) =
      (b0 :: (mid ++ [ca]), c1)) (hmid : mid.length = n - 2) :
    redc2Step mp n mip0 mip1 cs t = (cs ++ [ca, c1], mid ++ [t.getD n 0] ++ t.drop (n + 1)) := by
  unfold redc2Step umul_ppmm
  simp only []
  rw [h0]
  simp only []
  have e1 : (List.drop 1 (a0 :: r0t ++ [c0] ++ List.drop (n + 1) t)).take n = r0t ++ [c0] := by
    have : List.drop 1 (a0 :: r0t ++ [c0] ++ List.drop (n + 1) t) = (r0t ++ [c0]) ++ List.drop (n + 1) t := by simp
    rw [this, List.take_left' (by simp [hr0t]; omega)]
  rw [e1, h1]
  simp only []
  have e2 : List.drop (n + 1) (a0 :: r0t ++ [c0] ++ List.drop (n + 1) t) = List.drop (n + 1) t := by
    rw [List.drop_left' (by simp [hr0t]; omega)]
  have e3 : List.take 1 (a0 :: r0t ++ [c0] ++ List.drop (n + 1) t) = [a0] := by simp
  rw [e2, e3]
  have e4 : [a0] ++ (b0 :: (mid ++ [ca])) ++ List.drop (n + 1) t = (a0 :: b0 :: mid) ++ ([ca] ++ List.drop (n + 1) t) := by simp
  rw [e4]
  have hl : (a0 :: b0 :: mid).length = n := by simp [hmid]; omega
  have e5 : ((a0 :: b0 :: mid) ++ ([ca] ++ List.drop (n + 1) t)).getD n 0 = ca := by
    rw [List.getD_eq_getElem?_getD, List.getElem?_append_right (by omega), hl]; simp
  have e6 : List.take n ((a0 :: b0 :: mid) ++ ([ca] ++ List.drop (n + 1) t)) = a0 :: b0 :: mid := List.take_left' hl
  have e7 : List.drop (n + 1) ((a0 :: b0 :: mid) ++ ([ca] ++ List.drop (n + 1) t)) = List.drop (n + 1) t := by
    rw [← List.append_assoc, List.drop_left' (by simp [hmid]; omega)]
  rw [e5, e6, e7]
  simp

theorem mod_zero_of_add (a X Y M : Nat) (h : a + M * X = M * Y) : a % M = 0 := by
  have h1 : M ∣ a + M * X := by rw [h]; exact Dvd.intro _ rfl
  have h2 : M ∣ a := (Nat.dvd_add_left (Dvd.intro _ rfl)).mp h1
  exact Nat.mod_eq_zero_of_dvd h2

/-- one round of redc_2.c:88-96: with `mip = −1/m mod B²` the two low limbs are cleared, the two carries are parked -/
theorem redc2Step_inv (mp : List Nat) (mip0 mip1 : Nat) (hmp : Limbs mp) (hn : 2 ≤ mp.length)
    (hinv2 : ((mip0 + B * mip1) * val mp) % (B * B) = B * B - 1)
    (cs t : List Nat) (ht : Limbs t) (hlen : mp.length + 2 ≤ t.length) :
    ∃ q ca cb t', redc2Step mp mp.length mip0 mip1 cs t = (cs ++ [ca, cb], t') ∧ q < B * B ∧ ca < B ∧ cb < B ∧
      Limbs t' ∧ t'.length + 2 = t.length ∧
      val t + q * val mp = B * B * val t' + B ^ mp.length * (ca + B * cb) := by
  set n := mp.length with hnd
  have hBpos := B_pos
  -- the window
  obtain ⟨u0, t1, rfl⟩ : ∃ u0 t1, t = u0 :: t1 := List.exists_cons_of_length_pos (by omega)
  obtain ⟨u1, rest, rfl⟩ : ∃ u1 rest, t1 = u1 :: rest := List.exists_cons_of_length_pos (by simp at hlen; omega)
  have ⟨hu0, ht1⟩ := Limbs_cons.mp ht
  have ⟨hu1, hrest⟩ := Limbs_cons.mp ht1
  simp only [List.length_cons] at hlen
  have hg0 : (u0 :: u1 :: rest).getD 0 0 = u0 := rfl
  have hg1 : (u0 :: u1 :: rest).getD 1 0 = u1 := rfl
  set q0 := (mip0 * u0) % B with hq0
  set q1 := ((mip0 * u0) / B + mip0 * u1 + mip1 * u0) % B with hq1
  have hq0B : q0 < B := Nat.mod_lt _ hBpos
  have hq1B : q1 < B := Nat.mod_lt _ hBpos
  -- T0 = the low n limbs
  have htake : ((u0 :: u1 :: rest).take n).length = n := by rw [List.length_take]; simp; omega
  have hT0 : ∃ T', val ((u0 :: u1 :: rest).take n) = u0 + B * u1 + B * B * T' := by
    obtain ⟨n', hn'⟩ : ∃ n', n = n' + 2 := ⟨n - 2, by omega⟩
    rw [hn']; simp only [List.take_succ_cons, val_cons]
    exact ⟨val (rest.take n'), by ring⟩
  obtain ⟨T', hT'⟩ := hT0
  -- (T0 + m·q) is a multiple of B²
  have hzero : (val ((u0 :: u1 :: rest).take n) + val mp * (q0 + B * q1)) % (B * B) = 0 := by
    have hd0 := Nat.div_add_mod (mip0 * u0) B
    have hd1 := Nat.div_add_mod ((mip0 * u0) / B + mip0 * u1 + mip1 * u0) B
    have hW := Nat.div_add_mod ((mip0 + B * mip1) * val mp) (B * B)
    rw [hinv2] at hW
    rw [← hq0] at hd0
    rw [← hq1] at hd1
    generalize (mip0 * u0) / B = ph at *
    generalize (ph + mip0 * u1 + mip1 * u0) / B = e1 at *
    generalize ((mip0 + B * mip1) * val mp) / (B * B) = f at *
    have hBB : 1 ≤ B * B := Nat.mul_pos hBpos hBpos
    -- T0 + m q + B²·X = B²·Y
    apply mod_zero_of_add _ (val mp * (e1 + mip1 * u1)) (T' + (u0 + B * u1) * (f + 1))
    rw [hT']
    have hW' : (mip0 + B * mip1) * val mp + 1 = B * B * (f + 1) := by
      have : B * B * (f + 1) = B * B * f + B * B := by ring
      omega
    zify at hd0 hd1 hW' ⊢
    linear_combination ((val mp : Int)) * hd0 + ((B : Int) * val mp) * hd1 + ((u0 : Int) + B * u1) * hW'
  -- the two addmul_1
  obtain ⟨av, ac, aL, an⟩ := addmul_1_val ((u0 :: u1 :: rest).take n) mp q0 (Limbs_take ht _) hmp htake hq0B
  rw [htake] at av an
  generalize hA : addmul_1 ((u0 :: u1 :: rest).take n) mp q0 = A at *
  obtain ⟨r0, c0⟩ := A
  simp only at av ac aL an
  obtain ⟨a0, r0t, rfl⟩ : ∃ a0 r0t, r0 = a0 :: r0t := List.exists_cons_of_length_pos (by omega)
  have ⟨ha0, hr0tL⟩ := Limbs_cons.mp aL
  have hr0tl : r0t.length = n - 1 := by simp at an; omega
  have hwL : Limbs (r0t ++ [c0]) := Fft.Limbs_snoc.mpr ⟨hr0tL, ac⟩
  have hwl : (r0t ++ [c0]).length = n := by simp [hr0tl]; omega
  obtain ⟨bv, bc, bL, bn⟩ := addmul_1_val (r0t ++ [c0]) mp q1 hwL hmp hwl hq1B
  rw [hwl] at bv bn
  generalize hBm : addmul_1 (r0t ++ [c0]) mp q1 = Bm at *
  obtain ⟨r1, c1⟩ := Bm
  simp only at bv bc bL bn
  obtain ⟨b0, r1t, rfl⟩ : ∃ b0 r1t, r1 = b0 :: r1t := List.exists_cons_of_length_pos (by omega)
  have ⟨hb0, hr1tL⟩ := Limbs_cons.mp bL
  obtain ⟨mid, ca, rfl, hmidl⟩ := Fft.exists_snoc r1t (n - 2) (by simp at bn; omega)
  have ⟨hmidL, hca⟩ := Fft.Limbs_snoc.mp hr1tL
  have hstep := redc2Step_eq mp (u0 :: u1 :: rest) cs n mip0 mip1 a0 b0 ca c0 c1 r0t mid hn (by simp; omega)
    (by rw [hg0]; exact hA) hr0tl (by rw [hg0, hg1]; exact hBm) hmidl
  -- the value equation
  rw [Fft.val_snoc, hr0tl] at bv
  simp only [val_cons] at av bv
  rw [Fft.val_snoc, hmidl] at bv
  have hpn : B ^ n = B * B * B ^ (n - 2) := by
    have : B ^ n = B ^ ((n - 2) + 2) := by congr 1; omega
    rw [this, pow_add]; ring
  have hpn1 : B ^ (n - 1) = B * B ^ (n - 2) := by
    have : B ^ (n - 1) = B ^ ((n - 2) + 1) := by congr 1; omega
    rw [this, pow_succ]; ring
  have hsum : val ((u0 :: u1 :: rest).take n) + val mp * (q0 + B * q1) =
      a0 + B * b0 + B * B * (val mid + B ^ (n - 2) * ca) + B * B * (B ^ (n - 2) * (B * c1)) := by
    rw [hpn] at av bv
    rw [hpn1] at bv
    generalize B ^ (n - 2) = P at av bv ⊢
    zify at av bv ⊢
    linear_combination (-1 : Int) * av + (-(B : Int)) * bv
  have hab : a0 + B * b0 = 0 := by
    have h1 : (a0 + B * b0) % (B * B) = 0 := by
      rw [hsum] at hzero
      have : a0 + B * b0 + B * B * (val mid + B ^ (n - 2) * ca) + B * B * (B ^ (n - 2) * (B * c1)) =
          (a0 + B * b0) + B * B * ((val mid + B ^ (n - 2) * ca) + B ^ (n - 2) * (B * c1)) := by ring
      rw [this, Nat.add_mul_mod_self_left] at hzero; exact hzero
    have h2 : a0 + B * b0 < B * B := by
      have : B * b0 + B ≤ B * B := by
        have := Nat.mul_le_mul_left B (Nat.succ_le_of_lt hb0)
        rw [Nat.mul_succ] at this; exact this
      omega
    rwa [Nat.mod_eq_of_lt h2] at h1
  -- the rest of the window
  have hdrop := val_take_drop (u0 :: u1 :: rest) n (by simp; omega)
  have hdn : (u0 :: u1 :: rest).drop n = (u0 :: u1 :: rest).getD n 0 :: (u0 :: u1 :: rest).drop (n + 1) := by
    rw [List.drop_eq_getElem_cons (by simp; omega), List.getD_eq_getElem?_getD,
      List.getElem?_eq_getElem (by simp; omega)]; simp
  have hvd : val ((u0 :: u1 :: rest).drop n) =
      (u0 :: u1 :: rest).getD n 0 + B * val ((u0 :: u1 :: rest).drop (n + 1)) := by
    conv_lhs => rw [hdn]
    rw [val_cons]
  rw [hvd] at hdrop
  refine ⟨q0 + B * q1, ca, c1, mid ++ [(u0 :: u1 :: rest).getD n 0] ++ (u0 :: u1 :: rest).drop (n + 1), hstep, ?_, hca, bc,
    ?_, ?_, ?_⟩
  · have : B * q1 + B ≤ B * B := by
      have := Nat.mul_le_mul_left B (Nat.succ_le_of_lt hq1B)
      rw [Nat.mul_succ] at this; exact this
    omega
  · refine Limbs_append.mpr ⟨Fft.Limbs_snoc.mpr ⟨hmidL, ?_⟩, Limbs_drop ht _⟩
    rw [List.getD_eq_getElem?_getD, List.getElem?_eq_getElem (by simp; omega)]
    exact ht _ (List.getElem_mem _)
  · simp [hmidl]; omega
  · rw [val_append, Fft.val_snoc]
    simp only [List.length_append, List.length_cons, List.length_nil, hmidl]
    rw [hdrop, Nat.mul_comm (q0 + B * q1)]
    have e : n - 2 + (0 + 1) = n - 1 := by omega
    rw [e, hpn, hpn1]
    generalize B ^ (n - 2) = P at hsum ⊢
    generalize val ((u0 :: u1 :: rest).take n) = T0 at hsum ⊢
    zify at hsum hab ⊢
    linear_combination hsum + ((1 : Int)) * hab

/-- the loop of mpn_redc_2 (redc_2.c:86-97): after `k` rounds from a window of `n + 2k` limbs -/
theorem redc2Loop_inv (mp : List Nat) (mip0 mip1 : Nat) (hmp : Limbs mp) (hn : 2 ≤ mp.length)
    (hinv2 : ((mip0 + B * mip1) * val mp) % (B * B) = B * B - 1) :
    ∀ (k : Nat) (cs t : List Nat), Limbs t → t.length = mp.length + 2 * k →
    ∃ Q cn t', redc2Loop mp mp.length mip0 mip1 k cs t = (cs ++ cn, t') ∧ Q < B ^ (2 * k) ∧ Limbs cn ∧
      cn.length = 2 * k ∧ Limbs t' ∧ t'.length = mp.length ∧
      val t + Q * val mp = B ^ (2 * k) * val t' + B ^ mp.length * val cn := by
  intro k
  induction k with
  | zero =>
    intro cs t ht hlen
    exact ⟨0, [], t, by simp [redc2Loop], by simp, Limbs_nil, rfl, ht, by simpa using hlen, by simp⟩
  | succ k ih =>
    intro cs t ht hlen
    obtain ⟨q, ca, cb, t1, hstep, hq, hca, hcb, ht1L, ht1l, hv1⟩ :=
      redc2Step_inv mp mip0 mip1 hmp hn hinv2 cs t ht (by omega)
    obtain ⟨Q', cn', t', hloop, hQ', hcnL, hcnn, ht'L, ht'n, hv⟩ := ih (cs ++ [ca, cb]) t1 ht1L (by omega)
    refine ⟨q + B * B * Q', ca :: cb :: cn', t', ?_, ?_, Limbs_cons.mpr ⟨hca, Limbs_cons.mpr ⟨hcb, hcnL⟩⟩,
      by simp [hcnn]; omega, ht'L, ht'n, ?_⟩
    · rw [redc2Loop, hstep]
      simp only []
      rw [hloop, List.append_assoc]; rfl
    · have e : B ^ (2 * (k + 1)) = B * B * B ^ (2 * k) := by
        have : 2 * (k + 1) = 2 * k + 2 := by ring
        rw [this, pow_add]; ring
      rw [e]
      have : B * B * Q' + B * B ≤ B * B * B ^ (2 * k) := by
        have := Nat.mul_le_mul_left (B * B) (Nat.succ_le_of_lt hQ')
        rw [Nat.mul_succ] at this; exact this
      omega
    · have e : B ^ (2 * (k + 1)) = B * B * B ^ (2 * k) := by
        have : 2 * (k + 1) = 2 * k + 2 := by ring
        rw [this, pow_add]; ring
      rw [e]
      simp only [val_cons]
      generalize B ^ (2 * k) = Pk at *
      generalize B ^ mp.length = Pn at *
      zify at hv1 hv ⊢
      linear_combination hv1 + ((B : Int) * B) * hv

/-- `mip[0]` alone is `−1/m[0] mod B` -/
theorem inv2_low (mp : List Nat) (mip0 mip1 : Nat) (hmp : Limbs mp)
    (hinv2 : ((mip0 + B * mip1) * val mp) % (B * B) = B * B - 1) : (mip0 * mp.headD 0) % B = B - 1 := by
  have h1 : ((mip0 + B * mip1) * val mp) % B = (B * B - 1) % B := by
    rw [← hinv2, Nat.mod_mul_right_mod]
  have h2 : (B * B - 1) % B = B - 1 := by
    have : B * B - 1 = (B - 1) + B * (B - 1) := by
      rw [B_eq]
    rw [this, Nat.add_mul_mod_self_left, Nat.mod_eq_of_lt (by have := B_pos; omega)]
  rw [h2] at h1
  rw [headD_eq_val_mod mp hmp, ← h1]
  have : (mip0 + B * mip1) * val mp = mip0 * val mp + B * (mip1 * val mp) := by ring
  rw [this, Nat.add_mul_mod_self_left]
  conv_rhs => rw [Nat.mul_mod]
  conv_lhs => rw [Nat.mul_mod, Nat.mod_mod]

/-- the single mpn_addmul_1 round that mpn_redc_2 runs first for odd n (redc_2.c:80-84), on the whole window -/
theorem redc1_first (mp : List Nat) (invm : Nat) (hmp : Limbs mp) (hn : 1 ≤ mp.length)
    (hinv : (invm * mp.headD 0) % B = B - 1) (cs t : List Nat) (ht : Limbs t) (hlen : mp.length + 1 ≤ t.length) :
    ∃ q c t', redc1Loop mp mp.length invm 1 cs t = (cs ++ [c], t') ∧ q < B ∧ c < B ∧ Limbs t' ∧
      t'.length + 1 = t.length ∧ val t + q * val mp = B * val t' + B ^ mp.length * c := by
  set n := mp.length with hndef
  set q := (t.headD 0 * invm) % B with hq
  have hqlt : q < B := Nat.mod_lt _ B_pos
  have htake : (t.take n).length = n := by rw [List.length_take]; omega
  obtain ⟨av, ac, aL, an⟩ := addmul_1_val (t.take n) mp q (Limbs_take ht _) hmp htake hqlt
  rw [htake] at av an
  have hsplit := val_take_drop t n (by omega)
  have hr0 : (addmul_1 (t.take n) mp q).1.headD 0 = 0 := by
    rw [headD_eq_val_mod _ aL]
    have h1 : val (addmul_1 (t.take n) mp q).1 % B = (val (t.take n) + val mp * q) % B := by
      rw [← av]
      have : B ^ n = B * B ^ (n - 1) := by rw [← pow_succ']; congr 1; omega
      rw [this, Nat.mul_assoc, Nat.add_mul_mod_self_left]
    rw [h1, Nat.add_mod, ← headD_eq_val_mod _ (Limbs_take ht _), Nat.mul_mod, ← headD_eq_val_mod _ hmp]
    have hth : (t.take n).headD 0 = t.headD 0 := by
      cases t with
      | nil => simp
      | cons x xs =>
        have : n = (n - 1) + 1 := by omega
        rw [this]; simp
    rw [hth, Nat.mod_mod, Nat.add_mod_mod]
    exact redc_low_zero _ _ _ hinv
  generalize hres : addmul_1 (t.take n) mp q = res at *
  obtain ⟨r, c⟩ := res
  simp only at av ac aL an hr0
  have hrt := val_tail r
  rw [hr0, Nat.zero_add] at hrt
  refine ⟨q, c, r.tail ++ t.drop n, ?_, hqlt, ac,
    Limbs_append.mpr ⟨fun x hx => aL x (List.mem_of_mem_tail hx), Limbs_drop ht _⟩, ?_, ?_⟩
  · rw [redc1Loop]
    simp only [← hq, hres]
    rw [redc1Loop]
  · rw [List.length_append, List.length_tail, List.length_drop, an]; omega
  · rw [val_append, List.length_tail, an, hsplit, Nat.mul_comm q]
    have hpn : B ^ n = B * B ^ (n - 1) := by rw [← pow_succ']; congr 1; omega
    rw [hpn] at av ⊢
    rw [hrt] at av
    generalize B ^ (n - 1) = Pn at *
    zify at av ⊢
    linear_combination (-1 : Int) * av

/-- add_n of the window and the parked carries, then the conditional subtraction (redc_1.c / redc_2.c / the end of
    redc_1_identity): from `T + Q·m = B^n·(t' + cn)` with `Q < B^n`, `T < B^(2n)` -/
theorem redc_finish (tp mp t' cn : List Nat) (Q : Nat) (hmp : Limbs mp) (htp : Limbs tp)
    (hlen : tp.length = 2 * mp.length) (hQ : Q < B ^ mp.length) (hcnL : Limbs cn) (hcnn : cn.length = mp.length)
    (ht'L : Limbs t') (ht'n : t'.length = mp.length)
    (hv : val tp + Q * val mp = B ^ mp.length * val t' + B ^ mp.length * val cn) :
    ∃ k, k ≤ 1 ∧
      B ^ mp.length * val (if (addNC t' cn 0).2 != 0 then (subNC (addNC t' cn 0).1 mp 0).1 else (addNC t' cn 0).1) +
        k * (B ^ mp.length * val mp) = val tp + Q * val mp ∧
      Limbs (if (addNC t' cn 0).2 != 0 then (subNC (addNC t' cn 0).1 mp 0).1 else (addNC t' cn 0).1) ∧
      (if (addNC t' cn 0).2 != 0 then (subNC (addNC t' cn 0).1 mp 0).1 else (addNC t' cn 0).1).length = mp.length := by
  obtain ⟨av, ac, aL, an⟩ := addNC_val t' cn 0 ht'L hcnL (by omega) (by omega)
  rw [ht'n] at av an
  have hmlt := val_lt mp hmp
  have htlt := val_lt tp htp
  rw [hlen] at htlt
  generalize addNC t' cn 0 = res at *
  obtain ⟨cp, cy⟩ := res
  simp only at av ac aL an ⊢
  set N := B ^ mp.length with hN
  have hNpos : 0 < N := Nat.pow_pos B_pos
  have hT : val tp < N * N := by
    rw [hN, ← pow_add]
    have : mp.length + mp.length = 2 * mp.length := by omega
    rw [this]; exact htlt
  have hS : val t' + val cn < N + val mp := by
    have h1 : N * (val t' + val cn) < N * (N + val mp) := by
      have : Q * val mp ≤ N * val mp := Nat.mul_le_mul_right _ (le_of_lt hQ)
      have e : N * (val t' + val cn) = val tp + Q * val mp := by rw [hv]; ring
      rw [e, Nat.mul_add]; omega
    exact Nat.lt_of_mul_lt_mul_left h1
  by_cases hc : cy = 0
  · subst hc
    have hif : ((0 : Nat) != 0) = false := rfl
    simp only [hif, Bool.false_eq_true, if_false]
    refine ⟨0, by omega, ?_, aL, an⟩
    have : val cp = val t' + val cn := by omega
    rw [this, hv]; ring
  · have hc1 : cy = 1 := by omega
    subst hc1
    have hif : ((1 : Nat) != 0) = true := rfl
    simp only [hif, if_true]
    obtain ⟨sv, sc, sL, sn⟩ := subNC_val cp mp 0 aL hmp an (by omega)
    rw [an] at sv sn
    generalize subNC cp mp 0 = sres at *
    obtain ⟨out, bw⟩ := sres
    simp only at sv sc sL sn ⊢
    have houtlt := val_lt out sL
    rw [sn] at houtlt
    have hcp : val cp < val mp := by omega
    have hbw : bw = 1 := by
      by_contra h
      have : bw = 0 := by omega
      subst this
      omega
    subst hbw
    refine ⟨1, le_refl _, ?_, sL, sn⟩
    have e1 : val out + val mp = val t' + val cn := by omega
    have e2 : N * (val out + val mp) = val tp + Q * val mp := by rw [e1, hv]; ring
    rw [← e2]; ring

/-- mpn_redc_2: the exact identity `B^n·r + k·B^n·m = T + Q·m`, `Q < B^n`, `k ∈ {0,1}` — as for mpn_redc_1,
    with the two-limb inverse `mip = −1/m mod B²` -/
theorem redc_2_identity (up mp : List Nat) (mip0 mip1 : Nat) (hn : 1 ≤ mp.length) (hup : Limbs up) (hmp : Limbs mp)
    (hlen : up.length = 2 * mp.length)
    (hinv2 : ((mip0 + B * mip1) * val mp) % (B * B) = B * B - 1) :
    ∃ Q k, Q < B ^ mp.length ∧ k ≤ 1 ∧
      B ^ mp.length * val (redc_2 up mp mip0 mip1) + k * (B ^ mp.length * val mp) = val up + Q * val mp ∧
      Limbs (redc_2 up mp mip0 mip1) ∧ (redc_2 up mp mip0 mip1).length = mp.length := by
  have hinv1 := inv2_low mp mip0 mip1 hmp hinv2
  -- the loops: Q, the parked carries, the final window
  have hloops : ∃ Q cn t', (redc2Loop mp mp.length mip0 mip1 (mp.length / 2)
        (if mp.length % 2 != 0 then redc1Loop mp mp.length mip0 1 [] up else ([], up)).1
        (if mp.length % 2 != 0 then redc1Loop mp mp.length mip0 1 [] up else ([], up)).2) = (cn, t') ∧
      Q < B ^ mp.length ∧ Limbs cn ∧ cn.length = mp.length ∧ Limbs t' ∧ t'.length = mp.length ∧
      val up + Q * val mp = B ^ mp.length * val t' + B ^ mp.length * val cn := by
    by_cases hodd : mp.length % 2 = 0
    · have hif : (mp.length % 2 != 0) = false := by simp [hodd]
      rw [hif]
      simp only [Bool.false_eq_true, if_false]
      have hn2 : 2 ≤ mp.length := by omega
      obtain ⟨Q, cn, t', hl, hQ, hcL, hcn, htL, htn, hv⟩ := redc2Loop_inv mp mip0 mip1 hmp hn2 hinv2 (mp.length / 2) [] up hup
        (by omega)
      have e : 2 * (mp.length / 2) = mp.length := by omega
      rw [e] at hQ hcn hv
      exact ⟨Q, cn, t', by rw [hl]; simp, hQ, hcL, hcn, htL, htn, hv⟩
    · have hodd1 : mp.length % 2 = 1 := by omega
      have hif : (mp.length % 2 != 0) = true := by simp [hodd1]
      rw [hif]
      simp only [if_true]
      obtain ⟨q, c, t1, h1, hq, hc, ht1L, ht1l, hv1⟩ := redc1_first mp mip0 hmp hn hinv1 [] up hup (by omega)
      rw [h1]
      simp only [List.nil_append]
      by_cases hn1 : mp.length = 1
      · have hk0 : mp.length / 2 = 0 := by omega
        rw [hk0, redc2Loop]
        refine ⟨q, [c], t1, rfl, by rw [hn1, pow_one]; exact hq, Limbs_cons.mpr ⟨hc, Limbs_nil⟩, by simp [hn1], ht1L, by omega, ?_⟩
        rw [hv1, hn1, pow_one]; simp [val]
      · have hn2 : 2 ≤ mp.length := by omega
        obtain ⟨Q, cn, t', hl, hQ, hcL, hcn, htL, htn, hv⟩ := redc2Loop_inv mp mip0 mip1 hmp hn2 hinv2 (mp.length / 2) [c] t1 ht1L
          (by omega)
        have e : 2 * (mp.length / 2) = mp.length - 1 := by omega
        rw [e] at hQ hcn hv
        have hpn : B ^ mp.length = B * B ^ (mp.length - 1) := by rw [← pow_succ']; congr 1; omega
        refine ⟨q + B * Q, c :: cn, t', by rw [hl]; rfl, ?_, Limbs_cons.mpr ⟨hc, hcL⟩, by simp [hcn]; omega, htL, htn, ?_⟩
        · rw [hpn]
          have : B * Q + B ≤ B * B ^ (mp.length - 1) := by
            have := Nat.mul_le_mul_left B (Nat.succ_le_of_lt hQ)
            rw [Nat.mul_succ] at this; exact this
          omega
        · simp only [val_cons]
          rw [hpn] at hv1 hv ⊢
          generalize B ^ (mp.length - 1) = P at *
          zify at hv1 hv ⊢
          linear_combination hv1 + (B : Int) * hv
  obtain ⟨Q, cn, t', hl, hQ, hcL, hcn, htL, htn, hv⟩ := hloops
  have hdef : redc_2 up mp mip0 mip1 =
      if (addNC t' cn 0).2 != 0 then (subNC (addNC t' cn 0).1 mp 0).1 else (addNC t' cn 0).1 := by
    unfold redc_2
    simp only [hl, add_n, sub_n]
  rw [hdef]
  obtain ⟨k, hk, he, hL, hlen'⟩ := redc_finish up mp t' cn Q hmp hup hlen hQ hcL hcn htL htn hv
  exact ⟨Q, k, hQ, hk, he, hL, hlen'⟩
end Mpir.Powm
