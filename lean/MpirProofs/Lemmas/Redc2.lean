/- mpn_redc_2 (mpn/generic/redc_2.c), limb level: the two-limb step and the identity. -/
import MpirProofs.Lemmas.Powm
import MpirProofs.Lemmas.FftRing
import Mathlib.Tactic.LinearCombination
namespace Mpir.Powm
open Mpir

/-- the memory traffic of one round of redc_2.c:88-96, given the two mpn_addmul_1 results -/
theorem redc2Step_eq (mp t cs : List Nat) (n mip0 mip1 a0 b0 ca c0 c1 : Nat) (r0t mid : List Nat)
    (hn : 2 ≤ n) (hlen : n + 2 ≤ t.length)
    (h0 : addmul_1 (t.take n) mp ((mip0 * t.getD 0 0) % B) = (a0 :: r0t, c0)) (hr0t : r0t.length = n - 1)
    (h1 : addmul_1 (r0t ++ [c0]) mp (((mip0 * t.getD 0 0) / B + mip0 * t.getD 1 0 + mip1 * t.getD 0 0) % B) =
      (b0 :: (mid ++ [ca]), c1)) (hmid : mid.length = n - 2) :
    redc2Step mp n mip0 mip1 cs t = (cs ++ [ca, c1], mid ++ [t.getD n 0] ++ t.drop (n + 1)) := by
  unfold redc2Step umul_ppmm
  simp only []
  rw [h0]
  simp only []
  have e1 : (List.drop 1 (a0 :: r0t ++ [c0] ++ List.drop (n + 1) t)).take n = r0t ++ [c0] := by
    have : List.drop 1 (a0 :: r0t ++ [c0] ++ List.drop (n + 1) t) = (r0t ++ [c0]) ++ List.drop (n + 1) t := by simp
    rw [this, List.take_left' (by simp [hr0t]; omega)]
  rw [e1, h1]
  simp only []
  have e2 : List.drop (n + 1) (a0 :: r0t ++ [c0] ++ List.drop (n + 1) t) = List.drop (n + 1) t := by
    rw [List.drop_left' (by simp [hr0t]; omega)]
  have e3 : List.take 1 (a0 :: r0t ++ [c0] ++ List.drop (n + 1) t) = [a0] := by simp
  rw [e2, e3]
  have e4 : [a0] ++ (b0 :: (mid ++ [ca])) ++ List.drop (n + 1) t = (a0 :: b0 :: mid) ++ ([ca] ++ List.drop (n + 1) t) := by simp
  rw [e4]
  have hl : (a0 :: b0 :: mid).length = n := by simp [hmid]; omega
  have e5 : ((a0 :: b0 :: mid) ++ ([ca] ++ List.drop (n + 1) t)).getD n 0 = ca := by
    rw [List.getD_eq_getElem?_getD, List.getElem?_append_right (by omega), hl]; simp
  have e6 : List.take n ((a0 :: b0 :: mid) ++ ([ca] ++ List.drop (n + 1) t)) = a0 :: b0 :: mid := List.take_left' hl
  have e7 : List.drop (n + 1) ((a0 :: b0 :: mid) ++ ([ca] ++ List.drop (n + 1) t)) = List.drop (n + 1) t := by
    rw [← List.append_assoc, List.drop_left' (by simp [hmid]; omega)]
  rw [e5, e6, e7]
  simp

theorem mod_zero_of_add (a X Y M : Nat) (h : a + M * X = M * Y) : a % M = 0 := by
  have h1 : M ∣ a + M * X := by rw [h]; exact Dvd.intro _ rfl
  have h2 : M ∣ a := (Nat.dvd_add_left (Dvd.intro _ rfl)).mp h1
  exact Nat.mod_eq_zero_of_dvd h2

/-- one round of redc_2.c:88-96: with `mip = −1/m mod B²` the two low limbs are cleared, the two carries are parked -/
theorem redc2Step_inv (mp : List Nat) (mip0 mip1 : Nat) (hmp : Limbs mp) (hn : 2 ≤ mp.length)
    (hinv2 : ((mip0 + B * mip1) * val mp) % (B * B) = B * B - 1)
    (cs t : List Nat) (ht : Limbs t) (hlen : mp.length + 2 ≤ t.length) :
    ∃ q ca cb t', redc2Step mp mp.length mip0 mip1 cs t = (cs ++ [ca, cb], t') ∧ q < B * B ∧ ca < B ∧ cb < B ∧
      Limbs t' ∧ t'.length + 2 = t.length ∧
      val t + q * val mp = B * B * val t' + B ^ mp.length * (ca + B * cb) := by
  set n := mp.length with hnd
  have hBpos := B_pos
  -- the window
  obtain ⟨u0, t1, rfl⟩ : ∃ u0 t1, t = u0 :: t1 := List.exists_cons_of_length_pos (by omega)
  obtain ⟨u1, rest, rfl⟩ : ∃ u1 rest, t1 = u1 :: rest := List.exists_cons_of_length_pos (by simp at hlen; omega)
  have ⟨hu0, ht1⟩ := Limbs_cons.mp ht
  have ⟨hu1, hrest⟩ := Limbs_cons.mp ht1
  simp only [List.length_cons] at hlen
  have hg0 : (u0 :: u1 :: rest).getD 0 0 = u0 := rfl
  have hg1 : (u0 :: u1 :: rest).getD 1 0 = u1 := rfl
  set q0 := (mip0 * u0) % B with hq0
  set q1 := ((mip0 * u0) / B + mip0 * u1 + mip1 * u0) % B with hq1
  have hq0B : q0 < B := Nat.mod_lt _ hBpos
  have hq1B : q1 < B := Nat.mod_lt _ hBpos
  -- T0 = the low n limbs
  have htake : ((u0 :: u1 :: rest).take n).length = n := by rw [List.length_take]; simp; omega
  have hT0 : ∃ T', val ((u0 :: u1 :: rest).take n) = u0 + B * u1 + B * B * T' := by
    obtain ⟨n', hn'⟩ : ∃ n', n = n' + 2 := ⟨n - 2, by omega⟩
    rw [hn']; simp only [List.take_succ_cons, val_cons]
    exact ⟨val (rest.take n'), by ring⟩
  obtain ⟨T', hT'⟩ := hT0
  -- (T0 + m·q) is a multiple of B²
  have hzero : (val ((u0 :: u1 :: rest).take n) + val mp * (q0 + B * q1)) % (B * B) = 0 := by
    have hd0 := Nat.div_add_mod (mip0 * u0) B
    have hd1 := Nat.div_add_mod ((mip0 * u0) / B + mip0 * u1 + mip1 * u0) B
    have hW := Nat.div_add_mod ((mip0 + B * mip1) * val mp) (B * B)
    rw [hinv2] at hW
    rw [← hq0] at hd0
    rw [← hq1] at hd1
    generalize (mip0 * u0) / B = ph at *
    generalize (ph + mip0 * u1 + mip1 * u0) / B = e1 at *
    generalize ((mip0 + B * mip1) * val mp) / (B * B) = f at *
    have hBB : 1 ≤ B * B := Nat.mul_pos hBpos hBpos
    -- T0 + m q + B²·X = B²·Y
    apply mod_zero_of_add _ (val mp * (e1 + mip1 * u1)) (T' + (u0 + B * u1) * (f + 1))
    rw [hT']
    have hW' : (mip0 + B * mip1) * val mp + 1 = B * B * (f + 1) := by
      have : B * B * (f + 1) = B * B * f + B * B := by ring
      omega
    zify at hd0 hd1 hW' ⊢
    linear_combination ((val mp : Int)) * hd0 + ((B : Int) * val mp) * hd1 + ((u0 : Int) + B * u1) * hW'
  -- the two addmul_1
  obtain ⟨av, ac, aL, an⟩ := addmul_1_val ((u0 :: u1 :: rest).take n) mp q0 (Limbs_take ht _) hmp htake hq0B
  rw [htake] at av an
  generalize hA : addmul_1 ((u0 :: u1 :: rest).take n) mp q0 = A at *
  obtain ⟨r0, c0⟩ := A
  simp only at av ac aL an
  obtain ⟨a0, r0t, rfl⟩ : ∃ a0 r0t, r0 = a0 :: r0t := List.exists_cons_of_length_pos (by omega)
  have ⟨ha0, hr0tL⟩ := Limbs_cons.mp aL
  have hr0tl : r0t.length = n - 1 := by simp at an; omega
  have hwL : Limbs (r0t ++ [c0]) := Fft.Limbs_snoc.mpr ⟨hr0tL, ac⟩
  have hwl : (r0t ++ [c0]).length = n := by simp [hr0tl]; omega
  obtain ⟨bv, bc, bL, bn⟩ := addmul_1_val (r0t ++ [c0]) mp q1 hwL hmp hwl hq1B
  rw [hwl] at bv bn
  generalize hBm : addmul_1 (r0t ++ [c0]) mp q1 = Bm at *
  obtain ⟨r1, c1⟩ := Bm
  simp only at bv bc bL bn
  obtain ⟨b0, r1t, rfl⟩ : ∃ b0 r1t, r1 = b0 :: r1t := List.exists_cons_of_length_pos (by omega)
  have ⟨hb0, hr1tL⟩ := Limbs_cons.mp bL
  obtain ⟨mid, ca, rfl, hmidl⟩ := Fft.exists_snoc r1t (n - 2) (by simp at bn; omega)
  have ⟨hmidL, hca⟩ := Fft.Limbs_snoc.mp hr1tL
  have hstep := redc2Step_eq mp (u0 :: u1 :: rest) cs n mip0 mip1 a0 b0 ca c0 c1 r0t mid hn (by simp; omega)
    (by rw [hg0]; exact hA) hr0tl (by rw [hg0, hg1]; exact hBm) hmidl
  -- the value equation
  rw [Fft.val_snoc, hr0tl] at bv
  simp only [val_cons] at av bv
  rw [Fft.val_snoc, hmidl] at bv
  have hpn : B ^ n = B * B * B ^ (n - 2) := by
    have : B ^ n = B ^ ((n - 2) + 2) := by congr 1; omega
    rw [this, pow_add]; ring
  have hpn1 : B ^ (n - 1) = B * B ^ (n - 2) := by
    have : B ^ (n - 1) = B ^ ((n - 2) + 1) := by congr 1; omega
    rw [this, pow_succ]; ring
  have hsum : val ((u0 :: u1 :: rest).take n) + val mp * (q0 + B * q1) =
      a0 + B * b0 + B * B * (val mid + B ^ (n - 2) * ca) + B * B * (B ^ (n - 2) * (B * c1)) := by
    rw [hpn] at av bv
    rw [hpn1] at bv
    generalize B ^ (n - 2) = P at av bv ⊢
    zify at av bv ⊢
    linear_combination (-1 : Int) * av + (-(B : Int)) * bv
  have hab : a0 + B * b0 = 0 := by
    have h1 : (a0 + B * b0) % (B * B) = 0 := by
      rw [hsum] at hzero
      have : a0 + B * b0 + B * B * (val mid + B ^ (n - 2) * ca) + B * B * (B ^ (n - 2) * (B * c1)) =
          (a0 + B * b0) + B * B * ((val mid + B ^ (n - 2) * ca) + B ^ (n - 2) * (B * c1)) := by ring
      rw [this, Nat.add_mul_mod_self_left] at hzero; exact hzero
    have h2 : a0 + B * b0 < B * B := by
      have : B * b0 + B ≤ B * B := by
        have := Nat.mul_le_mul_left B (Nat.succ_le_of_lt hb0)
        rw [Nat.mul_succ] at this; exact this
      omega
    rwa [Nat.mod_eq_of_lt h2] at h1
  -- the rest of the window
  have hdrop := val_take_drop (u0 :: u1 :: rest) n (by simp; omega)
  have hdn : (u0 :: u1 :: rest).drop n = (u0 :: u1 :: rest).getD n 0 :: (u0 :: u1 :: rest).drop (n + 1) := by
    rw [List.drop_eq_getElem_cons (by simp; omega), List.getD_eq_getElem?_getD,
      List.getElem?_eq_getElem (by simp; omega)]; simp
  have hvd : val ((u0 :: u1 :: rest).drop n) =
      (u0 :: u1 :: rest).getD n 0 + B * val ((u0 :: u1 :: rest).drop (n + 1)) := by
    conv_lhs => rw [hdn]
    rw [val_cons]
  rw [hvd] at hdrop
  refine ⟨q0 + B * q1, ca, c1, mid ++ [(u0 :: u1 :: rest).getD n 0] ++ (u0 :: u1 :: rest).drop (n + 1), hstep, ?_, hca, bc,
    ?_, ?_, ?_⟩
  · have : B * q1 + B ≤ B * B := by
      have := Nat.mul_le_mul_left B (Nat.succ_le_of_lt hq1B)
      rw [Nat.mul_succ] at this; exact this
    omega
  · refine Limbs_append.mpr ⟨Fft.Limbs_snoc.mpr ⟨hmidL, ?_⟩, Limbs_drop ht _⟩
    rw [List.getD_eq_getElem?_getD, List.getElem?_eq_getElem (by simp; omega)]
    exact ht _ (List.getElem_mem _)
  · simp [hmidl]; omega
  · rw [val_append, Fft.val_snoc]
    simp only [List.length_append, List.length_cons, List.length_nil, hmidl]
    rw [hdrop, Nat.mul_comm (q0 + B * q1)]
    have e : n - 2 + (0 + 1) = n - 1 := by omega
    rw [e, hpn, hpn1]
    generalize B ^ (n - 2) = P at hsum ⊢
    generalize val ((u0 :: u1 :: rest).take n) = T0 at hsum ⊢
    zify at hsum hab ⊢
    linear_combination hsum + ((1 : Int)) * hab
end Mpir.Powm
