/- Refinement proofs for the size-aware model of mpz/aorsmul_i.c (Mpir/Model/AllocSafeMpz4.lean): every path of mpz_aorsmul_1
   refines the value-level model `Mpz.aorsmul_1` (Mpir/Model/Mpz.lean, exact by C01's `aorsmul_1_spec`) with `ok = true`, in
   the block `MPZ_REALLOC (w, new_wsize+1)` leaves.  The invariant is `Wrote s1 s2 w R` (AllocSafeCore2.lean): the bottom of
   w's block holds R; x is read either in the state right after the reallocation (first kernel call, also when x is w) or —
   only when x has more limbs than w, hence is another variable — through the frame of `Wrote`. -/
import MpirProofs.Lemmas.AllocSafeCfdiv2
import Mpir.Model.AllocSafeMpz4
import MpirProofs.Lemmas.MpzMul
namespace Mpir.AllocSafe
open Mpir
open Mpir.Mpz (sgn natAbs_sgn Norm)

theorem add_add_ptr (p : Ptr) (a b : Nat) : (p.add a).add b = p.add (a + b) := by
  cases p; simp [Ptr.add, Nat.add_assoc]

/-- a read of another variable after stores to w -/
theorem Wrote.rd_src {s1 s2 : St} {w : Nat} {R : List Nat} (W : Wrote s1 s2 w R) {x : Nat} {X : List Nat}
    (D : Den s1 (.ptr (s1.PTR x)) X) (hxw : x ≠ w) (k m : Nat) (hm : k + m ≤ X.length) :
    s2.rd ((s1.PTR x).add k) m = (X.drop k).take m ∧ s2.rdOk ((s1.PTR x).add k) m = true := by
  have h := D.rd_add k m hm
  simp only [Src.add, St.rdS, St.rdOkS] at h
  have hf := W.frame x hxw
  refine ⟨?_, ?_⟩
  · rw [← h.1]; simp only [St.rd, add_id, PTR_id, hf]
  · rw [← h.2]; simp only [St.rdOk, St.live, add_id, PTR_id, hf]

/-- the base invariant right after the reallocation -/
theorem Wrote.base (s1 : St) (w : Nat) (Wd : List Nat) (hok : s1.ok = true) (hb : BWF (s1.h w).buf)
    (hWd : (s1.h w).buf.limbs.take Wd.length = Wd) : Wrote s1 s1 w Wd :=
  ⟨hok, hb, hWd, rfl, rfl, fun _ _ => rfl⟩

/-- the ending shared by the paths without normalisation: size = ±n with n ≤ |R| -/
theorem Wrote.fin_take {s1 s2 : St} {w : Nat} {R : List Nat} (W : Wrote s1 s2 w R) (neg : Bool) (n : Nat)
    (hn : n ≤ R.length) :
    Refines s1 (s2.setSize w (sgn neg n)) w ⟨(s1.h w).buf.alloc, sgn neg n, R.take n⟩ := by
  have R1 := (W.setSize (sgn neg n)).refines (sgn neg n) (by simp) (by rw [natAbs_sgn]; exact hn)
  rw [natAbs_sgn] at R1
  exact R1

/-- the ending shared by the paths with MPN_NORMALIZE -/
theorem Wrote.fin_norm {s1 s2 : St} {w : Nat} {R : List Nat} (W : Wrote s1 s2 w R) (neg : Bool) :
    Refines s1 ((MPN_NORMALIZE s2 (s1.PTR w) R.length).2.setSize w (sgn neg (MPN_NORMALIZE s2 (s1.PTR w) R.length).1)) w
      ⟨(s1.h w).buf.alloc, sgn neg (normalize R).length, normalize R⟩ := by
  obtain ⟨e, W2⟩ := W.normalize
  rw [e]
  have R1 := W2.fin_take neg (normalize R).length (Mpz.normalize_length_le R)
  rw [take_normalize_length] at R1
  exact R1

/-! ## aorsmul_i.c:100-131, addmul of absolute values -/

theorem aorsmul_1_add_refines (s1 : St) (w x : Nat) (y : Nat) (wneg : Bool) (Wd Xd : List Nat)
    (hok : s1.ok = true) (hb : BWF (s1.h w).buf) (hWd : (s1.h w).buf.limbs.take Wd.length = Wd)
    (Dx : Den s1 (.ptr (s1.PTR x)) Xd) (hLW : Limbs Wd) (hLX : Limbs Xd) (hy : y < B)
    (hxw : x = w → Xd.length = Wd.length)
    (hroom : max Wd.length Xd.length + 1 ≤ (s1.h w).buf.alloc) :
    Refines s1 (aorsmul_1_add s1 w x y wneg Wd.length Xd.length) w
      ⟨(s1.h w).buf.alloc, sgn wneg (Mpz.aorsmul_1_add Wd Xd y).1, (Mpz.aorsmul_1_add Wd Xd y).2⟩ := by
  have W0 := Wrote.base s1 w Wd hok hb hWd
  unfold aorsmul_1_add Mpz.aorsmul_1_add
  obtain ⟨ew, okw⟩ := W0.rd (min Wd.length Xd.length) (Nat.min_le_left _ _)
  obtain ⟨ex, okx⟩ := Dx.rd (min Wd.length Xd.length) (Nat.min_le_right _ _)
  simp only [St.rdS, St.rdOkS] at ex okx
  have htl : (Wd.take (min Wd.length Xd.length)).length = (Xd.take (min Wd.length Xd.length)).length := by
    simp only [List.length_take]; omega
  obtain ⟨_, rc, rl, rn⟩ := Mpz.K.addmul_1_val (Wd.take (min Wd.length Xd.length)) (Xd.take (min Wd.length Xd.length)) y
    (Limbs_take hLW _) (Limbs_take hLX _) hy htl
  have rn' : (Mpir.addmul_1 (Wd.take (min Wd.length Xd.length)) (Xd.take (min Wd.length Xd.length)) y).1.length =
      min Wd.length Xd.length := by rw [rn, List.length_take]; omega
  have W1 := W0.wr 0 _ rl (Nat.zero_le _) (by rw [rn']; omega)
  simp only [add_zero_ptr, List.take_zero, List.nil_append, Nat.zero_add, rn'] at W1
  simp only [mpn_addmul_1, ew, ex, okw, okx, Bool.and_self, chk_true]
  generalize Mpir.addmul_1 (Wd.take (min Wd.length Xd.length)) (Xd.take (min Wd.length Xd.length)) y = r at *
  rcases Nat.lt_trichotomy Xd.length Wd.length with hlt | heq | hgt
  · -- xsize < wsize: the carry runs through the rest of w
    have e1 : min Wd.length Xd.length = Xd.length := Nat.min_eq_right (by omega)
    have e2 : max Wd.length Xd.length = Wd.length := Nat.max_eq_left (by omega)
    have e3 : (Xd.length != Wd.length) = true := by simp; omega
    have e4 : ¬ Xd.length > Wd.length := by omega
    rw [e1] at W1 rn' ⊢
    rw [e2] at hroom ⊢
    simp only [e3, if_true, if_neg e4]
    have hdl : (Wd.drop Xd.length).length = Wd.length - Xd.length := by simp
    have hdne : Wd.drop Xd.length ≠ [] := by intro h; rw [h] at hdl; simp at hdl; omega
    obtain ⟨_, ac, al, an⟩ := Mpz.K.add_1_val (Wd.drop Xd.length) r.2 (Limbs_drop hLW _) rc hdne
    obtain ⟨e, ok⟩ := W1.rd_off Xd.length (Wd.length - Xd.length) (by simp [rn']; omega)
    rw [List.drop_left' rn', List.take_of_length_le (by omega)] at e
    simp only [mpn_add_1, e, ok, chk_true]
    have W2 := W1.wr Xd.length _ al (by simp [rn']) (by rw [an, hdl]; omega)
    rw [List.take_left' rn', an, hdl, List.drop_of_length_le (by simp [rn']; omega), List.append_nil] at W2
    generalize Mpir.add_1 (Wd.drop Xd.length) r.2 = a at *
    have hl2 : (r.1 ++ a.1).length = Wd.length := by simp [rn', an, hdl]; omega
    have W3 := W2.append [a.2] (limb_singleton (by have := B_eq; omega)) (by rw [hl2]; simpa using hroom)
    rw [hl2] at W3
    have hmod : (0 + a.2) % B = a.2 := by rw [Nat.zero_add]; exact Nat.mod_eq_of_lt (by have := B_eq; omega)
    simp only [hmod]
    have F := W3.fin_take wneg (Wd.length + (if a.2 != 0 then 1 else 0)) (by simp [hl2]; split <;> omega)
    simpa [St.store, add_add_ptr, show Xd.length + (Wd.length - Xd.length) = Wd.length by omega] using F
  · -- equal sizes
    have e1 : min Wd.length Xd.length = Wd.length := by omega
    have e2 : max Wd.length Xd.length = Wd.length := by omega
    have e3 : (Xd.length != Wd.length) = false := by simp; omega
    rw [e1] at W1 rn' ⊢
    rw [e2] at hroom ⊢
    simp only [e3, Bool.false_eq_true, if_false]
    rw [List.drop_of_length_le (Nat.le_refl _), List.append_nil] at W1
    have W3 := W1.append [r.2] (limb_singleton rc) (by rw [rn']; simpa using hroom)
    rw [rn'] at W3
    have F := W3.fin_take wneg (Wd.length + (if r.2 != 0 then 1 else 0)) (by simp [rn']; split <;> omega)
    simpa [St.store, add_add_ptr] using F
  · -- xsize > wsize: x is another variable; mul_1 of its high part, then the carry of the low part added in
    have hxw' : x ≠ w := fun h => by have := hxw h; omega
    have e1 : min Wd.length Xd.length = Wd.length := Nat.min_eq_left (by omega)
    have e2 : max Wd.length Xd.length = Xd.length := Nat.max_eq_right (by omega)
    have e3 : (Xd.length != Wd.length) = true := by simp; omega
    rw [e1] at W1 rn' ⊢
    rw [e2] at hroom ⊢
    simp only [e3, if_true, if_pos hgt]
    rw [List.drop_of_length_le (Nat.le_refl _), List.append_nil] at W1
    have hdl : (Xd.drop Wd.length).length = Xd.length - Wd.length := by simp
    have hdne : Xd.drop Wd.length ≠ [] := by intro h; rw [h] at hdl; simp at hdl; omega
    obtain ⟨e, ok⟩ := W1.rd_src Dx hxw' Wd.length (Xd.length - Wd.length) (by omega)
    rw [List.take_of_length_le (by omega)] at e
    obtain ⟨_, mc, ml, mn⟩ := Mpz.K.mul_1_val (Xd.drop Wd.length) y (Limbs_drop hLX _) hy
    simp only [mpn_mul_1, e, ok, chk_true]
    have W2 := W1.append _ ml (by rw [rn', mn, hdl]; omega)
    rw [rn'] at W2
    have mne : (Mpir.mul_1 (Xd.drop Wd.length) y).1 ≠ [] := by
      intro h; rw [h] at mn; simp at mn; omega
    generalize Mpir.mul_1 (Xd.drop Wd.length) y = m at *
    obtain ⟨_, ac, al, an⟩ := Mpz.K.add_1_val m.1 r.2 ml rc mne
    obtain ⟨e', ok'⟩ := W2.rd_off Wd.length (Xd.length - Wd.length) (by simp [rn', mn, hdl])
    rw [List.drop_left' rn', List.take_of_length_le (by rw [mn, hdl])] at e'
    simp only [mpn_add_1, e', ok', chk_true]
    have W3 := W2.wr_tail Wd.length _ al (by simp [rn', an, mn])
    rw [List.take_left' rn'] at W3
    generalize Mpir.add_1 m.1 r.2 = a at *
    have hl2 : (r.1 ++ a.1).length = Xd.length := by simp [rn', an, mn, hdl]; omega
    have W4 := W3.append [(m.2 + a.2) % B] (limb_singleton (Nat.mod_lt _ B_pos)) (by rw [hl2]; simpa using hroom)
    rw [hl2] at W4
    have F := W4.fin_take wneg (Xd.length + (if (m.2 + a.2) % B != 0 then 1 else 0)) (by simp [hl2]; split <;> omega)
    simpa [St.store, add_add_ptr, show Wd.length + (Xd.length - Wd.length) = Xd.length by omega] using F

end Mpir.AllocSafe
