/- Refinement proofs for the size-aware model of mpz/aorsmul_i.c (Mpir/Model/AllocSafeMpz4.lean): every path of mpz_aorsmul_1
   refines the value-level model `Mpz.aorsmul_1` (Mpir/Model/Mpz.lean, exact by C01's `aorsmul_1_spec`) with `ok = true`, in
   the block `MPZ_REALLOC (w, new_wsize+1)` leaves.  The invariant is `Wrote s1 s2 w R` (AllocSafeCore2.lean): the bottom of
   w's block holds R; x is read either in the state right after the reallocation (first kernel call, also when x is w) or —
   only when x has more limbs than w, hence is another variable — through the frame of `Wrote`. -/
import MpirProofs.Lemmas.AllocSafeCfdiv2
import Mpir.Model.AllocSafeMpz4
import MpirProofs.Lemmas.MpzMul
namespace Mpir.AllocSafe
open Mpir
open Mpir.Mpz (sgn natAbs_sgn Norm)

theorem add_add_ptr (p : Ptr) (a b : Nat) : (p.add a).add b = p.add (a + b) := by
  cases p; simp [Ptr.add, Nat.add_assoc]

/-- a read of another variable after stores to w -/
theorem Wrote.rd_src {s1 s2 : St} {w : Nat} {R : List Nat} (W : Wrote s1 s2 w R) {x : Nat} {X : List Nat}
    (D : Den s1 (.ptr (s1.PTR x)) X) (hxw : x ≠ w) (k m : Nat) (hm : k + m ≤ X.length) :
    s2.rd ((s1.PTR x).add k) m = (X.drop k).take m ∧ s2.rdOk ((s1.PTR x).add k) m = true := by
  have h := D.rd_add k m hm
  simp only [Src.add, St.rdS, St.rdOkS] at h
  have hf := W.frame x hxw
  refine ⟨?_, ?_⟩
  · rw [← h.1]; simp only [St.rd, add_id, PTR_id, hf]
  · rw [← h.2]; simp only [St.rdOk, St.live, add_id, PTR_id, hf]

/-- the base invariant right after the reallocation -/
theorem Wrote.base (s1 : St) (w : Nat) (Wd : List Nat) (hok : s1.ok = true) (hb : BWF (s1.h w).buf)
    (hWd : (s1.h w).buf.limbs.take Wd.length = Wd) : Wrote s1 s1 w Wd :=
  ⟨hok, hb, hWd, rfl, rfl, fun _ _ => rfl⟩

/-- the ending shared by the paths without normalisation: size = ±n with n ≤ |R| -/
theorem Wrote.fin_take {s1 s2 : St} {w : Nat} {R : List Nat} (W : Wrote s1 s2 w R) (neg : Bool) (n : Nat)
    (hn : n ≤ R.length) :
    Refines s1 (s2.setSize w (sgn neg n)) w ⟨(s1.h w).buf.alloc, sgn neg n, R.take n⟩ := by
  have R1 := (W.setSize (sgn neg n)).refines (sgn neg n) (by simp) (by rw [natAbs_sgn]; exact hn)
  rw [natAbs_sgn] at R1
  exact R1

/-- the ending shared by the paths with MPN_NORMALIZE -/
theorem Wrote.fin_norm {s1 s2 : St} {w : Nat} {R : List Nat} (W : Wrote s1 s2 w R) (neg : Bool) :
    Refines s1 ((MPN_NORMALIZE s2 (s1.PTR w) R.length).2.setSize w (sgn neg (MPN_NORMALIZE s2 (s1.PTR w) R.length).1)) w
      ⟨(s1.h w).buf.alloc, sgn neg (Mpir.normalize R).length, Mpir.normalize R⟩ := by
  obtain ⟨e, W2⟩ := W.normalize
  rw [e]
  have R1 := W2.fin_take neg (Mpir.normalize R).length (Mpz.normalize_length_le R)
  rw [take_normalize_length] at R1
  exact R1

/-! ## aorsmul_i.c:100-131, addmul of absolute values -/

theorem aorsmul_1_add_refines (s1 : St) (w x : Nat) (y : Nat) (wneg : Bool) (Wd Xd : List Nat)
    (hok : s1.ok = true) (hb : BWF (s1.h w).buf) (hWd : (s1.h w).buf.limbs.take Wd.length = Wd)
    (Dx : Den s1 (.ptr (s1.PTR x)) Xd) (hLW : Limbs Wd) (hLX : Limbs Xd) (hy : y < B)
    (hxw : x = w → Xd.length = Wd.length)
    (hroom : max Wd.length Xd.length + 1 ≤ (s1.h w).buf.alloc) :
    Refines s1 (aorsmul_1_add s1 w x y wneg Wd.length Xd.length) w
      ⟨(s1.h w).buf.alloc, sgn wneg (Mpz.aorsmul_1_add Wd Xd y).1, (Mpz.aorsmul_1_add Wd Xd y).2⟩ := by
  have W0 := Wrote.base s1 w Wd hok hb hWd
  unfold aorsmul_1_add Mpz.aorsmul_1_add
  obtain ⟨ew, okw⟩ := W0.rd (min Wd.length Xd.length) (Nat.min_le_left _ _)
  obtain ⟨ex, okx⟩ := Dx.rd (min Wd.length Xd.length) (Nat.min_le_right _ _)
  simp only [St.rdS, St.rdOkS] at ex okx
  have htl : (Wd.take (min Wd.length Xd.length)).length = (Xd.take (min Wd.length Xd.length)).length := by
    simp only [List.length_take]; omega
  obtain ⟨_, rc, rl, rn⟩ := Mpz.K.addmul_1_val (Wd.take (min Wd.length Xd.length)) (Xd.take (min Wd.length Xd.length)) y
    (Limbs_take hLW _) (Limbs_take hLX _) hy htl
  have rn' : (Mpir.addmul_1 (Wd.take (min Wd.length Xd.length)) (Xd.take (min Wd.length Xd.length)) y).1.length =
      min Wd.length Xd.length := by rw [rn, List.length_take]; omega
  have W1 := W0.wr 0 _ rl (Nat.zero_le _) (by rw [rn']; omega)
  simp only [add_zero_ptr, List.take_zero, List.nil_append, Nat.zero_add, rn'] at W1
  simp only [mpn_addmul_1, ew, ex, okw, okx, Bool.and_self, chk_true]
  generalize Mpir.addmul_1 (Wd.take (min Wd.length Xd.length)) (Xd.take (min Wd.length Xd.length)) y = r at *
  rcases Nat.lt_trichotomy Xd.length Wd.length with hlt | heq | hgt
  · -- xsize < wsize: the carry runs through the rest of w
    have e1 : min Wd.length Xd.length = Xd.length := Nat.min_eq_right (by omega)
    have e2 : max Wd.length Xd.length = Wd.length := Nat.max_eq_left (by omega)
    have e3 : (Xd.length != Wd.length) = true := by simp; omega
    have e4 : ¬ Xd.length > Wd.length := by omega
    rw [e1] at W1 rn' ⊢
    rw [e2] at hroom ⊢
    simp only [e3, if_true, if_neg e4]
    have hdl : (Wd.drop Xd.length).length = Wd.length - Xd.length := by simp
    have hdne : Wd.drop Xd.length ≠ [] := by intro h; rw [h] at hdl; simp at hdl; omega
    obtain ⟨_, ac, al, an⟩ := Mpz.K.add_1_val (Wd.drop Xd.length) r.2 (Limbs_drop hLW _) rc hdne
    obtain ⟨e, ok⟩ := W1.rd_off Xd.length (Wd.length - Xd.length) (by simp [rn'])
    rw [List.drop_left' rn', List.take_of_length_le (by omega)] at e
    simp only [mpn_add_1, e, ok, chk_true]
    generalize Mpir.add_1 (Wd.drop Xd.length) r.2 = a at *
    have W2 := W1.wr_tail Xd.length a.1 al (by simp [rn', an, hdl])
    rw [List.take_left' rn'] at W2
    have hl2 : (r.1 ++ a.1).length = Wd.length := by simp [rn', an, hdl]; omega
    have W3 := W2.append [a.2] (limb_singleton (by have := B_eq; omega)) (by rw [hl2]; simpa using hroom)
    rw [hl2] at W3
    have hmod : (0 + a.2) % B = a.2 := by rw [Nat.zero_add]; exact Nat.mod_eq_of_lt (by have := B_eq; omega)
    simp only [hmod]
    have F := W3.fin_take wneg (Wd.length + (if a.2 != 0 then 1 else 0)) (by simp [hl2]; split <;> omega)
    simpa [St.store, add_add_ptr, show Xd.length + (Wd.length - Xd.length) = Wd.length by omega] using F
  · -- equal sizes
    have e1 : min Wd.length Xd.length = Wd.length := by omega
    have e2 : max Wd.length Xd.length = Wd.length := by omega
    have e3 : (Xd.length != Wd.length) = false := by simp; omega
    rw [e1] at W1 rn' ⊢
    rw [e2] at hroom ⊢
    simp only [e3, Bool.false_eq_true, if_false]
    rw [List.drop_of_length_le (Nat.le_refl _), List.append_nil] at W1
    have W3 := W1.append [r.2] (limb_singleton rc) (by rw [rn']; simpa using hroom)
    rw [rn'] at W3
    have F := W3.fin_take wneg (Wd.length + (if r.2 != 0 then 1 else 0)) (by simp [rn']; split <;> omega)
    simpa [St.store, add_add_ptr] using F
  · -- xsize > wsize: x is another variable; mul_1 of its high part, then the carry of the low part added in
    have hxw' : x ≠ w := fun h => by have := hxw h; omega
    have e1 : min Wd.length Xd.length = Wd.length := Nat.min_eq_left (by omega)
    have e2 : max Wd.length Xd.length = Xd.length := Nat.max_eq_right (by omega)
    have e3 : (Xd.length != Wd.length) = true := by simp; omega
    rw [e1] at W1 rn' ⊢
    rw [e2] at hroom ⊢
    simp only [e3, if_true, if_pos hgt]
    rw [List.drop_of_length_le (Nat.le_refl _), List.append_nil] at W1
    have hdl : (Xd.drop Wd.length).length = Xd.length - Wd.length := by simp
    have hdne : Xd.drop Wd.length ≠ [] := by intro h; rw [h] at hdl; simp at hdl; omega
    obtain ⟨e, ok⟩ := W1.rd_src Dx hxw' Wd.length (Xd.length - Wd.length) (by omega)
    rw [List.take_of_length_le (by omega)] at e
    obtain ⟨_, mc, ml, mn⟩ := Mpz.K.mul_1_val (Xd.drop Wd.length) y (Limbs_drop hLX _) hy
    simp only [mpn_mul_1, e, ok, chk_true]
    have W2 := W1.append _ ml (by rw [rn', mn, hdl]; omega)
    rw [rn'] at W2
    have mne : (Mpir.mul_1 (Xd.drop Wd.length) y).1 ≠ [] := by
      intro h; rw [h] at mn; simp at mn; omega
    generalize Mpir.mul_1 (Xd.drop Wd.length) y = m at *
    obtain ⟨_, ac, al, an⟩ := Mpz.K.add_1_val m.1 r.2 ml rc mne
    obtain ⟨e', ok'⟩ := W2.rd_off Wd.length (Xd.length - Wd.length) (by simp [rn', mn, hdl])
    rw [List.drop_left' rn', List.take_of_length_le (by rw [mn, hdl])] at e'
    simp only [mpn_add_1, e', ok', chk_true]
    have W3 := W2.wr_tail Wd.length _ al (by simp [rn', an, mn])
    rw [List.take_left' rn'] at W3
    generalize Mpir.add_1 m.1 r.2 = a at *
    have hl2 : (r.1 ++ a.1).length = Xd.length := by simp [rn', an, mn, hdl]; omega
    have W4 := W3.append [(m.2 + a.2) % B] (limb_singleton (Nat.mod_lt _ B_pos)) (by rw [hl2]; simpa using hroom)
    rw [hl2] at W4
    have F := W4.fin_take wneg (Xd.length + (if (m.2 + a.2) % B != 0 then 1 else 0)) (by simp [hl2]; split <;> omega)
    simpa [St.store, add_add_ptr, show Wd.length + (Xd.length - Wd.length) = Xd.length by omega] using F

/-! ## aorsmul_i.c:137-154, submul of absolute values, w at least as long as x -/

theorem bne_true' (b : Bool) : (b != true) = !b := by cases b <;> rfl
theorem bne_false' (b : Bool) : (b != false) = b := by cases b <;> rfl

/-- aorsmul_i.c:144-154, 185-188 on `buf` (n limbs, n + 1 ≤ alloc): the store `wp[new_wsize] = ~-cy` goes to the extra limb -/
theorem subGeFix_refines {s1 s2 : St} {w : Nat} {buf : List Nat} (W : Wrote s1 s2 w buf) (wneg : Bool) (cy : Nat)
    (hroom : buf.length + 1 ≤ (s1.h w).buf.alloc) :
    Refines s1 (aorsmul_1_subGeFix s2 w wneg buf.length cy) w
      ⟨(s1.h w).buf.alloc, sgn (wneg != (Mpz.subGeFix buf cy).1) (Mpz.subGeFix buf cy).2.length, (Mpz.subGeFix buf cy).2⟩ := by
  have hp : s2.PTR w = s1.PTR w := by simp [St.PTR, W.gen]
  have hB := B_pos
  unfold aorsmul_1_subGeFix Mpz.subGeFix
  rw [hp]
  by_cases hc0 : cy = 0
  · have e : (cy != 0) = false := by simp [hc0]
    simp only [e, Bool.false_eq_true, if_false, bne_false']
    exact W.fin_norm wneg
  · have e : (cy != 0) = true := by simp [hc0]
    simp only [e, if_true, bne_true']
    have W1 := W.append [B - 1 - (B - cy) % B] (limb_singleton (by omega)) (by simpa using hroom)
    obtain ⟨e1, ok1⟩ := W1.rd buf.length (by simp)
    rw [List.take_left' rfl] at e1
    obtain ⟨_, cl, cn⟩ := Mpz.K.com_n_val buf W.limbs
    have W2 := W1.wr 0 (Mpir.com_n buf) cl (Nat.zero_le _) (by rw [cn]; omega)
    simp only [add_zero_ptr, List.take_zero, List.nil_append, Nat.zero_add, cn, List.drop_left' rfl] at W2
    have hl2 : (Mpir.com_n buf ++ [B - 1 - (B - cy) % B]).length = buf.length + 1 := by simp [cn]
    obtain ⟨e2, ok2⟩ := W2.rd (buf.length + 1) (by rw [hl2])
    rw [List.take_of_length_le (by rw [hl2])] at e2
    obtain ⟨_, _, il, iln⟩ := Mpz.K.incr_val (Mpir.com_n buf ++ [B - 1 - (B - cy) % B])
      (Limbs_append.mpr ⟨cl, limb_singleton (by omega)⟩)
    rw [hl2] at iln
    have W3 := W2.wr 0 _ il (Nat.zero_le _) (by rw [iln]; omega)
    simp only [add_zero_ptr, List.take_zero, List.nil_append, Nat.zero_add, iln,
      List.drop_of_length_le (Nat.le_of_eq hl2), List.append_nil] at W3
    have F := W3.fin_norm (!wneg)
    rw [iln] at F
    simpa [St.store, mpn_not, mpn_com_n, MPN_INCR_U, e1, ok1, e2, ok2, chk_true] using F

theorem aorsmul_1_sub_ge_refines (s1 : St) (w x : Nat) (y : Nat) (wneg : Bool) (Wd Xd : List Nat)
    (hok : s1.ok = true) (hb : BWF (s1.h w).buf) (hWd : (s1.h w).buf.limbs.take Wd.length = Wd)
    (Dx : Den s1 (.ptr (s1.PTR x)) Xd) (hLW : Limbs Wd) (hLX : Limbs Xd) (hy : y < B)
    (hge : Wd.length ≥ Xd.length)
    (hroom : max Wd.length Xd.length + 1 ≤ (s1.h w).buf.alloc) :
    Refines s1 (aorsmul_1_sub_ge s1 w x y wneg Wd.length Xd.length) w
      ⟨(s1.h w).buf.alloc, sgn (wneg != (Mpz.aorsmul_1_sub_ge Wd Xd y).1) (Mpz.aorsmul_1_sub_ge Wd Xd y).2.length,
        (Mpz.aorsmul_1_sub_ge Wd Xd y).2⟩ := by
  have W0 := Wrote.base s1 w Wd hok hb hWd
  rw [Mpz.aorsmul_1_sub_ge_eq]
  unfold aorsmul_1_sub_ge Mpz.subGeBorrow
  have e1 : min Wd.length Xd.length = Xd.length := Nat.min_eq_right hge
  have e2 : max Wd.length Xd.length = Wd.length := Nat.max_eq_left hge
  rw [e1]
  rw [e2] at hroom ⊢
  obtain ⟨ew, okw⟩ := W0.rd Xd.length hge
  obtain ⟨ex, okx⟩ := Dx.rd Xd.length (Nat.le_refl _)
  simp only [St.rdS, St.rdOkS] at ex okx
  rw [List.take_length] at ex
  have htl : (Wd.take Xd.length).length = Xd.length := by simp; omega
  obtain ⟨_, rc, rl, rn⟩ := Mpz.K.submul_1_val (Wd.take Xd.length) Xd y (Limbs_take hLW _) hLX hy htl
  have W1 := W0.wr 0 _ rl (Nat.zero_le _) (by rw [rn]; omega)
  simp only [add_zero_ptr, List.take_zero, List.nil_append, Nat.zero_add, rn] at W1
  simp only [mpn_submul_1, ew, ex, okw, okx, Bool.and_self, chk_true]
  generalize Mpir.submul_1 (Wd.take Xd.length) Xd y = r at *
  by_cases heq : Wd.length = Xd.length
  · have e3 : (Wd.length != Xd.length) = false := by simp [heq]
    simp only [e3, Bool.false_eq_true, if_false]
    rw [List.drop_of_length_le (by omega), List.append_nil] at W1
    have F := subGeFix_refines W1 wneg r.2 (by rw [rn]; omega)
    rw [rn, ← heq] at F
    simpa using F
  · have e3 : (Wd.length != Xd.length) = true := by simp [heq]
    simp only [e3, if_true]
    have hdl : (Wd.drop Xd.length).length = Wd.length - Xd.length := by simp
    have hdne : Wd.drop Xd.length ≠ [] := by intro h; rw [h] at hdl; simp at hdl; omega
    obtain ⟨_, _, bl, bn⟩ := Mpz.K.sub_1_val (Wd.drop Xd.length) r.2 (Limbs_drop hLW _) rc hdne
    obtain ⟨e, ok⟩ := W1.rd_off Xd.length (Wd.length - Xd.length) (by simp [rn])
    rw [List.drop_left' rn, List.take_of_length_le (by omega)] at e
    simp only [mpn_sub_1, e, ok, chk_true]
    generalize Mpir.sub_1 (Wd.drop Xd.length) r.2 = b at *
    have W2 := W1.wr_tail Xd.length b.1 bl (by simp [rn, bn, hdl])
    rw [List.take_left' rn] at W2
    have hl2 : (r.1 ++ b.1).length = Wd.length := by simp [rn, bn, hdl]; omega
    have F := subGeFix_refines W2 wneg b.2 (by rw [hl2]; omega)
    rw [hl2] at F
    exact F

/-! ## aorsmul_i.c:77-87, w = 0: the plain product -/

theorem aorsmul_1_zero_refines (s1 : St) (w x : Nat) (y : Nat) (sub : Bool) (Xd : List Nat)
    (hok : s1.ok = true) (hb : BWF (s1.h w).buf) (Dx : Den s1 (.ptr (s1.PTR x)) Xd) (hLX : Limbs Xd) (hy : y < B)
    (hroom : Xd.length + 1 ≤ (s1.h w).buf.alloc) :
    Refines s1 (((mpn_mul_1 s1 (s1.PTR w) (s1.PTR x) Xd.length y).1.store (s1.PTR w) Xd.length
        (mpn_mul_1 s1 (s1.PTR w) (s1.PTR x) Xd.length y).2).setSize w
          (sgn sub (Xd.length + (if (mpn_mul_1 s1 (s1.PTR w) (s1.PTR x) Xd.length y).2 != 0 then 1 else 0)))) w
      ⟨(s1.h w).buf.alloc, sgn sub (Xd.length + (if (Mpir.mul_1 Xd y).2 != 0 then 1 else 0)),
        ((Mpir.mul_1 Xd y).1 ++ [(Mpir.mul_1 Xd y).2]).take (Xd.length + (if (Mpir.mul_1 Xd y).2 != 0 then 1 else 0))⟩ := by
  obtain ⟨ex, okx⟩ := Dx.rd Xd.length (Nat.le_refl _)
  simp only [St.rdS, St.rdOkS] at ex okx
  rw [List.take_length] at ex
  obtain ⟨_, mc, ml, mn⟩ := Mpz.K.mul_1_val Xd y hLX hy
  simp only [mpn_mul_1, ex, okx]
  have T := tail_carry s1 w (Mpir.mul_1 Xd y).1 (Mpir.mul_1 Xd y).2
    (Xd.length + (if (Mpir.mul_1 Xd y).2 != 0 then 1 else 0)) sub true hok rfl hb ml mc (by rw [mn]; exact hroom)
    (by rw [mn]; split <;> omega)
  simp only [mn] at T
  exact T

/-! ## aorsmul_i.c:155-181, submul of absolute values, x longer than w -/

theorem aorsmul_1_sub_lt_refines (s1 : St) (w x : Nat) (y : Nat) (wneg : Bool) (Wd Xd : List Nat)
    (hok : s1.ok = true) (hb : BWF (s1.h w).buf) (hWd : (s1.h w).buf.limbs.take Wd.length = Wd)
    (Dx : Den s1 (.ptr (s1.PTR x)) Xd) (hLW : Limbs Wd) (hLX : Limbs Xd) (hy : y < B)
    (hW1 : 1 ≤ Wd.length) (hlt : Wd.length < Xd.length) (hxw : x ≠ w)
    (hroom : max Wd.length Xd.length + 1 ≤ (s1.h w).buf.alloc) :
    Refines s1 (aorsmul_1_sub_lt s1 w x y wneg Wd.length Xd.length) w
      ⟨(s1.h w).buf.alloc, sgn (!wneg) (Mpz.aorsmul_1_sub_lt Wd Xd y).length, Mpz.aorsmul_1_sub_lt Wd Xd y⟩ := by
  have W0 := Wrote.base s1 w Wd hok hb hWd
  have hB := B_pos
  rw [Mpz.aorsmul_1_sub_lt_eq]
  unfold aorsmul_1_sub_lt Mpz.subLtCore Mpz.mul_1c
  have e1 : min Wd.length Xd.length = Wd.length := Nat.min_eq_left (by omega)
  have e2 : max Wd.length Xd.length = Xd.length := Nat.max_eq_right (by omega)
  rw [e1]
  rw [e2] at hroom ⊢
  -- mpn_submul_1 on the low limbs
  obtain ⟨ew, okw⟩ := W0.rd Wd.length (Nat.le_refl _)
  rw [List.take_length] at ew
  obtain ⟨ex, okx⟩ := Dx.rd Wd.length (by omega)
  simp only [St.rdS, St.rdOkS] at ex okx
  have htl : Wd.length = (Xd.take Wd.length).length := by simp; omega
  obtain ⟨_, rc, rl, rn⟩ := Mpz.K.submul_1_val Wd (Xd.take Wd.length) y hLW (Limbs_take hLX _) hy htl
  rw [← htl] at rn
  have W1 := W0.wr 0 _ rl (Nat.zero_le _) (by rw [rn]; omega)
  simp only [add_zero_ptr, List.take_zero, List.nil_append, Nat.zero_add, rn, List.drop_length, List.append_nil] at W1
  simp only [mpn_submul_1, ew, ex, okw, okx, Bool.and_self, chk_true]
  generalize Mpir.submul_1 Wd (Xd.take Wd.length) y = r at *
  -- mpn_not
  obtain ⟨e3, ok3⟩ := W1.rd Wd.length (by omega)
  rw [List.take_of_length_le (by omega)] at e3
  obtain ⟨_, cl, cn⟩ := Mpz.K.com_n_val r.1 rl
  rw [rn] at cn
  have W2 := W1.wr 0 _ cl (Nat.zero_le _) (by rw [cn]; omega)
  simp only [add_zero_ptr, List.take_zero, List.nil_append, Nat.zero_add, cn,
    List.drop_of_length_le (Nat.le_of_eq rn), List.append_nil] at W2
  simp only [mpn_not, mpn_com_n, e3, ok3, chk_true]
  -- mpn_add_1 (wp, wp, wsize, 1)
  have cne : Mpir.com_n r.1 ≠ [] := by intro h; rw [h] at cn; simp at cn; omega
  obtain ⟨e4, ok4⟩ := W2.rd Wd.length (by omega)
  rw [List.take_of_length_le (by omega)] at e4
  obtain ⟨_, ac, al, an⟩ := Mpz.K.add_1_val (Mpir.com_n r.1) 1 cl (by unfold B; omega) cne
  rw [cn] at an
  have W3 := W2.wr 0 _ al (Nat.zero_le _) (by rw [an]; omega)
  simp only [add_zero_ptr, List.take_zero, List.nil_append, Nat.zero_add, an,
    List.drop_of_length_le (Nat.le_of_eq cn), List.append_nil] at W3
  simp only [mpn_add_1, e4, ok4, chk_true]
  generalize Mpir.add_1 (Mpir.com_n r.1) 1 = a at *
  generalize ((r.2 + a.2) % B + B - 1) % B = cyv
  generalize hcin : (cyv + (if (cyv == B - 1) = true then 1 else 0)) % B = cin
  have hcinB : cin < B := by rw [← hcin]; exact Nat.mod_lt _ hB
  -- MPN_MUL_1C on the high limbs of x
  have hdl : (Xd.drop Wd.length).length = Xd.length - Wd.length := by simp
  obtain ⟨e5, ok5⟩ := W3.rd_src Dx hxw Wd.length (Xd.length - Wd.length) (by omega)
  rw [List.take_of_length_le (by omega)] at e5
  obtain ⟨_, mc, ml, mn⟩ := Mpz.K.mul_1_val (Xd.drop Wd.length) y (Limbs_drop hLX _) hy
  rw [hdl] at mn
  have mne : (Mpir.mul_1 (Xd.drop Wd.length) y).1 ≠ [] := by intro h; rw [h] at mn; simp at mn; omega
  have W4 := W3.append _ ml (by rw [an, mn]; omega)
  rw [an] at W4
  simp only [MPN_MUL_1C, mpn_mul_1, e5, ok5, chk_true]
  generalize Mpir.mul_1 (Xd.drop Wd.length) y = m at *
  obtain ⟨e6, ok6⟩ := W4.rd_off Wd.length (Xd.length - Wd.length) (by simp [an, mn])
  rw [List.drop_left' an, List.take_of_length_le (by omega)] at e6
  obtain ⟨_, a2c, a2l, a2n⟩ := Mpz.K.add_1_val m.1 cin ml hcinB mne
  rw [mn] at a2n
  have W5 := W4.wr_tail Wd.length _ a2l (by simp [an, mn, a2n])
  rw [List.take_left' an] at W5
  simp only [mpn_add_1, e6, ok6, chk_true]
  set a2 := Mpir.add_1 m.1 cin with ha2
  clear_value a2
  -- wp[new_wsize] = cy
  have hl5 : (a.1 ++ a2.1).length = Xd.length := by simp [an, a2n]; omega
  have W6 := W5.append [(m.2 + a2.2) % B] (limb_singleton (Nat.mod_lt _ hB)) (by rw [hl5]; simpa using hroom)
  rw [hl5] at W6
  generalize hco : (m.2 + a2.2) % B = cout at *
  have hcoutB : cout < B := by rw [← hco]; exact Nat.mod_lt _ hB
  have hn' : Xd.length + (if cout != 0 then 1 else 0) ≤ Xd.length + 1 := by split <;> omega
  generalize hnn : Xd.length + (if cout != 0 then 1 else 0) = n' at *
  have hn'' : Xd.length ≤ n' := by rw [← hnn]; omega
  have hl6 : (a.1 ++ a2.1 ++ [cout]).length = Xd.length + 1 := by rw [List.length_append, hl5]; simp
  have htk : (a.1 ++ a2.1 ++ [cout]).take n' = a.1 ++ (a2.1 ++ [cout]).take (n' - Wd.length) := by
    rw [List.append_assoc, List.take_append, an]
    rw [List.take_of_length_le (by omega)]
  by_cases hc2 : (cyv == B - 1) = true
  · -- the held -1: MPN_DECR_U on the limbs above wsize
    simp only [hc2, if_true, show ((1 : Nat) != 0) = true from rfl]
    obtain ⟨e7, ok7⟩ := W6.rd_off Wd.length (n' - Wd.length) (by rw [hl6]; omega)
    rw [List.append_assoc, List.drop_left' an] at e7
    obtain ⟨_, _, dl, dn⟩ := Mpz.K.decr_val ((a2.1 ++ [cout]).take (n' - Wd.length))
      (Limbs_take (Limbs_append.mpr ⟨a2l, limb_singleton hcoutB⟩) _)
    have hhl : ((a2.1 ++ [cout]).take (n' - Wd.length)).length = n' - Wd.length := by simp [a2n]; omega
    rw [hhl] at dn
    have W7 := W6.wr Wd.length _ dl (by rw [hl6]; omega) (by rw [dn]; omega)
    have W8 := W7.take n'
    have e8 : ((a.1 ++ a2.1 ++ [cout]).take Wd.length ++ (Mpir.decr ((a2.1 ++ [cout]).take (n' - Wd.length))).1 ++
        (a.1 ++ a2.1 ++ [cout]).drop (Wd.length + (Mpir.decr ((a2.1 ++ [cout]).take (n' - Wd.length))).1.length)).take n' =
        a.1 ++ (Mpir.decr ((a2.1 ++ [cout]).take (n' - Wd.length))).1 := by
      rw [List.append_assoc a.1, List.take_left' an, List.append_assoc, List.take_append, an]
      rw [List.take_of_length_le (by omega), List.take_append, dn, List.take_of_length_le (by rw [dn])]
      rw [show n' - Wd.length - (n' - Wd.length) = 0 by omega, List.take_zero, List.append_nil]
    rw [e8] at W8
    have F := W8.fin_norm (!wneg)
    have hl8 : (a.1 ++ (Mpir.decr ((a2.1 ++ [cout]).take (n' - Wd.length))).1).length = n' := by simp [an, dn]; omega
    rw [hl8] at F
    subst hnn hco ha2
    simp only [St.store, MPN_DECR_U, e7, ok7, chk_true]
    exact F
  · have hc2' : (cyv == B - 1) = false := by simpa using hc2
    simp only [hc2', Bool.false_eq_true, if_false, show ((0 : Nat) != 0) = false from rfl]
    have W8 := W6.take n'
    rw [htk] at W8
    have F := W8.fin_norm (!wneg)
    have hl8 : (a.1 ++ (a2.1 ++ [cout]).take (n' - Wd.length)).length = n' := by simp [an, a2n]; omega
    rw [hl8] at F
    subst hnn hco ha2
    simp only [St.store]
    exact F

/-! ## mpz_aorsmul_1 -/

theorem grown_base {s s1 : St} {w n : Nat} (G : Grown s s1 w n) (hw : OWF (s.h w)) :
    (s1.h w).buf.limbs.take (view (s.h w)).d.length = (view (s.h w)).d := by
  rw [view_d_length hw, G.take w _ hw.1 (view_fit hw)]; rfl

theorem aorsmul_1_refines (s : St) (w x : Nat) (y : Nat) (sub : Bool) (hs : s.ok = true)
    (hw : OWF (s.h w)) (hx : OWF (s.h x)) (hy : y < B) :
    Refines s (aorsmul_1 1 s w x y sub) w (Mpz.aorsmul_1 (view (s.h w)) (view (s.h x)) y sub) := by
  unfold aorsmul_1 Mpz.aorsmul_1
  rw [show s.SIZ x = (s.h x).size from rfl, show s.SIZ w = (s.h w).size from rfl]
  have e1 : (view (s.h x)).size = (s.h x).size := rfl
  have e2 : (view (s.h w)).size = (s.h w).size := rfl
  rw [e1, e2]
  have hXl := view_d_length hx
  have hWl := view_d_length hw
  have hLX := view_limbs hx
  have hLW := view_limbs hw
  by_cases h0 : ((s.h x).size == 0 || y == 0) = true
  · simp only [h0, if_true]
    exact ⟨hs, rfl, hw.1, fun _ _ => rfl⟩
  · simp only [h0, Bool.false_eq_true, if_false]
    by_cases hw0 : ((s.h w).size == 0) = true
    · simp only [hw0, if_true]
      have G := MPZ_REALLOC_grown s w ((s.h x).size.natAbs + 1) hw
      have Dx := Den.of_grown G hx
      have halloc : (Mpz.grow (view (s.h w)) ((s.h x).size.natAbs + 1)).alloc =
        ((MPZ_REALLOC s w ((s.h x).size.natAbs + 1)).h w).buf.alloc := G.alloc.symm
      rw [halloc]
      refine Refines.of_grown G ?_
      have Z := aorsmul_1_zero_refines _ w x y (sub != decide ((s.h x).size < 0)) (view (s.h x)).d
        (by rw [G.ok]; exact hs) (G.bwf w hw.1) Dx hLX hy (by rw [hXl]; exact G.room)
      rw [hXl] at Z
      exact Z
    · simp only [hw0, Bool.false_eq_true, if_false]
      have hw0' : (s.h w).size ≠ 0 := by simpa using hw0
      have G := MPZ_REALLOC_grown s w (max (s.h w).size.natAbs (s.h x).size.natAbs + 1) hw
      have Dx := Den.of_grown G hx
      have hbase := grown_base G hw
      have halloc : (Mpz.grow (view (s.h w)) (max (s.h w).size.natAbs (s.h x).size.natAbs + 1)).alloc =
        ((MPZ_REALLOC s w (max (s.h w).size.natAbs (s.h x).size.natAbs + 1)).h w).buf.alloc := G.alloc.symm
      rw [halloc]
      refine Refines.of_grown G ?_
      have hok1 : (MPZ_REALLOC s w (max (s.h w).size.natAbs (s.h x).size.natAbs + 1)).ok = true := by rw [G.ok]; exact hs
      have hbw := G.bwf w hw.1
      have hroom : max (view (s.h w)).d.length (view (s.h x)).d.length + 1 ≤
          ((MPZ_REALLOC s w (max (s.h w).size.natAbs (s.h x).size.natAbs + 1)).h w).buf.alloc := by
        rw [hWl, hXl]; exact G.room
      have hxw : x = w → (view (s.h x)).d.length = (view (s.h w)).d.length := by intro h; rw [h]
      by_cases hsub : ((sub != decide ((s.h x).size < 0)) != decide ((s.h w).size < 0)) = true
      · simp only [hsub, Bool.not_true, Bool.false_eq_true, if_false]
        by_cases hge : (s.h w).size.natAbs ≥ (s.h x).size.natAbs
        · simp only [hge, if_true]
          have R := aorsmul_1_sub_ge_refines _ w x y (decide ((s.h w).size < 0)) (view (s.h w)).d (view (s.h x)).d
            hok1 hbw hbase Dx hLW hLX hy (by rw [hWl, hXl]; exact hge) hroom
          rw [hWl, hXl] at R
          exact R
        · simp only [hge, if_false]
          have R := aorsmul_1_sub_lt_refines _ w x y (decide ((s.h w).size < 0)) (view (s.h w)).d (view (s.h x)).d
            hok1 hbw hbase Dx hLW hLX hy (by rw [hWl]; omega) (by rw [hWl, hXl]; omega)
            (by intro h; rw [h] at hge; exact hge (Nat.le_refl _)) hroom
          rw [hWl, hXl] at R
          exact R
      · have hsub' : ((sub != decide ((s.h x).size < 0)) != decide ((s.h w).size < 0)) = false := by simpa using hsub
        simp only [hsub', Bool.not_false, if_true]
        have R := aorsmul_1_add_refines _ w x y (decide ((s.h w).size < 0)) (view (s.h w)).d (view (s.h x)).d
          hok1 hbw hbase Dx hLW hLX hy hxw hroom
        rw [hWl, hXl] at R
        exact R

/-! ## mpz/aorsmul.c -/

/-- `c = mpn_add (wp, up, usize, tp, tsize); wp[usize] = c; size = usize + (c != 0)` (aorsmul.c:115-117): both operands are read
    before anything is stored, either may be w's own limbs or the temporary product -/
theorem add_S_refines (s1 : St) (w : Nat) (up vp : Src) (U V : List Nat) (neg : Bool) (hok : s1.ok = true)
    (hb : BWF (s1.h w).buf) (DU : Den s1 up U) (DV : Den s1 vp V) (hLU : Limbs U) (hLV : Limbs V)
    (hle : V.length ≤ U.length) (hroom : U.length + 1 ≤ (s1.h w).buf.alloc) :
    Refines s1 (((mpn_add_S s1 (s1.PTR w) up U.length vp V.length).1.store (s1.PTR w) U.length
        (mpn_add_S s1 (s1.PTR w) up U.length vp V.length).2).setSize w
          (sgn neg (U.length + (if (mpn_add_S s1 (s1.PTR w) up U.length vp V.length).2 != 0 then 1 else 0)))) w
      ⟨(s1.h w).buf.alloc, sgn neg (U.length + (if (Mpir.add U V).2 != 0 then 1 else 0)),
        ((Mpir.add U V).1 ++ [(Mpir.add U V).2]).take (U.length + (if (Mpir.add U V).2 != 0 then 1 else 0))⟩ := by
  obtain ⟨eu, oku⟩ := DU.rd U.length (Nat.le_refl _)
  obtain ⟨ev, okv⟩ := DV.rd V.length (Nat.le_refl _)
  rw [List.take_length] at eu ev
  obtain ⟨_, ac, al, an⟩ := Mpz.K.add_val U V hLU hLV hle
  simp only [mpn_add_S, eu, ev, oku, okv, Bool.and_self]
  have T := tail_carry s1 w (Mpir.add U V).1 (Mpir.add U V).2 (U.length + (if (Mpir.add U V).2 != 0 then 1 else 0)) neg true
    hok rfl hb al (by have := B_eq; omega) (by rw [an]; exact hroom) (by rw [an]; split <;> omega)
  simp only [an] at T
  exact T

/-- `mpn_sub (wp, up, usize, tp, tsize); MPN_NORMALIZE (wp, usize)` (aorsmul.c:135-137) -/
theorem sub_S_refines (s1 : St) (w : Nat) (up vp : Src) (U V : List Nat) (neg : Bool) (hok : s1.ok = true)
    (hb : BWF (s1.h w).buf) (DU : Den s1 up U) (DV : Den s1 vp V) (hLU : Limbs U) (hLV : Limbs V)
    (hle : V.length ≤ U.length) (hroom : U.length ≤ (s1.h w).buf.alloc) :
    Refines s1 ((MPN_NORMALIZE (mpn_sub_S s1 (s1.PTR w) up U.length vp V.length).1 (s1.PTR w) U.length).2.setSize w
        (sgn neg (MPN_NORMALIZE (mpn_sub_S s1 (s1.PTR w) up U.length vp V.length).1 (s1.PTR w) U.length).1)) w
      ⟨(s1.h w).buf.alloc, sgn neg (Mpir.normalize (Mpir.sub U V).1).length, Mpir.normalize (Mpir.sub U V).1⟩ := by
  obtain ⟨eu, oku⟩ := DU.rd U.length (Nat.le_refl _)
  obtain ⟨ev, okv⟩ := DV.rd V.length (Nat.le_refl _)
  rw [List.take_length] at eu ev
  obtain ⟨_, _, sl, sn⟩ := Mpz.K.sub_val U V hLU hLV hle
  simp only [mpn_sub_S, eu, ev, oku, okv, Bool.and_self]
  have T := tail_norm s1 w (Mpir.sub U V).1 neg true hok rfl hb sl (by rw [sn]; exact hroom)
  simp only [sn] at T
  exact T

/-- the temporary product `tp = TMP_ALLOC_LIMBS (tsize); mpn_mul (tp, xp, xsize, yp, ysize)` (aorsmul.c:95-97) -/
theorem mpn_mul_tmp_spec (s : St) (xp yp : Ptr) (X Y : List Nat) (DX : Den s (.ptr xp) X) (DY : Den s (.ptr yp) Y)
    (hLX : Limbs X) (hLY : Limbs Y) (hY : Y ≠ []) :
    (mpn_mul_tmp s (X.length + Y.length) xp X.length yp Y.length).2.1 = s ∧
    (mpn_mul_tmp s (X.length + Y.length) xp X.length yp Y.length).2.2 = Mpz.topLimb (Mpz.mpn_mul X Y) ∧
    ∀ s' : St, Den s' (.tmp (mpn_mul_tmp s (X.length + Y.length) xp X.length yp Y.length).1 0) (Mpz.mpn_mul X Y) := by
  obtain ⟨ex, okx⟩ := DX.rd X.length (Nat.le_refl _)
  obtain ⟨ey, oky⟩ := DY.rd Y.length (Nat.le_refl _)
  simp only [St.rdS, St.rdOkS] at ex okx ey oky
  rw [List.take_length] at ex ey
  obtain ⟨_, tl, tn⟩ := Mpz.K.mul_basecase_val X Y hLX hLY hY
  have tn' : (Mpz.mpn_mul X Y).length = X.length + Y.length := tn
  refine ⟨?_, ?_, ?_⟩
  · simp only [mpn_mul_tmp, ex, ey, okx, oky, Buf.write, Buf.new, tn', Nat.zero_add, Nat.le_refl, if_true, Bool.and_self, chk_true]
  · simp only [mpn_mul_tmp, ex, ey]
  · intro s'
    simp only [mpn_mul_tmp, ex, ey, Buf.write, Buf.new, tn', Nat.zero_add, Nat.le_refl, if_true]
    refine ⟨rfl, by simp [tn'], ?_⟩
    simp only [List.take_zero, List.nil_append, tn']
    rw [List.take_append_of_le_length (by omega)]
    exact List.take_of_length_le (by omega)

theorem Den.one {s : St} {src : Src} {L : List Nat} (D : Den s src L) (h1 : L.length = 1) :
    (s.rdS (src.add 0) 1).headD junk = L.headD 0 ∧ s.rdOkS (src.add 0) 1 = true := by
  obtain ⟨e, ok⟩ := D.rd_add 0 1 (by omega)
  refine ⟨?_, ok⟩
  rw [e]
  match L, h1 with
  | [a], _ => rfl

theorem aorsmulCore_refines (s : St) (w x y : Nat) (sub : Bool) (hs : s.ok = true)
    (hw : OWF (s.h w)) (hx : OWF (s.h x)) (hy : OWF (s.h y)) (hy0 : (s.h y).size ≠ 0) :
    Refines s (aorsmulCore (fun a b => max a b + 1) true s w x y (s.h x).size (s.h y).size sub) w
      (Mpz.aorsmulCore (view (s.h w)) (view (s.h x)) (view (s.h y)) sub) := by
  unfold aorsmulCore Mpz.aorsmulCore
  rw [show s.SIZ w = (s.h w).size from rfl]
  have e1 : (view (s.h x)).size = (s.h x).size := rfl
  have e2 : (view (s.h w)).size = (s.h w).size := rfl
  have e3 : (view (s.h y)).size = (s.h y).size := rfl
  rw [e1, e2, e3]
  have hXl := view_d_length hx
  have hWl := view_d_length hw
  have hYl := view_d_length hy
  have hLX := view_limbs hx
  have hLW := view_limbs hw
  have hLY := view_limbs hy
  by_cases h1 : ((s.h y).size.natAbs == 1) = true
  · -- the one-limb shortcut into mpz_aorsmul_1
    simp only [h1, if_true]
    have h1' : (view (s.h y)).d.length = 1 := by rw [hYl]; simpa using h1
    obtain ⟨el, okl⟩ := (Den.of_owf hy).one h1'
    simp only [Src.add, St.rdS, St.rdOkS] at el okl
    simp only [St.load, el, okl, chk_true]
    have hy0B : (view (s.h y)).d.headD 0 < B := by
      match hd : (view (s.h y)).d, h1' with
      | [a], _ => rw [hd] at hLY; exact hLY a (by simp)
    exact aorsmul_1_refines s w x _ _ hs hw hx hy0B
  · simp only [h1, Bool.false_eq_true, if_false]
    have hYne : (view (s.h y)).d ≠ [] := by
      intro h; rw [h] at hYl; simp at hYl; omega
    have G := MPZ_REALLOC_grown s w (max (s.h w).size.natAbs ((s.h x).size.natAbs + (s.h y).size.natAbs) + 1) hw
    have Dx := Den.of_grown G hx
    have Dy := Den.of_grown G hy
    have Dw := Den.of_grown G hw
    have halloc : (Mpz.grow (view (s.h w)) (max (s.h w).size.natAbs ((s.h x).size.natAbs + (s.h y).size.natAbs) + 1)).alloc =
      ((MPZ_REALLOC s w (max (s.h w).size.natAbs ((s.h x).size.natAbs + (s.h y).size.natAbs) + 1)).h w).buf.alloc := G.alloc.symm
    rw [halloc]
    refine Refines.of_grown G ?_
    have hok1 : (MPZ_REALLOC s w (max (s.h w).size.natAbs ((s.h x).size.natAbs + (s.h y).size.natAbs) + 1)).ok = true := by
      rw [G.ok]; exact hs
    have hbw := G.bwf w hw.1
    have hroom := G.room
    set s1 := MPZ_REALLOC s w (max (s.h w).size.natAbs ((s.h x).size.natAbs + (s.h y).size.natAbs) + 1) with hs1
    obtain ⟨_, tl, tn⟩ := Mpz.K.mul_basecase_val (view (s.h x)).d (view (s.h y)).d hLX hLY hYne
    have tn' : (Mpz.mpn_mul (view (s.h x)).d (view (s.h y)).d).length = (s.h x).size.natAbs + (s.h y).size.natAbs := by
      rw [← hXl, ← hYl]; exact tn
    have tl' : Limbs (Mpz.mpn_mul (view (s.h x)).d (view (s.h y)).d) := tl
    by_cases hw0 : ((s.h w).size == 0) = true
    · -- w = 0: the product goes straight to wp
      simp only [hw0, if_true]
      obtain ⟨ex, okx⟩ := Dx.rd (view (s.h x)).d.length (Nat.le_refl _)
      obtain ⟨ey, oky⟩ := Dy.rd (view (s.h y)).d.length (Nat.le_refl _)
      simp only [St.rdS, St.rdOkS] at ex okx ey oky
      rw [List.take_length, hXl] at ex
      rw [List.take_length, hYl] at ey
      rw [hXl] at okx
      rw [hYl] at oky
      simp only [mpn_mul, ex, ey, okx, oky, Bool.and_self]
      have W := Wrote.fresh s1 w (Mpz.mpn_mul (view (s.h x)).d (view (s.h y)).d) true hok1 rfl hbw tl' (by rw [tn']; omega)
      have F := W.fin_take (((sub != decide ((s.h y).size < 0)) != decide ((s.h x).size < 0)) != decide ((s.h w).size < 0))
        ((s.h x).size.natAbs + (s.h y).size.natAbs -
          (if Mpz.topLimb (Mpz.mpn_mul (view (s.h x)).d (view (s.h y)).d) == 0 then 1 else 0)) (by rw [tn']; omega)
      exact F
    · simp only [hw0, Bool.false_eq_true, if_false]
      obtain ⟨m1, m2, Dt⟩ := mpn_mul_tmp_spec s1 (s1.PTR x) (s1.PTR y) (view (s.h x)).d (view (s.h y)).d Dx Dy hLX hLY hYne
      rw [hXl, hYl] at m1 m2 Dt
      rw [show mpn_mul_tmp s1 ((s.h x).size.natAbs + (s.h y).size.natAbs) (s1.PTR x) (s.h x).size.natAbs (s1.PTR y)
          (s.h y).size.natAbs = ((mpn_mul_tmp s1 ((s.h x).size.natAbs + (s.h y).size.natAbs) (s1.PTR x) (s.h x).size.natAbs (s1.PTR y)
          (s.h y).size.natAbs).1, (mpn_mul_tmp s1 ((s.h x).size.natAbs + (s.h y).size.natAbs) (s1.PTR x) (s.h x).size.natAbs (s1.PTR y)
          (s.h y).size.natAbs).2.1, (mpn_mul_tmp s1 ((s.h x).size.natAbs + (s.h y).size.natAbs) (s1.PTR x) (s.h x).size.natAbs (s1.PTR y)
          (s.h y).size.natAbs).2.2) from rfl]
      simp only [m1, m2]
      generalize (mpn_mul_tmp s1 ((s.h x).size.natAbs + (s.h y).size.natAbs) (s1.PTR x) (s.h x).size.natAbs (s1.PTR y)
          (s.h y).size.natAbs).1 = tb at *
      generalize Mpz.mpn_mul (view (s.h x)).d (view (s.h y)).d = t at *
      generalize htz : (s.h x).size.natAbs + (s.h y).size.natAbs - (if Mpz.topLimb t == 0 then 1 else 0) = tsz
      have htz' : tsz ≤ t.length := by rw [tn', ← htz]; omega
      have DT : Den s1 (.tmp tb 0) (t.take tsz) := (Dt s1).take tsz
      have hTl : (t.take tsz).length = tsz := by rw [List.length_take]; omega
      have hLT : Limbs (t.take tsz) := Limbs_take tl' _
      rw [← hWl]
      by_cases hsub : (((sub != decide ((s.h y).size < 0)) != decide ((s.h x).size < 0)) != decide ((s.h w).size < 0)) = true
      · -- submul of magnitudes: the bigger one first
        simp only [hsub, Bool.not_true, Bool.false_eq_true, if_false]
        have hcmp : cmp_twosizes_lt s1 (.ptr (s1.PTR w)) (view (s.h w)).d.length (.tmp tb 0) tsz =
            (Mpz.cmp_twosizes_lt (view (s.h w)).d (t.take tsz), s1) := by
          unfold cmp_twosizes_lt Mpz.cmp_twosizes_lt
          rw [hTl]
          by_cases ha : (view (s.h w)).d.length < tsz
          · simp [ha]
          · by_cases hb2 : (view (s.h w)).d.length = tsz
            · obtain ⟨ew, okw⟩ := Dw.rd (view (s.h w)).d.length (Nat.le_refl _)
              obtain ⟨et, okt⟩ := DT.rd (view (s.h w)).d.length (by rw [hTl, hb2])
              rw [List.take_length] at ew
              rw [List.take_of_length_le (by rw [hTl, hb2])] at et
              simp only [ha, if_false, hb2, beq_self_eq_true, if_true]
              rw [hb2] at ew okw et okt
              simp [ew, et, okw, okt, chk_true]
            · have hb3 : ((view (s.h w)).d.length == tsz) = false := by simpa using hb2
              simp [ha, hb3]
        rw [hcmp]
        simp only []
        by_cases hlt : Mpz.cmp_twosizes_lt (view (s.h w)).d (t.take tsz) = true
        · simp only [hlt, if_true]
          have hle : (view (s.h w)).d.length ≤ (t.take tsz).length := by
            unfold Mpz.cmp_twosizes_lt at hlt
            simp only [Bool.or_eq_true, Bool.and_eq_true, decide_eq_true_eq, beq_iff_eq] at hlt
            omega
          have R := sub_S_refines s1 w (.tmp tb 0) (.ptr (s1.PTR w)) (t.take tsz) (view (s.h w)).d
            (decide ((s.h w).size < 0) != true) hok1 hbw DT Dw hLT hLW hle (by rw [hTl]; omega)
          rw [hTl] at R
          exact R
        · have hlt' : Mpz.cmp_twosizes_lt (view (s.h w)).d (t.take tsz) = false := by simpa using hlt
          simp only [hlt', Bool.false_eq_true, if_false]
          have hle : (t.take tsz).length ≤ (view (s.h w)).d.length := by
            unfold Mpz.cmp_twosizes_lt at hlt'
            simp only [Bool.or_eq_false_iff, decide_eq_false_iff_not] at hlt'
            omega
          have R := sub_S_refines s1 w (.ptr (s1.PTR w)) (.tmp tb 0) (view (s.h w)).d (t.take tsz)
            (decide ((s.h w).size < 0) != false) hok1 hbw Dw DT hLW hLT hle (by rw [hWl]; omega)
          rw [hTl] at R
          exact R
      · have hsub' : (((sub != decide ((s.h y).size < 0)) != decide ((s.h x).size < 0)) != decide ((s.h w).size < 0)) = false := by
          simpa using hsub
        simp only [hsub', Bool.not_false, if_true, Bool.true_or]
        by_cases hlt : (view (s.h w)).d.length < tsz
        · simp only [hlt, decide_true, if_true]
          have R := add_S_refines s1 w (.tmp tb 0) (.ptr (s1.PTR w)) (t.take tsz) (view (s.h w)).d
            (decide ((s.h w).size < 0)) hok1 hbw DT Dw hLT hLW (by rw [hTl]; omega) (by rw [hTl]; omega)
          rw [hTl] at R ⊢
          exact R
        · simp only [hlt, decide_false, Bool.false_eq_true, if_false]
          have R := add_S_refines s1 w (.ptr (s1.PTR w)) (.tmp tb 0) (view (s.h w)).d (t.take tsz)
            (decide ((s.h w).size < 0)) hok1 hbw Dw DT hLW hLT (by rw [hTl]; omega) (by rw [hWl]; omega)
          rw [hTl] at R
          exact R

theorem aorsmul_refines (s : St) (w x y : Nat) (sub : Bool) (hs : s.ok = true)
    (hw : OWF (s.h w)) (hx : OWF (s.h x)) (hy : OWF (s.h y)) :
    Refines s (aorsmul (fun a b => max a b + 1) true s w x y sub) w
      (Mpz.aorsmul (view (s.h w)) (view (s.h x)) (view (s.h y)) sub) := by
  unfold aorsmul
  rw [Mpz.aorsmul_eq]
  rw [show s.SIZ x = (s.h x).size from rfl, show s.SIZ y = (s.h y).size from rfl]
  have e1 : (view (s.h x)).size = (s.h x).size := rfl
  have e3 : (view (s.h y)).size = (s.h y).size := rfl
  rw [e1, e3]
  by_cases h0 : ((s.h x).size == 0 || (s.h y).size == 0) = true
  · simp only [h0, if_true]
    exact ⟨hs, rfl, hw.1, fun _ _ => rfl⟩
  · simp only [h0, Bool.false_eq_true, if_false]
    have ⟨hx0, hy0⟩ : (s.h x).size ≠ 0 ∧ (s.h y).size ≠ 0 := by simpa using h0
    by_cases hsw : (s.h y).size.natAbs > (s.h x).size.natAbs
    · simp only [hsw, if_true]
      exact aorsmulCore_refines s w y x sub hs hw hy hx hx0
    · simp only [hsw, if_false]
      exact aorsmulCore_refines s w x y sub hs hw hx hy hy0

end Mpir.AllocSafe
